import ParsecVerif.Model.MaxHeap
/-!
  Arithmetic behind the bit navigation of parsec/maxheap.c: the literal loops / cascades of the model
  (`prime`, `dirsLoop`, `hiBit`, `andNot32`, `splitSizes`) against their mathematical meaning
  (`2 ^ log2 n`, the binary digits of `n`, the sizes `lsz n` / `rsz n` of the two subtrees of the
  left-complete tree with `n` nodes).
-/
namespace ParsecVerif.MaxHeap

/-- highest power of two `≤ n` (for `n ≥ 1`) -/
def hb (n : Nat) : Nat := 2 ^ n.log2

/-- number of nodes of the left / right subtree of the left-complete binary tree with `n` nodes -/
def lsz (n : Nat) : Nat := if n - hb n < hb n / 2 then hb n / 2 + (n - hb n) else hb n - 1
def rsz (n : Nat) : Nat := if n - hb n < hb n / 2 then hb n / 2 - 1 else n - hb n

/-- binary digits `k-1 … 0` of `s`, most significant first -/
def bitsDown (s : Nat) : Nat → List Bool
  | 0 => []
  | k + 1 => s.testBit k :: bitsDown s k

/-- the digits of `s` below its leading one: the path from the root to heap position `s` -/
def pathOf (s : Nat) : List Bool := bitsDown s s.log2

theorem log2_eq (j ρ : Nat) (h : ρ < 2 ^ j) : (2 ^ j + ρ).log2 = j := by
  rw [Nat.log2_eq_iff (by have := Nat.two_pow_pos j; omega)]
  constructor
  · omega
  · rw [Nat.pow_succ]; omega

theorem hb_eq (j ρ : Nat) (h : ρ < 2 ^ j) : hb (2 ^ j + ρ) = 2 ^ j := by
  unfold hb; rw [log2_eq j ρ h]

theorem decomp (n : Nat) (h : n ≠ 0) : ∃ j ρ, n = 2 ^ j + ρ ∧ ρ < 2 ^ j := by
  refine ⟨n.log2, n - 2 ^ n.log2, ?_, ?_⟩
  · have := Nat.log2_self_le h; omega
  · have := @Nat.lt_log2_self n; rw [Nat.pow_succ] at this; omega

/-- decomposition of a size `≥ 2` -/
theorem decomp2 (n : Nat) (h : 2 ≤ n) : ∃ j ρ, n = 2 ^ (j + 1) + ρ ∧ ρ < 2 ^ (j + 1) := by
  obtain ⟨j, ρ, h1, h2⟩ := decomp n (by omega)
  cases j with
  | zero => simp at h2; subst h2; simp at h1; omega
  | succ j => exact ⟨j, ρ, h1, h2⟩

theorem lsz_one : lsz 1 = 0 := by
  have := hb_eq 0 0 (by simp); simp at this; simp [lsz, this]
theorem rsz_one : rsz 1 = 0 := by
  have := hb_eq 0 0 (by simp); simp at this; simp [rsz, this]

theorem lsz_val (j ρ : Nat) (h : ρ < 2 ^ (j + 1)) :
    lsz (2 ^ (j + 1) + ρ) = if ρ < 2 ^ j then 2 ^ j + ρ else 2 ^ (j + 1) - 1 := by
  unfold lsz; rw [hb_eq _ _ h]
  have : 2 ^ (j + 1) / 2 = 2 ^ j := by rw [Nat.pow_succ]; omega
  rw [this]
  have e : 2 ^ (j + 1) + ρ - 2 ^ (j + 1) = ρ := by omega
  rw [e]

theorem rsz_val (j ρ : Nat) (h : ρ < 2 ^ (j + 1)) :
    rsz (2 ^ (j + 1) + ρ) = if ρ < 2 ^ j then 2 ^ j - 1 else ρ := by
  unfold rsz; rw [hb_eq _ _ h]
  have : 2 ^ (j + 1) / 2 = 2 ^ j := by rw [Nat.pow_succ]; omega
  rw [this]
  have e : 2 ^ (j + 1) + ρ - 2 ^ (j + 1) = ρ := by omega
  rw [e]

/-- the two subtrees and the root make up the tree -/
theorem lsz_add_rsz (n : Nat) (h : n ≠ 0) : lsz n + rsz n + 1 = n := by
  by_cases h1 : n = 1
  · subst h1; rw [lsz_one, rsz_one]
  · obtain ⟨j, ρ, e, hρ⟩ := decomp2 n (by omega)
    subst e
    rw [lsz_val j ρ hρ, rsz_val j ρ hρ]
    have := Nat.two_pow_pos j
    rw [Nat.pow_succ] at hρ ⊢
    split <;> omega

/-- sizes of the subtrees of the tree with one node less (`s = 2^(j+1) + ρ ≥ 2`) -/
theorem lsz_rsz_pred (j ρ : Nat) (h : ρ < 2 ^ (j + 1)) :
    lsz (2 ^ (j + 1) + ρ - 1) = (if ρ < 2 ^ j then 2 ^ j + ρ - 1 else 2 ^ (j + 1) - 1) ∧
    rsz (2 ^ (j + 1) + ρ - 1) = (if ρ < 2 ^ j then 2 ^ j - 1 else ρ - 1) := by
  have hp := Nat.two_pow_pos j
  by_cases h0 : ρ = 0
  · subst h0
    cases j with
    | zero => simp [lsz_one, rsz_one]
    | succ j' =>
      have hq := Nat.two_pow_pos j'
      have e : 2 ^ (j' + 1 + 1) + 0 - 1 = 2 ^ (j' + 1) + (2 ^ (j' + 1) - 1) := by
        rw [Nat.pow_succ 2 (j' + 1)]; omega
      have hlt : 2 ^ (j' + 1) - 1 < 2 ^ (j' + 1) := by omega
      rw [e, lsz_val j' _ hlt, rsz_val j' _ hlt]
      have : ¬ (2 ^ (j' + 1) - 1 < 2 ^ j') := by rw [Nat.pow_succ]; omega
      simp only [this, if_false]
      have : 0 < 2 ^ (j' + 1) := Nat.two_pow_pos _
      simp only [this, if_true]
      simp
  · have e : 2 ^ (j + 1) + ρ - 1 = 2 ^ (j + 1) + (ρ - 1) := by omega
    have hlt : ρ - 1 < 2 ^ (j + 1) := by omega
    rw [e, lsz_val j _ hlt, rsz_val j _ hlt]
    rw [Nat.pow_succ] at h ⊢
    constructor <;> (split <;> split <;> omega)

/-! ## binary digits -/

theorem bitsDown_congr (s s' : Nat) (m : Nat) (h : ∀ i, i < m → s.testBit i = s'.testBit i) :
    bitsDown s m = bitsDown s' m := by
  induction m with
  | zero => rfl
  | succ k ih =>
    simp only [bitsDown]
    rw [h k (by omega), ih (fun i hi => h i (by omega))]

theorem testBit_top (j ρ : Nat) (h : ρ < 2 ^ (j + 1)) :
    (2 ^ (j + 1) + ρ).testBit j = decide (2 ^ j ≤ ρ) := by
  rw [Nat.testBit_two_pow_add_gt (by omega)]
  by_cases hc : 2 ^ j ≤ ρ
  · have e : ρ = 2 ^ j + (ρ - 2 ^ j) := by omega
    rw [e, Nat.testBit_two_pow_add_eq]
    have : (ρ - 2 ^ j).testBit j = false := Nat.testBit_lt_two_pow (by rw [Nat.pow_succ] at h; omega)
    simp [this]
  · have : ρ.testBit j = false := Nat.testBit_lt_two_pow (by omega)
    simp [this, hc]

/-- the path to position `s ≥ 2`: first digit = "the last node is in the right subtree", then the path
    inside that subtree, whose own size is `ρ` (right) resp. `2^j + ρ` (left) -/
theorem pathOf_step (j ρ : Nat) (h : ρ < 2 ^ (j + 1)) :
    pathOf (2 ^ (j + 1) + ρ) =
      decide (2 ^ j ≤ ρ) :: pathOf (if 2 ^ j ≤ ρ then ρ else 2 ^ j + ρ) := by
  unfold pathOf
  rw [log2_eq (j + 1) ρ h]
  simp only [bitsDown]
  rw [testBit_top j ρ h]
  congr 1
  by_cases hc : 2 ^ j ≤ ρ
  · simp only [hc, if_true]
    have e : ρ = 2 ^ j + (ρ - 2 ^ j) := by omega
    have hl : ρ.log2 = j := by
      rw [e]; exact log2_eq j _ (by rw [Nat.pow_succ] at h; omega)
    rw [hl]
    exact bitsDown_congr _ _ _ (fun i hi => Nat.testBit_two_pow_add_gt (by omega) ρ)
  · simp only [hc, if_false]
    rw [log2_eq j ρ (by omega)]
    apply bitsDown_congr
    intro i hi
    rw [Nat.testBit_two_pow_add_gt (by omega), Nat.testBit_two_pow_add_gt hi]

theorem pathOf_one : pathOf 1 = [] := by
  have : (1 : Nat).log2 = 0 := by have := log2_eq 0 0 (by simp); simpa using this
  simp [pathOf, this, bitsDown]

/-! ## the literal loops -/

theorem and_two_pow (a x : Nat) : (2 ^ a &&& x != 0) = x.testBit a := by
  have e : 2 ^ a &&& x = if x.testBit a then 2 ^ a else 0 := by
    apply Nat.eq_of_testBit_eq
    intro i
    rw [Nat.testBit_and, Nat.testBit_two_pow]
    by_cases hi : a = i
    · subst hi
      cases hx : x.testBit a <;> simp
    · cases hx : x.testBit a <;> simp [hi]
  rw [e]
  have := Nat.two_pow_pos a
  cases hx : x.testBit a <;> simp <;> omega

theorem primeLoop_eq (size : Nat) (hs : size ≠ 0) :
    ∀ (f a : Nat), a ≤ size.log2 + 1 → size.log2 + 1 ≤ a + f →
      primeLoop f (2 ^ a) size = 2 ^ (size.log2 + 1) := by
  intro f
  induction f with
  | zero => intro a h1 h2; have : a = size.log2 + 1 := by omega
            simp [primeLoop, this]
  | succ f ih =>
    intro a h1 h2
    simp only [primeLoop]
    by_cases hc : 2 ^ a ≤ size
    · have ha : a ≤ size.log2 := (Nat.le_log2 hs).2 hc
      simp only [hc, if_true]
      rw [← Nat.pow_succ]
      exact ih (a + 1) (by omega) (by omega)
    · have ha : ¬ a ≤ size.log2 := fun hh => hc ((Nat.le_log2 hs).1 hh)
      simp only [hc, if_false]
      have : a = size.log2 + 1 := by omega
      rw [this]

theorem log2_le_self (n : Nat) : n.log2 ≤ n := by
  by_cases h : n = 0
  · subst h; simp
  · have h1 := Nat.log2_self_le h
    have h2 := @Nat.lt_two_pow_self n.log2
    omega

theorem prime_eq (size : Nat) (hs : size ≠ 0) : prime size = 2 ^ (size.log2 + 1) := by
  unfold prime
  have := primeLoop_eq size hs (size + 1) 0 (by omega) (by have := log2_le_self size; omega)
  simpa using this

theorem dirsLoop_eq (size : Nat) : ∀ (f a : Nat), a + 1 ≤ f →
    dirsLoop size f (2 ^ a) = bitsDown size (a + 1) := by
  intro f
  induction f with
  | zero => intro a h; omega
  | succ f ih =>
    intro a h
    simp only [dirsLoop, bitsDown]
    rw [and_two_pow]
    cases a with
    | zero => simp [bitsDown]
    | succ a =>
      have h1 : 2 ^ (a + 1) > 1 := by have := Nat.two_pow_pos a; rw [Nat.pow_succ]; omega
      simp only [h1, if_true]
      have e : 2 ^ (a + 1) >>> 1 = 2 ^ a := by
        rw [Nat.shiftRight_eq_div_pow, Nat.pow_succ]; simp
      rw [e, ih a (by omega)]

/-- the mask loops of heap_insert / heap_remove compute the binary path to position `size` -/
theorem pathBits_eq (s : Nat) (h : 2 ≤ s) : pathBits s = pathOf s := by
  obtain ⟨j, ρ, e, hρ⟩ := decomp2 s h
  unfold pathBits pathOf
  rw [prime_eq s (by omega)]
  have hl : s.log2 = j + 1 := by rw [e]; exact log2_eq (j + 1) ρ hρ
  rw [hl]
  have e2 : 2 ^ (j + 1 + 1) >>> 2 = 2 ^ j := by
    rw [Nat.shiftRight_eq_div_pow, Nat.pow_succ, Nat.pow_succ]
    have : 2 ^ j * 2 * 2 = 2 ^ j * 2 ^ 2 := by omega
    rw [this, Nat.mul_div_cancel _ (by decide)]
  rw [e2]
  have := log2_le_self s
  exact dirsLoop_eq s (s + 1) j (by omega)

/-! ## hiBit -/

theorem smear_step (n a m : Nat)
    (h : ∀ i, a.testBit i = true ↔ ∃ d, d < m ∧ n.testBit (i + d) = true) :
    ∀ i, (a ||| (a >>> m)).testBit i = true ↔ ∃ d, d < 2 * m ∧ n.testBit (i + d) = true := by
  intro i
  rw [Nat.testBit_or, Nat.testBit_shiftRight, Bool.or_eq_true, h, h]
  constructor
  · rintro (⟨d, hd, hb⟩ | ⟨d, hd, hb⟩)
    · exact ⟨d, by omega, hb⟩
    · exact ⟨m + d, by omega, by rw [← hb]; congr 1; omega⟩
  · rintro ⟨d, hd, hb⟩
    by_cases hc : d < m
    · exact Or.inl ⟨d, hc, hb⟩
    · exact Or.inr ⟨d - m, by omega, by rw [← hb]; congr 1; omega⟩

theorem hiBit_eq (n : Nat) (h0 : n ≠ 0) (h32 : n < 2 ^ 32) : hiBit n = 2 ^ n.log2 := by
  have hk : n.log2 < 32 := (Nat.log2_lt h0).2 h32
  have p1 : ∀ i, n.testBit i = true ↔ ∃ d, d < 1 ∧ n.testBit (i + d) = true := by
    intro i; constructor
    · intro h; exact ⟨0, by omega, by simpa using h⟩
    · rintro ⟨d, hd, hb⟩; have : d = 0 := by omega
      subst this; simpa using hb
  have p2 := smear_step n _ 1 p1
  have p4 := smear_step n _ 2 p2
  have p8 := smear_step n _ 4 p4
  have p16 := smear_step n _ 8 p8
  have p32 := smear_step n _ 16 p16
  simp only [hiBit]
  generalize hn5 : (n ||| n >>> 1 ||| (n ||| n >>> 1) >>> 2 ||| (n ||| n >>> 1 ||| (n ||| n >>> 1) >>> 2) >>> 4 |||
      (n ||| n >>> 1 ||| (n ||| n >>> 1) >>> 2 ||| (n ||| n >>> 1 ||| (n ||| n >>> 1) >>> 2) >>> 4) >>> 8 |||
      (n ||| n >>> 1 ||| (n ||| n >>> 1) >>> 2 ||| (n ||| n >>> 1 ||| (n ||| n >>> 1) >>> 2) >>> 4 |||
      (n ||| n >>> 1 ||| (n ||| n >>> 1) >>> 2 ||| (n ||| n >>> 1 ||| (n ||| n >>> 1) >>> 2) >>> 4) >>> 8) >>> 16) = n5 at p32
  have e5 : n5 = 2 ^ (n.log2 + 1) - 1 := by
    apply Nat.eq_of_testBit_eq
    intro i
    rw [Nat.testBit_two_pow_sub_one]
    by_cases hi : i < n.log2 + 1
    · have : n5.testBit i = true := (p32 i).2 ⟨n.log2 - i, by omega, by
        have : i + (n.log2 - i) = n.log2 := by omega
        rw [this]; exact Nat.testBit_log2 h0⟩
      simp [this, hi]
    · have : n5.testBit i = false := by
        cases hb : n5.testBit i with
        | false => rfl
        | true =>
          obtain ⟨d, _, hd⟩ := (p32 i).1 hb
          have hlt : n < 2 ^ (i + d) :=
            Nat.lt_of_lt_of_le (@Nat.lt_log2_self n) (Nat.pow_le_pow_right (by decide) (by omega))
          rw [Nat.testBit_lt_two_pow hlt] at hd
          exact absurd hd (by simp)
      simp [this, hi]
  rw [e5, Nat.shiftRight_eq_div_pow, Nat.pow_succ]
  have := Nat.two_pow_pos n.log2
  omega

theorem andNot32_eq (k ρ : Nat) (hk : k < 32) (h : ρ < 2 ^ k) : andNot32 (2 ^ k) (2 ^ k + ρ) = ρ := by
  unfold andNot32
  have e32 : (4294967295 : Nat) = 2 ^ 32 - 1 := by decide
  apply Nat.eq_of_testBit_eq
  intro i
  rw [Nat.testBit_and, Nat.testBit_xor, Nat.testBit_two_pow, e32, Nat.testBit_two_pow_sub_one]
  rcases Nat.lt_trichotomy i k with hi | hi | hi
  · rw [Nat.testBit_two_pow_add_gt hi]
    have h1 : ¬ k = i := by omega
    have h2 : i < 32 := by omega
    simp [h1, h2]
  · subst hi
    have : ρ.testBit i = false := Nat.testBit_lt_two_pow h
    simp [this, hk]
  · have h1 : ¬ k = i := by omega
    have hlt : 2 ^ k + ρ < 2 ^ i :=
      Nat.lt_of_lt_of_le (by rw [Nat.pow_succ]; omega : 2 ^ k + ρ < 2 ^ (k + 1)) (Nat.pow_le_pow_right (by decide) hi)
    have hlt2 : ρ < 2 ^ i := by omega
    rw [Nat.testBit_lt_two_pow hlt, Nat.testBit_lt_two_pow hlt2]
    simp

/-- the sizes written by heap_split_and_steal are the sizes of the two subtrees -/
theorem splitSizes_eq (n : Nat) (h3 : 2 ≤ n) (h32 : n < 2 ^ 32) : splitSizes n = (lsz n, rsz n) := by
  obtain ⟨j, ρ, e, hρ⟩ := decomp2 n h3
  have hl : n.log2 = j + 1 := by rw [e]; exact log2_eq (j + 1) ρ hρ
  have hj : j + 1 < 32 := by rw [← hl]; exact (Nat.log2_lt (by omega)).2 h32
  have hh : hiBit n = 2 ^ (j + 1) := by rw [hiBit_eq n (by omega) h32, hl]
  have e1 : 2 ^ (j + 1) >>> 1 = 2 ^ j := by rw [Nat.shiftRight_eq_div_pow, Nat.pow_succ]; simp
  simp only [splitSizes]
  rw [hh, e1, and_two_pow]
  subst e
  rw [testBit_top j ρ hρ, andNot32_eq (j + 1) ρ hj hρ, lsz_val j ρ hρ, rsz_val j ρ hρ]
  have hp := Nat.two_pow_pos j
  rw [Nat.pow_succ] at hρ ⊢
  by_cases hc : 2 ^ j ≤ ρ
  · have : ¬ ρ < 2 ^ j := by omega
    simp only [hc, decide_true, if_true, this, if_false]
    congr 1; omega
  · have : ρ < 2 ^ j := by omega
    simp only [hc, decide_false, this, if_true]
    simp only [Bool.false_eq_true, if_false]
    congr 1
    · omega
    · omega

end ParsecVerif.MaxHeap
