import ParsecVerif.Model.PList
/-!
  Helper lemmas for C31 (sorted insertion, cursor insertion, bottom-up merge sort, ring insertion).
-/
namespace ParsecVerif.PList

/-- non-increasing priority order (the order sorted insertion maintains) -/
def SortedDesc (l : List Item) : Prop := l.Pairwise (fun a b => b.prio ≤ a.prio)
/-- non-decreasing priority order (the order `parsec_list_sort` produces) -/
def SortedAsc (l : List Item) : Prop := l.Pairwise (fun a b => a.prio ≤ b.prio)

/-! ### forward / backward insertion -/

theorem insFwd_split (x : Item) (a b : List Item) (ha : ∀ y ∈ a, x.prio ≤ y.prio)
    (hb : ∀ y ∈ b, y.prio < x.prio) : insFwd x (a ++ b) = a ++ x :: b := by
  induction a with
  | nil =>
    cases b with
    | nil => rfl
    | cons y t => simp [insFwd, hb y (by simp)]
  | cons y t ih =>
    have h1 : ¬ y.prio < x.prio := by have := ha y (by simp); omega
    simp [insFwd, h1, ih (fun z hz => ha z (by simp [hz]))]

theorem insBwdRev_split (x : Item) (b a : List Item) (hb : ∀ y ∈ b, y.prio < x.prio)
    (ha : ∀ y ∈ a, x.prio ≤ y.prio) : insBwdRev x (b ++ a) = b ++ x :: a := by
  induction b with
  | nil =>
    cases a with
    | nil => rfl
    | cons y t =>
      have h1 : ¬ y.prio < x.prio := by have := ha y (by simp); omega
      simp [insBwdRev, h1]
  | cons y t ih =>
    simp [insBwdRev, hb y (by simp), ih (fun z hz => hb z (by simp [hz]))]

theorem insBwd_split (x : Item) (a b : List Item) (ha : ∀ y ∈ a, x.prio ≤ y.prio)
    (hb : ∀ y ∈ b, y.prio < x.prio) : insBwd x (a ++ b) = a ++ x :: b := by
  unfold insBwd
  rw [List.reverse_append, insBwdRev_split x b.reverse a.reverse (by simpa using hb) (by simpa using ha)]
  simp

/-- a non-increasing sequence splits into the items `≥ x` and the items `< x` -/
theorem sorted_split (x : Item) (l : List Item) (hs : SortedDesc l) :
    ∃ a b, l = a ++ b ∧ (∀ y ∈ a, x.prio ≤ y.prio) ∧ (∀ y ∈ b, y.prio < x.prio) := by
  induction l with
  | nil => exact ⟨[], [], rfl, by simp, by simp⟩
  | cons y t ih =>
    have hs' := List.pairwise_cons.1 hs
    by_cases h : x.prio ≤ y.prio
    · obtain ⟨a, b, e, ha, hb⟩ := ih hs'.2
      refine ⟨y :: a, b, by simp [e], ?_, hb⟩
      intro z hz
      rcases List.mem_cons.1 hz with rfl | hz
      · exact h
      · exact ha z hz
    · refine ⟨[], y :: t, rfl, by simp, ?_⟩
      intro z hz
      rcases List.mem_cons.1 hz with rfl | hz
      · omega
      · have := hs'.1 z hz; omega

theorem sortedDesc_insert (x : Item) (a b : List Item) (hs : SortedDesc (a ++ b))
    (ha : ∀ y ∈ a, x.prio ≤ y.prio) (hb : ∀ y ∈ b, y.prio < x.prio) : SortedDesc (a ++ x :: b) := by
  unfold SortedDesc at *
  rw [List.pairwise_append] at hs ⊢
  refine ⟨hs.1, List.pairwise_cons.2 ⟨fun z hz => by have := hb z hz; omega, hs.2.1⟩, ?_⟩
  intro u hu v hv
  rcases List.mem_cons.1 hv with rfl | hv
  · exact ha u hu
  · exact hs.2.2 u hu v hv

theorem insFwd_append_ge (x : Item) (a b : List Item) (ha : ∀ y ∈ a, x.prio ≤ y.prio) :
    insFwd x (a ++ b) = a ++ insFwd x b := by
  induction a with
  | nil => rfl
  | cons y t ih =>
    have h1 : ¬ y.prio < x.prio := by have := ha y (by simp); omega
    simp [insFwd, h1, ih (fun z hz => ha z (by simp [hz]))]

theorem insFwd_perm (x : Item) (l : List Item) : (insFwd x l).Perm (x :: l) := by
  induction l with
  | nil => exact List.Perm.refl _
  | cons y t ih =>
    unfold insFwd
    split
    · exact List.Perm.refl _
    · exact (List.Perm.cons y ih).trans (List.Perm.swap x y t)

theorem insBwdRev_perm (x : Item) (l : List Item) : (insBwdRev x l).Perm (x :: l) := by
  induction l with
  | nil => exact List.Perm.refl _
  | cons y t ih =>
    unfold insBwdRev
    split
    · exact (List.Perm.cons y ih).trans (List.Perm.swap x y t)
    · exact List.Perm.refl _

theorem insBwd_perm (x : Item) (l : List Item) : (insBwd x l).Perm (x :: l) := by
  unfold insBwd
  refine (List.reverse_perm _).trans ((insBwdRev_perm x l.reverse).trans ?_)
  exact List.Perm.cons x (List.reverse_perm l)

theorem pushSorted_perm (l : List Item) (x : Item) : (pushSorted l x).Perm (x :: l) := by
  unfold pushSorted
  split
  · exact List.Perm.refl _
  · split
    · exact insFwd_perm x _
    · exact insBwd_perm x _

theorem length_insFwd (x : Item) (l : List Item) : (insFwd x l).length = l.length + 1 := by
  simpa using (insFwd_perm x l).length_eq

theorem scanLen_le (x : Item) (l : List Item) : scanLen x l ≤ l.length := by
  induction l with
  | nil => simp [scanLen]
  | cons y t ih => unfold scanLen; split <;> simp <;> omega

/-! ### ring insertion -/

theorem insRing_split (x : Item) (a b : List Item) (ha : ∀ y ∈ a, x.prio < y.prio)
    (hb : ∀ y ∈ b, y.prio ≤ x.prio) : insRing x (a ++ b) = a ++ x :: b := by
  induction a with
  | nil =>
    cases b with
    | nil => rfl
    | cons y t =>
      have h1 : ¬ x.prio < y.prio := by have := hb y (by simp); omega
      simp [insRing, h1]
  | cons y t ih =>
    simp [insRing, ha y (by simp), ih (fun z hz => ha z (by simp [hz]))]

theorem sorted_split_strict (x : Item) (l : List Item) (hs : SortedDesc l) :
    ∃ a b, l = a ++ b ∧ (∀ y ∈ a, x.prio < y.prio) ∧ (∀ y ∈ b, y.prio ≤ x.prio) := by
  induction l with
  | nil => exact ⟨[], [], rfl, by simp, by simp⟩
  | cons y t ih =>
    have hs' := List.pairwise_cons.1 hs
    by_cases h : x.prio < y.prio
    · obtain ⟨a, b, e, ha, hb⟩ := ih hs'.2
      refine ⟨y :: a, b, by simp [e], ?_, hb⟩
      intro z hz
      rcases List.mem_cons.1 hz with rfl | hz
      · exact h
      · exact ha z hz
    · refine ⟨[], y :: t, rfl, by simp, ?_⟩
      intro z hz
      rcases List.mem_cons.1 hz with rfl | hz
      · omega
      · have := hs'.1 z hz; omega

theorem sortedDesc_insert_strict (x : Item) (a b : List Item) (hs : SortedDesc (a ++ b))
    (ha : ∀ y ∈ a, x.prio < y.prio) (hb : ∀ y ∈ b, y.prio ≤ x.prio) : SortedDesc (a ++ x :: b) := by
  unfold SortedDesc at *
  rw [List.pairwise_append] at hs ⊢
  refine ⟨hs.1, List.pairwise_cons.2 ⟨fun z hz => hb z hz, hs.2.1⟩, ?_⟩
  intro u hu v hv
  rcases List.mem_cons.1 hv with rfl | hv
  · have := ha u hu; omega
  · exact hs.2.2 u hu v hv

theorem insRing_perm (x : Item) (l : List Item) : (insRing x l).Perm (x :: l) := by
  induction l with
  | nil => exact List.Perm.refl _
  | cons y t ih =>
    unfold insRing
    split
    · exact (List.Perm.cons y ih).trans (List.Perm.swap x y t)
    · exact List.Perm.refl _

/-! ### the merge sort -/

theorem mergeQ_perm (p q : List Item) : (mergeQ p q).Perm (p ++ q) := by
  fun_induction mergeQ p q with
  | case1 q => simp
  | case2 a p => simp
  | case3 a p b q _ ih => exact List.Perm.cons a ih
  | case4 a p b q _ ih =>
    refine (List.Perm.cons b ih).trans ?_
    have : (a :: p ++ b :: q).Perm (b :: (a :: p ++ q)) := List.perm_middle
    exact this.symm

theorem mergeQ_sorted (p q : List Item) (hp : SortedAsc p) (hq : SortedAsc q) : SortedAsc (mergeQ p q) := by
  fun_induction mergeQ p q with
  | case1 q => exact hq
  | case2 a p => exact hp
  | case3 a p b q h ih =>
    have hp' := List.pairwise_cons.1 hp
    have hq' := List.pairwise_cons.1 hq
    refine List.pairwise_cons.2 ⟨?_, ih hp'.2 hq⟩
    intro z hz
    have hz' := (mergeQ_perm p (b :: q)).mem_iff.1 hz
    rcases List.mem_append.1 hz' with h1 | h1
    · exact hp'.1 z h1
    · rcases List.mem_cons.1 h1 with rfl | h2
      · omega
      · have := hq'.1 z h2; omega
  | case4 a p b q h ih =>
    have hp' := List.pairwise_cons.1 hp
    have hq' := List.pairwise_cons.1 hq
    refine List.pairwise_cons.2 ⟨?_, ih hp hq'.2⟩
    intro z hz
    have hz' := (mergeQ_perm (a :: p) q).mem_iff.1 hz
    rcases List.mem_append.1 hz' with h1 | h1
    · rcases List.mem_cons.1 h1 with rfl | h2
      · omega
      · have := hp'.1 z h2; omega
    · exact hq'.1 z h1

theorem pass_perm (n : Nat) (l : List Item) : (pass n l).Perm l := by
  fun_induction pass n l with
  | case1 l h => exact List.Perm.refl _
  | case2 l h ih =>
    have e : l = l.take n ++ ((l.drop n).take n ++ l.drop (2 * n)) := by
      have h1 : l.drop (2 * n) = (l.drop n).drop n := by rw [List.drop_drop]; congr 1; omega
      rw [h1, List.take_append_drop, List.take_append_drop]
    refine ((mergeQ_perm _ _).append ih).trans ?_
    rw [List.append_assoc]
    exact (List.Perm.of_eq e.symm)

/-- every aligned block of `n` consecutive items is in non-decreasing order -/
def ChunkSorted (n : Nat) (l : List Item) : Prop := ∀ i, SortedAsc ((l.drop (i * n)).take n)

theorem chunkSorted_one (l : List Item) : ChunkSorted 1 l := by
  intro i
  have h : ((l.drop (i * 1)).take 1).length ≤ 1 := by simp [List.length_take]; omega
  generalize (l.drop (i * 1)).take 1 = m at h
  match m, h with
  | [], _ => exact List.Pairwise.nil
  | [a], _ => exact List.pairwise_singleton _ a
  | _ :: _ :: _, h => simp at h

theorem chunkSorted_drop (n : Nat) (l : List Item) (h : ChunkSorted n l) : ChunkSorted n (l.drop (2 * n)) := by
  intro i
  have := h (i + 2)
  rw [List.drop_drop]
  have e : 2 * n + i * n = (i + 2) * n := by
    rw [Nat.add_mul]; omega
  rw [e]; exact this

theorem chunkSorted_append (m : Nat) (M R : List Item) (hM : SortedAsc M)
    (hlen : M.length = m ∨ (R = [] ∧ M.length ≤ m)) (hR : ChunkSorted m R) : ChunkSorted m (M ++ R) := by
  intro i
  rcases hlen with hl | ⟨hr, hl⟩
  · cases i with
    | zero =>
      simp only [Nat.zero_mul, List.drop_zero]
      rw [List.take_append_of_le_length (by omega)]
      rw [List.take_of_length_le (by omega)]
      exact hM
    | succ j =>
      have e : (j + 1) * m = M.length + j * m := by rw [Nat.add_mul, hl]; omega
      rw [e, List.drop_append, List.drop_eq_nil_of_le (by omega), Nat.add_sub_cancel_left, List.nil_append]
      exact hR j
  · subst hr
    simp only [List.append_nil]
    exact hM.sublist ((List.take_sublist _ _).trans (List.drop_sublist _ _))

theorem pass_chunk (n : Nat) (hn : 1 ≤ n) (l : List Item) (h : ChunkSorted n l) :
    ChunkSorted (2 * n) (pass n l) := by
  fun_induction pass n l with
  | case1 l hc =>
    rcases hc with hc | hc
    · omega
    · subst hc; intro i; simp; exact List.Pairwise.nil
  | case2 l hc ih =>
    have h0 := h 0
    have h1 := h 1
    simp only [Nat.zero_mul, List.drop_zero, Nat.one_mul] at h0 h1
    have hM := mergeQ_sorted _ _ h0 h1
    refine chunkSorted_append (2 * n) _ _ hM ?_ (ih (chunkSorted_drop n l h))
    by_cases hl : 2 * n ≤ l.length
    · left
      simp only [length_mergeQ, List.length_take, List.length_drop]
      omega
    · right
      have : l.drop (2 * n) = [] := List.drop_eq_nil_of_le (by omega)
      rw [this]
      refine ⟨by unfold pass; simp, ?_⟩
      simp only [length_mergeQ, List.length_take, List.length_drop]
      omega

theorem msortLoop_sorted (n : Nat) (hn : 1 ≤ n) (l : List Item) (h : ChunkSorted n l) :
    SortedAsc (msortLoop n l) := by
  fun_induction msortLoop n l with
  | case1 n l hc =>
    have hl : l.length ≤ 2 * n := by omega
    have := pass_chunk n hn l h 0
    simp only [Nat.zero_mul, List.drop_zero] at this
    rwa [List.take_of_length_le (by rw [length_pass]; exact hl)] at this
  | case2 n l hc ih =>
    exact ih (by omega) (pass_chunk n hn l h)

theorem msortLoop_perm (n : Nat) (l : List Item) : (msortLoop n l).Perm l := by
  fun_induction msortLoop n l with
  | case1 n l hc => exact pass_perm n l
  | case2 n l hc ih => exact ih.trans (pass_perm n l)

end ParsecVerif.PList
