/-
  Invariants of the lock-free LIFO model (Model/Lifo.lean), rely/guarantee style:
  `GInv`   global: the heap chain from the head is exactly the ghost stack, no duplicates, ownership partition;
  `TInv`   per thread and program point (what the thread knows about its saved values);
  `Stable` what a step of ANOTHER thread preserves (counter monotone; while the counter is unchanged
           the items of the stack stay in the stack with unchanged `next`; items owned by the thread
           keep their owner and their `next`).
-/
import ParsecVerif.Model.Lifo

namespace ParsecVerif.Lifo

theorem upd_same (f : Nat → Nat) (a v : Nat) : upd f a v a = v := by simp [upd]
theorem upd_ne (f : Nat → Nat) (a v x : Nat) (h : x ≠ a) : upd f a v x = f x := by simp [upd, h]

/-! ## linked segments -/

theorem IsSeg.congr {f g : Nat → Nat} : ∀ {l : List Nat} {h e : Nat},
    (∀ x ∈ l, f x = g x) → IsSeg f h l e → IsSeg g h l e
  | [], _, _, _, hs => hs
  | x :: xs, h, e, hfg, hs => by
    simp only [IsSeg] at hs ⊢
    obtain ⟨h1, h2, h3⟩ := hs
    refine ⟨h1, h2, ?_⟩
    rw [← hfg x (List.mem_cons_self ..)]
    exact IsSeg.congr (fun y hy => hfg y (List.mem_cons_of_mem _ hy)) h3

theorem IsSeg.upd_notin {f : Nat → Nat} {l : List Nat} {h e a v : Nat} (ha : a ∉ l)
    (hs : IsSeg f h l e) : IsSeg (upd f a v) h l e :=
  hs.congr fun x hx => (upd_ne f a v x (fun hxa => ha (hxa ▸ hx))).symm

theorem IsSeg.append {f : Nat → Nat} : ∀ {l1 l2 : List Nat} {h m e : Nat},
    IsSeg f h l1 m → IsSeg f m l2 e → IsSeg f h (l1 ++ l2) e
  | [], _, _, _, _, h1, h2 => by simp only [IsSeg] at h1; subst h1; simpa using h2
  | x :: xs, l2, h, m, e, h1, h2 => by
    simp only [IsSeg, List.cons_append] at h1 ⊢
    exact ⟨h1.1, h1.2.1, IsSeg.append h1.2.2 h2⟩

theorem IsSeg.split {f : Nat → Nat} : ∀ {l1 l2 : List Nat} {h e : Nat},
    IsSeg f h (l1 ++ l2) e → ∃ m, IsSeg f h l1 m ∧ IsSeg f m l2 e
  | [], _, h, _, hs => ⟨h, by simp [IsSeg], by simpa using hs⟩
  | x :: xs, l2, h, e, hs => by
    simp only [IsSeg, List.cons_append] at hs
    obtain ⟨m, h1, h2⟩ := IsSeg.split hs.2.2
    exact ⟨m, by simp only [IsSeg]; exact ⟨hs.1, hs.2.1, h1⟩, h2⟩

theorem IsSeg.snoc {f : Nat → Nat} {pre : List Nat} {h tl e : Nat} (hs : IsSeg f h pre tl)
    (h0 : tl ≠ 0) (hn : f tl = e) : IsSeg f h (pre ++ [tl]) e :=
  hs.append (by simp only [IsSeg]; exact ⟨trivial, h0, hn⟩)

theorem IsSeg.unsnoc {f : Nat → Nat} {pre : List Nat} {h tl e : Nat} (hs : IsSeg f h (pre ++ [tl]) e) :
    IsSeg f h pre tl := by
  obtain ⟨m, h1, h2⟩ := IsSeg.split hs
  simp only [IsSeg] at h2
  rw [h2.1] at h1; exact h1

theorem IsSeg.hd_ring {f : Nat → Nat} {pre : List Nat} {h tl e : Nat} (hs : IsSeg f h (pre ++ [tl]) e) :
    h = ringHd pre tl := by
  cases pre with
  | nil => simp only [List.nil_append, IsSeg] at hs; simpa [ringHd] using hs.1
  | cons x xs => simp only [List.cons_append, IsSeg] at hs; simpa [ringHd] using hs.1

theorem IsSeg.nil_of_zero {f : Nat → Nat} {l : List Nat} {e : Nat} (hs : IsSeg f 0 l e) : l = [] := by
  cases l with
  | nil => rfl
  | cons x xs => simp only [IsSeg] at hs; exact absurd hs.1.symm hs.2.1

/-! ## invariants -/

structure GInv (m : Mem) : Prop where
  seg : IsSeg m.next m.top m.abs 0
  nodup : m.abs.Nodup
  who0 : ∀ x, m.who x = 0 ↔ (x = 0 ∨ x ∈ m.abs)

def Owns (m : Mem) (t : Nat) (l : List Nat) : Prop := ∀ x ∈ l, m.who x = t + 1

def TInv (m : Mem) (t : Nat) : Pc → Prop
  | .idle => True
  | .pushRd pre tl => PushPre m t pre tl
  | .pushWr pre tl _ => PushPre m t pre tl
  | .pushFence pre tl nxt =>
    Owns m t (pre ++ [tl]) ∧ (pre ++ [tl]).Nodup ∧ IsSeg m.next (ringHd pre tl) (pre ++ [tl]) nxt
  | .pushCas pre tl nxt =>
    Owns m t (pre ++ [tl]) ∧ (pre ++ [tl]).Nodup ∧ IsSeg m.next (ringHd pre tl) (pre ++ [tl]) nxt
  | .popRdC _ => True
  | .popFence _ c => c ≤ m.ctr
  | .popRdI _ c => c ≤ m.ctr
  | .popRdN _ c it => c ≤ m.ctr ∧ it ≠ 0 ∧ (c = m.ctr → it ∈ m.abs)
  | .popCas _ c it n => c ≤ m.ctr ∧ it ≠ 0 ∧ (c = m.ctr → it ∈ m.abs ∧ m.next it = n)
  | .popWmb _ it => m.who it = t + 1
  | .popClr _ it => m.who it = t + 1
  | .setNx x _ => m.who x = t + 1

structure Stable (u : Nat) (m m' : Mem) : Prop where
  ctr : m.ctr ≤ m'.ctr
  abs : m'.ctr = m.ctr → ∀ x ∈ m.abs, x ∈ m'.abs ∧ m'.next x = m.next x
  own : ∀ x, m.who x = u + 1 → m'.who x = u + 1 ∧ m'.next x = m.next x

theorem Stable.refl (u : Nat) (m : Mem) : Stable u m m :=
  ⟨Nat.le_refl _, fun _ _ hx => ⟨hx, rfl⟩, fun _ hx => ⟨hx, rfl⟩⟩

theorem GInv.notin_of_owned {m : Mem} (hG : GInv m) {x t : Nat} (hx : m.who x = t + 1) : x ∉ m.abs := by
  intro hmem
  have := (hG.who0 x).2 (Or.inr hmem)
  omega

theorem GInv.ne_zero_of_owned {m : Mem} (hG : GInv m) {x t : Nat} (hx : m.who x = t + 1) : x ≠ 0 := by
  intro h0
  have := (hG.who0 x).2 (Or.inl h0)
  omega

theorem Owns.seg {m m' : Mem} {u : Nat} {l : List Nat} (ho : Owns m u l) (hs : Stable u m m') {h e : Nat}
    (hseg : IsSeg m.next h l e) : IsSeg m'.next h l e :=
  hseg.congr fun x hx => ((hs.own x (ho x hx)).2).symm

theorem Owns.stable {m m' : Mem} {u : Nat} {l : List Nat} (ho : Owns m u l) (hs : Stable u m m') : Owns m' u l :=
  fun x hx => (hs.own x (ho x hx)).1

/-- the thread invariant survives every step of another thread -/
theorem TInv.stable {m m' : Mem} {u : Nat} {pc : Pc} (hT : TInv m u pc) (hs : Stable u m m') : TInv m' u pc := by
  cases pc with
  | idle => trivial
  | pushRd pre tl =>
    obtain ⟨ho, hn, hseg⟩ := hT
    have ho' : Owns m u (pre ++ [tl]) := ho
    exact ⟨ho'.stable hs, hn, Owns.seg (l := pre) (fun x hx => ho x (List.mem_append_left _ hx)) hs hseg⟩
  | pushWr pre tl nxt =>
    obtain ⟨ho, hn, hseg⟩ := hT
    have ho' : Owns m u (pre ++ [tl]) := ho
    exact ⟨ho'.stable hs, hn, Owns.seg (l := pre) (fun x hx => ho x (List.mem_append_left _ hx)) hs hseg⟩
  | pushFence pre tl nxt => obtain ⟨ho, hn, hseg⟩ := hT; exact ⟨ho.stable hs, hn, ho.seg hs hseg⟩
  | pushCas pre tl nxt => obtain ⟨ho, hn, hseg⟩ := hT; exact ⟨ho.stable hs, hn, ho.seg hs hseg⟩
  | popRdC tr => trivial
  | popFence tr c => exact Nat.le_trans hT hs.ctr
  | popRdI tr c => exact Nat.le_trans hT hs.ctr
  | popRdN tr c it =>
    obtain ⟨h1, h2, h3⟩ := hT
    have hc := hs.ctr
    refine ⟨Nat.le_trans h1 hc, h2, fun heq => ?_⟩
    have e1 : m'.ctr = m.ctr := by omega
    exact (hs.abs e1 it (h3 (by omega))).1
  | popCas tr c it n =>
    obtain ⟨h1, h2, h3⟩ := hT
    have hc := hs.ctr
    refine ⟨Nat.le_trans h1 hc, h2, fun heq => ?_⟩
    have e1 : m'.ctr = m.ctr := by omega
    obtain ⟨h4, h5⟩ := h3 (by omega)
    exact ⟨(hs.abs e1 it h4).1, by rw [(hs.abs e1 it h4).2]; exact h5⟩
  | popWmb tr it => exact (hs.own it hT).1
  | popClr tr it => exact (hs.own it hT).1
  | setNx x v => exact (hs.own x hT).1

/-! ## the four kinds of memory effect -/

/-- a thread writes `next` of an item it owns -/
theorem GInv.ownWrite {m : Mem} (hG : GInv m) {x t v : Nat} (hx : m.who x = t + 1) :
    GInv { m with next := upd m.next x v } :=
  ⟨hG.seg.upd_notin (hG.notin_of_owned hx), hG.nodup, hG.who0⟩

theorem Stable.ownWrite {m : Mem} (hG : GInv m) {x t u v : Nat} (hx : m.who x = t + 1) (hu : u ≠ t) :
    Stable u m { m with next := upd m.next x v } := by
  refine ⟨Nat.le_refl _, fun _ y hy => ⟨hy, ?_⟩, fun y hy => ⟨hy, ?_⟩⟩
  · exact upd_ne _ _ _ _ (fun h => hG.notin_of_owned hx (h ▸ hy))
  · refine upd_ne _ _ _ _ (fun h => ?_)
    subst h; rw [hx] at hy; omega

theorem GInv.pushCommit {m : Mem} (hG : GInv m) {t : Nat} {pre : List Nat} {tl : Nat}
    (ho : Owns m t (pre ++ [tl])) (hn : (pre ++ [tl]).Nodup)
    (hseg : IsSeg m.next (ringHd pre tl) (pre ++ [tl]) m.top) : GInv (pushCommit m pre tl) := by
  refine ⟨?_, ?_, ?_⟩
  · exact hseg.append hG.seg
  · show (pre ++ [tl] ++ m.abs).Nodup
    rw [List.nodup_append]
    exact ⟨hn, hG.nodup, fun a ha b hb hab => hG.notin_of_owned (ho a ha) (hab ▸ hb)⟩
  · intro x
    show (if x ∈ pre ++ [tl] then 0 else m.who x) = 0 ↔ (x = 0 ∨ x ∈ pre ++ [tl] ++ m.abs)
    by_cases hx : x ∈ pre ++ [tl]
    · simp only [hx, ite_true, true_iff]; exact Or.inr (List.mem_append_left _ hx)
    · simp only [hx, ite_false, hG.who0 x, List.mem_append, false_or] at *

theorem Stable.pushCommit {m : Mem} {t u : Nat} {pre : List Nat} {tl : Nat}
    (ho : Owns m t (pre ++ [tl])) (hu : u ≠ t) : Stable u m (pushCommit m pre tl) := by
  refine ⟨Nat.le_refl _, fun _ y hy => ⟨List.mem_append_right _ hy, rfl⟩, fun y hy => ⟨?_, rfl⟩⟩
  show (if y ∈ pre ++ [tl] then 0 else m.who y) = u + 1
  by_cases hy' : y ∈ pre ++ [tl]
  · have := ho y hy'; omega
  · simp only [hy', ite_false]; exact hy

theorem GInv.abs_of_top {m : Mem} (hG : GInv m) {it : Nat} (htop : m.top = it) (hit : it ≠ 0) :
    ∃ rest, m.abs = it :: rest ∧ IsSeg m.next (m.next it) rest 0 := by
  have hs := hG.seg
  cases habs : m.abs with
  | nil => rw [habs] at hs; simp only [IsSeg] at hs; omega
  | cons x rest =>
    rw [habs] at hs; simp only [IsSeg] at hs
    have : x = it := by omega
    subst this
    exact ⟨rest, rfl, hs.2.2⟩

theorem GInv.popCommit {m : Mem} (hG : GInv m) {t it n : Nat} (htop : m.top = it) (hit : it ≠ 0)
    (hn : m.next it = n) : GInv (popCommit m t it n) := by
  obtain ⟨rest, habs, hseg⟩ := hG.abs_of_top htop hit
  have hnd := hG.nodup
  rw [habs] at hnd
  have hnd' := List.nodup_cons.1 hnd
  refine ⟨?_, ?_, ?_⟩
  · show IsSeg m.next n m.abs.tail 0
    rw [habs, ← hn]; exact hseg
  · show m.abs.tail.Nodup
    rw [habs]; exact hnd'.2
  · intro x
    show upd m.who it (t + 1) x = 0 ↔ (x = 0 ∨ x ∈ m.abs.tail)
    rw [habs, List.tail_cons]
    by_cases hx : x = it
    · subst hx; rw [upd_same]
      constructor
      · intro h; omega
      · intro h; rcases h with h | h
        · exact absurd h hit
        · exact absurd h hnd'.1
    · rw [upd_ne _ _ _ _ hx, hG.who0 x, habs]
      simp [hx]

theorem Stable.popCommit {m : Mem} (hG : GInv m) {t u it n : Nat} (hit : it ∈ m.abs) :
    Stable u m (popCommit m t it n) := by
  refine ⟨Nat.le_succ _, fun h => ?_, fun y hy => ⟨?_, rfl⟩⟩
  · exact absurd h (by show m.ctr + 1 ≠ m.ctr; omega)
  · show upd m.who it (t + 1) y = u + 1
    rw [upd_ne _ _ _ _ (fun h => ?_)]; exact hy
    subst h
    have := (hG.who0 y).2 (Or.inr hit); omega


/-! ## one micro step preserves the memory invariants -/

theorem invoke_inv (m : Mem) (n t now : Nat) (th : Thread) (hpc : th.pc = .idle) :
    (invoke m n t now th).mem = m ∧ TInv m t (invoke m n t now th).th.pc := by
  unfold invoke
  split
  · exact ⟨rfl, by rw [hpc]; trivial⟩
  · split
    · rename_i h; exact ⟨rfl, h⟩
    · exact ⟨rfl, trivial⟩
  · exact ⟨rfl, trivial⟩
  · split
    · rename_i h; exact ⟨rfl, h.1⟩
    · exact ⟨rfl, trivial⟩

theorem stepPc_inv (m : Mem) (n t now : Nat) (th : Thread) (pc : Pc) (hpc : th.pc = pc)
    (hG : GInv m) (hT : TInv m t pc) :
    GInv (stepPc m n t now th pc).mem ∧ TInv (stepPc m n t now th pc).mem t (stepPc m n t now th pc).th.pc ∧
    ∀ u, u ≠ t → Stable u m (stepPc m n t now th pc).mem := by
  cases pc with
  | idle =>
    have h := invoke_inv m n t now th hpc
    simp only [stepPc]
    rw [h.1]
    exact ⟨hG, h.2, fun u _ => Stable.refl u m⟩
  | pushRd pre tl => exact ⟨hG, hT, fun u _ => Stable.refl u m⟩
  | pushWr pre tl nxt =>
    obtain ⟨ho, hn, hseg⟩ := hT
    have htl : m.who tl = t + 1 := ho tl (by simp)
    have hnotin : tl ∉ pre := by
      intro h
      have := List.nodup_append.1 hn
      exact this.2.2 tl h tl (by simp) rfl
    refine ⟨hG.ownWrite htl, ⟨ho, hn, ?_⟩, fun u hu => Stable.ownWrite hG htl hu⟩
    exact (hseg.upd_notin hnotin).snoc (hG.ne_zero_of_owned htl) (upd_same _ _ _)
  | pushFence pre tl nxt => exact ⟨hG, hT, fun u _ => Stable.refl u m⟩
  | pushCas pre tl nxt =>
    obtain ⟨ho, hn, hseg⟩ := hT
    simp only [stepPc]
    split
    · rename_i htop
      exact ⟨hG.pushCommit ho hn (htop ▸ hseg), trivial, fun u hu => Stable.pushCommit ho hu⟩
    · exact ⟨hG, ⟨ho, hn, hseg.unsnoc⟩, fun u _ => Stable.refl u m⟩
  | popRdC tr => exact ⟨hG, Nat.le_refl _, fun u _ => Stable.refl u m⟩
  | popFence tr c => exact ⟨hG, hT, fun u _ => Stable.refl u m⟩
  | popRdI tr c =>
    simp only [stepPc]
    split
    · exact ⟨hG, trivial, fun u _ => Stable.refl u m⟩
    · rename_i htop
      obtain ⟨rest, habs, _⟩ := hG.abs_of_top rfl htop
      exact ⟨hG, ⟨hT, htop, fun _ => by rw [habs]; simp⟩, fun u _ => Stable.refl u m⟩
  | popRdN tr c it =>
    obtain ⟨h1, h2, h3⟩ := hT
    exact ⟨hG, ⟨h1, h2, fun h => ⟨h3 h, rfl⟩⟩, fun u _ => Stable.refl u m⟩
  | popCas tr c it nx =>
    obtain ⟨h1, h2, h3⟩ := hT
    simp only [stepPc]
    split
    · rename_i hcas
      obtain ⟨h4, h5⟩ := h3 hcas.1.symm
      exact ⟨hG.popCommit hcas.2 h2 h5, upd_same _ _ _, fun u _ => Stable.popCommit hG h4⟩
    · split
      · exact ⟨hG, trivial, fun u _ => Stable.refl u m⟩
      · exact ⟨hG, trivial, fun u _ => Stable.refl u m⟩
  | popWmb tr it => exact ⟨hG, hT, fun u _ => Stable.refl u m⟩
  | popClr tr it => exact ⟨hG.ownWrite hT, trivial, fun u hu => Stable.ownWrite hG hT hu⟩
  | setNx x v => exact ⟨hG.ownWrite hT, trivial, fun u hu => Stable.ownWrite hG hT hu⟩

end ParsecVerif.Lifo
