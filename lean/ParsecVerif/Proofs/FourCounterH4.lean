import ParsecVerif.Proofs.FourCounterH3
/-
  The root decision: preservation of `Hist`, and Mattern's argument — a positive decision implies
  that nothing moves any more.
-/
namespace ParsecVerif.FourCounter

theorem rootAfter_fields (n : Nat) (p : Proc) :
    (rootAfter n p).ms = p.ms ∧ (rootAfter n p).mr = p.mr ∧ (rootAfter n p).nt = p.nt ∧
    (rootAfter n p).npa = p.npa ∧ (rootAfter n p).opn = p.opn := by
  unfold rootAfter; split <;> exact ⟨rfl, rfl, rfl, rfl, rfl⟩

theorem rootDecide_env (s : State) (q : Nat) :
    ((rootDecide s).procs q).ms = (s.procs q).ms ∧ ((rootDecide s).procs q).mr = (s.procs q).mr ∧
    ((rootDecide s).procs q).wl = (s.procs q).wl ∧ ((rootDecide s).procs q).opn = (s.procs q).opn := by
  by_cases e : q = 0
  · subst e
    simp only [rootDecide, upd_same]
    obtain ⟨a, b, c, d, f⟩ := rootAfter_fields s.n (accAdd (s.procs 0))
    refine ⟨a, b, ?_, f⟩
    unfold Proc.wl; rw [c, d]; rfl
  · rw [rootDecide_procs_ne s e]; exact ⟨rfl, rfl, rfl, rfl⟩

theorem Hist.atDecision {s : State} (h : Hist s) (hS : Struct s) (hn : 0 < s.n)
    (h1 : cls (s.procs 0).st = 1) (hncl : (s.procs 0).ncl = 0) (hw : (s.procs 0).wl = 0) :
    Hist (rootDecide s) := by
  have hall := hS.allC h1 hncl
  have henv := rootDecide_env s
  have hN : (rootDecide s).n = s.n := rfl
  have happ : cnt isApp (rootDecide s).net = cnt isApp s.net := by simp [rootDecide, cnt_app_downs]
  have htz : transit (rootDecide s) = transit s := transit_eq rfl (fun q => (henv q).2.2.2) happ
  have hgc : ∀ q, ((rootDecide s).gh q).c = false := fun _ => rfl
  have hmid : ∀ q, ((rootDecide s).gh q).midS = (s.procs q).ms ∧ ((rootDecide s).gh q).midR = (s.procs q).mr := fun _ => ⟨rfl, rfl⟩
  have hcur : ∀ q, q ≠ 0 → ((rootDecide s).gh q).curS = (s.gh q).curS ∧ ((rootDecide s).gh q).curR = (s.gh q).curR := by
    intro q e; simp [rootDecide, ghDecide, e]
  have hcur0 : ((rootDecide s).gh 0).curS = (s.procs 0).ms ∧ ((rootDecide s).gh 0).curR = (s.procs 0).mr := by
    simp [rootDecide, ghDecide]
  have hact : ∀ q, ((rootDecide s).gh q).actT = decide (0 < (s.procs q).wl) := fun _ => rfl
  have hcq : ∀ q, 0 < q → q < s.n → (s.gh q).c = true := fun q a b => b2n_eq_one.1 (hall q a b).2.1
  refine ⟨?_, ?_, ?_, ?_, ?_, ?_, ?_, ?_, ?_, ?_⟩
  · intro q hq
    have old := h.h1S q hq
    simp only [sKS, hgc, (hmid q).1, (henv q).1]
    by_cases e : q = 0
    · subst e; rw [hcur0.1]; simp
    · rw [(hcur q e).1]; simp; exact old.2.2
  · intro q hq
    have old := h.h1R q hq
    simp only [sKR, hgc, (hmid q).2, (henv q).2.1]
    by_cases e : q = 0
    · subst e; rw [hcur0.2]; simp
    · rw [(hcur q e).2]; simp; exact old.2.2
  · show sumTo s.n (fun q => (s.procs q).ms) = sumTo s.n (fun q => (s.procs q).mr) + transit s
    exact h.h6
  · intro _ q hq ha
    rw [hact] at ha
    have hwq : 0 < (s.procs q).wl := by simpa using ha
    have e : q ≠ 0 := by intro e; subst e; omega
    have := h.h5 q hq (Or.inl (hcq q (by omega) hq)) hwq
    show sKR ((rootDecide s).gh q) < (s.procs q).mr ∨ 0 < transit s
    rcases this with t | t
    · left; simp only [sKR, hgc, (hcur q e).2]; simpa using t
    · right
      have := le_sumTo (fun q => (s.procs q).opn) (show q < s.n from hq)
      unfold transit; omega
  · intro _ ht ha
    have ht : transit s = 0 := ht
    unfold transit at ht
    rw [appCount_eq_cnt] at ht
    have hz : sumTo s.n (fun q => (s.procs q).opn) = 0 := by omega
    unfold Quiet
    rw [happ]
    refine ⟨fun q hq => ?_, by omega⟩
    have := ha q hq
    rw [hact] at this
    have hwq : (s.procs q).wl = 0 := by
      by_cases hh : 0 < (s.procs q).wl
      · simp [hh] at this
      · omega
    rw [(henv q).2.2.1, (henv q).2.2.2, (henv q).1, (henv q).2.1]
    exact ⟨hwq, eq_zero_of_sumTo hz q hq, rfl, rfl⟩
  · intro q hq _ hwq
    rw [(henv q).2.2.1] at hwq; rw [(henv q).2.1, (henv q).2.2.2]
    have e : q ≠ 0 := by intro e; subst e; omega
    rw [(hcur q e).2]
    exact h.h5 q hq (Or.inl (hcq q (by omega) hq)) hwq
  · show sumTo s.n _ = sumTo s.n _ + _
    rw [htz, sumTo_congr (fun q _ => (henv q).1), sumTo_congr (fun q _ => (henv q).2.1)]; exact h.h6
  · intro q hq hb
    by_cases e : q = 0
    · subst e
      have : cls ((rootDecide s).procs 0).st = 2 := by rw [hb]; rfl
      simp only [rootDecide, upd_same] at this
      rw [cls_rootAfter _ _ h1] at this
      split at this <;> omega
    · rw [(henv q).2.2.1, (henv q).2.2.2, (henv q).2.1, (hcur q e).2]
      rw [rootDecide_procs_ne s e] at hb
      exact h.h8 q hq hb
  · intro hle; rw [htz]; exact h.s1 hle
  · intro _ q hq
    by_cases e : q = 0
    · subst e
      simp only [rootDecide, upd_same]
      rw [cls_rootAfter _ _ h1]; split <;> omega
    · rw [rootDecide_procs_ne s e]; have := (hall q (by omega) hq).1; omega

end ParsecVerif.FourCounter
