import ParsecVerif.Proofs.FourCounterP2
/-
  Struct preservation: msg_down (DOWN(false) restarts the collection, DOWN(true) terminates).
-/
namespace ParsecVerif.FourCounter

def pDown (s : State) (k me : Nat) (res : Bool) (v : Proc) : State :=
  setP (push { s with net := s.net.eraseIdx k } (downs s.n me res)) me v

theorem b2n_and_beq (a b : Nat) (x y : Bool) :
    b2n (a == b && x == y) = if b = a ∧ y = x then 1 else 0 := by
  by_cases e1 : a = b
  · subst e1
    by_cases e2 : x = y
    · subst e2; simp
    · have h1 : (x == y) = false := by simp [e2]
      have h2 : ¬ y = x := fun h => e2 h.symm
      simp [h1, h2]
  · have h1 : (a == b) = false := by simp [e1]
    have h2 : ¬ b = a := fun h => e1 h.symm
    simp [h1, h2]

section
variable {s : State} {k me : Nat} {res : Bool} {v : Proc} {pk : Packet}

theorem pDown_U (hk : s.net[k]? = some pk) (hkind : pk.kind = .down res) (q : Nat) :
    U (pDown s k me res v) q = U s q := by
  have := cnt_eraseIdx (isUpFrom q) hk
  have e : isUpFrom q pk = false := by simp [isUpFrom, hkind]
  rw [e] at this
  simp only [U, pDown, setP, push, cnt_append, cnt_up_downs]
  simpa using this

theorem pDown_D (hk : s.net[k]? = some pk) (hkind : pk.kind = .down res) (hdst : pk.dst = me) (q : Nat) (x : Bool) :
    D (pDown s k me res v) q x + (if q = me ∧ x = res then 1 else 0) =
      D s q x + (if (q = 2 * me + 1 ∨ q = 2 * me + 2) ∧ q < s.n ∧ res = x then 1 else 0) := by
  have := cnt_eraseIdx (isDownTo q x) hk
  have e : b2n (isDownTo q x pk) = if q = me ∧ x = res then 1 else 0 := by
    simp only [isDownTo, hkind, hdst]; exact b2n_and_beq me q res x
  rw [e] at this
  simp only [D, pDown, setP, push, cnt_append, cnt_down_downs]
  omega

theorem pDown_app (hk : s.net[k]? = some pk) (hkind : pk.kind = .down res) :
    cnt isApp (pDown s k me res v).net = cnt isApp s.net := by
  have := cnt_eraseIdx isApp hk
  have e : isApp pk = false := by simp [isApp, hkind]
  rw [e] at this
  simp only [pDown, setP, push, cnt_append, cnt_app_downs]
  simpa using this

end

theorem Struct.downF {s : State} (h : Struct s) {k : Nat} {pk : Packet} {v : Proc}
    (hk : s.net[k]? = some pk) (hkind : pk.kind = .down false) (hr : cls (s.procs pk.dst).st ≠ 0)
    (hv1 : cls v.st = 1) (hvS : v.accS = 0) (hvR : v.accR = 0) (hvn : v.ncl = (s.procs pk.dst).ncl) :
    Struct (pDown s k pk.dst false v) ∧ cls (s.procs pk.dst).st = 2 ∧
      cls (s.procs (parent pk.dst)).st = 1 ∧ 0 < pk.dst ∧ pk.dst < s.n := by
  have hmem := mem_of_getElem? hk
  have hpk := h.pk pk hmem
  unfold PkOK at hpk; rw [hkind] at hpk
  obtain ⟨h0, hme, hsrc⟩ := hpk
  generalize hme' : pk.dst = me at *
  have hU := pDown_U (me := me) (v := v) hk hkind
  have hD := pDown_D (v := v) hk hkind hme'
  have hn : (pDown s k me false v).n = s.n := rfl
  have hg : (pDown s k me false v).gh = s.gh := rfl
  have hcls : ∀ q, q ≠ me → (pDown s k me false v).procs q = s.procs q := by
    intro q e; simp [pDown, setP, push, e]
  have hpm : (pDown s k me false v).procs me = v := by simp [pDown, setP, push]
  -- own edge
  have hDm : D (pDown s k me false v) me false + 1 = D s me false := by
    have := hD me false
    have hne : ¬ (me = 2 * me + 1 ∨ me = 2 * me + 2) := by omega
    simp [hne] at this; omega
  have hDmt : D (pDown s k me false v) me true = D s me true := by
    have := hD me true; simp at this; omega
  have oldm := h.edge me h0 hme
  unfold Edge at oldm; rw [← hDm] at oldm
  obtain ⟨a2, c0, u0, d00, d10, b1⟩ := edge_downF_self' oldm
  have hcme : (s.gh me).c = false := b2n_eq_zero.1 c0
  have hchild : ∀ q, 0 < q → parent q = me → q < s.n →
      edgeOK (cls (s.procs q).st) 1 (b2n (s.gh q).c) 0 (U s q) (D s q false + 1) (D s q true) ∧
      cls (s.procs q).st = 2 ∧ b2n (s.gh q).c = 0 := by
    intro q hq0 hpar hq
    have old := h.edge q hq0 hq
    unfold Edge at old; rw [hpar, a2, c0] at old
    exact edge_downF_parent old
  have hDc : ∀ q, 0 < q → parent q = me → q < s.n →
      D (pDown s k me false v) q false = D s q false + 1 ∧ D (pDown s k me false v) q true = D s q true := by
    intro q hq0 hpar hq
    have e := (parent_eq_iff hq0).1 hpar
    have e' : q ≠ me := by have := parent_lt hq0; omega
    have t1 := hD q false; have t2 := hD q true
    simp [e, hq, e'] at t1 t2
    exact ⟨t1, t2⟩
  have hDo : ∀ q x, 0 < q → q ≠ me → parent q ≠ me → D (pDown s k me false v) q x = D s q x := by
    intro q x hq0 e1 e2
    have e := (parent_eq_iff (me := me) hq0)
    have t1 := hD q x
    have : ¬ (q = 2 * me + 1 ∨ q = 2 * me + 2) := fun hh => e2 (e.2 hh)
    simp [e1, this] at t1; exact t1
  have hpend : ∀ q, parent q ≠ me ∨ q = 0 → pend (pDown s k me false v) q = pend s q := by
    intro q hq
    by_cases e : q = me
    · subst e; unfold pend; rw [hn, hpm, hv1, a2, c0]; simp
    · unfold pend; rw [hn, hcls q e, hg, hU]
  have hpendc : ∀ q, 0 < q → parent q = me → pend (pDown s k me false v) q = if q < s.n then 1 else 0 := by
    intro q hq0 hpar
    have e' : q ≠ me := by have := parent_lt hq0; omega
    unfold pend; rw [hn, hcls q e', hg, hU]
    by_cases hq : q < s.n
    · have := (hchild q hq0 hpar hq).2.2
      simp [hq, this]
    · simp [hq]
  refine ⟨⟨?_, ?_, ?_, ?_, ?_, ?_, ?_, ?_, ?_, ?_⟩, a2, b1, h0, hme⟩
  · intro k' hk'
    simp only [pDown, setP, push, List.mem_append] at hk'
    rcases hk' with hm | hm
    · have hm' := List.mem_of_mem_eraseIdx hm
      have := h.pk k' hm'
      have hnm : isUpFrom me k' = false := not_of_cnt_zero _ u0 k' hm'
      unfold PkOK at this ⊢
      unfold isUpFrom at hnm
      split <;> rename_i hkk <;> simp only [hkk] at this hnm
      · have e : k'.src ≠ me := by simpa using hnm
        rw [hcls _ e]; exact this
      · exact this
      · trivial
    · obtain ⟨e1, e2, e3, e4, _⟩ := mem_downs hm
      unfold PkOK; rw [e1]
      refine ⟨by omega, e4, ?_⟩
      rw [e2]; unfold parent; omega
  · intro q hq0 hq
    have old := h.edge q hq0 hq
    unfold Edge at old ⊢
    rw [hg, hU]
    by_cases e1 : q = me
    · subst e1
      rw [hpm, hv1, hcls _ (parent_ne_self hq0), hDmt]
      exact edge_downF_self oldm
    · rw [hcls q e1]
      by_cases e2 : parent q = me
      · obtain ⟨t1, t2⟩ := hDc q hq0 e2 hq
        rw [e2, hpm, hv1, t1, t2, c0]
        exact (hchild q hq0 e2 hq).1
      · rw [hcls _ e2, hDo q _ hq0 e1 e2, hDo q _ hq0 e1 e2]; exact old
  · rw [hcls 0 (by omega), hg]; exact h.root
  · intro r hr hr1
    by_cases e : r = me
    · subst e
      rw [hpendc _ (by omega) (by unfold parent; omega), hpendc _ (by omega) (by unfold parent; omega),
        ← nbChildren_eq, hpm, hvn]
      exact h.ncl2 r hme a2
    · rw [hcls r e] at hr1 ⊢
      have p1 : parent (2 * r + 1) ≠ me := by unfold parent; omega
      have p2 : parent (2 * r + 2) ≠ me := by unfold parent; omega
      rw [hpend _ (Or.inl p1), hpend _ (Or.inl p2)]
      exact h.ncl1 r hr hr1
  · intro r hr hr2
    by_cases e : r = me
    · subst e; rw [hpm, hv1] at hr2; omega
    · rw [hcls r e] at hr2 ⊢; exact h.ncl2 r hr hr2
  · intro q hq h3
    have e : q ≠ me := by intro e; subst e; rw [hpm, hv1] at h3; omega
    rw [hcls q e] at h3; rw [hcls 0 (by omega)]; exact h.tr q hq h3
  · rw [hn, hg, ← h.fS]
    apply sumTo_congr; intro q _
    by_cases e : q = me
    · subst e; simp [contribS, live, hpm, hv1, hvS, a2, u0]
    · simp only [contribS, live, hcls q e, hU]
  · rw [hn, hg, ← h.fR]
    apply sumTo_congr; intro q _
    by_cases e : q = me
    · subst e; simp [contribR, live, hpm, hv1, hvR, a2, u0]
    · simp only [contribR, live, hcls q e, hU]
  · intro hs; rw [hn, hg, hcls 0 (by omega)]; exact h.lastT hs
  · intro hs; rw [hcls 0 (by omega)]; exact h.lastF hs


theorem Struct.downT {s : State} (h : Struct s) {k : Nat} {pk : Packet} {v : Proc}
    (hk : s.net[k]? = some pk) (hkind : pk.kind = .down true)
    (hv3 : cls v.st = 3) (hvS : v.accS = (s.procs pk.dst).accS) (hvR : v.accR = (s.procs pk.dst).accR) :
    Struct (pDown s k pk.dst true v) ∧ cls (s.procs pk.dst).st = 2 ∧ cls (s.procs 0).st = 3 ∧
      0 < pk.dst ∧ pk.dst < s.n := by
  have hmem := mem_of_getElem? hk
  have hpk := h.pk pk hmem
  unfold PkOK at hpk; rw [hkind] at hpk
  obtain ⟨h0, hme, hsrc⟩ := hpk
  generalize hme' : pk.dst = me at *
  have hU := pDown_U (me := me) (v := v) hk hkind
  have hD := pDown_D (v := v) hk hkind hme'
  have hn : (pDown s k me true v).n = s.n := rfl
  have hg : (pDown s k me true v).gh = s.gh := rfl
  have hcls : ∀ q, q ≠ me → (pDown s k me true v).procs q = s.procs q := by
    intro q e; simp [pDown, setP, push, e]
  have hpm : (pDown s k me true v).procs me = v := by simp [pDown, setP, push]
  have hDm : D (pDown s k me true v) me true + 1 = D s me true := by
    have := hD me true
    have hne : ¬ (me = 2 * me + 1 ∨ me = 2 * me + 2) := by omega
    simp [hne] at this; omega
  have hDmf : D (pDown s k me true v) me false = D s me false := by
    have := hD me false; simp at this; omega
  have oldm := h.edge me h0 hme
  unfold Edge at oldm; rw [← hDm] at oldm
  obtain ⟨a2, c0, u0, d00, d10, b3⟩ := edge_downT_self' oldm
  have hroot : cls (s.procs 0).st = 3 := h.tr (parent me) (by have := parent_lt h0; omega) b3
  have hDc : ∀ q, 0 < q → parent q = me → q < s.n →
      D (pDown s k me true v) q true = D s q true + 1 ∧ D (pDown s k me true v) q false = D s q false := by
    intro q hq0 hpar hq
    have e := (parent_eq_iff hq0).1 hpar
    have e' : q ≠ me := by have := parent_lt hq0; omega
    have t1 := hD q true; have t2 := hD q false
    simp [e, hq, e'] at t1 t2
    exact ⟨t1, t2⟩
  have hDo : ∀ q x, 0 < q → q ≠ me → parent q ≠ me → D (pDown s k me true v) q x = D s q x := by
    intro q x hq0 e1 e2
    have e := (parent_eq_iff (me := me) hq0)
    have t1 := hD q x
    have : ¬ (q = 2 * me + 1 ∨ q = 2 * me + 2) := fun hh => e2 (e.2 hh)
    simp [e1, this] at t1; exact t1
  have hpend : ∀ q, q ≠ me → pend (pDown s k me true v) q = pend s q := by
    intro q e; unfold pend; rw [hn, hcls q e, hg, hU]
  refine ⟨⟨?_, ?_, ?_, ?_, ?_, ?_, ?_, ?_, ?_, ?_⟩, a2, hroot, h0, hme⟩
  · intro k' hk'
    simp only [pDown, setP, push, List.mem_append] at hk'
    rcases hk' with hm | hm
    · have hm' := List.mem_of_mem_eraseIdx hm
      have := h.pk k' hm'
      have hnm : isUpFrom me k' = false := not_of_cnt_zero _ u0 k' hm'
      unfold PkOK at this ⊢
      unfold isUpFrom at hnm
      split <;> rename_i hkk <;> simp only [hkk] at this hnm
      · have e : k'.src ≠ me := by simpa using hnm
        rw [hcls _ e]; exact this
      · exact this
      · trivial
    · obtain ⟨e1, e2, e3, e4, _⟩ := mem_downs hm
      unfold PkOK; rw [e1]
      refine ⟨by omega, e4, ?_⟩
      rw [e2]; unfold parent; omega
  · intro q hq0 hq
    have old := h.edge q hq0 hq
    unfold Edge at old ⊢
    rw [hg, hU]
    by_cases e1 : q = me
    · subst e1
      rw [hpm, hv3, hcls _ (parent_ne_self hq0), hDmf]
      exact edge_downT_self oldm
    · rw [hcls q e1]
      by_cases e2 : parent q = me
      · obtain ⟨t1, t2⟩ := hDc q hq0 e2 hq
        rw [e2, hpm, hv3, t1, t2, c0]
        rw [e2, a2, c0] at old
        exact edge_downT_parent old
      · rw [hcls _ e2, hDo q _ hq0 e1 e2, hDo q _ hq0 e1 e2]; exact old
  · rw [hcls 0 (by omega), hg]; exact h.root
  · intro r hr hr1
    have e : r ≠ me := by intro e; subst e; rw [hpm, hv3] at hr1; omega
    rw [hcls r e] at hr1 ⊢
    have p1 : 2 * r + 1 ≠ me := by
      intro e1; have : parent me = r := by rw [← e1]; unfold parent; omega
      rw [this] at b3; omega
    have p2 : 2 * r + 2 ≠ me := by
      intro e1; have : parent me = r := by rw [← e1]; unfold parent; omega
      rw [this] at b3; omega
    rw [hpend _ p1, hpend _ p2]
    exact h.ncl1 r hr hr1
  · intro r hr hr2
    have e : r ≠ me := by intro e; subst e; rw [hpm, hv3] at hr2; omega
    rw [hcls r e] at hr2 ⊢; exact h.ncl2 r hr hr2
  · intro q hq h3
    rw [hcls 0 (by omega)]; exact hroot
  · rw [hn, hg, ← h.fS]
    apply sumTo_congr; intro q _
    by_cases e : q = me
    · subst e; simp [contribS, live, hpm, hv3, a2, u0]
    · simp only [contribS, live, hcls q e, hU]
  · rw [hn, hg, ← h.fR]
    apply sumTo_congr; intro q _
    by_cases e : q = me
    · subst e; simp [contribR, live, hpm, hv3, a2, u0]
    · simp only [contribR, live, hcls q e, hU]
  · intro hs; rw [hn, hg, hcls 0 (by omega)]; exact h.lastT hs
  · intro hs; rw [hcls 0 (by omega)]; exact h.lastF hs

end ParsecVerif.FourCounter
