import ParsecVerif.Proofs.ContextStamps
/-! The stamp invariant is preserved by every transition. -/
namespace ParsecVerif.Context

theorem sinv_step {s s' : St} {tr : Tr} (hi : Inv s) (h : SInv s) (hs : step? s tr = some s') : SInv s' := by
  cases tr with
  | startBarrier =>
    simp only [step?] at hs; split at hs
    · cases hs; exact sinv_frame h rfl rfl rfl rfl (Or.inl rfl)
    · cases hs
  | startToken =>
    simp only [step?] at hs; split at hs
    · cases hs; exact sinv_frame h rfl rfl rfl rfl (Or.inl rfl)
    · cases hs
  | waitBegin =>
    simp only [step?] at hs; split at hs
    · cases hs; exact sinv_frame h rfl rfl rfl rfl (Or.inl rfl)
    · cases hs
  | sawZero =>
    simp only [step?] at hs; split at hs
    · cases hs; exact sinv_frame h rfl rfl rfl rfl (Or.inl rfl)
    · cases hs
  | leave w =>
    simp only [step?] at hs; split at hs
    · cases hs; exact sinv_frame h rfl rfl rfl rfl (Or.inl rfl)
    · cases hs
  | barrier =>
    simp only [step?] at hs; split at hs
    · cases hs; exact sinv_frame h rfl rfl rfl rfl (Or.inr rfl)
    · cases hs
  | waitReturn =>
    simp only [step?] at hs; split at hs
    · rename_i hg
      cases hs
      have hl := (hi.leaving hg).2
      refine ⟨by simp only [tick]; have := h.clk; omega, ?_, ?_, ?_, by simp only [tick]; have := h.ee; omega⟩
      · intro tp hm; exact tpOK_mono (h.tpok tp hm) (by simp [tick])
      · intro r hr
        simp only [tick, List.mem_cons] at hr ⊢
        rcases hr with rfl | hr
        · refine ⟨by omega, ?_⟩
          intro tp hm hne _
          have hok := h.tpok tp hm
          rcases hl tp hm with e | e <;> simp only [tpOK, e] at hok <;> omega
        · obtain ⟨h1, h2⟩ := h.wr r hr; exact ⟨by omega, h2⟩
      · intro pr hpr
        obtain ⟨h1, h2⟩ := h.tw pr hpr
        exact ⟨by simp only [tick]; omega, h2⟩
    · cases hs
  | tpWaitBegin p =>
    simp only [step?] at hs; split at hs
    · split at hs
      · cases hs; exact sinv_frame h rfl rfl rfl rfl (Or.inl rfl)
      · cases hs
    · cases hs
  | tpWaitReturn =>
    simp only [step?] at hs; split at hs
    · split at hs
      · split at hs
        · rename_i p _ tp htp hg
          cases hs
          have hok := h.tpok tp (List.mem_of_getElem? htp)
          simp only [tpOK, hg.1] at hok
          refine ⟨by simp only [tick]; have := h.clk; omega, ?_, ?_, ?_, by simp only [tick]; have := h.ee; omega⟩
          · intro x hm; exact tpOK_mono (h.tpok x hm) (by simp [tick])
          · intro r hr; obtain ⟨h1, h2⟩ := h.wr r hr; exact ⟨by simp only [tick]; omega, h2⟩
          · intro pr hpr
            simp only [tick, List.mem_cons] at hpr ⊢
            rcases hpr with rfl | hpr
            · exact ⟨by simp, tp, htp, hg.1, by simp; omega⟩
            · obtain ⟨h1, h2⟩ := h.tw pr hpr; exact ⟨by omega, h2⟩
        · cases hs
      · cases hs
    · cases hs
  | taskBegin t p =>
    simp only [step?] at hs; split at hs
    · split at hs
      · rename_i tp htp hg
        cases hs
        have hok := h.tpok tp (List.mem_of_getElem? htp)
        have hclk := h.clk
        simp only [tpOK, hg.2.2.1] at hok
        refine sinv_tpset h htp rfl rfl rfl rfl rfl ?_ (fun r hr hh => hh) (fun e => by rw [hg.2.2.1] at e; cases e)
        obtain ⟨a1, a2, a3, a4, a5, a6, a7, a8, a9, a10, a11, a12⟩ := hok
        simp only [tpOK, hg.2.2.1]
        by_cases hfb : tp.firstBegin = 0
        · rw [if_pos hfb]
          exact ⟨by omega, by omega, by omega, by omega, by omega, by omega, a7, by omega, by omega, by omega, by omega, a12⟩
        · rw [if_neg hfb]
          exact ⟨by omega, by omega, by omega, by omega, by omega, by omega, a7, by omega, by omega, by omega, by omega, a12⟩
      · cases hs
    · cases hs
  | taskEnd t =>
    simp only [step?] at hs; split at hs
    · split at hs
      · rename_i p hbt hsu _ tp htp
        cases hs
        have hst : tp.st = .added := by
          obtain ⟨x, hx, hxs⟩ := hi.taskSt t p hbt
          rw [htp] at hx; cases hx; exact hxs
        have hcn := hi.taskCnt p tp htp
        have hpos := count_pos_of_get hbt
        have hok := h.tpok tp (List.mem_of_getElem? htp)
        have hclk := h.clk
        simp only [tpOK, hst] at hok
        refine sinv_tpset h htp rfl rfl rfl rfl rfl ?_ (fun r hr hh => hh) (fun e => by rw [hst] at e; cases e)
        obtain ⟨a1, a2, a3, a4, a5, a6, a7, a8, a9, a10, a11, a12⟩ := hok
        simp only [tpOK, hst]
        exact ⟨by omega, by omega, by omega, by omega, by omega, by omega, a7, by omega, by omega, by omega, by omega, a12⟩
      · cases hs
    · cases hs
  | detect t p =>
    simp only [step?] at hs; split at hs
    · split at hs
      · rename_i tp htp hg
        cases hs
        obtain ⟨_, _, hst, _, hend⟩ := hg
        have hcn := hi.taskCnt p tp htp
        have hok := h.tpok tp (List.mem_of_getElem? htp)
        have hclk := h.clk
        simp only [tpOK, hst] at hok
        refine sinv_tpset h htp rfl rfl rfl rfl rfl ?_ (fun r hr hh => hh) (fun e => by rw [hst] at e; cases e)
        obtain ⟨a1, a2, a3, a4, a5, a6, a7, a8, a9, a10, a11, b1, b2, b3, b4, b5⟩ := hok
        simp only [tpOK]
        exact ⟨by omega, by omega, by omega, by omega, by omega, by omega, a7, by omega, by omega, by omega, by omega,
               b1, by omega, by omega, by omega, by omega, by omega, by omega, by omega⟩
      · cases hs
    · cases hs
  | dec t =>
    simp only [step?] at hs; split at hs
    · split at hs
      · rename_i p hbt hsu _ tp htp
        split at hs
        case isFalse => cases hs
        cases hs
        have hst : tp.st = .inCb := by
          obtain ⟨x, hx, hxs, _⟩ := hi.cbFwd t p hbt
          rw [htp] at hx; cases hx; exact hxs
        have hok := h.tpok tp (List.mem_of_getElem? htp)
        have hclk := h.clk
        simp only [tpOK, hst] at hok
        refine sinv_tpset h htp rfl rfl rfl rfl rfl ?_ ?_ (fun e => by rw [hst] at e; cases e)
        · simp only [tpOK]
          refine ⟨by omega, by omega, by omega, by omega, by omega, by omega, hok.2.2.2.2.2.2.1, by omega, by omega, by omega, by omega, ?_⟩
          refine ⟨by omega, by omega, by omega, by omega, by omega, by omega, fun _ => by omega, fun e => ?_⟩
          rw [hok.2.2.2.2.2.2.2.2.2.2.2.1] at e; cases e
        · intro r hr hh
          simp only []
          intro h1 h2
          have := hh h1 h2
          omega
      · cases hs
    · cases hs
  | addCall t q =>
    simp only [step?] at hs; split at hs
    · split at hs
      · rename_i tp htp hg
        cases hs
        have hok := h.tpok tp (List.mem_of_getElem? htp)
        simp only [tpOK, hg.2] at hok
        refine sinv_tpset h htp rfl rfl rfl rfl rfl ?_ (fun r hr hh => hh) (fun e => by rw [hg.2] at e; cases e)
        simp only [tpOK]
        refine ⟨by omega, by omega, by omega, by omega, by omega, by omega, hok.2.2.2.2.2.2.1, by omega, by omega, by omega, by omega, ?_⟩
        omega
      · cases hs
    · cases hs
  | startupAdd t q =>
    simp only [step?] at hs; split at hs
    · split at hs
      · rename_i _ _ _ tp _ htp hg
        cases hs
        have hok := h.tpok tp (List.mem_of_getElem? htp)
        simp only [tpOK, hg] at hok
        refine sinv_tpset h htp rfl rfl rfl rfl rfl ?_ (fun r hr hh => hh) (fun e => by rw [hg] at e; cases e)
        simp only [tpOK]
        refine ⟨by omega, by omega, by omega, by omega, by omega, by omega, hok.2.2.2.2.2.2.1, by omega, by omega, by omega, by omega, ?_⟩
        omega
      · cases hs
    · cases hs
  | earlyCb t =>
    simp only [step?] at hs; split at hs
    · split at hs
      · split at hs
        · rename_i hsu _ tp htp hg
          cases hs
          have hok := h.tpok tp (List.mem_of_getElem? htp)
          have hclk := h.clk
          simp only [tpOK, hg.1] at hok
          refine sinv_tpset h htp rfl rfl rfl rfl rfl ?_ (fun r hr hh => hh) (fun e => by rw [hg.1] at e; cases e)
          simp only [tpOK]
          refine ⟨by omega, by omega, by omega, by omega, by omega, by omega, hok.2.2.2.2.2.2.1, by omega, by omega, by omega, by omega, ?_⟩
          exact ⟨hg.2, by omega, by omega, by omega, by omega, by omega, by omega⟩
        · cases hs
      · cases hs
    · cases hs
  | earlyDec t =>
    simp only [step?] at hs; split at hs
    · split at hs
      · split at hs
        · rename_i hsu _ tp htp hg
          cases hs
          have hok := h.tpok tp (List.mem_of_getElem? htp)
          have hclk := h.clk
          simp only [tpOK, hg] at hok
          refine sinv_tpset h htp rfl rfl rfl rfl rfl ?_ ?_ (fun e => by rw [hg] at e; cases e)
          · simp only [tpOK]
            refine ⟨by omega, by omega, by omega, by omega, by omega, by omega, hok.2.2.2.2.2.2.1, by omega, by omega, by omega, by omega, ?_⟩
            exact ⟨hok.2.2.2.2.2.2.2.2.2.2.2.1, by omega, by omega, by omega, by omega, by omega, by omega⟩
          · intro r hr hh
            simp only []
            intro h1 h2
            omega
        · cases hs
      · cases hs
    · cases hs
  | addInc t =>
    simp only [step?] at hs; split at hs
    · split at hs
      · split at hs
        · rename_i hsu _ tp htp hg
          cases hs
          have hok := h.tpok tp (List.mem_of_getElem? htp)
          have hclk := h.clk
          simp only [tpOK, hg.1] at hok
          refine sinv_tpset h htp rfl rfl rfl rfl rfl ?_ ?_ (fun e => by rw [hg.1] at e; cases e)
          · simp only [tpOK]
            refine ⟨by omega, by omega, by omega, by omega, by omega, by omega, hok.2.2.2.2.2.2.1, by omega, by omega, by omega, by omega, ?_⟩
            exact ⟨hg.2, by omega, by omega, by omega, by omega⟩
          · intro r hr hh
            simp only []
            intro h1 h2
            omega
        · split at hs
          · rename_i hsu _ tp htp _ hg
            cases hs
            have hok := h.tpok tp (List.mem_of_getElem? htp)
            have hclk := h.clk
            simp only [tpOK, hg] at hok
            have htot := hok.2.2.2.2.2.2.1 hok.2.2.2.2.2.2.2.2.2.2.2.1
            refine sinv_tpset h htp rfl rfl rfl rfl rfl ?_ ?_ (fun e => by rw [hg] at e; cases e)
            · simp only [tpOK]
              refine ⟨by omega, by omega, by omega, by omega, by omega, by omega, hok.2.2.2.2.2.2.1, by omega, by omega, by omega, by omega, ?_⟩
              refine ⟨by omega, by omega, by omega, by omega, by omega, by omega, fun e => ?_, fun _ => by omega⟩
              rw [hok.2.2.2.2.2.2.2.2.2.2.2.1] at e; cases e
            · intro r hr hh
              simp only []
              intro h1 h2
              omega
          · cases hs
      · cases hs
    · cases hs
  | addReturn t =>
    simp only [step?] at hs; split at hs
    · cases hs; exact sinv_frame h rfl rfl rfl rfl (Or.inl rfl)
    · cases hs
  | arm p =>
    simp only [step?] at hs; split at hs
    · split at hs
      · rename_i _ tp htp hg
        cases hs
        have hok := h.tpok tp (List.mem_of_getElem? htp)
        have hok' := tpOK_mono hok (Nat.le_succ _)
        refine sinv_tpset (tp := tp) h htp rfl rfl rfl rfl rfl ?_ (fun r hr hh => hh) (fun e => ⟨e, rfl⟩)
        simpa only [tpOK] using hok'
      · cases hs
    · cases hs
  | insert t p =>
    simp only [step?] at hs; split at hs
    · split at hs
      · rename_i _ tp htp hg
        cases hs
        have hok := h.tpok tp (List.mem_of_getElem? htp)
        simp only [tpOK, hg.1] at hok
        have hd : tp.early = true → False := fun e => by rw [hok.2.2.2.2.2.2.2.2.2.2.2.1] at e; cases e
        refine sinv_tpset (tp := tp) h htp rfl rfl rfl rfl rfl ?_ (fun r hr hh => hh) (fun e => by rw [hg.1] at e; cases e)
        simp only [tpOK, hg.1]
        exact ⟨by omega, by omega, by omega, by omega, by omega, by omega, fun e => (hd e).elim, by omega, by omega, by omega, by omega,
               hok.2.2.2.2.2.2.2.2.2.2.2⟩
      · cases hs
    · cases hs
  | startupReady t n =>
    simp only [step?] at hs; split at hs
    · split at hs
      · split at hs
        · rename_i q _ _ tp htp hg
          cases hs
          have hok := h.tpok tp (List.mem_of_getElem? htp)
          have hok' := tpOK_mono hok (Nat.le_succ _)
          refine sinv_tpset (tp := tp) h htp rfl rfl rfl rfl rfl ?_ (fun r hr hh => hh) (fun e => ⟨e, rfl⟩)
          simpa only [tpOK] using hok'
        · cases hs
      · cases hs
    · cases hs
  | actionDone t q =>
    simp only [step?] at hs; split at hs
    · split at hs
      · rename_i m _ _ tp hbt hsu htp hg
        split at hs
        · rename_i hf
          cases hs
          have hok := h.tpok tp (List.mem_of_getElem? htp)
          have hclk := h.clk
          simp only [tpOK, hg.1] at hok
          obtain ⟨a1, a2, a3, a4, a5, a6, a7, a8, a9, a10, a11, b1, b2, b3, b4, b5⟩ := hok
          refine sinv_tpset h htp rfl rfl rfl rfl rfl ?_ (fun r hr hh => hh) (fun e => by rw [hg.1] at e; cases e)
          simp only [tpOK]
          exact ⟨by omega, by omega, by omega, by omega, by omega, by omega, a7, by omega, by omega, by omega, by omega,
                 b1, by omega, by omega, by omega, by omega, by omega, by omega, by omega⟩
        · cases hs
          have hok := h.tpok tp (List.mem_of_getElem? htp)
          have hok' := tpOK_mono hok (Nat.le_succ _)
          refine sinv_tpset (tp := tp) h htp rfl rfl rfl rfl rfl ?_ (fun r hr hh => hh) (fun e => ⟨e, rfl⟩)
          simpa only [tpOK] using hok'
      · cases hs
    · cases hs
  | nestDec t =>
    simp only [step?] at hs; split at hs
    · split at hs
      · rename_i q rest _ hn _ tp htp
        cases hs
        have hst : tp.st = .inCbN := by
          obtain ⟨x, hx, hxs, _⟩ := hi.nFwd t _ q hn List.mem_cons_self
          rw [htp] at hx; cases hx; exact hxs
        have hok := h.tpok tp (List.mem_of_getElem? htp)
        have hclk := h.clk
        simp only [tpOK, hst] at hok
        refine sinv_tpset h htp rfl rfl rfl rfl rfl ?_ ?_ (fun e => by rw [hst] at e; cases e)
        · simp only [tpOK]
          refine ⟨by omega, by omega, by omega, by omega, by omega, by omega, hok.2.2.2.2.2.2.1, by omega, by omega, by omega, by omega, ?_⟩
          refine ⟨by omega, by omega, by omega, by omega, by omega, by omega, fun _ => by omega, fun e => ?_⟩
          rw [hok.2.2.2.2.2.2.2.2.2.2.2.1] at e; cases e
        · intro r hr hh
          simp only []
          intro h1 h2
          have := hh h1 h2
          omega
      · cases hs
    · cases hs

end ParsecVerif.Context
