import ParsecVerif.Proofs.DistRt
/-! The inductive invariant of the distributed runtime (C05) and its preservation by every transition. -/
namespace ParsecVerif.DistRt
open ParsecVerif.Dataflow
open ParsecVerif.RemoteDep hiding St

/-! ## the collective configurations are well formed -/

theorem outsOf_fst (g : DGraph) (cf : Conf) (a : Nat) (o : Out) (ho : o ∈ outsOf g cf a) :
    o.1 < g.nout ∧ o.2 = remoteRanks g cf a o.1 ∧ o.2 ≠ [] := by
  unfold outsOf at ho
  obtain ⟨k, hk, hf⟩ := List.mem_filterMap.1 ho
  split at hf
  · cases hf
  · rename_i hne
    injection hf with hf
    subst hf
    refine ⟨List.mem_range.1 hk, rfl, ?_⟩
    intro e; simp only at e; apply hne; rw [e]; rfl

theorem outsOf_pairwise (g : DGraph) (cf : Conf) (a : Nat) : ((outsOf g cf a).map Prod.fst).Pairwise (· < ·) := by
  rw [List.pairwise_map]
  unfold outsOf
  rw [List.pairwise_filterMap]
  refine List.pairwise_lt_range.imp ?_
  intro k k' hlt o ho o' ho'
  split at ho
  · cases ho
  · split at ho'
    · cases ho'
    · injection ho with ho; injection ho' with ho'
      subst ho; subst ho'; exact hlt

theorem mem_remoteRanks (g : DGraph) (cf : Conf) (a k r : Nat) :
    r ∈ remoteRanks g cf a k ↔ ∃ e ∈ g.E, e.1 = a ∧ e.2.2 = k ∧ cf.place e.2.1 ≠ cf.place a ∧ cf.place e.2.1 = r := by
  unfold remoteRanks
  simp only [List.mem_map, List.mem_filter, Bool.and_eq_true, beq_iff_eq, bne_iff_ne, ne_eq]
  constructor
  · rintro ⟨e, ⟨he, ⟨h1, h2⟩, h3⟩, h4⟩; exact ⟨e, he, h1, h2, h3, h4⟩
  · rintro ⟨e, he, h1, h2, h3, h4⟩; exact ⟨e, ⟨he, ⟨h1, h2⟩, h3⟩, h4⟩

theorem cfgOf_WF {g : DGraph} {cf : Conf} (hwf : g.WF) (hcf : cf.WF g) (a : Nat) (ha : a < g.n) : (cfgOf g cf a).WF := by
  refine ⟨hcf.2.2 a ha, hcf.2.1, outsOf_pairwise g cf a, ?_⟩
  intro o ho r hr
  have ho' : o ∈ outsOf g cf a := ho
  rw [(outsOf_fst g cf a o ho').2.1] at hr
  obtain ⟨e, he, _, _, _, h4⟩ := (mem_remoteRanks g cf a o.1 r).1 hr
  rw [← h4]
  exact hcf.2.2 _ (hwf e he).2.1

theorem cfgOf_tree (g : DGraph) (cf : Conf) (a : Nat) : TreeChild (cfgOf g cf a).child (2 ^ 32) :=
  topo_tree cf.topo

/-- a remote successor's rank wants the output that feeds it -/
theorem cfgOf_wanted {g : DGraph} {cf : Conf} (hwf : g.WF) (a : Nat) (e : Nat × Nat × Nat) (he : e ∈ g.E)
    (h1 : e.1 = a) (hr : cf.place e.2.1 ≠ cf.place a) : (cfgOf g cf a).wanted (cf.place e.2.1) e.2.2 = true := by
  rw [mem_wanted]
  refine ⟨hr, (e.2.2, remoteRanks g cf a e.2.2), ?_, rfl, ?_⟩
  · show _ ∈ outsOf g cf a
    unfold outsOf
    refine List.mem_filterMap.2 ⟨e.2.2, List.mem_range.2 (hwf e he).2.2, ?_⟩
    have hm : cf.place e.2.1 ∈ remoteRanks g cf a e.2.2 := (mem_remoteRanks _ _ _ _ _).2 ⟨e, he, h1, rfl, hr, rfl⟩
    have : (remoteRanks g cf a e.2.2).isEmpty = false := by
      cases hh : remoteRanks g cf a e.2.2 with
      | nil => rw [hh] at hm; cases hm
      | cons _ _ => rfl
    simp [this]
  · exact (mem_remoteRanks _ _ _ _ _).2 ⟨e, he, h1, rfl, hr, rfl⟩

/-! ## the invariant -/

/-- has the dependency fed by output `k` of `a` towards a node on rank `r` been released by the collective? -/
def got (g : DGraph) (a : Nat) (log : List Msg) (r k : Nat) : Bool :=
  if g.isCtl a k then (dsts log).contains r else (deliveriesOf log).contains (r, k)

structure DInv (g : DGraph) (cf : Conf) (F : Nat → List (Option Nat) → Nat) (again : List Nat) (s : DSt) : Prop where
  gen   : ∃ ts, s.core = Dataflow.run g.graph F again ts
  cnt   : ∀ a b : Nat, s.core.status[a]? ≠ some Status.ended → s.core.pending.count (a, b) = g.graph.E.count (a, b)
  stv   : ∀ r i v, look s.store (r, i) = some v →
            s.core.status[i]? = some Status.ended ∧ s.core.val[i]? = some (some v)
  own   : ∀ i : Nat, s.core.status[i]? = some Status.ended →
            (look s.store (cf.place i, i)).isSome ∧ (look s.coll i).isSome
  act   : ∀ a st, look s.coll a = some st →
            s.core.status[a]? = some Status.ended ∧ ∃ ms, st = (cfgOf g cf a).run ms
  snd   : ∀ a st, look s.coll a = some st → ∀ m ∈ st.inflight, (look s.store (m.src, a)).isSome
  avail : ∀ e ∈ g.E, (e.1, e.2.1) ∉ s.core.pending → (look s.store (cf.place e.2.1, e.1)).isSome
  owed  : ∀ a st, look s.coll a = some st → ∀ b, cf.place b ≠ cf.place a →
            s.core.pending.count (a, b) =
              g.E.countP (fun e => e.1 == a && e.2.1 == b && !got g a st.log (cf.place b) e.2.2)

section
variable {g : DGraph} {cf : Conf} {F : Nat → List (Option Nat) → Nat} {again : List Nat}

theorem DInv.ginv (hwf : g.WF) {s : DSt} (h : DInv g cf F again s) : Inv g.graph F s.core := by
  obtain ⟨ts, hts⟩ := h.gen
  rw [hts]; exact inv_run (graph_WF g hwf) again ts

theorem DInv.lt_of_ended (hwf : g.WF) {s : DSt} (h : DInv g cf F again s) {a : Nat}
    (ha : s.core.status[a]? = some Status.ended) : a < g.n := by
  have := (h.ginv hwf).len
  have h2 := (List.getElem?_eq_some_iff.1 ha).1
  have h3 : g.graph.n = g.n := rfl
  omega

theorem gen_step {s : Dataflow.St} (h : ∃ ts, s = Dataflow.run g.graph F again ts) (t : Tr) :
    ∃ ts, Dataflow.step g.graph F s t = Dataflow.run g.graph F again ts := by
  obtain ⟨ts, rfl⟩ := h
  exact ⟨ts ++ [t], by simp [Dataflow.run, List.foldl_append]⟩

theorem gen_relFold {s : Dataflow.St} (h : ∃ ts, s = Dataflow.run g.graph F again ts) (a : Nat) (rel : List Nat) :
    ∃ ts, relFold g.graph F a rel s = Dataflow.run g.graph F again ts := by
  obtain ⟨ts, rfl⟩ := h
  exact ⟨ts ++ rel.map fun b => Tr.release a b, by rw [relFold_is_run]; simp [Dataflow.run, List.foldl_append]⟩

theorem dinv_init (hwf : g.WF) : DInv g cf F again (dinit g again) := by
  refine ⟨⟨[], rfl⟩, fun _ _ _ => rfl, ?_, ?_, ?_, ?_, ?_, ?_⟩
  · intro r i v h; simp [dinit, look] at h
  · intro i hi
    have := (inv_init g.graph F again id (graph_WF g hwf)).cnt i
    have hlog : (Dataflow.init g.graph again).log = [] := rfl
    simp only [dinit] at hi
    rw [hlog, if_pos hi] at this
    simp at this
  · intro a st h; simp [dinit, look] at h
  · intro a st h; simp [dinit, look] at h
  · intro e he hn
    exfalso; apply hn
    show (e.1, e.2.1) ∈ g.graph.E
    exact (mem_graph_E g _ _).2 ⟨e, he, rfl, rfl⟩
  · intro a st h; simp [dinit, look] at h

/-- changes of the core that keep the dependencies, the values and the set of ended nodes -/
theorem dinv_core_change {s : DSt} (h : DInv g cf F again s) (c' : Dataflow.St) (x : List (Nat × Msg))
    (hgen : ∃ ts, c' = Dataflow.run g.graph F again ts) (hp : c'.pending = s.core.pending) (hv : c'.val = s.core.val)
    (hs : ∀ j : Nat, c'.status[j]? = some Status.ended ↔ s.core.status[j]? = some Status.ended) :
    DInv g cf F again { s with core := c', xfer := x } := by
  refine ⟨hgen, ?_, ?_, ?_, ?_, ?_, ?_, ?_⟩
  · intro a b ha; simp only [hp]; exact h.cnt a b (fun e => ha ((hs a).2 e))
  · intro r i v hl; simp only [hv]; exact ⟨(hs i).2 (h.stv r i v hl).1, (h.stv r i v hl).2⟩
  · intro i hi; exact h.own i ((hs i).1 hi)
  · intro a st hl; exact ⟨(hs a).2 (h.act a st hl).1, (h.act a st hl).2⟩
  · exact h.snd
  · intro e he hn; simp only [hp] at hn; exact h.avail e he hn
  · intro a st hl b hb; simp only [hp]; exact h.owed a st hl b hb

theorem dinv_xfer {s : DSt} (h : DInv g cf F again s) (x : List (Nat × Msg)) :
    DInv g cf F again { s with xfer := x } :=
  dinv_core_change h s.core x h.gen rfl rfl (fun _ => Iff.rfl)

theorem dinv_start {s : DSt} (h : DInv g cf F again s) (i : Nat) (hen : enabled s.core (.start i) = true) :
    DInv g cf F again { s with core := Dataflow.step g.graph F s.core (.start i) } := by
  have hst : s.core.status[i]? = some Status.ready := by simpa [enabled] using hen
  have e : Dataflow.step g.graph F s.core (.start i) =
      { s.core with status := s.core.status.set i .running, log := s.core.log ++ [.start i] } := by
    unfold Dataflow.step; simp [hen]
  refine dinv_core_change h _ s.xfer (gen_step h.gen _) (by rw [e]) (by rw [e]) ?_
  intro j; rw [e]; exact set_status_iff hst (by decide) (by decide) j

theorem dinv_again {s : DSt} (h : DInv g cf F again s) (i : Nat) (hen : enabled s.core (.again i) = true) :
    DInv g cf F again { s with core := Dataflow.step g.graph F s.core (.again i) } := by
  have hst : s.core.status[i]? = some Status.running := by
    simp only [enabled, Bool.and_eq_true, beq_iff_eq] at hen; exact hen.1
  have e : Dataflow.step g.graph F s.core (.again i) =
      { s.core with status := s.core.status.set i .ready, again := s.core.again.set i ((s.core.again[i]?).getD 0 - 1),
                    log := s.core.log ++ [.again i] } := by
    unfold Dataflow.step; simp [hen]
  refine dinv_core_change h _ s.xfer (gen_step h.gen _) (by rw [e]) (by rw [e]) ?_
  intro j; rw [e]; exact set_status_iff hst (by decide) (by decide) j

/-- a running node finds, on its own rank, the value of every predecessor -/
theorem localInputs_eq (hwf : g.WF) {s : DSt} (h : DInv g cf F again s) (i : Nat)
    (hst : s.core.status[i]? = some Status.running) : localInputs g cf s i = inputs g.graph s.core i := by
  have hG := h.ginv hwf
  have hi : i < g.n := by
    have := hG.len; have h2 := (List.getElem?_eq_some_iff.1 hst).1; have h3 : g.graph.n = g.n := rfl; omega
  unfold localInputs inputs
  apply List.map_congr_left
  intro p hp
  have hpe := (mem_predsOf g.graph i p).1 hp
  obtain ⟨e, he, h1, h2⟩ := (mem_graph_E g p i).1 hpe
  have hnw : hasIn s.core.pending i = false := by
    cases hh : hasIn s.core.pending i with
    | false => rfl
    | true => have := (hG.wait i hi).2 hh; rw [hst] at this; cases this
  have hnp : (e.1, e.2.1) ∉ s.core.pending := by
    rw [h1, h2]; intro hm; exact (hasIn_false_iff _ _).1 hnw (p, i) hm rfl
  have hav := h.avail e he hnp
  rw [h1, h2] at hav
  cases hl : look s.store (cf.place i, p) with
  | none => rw [hl] at hav; cases hav
  | some v => rw [(h.stv _ _ _ hl).2]; rfl

theorem dinv_finish (hwf : g.WF) {s : DSt} (h : DInv g cf F again s) (i : Nat) (hen : enabled s.core (.finish i) = true) :
    DInv g cf F again
      { s with core := { s.core with status := s.core.status.set i .ended,
                                     val := s.core.val.set i (some (F i (localInputs g cf s i))),
                                     log := s.core.log ++ [.end_ i] },
               store := ((cf.place i, i), F i (localInputs g cf s i)) :: s.store,
               coll := (i, (cfgOf g cf i).init) :: s.coll } := by
  have hst : s.core.status[i]? = some Status.running := by
    simp only [enabled, Bool.and_eq_true, beq_iff_eq] at hen; exact hen.1
  have hG := h.ginv hwf
  have hil : i < s.core.status.length := (List.getElem?_eq_some_iff.1 hst).1
  have hiv : i < s.core.val.length := by have := hG.len; have := hG.vlen; omega
  have e : Dataflow.step g.graph F s.core (.finish i) =
      { s.core with status := s.core.status.set i .ended, val := s.core.val.set i (some (F i (localInputs g cf s i))),
                    log := s.core.log ++ [.end_ i] } := by
    unfold Dataflow.step; simp [hen, localInputs_eq hwf h i hst]
  have hse : ∀ j : Nat, j ≠ i → (s.core.status.set i Status.ended)[j]? = s.core.status[j]? :=
    fun j hj => List.getElem?_set_ne (fun e => hj e.symm)
  have hsi : (s.core.status.set i Status.ended)[i]? = some Status.ended := by
    rw [List.getElem?_set_self hil]
  refine ⟨?_, ?_, ?_, ?_, ?_, ?_, ?_, ?_⟩
  · rw [← e]; exact gen_step h.gen _
  · intro a b ha
    simp only at ha ⊢
    by_cases hai : a = i
    · subst hai; exact absurd hsi ha
    · rw [hse a hai] at ha; exact h.cnt a b ha
  · intro r j v hl
    simp only at hl ⊢
    rw [look_cons] at hl
    split at hl
    · rename_i hk
      have hk' : (cf.place i, i) = (r, j) := by simpa using hk
      injection hk' with _ hij
      subst hij
      injection hl with hl; subst hl
      exact ⟨hsi, by rw [List.getElem?_set_self hiv]⟩
    · have := h.stv r j v hl
      have hji : j ≠ i := fun e => by rw [e, hst] at this; cases this.1
      exact ⟨by rw [hse j hji]; exact this.1, by rw [List.getElem?_set_ne (fun e => hji e.symm)]; exact this.2⟩
  · intro j hj
    simp only at hj ⊢
    by_cases hji : j = i
    · subst hji
      constructor
      · rw [look_cons]; simp
      · rw [look_cons]; simp
    · rw [hse j hji] at hj
      exact ⟨look_cons_isSome _ _ _ _ (h.own j hj).1, look_cons_isSome _ _ _ _ (h.own j hj).2⟩
  · intro a st hl
    simp only at hl ⊢
    rw [look_cons] at hl
    split at hl
    · rename_i hk
      have hk' : i = a := by simpa using hk
      subst hk'
      injection hl with hl
      exact ⟨hsi, [], hl.symm⟩
    · rename_i hk
      have hai : a ≠ i := fun e => hk (by simp [e])
      rw [hse a hai]
      exact h.act a st hl
  · intro a st hl m hm
    simp only at hl ⊢
    rw [look_cons] at hl
    split at hl
    · rename_i hk
      have hk' : i = a := by simpa using hk
      subst hk'
      injection hl with hl
      subst hl
      obtain ⟨d, _, rfl⟩ := mem_msgs.1 hm
      show (look _ ((cfgOf g cf i).root, i)).isSome = true
      have : (cfgOf g cf i).root = cf.place i := rfl
      rw [this, look_cons]; simp
    · exact look_cons_isSome _ _ _ _ (h.snd a st hl m hm)
  · intro e' he' hn
    exact look_cons_isSome _ _ _ _ (h.avail e' he' hn)
  · intro a st hl b hb
    simp only at hl ⊢
    rw [look_cons] at hl
    split at hl
    · rename_i hk
      have hk' : i = a := by simpa using hk
      subst hk'
      injection hl with hl
      subst hl
      have h1 := h.cnt i b (by rw [hst]; simp)
      rw [h1, count_graph_E]
      apply List.countP_congr
      intro e' _
      simp [Cfg.init, deliveriesOf, got, dsts]
    · exact h.owed a st hl b hb

end
end ParsecVerif.DistRt
