import ParsecVerif.Proofs.RwLockLive
/-!
  (1) The arithmetic of the model is the bit arithmetic of the C code.
  (2) The machine over 32-bit words is a refinement of the machine over the naturals as long as fewer
      than 2^24 threads use the lock (only equality tests are made on the wrapped counters).
  (3) The coarse steps of the cooperative scheduler are sequences of fine steps.
-/
set_option linter.unusedSimpArgs false
set_option linter.unnecessarySimpa false
namespace ParsecVerif.RwLock

/-! ## bit-level reading of the arithmetic used by the model -/
theorem and3 (x : Nat) : x &&& 3 = x % 4 := by
  have := Nat.and_two_pow_sub_one_eq_mod x 2
  simpa using this

theorem pres_or_phid (t : Nat) : 2 ||| (t &&& 1) = 2 + t % 2 := by
  have h1 : t &&& 1 = t % 2 := by
    have := Nat.and_two_pow_sub_one_eq_mod t 1
    simpa using this
  rw [h1]
  rcases Nat.mod_two_eq_zero_or_one t with h | h <;> rw [h] <;> rfl

theorem andFFFFFF00 (x : Nat) (hx : x < 4294967296) : x &&& 0xFFFFFF00 = x - x % 256 := by
  apply Nat.eq_of_testBit_eq
  intro i
  rw [Nat.testBit_and]
  have hsub : x - x % 256 = (x >>> 8) <<< 8 := by
    rw [Nat.shiftRight_eq_div_pow, Nat.shiftLeft_eq]
    omega
  rw [hsub, Nat.testBit_shiftLeft, Nat.testBit_shiftRight]
  have hc : (0xFFFFFF00 : Nat) = (2 ^ 24 - 1) <<< 8 := by decide
  rw [hc, Nat.testBit_shiftLeft, Nat.testBit_two_pow_sub_one]
  by_cases h8 : 8 ≤ i
  · have e : 8 + (i - 8) = i := by omega
    by_cases h32 : i - 8 < 24
    · simp [h8, h32, e]
    · have : x.testBit i = false := by
        apply Nat.testBit_lt_two_pow
        calc x < 2 ^ 32 := hx
          _ ≤ 2 ^ i := Nat.pow_le_pow_right (by omega) (by omega)
      simp [h8, h32, e, this]
  · simp [h8]

/-! ## Refinement to the 32-bit fields -/

/-- local data of a thread, reduced modulo `M` (the spin phase bits `w < 4` are never wrapped) -/
def wrapPc (M : Nat) : Pc → Pc
  | .wSpin1 t => .wSpin1 (t % M)
  | .wAdd t => .wAdd (t % M)
  | .wSpin2 t rt => .wSpin2 (t % M) (rt % M)
  | .wFence t => .wFence (t % M)
  | .wIn t => .wIn (t % M)
  | .wWmb t => .wWmb (t % M)
  | .wAnd t => .wAnd (t % M)
  | .wLoad t => .wLoad (t % M)
  | .wStore t v => .wStore (t % M) (v % M)
  | pc => pc

def wrapT (M : Nat) (th : Thread) : Thread := ⟨wrapPc M th.pc, th.prog⟩

/-- the contents of the C structure and of the C locals when the counters of `s` are stored in
    `M`-valued machine words -/
def wrapS (M : Nat) (s : State) : State :=
  { rin := s.rin % M, rout := s.rout % M, win := s.win % M, wout := s.wout % M, th := s.th.map (wrapT M) }

theorem length_eq_counts (l : List Thread) :
    l.length = cnt .idle l + cnt .done l + cnt .rAdd l + cnt .rs2 l + cnt .rs3 l + cnt .rsX l + cnt .rF l + cnt .rIn l +
      cnt .rWmb l + cnt .rOut l + cnt .wTick l + cnt .wS1 l + cnt .wAdd l + cnt .wS2 l + cnt .wF l + cnt .wIn l +
      cnt .wWmb l + cnt .wAnd l + cnt .wLoad l + cnt .wStore l := by
  unfold cnt
  induction l with
  | nil => rfl
  | cons a t ih =>
    simp only [List.length_cons, List.map_cons, List.count_cons, ih]
    generalize cls a.pc = c
    cases c <;> simp <;> omega

theorem wrapS_stepT (s : State) (k : Nat) (pc : Pc) (prog : List Kind) (h : Inv s) (hn : s.th.length < 16777216)
    (hk : s.th[k]? = some ⟨pc, prog⟩) :
    stepT M32 (wrapS M32 s) k (wrapPc M32 pc) prog = wrapS M32 (stepT 0 s k pc prog) := by
  have hlen := length_eq_counts s.th
  have hme := h.pt k _ hk
  obtain ⟨hsx, hc, hd1, hd2, hph, hpt, hu, hex⟩ := h
  simp only [Phase, H, Rent, n] at hsx hc hd1 hd2 hph
  cases pc
  case idle =>
    cases prog with
    | nil => simp only [wrapPc, stepT, setT, wrapS, List.map_set, wrapT]
    | cons a p => cases a <;> simp only [wrapPc, stepT, setT, wrapS, List.map_set, wrapT]
  case rAdd =>
    simp only [wrapPc, stepT, setT, wrapS, M32, Nat.mod_zero, List.map_set, wrapT]
    have e : s.rin % 4294967296 % 4 = s.rin % 4 := by omega
    simp only [e]
    congr 1
    · omega
    · by_cases h4 : s.rin % 4 = 0 <;> simp [h4]
  case rSpin w =>
    simp only [wrapPc, stepT, setT, wrapS, M32, Nat.mod_zero]
    have e : s.rin % 4294967296 % 4 = s.rin % 4 := by omega
    simp only [e]
    by_cases h4 : w = s.rin % 4
    · rw [if_pos h4, if_pos h4]
    · rw [if_neg h4, if_neg h4]; simp only [List.map_set, wrapT, wrapPc]
  case rOut =>
    simp only [wrapPc, stepT, setT, wrapS, M32, Nat.mod_zero, List.map_set, wrapT]
    congr 1; omega
  case wTick =>
    simp only [wrapPc, stepT, setT, wrapS, M32, Nat.mod_zero, List.map_set, wrapT]
    congr 1; omega
  case wSpin1 t =>
    simp only [wrapPc, stepT, setT, wrapS, M32, Nat.mod_zero]
    simp only [PT, PTv] at hme
    have e : (s.wout % 4294967296 = t % 4294967296) ↔ s.wout = t := by omega
    by_cases hw : s.wout = t
    · have hw' := e.2 hw
      simp only [hw, hw', if_true, List.map_set, wrapT, wrapPc]
    · have hw' : ¬ (s.wout % 4294967296 = t % 4294967296) := fun x => hw (e.1 x)
      simp only [hw, hw', if_false]
  case wAdd t =>
    simp only [wrapPc, stepT, setT, wrapS, M32, Nat.mod_zero, List.map_set, wrapT]
    congr 1; omega
  case wSpin2 t rt =>
    simp only [wrapPc, stepT, setT, wrapS, M32, Nat.mod_zero]
    simp only [PT, PTv, Q0, Q1, Rent, n] at hme
    have e : (s.rout % 4294967296 = rt % 4294967296) ↔ s.rout = rt := by
      rcases Nat.mod_two_eq_zero_or_one s.wout with hp | hp <;> omega
    by_cases hr : s.rout = rt
    · have hr' := e.2 hr
      simp only [hr, hr', if_true, List.map_set, wrapT, wrapPc]
    · have hr' : ¬ (s.rout % 4294967296 = rt % 4294967296) := fun x => hr (e.1 x)
      simp only [hr, hr', if_false]
  case wAnd t =>
    simp only [wrapPc, stepT, setT, wrapS, M32, Nat.mod_zero, List.map_set, wrapT]
    congr 1; omega
  case wStore t v =>
    simp only [wrapPc, stepT, setT, wrapS, M32, Nat.mod_zero, List.map_set, wrapT]
    congr 1; omega
  all_goals simp only [wrapPc, stepT, setT, wrapS, M32, Nat.mod_zero, List.map_set, wrapT]

/-- **Refinement.**  On states satisfying the invariant and with fewer than `2^24` threads, one step
    of the machine over 32-bit words is the image of one step of the machine over the naturals. -/
theorem wrapS_step (s : State) (k : Nat) (h : Inv s) (hn : s.th.length < 16777216) :
    step M32 (wrapS M32 s) k = wrapS M32 (step 0 s k) := by
  unfold step
  have e : (wrapS M32 s).th[k]? = (s.th[k]?).map (wrapT M32) := by simp only [wrapS, List.getElem?_map]
  rw [e]
  cases hk : s.th[k]? with
  | none => rfl
  | some th =>
    obtain ⟨pc, prog⟩ := th
    exact wrapS_stepT s k pc prog h hn hk

theorem wrapS_run (s : State) (sched : List Nat) (h : Inv s) (hn : s.th.length < 16777216) :
    run M32 (wrapS M32 s) sched = wrapS M32 (run 0 s sched) := by
  unfold run
  induction sched generalizing s with
  | nil => rfl
  | cons t ts ih =>
    rw [List.foldl_cons, List.foldl_cons, wrapS_step s t h hn]
    exact ih _ (inv_step s t h) (by rw [length_step]; exact hn)

/-! ## Granularity -/

theorem macroFuel_eq_run (M : Nat) (f : Nat) (s : State) (i : Nat) :
    ∃ l : List Nat, (∀ x ∈ l, x = i) ∧ macroFuel M f s i = run M s l := by
  induction f generalizing s with
  | zero => exact ⟨[], by simp, rfl⟩
  | succ f ih =>
    unfold macroFuel
    split
    · obtain ⟨l, hl, he⟩ := ih (step M s i)
      refine ⟨i :: l, ?_, ?_⟩
      · intro x hx
        rcases List.mem_cons.1 hx with rfl | hx
        · rfl
        · exact hl x hx
      · rw [he]; rfl
    · exact ⟨[i], by simp, rfl⟩

/-- every run at the granularity of the cooperative scheduler is a run of the fine-grained machine -/
theorem macroRun_eq_run (M : Nat) (s : State) (sched : List Nat) :
    ∃ l : List Nat, macroRun M s sched = run M s l := by
  unfold macroRun
  induction sched generalizing s with
  | nil => exact ⟨[], rfl⟩
  | cons t ts ih =>
    obtain ⟨l1, _, h1⟩ := macroFuel_eq_run M 6 s t
    obtain ⟨l2, h2⟩ := ih (macroStep M s t)
    refine ⟨l1 ++ l2, ?_⟩
    rw [List.foldl_cons, h2, run_append]
    unfold macroStep
    rw [h1]

end ParsecVerif.RwLock
