import ParsecVerif.Model.Info
/-! Helper lemmas for C41 (info registry). -/
namespace ParsecVerif.Info

def ids (l : List Entry) : List Nat := l.map (·.iid)

/-- strictly increasing ids (the list order the code maintains) -/
def Sorted (l : List Entry) : Prop := l.Pairwise (fun a b => a.iid < b.iid)

theorem sorted_nodup_ids {l : List Entry} (h : Sorted l) : (ids l).Nodup := by
  unfold ids Sorted at *
  rw [List.Nodup, List.pairwise_map]
  exact h.imp (fun hab => Nat.ne_of_lt hab)

/-- `findHole` on a sorted list whose ids are all `≥ ret`: the first `k` entries carry the ids
    `ret, ret+1, …`, the returned id is `ret + k`, and it is smaller than every later id. -/
theorem findHole_spec : ∀ (l : List Entry) (ret : Nat), Sorted l → (∀ e ∈ l, ret ≤ e.iid) →
    (findHole l ret).2 ≤ l.length ∧ (findHole l ret).1 = ret + (findHole l ret).2 ∧
    (∀ e ∈ l.take (findHole l ret).2, e.iid < (findHole l ret).1) ∧
    (∀ e ∈ l.drop (findHole l ret).2, (findHole l ret).1 < e.iid)
  | [], ret, _, _ => by simp [findHole]
  | e :: t, ret, hs, hge => by
    have hs' : Sorted t := (List.pairwise_cons.1 hs).2
    have hlt : ∀ x ∈ t, e.iid < x.iid := (List.pairwise_cons.1 hs).1
    unfold findHole
    by_cases he : e.iid = ret
    · simp only [he, if_true]
      have ih := findHole_spec t (ret + 1) hs' (fun x hx => by have := hlt x hx; omega)
      obtain ⟨h1, h2, h3, h4⟩ := ih
      refine ⟨by simpa using h1, by omega, ?_, ?_⟩
      · intro x hx
        simp only [List.take_succ_cons, List.mem_cons] at hx
        rcases hx with rfl | hx
        · omega
        · exact h3 x hx
      · intro x hx
        simp only [List.drop_succ_cons] at hx
        exact h4 x hx
    · simp only [he, if_false]
      refine ⟨by simp, by simp, by simp, ?_⟩
      intro x hx
      simp only [List.drop_zero, List.mem_cons] at hx
      have h0 := hge e (by simp)
      rcases hx with rfl | hx
      · omega
      · have := hlt x hx; omega

theorem sorted_insertAt (l : List Entry) (k : Nat) (x : Entry) (hs : Sorted l)
    (h1 : ∀ e ∈ l.take k, e.iid < x.iid) (h2 : ∀ e ∈ l.drop k, x.iid < e.iid) :
    Sorted (insertAt l k x) := by
  unfold insertAt Sorted
  rw [List.pairwise_append]
  have hs' : Sorted (l.take k ++ l.drop k) := by rw [List.take_append_drop]; exact hs
  unfold Sorted at hs'
  rw [List.pairwise_append] at hs'
  refine ⟨hs'.1, List.pairwise_cons.2 ⟨h2, hs'.2.1⟩, ?_⟩
  intro a ha b hb
  simp only [List.mem_cons] at hb
  rcases hb with rfl | hb
  · exact h1 a ha
  · exact hs'.2.2 a ha b hb

theorem mem_insertAt {α} (l : List α) (k : Nat) (x y : α) : y ∈ insertAt l k x ↔ y = x ∨ y ∈ l := by
  unfold insertAt
  constructor
  · intro h
    simp only [List.mem_append, List.mem_cons] at h
    rcases h with h | h | h
    · exact Or.inr (List.mem_of_mem_take h)
    · exact Or.inl h
    · exact Or.inr (List.mem_of_mem_drop h)
  · rintro (h | h)
    · simp [h]
    · rw [← List.take_append_drop k l] at h
      simp only [List.mem_append, List.mem_cons] at h ⊢
      rcases h with h | h
      · exact Or.inl h
      · exact Or.inr (Or.inr h)

/-- `maxIid` is the maximum of the ids (or -1). -/
theorem maxIid_ge (l : List Entry) : ∀ e ∈ l, (e.iid : Int) ≤ maxIid l := by
  induction l with
  | nil => simp
  | cons a t ih =>
    intro e he
    simp only [List.mem_cons] at he
    unfold maxIid
    rcases he with rfl | he
    · split <;> omega
    · have := ih e he; split <;> omega

theorem maxIid_mem_or (l : List Entry) : maxIid l = -1 ∧ l = [] ∨ ∃ e ∈ l, maxIid l = e.iid := by
  induction l with
  | nil => simp [maxIid]
  | cons a t ih =>
    right
    unfold maxIid
    split
    · exact ⟨a, by simp, rfl⟩
    · rcases ih with ⟨h, rfl⟩ | ⟨e, he, h⟩
      · simp [maxIid] at *; omega
      · exact ⟨e, by simp [he], h⟩

/-- characterisation used to transport `maxId` across list edits -/
theorem maxIid_eq_iff (l : List Entry) (m : Int) :
    maxIid l = m ↔ ((∀ e ∈ l, (e.iid : Int) ≤ m) ∧ (m = -1 ∧ l = [] ∨ ∃ e ∈ l, m = e.iid)) := by
  constructor
  · rintro rfl; exact ⟨maxIid_ge l, maxIid_mem_or l⟩
  · rintro ⟨h1, h2⟩
    have hge := maxIid_ge l
    rcases maxIid_mem_or l with ⟨h, hl⟩ | ⟨e, he, h⟩
    · rcases h2 with ⟨hm, _⟩ | ⟨e', he', _⟩
      · omega
      · subst hl; simp at he'
    · rcases h2 with ⟨_, hl⟩ | ⟨e', he', hm⟩
      · subst hl; simp at he
      · have := h1 e he; have := hge e' he'; omega

end ParsecVerif.Info
