import ParsecVerif.Proofs.FourCounterA2
/-
  Quiescent states (every process idle, no application message anywhere): the control protocol
  cannot be stuck unless every process has terminated, and deliveries keep the state quiescent.
-/
namespace ParsecVerif.FourCounter

def qOK (p : Proc) : Prop :=
  (p.st = .idleWC ∨ p.st = .idleWP ∨ p.st = .term) ∧ p.wl = 0 ∧ p.opn = 0

def Quiescent (s : State) : Prop := (∀ q, q < s.n → qOK (s.procs q)) ∧ cnt isApp s.net = 0

def isCtl (k : Packet) : Bool := !isApp k

theorem quiescent_no_deadlock {s : State} (h : Inv s) (hl : Live s) (hq : Quiescent s) :
    AllTerm s ∨ ∃ k s', step s (.deliver k) = some s' := by
  by_cases hc : 0 < cnt isCtl s.net
  · right
    obtain ⟨k, pk, hk, hf⟩ := exists_idx_of_cnt_pos isCtl hc
    have hmem := mem_of_getElem? hk
    have hpk := h.st.pk pk hmem
    unfold isCtl isApp at hf
    unfold PkOK at hpk
    split at hpk
    · rename_i a b hkind
      have hdst : pk.dst < s.n := by have := parent_lt hpk.1; omega
      have hnr : ¬ (s.procs pk.dst).st = .notReady := by
        rcases (hq.1 pk.dst hdst).1 with t | t | t <;> rw [t] <;> simp
      exact ⟨k, msgUp { s with net := s.net.eraseIdx k } pk.dst a b, by
        simp only [FourCounter.step, hk, hdst, if_true, hkind, hnr, if_false]⟩
    · rename_i res hkind
      have hdst : pk.dst < s.n := hpk.2.1
      have hnr : ¬ (s.procs pk.dst).st = .notReady := by
        rcases (hq.1 pk.dst hdst).1 with t | t | t <;> rw [t] <;> simp
      exact ⟨k, msgDown { s with net := s.net.eraseIdx k } pk.dst res, by
        simp only [FourCounter.step, hk, hdst, if_true, hkind, hnr, if_false]⟩
    · rename_i hkind; simp [hkind] at hf
  · left
    -- the network is empty
    have hempty : ∀ pk, pk ∈ s.net → False := by
      intro pk hm
      have h1 := not_of_cnt_zero isCtl (by omega) pk hm
      have h2 := not_of_cnt_zero isApp hq.2 pk hm
      unfold isCtl at h1; rw [h2] at h1; simp at h1
    have hU : ∀ q, U s q = 0 := fun q => cnt_zero_of_not _ (fun pk hm => (hempty pk hm).elim)
    have hD : ∀ q x, D s q x = 0 := fun q x => cnt_zero_of_not _ (fun pk hm => (hempty pk hm).elim)
    -- nobody is idle waiting for children
    have noIC : ∀ d q, s.n - q = d → q < s.n → (s.procs q).st ≠ .idleWC := by
      intro d
      induction d using Nat.strongRecOn with
      | _ d ih =>
        intro q hd hqn hic
        have hncl := (hl q hqn).2 hic
        have h1 : cls (s.procs q).st = 1 := by rw [hic]; rfl
        have hn1 := h.st.ncl1 q hqn h1
        have hchild : ∀ c, parent c = q → 0 < c → pend s c = 1 → False := by
          intro c hpar hc0 hp
          have hcn : c < s.n := by
            unfold pend at hp; split at hp
            · rename_i hh; exact hh.1
            · omega
          have e := h.st.edge c hc0 hcn
          unfold Edge at e
          rw [hpar, h1, hU, hD, hD] at e
          have hnp : ¬ (cls (s.procs c).st = 2 ∧ b2n (s.gh c).c = 1 ∧ U s c = 0) := by
            intro hh; unfold pend at hp; rw [if_neg (fun x => x.2 hh)] at hp; omega
          rw [hU] at hnp
          have ha : cls (s.procs c).st ≤ 1 := by
            generalize cls (s.procs c).st = a at *
            generalize b2n (s.gh c).c = cc at *
            generalize b2n (s.gh q).c = dd at *
            unfold edgeOK at e; omega
          have hcic : (s.procs c).st = .idleWC := by
            rcases (hq.1 c hcn).1 with t | t | t
            · exact t
            · rw [t] at ha; simp [cls] at ha
            · rw [t] at ha; simp [cls] at ha
          have hlt : q < c := by have := parent_lt hc0; omega
          exact ih (s.n - c) (by omega) c rfl hcn hcic
        have p1 : pend s (2 * q + 1) = 0 := by
          have : pend s (2 * q + 1) ≤ 1 := by unfold pend; split <;> omega
          by_cases e : pend s (2 * q + 1) = 1
          · exact (hchild _ (by unfold parent; omega) (by omega) e).elim
          · omega
        have p2 : pend s (2 * q + 2) = 0 := by
          have : pend s (2 * q + 2) ≤ 1 := by unfold pend; split <;> omega
          by_cases e : pend s (2 * q + 2) = 1
          · exact (hchild _ (by unfold parent; omega) (by omega) e).elim
          · omega
        rw [p1, p2] at hn1
        exact hncl (by simpa using hn1)
    by_cases hn : s.n = 0
    · intro q hqn; omega
    · have hroot : (s.procs 0).st = .term := by
        rcases (hq.1 0 (by omega)).1 with t | t | t
        · exact (noIC _ 0 rfl (by omega) t).elim
        · have := h.st.root.1; rw [t] at this; simp [cls] at this
        · exact t
      intro q
      induction q using Nat.strongRecOn with
      | _ q ih =>
        intro hqn
        by_cases h0 : q = 0
        · subst h0; exact hroot
        · have hq0 : 0 < q := by omega
          have hp := parent_lt hq0
          have hpt := ih (parent q) hp (by omega)
          obtain ⟨_, _, hw⟩ := term_wave h hroot hq0 hqn
          rcases hw with ⟨t, _⟩ | ⟨_, hw⟩
          · exact t
          · rcases hw with ⟨d, _⟩ | ⟨_, t⟩
            · rw [hD] at d; omega
            · rw [hpt] at t; cases t

end ParsecVerif.FourCounter
