import ParsecVerif.Proofs.Dtd
/-!
  The inductive invariant of the DTD runtime machine and its preservation by every enabled move.
-/
namespace ParsecVerif.Dtd

/-! ## status bookkeeping -/

theorem isDone_lt (s : St) (t : Nat) (h : isDone s t = true) : t < s.status.length := by
  simp only [isDone, beq_iff_eq] at h
  exact (List.getElem?_eq_some_iff.1 h).1

theorem started_lt (s : St) (t : Nat) (h : started s t = true) : t < s.status.length := by
  simp only [started, isRunning, isDone, Bool.or_eq_true, beq_iff_eq] at h
  rcases h with h | h <;> exact (List.getElem?_eq_some_iff.1 h).1

theorem isDone_started (s : St) (t : Nat) (h : isDone s t = true) : started s t = true := by
  simp [started, h]

theorem status_append (l : List Status) (x : Status) (t : Nat) :
    (l ++ [x])[t]? = if t < l.length then l[t]? else if t = l.length then some x else none := by
  by_cases h : t < l.length
  · simp [h, List.getElem?_append_left h]
  · simp only [h, if_false]
    rw [List.getElem?_append_right (by omega)]
    by_cases h2 : t = l.length
    · simp [h2]
    · have : t - l.length ≠ 0 := by omega
      simp only [h2, if_false]
      cases hk : t - l.length with
      | zero => omega
      | succ k => simp

theorem getElem?_none_of_ge {α} (l : List α) (t : Nat) (h : ¬ t < l.length) : l[t]? = none := by
  simp only [List.getElem?_eq_none_iff]; omega

theorem isDone_stepIns (s : St) (tk : Task) (t : Nat) : isDone (stepIns s tk) t = isDone s t := by
  simp only [isDone, stepIns, status_append]
  by_cases h : t < s.status.length
  · simp [h]
  · rw [getElem?_none_of_ge _ _ h]
    by_cases h2 : t = s.status.length <;> simp [h, h2]

theorem started_stepIns (s : St) (tk : Task) (t : Nat) : started (stepIns s tk) t = started s t := by
  simp only [started, isRunning, isDone, stepIns, status_append]
  by_cases h : t < s.status.length
  · simp [h]
  · rw [getElem?_none_of_ge _ _ h]
    by_cases h2 : t = s.status.length <;> simp [h, h2]

theorem status_set (l : List Status) (t u : Nat) (x : Status) :
    (l.set t x)[u]? = if u = t ∧ t < l.length then some x else l[u]? := by
  by_cases h : u = t
  · subst h
    by_cases h2 : u < l.length
    · simp [h2]
    · simp [h2]
  · simp only [h, false_and, if_false]
    exact List.getElem?_set_ne (Ne.symm h)

theorem isDone_stepStart (s : St) (t : Nat) (tk : Task) (u : Nat) (hw : isWaiting s t = true) :
    isDone (stepStart s t tk) u = isDone s u := by
  simp only [isDone, stepStart, status_set]
  simp only [isWaiting, beq_iff_eq] at hw
  by_cases h : u = t ∧ t < s.status.length
  · obtain ⟨rfl, hlt⟩ := h
    have hg := (List.getElem?_eq_some_iff.1 hw).2
    simp only [hlt, and_self, if_true, hw]
    decide
  · simp only [h, if_false]

theorem started_stepStart (s : St) (t : Nat) (tk : Task) (u : Nat) (hw : isWaiting s t = true) :
    started (stepStart s t tk) u = (started s u || u == t) := by
  simp only [started, isRunning, isDone, stepStart, status_set]
  simp only [isWaiting, beq_iff_eq] at hw
  have hlt := (List.getElem?_eq_some_iff.1 hw).1
  by_cases h : u = t
  · subst h; simp [hlt]
  · simp [h]

theorem isDone_stepFinish (s : St) (t : Nat) (tk : Task) (u : Nat) (hr : isRunning s t = true) :
    isDone (stepFinish s t tk) u = (isDone s u || u == t) := by
  simp only [isDone, stepFinish, status_set]
  simp only [isRunning, beq_iff_eq] at hr
  have hlt := (List.getElem?_eq_some_iff.1 hr).1
  by_cases h : u = t
  · subst h; simp [hlt]
  · simp [h]

theorem started_stepFinish (s : St) (t : Nat) (tk : Task) (u : Nat) (hr : isRunning s t = true) :
    started (stepFinish s t tk) u = started s u := by
  simp only [started, isRunning, isDone, stepFinish, status_set]
  simp only [isRunning, beq_iff_eq] at hr
  have hlt := (List.getElem?_eq_some_iff.1 hr).1
  by_cases h : u = t
  · subst h; simp only [hlt, and_self, if_true, hr]; decide
  · simp [h]

theorem parentDone_stepIns (s : St) (tk : Task) (o : Option Nat) :
    parentDone (stepIns s tk) o = parentDone s o := by
  cases o with
  | none => rfl
  | some w => exact isDone_stepIns s tk w

theorem parentDone_stepStart (s : St) (t : Nat) (tk : Task) (o : Option Nat) (hw : isWaiting s t = true) :
    parentDone (stepStart s t tk) o = parentDone s o := by
  cases o with
  | none => rfl
  | some w => exact isDone_stepStart s t tk w hw

theorem parentDone_stepFinish (s : St) (t : Nat) (tk : Task) (o : Option Nat) (hr : isRunning s t = true) :
    parentDone (stepFinish s t tk) o = (parentDone s o || o == some t) := by
  cases o with
  | none => simp [parentDone]
  | some w => simp only [parentDone, isDone_stepFinish s t tk w hr]; simp

theorem not_done_of_waiting (s : St) (t : Nat) (h : isWaiting s t = true) : isDone s t = false := by
  simp only [isWaiting, beq_iff_eq] at h
  simp [isDone, h]

theorem not_started_of_waiting (s : St) (t : Nat) (h : isWaiting s t = true) : started s t = false := by
  simp only [isWaiting, beq_iff_eq] at h
  simp [started, isRunning, isDone, h]

theorem not_done_of_running (s : St) (t : Nat) (h : isRunning s t = true) : isDone s t = false := by
  simp only [isRunning, beq_iff_eq] at h
  simp [isDone, h]

theorem started_of_running (s : St) (t : Nat) (h : isRunning s t = true) : started s t = true := by
  simp [started, h]

/-! ## the invariant -/

structure Inv (p : Prog) (s : St) : Prop where
  len_obs : s.obs.length = s.status.length
  len_le : s.status.length ≤ p.length
  /-- every chain node is the node the program prescribes; its parent is the previous writer -/
  acc_sound : ∀ a, a ∈ s.accs → a.t < s.status.length ∧ usesAt p a.t a.d = true ∧
      a.wr = writesAt p a.t a.d ∧ a.parent = prevWriter p a.t a.d
  acc_complete : ∀ t d, t < s.status.length → usesAt p t d = true → ∃ a, a ∈ s.accs ∧ a.t = t ∧ a.d = d
  last_writer : ∀ d, s.lastWriter d = prevWriter p s.status.length d
  /-- a flow is satisfied exactly when its parent has completed (or it has none) -/
  act_iff : ∀ a, a ∈ s.accs → a.act = parentDone s a.parent
  /-- the reader count of a datum = number of satisfied read accesses of tasks that have not completed -/
  readers_eq : ∀ d, s.readers d = s.accs.countP (fun a => a.d == d && !a.wr && a.act && !isDone s a.t)
  started_ready : ∀ t, started s t = true → ∀ a, a ∈ s.accs → a.t = t → a.act = true
  /-- a task has begun only if every earlier conflicting task has completed -/
  prec : ∀ t u d, u < t → started s t = true → conflict p u t d = true → isDone s u = true
  /-- the datum holds the sequential value determined by its completed writers -/
  mem_eq : ∀ d k, k ≤ s.status.length → (∀ u, u < k → writesAt p u d = true → isDone s u = true) →
      (∀ u, k ≤ u → writesAt p u d = true → isDone s u = false) → s.mem d = seqStore p k d
  obs_eq : ∀ t, started s t = true → s.obs[t]? = some (seqObs p t)

theorem inv_init (p : Prog) : Inv p init := by
  refine ⟨rfl, Nat.zero_le _, ?_, ?_, ?_, ?_, ?_, ?_, ?_, ?_, ?_⟩
  · intro a ha; simp [init] at ha
  · intro t d ht; simp [init] at ht
  · intro d; rfl
  · intro a ha; simp [init] at ha
  · intro d; simp [init]
  · intro t ht; simp [started, isRunning, isDone, init] at ht
  · intro t u d _ ht; simp [started, isRunning, isDone, init] at ht
  · intro d k hk _ _
    have : k = 0 := by simpa [init] using hk
    subst this; rfl
  · intro t ht; simp [started, isRunning, isDone, init] at ht

end ParsecVerif.Dtd
