import ParsecVerif.Model.Sched.Simple
import ParsecVerif.Proofs.Sched.Bag
import ParsecVerif.Proofs.Sched.Prio
/-! `Module.Correct` for ap, ip, spq, gd, rnd (shared object) and ll, llp (per-stream LIFOs). -/
namespace ParsecVerif.Sched

/-! ### shared-object modules -/

structure SharedCorrect {σ : Type} (sched : σ → SArg → σ) (sel : σ → σ × Option (Task × Int))
    (pend : σ → List Task) where
  sched_perm : ∀ s a, (ids (pend (sched s a))).Perm (ids a.ring ++ ids (pend s))
  sel_some : ∀ s t d, (sel s).2 = some (t, d) → (ids (pend s)).Perm (t.id :: ids (pend (sel s).1))
  sel_none : ∀ s, (sel s).2 = none → pend s = [] ∧ pend (sel s).1 = []

def sharedCorrect {σ : Type} {sched : σ → SArg → σ} {sel : σ → σ × Option (Task × Int)}
    {pend : σ → List Task} (h : SharedCorrect sched sel pend) : (sharedModule sched sel pend).Correct where
  Inv s := 0 < s.n
  n_schedule _ _ := rfl
  n_select _ _ := rfl
  inv_schedule _ _ hi _ _ := hi
  inv_select _ _ hi _ := hi
  sched_perm s a _ _ _ := h.sched_perm s.st a
  sel_some s _ t d _ _ hs := h.sel_some s.st t d hs
  sel_none s _ _ _ hs := by
    have := h.sel_none s.st hs
    show (ids (pend (sel s.st).1)).Perm (ids (pend s.st))
    rw [this.1, this.2]
  live s hi hne := by
    refine ⟨0, hi, ?_⟩
    intro hn
    exact hne (h.sel_none s.st hn).1

theorem ids_stamp : ∀ (ring : List Task) (n : Nat), ids (stamp n ring) = ids ring
  | [], _ => rfl
  | t :: ts, n => by
    show ({ t with seq := n } : Task).id :: ids (stamp (n + 1) ts) = t.id :: ids ts
    rw [ids_stamp ts (n + 1)]

def apCorrect : apModule.Correct := sharedCorrect
  { sched_perm := fun s a => by
      have := ids_perm (chainSorted_perm s.list (stamp s.next a.ring))
      simpa [apSchedule, ids_append, ids_stamp] using this
    sel_some := fun s t d hs => by
      unfold apSelect at hs ⊢
      cases hl : s.list with
      | nil => simp [hl] at hs
      | cons x xs =>
        simp only [hl, Option.some.injEq, Prod.mk.injEq] at hs ⊢
        obtain ⟨rfl, _⟩ := hs
        exact List.Perm.refl _
    sel_none := fun s hs => by
      unfold apSelect at hs ⊢
      cases hl : s.list with
      | nil => simp [hl]
      | cons x xs => simp [hl] at hs }

def ipCorrect : ipModule.Correct := sharedCorrect
  { sched_perm := fun s a => by
      show (ids (ipSchedule s a.ring a.d).list).Perm _
      unfold ipSchedule
      split
      · have := ids_perm (chainSorted_perm s.list (stamp s.next a.ring))
        simpa [ids_append, ids_stamp] using this
      · simp only [ids_append, ids_stamp]
        exact List.perm_append_comm
    sel_some := fun s t d hs => by
      unfold ipSelect at hs ⊢
      cases hl : s.list.getLast? with
      | none => simp [hl] at hs
      | some x =>
        simp only [hl, Option.some.injEq, Prod.mk.injEq] at hs ⊢
        obtain ⟨rfl, _⟩ := hs
        have hne : s.list ≠ [] := by intro hn; simp [hn] at hl
        have h2 := List.dropLast_concat_getLast hne
        rw [List.getLast?_eq_some_getLast hne] at hl
        simp only [Option.some.injEq] at hl
        rw [hl] at h2
        have : (ids s.list).Perm (ids (s.list.dropLast ++ [x])) := by rw [h2]
        refine this.trans ?_
        simp only [ids_append]
        exact List.perm_append_comm
    sel_none := fun s hs => by
      unfold ipSelect at hs ⊢
      cases hl : s.list.getLast? with
      | none =>
        have : s.list = [] := List.getLast?_eq_none_iff.1 hl
        simp [this]
      | some x => simp [hl] at hs }

theorem pendD_fst (pls : List PList) : (pendD pls).map Prod.fst = pls.flatMap (·.2) := by
  induction pls with
  | nil => rfl
  | cons p ps ih =>
    simp only [pendD, List.flatMap_cons, List.map_append, List.map_map] at ih ⊢
    rw [ih]
    congr 1
    have : (Prod.fst ∘ fun (t : Task) => (t, p.1)) = id := rfl
    rw [this, List.map_id]

theorem spqPop_pend : ∀ (pls : List PList) (t : Task) (d : Int), spqPopRes pls = some (t, d) →
    pls.flatMap (·.2) = t :: (spqPopRest pls).flatMap (·.2)
  | [], _, _, h => by simp [spqPopRes] at h
  | (p, []) :: rest, t, d, h => by
    simp only [spqPopRes] at h
    simpa [spqPopRest] using spqPop_pend rest t d h
  | (p, t' :: ts) :: rest, t, d, h => by
    simp only [spqPopRes, Option.some.injEq, Prod.mk.injEq] at h
    obtain ⟨rfl, _⟩ := h
    simp [spqPopRest]

def spqCorrect : spqModule.Correct := sharedCorrect
  { sched_perm := fun s a => by
      show (ids ((spqSchedule s a.ring a.d).pls.flatMap (·.2))).Perm _
      have h := (pendD_spqInsert a.d (stamp s.next a.ring) s.pls).map Prod.fst
      rw [pendD_fst] at h
      simp only [List.map_append, List.map_map, pendD_fst] at h
      have h2 := ids_perm h
      simp only [ids_append] at h2
      have e : ids (List.map (Prod.fst ∘ fun t => (t, a.d)) (stamp s.next a.ring)) = ids a.ring := by
        have : (Prod.fst ∘ fun (t : Task) => (t, a.d)) = id := rfl
        rw [this, List.map_id, ids_stamp]
      rw [e] at h2
      exact h2
    sel_some := fun s t d hs => by
      show (ids (s.pls.flatMap (·.2))).Perm (t.id :: ids ((spqPopRest s.pls).flatMap (·.2)))
      rw [spqPop_pend s.pls t d hs]
      exact List.Perm.refl _
    sel_none := fun s hs => by
      have h := spqPopRes_none s.pls hs
      have e : ∀ pls : List PList, pendD pls = [] → pls.flatMap (·.2) = [] := by
        intro pls hp; rw [← pendD_fst, hp]; rfl
      refine ⟨e _ h.1, ?_⟩
      show (spqPopRest s.pls).flatMap (·.2) = []
      rw [h.2]; exact e _ h.1 }

def gdCorrect : gdModule.Correct := sharedCorrect
  { sched_perm := fun s a => by
      show (ids (gdSchedule s a)).Perm _
      unfold gdSchedule
      split
      · simp [ids_append]
      · simp only [ids_append]; exact List.perm_append_comm
    sel_some := fun s t d hs => by
      unfold gdSelect at hs ⊢
      cases s with
      | nil => simp at hs
      | cons x xs =>
        simp only [Option.some.injEq, Prod.mk.injEq] at hs
        obtain ⟨rfl, _⟩ := hs
        exact List.Perm.refl _
    sel_none := fun s hs => by
      unfold gdSelect at hs ⊢
      cases s with
      | nil => simp
      | cons x xs => simp at hs }

theorem ids_rndAssign (d : Int) : ∀ (ring : List Task) (r : List Int), ids (rndAssign d ring r) = ids ring
  | [], _ => rfl
  | t :: ts, [] => by simp only [rndAssign, ids_cons, ids_rndAssign d ts []]
  | t :: ts, r :: rs => by simp only [rndAssign, ids_cons, ids_rndAssign d ts rs]

theorem insAsc_perm (t : Task) : ∀ l, (insAsc t l).Perm (t :: l)
  | [] => List.Perm.refl _
  | x :: xs => by
    unfold insAsc
    split
    · exact List.Perm.refl _
    · exact ((insAsc_perm t xs).cons x).trans (List.Perm.swap t x xs)

theorem sortAsc_perm : ∀ l, (sortAsc l).Perm l
  | [] => List.Perm.refl _
  | t :: ts => (insAsc_perm t _).trans ((sortAsc_perm ts).cons t)

def rndCorrect : rndModule.Correct := sharedCorrect
  { sched_perm := fun s a => by
      show (ids (rndSchedule s a)).Perm _
      unfold rndSchedule
      have h1 := ids_perm (chainSorted_perm s (sortAsc (rndAssign a.d a.ring a.rand)))
      have h2 := ids_perm (sortAsc_perm (rndAssign a.d a.ring a.rand))
      rw [ids_rndAssign] at h2
      simp only [ids_append] at h1
      exact h1.trans (h2.append_right _)
    sel_some := gdCorrectAux_some
    sel_none := gdCorrectAux_none }
where
  gdCorrectAux_some : ∀ (s : List Task) (t : Task) (d : Int), (gdSelect s).2 = some (t, d) → (ids s).Perm (t.id :: ids (gdSelect s).1) := by
    intro s t d hs
    unfold gdSelect at hs ⊢
    cases s with
    | nil => simp at hs
    | cons x xs =>
      simp only [Option.some.injEq, Prod.mk.injEq] at hs
      obtain ⟨rfl, _⟩ := hs
      exact List.Perm.refl _
  gdCorrectAux_none : ∀ (s : List Task), (gdSelect s).2 = none → s = [] ∧ (gdSelect s).1 = [] := by
    intro s hs
    unfold gdSelect at hs ⊢
    cases s with
    | nil => simp
    | cons x xs => simp at hs

end ParsecVerif.Sched
