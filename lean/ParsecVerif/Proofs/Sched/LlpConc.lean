import ParsecVerif.Model.Sched.LlpConc
import ParsecVerif.Proofs.Sched.Lifo
/-! Conservation of llp's `lifo_chain_sorted` protocol under every interleaving of its atomic steps
    with concurrent pops — given the single-writer usage hypothesis; and a witness that the
    hypothesis is needed. -/
namespace ParsecVerif.Sched.LlpConc
open ParsecVerif.Sched

/-- the conservation invariant: LIFO ⊎ in-hand ⊎ returned = handed in; and, on a single-writer LIFO,
    only thread 0 is ever active and the LIFO is empty while it holds a merged chain -/
def Inv (sw : Bool) (s : St) : Prop :=
  (s.lifo ++ hands s ++ s.ret).Perm s.sched ∧
  (sw = true → (∀ t, t ≠ 0 → s.pcs.getD t .idle = .idle) ∧
               (∀ l d, s.pcs.getD 0 .idle = .merged l d → s.lifo = []))

theorem hands_init (n : Nat) : hands (init n) = [] := by
  simp only [hands, init]
  induction n with
  | zero => rfl
  | succ k ih => simpa [List.replicate_succ, hand] using ih

theorem Inv.init (sw : Bool) (n : Nat) : Inv sw (init n) := by
  refine ⟨by show ([] ++ hands (LlpConc.init n) ++ []).Perm []; rw [hands_init]; simp, fun _ => ⟨?_, ?_⟩⟩
  · intro t _
    simp only [LlpConc.init, List.getD]
    cases h : (List.replicate n Pc.idle)[t]? with
    | none => rfl
    | some p =>
      have := List.mem_of_getElem? h
      simp only [List.mem_replicate] at this
      simp [this.2]
  · intro l d h
    simp only [LlpConc.init, List.getD] at h
    cases h2 : (List.replicate n Pc.idle)[0]? with
    | none => simp [h2] at h
    | some p =>
      have := List.mem_of_getElem? h2
      simp only [List.mem_replicate] at this
      simp [h2, this.2] at h

/-- replacing thread `t`'s pc: its old hand leaves, the new one enters -/
theorem hands_set (s : St) (t : Nat) (p : Pc) (h : t < s.pcs.length) :
    ((s.pcs.set t p).map hand).flatten ++ hand (s.pcs.getD t .idle) |>.Perm (hand p ++ hands s) := by
  have := flatten_set_perm (s.pcs.map hand) t (hand p) (by simpa using h)
  have e : (s.pcs.map hand).getD t [] = hand (s.pcs.getD t .idle) := by
    simp [List.getD, List.getElem?_eq_getElem h]
  rw [e] at this
  simpa [List.map_set, hands] using this

theorem getD_set_self (l : List Pc) (t : Nat) (p : Pc) (h : t < l.length) : (l.set t p).getD t .idle = p := by
  simp [List.getD, List.getElem?_set_self h]

theorem getD_set_ne (l : List Pc) (t u : Nat) (p : Pc) (h : t ≠ u) : (l.set t p).getD u .idle = l.getD u .idle := by
  simp [List.getD, List.getElem?_set_ne h]

theorem lt_of_not_idle {l : List Pc} {t : Nat} (h : l.getD t .idle ≠ .idle) : t < l.length := by
  by_cases ht : t < l.length
  · exact ht
  · exact absurd (by simp [List.getD, List.getElem?_eq_none (by omega : l.length ≤ t)]) h

/-- **every allowed move keeps the invariant** -/
theorem Inv.step (sw : Bool) (s : St) (m : Move) (ha : allowed sw m = true) (hi : Inv sw s) : Inv sw (apply sw s m) := by
  obtain ⟨hperm, hsw⟩ := hi
  cases m with
  | call t ring d =>
    simp only [apply]
    split
    next hc =>
      simp only [Bool.and_eq_true, decide_eq_true_eq] at hc
      obtain ⟨⟨hidle, _⟩, hlt⟩ := hc
      have hpc : s.pcs.getD t .idle = .idle := by
        cases h : s.pcs.getD t .idle with
        | idle => rfl
        | start r d' => rw [h] at hidle; simp [isIdle] at hidle
        | merged l d' => rw [h] at hidle; simp [isIdle] at hidle
      have hs := hands_set s t (.start ring d) hlt
      rw [hpc] at hs
      simp only [hand, List.append_nil] at hs
      refine ⟨?_, fun hswt => ?_⟩
      · show (s.lifo ++ ((s.pcs.set t (.start ring d)).map hand).flatten ++ s.ret).Perm (ring ++ s.sched)
        have h1 : (s.lifo ++ ((s.pcs.set t (.start ring d)).map hand).flatten ++ s.ret).Perm (s.lifo ++ (ring ++ hands s) ++ s.ret) :=
          (List.Perm.append_left _ hs).append_right _
        refine h1.trans ?_
        have h2 : (s.lifo ++ (ring ++ hands s) ++ s.ret).Perm (ring ++ (s.lifo ++ hands s ++ s.ret)) := by
          simp only [List.append_assoc]
          exact List.perm_append_comm_assoc _ _ _
        exact h2.trans (List.Perm.append_left _ hperm)
      · have ht0 : t = 0 := by
          simp only [allowed, hswt, Bool.not_true, Bool.false_or, beq_iff_eq] at ha; exact ha
        subst ht0
        refine ⟨fun u hu => ?_, fun l d' h => ?_⟩
        · show (s.pcs.set 0 _).getD u .idle = .idle
          rw [getD_set_ne _ _ _ _ (Ne.symm hu)]; exact (hsw hswt).1 u hu
        · have : (s.pcs.set 0 (Pc.start ring d)).getD 0 .idle = .merged l d' := h
          rw [getD_set_self _ _ _ hlt] at this
          cases this
    · exact ⟨hperm, hsw⟩
  | pop t =>
    simp only [apply]
    split
    · cases hl : s.lifo with
      | nil => simp only; exact ⟨hperm, hsw⟩
      | cons x xs =>
        simp only
        refine ⟨?_, fun hswt => ⟨(hsw hswt).1, fun l d h => ?_⟩⟩
        · show (xs ++ hands s ++ x :: s.ret).Perm s.sched
          rw [hl] at hperm
          have h1 : (xs ++ hands s ++ x :: s.ret).Perm (x :: (xs ++ hands s ++ s.ret)) :=
            List.perm_middle (a := x) (l₁ := xs ++ hands s) (l₂ := s.ret)
          exact h1.trans (by simpa using hperm)
        · have := (hsw hswt).2 l d h
          rw [hl] at this; cases this
    · exact ⟨hperm, hsw⟩
  | step t =>
    simp only [apply]
    cases hpc : s.pcs.getD t .idle with
    | idle => simp only; exact ⟨hperm, hsw⟩
    | start ring d =>
      have hlt : t < s.pcs.length := lt_of_not_idle (by rw [hpc]; simp)
      simp only
      cases hl : ring.getLast? with
      | none =>
        have hr : ring = [] := List.getLast?_eq_none_iff.1 hl
        simp only
        have hs := hands_set s t .idle hlt
        rw [hpc] at hs
        simp only [hand, hr, List.append_nil, List.nil_append] at hs
        refine ⟨?_, fun hswt => ⟨fun u hu => ?_, fun l d' h => ?_⟩⟩
        · show (s.lifo ++ ((s.pcs.set t .idle).map hand).flatten ++ s.ret).Perm s.sched
          exact ((List.Perm.append_left _ hs).append_right _).trans hperm
        · show (s.pcs.set t .idle).getD u .idle = .idle
          by_cases htu : t = u
          · subst htu; exact getD_set_self _ _ _ hlt
          · rw [getD_set_ne _ _ _ _ htu]; exact (hsw hswt).1 u hu
        · have h' : (s.pcs.set t Pc.idle).getD 0 .idle = .merged l d' := h
          by_cases ht0 : t = 0
          · subst ht0; rw [getD_set_self _ _ _ hlt] at h'; cases h'
          · rw [getD_set_ne _ _ _ _ ht0] at h'; exact (hsw hswt).2 l d' h'
      | some last =>
        simp only
        split
        · -- the whole ring is pushed in front
          have hs := hands_set s t .idle hlt
          rw [hpc] at hs
          simp only [hand, List.nil_append] at hs
          refine ⟨?_, fun hswt => ⟨fun u hu => ?_, fun l d' h => ?_⟩⟩
          · show (ring ++ s.lifo ++ ((s.pcs.set t .idle).map hand).flatten ++ s.ret).Perm s.sched
            refine List.Perm.trans ?_ hperm
            -- ring ++ lifo ++ H' ++ ret  ~  lifo ++ (H' ++ ring) ++ ret
            have h1 : (ring ++ s.lifo ++ ((s.pcs.set t .idle).map hand).flatten ++ s.ret).Perm
                (s.lifo ++ (((s.pcs.set t .idle).map hand).flatten ++ ring) ++ s.ret) := by
              refine List.Perm.append_right _ ?_
              simp only [List.append_assoc]
              refine (List.perm_append_comm_assoc _ _ _).trans (List.Perm.append_left _ List.perm_append_comm)
            exact h1.trans ((List.Perm.append_left _ hs).append_right _)
          · show (s.pcs.set t .idle).getD u .idle = .idle
            by_cases htu : t = u
            · subst htu; exact getD_set_self _ _ _ hlt
            · rw [getD_set_ne _ _ _ _ htu]; exact (hsw hswt).1 u hu
          · have h' : (s.pcs.set t Pc.idle).getD 0 .idle = .merged l d' := h
            by_cases ht0 : t = 0
            · subst ht0; rw [getD_set_self _ _ _ hlt] at h'; cases h'
            · rw [getD_set_ne _ _ _ _ ht0] at h'
              have := (hsw hswt).1 t ht0
              rw [hpc] at this; cases this
        · -- everything is detached and merged with the ring
          have hm := mergeLoop_perm d last ring ⟨[], [], s.lifo, 0⟩ ⟨by simp, by simp⟩
          simp only [MZ.all, List.nil_append] at hm
          have hs := hands_set s t (.merged (mergeLoop d last ring ⟨[], [], s.lifo, 0⟩) d) hlt
          rw [hpc] at hs
          simp only [hand] at hs
          refine ⟨?_, fun hswt => ⟨fun u hu => ?_, fun l d' _ => rfl⟩⟩
          · show ([] ++ ((s.pcs.set t _).map hand).flatten ++ s.ret).Perm s.sched
            refine List.Perm.trans ?_ hperm
            simp only [List.nil_append]
            -- H' ++ ring ~ merged ++ H ~ (ring ++ lifo) ++ H
            have h2 : (((s.pcs.set t (.merged (mergeLoop d last ring ⟨[], [], s.lifo, 0⟩) d)).map hand).flatten ++ ring).Perm
                ((ring ++ s.lifo) ++ hands s) := hs.trans (hm.append_right _)
            have h3 : (((s.pcs.set t (.merged (mergeLoop d last ring ⟨[], [], s.lifo, 0⟩) d)).map hand).flatten).Perm (s.lifo ++ hands s) := by
              have : ((ring ++ s.lifo) ++ hands s).Perm ((s.lifo ++ hands s) ++ ring) := by
                rw [List.append_assoc]; exact List.perm_append_comm
              exact (List.perm_append_right_iff ring).1 (h2.trans this)
            exact h3.append_right _
          · show (s.pcs.set t _).getD u .idle = .idle
            by_cases htu : t = u
            · subst htu
              have := (hsw hswt).1 t hu
              rw [hpc] at this; cases this
            · rw [getD_set_ne _ _ _ _ htu]; exact (hsw hswt).1 u hu
    | merged list d =>
      have hlt : t < s.pcs.length := lt_of_not_idle (by rw [hpc]; simp)
      simp only
      cases hswv : sw with
      | true =>
        -- single writer: plain store.  The invariant says the LIFO is empty here.
        have ht0 : t = 0 := by
          by_cases h : t = 0
          · exact h
          · have := (hsw hswv).1 t h
            rw [hpc] at this; cases this
        subst ht0
        have hemp : s.lifo = [] := (hsw hswv).2 list d hpc
        have hs := hands_set s 0 .idle hlt
        rw [hpc] at hs
        simp only [hand, List.nil_append] at hs
        simp only [if_true]
        refine ⟨?_, fun _ => ⟨fun u hu => ?_, fun l d' h => ?_⟩⟩
        · show (list ++ ((s.pcs.set 0 .idle).map hand).flatten ++ s.ret).Perm s.sched
          refine List.Perm.trans ?_ hperm
          rw [hemp, List.nil_append]
          exact (List.perm_append_comm.trans hs).append_right _
        · show (s.pcs.set 0 .idle).getD u .idle = .idle
          rw [getD_set_ne _ _ _ _ (Ne.symm hu)]; exact (hsw hswv).1 u hu
        · have h' : (s.pcs.set 0 Pc.idle).getD 0 .idle = .merged l d' := h
          rw [getD_set_self _ _ _ hlt] at h'; cases h'
      | false =>
        simp only [Bool.false_eq_true, if_false]
        cases hl : s.lifo with
        | nil =>
          simp only
          have hs := hands_set s t .idle hlt
          rw [hpc] at hs
          simp only [hand, List.nil_append] at hs
          refine ⟨?_, fun h => by cases h⟩
          show (list ++ ((s.pcs.set t .idle).map hand).flatten ++ s.ret).Perm s.sched
          refine List.Perm.trans ?_ hperm
          rw [hl, List.nil_append]
          exact (List.perm_append_comm.trans hs).append_right _
        | cons x xs =>
          simp only
          have hs := hands_set s t (.start (x :: xs) d) hlt
          rw [hpc] at hs
          simp only [hand] at hs
          refine ⟨?_, fun h => by cases h⟩
          show (list ++ ((s.pcs.set t (.start (x :: xs) d)).map hand).flatten ++ s.ret).Perm s.sched
          refine List.Perm.trans ?_ hperm
          rw [hl]
          refine List.Perm.append_right _ ?_
          exact List.perm_append_comm.trans hs

theorem Inv.run (sw : Bool) : ∀ (ms : List Move) (s : St), Inv sw s → Inv sw (run sw s ms)
  | [], _, h => h
  | m :: ms, s, h => by
    simp only [LlpConc.run, List.foldl_cons]
    by_cases ha : allowed sw m = true
    · simp only [ha, if_true]; exact Inv.run sw ms _ (Inv.step sw s m ha h)
    · simp only [ha]; exact Inv.run sw ms s h

end ParsecVerif.Sched.LlpConc
