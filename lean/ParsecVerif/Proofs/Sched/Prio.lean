import ParsecVerif.Model.Sched.Prio
/-! Helper lemmas for C09 / C08: sorted chaining (`chain_sorted`) and the ap / ip / spq machines. -/
namespace ParsecVerif.Sched

/-- `a` must leave before `b` under "highest priority first, earliest scheduled among equals" -/
def Before (a b : Task) : Prop := a.prio > b.prio ∨ (a.prio = b.prio ∧ a.seq < b.seq)

/-- the order ap / spq maintain: strictly sorted for `Before` -/
def Sorted (l : List Task) : Prop := l.Pairwise Before

/-- non-increasing priorities -/
def WSorted (l : List Task) : Prop := l.Pairwise (fun a b => a.prio ≥ b.prio)

theorem Sorted.weak {l : List Task} (h : Sorted l) : WSorted l :=
  List.Pairwise.imp (fun {a b} hab => by unfold Before at hab; omega) h

/-- stable sorted insertion: after every element whose priority is ≥, before the first strictly lower -/
def sinsert (t : Task) : List Task → List Task
  | [] => [t]
  | x :: xs => if higher t x then t :: x :: xs else x :: sinsert t xs

theorem higher_iff (a b : Task) : higher a b = true ↔ a.prio > b.prio := by simp [higher]

theorem insertAt_skipLen (t : Task) : ∀ l, insertAt l (skipLen t l) t = sinsert t l
  | [] => by simp [insertAt, skipLen, sinsert]
  | x :: xs => by
    unfold skipLen sinsert
    by_cases h : higher t x = true
    · simp [h, insertAt]
    · simp only [h]
      have ih := insertAt_skipLen t xs
      unfold insertAt at ih ⊢
      simp only [List.take_succ_cons, List.drop_succ_cons, List.cons_append, Bool.false_eq_true, if_false, ih]

theorem mem_sinsert {t z : Task} : ∀ {l}, z ∈ sinsert t l ↔ z = t ∨ z ∈ l
  | [] => by simp [sinsert]
  | x :: xs => by
    unfold sinsert
    by_cases h : higher t x = true
    · simp [h]
    · simp only [h, Bool.false_eq_true, if_false, List.mem_cons, mem_sinsert (l := xs)]
      constructor
      · rintro (h | h | h) <;> simp [h]
      · rintro (h | h | h) <;> simp [h]

theorem length_sinsert (t : Task) : ∀ l, (sinsert t l).length = l.length + 1
  | [] => by simp [sinsert]
  | x :: xs => by
    unfold sinsert
    by_cases h : higher t x = true
    · simp [h]
    · simp [h, length_sinsert t xs]

theorem skipLen_le (t : Task) : ∀ l, skipLen t l ≤ l.length
  | [] => by simp [skipLen]
  | x :: xs => by
    unfold skipLen
    by_cases h : higher t x = true
    · simp [h]
    · simp [h, skipLen_le t xs]

theorem insertAt_perm (l : List Task) (k : Nat) (t : Task) : (insertAt l k t).Perm (t :: l) := by
  unfold insertAt
  have h := List.perm_middle (a := t) (l₁ := l.take k) (l₂ := l.drop k)
  rw [List.take_append_drop] at h
  exact h

theorem sorted_sinsert {t : Task} : ∀ {l}, Sorted l → (∀ x ∈ l, x.seq < t.seq) → Sorted (sinsert t l)
  | [], _, _ => by simp [sinsert, Sorted]
  | x :: xs, hs, hq => by
    have hx := (List.pairwise_cons.1 hs).1
    have hs' : Sorted xs := (List.pairwise_cons.1 hs).2
    unfold sinsert
    by_cases h : higher t x = true
    · simp only [h, if_true]
      have hp := (higher_iff t x).1 h
      refine List.pairwise_cons.2 ⟨?_, hs⟩
      intro y hy
      rcases List.mem_cons.1 hy with rfl | hy
      · exact Or.inl hp
      · have := hx y hy; unfold Before at this ⊢; omega
    · simp only [h, Bool.false_eq_true, if_false]
      have hp : ¬ t.prio > x.prio := fun hh => h ((higher_iff t x).2 hh)
      refine List.pairwise_cons.2 ⟨?_, sorted_sinsert hs' (fun y hy => hq y (List.mem_cons_of_mem _ hy))⟩
      intro y hy
      rcases mem_sinsert.1 hy with rfl | hy
      · have := hq x (List.mem_cons_self ..); unfold Before; omega
      · exact hx y hy

/-- On a list with non-increasing priorities, restarting the scan at `pos` (whose priority is not
    below the new element's) finds the same place as scanning from the head. -/
theorem skipLen_drop {t : Task} : ∀ {l : List Task} {pos : Nat} (_ : WSorted l) (hp : pos < l.length),
    ¬ t.prio > (l[pos]).prio → skipLen t l = pos + skipLen t (l.drop pos)
  | [], _, _, hp, _ => by simp at hp
  | x :: xs, 0, _, _, _ => by simp
  | x :: xs, k + 1, hw, hp, hn => by
    have hx := (List.pairwise_cons.1 hw).1
    have hw' : WSorted xs := (List.pairwise_cons.1 hw).2
    have hk : k < xs.length := by simpa using hp
    have hn' : ¬ t.prio > (xs[k]).prio := by simpa using hn
    have h1 : x.prio ≥ (xs[k]).prio := hx _ (List.getElem_mem hk)
    have hh : ¬ higher t x = true := by rw [higher_iff]; omega
    have ih := skipLen_drop hw' hk hn'
    simp only [skipLen, hh, Bool.false_eq_true, if_false, List.drop_succ_cons, ih]
    omega

theorem chainIdx_sorted {c : Cur} {t : Task} (hw : WSorted c.l) (hp : c.pos < c.l.length) :
    chainIdx c t = skipLen t c.l := by
  unfold chainIdx chainStart
  rw [List.getElem?_eq_getElem hp]
  by_cases h : higher t c.l[c.pos] = true
  · simp [h]
  · simp only [h, Bool.false_eq_true, if_false]
    exact (skipLen_drop hw hp (fun hh => h ((higher_iff _ _).2 hh))).symm

theorem chainStep_sorted {c : Cur} {t : Task} (hw : WSorted c.l) (hp : c.pos < c.l.length) :
    chainStep c t = ⟨sinsert t c.l, skipLen t c.l⟩ := by
  unfold chainStep
  rw [chainIdx_sorted hw hp, insertAt_skipLen]

theorem mem_stamp {x : Task} : ∀ {ring : List Task} {n : Nat}, x ∈ stamp n ring → n ≤ x.seq ∧ x.seq < n + ring.length
  | [], _, h => by simp [stamp] at h
  | t :: ts, n, h => by
    simp only [stamp, List.mem_cons] at h
    rcases h with rfl | h
    · simp
    · have := mem_stamp h
      simp only [List.length_cons]; omega

theorem length_stamp : ∀ (ring : List Task) (n : Nat), (stamp n ring).length = ring.length
  | [], _ => rfl
  | _ :: ts, n => by simp [stamp, length_stamp ts]

/-- stamping changes only the ghost field -/
theorem stamp_ids : ∀ (ring : List Task) (n : Nat), (stamp n ring).map (fun t => (t.id, t.prio)) = ring.map (fun t => (t.id, t.prio))
  | [], _ => rfl
  | _ :: ts, n => by simp [stamp, stamp_ids ts]

/-- the fold of `chainStep` is a permutation whatever the list and cursor are -/
theorem foldl_chainStep_perm : ∀ (ring : List Task) (c : Cur), ((ring.foldl chainStep c).l).Perm (ring ++ c.l)
  | [], c => by simp
  | t :: ts, c => by
    simp only [List.foldl_cons]
    refine (foldl_chainStep_perm ts (chainStep c t)).trans ?_
    have h1 : (chainStep c t).l.Perm (t :: c.l) := insertAt_perm _ _ _
    refine (List.Perm.append_left ts h1).trans ?_
    simp

/-- `chain_sorted` neither loses nor duplicates an element, on any list -/
theorem chainSorted_perm (l ring : List Task) : (chainSorted l ring).Perm (ring ++ l) := by
  unfold chainSorted
  cases ring with
  | nil => simp
  | cons r rs =>
    cases l with
    | nil =>
      refine (foldl_chainStep_perm rs ⟨[r], 0⟩).trans ?_
      simp
    | cons x xs => exact foldl_chainStep_perm (r :: rs) _

theorem foldl_chainStep_sorted : ∀ (ring : List Task) (n : Nat) (c : Cur), Sorted c.l → c.pos < c.l.length →
    (∀ x ∈ c.l, x.seq < n) → Sorted ((stamp n ring).foldl chainStep c).l
  | [], _, _, hs, _, _ => by simpa [stamp] using hs
  | t :: ts, n, c, hs, hp, hq => by
    simp only [stamp, List.foldl_cons]
    rw [chainStep_sorted hs.weak hp]
    apply foldl_chainStep_sorted ts (n + 1)
    · exact sorted_sinsert hs (fun x hx => by simpa using hq x hx)
    · simp only [length_sinsert]; have := skipLen_le { t with seq := n } c.l; omega
    · intro x hx
      rcases mem_sinsert.1 hx with rfl | hx
      · simp
      · have := hq x hx; omega

/-- on a sorted list, `chain_sorted` of a freshly stamped ring keeps the list sorted
    (highest priority first, arrival order among equals) -/
theorem chainSorted_sorted {l : List Task} {n : Nat} (ring : List Task) (hs : Sorted l)
    (hq : ∀ x ∈ l, x.seq < n) : Sorted (chainSorted l (stamp n ring)) := by
  cases ring with
  | nil => simpa [stamp, chainSorted] using hs
  | cons r rs =>
    cases l with
    | nil =>
      simp only [stamp, chainSorted]
      apply foldl_chainStep_sorted rs (n + 1)
      · simp [Sorted]
      · simp
      · intro x hx; simp at hx; subst hx; simp
    | cons x xs =>
      have : chainSorted (x :: xs) (stamp n (r :: rs)) = ((stamp n (r :: rs)).foldl chainStep ⟨x :: xs, (x :: xs).length - 1⟩).l := by
        simp [stamp, chainSorted]
      rw [this]
      exact foldl_chainStep_sorted (r :: rs) n _ hs (by simp) hq

theorem chainSorted_seq_lt {l : List Task} {n : Nat} (ring : List Task) (hq : ∀ x ∈ l, x.seq < n) :
    ∀ x ∈ chainSorted l (stamp n ring), x.seq < n + ring.length := by
  intro x hx
  have := (chainSorted_perm l (stamp n ring)).mem_iff.1 hx
  rcases List.mem_append.1 this with h | h
  · exact (mem_stamp h).2
  · have := hq x h; omega

/-! ### the machines: operations, runs, invariants -/

inductive Op
  | sched (ring : List Task) (d : Int)
  | sel
deriving Repr

def apStep (s : LSt) : Op → LSt
  | .sched r d => apSchedule s r d
  | .sel => (apSelect s).1

def ipStep (s : LSt) : Op → LSt
  | .sched r d => ipSchedule s r d
  | .sel => (ipSelect s).1

def spqStep (s : SpqSt) : Op → SpqSt
  | .sched r d => spqSchedule s r d
  | .sel => (spqSelect s).1

def apRun (ops : List Op) : LSt := ops.foldl apStep LSt.init
def ipRun (ops : List Op) : LSt := ops.foldl ipStep LSt.init
def spqRun (ops : List Op) : SpqSt := ops.foldl spqStep SpqSt.init

/-- every `schedule` of the history used distance 0 -/
def AllD0 (ops : List Op) : Prop := ∀ op ∈ ops, match op with | .sched _ d => d = 0 | .sel => True

/-- invariant of the shared list of ap (always) and of ip (while only distance 0 is used) -/
def LInv (s : LSt) : Prop := Sorted s.list ∧ ∀ x ∈ s.list, x.seq < s.next

theorem LInv.init : LInv LSt.init := by simp [LInv, LSt.init, Sorted]

theorem LInv.apSchedule {s : LSt} (h : LInv s) (ring : List Task) (d : Int) : LInv (apSchedule s ring d) :=
  ⟨chainSorted_sorted ring h.1 h.2, chainSorted_seq_lt ring h.2⟩

theorem LInv.apSelect {s : LSt} (h : LInv s) : LInv (apSelect s).1 := by
  unfold Sched.apSelect
  cases hl : s.list with
  | nil => simpa [hl] using h
  | cons t ts =>
    simp only
    have h1 := h.1; have h2 := h.2
    rw [hl] at h1 h2
    exact ⟨(List.pairwise_cons.1 h1).2, fun x hx => h2 x (List.mem_cons_of_mem _ hx)⟩

theorem LInv.ipSelect {s : LSt} (h : LInv s) : LInv (ipSelect s).1 := by
  unfold Sched.ipSelect
  cases hl : s.list.getLast? with
  | none => simpa [hl] using h
  | some t =>
    simp only
    exact ⟨List.Pairwise.sublist (List.dropLast_sublist _) h.1, fun x hx => h.2 x (List.dropLast_subset _ hx)⟩

theorem apRun_inv_from : ∀ (ops : List Op) (s : LSt), LInv s → LInv (ops.foldl apStep s)
  | [], _, h => h
  | .sched r d :: ops, _, h => apRun_inv_from ops _ (h.apSchedule r d)
  | .sel :: ops, _, h => apRun_inv_from ops _ h.apSelect

theorem apRun_inv (ops : List Op) : LInv (apRun ops) := apRun_inv_from ops _ LInv.init

theorem ipRun_inv_from : ∀ (ops : List Op) (s : LSt), AllD0 ops → LInv s → LInv (ops.foldl ipStep s)
  | [], _, _, h => h
  | .sched r d :: ops, s, h0, h => by
    have hd : d = 0 := h0 (.sched r d) (List.mem_cons_self ..)
    have h0' : AllD0 ops := fun op hop => h0 op (List.mem_cons_of_mem _ hop)
    refine ipRun_inv_from ops _ h0' ?_
    subst hd
    simpa [ipStep, ipSchedule, Sched.apSchedule] using h.apSchedule r 0
  | .sel :: ops, s, h0, h =>
    ipRun_inv_from ops _ (fun op hop => h0 op (List.mem_cons_of_mem _ hop)) h.ipSelect

theorem ipRun_inv (ops : List Op) (h0 : AllD0 ops) : LInv (ipRun ops) := ipRun_inv_from ops _ h0 LInv.init

/-! spq -/

/-- pending tasks of spq with the distance they are queued at, in selection order -/
def pendD (pls : List PList) : List (Task × Int) := pls.flatMap (fun p => p.2.map (fun t => (t, p.1)))

def PL (n : Nat) (q : PList) : Prop := Sorted q.2 ∧ ∀ x ∈ q.2, x.seq < n

def SpqInv (s : SpqSt) : Prop :=
  s.pls.Pairwise (fun a b => a.1 < b.1) ∧ ∀ q ∈ s.pls, PL s.next q

theorem PL.mono {n m : Nat} {q : PList} (h : PL n q) (hnm : n ≤ m) : PL m q :=
  ⟨h.1, fun x hx => by have := h.2 x hx; omega⟩

theorem PL.chain {n : Nat} {p : Int} {ts : List Task} (h : PL n (p, ts)) (ring : List Task) (d : Int) :
    PL (n + ring.length) (d, chainSorted ts (stamp n ring)) :=
  ⟨chainSorted_sorted ring h.1 h.2, chainSorted_seq_lt ring h.2⟩

theorem PL.nil (n : Nat) (p : Int) : PL n (p, []) := by simp [PL, Sorted]

theorem fst_mem_spqInsert {d : Int} {ring : List Task} : ∀ {pls : List PList} {q : PList},
    q ∈ spqInsert d ring pls → q.1 = d ∨ ∃ q' ∈ pls, q'.1 = q.1
  | [], q, h => by simp [spqInsert] at h; simp [h]
  | (p, ts) :: rest, q, h => by
    unfold spqInsert at h
    by_cases h1 : p = d
    · simp only [h1, if_true, List.mem_cons] at h
      rcases h with rfl | h
      · simp
      · exact Or.inr ⟨q, by simp [h], rfl⟩
    · by_cases h2 : p > d
      · simp only [h1, h2, if_false, if_true, List.mem_cons] at h
        rcases h with rfl | rfl | h
        · simp
        · exact Or.inr ⟨(p, ts), by simp, rfl⟩
        · exact Or.inr ⟨q, by simp [h], rfl⟩
      · simp only [h1, h2, if_false, List.mem_cons] at h
        rcases h with rfl | h
        · exact Or.inr ⟨(p, ts), by simp, rfl⟩
        · rcases fst_mem_spqInsert h with h | ⟨q', hq', he⟩
          · exact Or.inl h
          · exact Or.inr ⟨q', by simp [hq'], he⟩

theorem pairwise_spqInsert (d : Int) (ring : List Task) : ∀ (pls : List PList),
    pls.Pairwise (fun a b => a.1 < b.1) → (spqInsert d ring pls).Pairwise (fun a b => a.1 < b.1)
  | [], _ => by simp [spqInsert]
  | (p, ts) :: rest, h => by
    have hx := (List.pairwise_cons.1 h).1
    have hr := (List.pairwise_cons.1 h).2
    unfold spqInsert
    by_cases h1 : p = d
    · simp only [h1, if_true]
      exact List.pairwise_cons.2 ⟨fun y hy => by have := hx y hy; simpa [h1] using this, hr⟩
    · by_cases h2 : p > d
      · simp only [h1, h2, if_false, if_true]
        refine List.pairwise_cons.2 ⟨?_, h⟩
        intro y hy
        rcases List.mem_cons.1 hy with rfl | hy
        · exact h2
        · have := hx y hy; simp only at this ⊢; omega
      · simp only [h1, h2, if_false]
        refine List.pairwise_cons.2 ⟨?_, pairwise_spqInsert d ring rest hr⟩
        intro y hy
        rcases fst_mem_spqInsert hy with h | ⟨q', hq', he⟩
        · simp only [h]; omega
        · have := hx q' hq'; simp only at this ⊢; omega

theorem PL_spqInsert {n : Nat} (d : Int) (ring : List Task) : ∀ (pls : List PList), (∀ q ∈ pls, PL n q) →
    ∀ q ∈ spqInsert d (stamp n ring) pls, PL (n + ring.length) q
  | [], _, q, hq => by
    simp only [spqInsert, List.mem_singleton] at hq
    subst hq
    exact (PL.nil n 0).chain ring d
  | (p, ts) :: rest, h, q, hq => by
    have hp : PL n (p, ts) := h _ (List.mem_cons_self ..)
    have hrest : ∀ q ∈ rest, PL n q := fun q hq => h q (List.mem_cons_of_mem _ hq)
    unfold spqInsert at hq
    by_cases h1 : p = d
    · simp only [h1, if_true, List.mem_cons] at hq
      rcases hq with rfl | hq
      · exact hp.chain ring d
      · exact (hrest q hq).mono (by omega)
    · by_cases h2 : p > d
      · simp only [h1, h2, if_false, if_true, List.mem_cons] at hq
        rcases hq with rfl | rfl | hq
        · exact (PL.nil n 0).chain ring d
        · exact hp.mono (by omega)
        · exact (hrest q hq).mono (by omega)
      · simp only [h1, h2, if_false, List.mem_cons] at hq
        rcases hq with rfl | hq
        · exact hp.mono (by omega)
        · exact PL_spqInsert d ring rest hrest q hq

theorem SpqInv.init : SpqInv SpqSt.init := by simp [SpqInv, SpqSt.init]

theorem SpqInv.schedule {s : SpqSt} (h : SpqInv s) (ring : List Task) (d : Int) : SpqInv (spqSchedule s ring d) :=
  ⟨pairwise_spqInsert d _ _ h.1, PL_spqInsert d ring _ h.2⟩

theorem spqPopRest_fst : ∀ (pls : List PList), (spqPopRest pls).map Prod.fst = pls.map Prod.fst
  | [] => rfl
  | (p, []) :: rest => by simp [spqPopRest, spqPopRest_fst rest]
  | (p, _ :: ts) :: rest => by simp [spqPopRest]

theorem PL_spqPopRest {n : Nat} : ∀ (pls : List PList), (∀ q ∈ pls, PL n q) → ∀ q ∈ spqPopRest pls, PL n q
  | [], _, q, hq => by simp [spqPopRest] at hq
  | (p, []) :: rest, h, q, hq => by
    simp only [spqPopRest, List.mem_cons] at hq
    rcases hq with rfl | hq
    · exact PL.nil n p
    · exact PL_spqPopRest rest (fun q hq => h q (List.mem_cons_of_mem _ hq)) q hq
  | (p, t :: ts) :: rest, h, q, hq => by
    simp only [spqPopRest, List.mem_cons] at hq
    rcases hq with rfl | hq
    · have := h (p, t :: ts) (List.mem_cons_self ..)
      exact ⟨(List.pairwise_cons.1 this.1).2, fun x hx => this.2 x (List.mem_cons_of_mem _ hx)⟩
    · exact h q (List.mem_cons_of_mem _ hq)

theorem SpqInv.select {s : SpqSt} (h : SpqInv s) : SpqInv (spqSelect s).1 := by
  refine ⟨?_, PL_spqPopRest _ h.2⟩
  have h1 := h.1
  have e : ∀ (l : List PList), l.Pairwise (fun a b => a.1 < b.1) ↔ (l.map Prod.fst).Pairwise (· < ·) :=
    fun l => (List.pairwise_map (f := Prod.fst) (R := (· < ·)) (l := l)).symm
  rw [e] at h1
  show (spqPopRest s.pls).Pairwise _
  rw [e, spqPopRest_fst]
  exact h1

theorem spqRun_inv_from : ∀ (ops : List Op) (s : SpqSt), SpqInv s → SpqInv (ops.foldl spqStep s)
  | [], _, h => h
  | .sched r d :: ops, _, h => spqRun_inv_from ops _ (h.schedule r d)
  | .sel :: ops, _, h => spqRun_inv_from ops _ h.select

theorem spqRun_inv (ops : List Op) : SpqInv (spqRun ops) := spqRun_inv_from ops _ SpqInv.init

/-- what a successful spq select does to the pending list, and why the result beats the rest -/
theorem spqPop_spec : ∀ (pls : List PList) (t : Task) (d : Int), spqPopRes pls = some (t, d) →
    pls.Pairwise (fun a b => a.1 < b.1) → (∀ q ∈ pls, Sorted q.2) →
    pendD pls = (t, d) :: pendD (spqPopRest pls) ∧
    ∀ u du, (u, du) ∈ pendD (spqPopRest pls) → d < du ∨ (d = du ∧ Before t u)
  | [], _, _, h, _, _ => by simp [spqPopRes] at h
  | (p, []) :: rest, t, d, h, hp, hs => by
    simp only [spqPopRes] at h
    have ih := spqPop_spec rest t d h (List.pairwise_cons.1 hp).2 (fun q hq => hs q (List.mem_cons_of_mem _ hq))
    simpa [pendD, spqPopRest] using ih
  | (p, t' :: ts) :: rest, t, d, h, hp, hs => by
    simp only [spqPopRes, Option.some.injEq, Prod.mk.injEq] at h
    obtain ⟨rfl, rfl⟩ := h
    refine ⟨by simp [pendD, spqPopRest], ?_⟩
    intro u du hu
    simp only [pendD, spqPopRest, List.flatMap_cons, List.mem_append, List.mem_map, List.mem_flatMap, Prod.mk.injEq] at hu
    rcases hu with ⟨x, hx, rfl, rfl⟩ | ⟨q, hq, x, _, rfl, rfl⟩
    · have := hs (p, t' :: ts) (List.mem_cons_self ..)
      exact Or.inr ⟨rfl, (List.pairwise_cons.1 this).1 x hx⟩
    · exact Or.inl ((List.pairwise_cons.1 hp).1 q hq)

theorem spqPopRes_none : ∀ (pls : List PList), spqPopRes pls = none → pendD pls = [] ∧ spqPopRest pls = pls
  | [], _ => by simp [pendD, spqPopRest]
  | (p, []) :: rest, h => by
    simp only [spqPopRes] at h
    have ih := spqPopRes_none rest h
    simp only [pendD] at ih
    simp [pendD, spqPopRest, ih.1, ih.2]
  | (p, _ :: _) :: _, h => by simp [spqPopRes] at h

/-- spq `schedule` adds exactly the ring, tagged with the requested distance, to the pending bag -/
theorem pendD_spqInsert (d : Int) (ring : List Task) : ∀ (pls : List PList),
    (pendD (spqInsert d ring pls)).Perm (ring.map (fun t => (t, d)) ++ pendD pls)
  | [] => by
    simp only [spqInsert, pendD, List.flatMap_cons, List.flatMap_nil, List.append_nil]
    exact (chainSorted_perm [] ring).map _ |>.trans (by simp)
  | (p, ts) :: rest => by
    unfold spqInsert
    by_cases h1 : p = d
    · subst h1
      simp only [if_true, pendD, List.flatMap_cons]
      have := ((chainSorted_perm ts ring).map (fun t => (t, p)))
      simp only [List.map_append] at this
      simpa [List.append_assoc] using this.append_right (List.flatMap (fun p => p.2.map (fun t => (t, p.1))) rest)
    · by_cases h2 : p > d
      · simp only [h1, h2, if_false, if_true, pendD, List.flatMap_cons]
        have := ((chainSorted_perm [] ring).map (fun t => (t, d)))
        simp only [List.append_nil] at this
        exact this.append_right _
      · simp only [h1, h2, if_false, pendD, List.flatMap_cons]
        have ih := pendD_spqInsert d ring rest
        simp only [pendD] at ih
        refine (List.Perm.append_left _ ih).trans ?_
        simp only [← List.append_assoc]
        exact List.Perm.append_right _ List.perm_append_comm

end ParsecVerif.Sched
