import ParsecVerif.Model.Sched.Hbb
import ParsecVerif.Proofs.Sched.Lifo
/-! Conservation and liveness of the hierarchical bounded buffers; `Module.Correct` for the
    lfq / lhq machine (`hbbModule`) and pbq (`pbqModule`). -/
namespace ParsecVerif.Sched

variable {α : Type}

def slotsOf (sl : List (Option α)) : List α := sl.filterMap id

def o2l : Option α → List α
  | none => []
  | some x => [x]

theorem slotsOf_cons (o : Option α) (sl : List (Option α)) : slotsOf (o :: sl) = o2l o ++ slotsOf sl := by
  cases o <;> simp [slotsOf, o2l]

theorem filterMap_flatten_eq (l : List (List (Option α))) : l.flatten.filterMap id = (l.map slotsOf).flatten := by
  induction l with
  | nil => rfl
  | cons x xs ih => simp [List.filterMap_append, ih, slotsOf]

theorem hbbPending_eq (s : HbbSt α) : hbbPending s = (s.bufs.map slotsOf).flatten ++ s.sysq := by
  unfold hbbPending; rw [filterMap_flatten_eq]

/-! ### slots -/

/-- replacing slot `i` by `v`: old content out, new content in -/
theorem slots_set : ∀ (sl : List (Option α)) (i : Nat) (v : Option α), i < sl.length →
    (slotsOf (sl.set i v) ++ o2l (sl.getD i none)).Perm (o2l v ++ slotsOf sl)
  | [], _, _, h => by simp at h
  | o :: sl, 0, v, _ => by
    simp only [List.set_cons_zero, List.getD_cons_zero, slotsOf_cons, List.append_assoc]
    exact List.Perm.append_left _ List.perm_append_comm
  | o :: sl, i + 1, v, h => by
    have ih := slots_set sl i v (by simpa using h)
    simp only [List.set_cons_succ, List.getD_cons_succ, slotsOf_cons, List.append_assoc]
    refine (List.Perm.append_left _ ih).trans ?_
    simp only [← List.append_assoc]
    exact List.Perm.append_right _ List.perm_append_comm

theorem getD_some_lt {sl : List (Option α)} {i : Nat} {x : α} (h : sl.getD i none = some x) : i < sl.length := by
  by_cases hi : i < sl.length
  · exact hi
  · have : sl.getD i none = none := by simp [List.getD, List.getElem?_eq_none (by omega : sl.length ≤ i)]
    rw [this] at h; simp at h

theorem slots_take (sl : List (Option α)) (i : Nat) (x : α) (h : sl.getD i none = some x) :
    (slotsOf sl).Perm (x :: slotsOf (sl.set i none)) := by
  have := slots_set sl i none (getD_some_lt h)
  rw [h] at this
  simp only [o2l, List.nil_append] at this
  exact (this.symm.trans List.perm_append_comm)

theorem hbbFill_perm : ∀ (sl : List (Option α)) (ring : List α),
    (slotsOf (hbbFill sl ring).1 ++ (hbbFill sl ring).2).Perm (ring ++ slotsOf sl)
  | [], ring => by simp [hbbFill, slotsOf]
  | o :: sl, [] => by simp [hbbFill]
  | none :: sl, x :: xs => by
    simp only [hbbFill, slotsOf_cons, o2l, List.nil_append, List.cons_append, List.append_assoc]
    exact (hbbFill_perm sl xs).cons x
  | some y :: sl, x :: xs => by
    simp only [hbbFill, slotsOf_cons, o2l, List.cons_append, List.nil_append]
    refine ((hbbFill_perm sl (x :: xs)).cons y).trans ?_
    exact (List.perm_middle).symm

theorem hbbFill_length : ∀ (sl : List (Option α)) (ring : List α), (hbbFill sl ring).1.length = sl.length
  | [], _ => by simp [hbbFill]
  | o :: sl, [] => by simp [hbbFill]
  | none :: sl, x :: xs => by simp [hbbFill, hbbFill_length sl xs]
  | some y :: sl, x :: xs => by simp [hbbFill, hbbFill_length sl (x :: xs)]

/-! ### buffers -/

theorem map_set_slots (bufs : List (List (Option α))) (b : Nat) (x : List (Option α)) :
    (bufs.set b x).map slotsOf = (bufs.map slotsOf).set b (slotsOf x) := by
  simp [List.map_set]

theorem map_getD_slots (bufs : List (List (Option α))) (b : Nat) :
    (bufs.map slotsOf).getD b [] = slotsOf (bufs.getD b []) := by
  by_cases hb : b < bufs.length
  · simp [List.getD, List.getElem?_eq_getElem hb]
  · simp [List.getD, List.getElem?_eq_none (by omega : bufs.length ≤ b), slotsOf]

/-- writing `x` into buffer `b` when `slotsOf x ++ extra ~ r ++ (old content of b)`; also fine when
    `b` is no buffer at all (then nothing is written and `x` must hold nothing) -/
theorem bufs_set_perm (bufs : List (List (Option α))) (b : Nat) (x : List (Option α)) (r extra : List α)
    (hx : (slotsOf x ++ extra).Perm (r ++ slotsOf (bufs.getD b [])))
    (hout : bufs.length ≤ b → slotsOf x = []) :
    (((bufs.set b x).map slotsOf).flatten ++ extra).Perm (r ++ (bufs.map slotsOf).flatten) := by
  by_cases hb : b < bufs.length
  · have h1 := flatten_set_perm (bufs.map slotsOf) b (slotsOf x) (by simpa using hb)
    rw [map_getD_slots] at h1
    rw [map_set_slots]
    -- ((set).flatten ++ old) ~ new ++ flatten ;   new ++ extra ~ r ++ old
    have h2 : ((((bufs.map slotsOf).set b (slotsOf x)).flatten ++ extra) ++ slotsOf (bufs.getD b [])).Perm
        ((r ++ (bufs.map slotsOf).flatten) ++ slotsOf (bufs.getD b [])) := by
      have e1 : ((((bufs.map slotsOf).set b (slotsOf x)).flatten ++ extra) ++ slotsOf (bufs.getD b [])).Perm
          ((((bufs.map slotsOf).set b (slotsOf x)).flatten ++ slotsOf (bufs.getD b [])) ++ extra) := by
        simp only [List.append_assoc]; exact List.Perm.append_left _ List.perm_append_comm
      refine e1.trans ((h1.append_right extra).trans ?_)
      -- (new ++ flatten) ++ extra ~ (r ++ flatten) ++ old
      have e2 : ((slotsOf x ++ (bufs.map slotsOf).flatten) ++ extra).Perm ((slotsOf x ++ extra) ++ (bufs.map slotsOf).flatten) := by
        simp only [List.append_assoc]; exact List.Perm.append_left _ List.perm_append_comm
      refine e2.trans ((hx.append_right _).trans ?_)
      simp only [List.append_assoc]; exact List.Perm.append_left _ List.perm_append_comm
    exact (List.perm_append_right_iff _).1 h2
  · have hle : bufs.length ≤ b := by omega
    have hset : bufs.set b x = bufs := List.set_eq_of_length_le hle
    have hget : bufs.getD b [] = [] := by simp [List.getD, List.getElem?_eq_none hle]
    rw [hset]
    rw [hget, hout hle] at hx
    simp only [slotsOf, List.filterMap_nil, List.nil_append, List.append_nil] at hx
    exact (List.perm_append_comm).trans (hx.append_right _)

theorem fill_out (bufs : List (List (Option α))) (b : Nat) (ring : List α) (h : bufs.length ≤ b) :
    slotsOf (hbbFill (bufs.getD b []) ring).1 = [] := by
  have hget : bufs.getD b [] = [] := by simp [List.getD, List.getElem?_eq_none h]
  rw [hget]; simp [hbbFill, slotsOf]

theorem hbbPushAll_cfg : ∀ (f : Nat) (s : HbbSt α) (b : Nat) (ring : List α) (d : Int),
    (hbbPushAll f s b ring d).cfg = s.cfg ∧ (hbbPushAll f s b ring d).bufs.length = s.bufs.length
  | 0, s, _, _, _ => by simp [hbbPushAll]
  | f + 1, s, b, ring, d => by
    unfold hbbPushAll
    split
    · split
      · exact hbbPushAll_cfg f s _ ring _
      · simp
    · split
      · simp
      · split
        · have := hbbPushAll_cfg f { s with bufs := s.bufs.set b (hbbFill (s.bufs.getD b []) ring).1 } ‹Nat› (hbbFill (s.bufs.getD b []) ring).2 (d - 1)
          simpa using this
        · simp

/-- **`parsec_hbbuffer_push_all` conserves**: whatever the fill level, the distance and the depth of
    the buffer tree, the ring ends up in the buffers and the system queue, nothing else changes -/
theorem hbbPushAll_perm : ∀ (f : Nat) (s : HbbSt α) (b : Nat) (ring : List α) (d : Int),
    (hbbPending (hbbPushAll f s b ring d)).Perm (ring ++ hbbPending s)
  | 0, s, _, ring, _ => by
    simp only [hbbPushAll, hbbPending_eq]
    simp only [← List.append_assoc]
    exact List.perm_append_comm.trans (by simp)
  | f + 1, s, b, ring, d => by
    have hsys : ∀ (bufs : List (List (Option α))) (extra : List α),
        ((bufs.map slotsOf).flatten ++ (s.sysq ++ extra)).Perm (((bufs.map slotsOf).flatten ++ extra) ++ s.sysq) := by
      intro bufs extra
      simp only [List.append_assoc]; exact List.Perm.append_left _ List.perm_append_comm
    unfold hbbPushAll
    split
    · split
      · exact hbbPushAll_perm f s _ ring _
      · simp only [hbbPending_eq]
        simp only [← List.append_assoc]
        exact List.perm_append_comm.trans (by simp)
    · have hfill := hbbFill_perm (s.bufs.getD b []) ring
      have hset := bufs_set_perm s.bufs b (hbbFill (s.bufs.getD b []) ring).1 ring (hbbFill (s.bufs.getD b []) ring).2 hfill
        (fun h => fill_out s.bufs b ring h)
      split
      next hemp =>
        have he : (hbbFill (s.bufs.getD b []) ring).2 = [] := List.isEmpty_iff.1 hemp
        rw [he, List.append_nil] at hset
        simp only [hbbPending_eq]
        simp only [← List.append_assoc]
        exact hset.append_right _
      · split
        · refine (hbbPushAll_perm f _ _ _ _).trans ?_
          simp only [hbbPending_eq]
          -- rest ++ (bufs' ++ sysq) ~ ring ++ (bufs ++ sysq)
          have : ((hbbFill (s.bufs.getD b []) ring).2 ++ (((s.bufs.set b (hbbFill (s.bufs.getD b []) ring).1).map slotsOf).flatten ++ s.sysq)).Perm
              ((((s.bufs.set b (hbbFill (s.bufs.getD b []) ring).1).map slotsOf).flatten ++ (hbbFill (s.bufs.getD b []) ring).2) ++ s.sysq) := by
            simp only [← List.append_assoc]; exact List.Perm.append_right _ List.perm_append_comm
          refine this.trans ((hset.append_right _).trans ?_)
          simp
        · simp only [hbbPending_eq]
          refine (hsys _ _).trans ((hset.append_right _).trans ?_)
          simp

/-! ### pop_best -/

theorem bestIdx_some (pr : α → Int) : ∀ (sl : List (Option α)) (i : Nat) (p : Int), bestIdx pr sl = some (i, p) →
    ∃ x, sl.getD i none = some x
  | [], _, _, h => by simp [bestIdx] at h
  | none :: sl, i, p, h => by
    simp only [bestIdx, Option.map_eq_some_iff] at h
    obtain ⟨⟨j, q⟩, hj, he⟩ := h
    simp only [Prod.mk.injEq] at he
    obtain ⟨rfl, rfl⟩ := he
    simpa using bestIdx_some pr sl j q hj
  | some x :: sl, i, p, h => by
    unfold bestIdx at h
    cases hb : bestIdx pr sl with
    | none => simp only [hb, Option.some.injEq, Prod.mk.injEq] at h; obtain ⟨rfl, _⟩ := h; exact ⟨x, by simp⟩
    | some q =>
      obtain ⟨j, q⟩ := q
      simp only [hb] at h
      split at h
      · simp only [Option.some.injEq, Prod.mk.injEq] at h; obtain ⟨rfl, _⟩ := h
        simpa using bestIdx_some pr sl j q hb
      · simp only [Option.some.injEq, Prod.mk.injEq] at h; obtain ⟨rfl, _⟩ := h; exact ⟨x, by simp⟩

theorem bestIdx_none (pr : α → Int) : ∀ (sl : List (Option α)), bestIdx pr sl = none → slotsOf sl = []
  | [], _ => rfl
  | none :: sl, h => by
    simp only [bestIdx, Option.map_eq_none_iff] at h
    simpa [slotsOf_cons, o2l] using bestIdx_none pr sl h
  | some x :: sl, h => by
    unfold bestIdx at h
    cases hb : bestIdx pr sl with
    | none => simp [hb] at h
    | some q => obtain ⟨j, q⟩ := q; simp only [hb] at h; split at h <;> simp at h

theorem hbbPopBest_cfg (pr : α → Int) (s : HbbSt α) (b : Nat) :
    (hbbPopBest pr s b).1.cfg = s.cfg ∧ (hbbPopBest pr s b).1.bufs.length = s.bufs.length ∧
    (hbbPopBest pr s b).1.sysq = s.sysq := by
  unfold hbbPopBest
  split
  · simp
  · split <;> simp

theorem hbbPopBest_some (pr : α → Int) (s : HbbSt α) (b : Nat) (x : α) (h : (hbbPopBest pr s b).2 = some x) :
    ((s.bufs.map slotsOf).flatten).Perm (x :: (((hbbPopBest pr s b).1.bufs).map slotsOf).flatten) := by
  unfold hbbPopBest at h ⊢
  cases hb : bestIdx pr (s.bufs.getD b []) with
  | none => simp only [hb] at h; simp at h
  | some q =>
    obtain ⟨i, p⟩ := q
    simp only [hb] at h ⊢
    cases hg : (s.bufs.getD b []).getD i none with
    | none => simp only [hg] at h; simp at h
    | some y =>
      simp only [hg, Option.some.injEq] at h ⊢
      subst h
      have ht := slots_take _ i y hg
      have := bufs_set_perm s.bufs b ((s.bufs.getD b []).set i none) [] [y]
        (by simpa using (List.perm_append_comm (l₁ := slotsOf ((s.bufs.getD b []).set i none)) (l₂ := [y])).trans ht.symm)
        (fun hle => by
          have hget : s.bufs.getD b [] = [] := by simp [List.getD, List.getElem?_eq_none hle]
          rw [hget]; simp [slotsOf])
      simp only [List.nil_append] at this
      exact this.symm.trans List.perm_append_comm

theorem hbbPopBest_none (pr : α → Int) (s : HbbSt α) (b : Nat) (h : (hbbPopBest pr s b).2 = none) :
    (hbbPopBest pr s b).1 = s ∧ slotsOf (s.bufs.getD b []) = [] := by
  unfold hbbPopBest at h ⊢
  cases hb : bestIdx pr (s.bufs.getD b []) with
  | none => exact ⟨rfl, bestIdx_none pr _ hb⟩
  | some q =>
    obtain ⟨i, p⟩ := q
    simp only [hb] at h ⊢
    obtain ⟨y, hy⟩ := bestIdx_some pr _ i p hb
    simp only [hy] at h
    simp at h

theorem hbbScan_some (pr : α → Int) (s : HbbSt α) : ∀ (bs : List Nat) (k : Nat) (s' : HbbSt α) (x : α) (k' : Nat),
    hbbScan pr s bs k = some (s', x, k') →
    ((s.bufs.map slotsOf).flatten).Perm (x :: (s'.bufs.map slotsOf).flatten) ∧ s'.cfg = s.cfg ∧
      s'.bufs.length = s.bufs.length ∧ s'.sysq = s.sysq
  | [], _, _, _, _, h => by simp [hbbScan] at h
  | b :: bs, k, s', x, k', h => by
    unfold hbbScan at h
    cases hp : (hbbPopBest pr s b).2 with
    | some y =>
      simp only [hp, Option.some.injEq, Prod.mk.injEq] at h
      obtain ⟨rfl, rfl, _⟩ := h
      have hc := hbbPopBest_cfg pr s b
      exact ⟨hbbPopBest_some pr s b y hp, hc.1, hc.2.1, hc.2.2⟩
    | none =>
      simp only [hp] at h
      exact hbbScan_some pr s bs (k + 1) s' x k' h

theorem hbbScan_none (pr : α → Int) (s : HbbSt α) : ∀ (bs : List Nat) (k : Nat), hbbScan pr s bs k = none →
    ∀ b ∈ bs, slotsOf (s.bufs.getD b []) = []
  | [], _, _, b, hb => by simp at hb
  | c :: bs, k, h, b, hb => by
    unfold hbbScan at h
    cases hp : (hbbPopBest pr s c).2 with
    | some y => simp [hp] at h
    | none =>
      simp only [hp] at h
      rcases List.mem_cons.1 hb with rfl | hb
      · exact (hbbPopBest_none pr s _ hp).2
      · exact hbbScan_none pr s bs (k + 1) h b hb

/-! ### the lfq / lhq machine and pbq -/

/-- shape invariant: at least one stream, and every buffer is in some stream's `hierarch_queues` -/
def HbbInv (s : HbbSt α) : Prop :=
  0 < s.cfg.hq.length ∧ ∀ b, b < s.bufs.length → ∃ es, es < s.cfg.hq.length ∧ b ∈ hqOf s.cfg es

theorem HbbInv.of_eq {s s' : HbbSt α} (hi : HbbInv s) (hc : s'.cfg = s.cfg) (hl : s'.bufs.length = s.bufs.length) :
    HbbInv s' := by
  unfold HbbInv at *
  rw [hc, hl]; exact hi

theorem hbbSelect_spec (s : HbbSt Task) (es : Nat) :
    (hbbSelect s es).1.cfg = s.cfg ∧ (hbbSelect s es).1.bufs.length = s.bufs.length ∧
    (∀ t d, (hbbSelect s es).2 = some (t, d) → (hbbPending s).Perm (t :: hbbPending (hbbSelect s es).1)) ∧
    ((hbbSelect s es).2 = none → (hbbSelect s es).1 = s ∧ s.sysq = [] ∧
        ∀ b ∈ hqOf s.cfg es, slotsOf (s.bufs.getD b []) = []) := by
  unfold hbbSelect
  cases h1 : (hbbPopBest (·.prio) s (taskQueue s.cfg es)).2 with
  | some t =>
    simp only
    have hc := hbbPopBest_cfg (·.prio) s (taskQueue s.cfg es)
    refine ⟨hc.1, hc.2.1, ?_, by simp⟩
    intro t' d h
    simp only [Option.some.injEq, Prod.mk.injEq] at h
    obtain ⟨rfl, _⟩ := h
    simp only [hbbPending_eq, hc.2.2]
    exact (hbbPopBest_some _ s _ t h1).append_right _
  | none =>
    simp only
    cases h2 : hbbScan (·.prio) s (hqOf s.cfg es) 0 with
    | some r =>
      obtain ⟨s', t, k⟩ := r
      simp only
      have hs := hbbScan_some (·.prio) s _ _ s' t k h2
      refine ⟨hs.2.1, hs.2.2.1, ?_, by simp⟩
      intro t' d h
      simp only [Option.some.injEq, Prod.mk.injEq] at h
      obtain ⟨rfl, _⟩ := h
      simp only [hbbPending_eq, hs.2.2.2]
      exact hs.1.append_right _
    | none =>
      simp only
      cases h3 : s.sysq with
      | nil =>
        exact ⟨rfl, rfl, fun t d h => by simp at h, fun _ => ⟨rfl, rfl, hbbScan_none _ s _ _ h2⟩⟩
      | cons t ts =>
        refine ⟨rfl, rfl, ?_, fun h => by simp at h⟩
        intro t' d h
        simp only [Option.some.injEq, Prod.mk.injEq] at h
        obtain ⟨rfl, _⟩ := h
        simp only [hbbPending_eq, h3]
        exact List.perm_middle

theorem hbb_live (s : HbbSt Task) (hi : HbbInv s) (hne : hbbPending s ≠ []) :
    ∃ es, es < s.cfg.hq.length ∧ (hbbSelect s es).2 ≠ none := by
  rw [hbbPending_eq] at hne
  by_cases hq : s.sysq = []
  · rw [hq, List.append_nil] at hne
    obtain ⟨b, hb, hc⟩ := flatten_ne_nil _ hne
    rw [map_getD_slots] at hc
    obtain ⟨es, hes, hmem⟩ := hi.2 b (by simpa using hb)
    refine ⟨es, hes, fun hn => hc (((hbbSelect_spec s es).2.2.2 hn).2.2 b hmem)⟩
  · exact ⟨0, hi.1, fun hn => hq ((hbbSelect_spec s 0).2.2.2 hn).2.1⟩

def hbbCorrect : hbbModule.Correct where
  Inv := HbbInv
  n_schedule s a := congrArg (fun c => c.hq.length) (hbbPushAll_cfg _ s _ a.ring a.d).1
  n_select s es := congrArg (fun c => c.hq.length) (hbbSelect_spec s es).1
  inv_schedule s a hi _ _ := HbbInv.of_eq hi (hbbPushAll_cfg _ s _ a.ring a.d).1 (hbbPushAll_cfg _ s _ a.ring a.d).2
  inv_select s es hi _ := HbbInv.of_eq hi (hbbSelect_spec s es).1 (hbbSelect_spec s es).2.1
  sched_perm s a _ _ _ := by
    have := ids_perm (hbbPushAll_perm (s.cfg.sizes.length + 1) s (taskQueue s.cfg a.es) a.ring a.d)
    rw [ids_append] at this
    exact this
  sel_some s es t d _ _ hs := ids_perm ((hbbSelect_spec s es).2.2.1 t d hs)
  sel_none s es _ _ hs := by
    show (ids (hbbPending (hbbSelect s es).1)).Perm (ids (hbbPending s))
    rw [((hbbSelect_spec s es).2.2.2 hs).1]
  live s hi hne := hbb_live s hi hne

/-! ### pbq -/

theorem pbqSpot_spec (x : Task) : ∀ (sl pre : List (Option Task)) (best : Option (Nat × Task)),
    (∀ i y, best = some (i, y) → (pre ++ sl).getD i none = some y) →
    (∀ i, pbqSpot x sl pre.length best = some (i, none) → (pre ++ sl).getD i none = none ∧ i < (pre ++ sl).length) ∧
    (∀ i y, pbqSpot x sl pre.length best = some (i, some y) → (pre ++ sl).getD i none = some y)
  | [], pre, none, _ => by simp [pbqSpot]
  | [], pre, some (j, z), hb => by
    simp only [pbqSpot, Option.some.injEq, Prod.mk.injEq]
    refine ⟨by simp, ?_⟩
    rintro i y ⟨rfl, h⟩
    subst h
    exact hb _ _ rfl
  | none :: sl, pre, best, _ => by
    have e : pbqSpot x (none :: sl) pre.length best = some (pre.length, none) := by cases best <;> simp [pbqSpot]
    rw [e]
    simp only [Option.some.injEq, Prod.mk.injEq]
    refine ⟨?_, by simp⟩
    rintro i ⟨rfl, _⟩
    simp [List.getD]
  | some c :: sl, pre, best, hb => by
    have hstep : ∀ (best' : Option (Nat × Task)), (∀ i y, best' = some (i, y) → (pre ++ some c :: sl).getD i none = some y) →
        (∀ i, pbqSpot x sl (pre.length + 1) best' = some (i, none) → (pre ++ some c :: sl).getD i none = none ∧ i < (pre ++ some c :: sl).length) ∧
        (∀ i y, pbqSpot x sl (pre.length + 1) best' = some (i, some y) → (pre ++ some c :: sl).getD i none = some y) := by
      intro best' hb'
      have := pbqSpot_spec x sl (pre ++ [some c]) best' (by simpa using hb')
      simpa using this
    have hcur : (pre ++ some c :: sl).getD pre.length none = some c := by simp [List.getD]
    unfold pbqSpot
    cases best with
    | none =>
      simp only
      split
      · exact hstep _ (by rintro i y h; simp only [Option.some.injEq, Prod.mk.injEq] at h; obtain ⟨rfl, rfl⟩ := h; exact hcur)
      · exact hstep _ (by simp)
    | some q =>
      obtain ⟨j, z⟩ := q
      simp only
      split
      · exact hstep _ (by rintro i y h; simp only [Option.some.injEq, Prod.mk.injEq] at h; obtain ⟨rfl, rfl⟩ := h; exact hcur)
      · exact hstep _ hb

theorem pbqLoop_perm : ∀ (ring : List Task) (sl : List (Option Task)) (ej : List Task),
    (slotsOf (pbqLoop ring sl ej).1 ++ (pbqLoop ring sl ej).2).Perm (ring ++ (slotsOf sl ++ ej))
  | [], sl, ej => by simp [pbqLoop]
  | x :: xs, sl, ej => by
    have hspec := pbqSpot_spec x sl [] none (by simp)
    simp only [List.length_nil, List.nil_append] at hspec
    unfold pbqLoop
    cases hp : pbqSpot x sl 0 none with
    | none =>
      simp only
      simp only [List.cons_append]
      refine List.perm_middle.trans (List.Perm.cons x ?_)
      have := (List.perm_append_comm (l₁ := slotsOf sl ++ ej) (l₂ := xs))
      simpa [List.append_assoc] using this
    | some q =>
      obtain ⟨i, o⟩ := q
      cases o with
      | none =>
        simp only
        have h := hspec.1 i hp
        have hs := slots_set sl i (some x) h.2
        rw [h.1] at hs
        simp only [o2l, List.append_nil, List.singleton_append] at hs
        refine (pbqLoop_perm xs _ ej).trans ?_
        simp only [List.cons_append]
        refine (List.Perm.append_left xs (hs.append_right ej)).trans ?_
        simp only [List.cons_append]
        exact (List.perm_middle)
      | some y =>
        simp only
        have h := hspec.2 i y hp
        have hs := slots_set sl i (some x) (getD_some_lt h)
        rw [h] at hs
        simp only [o2l, List.singleton_append] at hs
        refine (pbqLoop_perm xs _ (y :: ej)).trans ?_
        simp only [List.cons_append]
        have : (slotsOf (sl.set i (some x)) ++ y :: ej).Perm (x :: (slotsOf sl ++ ej)) := by
          have h2 : (slotsOf (sl.set i (some x)) ++ y :: ej).Perm ((slotsOf (sl.set i (some x)) ++ [y]) ++ ej) := by simp
          exact h2.trans (hs.append_right ej)
        refine (List.Perm.append_left xs this).trans ?_
        exact List.perm_middle

theorem pbqSchedule_cfg (s : HbbSt Task) (a : SArg) :
    (pbqSchedule s a).cfg = s.cfg ∧ (pbqSchedule s a).bufs.length = s.bufs.length := by
  unfold pbqSchedule; split <;> simp

theorem pbqLoop_out (ring : List Task) (ej : List Task) : slotsOf (pbqLoop ring [] ej).1 = [] := by
  cases ring with
  | nil => simp [pbqLoop, slotsOf]
  | cons x xs => simp [pbqLoop, pbqSpot, slotsOf]

theorem pbqSchedule_perm (s : HbbSt Task) (a : SArg) : (hbbPending (pbqSchedule s a)).Perm (a.ring ++ hbbPending s) := by
  unfold pbqSchedule
  split
  · simp only [hbbPending_eq]
    simp only [← List.append_assoc]
    exact List.perm_append_comm.trans (by simp)
  · have hl := pbqLoop_perm a.ring (s.bufs.getD (taskQueue s.cfg a.es) []) []
    simp only [List.append_nil] at hl
    have hset := bufs_set_perm s.bufs (taskQueue s.cfg a.es) (pbqLoop a.ring (s.bufs.getD (taskQueue s.cfg a.es) []) []).1 a.ring
      (pbqLoop a.ring (s.bufs.getD (taskQueue s.cfg a.es) []) []).2 hl
      (fun hle => by
        have hget : s.bufs.getD (taskQueue s.cfg a.es) [] = [] := by simp [List.getD, List.getElem?_eq_none hle]
        rw [hget]; exact pbqLoop_out _ _)
    simp only [hbbPending_eq]
    have : (((s.bufs.set (taskQueue s.cfg a.es) (pbqLoop a.ring (s.bufs.getD (taskQueue s.cfg a.es) []) []).1).map slotsOf).flatten ++
        (s.sysq ++ (pbqLoop a.ring (s.bufs.getD (taskQueue s.cfg a.es) []) []).2)).Perm
        ((((s.bufs.set (taskQueue s.cfg a.es) (pbqLoop a.ring (s.bufs.getD (taskQueue s.cfg a.es) []) []).1).map slotsOf).flatten ++
          (pbqLoop a.ring (s.bufs.getD (taskQueue s.cfg a.es) []) []).2) ++ s.sysq) := by
      simp only [List.append_assoc]; exact List.Perm.append_left _ List.perm_append_comm
    refine this.trans ((hset.append_right _).trans ?_)
    simp

def pbqCorrect : pbqModule.Correct where
  Inv := HbbInv
  n_schedule s a := congrArg (fun c => c.hq.length) (pbqSchedule_cfg s a).1
  n_select s es := congrArg (fun c => c.hq.length) (hbbSelect_spec s es).1
  inv_schedule s a hi _ _ := HbbInv.of_eq hi (pbqSchedule_cfg s a).1 (pbqSchedule_cfg s a).2
  inv_select s es hi _ := HbbInv.of_eq hi (hbbSelect_spec s es).1 (hbbSelect_spec s es).2.1
  sched_perm s a _ _ _ := by
    have := ids_perm (pbqSchedule_perm s a)
    rw [ids_append] at this
    exact this
  sel_some s es t d _ _ hs := ids_perm ((hbbSelect_spec s es).2.2.1 t d hs)
  sel_none s es _ _ hs := by
    show (ids (hbbPending (hbbSelect s es).1)).Perm (ids (hbbPending s))
    rw [((hbbSelect_spec s es).2.2.2 hs).1]
  live s hi hne := hbb_live s hi hne

end ParsecVerif.Sched
