import ParsecVerif.Model.Sched.Ltq
import ParsecVerif.Proofs.Sched.Hbb
/-! Conservation and liveness of ltq: max-heap operations (`heap_insert`, `heap_remove`,
    `heap_split_and_steal`) keep every task; `Module.Correct ltqModule`. -/
namespace ParsecVerif.Sched

/-- tasks held by a list of heaps -/
def hp (l : List Heap) : List Task := l.flatMap (·.top.flat)

theorem hp_cons (h : Heap) (l : List Heap) : hp (h :: l) = h.top.flat ++ hp l := by simp [hp]
theorem hp_append (a b : List Heap) : hp (a ++ b) = hp a ++ hp b := by simp [hp]
theorem hp_nil : hp [] = [] := rfl
theorem hp_perm {a b : List Heap} (h : a.Perm b) : (hp a).Perm (hp b) := List.Perm.flatMap_right _ h

theorem perm_of_count {l1 l2 : List Task} (h : ∀ a, l1.count a = l2.count a) : l1.Perm l2 :=
  List.perm_iff_count.2 h

/-! ### trees -/

theorem graft_count (a : Task) : ∀ (l r : Tree), (graft l r).flat.count a = l.flat.count a + r.flat.count a
  | .nil, r => by simp [graft, Tree.flat]
  | .node v l r', r => by
    simp only [graft, Tree.flat, List.count_cons, List.count_append, graft_count a l r]
    omega

theorem treeInsert_count (x a : Task) : ∀ (path : List Bool) (t : Tree),
    (treeInsert x path t).1.flat.count a = (x :: t.flat).count a
  | [], .nil => by simp [treeInsert, Tree.flat]
  | [], .node v l r => by simp [treeInsert, Tree.flat, List.count_cons, List.count_append]
  | _ :: _, .nil => by simp [treeInsert, Tree.flat]
  | b :: bs, .node v l r => by
    unfold treeInsert
    cases b with
    | true =>
      simp only [if_true]
      have ih := treeInsert_count x a bs r
      generalize treeInsert x bs r = res at ih
      obtain ⟨r', fl⟩ := res
      cases r' with
      | nil => simp [Tree.flat, List.count_cons, List.count_append] at ih ⊢; omega
      | node w rl rr =>
        cases fl with
        | false => simp [Tree.flat, List.count_cons, List.count_append] at ih ⊢; omega
        | true =>
          simp only
          split <;> (simp [Tree.flat, List.count_cons, List.count_append] at ih ⊢; omega)
    | false =>
      simp only [Bool.false_eq_true, if_false]
      have ih := treeInsert_count x a bs l
      generalize treeInsert x bs l = res at ih
      obtain ⟨l', fl⟩ := res
      cases l' with
      | nil => simp [Tree.flat, List.count_cons, List.count_append] at ih ⊢; omega
      | node w ll lr =>
        cases fl with
        | false => simp [Tree.flat, List.count_cons, List.count_append] at ih ⊢; omega
        | true =>
          simp only
          split <;> (simp [Tree.flat, List.count_cons, List.count_append] at ih ⊢; omega)

theorem treeInsert_notNil (x : Task) : ∀ (path : List Bool) (t : Tree), (treeInsert x path t).1.isNil = false
  | [], .nil => rfl
  | [], .node _ _ _ => rfl
  | _ :: _, .nil => rfl
  | b :: bs, .node v l r => by
    unfold treeInsert
    cases b with
    | true =>
      simp only [if_true]
      generalize treeInsert x bs r = res
      obtain ⟨r', fl⟩ := res
      cases r' with
      | nil => rfl
      | node w rl rr => cases fl with
        | false => rfl
        | true => simp only; split <;> rfl
    | false =>
      simp only [Bool.false_eq_true, if_false]
      generalize treeInsert x bs l = res
      obtain ⟨l', fl⟩ := res
      cases l' with
      | nil => rfl
      | node w ll lr => cases fl with
        | false => rfl
        | true => simp only; split <;> rfl

theorem heapInsert_count (h : Heap) (x a : Task) : (heapInsert h x).top.flat.count a = (x :: h.top.flat).count a := by
  unfold heapInsert
  split <;> exact treeInsert_count _ _ _ _

theorem heapInsert_notNil (h : Heap) (x : Task) : (heapInsert h x).top.isNil = false := by
  unfold heapInsert
  split <;> exact treeInsert_notNil _ _ _

theorem treeTakeLast_spec (a : Task) : ∀ (path : List Bool) (t : Tree),
    (∀ w, (treeTakeLast path t).2 = some w → t.flat.count a = (w :: (treeTakeLast path t).1.flat).count a) ∧
    ((treeTakeLast path t).2 = none → (treeTakeLast path t).1 = t)
  | [], .nil => by simp [treeTakeLast]
  | [], .node v .nil .nil => by simp [treeTakeLast, Tree.flat]
  | [], .node v (.node _ _ _) r => by simp [treeTakeLast]
  | [], .node v .nil (.node _ _ _) => by simp [treeTakeLast]
  | _ :: _, .nil => by simp [treeTakeLast]
  | b :: bs, .node v l r => by
    unfold treeTakeLast
    cases b with
    | true =>
      simp only [if_true]
      have ih := treeTakeLast_spec a bs r
      refine ⟨fun w hw => ?_, fun hn => ?_⟩
      · have := ih.1 w hw
        simp [Tree.flat, List.count_cons, List.count_append] at this ⊢; omega
      · rw [ih.2 hn]
    | false =>
      simp only [Bool.false_eq_true, if_false]
      have ih := treeTakeLast_spec a bs l
      refine ⟨fun w hw => ?_, fun hn => ?_⟩
      · have := ih.1 w hw
        simp [Tree.flat, List.count_cons, List.count_append] at this ⊢; omega
      · rw [ih.2 hn]

theorem treeTakeLast_root : ∀ (path : List Bool) (v : Task) (l r : Tree) (u : Task) (l' r' : Tree) (o : Option Task),
    treeTakeLast path (.node v l r) = (.node u l' r', o) → u = v
  | [], v, .nil, .nil, u, l', r', o, h => by simp [treeTakeLast] at h
  | [], v, .node _ _ _, r, u, l', r', o, h => by
    simp only [treeTakeLast, Prod.mk.injEq, Tree.node.injEq] at h; exact h.1.1.symm
  | [], v, .nil, .node _ _ _, u, l', r', o, h => by
    simp only [treeTakeLast, Prod.mk.injEq, Tree.node.injEq] at h; exact h.1.1.symm
  | b :: bs, v, l, r, u, l', r', o, h => by
    unfold treeTakeLast at h
    cases b with
    | true => simp only [if_true, Prod.mk.injEq, Tree.node.injEq] at h; exact h.1.1.symm
    | false => simp only [Bool.false_eq_true, if_false, Prod.mk.injEq, Tree.node.injEq] at h; exact h.1.1.symm

theorem siftDown_count (a : Task) (t : Tree) : (siftDown t).flat.count a = t.flat.count a := by
  fun_induction siftDown t <;> simp_all [Tree.flat, List.count_cons, List.count_append] <;> omega

theorem siftDown_notNil (t : Tree) : (siftDown t).isNil = t.isNil := by
  fun_induction siftDown t <;> simp_all [Tree.isNil]

/-! ### heaps -/

def optHeapFlat : Option Heap → List Task
  | none => []
  | some h => h.top.flat

def optNE : Option Heap → Prop
  | none => True
  | some h => h.top.isNil = false

/-- `heap_remove`: the task and the remaining heap together hold what the heap held; a non-empty
    heap always yields a task and leaves a non-empty heap or none -/
theorem heapRemove_spec (h : Heap) (a : Task) :
    h.top.flat.count a = (o2l (heapRemove h).1 ++ optHeapFlat (heapRemove h).2).count a ∧
    (h.top.isNil = false → (heapRemove h).1 ≠ none ∧ optNE (heapRemove h).2) := by
  obtain ⟨top, size, prio⟩ := h
  cases top with
  | nil => simp [heapRemove, o2l, optHeapFlat, Tree.flat, Tree.isNil]
  | node v l r =>
    cases l with
    | nil =>
      cases r with
      | nil => simp [heapRemove, o2l, optHeapFlat, Tree.flat, optNE]
      | node q ql qr => simp [heapRemove, o2l, optHeapFlat, Tree.flat, optNE, Tree.isNil, List.count_cons]
    | node p pl pr =>
      cases r with
      | nil => simp [heapRemove, o2l, optHeapFlat, Tree.flat, optNE, Tree.isNil, List.count_cons]
      | node q ql qr =>
        simp only [heapRemove]
        have hs := treeTakeLast_spec a (pathOf size) (.node v (.node p pl pr) (.node q ql qr))
        have hroot := treeTakeLast_root (pathOf size) v (.node p pl pr) (.node q ql qr)
        generalize treeTakeLast (pathOf size) (.node v (.node p pl pr) (.node q ql qr)) = res at hs hroot
        obtain ⟨t', ow⟩ := res
        cases ow with
        | none =>
          cases t' <;>
          (simp [o2l, optHeapFlat, Tree.flat, optNE, Tree.isNil, List.count_cons, List.count_append, graft_count, graft] <;> omega)
        | some w =>
          cases t' with
          | nil =>
            simp [o2l, optHeapFlat, Tree.flat, optNE, Tree.isNil, List.count_cons, List.count_append, graft_count, graft] <;> omega
          | node u l' r' =>
            have := hs.1 w rfl
            have hu := hroot u l' r' (some w) rfl
            subst hu
            have hsd := siftDown_count a (.node w l' r')
            simp only [Tree.flat, List.count_cons, List.count_append] at this hsd
            refine ⟨?_, fun _ => ⟨by simp, ?_⟩⟩
            · simp only [o2l, optHeapFlat, Tree.flat, List.count_cons, List.count_append, List.count_nil]
              omega
            · show (siftDown (Tree.node w l' r')).isNil = false
              rw [siftDown_notNil]; rfl

/-- `heap_split_and_steal`: same, for the stolen task and the (up to) two heaps left -/
theorem heapSplit_spec (h : Heap) (a : Task) :
    h.top.flat.count a = (o2l (heapSplit h).1 ++ (optHeapFlat (heapSplit h).2.1 ++ optHeapFlat (heapSplit h).2.2)).count a ∧
    (h.top.isNil = false → (heapSplit h).1 ≠ none ∧ optNE (heapSplit h).2.1 ∧ optNE (heapSplit h).2.2) ∧
    ((heapSplit h).2.1 = none → (heapSplit h).2.2 = none) := by
  obtain ⟨top, size, prio⟩ := h
  cases top with
  | nil => simp [heapSplit, o2l, optHeapFlat, Tree.flat, Tree.isNil]
  | node v l r =>
    cases l with
    | nil =>
      cases r with
      | nil => simp [heapSplit, o2l, optHeapFlat, Tree.flat, optNE]
      | node q ql qr => simp [heapSplit, o2l, optHeapFlat, Tree.flat, optNE, Tree.isNil, List.count_cons]
    | node p pl pr =>
      cases r with
      | nil => simp [heapSplit, o2l, optHeapFlat, Tree.flat, optNE, Tree.isNil, List.count_cons]
      | node q ql qr =>
        simp only [heapSplit]
        split <;>
        (simp [o2l, optHeapFlat, Tree.flat, optNE, Tree.isNil, List.count_cons, List.count_append]; omega)

/-! ### the module -/

/-- every heap held by a container holds at least one task -/
def NE (l : List Heap) : Prop := ∀ h ∈ l, h.top.isNil = false

theorem NE.of_perm {a b : List Heap} (h : NE b) (p : a.Perm b) : NE a := fun x hx => h x (p.mem_iff.1 hx)
theorem NE.of_sub {a b : List Heap} (h : NE b) (hs : ∀ x ∈ a, x ∈ b) : NE a := fun x hx => h x (hs x hx)

theorem hbbPop_pending {α : Type} (pr : α → Int) (s : HbbSt α) (b : Nat) (x : α) (h : (hbbPopBest pr s b).2 = some x) :
    (hbbPending s).Perm (x :: hbbPending (hbbPopBest pr s b).1) := by
  have := hbbPopBest_some pr s b x h
  simp only [hbbPending_eq, (hbbPopBest_cfg pr s b).2.2]
  exact this.append_right _

theorem ltqHeaps_count (a : Task) : ∀ (ring : List Task) (h : Heap),
    (hp (ltqHeaps ring h)).count a = (ring ++ h.top.flat).count a
  | [], h => by simp [ltqHeaps, hp]
  | [x], h => by simp [ltqHeaps, hp, heapInsert_count]
  | x :: y :: rest, h => by
    unfold ltqHeaps
    split
    · rw [ltqHeaps_count a (y :: rest)]
      simp only [List.count_append, List.count_cons, heapInsert_count]; omega
    · rw [hp_cons, List.count_append, ltqHeaps_count a (y :: rest)]
      simp only [List.count_append, List.count_cons, heapInsert_count, Tree.flat, List.count_nil]; omega

theorem ltqHeaps_NE : ∀ (ring : List Task) (h : Heap), ring ≠ [] → NE (ltqHeaps ring h)
  | [], _, hne => absurd rfl hne
  | [x], h, _ => by intro g hg; simp only [ltqHeaps, List.mem_singleton] at hg; subst hg; exact heapInsert_notNil _ _
  | x :: y :: rest, h, _ => by
    unfold ltqHeaps
    split
    · exact ltqHeaps_NE (y :: rest) _ (by simp)
    · intro g hg
      rcases List.mem_cons.1 hg with rfl | hg
      · exact heapInsert_notNil _ _
      · exact ltqHeaps_NE (y :: rest) _ (by simp) g hg

theorem ltqPush_spec (s : LtqSt) (b : Nat) (ring : List Heap) (d : Int) :
    (ltqPush s b ring d).cfg = s.cfg ∧ (ltqPush s b ring d).bufs.length = s.bufs.length ∧
    (hbbPending (ltqPush s b ring d)).Perm (ring ++ hbbPending s) :=
  ⟨(hbbPushAll_cfg _ s b ring d).1, (hbbPushAll_cfg _ s b ring d).2, hbbPushAll_perm _ s b ring d⟩

/-- result of a (partial) select: shape kept, tasks conserved, heaps stay non-empty -/
def SelOK (s : LtqSt) (r : LtqSt × Option (Task × Int)) : Prop :=
  r.1.cfg = s.cfg ∧ r.1.bufs.length = s.bufs.length ∧
  (hp (hbbPending s)).Perm (o2l (r.2.map (·.1)) ++ hp (hbbPending r.1)) ∧
  (NE (hbbPending s) → NE (hbbPending r.1))

theorem olist_eq {α : Type} (o : Option α) : optList o = o2l o := by cases o <;> rfl

theorem hp_o2l (o : Option Heap) : hp (o2l o) = optHeapFlat o := by cases o <;> simp [hp, o2l, optHeapFlat]

theorem NE_o2l (o : Option Heap) (h : optNE o) : NE (o2l o) := by
  cases o with
  | none => intro x hx; simp [o2l] at hx
  | some g => intro x hx; simp only [o2l, List.mem_singleton] at hx; subst hx; exact h

theorem ltqPutBack_spec (s : LtqSt) (b own : Nat) (o1 o2 : Option Heap) (h12 : o1 = none → o2 = none) :
    (ltqPutBack s b own o1 o2).cfg = s.cfg ∧ (ltqPutBack s b own o1 o2).bufs.length = s.bufs.length ∧
    (hbbPending (ltqPutBack s b own o1 o2)).Perm ((o2l o1 ++ o2l o2) ++ hbbPending s) := by
  cases o1 with
  | none => rw [h12 rfl]; exact ⟨rfl, rfl, by simp [ltqPutBack, o2l]⟩
  | some h1 =>
    cases o2 with
    | none =>
      have p := ltqPush_spec s own [h1] 0
      exact ⟨p.1, p.2.1, by simpa [ltqPutBack, o2l] using p.2.2⟩
    | some h2 =>
      have p1 := ltqPush_spec s b [h2] 0
      have p2 := ltqPush_spec (ltqPush s b [h2] 0) own [h1] 0
      refine ⟨p2.1.trans p1.1, p2.2.1.trans p1.2.1, ?_⟩
      simp only [ltqPutBack, o2l]
      refine p2.2.2.trans ?_
      simp only [List.singleton_append, List.cons_append, List.nil_append]
      exact (p1.2.2.cons h1)

theorem ltqSteal_ok (own : Nat) : ∀ (bs : List Nat) (s : LtqSt) (k : Nat), SelOK s (ltqSteal own s bs k)
  | [], s, _ => ⟨rfl, rfl, by simp [ltqSteal, o2l], fun h => h⟩
  | b :: bs, s, k => by
    unfold ltqSteal
    cases hpop : (hbbPopBest (·.prio) s b).2 with
    | none => simp only; exact ltqSteal_ok own bs s (k + 1)
    | some h =>
      simp only
      have hc := hbbPopBest_cfg (·.prio) s b
      have hpend := hbbPop_pending (·.prio) s b h hpop
      have hsplit : ∀ a, h.top.flat.count a = _ := fun a => (heapSplit_spec h a).1
      have hne := (heapSplit_spec h ⟨0, 0, 0, 0⟩).2
      have hput := ltqPutBack_spec (hbbPopBest (·.prio) s b).1 b own (heapSplit h).2.1 (heapSplit h).2.2 hne.2
      -- tasks: pending s ~ o2l t ++ pending(putBack)
      have htasks : (hp (hbbPending s)).Perm (o2l (heapSplit h).1 ++ hp (hbbPending (ltqPutBack (hbbPopBest (·.prio) s b).1 b own (heapSplit h).2.1 (heapSplit h).2.2))) := by
        refine (hp_perm hpend).trans ?_
        rw [hp_cons]
        refine List.Perm.trans ?_ (List.Perm.append_left _ (hp_perm hput.2.2).symm)
        rw [hp_append, hp_append, hp_o2l, hp_o2l]
        simp only [← List.append_assoc]
        refine List.Perm.append_right _ (perm_of_count fun a => ?_)
        rw [hsplit a]; simp [List.count_append]
      have hNE : NE (hbbPending s) → NE (hbbPending (ltqPutBack (hbbPopBest (·.prio) s b).1 b own (heapSplit h).2.1 (heapSplit h).2.2)) := by
        intro hn
        have hh : h.top.isNil = false := hn h (hpend.mem_iff.2 (List.mem_cons_self ..))
        have hrest : NE (hbbPending (hbbPopBest (·.prio) s b).1) :=
          hn.of_sub (fun x hx => hpend.mem_iff.2 (List.mem_cons_of_mem _ hx))
        have h2 := (hne.1 hh).2
        refine NE.of_perm ?_ hput.2.2
        intro x hx
        rcases List.mem_append.1 hx with hx | hx
        · rcases List.mem_append.1 hx with hx | hx
          · exact NE_o2l _ h2.1 x hx
          · exact NE_o2l _ h2.2 x hx
        · exact hrest x hx
      cases ht : (heapSplit h).1 with
      | some t =>
        simp only
        refine ⟨hput.1.trans hc.1, hput.2.1.trans hc.2.1, ?_, hNE⟩
        rw [ht] at htasks
        exact htasks
      | none =>
        simp only
        have ih := ltqSteal_ok own bs (ltqPutBack (hbbPopBest (·.prio) s b).1 b own (heapSplit h).2.1 (heapSplit h).2.2) (k + 1)
        refine ⟨ih.1.trans (hput.1.trans hc.1), ih.2.1.trans (hput.2.1.trans hc.2.1), ?_, fun hn => ih.2.2.2 (hNE hn)⟩
        rw [ht] at htasks
        simp only [o2l, List.nil_append] at htasks
        exact htasks.trans ih.2.2.1

theorem ltqSelect_ok (s : LtqSt) (es : Nat) : SelOK s (ltqSelect s es) := by
  unfold ltqSelect
  cases hpop : (hbbPopBest (·.prio) s (taskQueue s.cfg es)).2 with
  | some h =>
    simp only
    have hc := hbbPopBest_cfg (·.prio) s (taskQueue s.cfg es)
    have hpend := hbbPop_pending (·.prio) s _ h hpop
    cases ht : (heapRemove h).1 with
    | none => exact ⟨rfl, rfl, by simp [o2l], fun hn => hn⟩
    | some t =>
      simp only
      have p := ltqPush_spec (hbbPopBest (·.prio) s (taskQueue s.cfg es)).1 (taskQueue s.cfg es) (optList (heapRemove h).2) 0
      refine ⟨p.1.trans hc.1, p.2.1.trans hc.2.1, ?_, ?_⟩
      · refine (hp_perm hpend).trans ?_
        rw [hp_cons]
        refine List.Perm.trans ?_ (List.Perm.append_left _ (hp_perm p.2.2).symm)
        rw [hp_append, olist_eq, hp_o2l]
        simp only [← List.append_assoc]
        refine List.Perm.append_right _ (perm_of_count fun a => ?_)
        rw [(heapRemove_spec h a).1, ht]; simp [o2l, List.count_append]
      · intro hn
        have hh : h.top.isNil = false := hn h (hpend.mem_iff.2 (List.mem_cons_self ..))
        have hrest : NE (hbbPending (hbbPopBest (·.prio) s (taskQueue s.cfg es)).1) :=
          hn.of_sub (fun x hx => hpend.mem_iff.2 (List.mem_cons_of_mem _ hx))
        refine NE.of_perm ?_ p.2.2
        intro x hx
        rcases List.mem_append.1 hx with hx | hx
        · rw [olist_eq] at hx
          exact NE_o2l _ ((heapRemove_spec h ⟨0, 0, 0, 0⟩).2 hh).2 x hx
        · exact hrest x hx
  | none =>
    simp only
    have hst := ltqSteal_ok (taskQueue s.cfg es) (hqOf s.cfg es).tail s 1
    generalize ltqSteal (taskQueue s.cfg es) s (hqOf s.cfg es).tail 1 = res at hst
    obtain ⟨s', o⟩ := res
    cases o with
    | some r => exact hst
    | none =>
      simp only
      unfold SelOK at hst
      simp only [Option.map_none, o2l, List.nil_append] at hst
      cases hq : s'.sysq with
      | nil => exact ⟨hst.1, hst.2.1, by simpa [o2l] using hst.2.2.1, hst.2.2.2⟩
      | cons h hs =>
        have p := ltqPush_spec { s' with sysq := hs } (taskQueue s'.cfg es) (optList (heapSplit h).2.1 ++ optList (heapSplit h).2.2) 0
        have hpend' : (hbbPending s').Perm (h :: hbbPending { s' with sysq := hs }) := by
          simp only [hbbPending_eq, hq]; exact List.perm_middle
        refine ⟨p.1.trans hst.1, p.2.1.trans hst.2.1, ?_, ?_⟩
        · refine hst.2.2.1.trans ((hp_perm hpend').trans ?_)
          rw [hp_cons]
          refine List.Perm.trans ?_ (List.Perm.append_left _ (hp_perm p.2.2).symm)
          rw [hp_append, hp_append, olist_eq, olist_eq, hp_o2l, hp_o2l]
          simp only [← List.append_assoc]
          refine List.Perm.append_right _ (perm_of_count fun a => ?_)
          rw [(heapSplit_spec h a).1]
          cases (heapSplit h).1 <;> simp [o2l, List.count_append]
        · intro hn
          have hn' := hst.2.2.2 hn
          have hh : h.top.isNil = false := hn' h (hpend'.mem_iff.2 (List.mem_cons_self ..))
          have hrest : NE (hbbPending { s' with sysq := hs }) :=
            hn'.of_sub (fun x hx => hpend'.mem_iff.2 (List.mem_cons_of_mem _ hx))
          have h2 := ((heapSplit_spec h ⟨0, 0, 0, 0⟩).2.1 hh).2
          refine NE.of_perm ?_ p.2.2
          intro x hx
          rcases List.mem_append.1 hx with hx | hx
          · rw [olist_eq, olist_eq] at hx
            rcases List.mem_append.1 hx with hx | hx
            · exact NE_o2l _ h2.1 x hx
            · exact NE_o2l _ h2.2 x hx
          · exact hrest x hx

/-! ### liveness and the `Correct` instance -/

theorem popBest_none_of_empty {α : Type} (pr : α → Int) (s : HbbSt α) (b : Nat) (h : slotsOf (s.bufs.getD b []) = []) :
    (hbbPopBest pr s b).2 = none := by
  cases hp : (hbbPopBest pr s b).2 with
  | none => rfl
  | some x =>
    exfalso
    unfold hbbPopBest at hp
    cases hb : bestIdx pr (s.bufs.getD b []) with
    | none => simp only [hb] at hp; simp at hp
    | some q =>
      obtain ⟨i, p⟩ := q
      obtain ⟨y, hy⟩ := bestIdx_some pr _ i p hb
      have := slots_take _ i y hy
      rw [h] at this
      exact absurd this.length_eq (by simp)

theorem popBest_some_of_nonempty {α : Type} (pr : α → Int) (s : HbbSt α) (b : Nat) (h : slotsOf (s.bufs.getD b []) ≠ []) :
    (hbbPopBest pr s b).2 ≠ none := fun hn => h (hbbPopBest_none pr s b hn).2

theorem ltqSteal_empty (own : Nat) (s : LtqSt) (hemp : ∀ b, slotsOf (s.bufs.getD b []) = []) :
    ∀ (bs : List Nat) (k : Nat), ltqSteal own s bs k = (s, none)
  | [], _ => rfl
  | b :: bs, k => by
    unfold ltqSteal
    rw [popBest_none_of_empty _ s b (hemp b)]
    exact ltqSteal_empty own s hemp bs (k + 1)

theorem flatten_nil_getD {β : Type} : ∀ (l : List (List β)), l.flatten = [] → ∀ b, l.getD b [] = []
  | [], _, b => by simp
  | x :: xs, h, 0 => by simp at h; simp [h.1]
  | x :: xs, h, b + 1 => by
    simp at h
    have := flatten_nil_getD xs (by simp; exact h.2) b
    simpa using this

def LtqInv (s : LtqSt) : Prop :=
  0 < s.cfg.hq.length ∧ (∀ b, b < s.bufs.length → ∃ es, es < s.cfg.hq.length ∧ taskQueue s.cfg es = b) ∧
  NE (hbbPending s)

theorem ltqSchedule_spec (s : LtqSt) (a : SArg) :
    (ltqSchedule s a).cfg = s.cfg ∧ (ltqSchedule s a).bufs.length = s.bufs.length ∧
    (hp (hbbPending (ltqSchedule s a))).Perm (a.ring ++ hp (hbbPending s)) ∧
    (a.ring ≠ [] → NE (hbbPending s) → NE (hbbPending (ltqSchedule s a))) := by
  have p := ltqPush_spec s (taskQueue s.cfg a.es) (ltqHeaps a.ring ⟨.nil, 0, 0⟩) a.d
  refine ⟨p.1, p.2.1, ?_, ?_⟩
  · refine (hp_perm p.2.2).trans ?_
    rw [hp_append]
    refine List.Perm.append_right _ (perm_of_count fun x => ?_)
    rw [ltqHeaps_count]; simp [Tree.flat]
  · intro hr hn
    refine NE.of_perm ?_ p.2.2
    intro x hx
    rcases List.mem_append.1 hx with hx | hx
    · exact ltqHeaps_NE _ _ hr x hx
    · exact hn x hx

theorem ltq_live (s : LtqSt) (hi : LtqInv s) (hne : ltqPending s ≠ []) :
    ∃ es, es < s.cfg.hq.length ∧ (ltqSelect s es).2 ≠ none := by
  by_cases hbuf : (s.bufs.map slotsOf).flatten = []
  · -- everything sits in the system queue
    have hemp : ∀ b, slotsOf (s.bufs.getD b []) = [] := by
      intro b; rw [← map_getD_slots]; exact flatten_nil_getD _ hbuf b
    refine ⟨0, hi.1, ?_⟩
    unfold ltqSelect
    rw [popBest_none_of_empty _ s _ (hemp _)]
    simp only [ltqSteal_empty _ s hemp]
    cases hq : s.sysq with
    | nil =>
      exfalso; apply hne
      simp [ltqPending, hbbPending_eq, hbuf, hq]
    | cons h hs =>
      simp only
      have hh : h.top.isNil = false := hi.2.2 h (by simp [hbbPending_eq, hq])
      have := ((heapSplit_spec h ⟨0, 0, 0, 0⟩).2.1 hh).1
      cases ht : (heapSplit h).1 with
      | none => exact absurd ht this
      | some t => simp
  · obtain ⟨b, hb, hc⟩ := flatten_ne_nil _ hbuf
    rw [map_getD_slots] at hc
    obtain ⟨es, hes, htq⟩ := hi.2.1 b (by simpa using hb)
    refine ⟨es, hes, ?_⟩
    unfold ltqSelect
    rw [htq]
    cases hpop : (hbbPopBest (·.prio) s b).2 with
    | none => exact absurd hpop (popBest_some_of_nonempty _ s b hc)
    | some h =>
      simp only
      have hpend := hbbPop_pending (·.prio) s b h hpop
      have hh : h.top.isNil = false := hi.2.2 h (hpend.mem_iff.2 (List.mem_cons_self ..))
      have := ((heapRemove_spec h ⟨0, 0, 0, 0⟩).2 hh).1
      cases ht : (heapRemove h).1 with
      | none => exact absurd ht this
      | some t => simp

def ltqCorrect : ltqModule.Correct where
  Inv := LtqInv
  n_schedule s a := congrArg (fun c => c.hq.length) (ltqSchedule_spec s a).1
  n_select s es := congrArg (fun c => c.hq.length) (ltqSelect_ok s es).1
  inv_schedule s a hi _ hr := by
    have p := ltqSchedule_spec s a
    show LtqInv (ltqSchedule s a)
    unfold LtqInv
    rw [p.1, p.2.1]
    exact ⟨hi.1, hi.2.1, p.2.2.2 hr hi.2.2⟩
  inv_select s es hi _ := by
    have p := ltqSelect_ok s es
    show LtqInv (ltqSelect s es).1
    unfold LtqInv
    rw [p.1, p.2.1]
    exact ⟨hi.1, hi.2.1, p.2.2.2 hi.2.2⟩
  sched_perm s a _ _ _ := by
    have := ids_perm (ltqSchedule_spec s a).2.2.1
    rw [ids_append] at this
    exact this
  sel_some s es t d _ _ hs := by
    have p := (ltqSelect_ok s es).2.2.1
    show (ids (hp (hbbPending s))).Perm (t.id :: ids (hp (hbbPending (ltqSelect s es).1)))
    have hs' : (ltqSelect s es).2 = some (t, d) := hs
    rw [hs'] at p
    exact ids_perm p
  sel_none s es _ _ hs := by
    have p := (ltqSelect_ok s es).2.2.1
    show (ids (hp (hbbPending (ltqSelect s es).1))).Perm (ids (hp (hbbPending s)))
    have hs' : (ltqSelect s es).2 = none := hs
    rw [hs'] at p
    exact ids_perm p.symm
  live s hi hne := ltq_live s hi hne

end ParsecVerif.Sched
