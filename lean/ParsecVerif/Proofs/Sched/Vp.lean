import ParsecVerif.Model.Sched.Vp
import ParsecVerif.Proofs.Sched.Hbb
/-! The next_task retention wrapper refines a bag whenever the module below does. -/
namespace ParsecVerif.Sched

theorem next_set_perm (l : List (Option Task)) (i : Nat) (v : Option Task) (h : i < l.length) :
    (slotsOf (l.set i v) ++ o2l (l.getD i none)).Perm (o2l v ++ slotsOf l) := slots_set l i v h

def vpCorrect {M : Module} (C : M.Correct) : (vpModule M).Correct where
  Inv s := C.Inv s.inner ∧ s.next.length = M.nstreams s.inner
  n_schedule s a := by
    show M.nstreams (vpSchedule M s a).inner = M.nstreams s.inner
    unfold vpSchedule
    split
    · exact C.n_schedule _ _
    · split
      · exact C.n_schedule _ _
      · split
        · rfl
        · split
          · rfl
          · exact C.n_schedule _ _
  n_select s es := by
    show M.nstreams (vpNext M s es).1.inner = M.nstreams s.inner
    unfold vpNext
    split
    · rfl
    · exact C.n_select _ _
  inv_schedule s a hi hes hr := by
    have hes' : a.es < M.nstreams s.inner := hes
    show C.Inv (vpSchedule M s a).inner ∧ (vpSchedule M s a).next.length = M.nstreams (vpSchedule M s a).inner
    unfold vpSchedule
    split
    · exact ⟨C.inv_schedule _ _ hi.1 (by show 0 < _; omega) hr, by rw [C.n_schedule]; exact hi.2⟩
    · split
      · exact ⟨C.inv_schedule _ _ hi.1 hes' hr, by rw [C.n_schedule]; exact hi.2⟩
      · split
        · exact hi
        next t rest _ =>
          split
          · exact ⟨hi.1, by simp [hi.2]⟩
          next hne =>
            have hr' : rest ≠ [] := by intro h; simp [h] at hne
            exact ⟨C.inv_schedule _ _ hi.1 hes' hr', by rw [C.n_schedule]; simp [hi.2]⟩
  inv_select s es hi hes := by
    show C.Inv (vpNext M s es).1.inner ∧ (vpNext M s es).1.next.length = M.nstreams (vpNext M s es).1.inner
    unfold vpNext
    split
    · exact ⟨hi.1, by simp [hi.2]⟩
    · exact ⟨C.inv_select _ _ hi.1 hes, by rw [C.n_select]; exact hi.2⟩
  sched_perm s a hi hes hr := by
    have hes' : a.es < M.nstreams s.inner := hes
    show (ids (M.pending (vpSchedule M s a).inner ++ slotsOf (vpSchedule M s a).next)).Perm
      (ids a.ring ++ ids (M.pending s.inner ++ slotsOf s.next))
    unfold vpSchedule
    split
    · have := C.sched_perm s.inner { a with es := 0 } hi.1 (by show 0 < _; omega) hr
      simp only [ids_append] at this ⊢
      simpa [List.append_assoc] using this.append_right (ids (slotsOf s.next))
    · split
      · have := C.sched_perm s.inner a hi.1 hes' hr
        simp only [ids_append] at this ⊢
        simpa [List.append_assoc] using this.append_right (ids (slotsOf s.next))
      next hnone =>
        split
        next he => exact absurd he hr
        next t rest he =>
          have hlt : a.es < s.next.length := by rw [hi.2]; exact hes'
          have hset := next_set_perm s.next a.es (some t) hlt
          rw [hnone] at hset
          simp only [o2l, List.append_nil, List.singleton_append] at hset
          have h2 : (ids (slotsOf (s.next.set a.es (some t)))).Perm (t.id :: ids (slotsOf s.next)) := ids_perm hset
          split
          next hemp =>
            have hr0 : rest = [] := List.isEmpty_iff.1 hemp
            subst hr0
            rw [he]
            simp only [ids_append, ids_cons]
            refine (List.Perm.append_left _ h2).trans ?_
            simpa [ids] using (List.perm_middle (a := t.id) (l₁ := ids (M.pending s.inner)) (l₂ := ids (slotsOf s.next)))
          next hne =>
            have hr' : rest ≠ [] := by intro h; simp [h] at hne
            have hp := C.sched_perm s.inner { a with ring := rest } hi.1 hes' hr'
            rw [he]
            simp only [ids_append, ids_cons]
            refine (List.Perm.append hp h2).trans ?_
            simp only [List.append_assoc, List.cons_append]
            exact (List.Perm.append_left _ List.perm_middle).trans List.perm_middle
  sel_some s es t d hi hes hs := by
    show (ids (M.pending s.inner ++ slotsOf s.next)).Perm (t.id :: ids (M.pending (vpNext M s es).1.inner ++ slotsOf (vpNext M s es).1.next))
    have hs' : (vpNext M s es).2 = some (t, d) := hs
    unfold vpNext at hs' ⊢
    cases hn : s.next.getD es none with
    | some t' =>
      simp only [hn, Option.some.injEq, Prod.mk.injEq] at hs' ⊢
      obtain ⟨rfl, _⟩ := hs'
      have hset := slots_take s.next es t' hn
      simp only [ids_append]
      refine (List.Perm.append_left _ (ids_perm hset)).trans ?_
      simp only [ids_cons]
      exact List.perm_middle
    | none =>
      simp only [hn] at hs' ⊢
      have := C.sel_some s.inner es t d hi.1 hes hs'
      simp only [ids_append]
      exact (this.append_right _)
  sel_none s es hi hes hs := by
    show (ids (M.pending (vpNext M s es).1.inner ++ slotsOf (vpNext M s es).1.next)).Perm (ids (M.pending s.inner ++ slotsOf s.next))
    have hs' : (vpNext M s es).2 = none := hs
    unfold vpNext at hs' ⊢
    cases hn : s.next.getD es none with
    | some t' => simp only [hn] at hs'; simp at hs'
    | none =>
      simp only [hn] at hs' ⊢
      simp only [ids_append]
      exact (C.sel_none s.inner es hi.1 hes hs').append_right _
  live s hi hne := by
    have hne' : M.pending s.inner ++ slotsOf s.next ≠ [] := hne
    by_cases hnx : slotsOf s.next = []
    · rw [hnx, List.append_nil] at hne'
      obtain ⟨es, hes, hsel⟩ := C.live s.inner hi.1 hne'
      refine ⟨es, hes, ?_⟩
      show (vpNext M s es).2 ≠ none
      unfold vpNext
      cases hn : s.next.getD es none with
      | some t' =>
        exfalso
        have := slots_take s.next es t' hn
        rw [hnx] at this
        exact absurd this.length_eq (by simp)
      | none => exact hsel
    · -- some stream retains a task
      have : ∃ es, es < s.next.length ∧ ∃ t, s.next.getD es none = some t := by
        clear hne hne'
        generalize s.next = l at hnx
        induction l with
        | nil => simp [slotsOf] at hnx
        | cons o l ih =>
          cases o with
          | some t => exact ⟨0, by simp, t, by simp⟩
          | none =>
            rw [slotsOf_cons] at hnx
            obtain ⟨es, h1, t, h2⟩ := ih (by simpa [o2l] using hnx)
            exact ⟨es + 1, by simpa using h1, t, by simpa using h2⟩
      obtain ⟨es, hlt, t, ht⟩ := this
      refine ⟨es, by show es < M.nstreams s.inner; rw [← hi.2]; exact hlt, ?_⟩
      show (vpNext M s es).2 ≠ none
      unfold vpNext
      cases hn : s.next.getD es none with
      | some t' => simp
      | none => rw [hn] at ht; simp at ht

end ParsecVerif.Sched
