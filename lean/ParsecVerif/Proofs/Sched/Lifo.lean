import ParsecVerif.Model.Sched.Simple
import ParsecVerif.Proofs.Sched.Bag
/-! `Module.Correct` for ll and llp (per-stream LIFOs), incl. conservation of `lifo_merge_ring`. -/
namespace ParsecVerif.Sched

/-! ### lists of containers -/

theorem flatten_set_perm {α : Type} : ∀ (l : List (List α)) (i : Nat) (x : List α), i < l.length →
    ((l.set i x).flatten ++ l.getD i []).Perm (x ++ l.flatten)
  | [], _, _, h => by simp at h
  | y :: ys, 0, x, _ => by
    simp only [List.set_cons_zero, List.flatten_cons, List.getD_cons_zero, List.append_assoc]
    exact List.Perm.append_left x List.perm_append_comm
  | y :: ys, i + 1, x, h => by
    have ih := flatten_set_perm ys i x (by simpa using h)
    simp only [List.set_cons_succ, List.flatten_cons, List.getD_cons_succ, List.append_assoc]
    refine (List.Perm.append_left y ih).trans ?_
    simp only [← List.append_assoc]
    exact List.Perm.append_right _ List.perm_append_comm

/-- replacing container `i` by `r ++ (its content)` adds exactly `r` -/
theorem flatten_set_add {α : Type} (l : List (List α)) (i : Nat) (r : List α) (h : i < l.length) :
    ((l.set i (r ++ l.getD i [])).flatten).Perm (r ++ l.flatten) := by
  have h1 := flatten_set_perm l i (r ++ l.getD i []) h
  -- (set).flatten ++ old ~ (r ++ old) ++ flatten
  have h2 : ((r ++ l.getD i []) ++ l.flatten).Perm ((r ++ l.flatten) ++ l.getD i []) := by
    simp only [List.append_assoc]
    exact List.Perm.append_left r List.perm_append_comm
  exact (List.perm_append_right_iff _).1 (h1.trans h2)

/-- replacing container `i` by a permutation of (new ++ old content) -/
theorem flatten_set_of_perm {α : Type} (l : List (List α)) (i : Nat) (r x : List α) (h : i < l.length)
    (hx : x.Perm (r ++ l.getD i [])) : ((l.set i x).flatten).Perm (r ++ l.flatten) := by
  have h1 := flatten_set_perm l i x h
  have h2 : (x ++ l.flatten).Perm ((r ++ l.flatten) ++ l.getD i []) := by
    refine (hx.append_right _).trans ?_
    simp only [List.append_assoc]
    exact List.Perm.append_left r List.perm_append_comm
  exact (List.perm_append_right_iff _).1 (h1.trans h2)

/-- taking the head of container `i` removes exactly that element -/
theorem flatten_pop {α : Type} (l : List (List α)) (i : Nat) (t : α) (h : (l.getD i []).head? = some t) :
    l.flatten.Perm (t :: (l.set i (l.getD i []).tail).flatten) := by
  have hi : i < l.length := by
    by_cases hi : i < l.length
    · exact hi
    · have : l.getD i [] = [] := by simp [List.getD, List.getElem?_eq_none (by omega : l.length ≤ i)]
      rw [this] at h; simp at h
  cases hc : l.getD i [] with
  | nil => rw [hc] at h; simp at h
  | cons y ys =>
    rw [hc] at h
    simp only [List.head?_cons, Option.some.injEq] at h
    subst h
    have h1 := flatten_set_perm l i ys hi
    rw [hc] at h1
    simp only [List.tail_cons]
    -- (set).flatten ++ (y :: ys) ~ ys ++ flatten
    have h2 : ((l.set i ys).flatten ++ (y :: ys)).Perm ((y :: (l.set i ys).flatten) ++ ys) := by
      simp only [List.cons_append]
      exact (List.perm_middle).trans (List.Perm.refl _)
    have h3 : (ys ++ l.flatten).Perm (l.flatten ++ ys) := List.perm_append_comm
    exact ((List.perm_append_right_iff ys).1 (h2.symm.trans (h1.trans h3))).symm

theorem flatten_ne_nil {α : Type} : ∀ (l : List (List α)), l.flatten ≠ [] → ∃ i, i < l.length ∧ l.getD i [] ≠ []
  | [], h => by simp at h
  | [] :: ys, h => by
    obtain ⟨i, hi, hne⟩ := flatten_ne_nil ys (by simpa using h)
    exact ⟨i + 1, by simpa using hi, by simpa using hne⟩
  | (y :: t) :: ys, _ => ⟨0, by simp, by simp⟩

/-! ### ll -/

theorem llTarget_lt (n es : Nat) (d : Int) (hes : es < n) : llTarget n es d < n := by
  unfold llTarget
  have hn : (0 : Int) < n := by omega
  split
  · split
    · exact Nat.mod_lt _ (by omega)
    · have h1 := Int.emod_nonneg ((es : Int) + d) (by omega : (n : Int) ≠ 0)
      have h2 := Int.emod_lt_of_pos ((es : Int) + d) hn
      omega
  · exact hes

def LlInv (s : LlSt) : Prop := 0 < s.n ∧ s.lifos.length = s.n

theorem llSelect_n (s : LlSt) (es : Nat) : (llSelect s es).1.n = s.n := by
  unfold llSelect
  split
  · rfl
  · split
    · rfl
    · split <;> rfl

theorem llSelect_len (s : LlSt) (es : Nat) : (llSelect s es).1.lifos.length = s.lifos.length := by
  unfold llSelect
  split
  · simp [lifoPop]
  · split
    · rfl
    · split
      · simp [lifoPop]
      · rfl

theorem llSelect_some (s : LlSt) (es : Nat) (t : Task) (d : Int) (h : (llSelect s es).2 = some (t, d)) :
    s.lifos.flatten.Perm (t :: (llSelect s es).1.lifos.flatten) := by
  unfold llSelect at h ⊢
  cases h1 : (s.lifos.getD es []).head? with
  | some t' =>
    simp only [h1, Option.some.injEq, Prod.mk.injEq] at h ⊢
    obtain ⟨rfl, _⟩ := h
    exact flatten_pop _ _ _ h1
  | none =>
    simp only [h1] at h ⊢
    cases h2 : llScan s.lifos s.n es (s.n - 1) 1 with
    | none => simp only [h2] at h; simp at h
    | some p =>
      obtain ⟨i, k⟩ := p
      simp only [h2] at h ⊢
      cases h3 : (s.lifos.getD i []).head? with
      | none => simp only [h3] at h; simp at h
      | some t' =>
        simp only [h3, Option.some.injEq, Prod.mk.injEq] at h ⊢
        obtain ⟨rfl, _⟩ := h
        exact flatten_pop _ _ _ h3

theorem llSelect_none (s : LlSt) (es : Nat) (h : (llSelect s es).2 = none) : (llSelect s es).1 = s := by
  unfold llSelect at h ⊢
  cases h1 : (s.lifos.getD es []).head? with
  | some t' => simp only [h1] at h; simp at h
  | none =>
    simp only [h1] at h ⊢
    cases h2 : llScan s.lifos s.n es (s.n - 1) 1 with
    | none => rfl
    | some p =>
      obtain ⟨i, k⟩ := p
      simp only [h2] at h ⊢
      cases h3 : (s.lifos.getD i []).head? with
      | none => rfl
      | some t' => simp only [h3] at h; simp at h

theorem llSelect_live (s : LlSt) (hi : LlInv s) (hne : s.lifos.flatten ≠ []) :
    ∃ es, es < s.n ∧ (llSelect s es).2 ≠ none := by
  obtain ⟨i, hil, hc⟩ := flatten_ne_nil s.lifos hne
  refine ⟨i, by rw [← hi.2]; exact hil, ?_⟩
  unfold llSelect
  cases hcc : s.lifos.getD i [] with
  | nil => exact absurd hcc hc
  | cons y ys => simp

theorem llSelect_inv (s : LlSt) (es : Nat) (hi : LlInv s) : LlInv (llSelect s es).1 :=
  ⟨by rw [llSelect_n]; exact hi.1, by rw [llSelect_len, llSelect_n]; exact hi.2⟩

theorem ll_sched_perm (s : LlSt) (a : SArg) (hi : LlInv s) (hes : a.es < s.n) :
    (ids (llSchedule s a).lifos.flatten).Perm (ids a.ring ++ ids s.lifos.flatten) := by
  have ht : llTarget s.n a.es a.d < s.lifos.length := by rw [hi.2]; exact llTarget_lt _ _ _ hes
  have := ids_perm (flatten_set_add s.lifos _ a.ring ht)
  rw [ids_append] at this
  exact this

def llCorrect : llModule.Correct where
  Inv := LlInv
  n_schedule _ _ := rfl
  n_select s es := llSelect_n s es
  inv_schedule s a hi _ _ :=
    (⟨hi.1, by simp [llSchedule, lifoChain, hi.2]⟩ : LlInv (llSchedule s a))
  inv_select s es hi _ := llSelect_inv s es hi
  sched_perm s a hi hes _ := ll_sched_perm s a hi hes
  sel_some s es t d _ _ hs :=
    (ids_perm (llSelect_some s es t d hs) : (ids s.lifos.flatten).Perm (ids (t :: (llSelect s es).1.lifos.flatten)))
  sel_none s es _ _ hs := by
    show (ids (llSelect s es).1.lifos.flatten).Perm (ids s.lifos.flatten)
    rw [llSelect_none s es hs]
  live s hi hne := llSelect_live s hi hne

/-! ### llp: `lifo_merge_ring` never loses an element -/

/-- what the cursor holds: the chain `list` points to -/
def MZ.all (z : MZ) : List Task := z.front ++ z.mid ++ z.rest

/-- `mid` (elements linked between `prev` and `next`) is non-empty only while `next` still beats the
    ring's last element, and only if there is a `prev` -/
def MZ.ok (last : Task) (z : MZ) : Prop :=
  (z.mid ≠ [] → spliceOK z.rest last = false) ∧ (z.front = [] → z.mid = [])

theorem mergeAdvance_spec (dist : Int) (hd : Task) : ∀ (rest front mid : List Task) (d : Nat),
    (mergeAdvance dist hd front mid d rest).all = front ++ mid ++ rest ∧
    ((mergeAdvance dist hd front mid d rest).mid = [] ∧ (mergeAdvance dist hd front mid d rest).front ≠ [] ∨
     ((mergeAdvance dist hd front mid d rest).mid = mid ∧ (mergeAdvance dist hd front mid d rest).rest = rest ∧
      (mergeAdvance dist hd front mid d rest).front = front))
  | [], front, mid, d => by simp [mergeAdvance, MZ.all]
  | nx :: rs, front, mid, d => by
    unfold mergeAdvance
    split
    · simp [MZ.all]
    · have ih := mergeAdvance_spec dist hd rs (front ++ mid ++ [nx]) [] (d + 1)
      refine ⟨by rw [ih.1]; simp, Or.inl ?_⟩
      rcases ih.2 with h | h
      · exact h
      · exact ⟨h.1, by rw [h.2.2]; simp⟩

theorem mergeLoop_perm (dist : Int) (last : Task) : ∀ (ring : List Task) (z : MZ), z.ok last →
    (mergeLoop dist last ring z).Perm (ring ++ z.all)
  | [], z, _ => by simp [mergeLoop, MZ.all]
  | hd :: tl, z, hok => by
    have hadv := mergeAdvance_spec dist hd z.rest z.front z.mid z.d
    generalize hz' : mergeAdvance dist hd z.front z.mid z.d z.rest = z' at hadv
    have hall : z'.all = z.all := hadv.1
    have hok' : z'.ok last := by
      rcases hadv.2 with h | h
      · exact ⟨fun hm => absurd h.1 hm, fun hf => absurd hf h.2⟩
      · exact ⟨by rw [h.1, h.2.1]; exact hok.1, by rw [h.1, h.2.2]; exact hok.2⟩
    unfold mergeLoop
    simp only [hz']
    by_cases hs : spliceOK z'.rest last = true
    · simp only [hs, if_true]
      have hmid : z'.mid = [] := by
        by_cases hm : z'.mid = []
        · exact hm
        · have := hok'.1 hm; rw [this] at hs; exact absurd hs (by simp)
      rw [← hall]
      simp only [MZ.all, hmid, List.append_nil, List.append_assoc]
      exact List.perm_append_comm_assoc _ _ _
    · simp only [hs, Bool.false_eq_true, if_false]
      by_cases hf : z'.front.isEmpty = true
      · simp only [hf, if_true]
        have hfe : z'.front = [] := List.isEmpty_iff.1 hf
        have hmid : z'.mid = [] := hok'.2 hfe
        have ih := mergeLoop_perm dist last tl ⟨[], [], hd :: z'.rest, z'.d⟩ ⟨by simp, by simp⟩
        refine ih.trans ?_
        rw [← hall]
        simp only [MZ.all, hfe, hmid, List.nil_append, List.cons_append]
        exact (List.perm_middle)
      · simp only [hf, Bool.false_eq_true, if_false]
        have hsf : spliceOK z'.rest last = false := by simpa using hs
        have hfne : z'.front ≠ [] := by intro h; rw [h] at hf; simp at hf
        have ih := mergeLoop_perm dist last tl ⟨z'.front, hd :: z'.mid, z'.rest, z'.d⟩
          ⟨fun _ => hsf, fun h => absurd h hfne⟩
        refine ih.trans ?_
        rw [← hall]
        simp only [MZ.all, List.append_assoc, List.cons_append]
        have : (tl ++ (z'.front ++ hd :: (z'.mid ++ z'.rest))).Perm (tl ++ hd :: (z'.front ++ (z'.mid ++ z'.rest))) :=
          List.Perm.append_left tl List.perm_middle
        exact this.trans List.perm_middle

theorem llpChain_perm (lifo ring : List Task) (d : Int) : (llpChain lifo ring d).Perm (ring ++ lifo) := by
  unfold llpChain
  cases hl : ring.getLast? with
  | none =>
    have : ring = [] := List.getLast?_eq_none_iff.1 hl
    simp [this]
  | some last =>
    simp only
    split
    · exact List.Perm.refl _
    · have := mergeLoop_perm d last ring ⟨[], [], lifo, 0⟩ ⟨by simp, by simp⟩
      simpa [MZ.all] using this

theorem llp_sched_perm (s : LlSt) (a : SArg) (hi : LlInv s) (hes : a.es < s.n) :
    (ids (llpSchedule s a).lifos.flatten).Perm (ids a.ring ++ ids s.lifos.flatten) := by
  have hes' : a.es < s.lifos.length := by rw [hi.2]; exact hes
  have := ids_perm (flatten_set_of_perm s.lifos a.es a.ring _ hes' (llpChain_perm (s.lifos.getD a.es []) a.ring a.d))
  rw [ids_append] at this
  exact this

def llpCorrect : llpModule.Correct where
  Inv := LlInv
  n_schedule _ _ := rfl
  n_select s es := llSelect_n s es
  inv_schedule s a hi _ _ :=
    (⟨hi.1, by simp [llpSchedule, hi.2]⟩ : LlInv (llpSchedule s a))
  inv_select s es hi _ := llSelect_inv s es hi
  sched_perm s a hi hes _ := llp_sched_perm s a hi hes
  sel_some s es t d _ _ hs :=
    (ids_perm (llSelect_some s es t d hs) : (ids s.lifos.flatten).Perm (ids (t :: (llSelect s es).1.lifos.flatten)))
  sel_none s es _ _ hs := by
    show (ids (llSelect s es).1.lifos.flatten).Perm (ids s.lifos.flatten)
    rw [llSelect_none s es hs]
  live s hi hne := llSelect_live s hi hne

end ParsecVerif.Sched
