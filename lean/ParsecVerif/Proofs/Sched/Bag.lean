import ParsecVerif.Model.Sched.Module
/-!
  Conservation and drain, proved ONCE for any scheduler module that refines a bag:
  `Module.Correct M` packages the per-module facts (an invariant; `schedule` adds exactly the ring to
  the pending bag; a successful `select` removes exactly the returned task; a failing `select` changes
  nothing in the bag; while something is pending some stream's `select` succeeds).
  Task identity is `Task.id` (rnd rewrites priorities).
-/
namespace ParsecVerif.Sched

structure Module.Correct (M : Module) where
  Inv : M.St → Prop
  n_schedule : ∀ s a, M.nstreams (M.schedule s a) = M.nstreams s
  n_select : ∀ s es, M.nstreams (M.select s es).1 = M.nstreams s
  inv_schedule : ∀ s a, Inv s → a.es < M.nstreams s → a.ring ≠ [] → Inv (M.schedule s a)
  inv_select : ∀ s es, Inv s → es < M.nstreams s → Inv (M.select s es).1
  sched_perm : ∀ s a, Inv s → a.es < M.nstreams s → a.ring ≠ [] →
    (ids (M.pending (M.schedule s a))).Perm (ids a.ring ++ ids (M.pending s))
  sel_some : ∀ s es t d, Inv s → es < M.nstreams s → (M.select s es).2 = some (t, d) →
    (ids (M.pending s)).Perm (t.id :: ids (M.pending (M.select s es).1))
  sel_none : ∀ s es, Inv s → es < M.nstreams s → (M.select s es).2 = none →
    (ids (M.pending (M.select s es).1)).Perm (ids (M.pending s))
  live : ∀ s, Inv s → M.pending s ≠ [] → ∃ es, es < M.nstreams s ∧ (M.select s es).2 ≠ none

theorem ids_append (a b : List Task) : ids (a ++ b) = ids a ++ ids b := by simp [ids]
theorem ids_cons (t : Task) (l : List Task) : ids (t :: l) = t.id :: ids l := rfl
theorem ids_perm {a b : List Task} (h : a.Perm b) : (ids a).Perm (ids b) := h.map _

theorem valid_sched {n : Nat} {a : SArg} (h : (MOp.sched a).valid n = true) : a.es < n ∧ a.ring ≠ [] := by
  simp only [MOp.valid, Bool.and_eq_true, decide_eq_true_eq, Bool.not_eq_true', List.isEmpty_eq_false_iff] at h
  exact h

theorem valid_sel {n es : Nat} (h : (MOp.sel es).valid n = true) : es < n := by
  simpa [MOp.valid] using h

theorem Module.Correct.runFrom_n {M : Module} (C : M.Correct) : ∀ (ops : List MOp) (s : M.St) (ret : List Task),
    M.nstreams (M.runFrom s ret ops).1 = M.nstreams s
  | [], _, _ => rfl
  | op :: ops, s, ret => by
    unfold Module.runFrom
    by_cases hv : op.valid (M.nstreams s) = true
    · simp only [hv, if_true]
      cases op with
      | sched a => simp only; rw [Module.Correct.runFrom_n C ops, C.n_schedule]
      | sel es =>
        simp only
        cases hsel : (M.select s es).2 with
        | none => simp only; rw [Module.Correct.runFrom_n C ops, C.n_select]
        | some p => obtain ⟨t, d⟩ := p; simp only; rw [Module.Correct.runFrom_n C ops, C.n_select]
    · simp only [hv]; exact Module.Correct.runFrom_n C ops s ret

/-- **Conservation (no loss, no duplicate), any module, any stream count, any history.**
    From any state satisfying the invariant: what is pending plus everything returned so far is, as a
    multiset of task identities, what was pending, plus what was returned before, plus what the valid
    schedule calls of the history handed in; and the invariant is kept. -/
theorem Module.Correct.conservation_from {M : Module} (C : M.Correct) : ∀ (ops : List MOp) (s : M.St) (ret : List Task), C.Inv s →
    C.Inv (M.runFrom s ret ops).1 ∧
    (ids (M.pending (M.runFrom s ret ops).1) ++ ids (M.runFrom s ret ops).2).Perm
      (ids (scheduledOf (M.nstreams s) ops) ++ (ids (M.pending s) ++ ids ret))
  | [], s, ret, hi => by simp [Module.runFrom, scheduledOf, ids, hi]
  | op :: ops, s, ret, hi => by
    unfold Module.runFrom
    by_cases hv : op.valid (M.nstreams s) = true
    · simp only [hv, if_true]
      cases op with
      | sched a =>
        simp only
        obtain ⟨hes, hr⟩ := valid_sched hv
        have ih := Module.Correct.conservation_from C ops (M.schedule s a) ret (C.inv_schedule s a hi hes hr)
        refine ⟨ih.1, ih.2.trans ?_⟩
        rw [C.n_schedule]
        simp only [scheduledOf, hv, if_true, ids_append]
        have hp := C.sched_perm s a hi hes hr
        have : (ids (M.pending (M.schedule s a)) ++ ids ret).Perm ((ids a.ring ++ ids (M.pending s)) ++ ids ret) :=
          hp.append_right _
        refine (List.Perm.append_left _ this).trans ?_
        simp only [List.append_assoc]
        exact (List.perm_append_comm_assoc _ _ _)
      | sel es =>
        simp only
        have hes := valid_sel hv
        cases hsel : (M.select s es).2 with
        | none =>
          simp only
          have ih := Module.Correct.conservation_from C ops (M.select s es).1 ret (C.inv_select s es hi hes)
          refine ⟨ih.1, ih.2.trans ?_⟩
          rw [C.n_select]
          simp only [scheduledOf]
          exact List.Perm.append_left _ ((C.sel_none s es hi hes hsel).append_right _)
        | some p =>
          obtain ⟨t, d⟩ := p
          simp only
          have ih := Module.Correct.conservation_from C ops (M.select s es).1 (t :: ret) (C.inv_select s es hi hes)
          refine ⟨ih.1, ih.2.trans ?_⟩
          rw [C.n_select]
          simp only [scheduledOf, ids_cons]
          refine List.Perm.append_left _ ?_
          have hp := C.sel_some s es t d hi hes hsel
          exact (List.perm_middle).trans (hp.symm.append_right _)
    · simp only [hv]
      have ih := Module.Correct.conservation_from C ops s ret hi
      refine ⟨ih.1, ih.2.trans ?_⟩
      cases op with
      | sched a => simp [scheduledOf, hv]
      | sel es => simp [scheduledOf]

/-- if every task handed in is distinct, no task is ever both pending and returned, nor returned twice -/
theorem Module.Correct.no_duplicate {M : Module} (C : M.Correct) (ops : List MOp) (s : M.St) (hi : C.Inv s) (h0 : M.pending s = [])
    (hnd : (ids (scheduledOf (M.nstreams s) ops)).Nodup) :
    (ids (M.pending (M.runFrom s [] ops).1) ++ ids (M.runFrom s [] ops).2).Nodup := by
  have h := (Module.Correct.conservation_from C ops s [] hi).2
  simp only [h0, ids, List.map_nil, List.append_nil] at h
  exact (h.nodup_iff).2 hnd

/-- **Drain.**  While something is pending some stream can select a task, and `k = |pending|`
    successive selects on suitable streams of the virtual process return `k` tasks and leave nothing
    pending. -/
theorem Module.Correct.drain {M : Module} (C : M.Correct) : ∀ (k : Nat) (s : M.St), C.Inv s → (M.pending s).length = k →
    ∃ ess : List Nat, ess.length = k ∧ (∀ es ∈ ess, es < M.nstreams s) ∧
      M.pending (M.runFrom s [] (ess.map MOp.sel)).1 = [] ∧
      (M.runFrom s [] (ess.map MOp.sel)).2.length = k
  | 0, s, _, hk => ⟨[], rfl, by simp, by simpa [Module.runFrom] using List.eq_nil_of_length_eq_zero hk, rfl⟩
  | k + 1, s, hi, hk => by
    have hne : M.pending s ≠ [] := by intro h; simp [h] at hk
    obtain ⟨es, hes, hsome⟩ := C.live s hi hne
    cases hsel : (M.select s es).2 with
    | none => exact absurd hsel hsome
    | some p =>
      obtain ⟨t, d⟩ := p
      have hp := C.sel_some s es t d hi hes hsel
      have hlen : (M.pending (M.select s es).1).length = k := by
        have := hp.length_eq
        simp only [ids, List.length_map, List.length_cons] at this
        omega
      obtain ⟨ess, h1, h2, h3, h4⟩ := Module.Correct.drain C k (M.select s es).1 (C.inv_select s es hi hes) hlen
      refine ⟨es :: ess, by simp [h1], ?_, ?_, ?_⟩
      · intro e he
        rcases List.mem_cons.1 he with rfl | he
        · exact hes
        · have := h2 e he; rwa [C.n_select] at this
      · have hv : (MOp.sel es).valid (M.nstreams s) = true := by simp [MOp.valid, hes]
        simp only [List.map_cons, Module.runFrom, hv, if_true, hsel]
        -- the accumulator of returned tasks does not influence the state
        have : ∀ (ops : List MOp) (s' : M.St) (r1 r2 : List Task), (M.runFrom s' r1 ops).1 = (M.runFrom s' r2 ops).1 := by
          intro ops
          induction ops with
          | nil => intros; rfl
          | cons op ops ih =>
            intro s' r1 r2
            unfold Module.runFrom
            split
            · cases op with
              | sched a => exact ih _ _ _
              | sel e => simp only; split <;> exact ih _ _ _
            · exact ih _ _ _
        rw [this _ _ [t] []]
        exact h3
      · have hv : (MOp.sel es).valid (M.nstreams s) = true := by simp [MOp.valid, hes]
        simp only [List.map_cons, Module.runFrom, hv, if_true, hsel]
        have : ∀ (ops : List MOp) (s' : M.St) (r : List Task), (M.runFrom s' r ops).2.length = (M.runFrom s' [] ops).2.length + r.length := by
          intro ops
          induction ops with
          | nil => intro s' r; simp [Module.runFrom]
          | cons op ops ih =>
            intro s' r
            unfold Module.runFrom
            split
            · cases op with
              | sched a => exact ih _ _
              | sel e =>
                simp only
                split
                · rw [ih _ (_ :: r), ih _ [_]]; simp; omega
                · exact ih _ _
            · exact ih _ _
        rw [this _ _ [t], h4]; rfl

end ParsecVerif.Sched
