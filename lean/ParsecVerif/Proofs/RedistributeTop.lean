/-
  C21, second part: the wrapper's validation, absence of `Nat`-truncation on taken branches,
  `memcpy` of a whole block = block copy, and the Send/Receive correspondence of the reshuffle taskpool.
-/
import ParsecVerif.Proofs.Redistribute
namespace ParsecVerif.Redistribute

/-! ## parsec_redistribute_New: what an accepted request guarantees -/

theorem validate_spec (dY dT : Desc) (hY : 0 < dY.mb ∧ 0 < dY.nb) (hT : 0 < dT.mb ∧ 0 < dT.nb)
    (sr sc diY djY diT djT : Int) (p : Params) (path : Path)
    (h : validate dY dT sr sc diY djY diT djT = some (p, path)) :
    p = mkParams dY dT sr sc diY djY diT djT ∧ path = pathOf p ∧ p.Valid ∧
    ((p.sizeRow : Int) = sr ∧ (p.sizeCol : Int) = sc ∧ (p.diY : Int) = diY ∧ (p.djY : Int) = djY ∧
     (p.diT : Int) = diT ∧ (p.djT : Int) = djT) ∧
    (p.diY + p.sizeRow ≤ dY.lmt * dY.mb ∧ p.djY + p.sizeCol ≤ dY.lnt * dY.nb ∧
     p.diT + p.sizeRow ≤ dT.lmt * dT.mb ∧ p.djT + p.sizeCol ≤ dT.lnt * dT.nb) := by
  unfold validate at h
  split at h
  · cases h
  split at h
  · cases h
  split at h
  · cases h
  split at h
  · cases h
  split at h
  · cases h
  split at h
  · cases h
  split at h
  · cases h
  rename_i h1 h2 h3 h4 h5 h6 h7
  cases h
  refine ⟨rfl, rfl, ⟨⟨hY.1, hT.1, ?_⟩, ⟨hY.2, hT.2, ?_⟩, ?_⟩, ⟨?_, ?_, ?_, ?_, ?_, ?_⟩, ?_, ?_, ?_, ?_⟩
  · show 0 < sr.toNat; omega
  · show 0 < sc.toNat; omega
  · show 0 < (pairNumCols dY dT sc.toNat).toNat; omega
  · show (sr.toNat : Int) = sr; omega
  · show (sc.toNat : Int) = sc; omega
  · show (diY.toNat : Int) = diY; omega
  · show (djY.toNat : Int) = djY; omega
  · show (diT.toNat : Int) = diT; omega
  · show (djT.toNat : Int) = djT; omega
  · show diY.toNat + sr.toNat ≤ dY.lmt * dY.mb; omega
  · show djY.toNat + sc.toNat ≤ dY.lnt * dY.nb; omega
  · show diT.toNat + sr.toNat ≤ dT.lmt * dT.mb; omega
  · show djT.toNat + sc.toNat ≤ dT.lnt * dT.nb; omega

/-- a refused request: negative or empty sizes, negative displacements, windows that leave either matrix -/
theorem validate_refuses (dY dT : Desc) (sr sc diY djY diT djT : Int)
    (h : sr < 1 ∨ sc < 1 ∨ diY < 0 ∨ djY < 0 ∨ diT < 0 ∨ djT < 0 ∨
         diY + sr > dY.lmt * dY.mb ∨ djY + sc > dY.lnt * dY.nb ∨
         diT + sr > dT.lmt * dT.mb ∨ djT + sc > dT.lnt * dT.nb) :
    validate dY dT sr sc diY djY diT djT = none := by
  unfold validate
  split
  · rfl
  split
  · rfl
  split
  · rfl
  split
  · rfl
  omega

/-! ## no truncated subtraction on a taken branch -/

/-- Every `Nat` subtraction of the general-path model that is evaluated on a branch the code takes has a
    non-negative exact value (so `Nat` and C `int` arithmetic agree).  Listed by the C expression. -/
theorem no_underflow (d : Dim) (hv : d.Valid) (t : Nat) (ht1 : d.tStart ≤ t) (ht2 : t ≤ d.tEnd) :
    1 ≤ d.size + d.dT ∧                                          -- m_T_END: size + dis - 1
    d.tStart ≤ d.tEnd ∧                                          -- NT: n_T_END - n_T_START
    d.dT % d.bT ≤ d.bT ∧                                         -- getsize: mb - dis
    (d.tEnd - d.tStart) * d.bT ≤ d.size + d.dT % d.bT ∧          -- getsize: size + dis - (end-start)*mb
    (t ≠ d.tStart → d.dT % d.bT ≤ (t - d.tStart) * d.bT) ∧       -- sizei_T where it is used
    1 ≤ d.srcPos t + d.tInner t ∧                                -- m_Y_end: … + mb_T_inner - 1
    d.iStart t ≤ d.bY ∧                                          -- TL: mb_Y_INNER - i_start
    1 ≤ d.iStart t + d.tInner t ∧                                -- BR: i_start + mb_T_inner - 1
    d.yStart t ≤ d.yEnd t := by                                  -- m_Y_end - m_Y_start - 1 on the `last` branch
  obtain ⟨t1, t2, t3, t4, t5, _⟩ := tside d hv.bT hv.size t ht1 ht2
  have hsz := hv.size
  have e1 := mod_eq_sub d.bT d.dT
  have a1 := div_lo d.bT d.dT
  have a2 := div_hi d.bT d.dT hv.bT
  have a3 := div_lo d.bT (d.size + d.dT - 1)
  have a4 := div_hi d.bT (d.size + d.dT - 1) hv.bT
  have hm := Nat.mod_lt (d.srcPos t) hv.bY
  have hmono : d.tStart ≤ d.tEnd := Nat.le_trans ht1 ht2
  have hy : d.yStart t ≤ d.yEnd t := by
    rw [Dim.yStart_eq, Dim.yEnd_eq]; exact Nat.div_le_div_right (by omega)
  rw [Dim.iStart_eq]
  refine ⟨by omega, hmono, by omega, ?_, ?_, by omega, by omega, by omega, hy⟩
  · unfold Dim.tStart Dim.tEnd at *
    rw [sub_mul_comm]; omega
  · intro hne
    unfold Dim.tStart Dim.tEnd at *
    have l1 := mul_lt_step (b := d.bT) (show d.dT / d.bT < t by omega)
    rw [sub_mul_comm]; omega

/-! ## memcpy of a whole block -/

/-- `memcpy(T, Y, mb*nb*sizeof)` between two tiles of leading dimension `mb` moves exactly the elements
    `(a, b)`, `a < mb`, `b < nb`, each to the same `(a, b)` (linear index `mb*b + a` on both sides). -/
theorem linear_eq_rect (mb nb : Nat) (hmb : 0 < mb) :
    (∀ k, k < mb * nb → k % mb < mb ∧ k / mb < nb) ∧
    (∀ a b, a < mb → b < nb → mb * b + a < mb * nb ∧ (mb * b + a) % mb = a ∧ (mb * b + a) / mb = b) := by
  constructor
  · intro k hk
    exact ⟨Nat.mod_lt k hmb, Nat.div_lt_of_lt_mul hk⟩
  · intro a b ha hb
    have l := mul_lt_step (b := mb) hb
    have hd : (mb * b + a) / mb = b := div_unique rfl ha
    refine ⟨by omega, ?_, hd⟩
    rw [mod_eq_sub, hd]; omega

/-! ## reshuffle: every `Send` has its `Receive` and conversely -/

theorem aligned_span (d : Dim) (hv : d.Valid) (ha : d.Aligned) :
    d.yEndR + d.tStart = d.tEndR + d.yStartR ∧ d.yStartR ≤ d.yEndR ∧ d.tStart ≤ d.tEndR := by
  obtain ⟨hs, hy, ht⟩ := ha
  have hb := hv.bT
  have hsz := hv.size
  rw [hs] at hy
  have eT := mod_eq_sub d.bT d.dT
  have aT := div_lo d.bT d.dT
  have eY := mod_eq_sub d.bT d.dY
  have aY := div_lo d.bT d.dY
  have r1 := div_lo d.bT (d.size - 1)
  have r2 := div_hi d.bT (d.size - 1) hb
  unfold Dim.yEndR Dim.tStart Dim.tEndR Dim.yStartR
  rw [hs]
  have h1 : (d.dT + d.size - 1) / d.bT = d.dT / d.bT + (d.size - 1) / d.bT :=
    div_eq_of_bounds (by rw [Nat.mul_add]; omega) (by rw [Nat.mul_add]; omega)
  have h2 : (d.dY + d.size - 1) / d.bT = d.dY / d.bT + (d.size - 1) / d.bT :=
    div_eq_of_bounds (by rw [Nat.mul_add]; omega) (by rw [Nat.mul_add]; omega)
  rw [h1, h2]
  generalize d.dT / d.bT = qa
  generalize d.dY / d.bT = qb
  generalize (d.size - 1) / d.bT = qc
  omega

def InReshuffleSend (p : Params) (b mY nY : Nat) : Prop :=
  b ≤ p.nt ∧ (p.row.yStartR ≤ mY ∧ mY ≤ p.row.yEndR) ∧
  (b * p.numCol + p.col.yStartR ≤ nY ∧ nY ≤ min ((b + 1) * p.numCol + p.col.yStartR - 1) p.col.yEndR)

theorem mem_reshuffleSends {p : Params} {b mY nY : Nat} :
    (b, mY, nY) ∈ reshuffleSends p ↔ InReshuffleSend p b mY nY := by
  unfold reshuffleSends InReshuffleSend
  simp only [List.mem_flatMap, List.mem_map, mem_rangeIncl, Prod.mk.injEq]
  constructor
  · rintro ⟨b', hb, mY', hmY, nY', hnY, rfl, rfl, rfl⟩
    exact ⟨hb.2, hmY, hnY⟩
  · rintro ⟨h1, h2, h3⟩
    exact ⟨b, ⟨Nat.zero_le _, h1⟩, mY, h2, nY, h3, rfl, rfl, rfl⟩

/-- The dataflow of the reshuffle taskpool is consistent: `Send(m_Y, n_Y, batch)` exists exactly when the
    `Receive(m_T, n_T, batch)` it feeds (`m_T = m_Y - m_Y_START + m_T_START`, …) exists, and the `Receive`
    derives the same `(m_Y, n_Y)`. -/
theorem reshuffle_send_receive (p : Params) (hv : p.Valid) (ho : p.optimized = true) (b mY nY : Nat) :
    (b, mY, nY) ∈ reshuffleSends p ↔ ∃ k ∈ reshuffleTasks p, k.batch = b ∧ k.mY = mY ∧ k.nY = nY := by
  obtain ⟨har, hac⟩ := optimized_aligned p ho
  obtain ⟨ra, ra1, ra2⟩ := aligned_span p.row hv.row har
  obtain ⟨ca, ca1, ca2⟩ := aligned_span p.col hv.col hac
  have ec := Dim.tEndR_eq p.col
  have hN : ∀ b, 1 ≤ (b + 1) * p.numCol := fun b => Nat.mul_pos (Nat.succ_pos b) hv.numCol
  rw [mem_reshuffleSends]
  constructor
  · rintro ⟨h1, ⟨h2, h3⟩, ⟨h4, h5⟩⟩
    have hN' := hN b
    refine ⟨⟨b, mY - p.row.yStartR + p.row.tStart, nY - p.col.yStartR + p.col.tStart, mY, nY⟩,
      mem_reshuffleTasks.mpr ⟨h1, ⟨by simp only; omega, by simp only; omega⟩, ⟨?_, ?_⟩, ?_, ?_⟩, rfl, rfl, rfl⟩
    · unfold Params.batchLo; simp only; omega
    · unfold Params.batchHi; simp only; omega
    · simp only; omega
    · simp only; omega
  · rintro ⟨k, hk, rfl, rfl, rfl⟩
    obtain ⟨h1, ⟨h2, h3⟩, ⟨h4, h5⟩, h6, h7⟩ := mem_reshuffleTasks.mp hk
    unfold Params.batchLo at h4; unfold Params.batchHi at h5
    have hN' := hN k.batch
    exact ⟨h1, ⟨by omega, by omega⟩, ⟨by omega, by omega⟩⟩

end ParsecVerif.Redistribute
