import ParsecVerif.Model.UserTrigger
/-! Helper lemmas for C12 (tree arithmetic of the user-trigger broadcast). -/
namespace ParsecVerif.UserTrigger

theorem mod_lt2 (a n : Nat) (h : a < 2 * n) : a % n = if a < n then a else a - n := by
  split
  · exact Nat.mod_eq_of_lt ‹_›
  · rw [Nat.mod_eq_sub_mod (by omega)]
    exact Nat.mod_eq_of_lt (by omega)

theorem shifted_eq (n root me : Nat) (hr : root < n) (hm : me < n) :
    shifted n root me = if root ≤ me then me - root else me + n - root := by
  unfold shifted
  rw [mod_lt2 _ _ (by omega)]
  split <;> split <;> omega

theorem shifted_lt (n root me : Nat) (hr : root < n) (hm : me < n) : shifted n root me < n := by
  rw [shifted_eq n root me hr hm]; split <;> omega

/-- the real rank of shifted index `v` -/
def unshift (n root v : Nat) : Nat := (v + root) % n

theorem unshift_eq (n root v : Nat) (hr : root < n) (hv : v < n) :
    unshift n root v = if v + root < n then v + root else v + root - n := by
  unfold unshift; rw [mod_lt2 _ _ (by omega)]

theorem unshift_lt (n root v : Nat) (hr : root < n) (hv : v < n) : unshift n root v < n := by
  rw [unshift_eq n root v hr hv]; split <;> omega

theorem shifted_unshift (n root v : Nat) (hr : root < n) (hv : v < n) :
    shifted n root (unshift n root v) = v := by
  rw [shifted_eq n root _ hr (unshift_lt n root v hr hv), unshift_eq n root v hr hv]
  split <;> split <;> omega

theorem unshift_shifted (n root me : Nat) (hr : root < n) (hm : me < n) :
    unshift n root (shifted n root me) = me := by
  rw [unshift_eq n root _ hr (shifted_lt n root me hr hm), shifted_eq n root me hr hm]
  split <;> split <;> omega

theorem shifted_eq_zero_iff (n root me : Nat) (hr : root < n) (hm : me < n) :
    shifted n root me = 0 ↔ me = root := by
  rw [shifted_eq n root me hr hm]; split <;> omega

theorem child_eq (n root me i : Nat) : child n root me i = unshift n root (2 * shifted n root me + i + 1) := rfl

theorem nbChildren_spec (n v i : Nat) : i < nbChildren n v ↔ (i < 2 ∧ 2 * v + i + 1 < n) := by
  unfold nbChildren; split
  · omega
  · split <;> omega

theorem mem_children (n root me c : Nat) :
    c ∈ children n root me ↔ ∃ i, i < 2 ∧ 2 * shifted n root me + i + 1 < n ∧ child n root me i = c := by
  unfold children
  simp only [List.mem_map, List.mem_range, nbChildren_spec]
  constructor
  · rintro ⟨i, ⟨h1, h2⟩, h3⟩; exact ⟨i, h1, h2, h3⟩
  · rintro ⟨i, h1, h2, h3⟩; exact ⟨i, ⟨h1, h2⟩, h3⟩

/-- shifted index of the unique parent of a non-root rank -/
def parentShifted (n root r : Nat) : Nat := (shifted n root r - 1) / 2

def parent (n root r : Nat) : Nat := unshift n root (parentShifted n root r)

/-- Characterisation of the edge relation: `c` is a child of `me` iff `c` is not the root and
    `me` is `c`'s parent. -/
theorem mem_children_iff (n root me c : Nat) (hr : root < n) (hm : me < n) (hc : c < n) :
    c ∈ children n root me ↔ (c ≠ root ∧ me = parent n root c) := by
  rw [mem_children]
  have hsm := shifted_lt n root me hr hm
  constructor
  · rintro ⟨i, hi, hlt, hci⟩
    rw [child_eq] at hci
    have hs : shifted n root c = 2 * shifted n root me + i + 1 := by
      rw [← hci, shifted_unshift n root _ hr hlt]
    constructor
    · intro h
      have := (shifted_eq_zero_iff n root c hr hc).2 h
      omega
    · unfold parent parentShifted
      rw [hs]
      have : (2 * shifted n root me + i + 1 - 1) / 2 = shifted n root me := by omega
      rw [this, unshift_shifted n root me hr hm]
  · rintro ⟨hne, hme⟩
    have hs0 : shifted n root c ≠ 0 := fun h => hne ((shifted_eq_zero_iff n root c hr hc).1 h)
    have hsc := shifted_lt n root c hr hc
    have hp : shifted n root me = (shifted n root c - 1) / 2 := by
      rw [hme]; unfold parent parentShifted
      exact shifted_unshift n root _ hr (by omega)
    refine ⟨(shifted n root c - 1) % 2, by omega, by omega, ?_⟩
    rw [child_eq]
    have : 2 * shifted n root me + (shifted n root c - 1) % 2 + 1 = shifted n root c := by omega
    rw [this, unshift_shifted n root c hr hc]

theorem children_lt (n root me c : Nat) (hr : root < n) (h : c ∈ children n root me) : c < n := by
  rw [mem_children] at h
  obtain ⟨i, _, hlt, rfl⟩ := h
  rw [child_eq]; exact unshift_lt n root _ hr hlt

theorem children_nodup (n root me : Nat) (hr : root < n) (hm : me < n) : (children n root me).Nodup := by
  unfold children
  rw [List.Nodup, List.pairwise_map]
  refine List.Pairwise.imp_of_mem ?_ List.nodup_range
  intro i j hi hj hne hij
  apply hne
  simp only [List.mem_range, nbChildren_spec] at hi hj
  rw [child_eq, child_eq] at hij
  have := congrArg (shifted n root) hij
  rw [shifted_unshift n root _ hr hi.2, shifted_unshift n root _ hr hj.2] at this
  omega

theorem parent_lt (n root c : Nat) (hr : root < n) (hc : c < n) : parent n root c < n := by
  unfold parent parentShifted
  have := shifted_lt n root c hr hc
  exact unshift_lt n root _ hr (by omega)

theorem shifted_parent_lt (n root c : Nat) (hr : root < n) (hc : c < n) (hne : c ≠ root) :
    shifted n root (parent n root c) < shifted n root c := by
  have hs0 : shifted n root c ≠ 0 := fun h => hne ((shifted_eq_zero_iff n root c hr hc).1 h)
  have := shifted_lt n root c hr hc
  unfold parent parentShifted
  rw [shifted_unshift n root _ hr (by omega)]
  omega

end ParsecVerif.UserTrigger
