/-
  The inductive invariant of the hash-table model.

  `SInv s`   facts about the store and the ghost map (placement, chain reachability, `used_buckets`
             accounting, abs = stored ∪ in flight, caller bookkeeping);
  `TInv s t op pc`  what thread `t` knows at program point `pc` (the locks it holds, how far its search
             went, the item it carries);
  `Rely t s s'`     what a step of ANOTHER thread preserves from the point of view of a thread `t` that is
             between rdlock and rdunlock: `t`'s locks stay `t`'s, older tables only lose items, nothing
             appears in a top-level bucket that `t` holds, items leave the ghost map only if they were stored.
-/
import ParsecVerif.Proofs.HashTable

namespace ParsecVerif.HashTable

/-- table `T` exists -/
def Tin (s : Store) (T : Nat) : Prop := s.nb0 ≤ T ∧ T ≤ s.top

def EmptyT (s : Store) (T : Nat) : Prop := ∀ b, (s.bk T b).items = []

/-- some item with key `k` is chained in the bucket of `k` in table `T` -/
def KeyIn (s : Store) (k T : Nat) : Prop := ∃ it, it ∈ (s.bk T (s.hf k T)).items ∧ it.key = k

def Stored (s : Store) (it : Item) : Prop := ∃ T b, Tin s T ∧ it ∈ (s.bk T b).items

/-- key `k` is in none of the tables `lo .. top` -/
def NotIn (s : Store) (k lo : Nat) : Prop := ∀ T, lo ≤ T → T ≤ s.top → ¬ KeyIn s k T

def Pc.inHand : Pc → Option Item
  | .du _ _ it => some it
  | .cn _ _ _ it => some it
  | _ => none

def Pc.isDu (T : Nat) : Pc → Bool
  | .du hd _ _ => hd == T
  | _ => false

/-- threads between `--cur_len == 0` and the fetch-dec of `used_buckets` of table `T` -/
def pendingDec (thr : List Thread) (T : Nat) : Nat := thr.countP fun th => th.pc.isDu T

/-- an item unlinked from an older table by a find that has not yet re-inserted it at the top -/
def InFlight (thr : List Thread) (it : Item) : Prop :=
  ∃ (t : Nat) (th : Thread), thr[t]? = some th ∧ th.op.mv = true ∧ th.pc.inHand = some it

/-- result of the running operation once it has taken effect -/
def Pc.linRes : Pc → Option Nat
  | .du _ _ it => some it.id
  | .cn _ _ _ it => some it.id
  | .ulo _ (some it) => some it.id
  | .ult r => some r
  | .rul r _ _ => some r
  | .wr _ r => some r
  | .wul r => some r
  | _ => none

/-- an `ins k` that has been issued and has not yet taken effect -/
def PendIns (th : Thread) (k : Nat) : Prop := (th.pc = .rd ∨ th.pc = .lt) ∧ ∃ i, th.op = .ins k i

/-- a `rem k` of an even key that has taken the item out and has not yet returned -/
def RmHold (th : Thread) (k : Nat) : Prop :=
  th.op = .rem k ∧ plainKey k = true ∧ ∃ r, th.pc.linRes = some r ∧ r ≠ 0

def OpOk : Op → Prop
  | .ins k _ => plainKey k = true
  | .foi k _ => plainKey k = false
  | _ => True

def NoIns : Op → Prop
  | .ins _ _ => False
  | _ => True

def HoldsTop (s : Store) (t k : Nat) : Prop := (s.bk s.top (s.hf k s.top)).lock = t + 1
def HoldsOld (s : Store) (t k hd : Nat) : Prop := (s.bk hd (s.hf k hd)).lock = t + 1

/-- structure of the tables -/
structure StructInv (s : Store) : Prop where
  nb0 : 1 ≤ s.nb0
  top : s.nb0 ≤ s.top
  hfr : ∀ k nb, s.hf k nb < 2 ^ nb
  nxt : ∀ T, Tin s T → (s.tab T).next < T ∧ ((s.tab T).next = 0 ∨ s.nb0 ≤ (s.tab T).next)
  len : ∀ T b, Tin s T → (s.bk T b).len = ((s.bk T b).items.length : Int)
  place : ∀ T b it, Tin s T → it ∈ (s.bk T b).items → b = s.hf it.key T
  skip : ∀ T T', Tin s T → (s.tab T).next < T' → T' < T → s.nb0 ≤ T' → EmptyT s T'
  nodup : ∀ T b, Tin s T → (s.bk T b).items.Nodup
  once : ∀ T T' b b' it, Tin s T → Tin s T' → it ∈ (s.bk T b).items → it ∈ (s.bk T' b').items → T = T'

/-- `used_buckets` of an older table = its non-empty buckets + the decrements on their way -/
def UsedInv (s : Store) (thr : List Thread) : Prop :=
  ∀ T, s.nb0 ≤ T → T < s.top → (s.tab T).used = ((s.usedCount T : Nat) : Int) + ((pendingDec thr T : Nat) : Int)

/-- the ghost map is what is stored plus what is being moved -/
structure AbsInv (s : Store) (thr : List Thread) : Prop where
  absIn : ∀ it, Stored s it → it ∈ s.abs
  absOut : ∀ it, it ∈ s.abs → Stored s it ∨ InFlight thr it
  absKeys : s.abs.Pairwise fun a b => a.key ≠ b.key

/-- read-write lock: a writer excludes everybody else -/
def Excl (thr : List Thread) : Prop :=
  ∀ (t t' : Nat) (th th' : Thread), thr[t]? = some th → thr[t']? = some th' → th.pc.isWriter = true →
    (th'.pc.isReader = true ∨ th'.pc.isWriter = true) → t = t'

/-- caller bookkeeping -/
structure UserInv (s : Store) (thr : List Thread) : Prop where
  uPlain : ∀ k, k ∈ s.kheld → plainKey k = true
  uAbs : ∀ it, it ∈ s.abs → plainKey it.key = true → it.key ∈ s.kheld
  uIns : ∀ (t : Nat) (th : Thread) (k : Nat), thr[t]? = some th → PendIns th k →
            k ∈ s.kheld ∧ (∀ it, it ∈ s.abs → it.key ≠ k) ∧
            ∀ (t' : Nat) (th' : Thread), thr[t']? = some th' → t' ≠ t → ¬ PendIns th' k ∧ ¬ RmHold th' k
  uRm : ∀ (t : Nat) (th : Thread) (k : Nat), thr[t]? = some th → RmHold th k →
            k ∈ s.kheld ∧ (∀ it, it ∈ s.abs → it.key ≠ k) ∧
            ∀ (t' : Nat) (th' : Thread), thr[t']? = some th' → t' ≠ t → ¬ RmHold th' k

structure SInv (s : Store) (thr : List Thread) : Prop where
  st : StructInv s
  used : UsedInv s thr
  ab : AbsInv s thr
  excl : Excl thr
  user : UserInv s thr

def TInv (s : Store) (t : Nat) (op : Op) : Pc → Prop
  | .idle => True
  | .rd => OpOk op
  | .lt => OpOk op
  | .nx cur => OpOk op ∧ NoIns op ∧ HoldsTop s t op.key ∧ s.nb0 ≤ cur ∧ cur ≤ s.top ∧ NotIn s op.key cur
  | .lo hd pv => OpOk op ∧ NoIns op ∧ HoldsTop s t op.key ∧ s.nb0 ≤ hd ∧ hd < pv ∧ pv ≤ s.top ∧ NotIn s op.key (hd + 1)
  | .du hd pv it => OpOk op ∧ NoIns op ∧ HoldsTop s t op.key ∧ HoldsOld s t op.key hd ∧ s.nb0 ≤ hd ∧ hd < pv ∧ pv ≤ s.top ∧
      it.key = op.key ∧ ¬ Stored s it ∧ (s.bk hd (s.hf op.key hd)).items = [] ∧ (op.mv = true → it ∈ s.abs)
  | .cn hd pv nv it => OpOk op ∧ NoIns op ∧ HoldsTop s t op.key ∧ HoldsOld s t op.key hd ∧ s.nb0 ≤ hd ∧ hd < pv ∧ pv ≤ s.top ∧
      it.key = op.key ∧ ¬ Stored s it ∧ (op.mv = true → it ∈ s.abs) ∧
      EmptyT s hd ∧ nv < hd ∧ (nv = 0 ∨ s.nb0 ≤ nv) ∧ (∀ T', nv < T' → T' < hd → s.nb0 ≤ T' → EmptyT s T')
  | .ulo hd r => OpOk op ∧ NoIns op ∧ HoldsTop s t op.key ∧ HoldsOld s t op.key hd ∧ s.nb0 ≤ hd ∧ hd < s.top ∧
      (r = none → NotIn s op.key hd)
  | .ult _ => HoldsTop s t op.key
  | .rul _ _ _ => True
  | .wr _ _ => True
  | .wul _ => True

structure Rely (t : Nat) (s s' : Store) : Prop where
  top : s'.top = s.top
  nb0 : s'.nb0 = s.nb0
  hf : s'.hf = s.hf
  lock : ∀ T b, (s.bk T b).lock = t + 1 → (s'.bk T b).lock = t + 1
  old : ∀ T b it, T < s.top → it ∈ (s'.bk T b).items → it ∈ (s.bk T b).items
  new : ∀ b it, it ∈ (s'.bk s.top b).items → it ∉ (s.bk s.top b).items →
          b = s.hf it.key s.top ∧ (s.bk s.top b).lock ≠ t + 1
  abs : ∀ it, it ∈ s.abs → it ∈ s'.abs ∨ Stored s it

theorem Rely.refl (t : Nat) (s : Store) : Rely t s s :=
  ⟨rfl, rfl, rfl, fun _ _ h => h, fun _ _ _ _ h => h, fun _ _ h h' => absurd h h', fun _ h => Or.inl h⟩

theorem Rely.keyIn {t : Nat} {s s' : Store} (r : Rely t s s') {k T : Nat} (hT : T ≤ s.top)
    (hk : HoldsTop s t k) (h : KeyIn s' k T) : KeyIn s k T := by
  obtain ⟨it, hit, hkey⟩ := h
  rw [r.hf] at hit
  refine ⟨it, ?_, hkey⟩
  rcases Nat.lt_or_ge T s.top with hlt | hge
  · exact r.old T _ it hlt hit
  · have hTe : T = s.top := Nat.le_antisymm hT hge
    subst hTe
    apply Classical.byContradiction
    intro hn
    exact (r.new _ it hit hn).2 hk

theorem Rely.notIn {t : Nat} {s s' : Store} (r : Rely t s s') {k lo : Nat}
    (hk : HoldsTop s t k) (h : NotIn s k lo) : NotIn s' k lo := by
  intro T h1 h2 h3
  rw [r.top] at h2
  exact h T h1 h2 (r.keyIn h2 hk h3)

theorem Rely.notStored {t : Nat} {s s' : Store} (r : Rely t s s') {it : Item}
    (hk : HoldsTop s t it.key) (h : ¬ Stored s it) : ¬ Stored s' it := by
  rintro ⟨T, b, ⟨h1, h2⟩, h3⟩
  rw [r.nb0] at h1
  rw [r.top] at h2
  rcases Nat.lt_or_ge T s.top with hlt | hge
  · exact h ⟨T, b, ⟨h1, h2⟩, r.old T b it hlt h3⟩
  · have hTe : T = s.top := Nat.le_antisymm h2 hge
    subst hTe
    by_cases hm : it ∈ (s.bk s.top b).items
    · exact h ⟨s.top, b, ⟨h1, h2⟩, hm⟩
    · obtain ⟨hb, hl⟩ := r.new b it h3 hm
      subst hb
      exact hl hk

theorem Rely.emptyT {t : Nat} {s s' : Store} (r : Rely t s s') {T : Nat} (hT : T < s.top)
    (h : EmptyT s T) : EmptyT s' T := by
  intro b
  apply List.eq_nil_iff_forall_not_mem.2
  intro it hit
  have := r.old T b it hT hit
  rw [h b] at this
  cases this

theorem Rely.itemsNil {t : Nat} {s s' : Store} (r : Rely t s s') {T b : Nat} (hT : T < s.top)
    (h : (s.bk T b).items = []) : (s'.bk T b).items = [] := by
  apply List.eq_nil_iff_forall_not_mem.2
  intro it hit
  have := r.old T b it hT hit
  rw [h] at this
  cases this

/-- what a reader knows survives the steps of the other threads -/
theorem TInv.stable {t : Nat} {s s' : Store} {op : Op} {pc : Pc}
    (r : pc.isReader = true → Rely t s s') (h : TInv s t op pc) : TInv s' t op pc := by
  cases pc with
  | idle => trivial
  | rd => exact h
  | lt => exact h
  | rul _ _ _ => trivial
  | wr _ _ => trivial
  | wul _ => trivial
  | ult _ =>
    have r := r rfl
    simp only [TInv, HoldsTop] at h ⊢
    rw [r.top, r.hf]; exact r.lock _ _ h
  | nx cur =>
    have r := r rfl
    obtain ⟨h1, h2, h3, h4, h5, h6⟩ := h
    refine ⟨h1, h2, ?_, by rw [r.nb0]; exact h4, by rw [r.top]; exact h5, r.notIn h3 h6⟩
    simp only [HoldsTop] at h3 ⊢
    rw [r.top, r.hf]; exact r.lock _ _ h3
  | lo hd pv =>
    have r := r rfl
    obtain ⟨h1, h2, h3, h4, h5, h6, h7⟩ := h
    refine ⟨h1, h2, ?_, by rw [r.nb0]; exact h4, h5, by rw [r.top]; exact h6, r.notIn h3 h7⟩
    simp only [HoldsTop] at h3 ⊢
    rw [r.top, r.hf]; exact r.lock _ _ h3
  | ulo hd x =>
    have r := r rfl
    obtain ⟨h1, h2, h3, h4, h5, h6, h7⟩ := h
    refine ⟨h1, h2, ?_, ?_, by rw [r.nb0]; exact h5, by rw [r.top]; exact h6, fun hx => r.notIn h3 (h7 hx)⟩
    · simp only [HoldsTop] at h3 ⊢
      rw [r.top, r.hf]; exact r.lock _ _ h3
    · simp only [HoldsOld] at h4 ⊢
      rw [r.hf]; exact r.lock _ _ h4
  | du hd pv it =>
    have r := r rfl
    obtain ⟨h1, h2, h3, h4, h5, h6, h7, h8, h9, h10, h11⟩ := h
    have hlt : hd < s.top := Nat.lt_of_lt_of_le h6 h7
    refine ⟨h1, h2, ?_, ?_, by rw [r.nb0]; exact h5, h6, by rw [r.top]; exact h7, h8, r.notStored (h8 ▸ h3) h9, ?_, ?_⟩
    · simp only [HoldsTop] at h3 ⊢
      rw [r.top, r.hf]; exact r.lock _ _ h3
    · simp only [HoldsOld] at h4 ⊢
      rw [r.hf]; exact r.lock _ _ h4
    · rw [r.hf]; exact r.itemsNil hlt h10
    · intro hm
      rcases r.abs it (h11 hm) with h | h
      · exact h
      · exact absurd h h9
  | cn hd pv nv it =>
    have r := r rfl
    obtain ⟨h1, h2, h3, h4, h5, h6, h7, h8, h9, h11, h12, h13, h14, h15⟩ := h
    have hlt : hd < s.top := Nat.lt_of_lt_of_le h6 h7
    refine ⟨h1, h2, ?_, ?_, by rw [r.nb0]; exact h5, h6, by rw [r.top]; exact h7, h8, r.notStored (h8 ▸ h3) h9, ?_,
      r.emptyT hlt h12, h13, by rw [r.nb0]; exact h14, ?_⟩
    · simp only [HoldsTop] at h3 ⊢
      rw [r.top, r.hf]; exact r.lock _ _ h3
    · simp only [HoldsOld] at h4 ⊢
      rw [r.hf]; exact r.lock _ _ h4
    · intro hm
      rcases r.abs it (h11 hm) with h | h
      · exact h
      · exact absurd h h9
    · intro T' a b c
      rw [r.nb0] at c
      exact r.emptyT (Nat.lt_trans b hlt) (h15 T' a b c)

end ParsecVerif.HashTable
