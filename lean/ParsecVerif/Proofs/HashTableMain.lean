/-
  The global inductive invariant of the hash-table model and its preservation by every micro step of
  every thread; every linearization record performs its operation of the sequential map.
-/
import ParsecVerif.Proofs.HashTableLin

namespace ParsecVerif.HashTable

/-! ## every step keeps the invariant -/

theorem stepPc_ok {s : Store} {thr : List Thread} {u now : Nat} {th : Thread} (hS : SInv s thr)
    (hAll : ∀ (t : Nat) (a : Thread), thr[t]? = some a → TInv s t a.op a.pc) (hu : thr[u]? = some th)
    (pc : Pc) (hpc : th.pc = pc) : StepOk s thr u (stepPc s thr u now th pc) := by
  have hT := hAll u th hu
  cases pc with
  | idle => exact stepOk_invoke hS hu hpc
  | rd => exact stepOk_rd hS hu hpc hT
  | lt => exact stepOk_lt hS hu hpc hT
  | nx cur => exact stepOk_nx hS hAll hu hpc hT
  | lo hd pv => exact stepOk_lo hS hu hpc hT
  | du hd pv it => exact stepOk_du hS hu hpc hT
  | cn hd pv nv it => exact stepOk_cn hS hu hpc hT
  | ulo hd r => exact stepOk_ulo hS hu hpc hT
  | ult r => exact stepOk_ult hS hu hpc hT
  | rul r rz ch => exact stepOk_rul hS hu hpc
  | wr ch r => exact stepOk_wr hS hu hpc hT
  | wul r =>
    exact stepOk_finish hS hu (by rw [hpc]; rfl) (not_pendIns_of_pc (by rw [hpc]; simp) (by rw [hpc]; simp))
      (fun T => by rw [hpc]; rfl) (by rw [hpc]; rfl)

/-! ## linearization points -/

theorem spec_op_found {σ : List Item} {it : Item} (op : Op) (hni : NoIns op) (hkey : it.key = op.key)
    (hl : lookup σ it.key = some it) : Spec.step σ op (op.res it.id) = some (if op.mv = true then σ else σ.erase it) := by
  cases op with
  | ins k i => exact hni.elim
  | find k =>
    simp only [Op.key] at hkey
    rw [hkey] at hl
    simp [Spec.step, Op.res, Op.mv, hl, idOf]
  | foi k i =>
    simp only [Op.key] at hkey
    rw [hkey] at hl
    simp [Spec.step, Op.res, Op.mv, hl]
  | rem k =>
    simp only [Op.key] at hkey
    rw [hkey] at hl
    simp [Spec.step, Op.res, Op.mv, hl]

theorem spec_find_absent {σ : List Item} {k : Nat} (hl : lookup σ k = none) : Spec.step σ (.find k) (.ptr 0) = some σ := by
  simp [Spec.step, hl, idOf]

theorem spec_rem_absent {σ : List Item} {k : Nat} (hl : lookup σ k = none) : Spec.step σ (.rem k) (.ptr 0) = some σ := by
  simp [Spec.step, hl]

theorem spec_foi_absent {σ : List Item} {k i : Nat} (hl : lookup σ k = none) :
    Spec.step σ (.foi k i) (.ptr i) = some (⟨k, i⟩ :: σ) := by
  simp [Spec.step, hl]

theorem spec_ins_absent {σ : List Item} {k i : Nat} (hl : lookup σ k = none) :
    Spec.step σ (.ins k i) .unit = some (⟨k, i⟩ :: σ) := by
  simp [Spec.step, hl]

theorem spec_none {σ : List Item} {o : Out} (h1 : o.lin = none) (h2 : o.m.abs = σ) :
    (∀ l, o.lin = some l → Spec.step σ l.op l.res = some o.m.abs) ∧ (o.lin = none → o.m.abs = σ) :=
  ⟨fun l h => (by rw [h1] at h; cases h), fun _ => h2⟩

theorem spec_some {σ : List Item} {o : Out} {l : LinRec} (h1 : o.lin = some l) (h2 : Spec.step σ l.op l.res = some o.m.abs) :
    (∀ l, o.lin = some l → Spec.step σ l.op l.res = some o.m.abs) ∧ (o.lin = none → o.m.abs = σ) :=
  ⟨fun l' h => (by rw [h1] at h; cases h; exact h2), fun h => (by rw [h1] at h; cases h)⟩

/-- a step with a linearization record performs that operation of the sequential map on the ghost
    map; a step without one leaves the ghost map unchanged -/
theorem stepPc_spec {s : Store} {thr : List Thread} {u now : Nat} {th : Thread} (hS : SInv s thr)
    (hAll : ∀ (t : Nat) (a : Thread), thr[t]? = some a → TInv s t a.op a.pc) (hu : thr[u]? = some th)
    (pc : Pc) (hpc : th.pc = pc) :
    (∀ l, (stepPc s thr u now th pc).lin = some l → Spec.step s.abs l.op l.res = some (stepPc s thr u now th pc).m.abs) ∧
    ((stepPc s thr u now th pc).lin = none → (stepPc s thr u now th pc).m.abs = s.abs) := by
  have hT := hAll u th hu
  rw [hpc] at hT
  cases pc with
  | idle =>
    simp only [stepPc]; unfold invoke
    split
    · exact spec_none rfl rfl
    · split
      · exact spec_none rfl (abs_acquire _ _)
      · exact spec_some rfl (Spec.step_rejected _ _)
  | rd =>
    simp only [stepPc]; unfold stepRd
    split <;> exact spec_none rfl rfl
  | lt =>
    simp only [stepPc]; unfold stepLt
    split
    · have hitems : ((s.setLock s.top (tbk s th) (u + 1)).bk (s.setLock s.top (tbk s th) (u + 1)).top (tbk s th)).items =
          (s.bk s.top (tbk s th)).items := items_setLock _ _ _ _ _ _
      have hTin : Tin s s.top := ⟨hS.st.top, Nat.le_refl _⟩
      cases hop : th.op with
      | ins k i =>
        simp only [ltBody]
        refine spec_some rfl ?_
        show Spec.step s.abs th.op (th.op.res 0) = some (⟨k, i⟩ :: s.abs)
        rw [hop]
        have hp : PendIns th k := ⟨Or.inr hpc, i, hop⟩
        exact spec_ins_absent (lookup_none_of_not_mem (hS.user.uIns u th k hu hp).2.1)
      | find k =>
        simp only [ltBody]
        rw [hitems]
        split
        · rename_i it hsc
          have hf := scan_some hsc
          have hb : tbk s th = s.hf k s.top := by unfold tbk; rw [hop]; rfl
          rw [hb] at hf
          have hl := lookup_of_stored hS hTin hf.1
          refine spec_some rfl ?_
          show Spec.step s.abs th.op (th.op.res it.id) = some s.abs
          rw [hop]
          exact spec_op_found (σ := s.abs) (it := it) (.find k) trivial hf.2 hl
        · exact spec_none rfl rfl
      | foi k i =>
        simp only [ltBody]
        rw [hitems]
        split
        · rename_i it hsc
          have hf := scan_some hsc
          have hb : tbk s th = s.hf k s.top := by unfold tbk; rw [hop]; rfl
          rw [hb] at hf
          have hl := lookup_of_stored hS hTin hf.1
          refine spec_some rfl ?_
          show Spec.step s.abs th.op (th.op.res it.id) = some s.abs
          rw [hop]
          exact spec_op_found (σ := s.abs) (it := it) (.foi k i) trivial hf.2 hl
        · exact spec_none rfl rfl
      | rem k =>
        simp only [ltBody]
        rw [hitems]
        split
        · rename_i it hsc
          have hf := scan_some hsc
          have hb : tbk s th = s.hf k s.top := by unfold tbk; rw [hop]; rfl
          rw [hb] at hf
          have hl := lookup_of_stored hS hTin hf.1
          refine spec_some rfl ?_
          show Spec.step s.abs th.op (th.op.res it.id) = some (s.abs.erase it)
          rw [hop]
          exact spec_op_found (σ := s.abs) (it := it) (.rem k) trivial hf.2 hl
        · exact spec_none rfl rfl
    · exact spec_none rfl rfl
  | nx cur =>
    obtain ⟨h1, h2, h3, h4, h5, h6⟩ := hT
    simp only [stepPc]; unfold stepNx
    split
    · rename_i hz
      have hcur : Tin s cur := ⟨h4, h5⟩
      have hall : ∀ T, Tin s T → ¬ KeyIn s th.op.key T := by
        intro T hT
        rcases Nat.lt_or_ge T cur with hlt | hge
        · intro hk
          obtain ⟨y, hy, _⟩ := hk
          have := hS.st.skip cur T hcur (by rw [hz]; have := hT.1; have := hS.st.nb0; omega) hlt hT.1 (s.hf th.op.key T)
          rw [this] at hy; cases hy
        · exact h6 T hge hT.2
      have habs := lookup_none_of_not_mem (key_absent hS hAll hu (by rw [hpc]; rfl) h3 hall)
      cases hop : th.op with
      | ins k i => rw [hop] at h2; exact h2.elim
      | find k =>
        simp only
        refine spec_some rfl ?_
        show Spec.step s.abs th.op (th.op.res 0) = some s.abs
        rw [hop] at habs ⊢
        exact spec_find_absent habs
      | rem k =>
        simp only
        refine spec_some rfl ?_
        show Spec.step s.abs th.op (th.op.res 0) = some s.abs
        rw [hop] at habs ⊢
        exact spec_rem_absent habs
      | foi k i =>
        simp only
        refine spec_some rfl ?_
        show Spec.step s.abs th.op (th.op.res i) = some (⟨k, i⟩ :: s.abs)
        rw [hop] at habs ⊢
        exact spec_foi_absent habs
    · exact spec_none rfl rfl
  | lo hd pv =>
    obtain ⟨h1, h2, h3, h4, h5, h6, h7⟩ := hT
    simp only [stepPc]; unfold stepLo
    split
    · split
      · exact spec_none rfl rfl
      · rename_i it hsc
        have hf := scan_some hsc
        have hTin : Tin s hd := ⟨h4, by omega⟩
        have hl := lookup_of_stored hS hTin hf.1
        have hsp := spec_op_found (σ := s.abs) (it := it) th.op h2 hf.2 hl
        have habs : (absAfterFound ((s.setLock hd (s.hf th.op.key hd) (u + 1)).eraseIt hd (s.hf th.op.key hd) it) th it).abs =
            if th.op.mv = true then s.abs else s.abs.erase it := by
          unfold absAfterFound; split <;> rfl
        unfold loFound
        split
        · refine spec_some rfl ?_
          show Spec.step s.abs th.op (th.op.res it.id) = some (absAfterFound _ th it).abs
          rw [habs]; exact hsp
        · refine spec_some rfl ?_
          show Spec.step s.abs th.op (th.op.res it.id) = some (mvInsert (absAfterFound _ th it) th it).abs
          rw [abs_mvInsert, habs]; exact hsp
    · exact spec_none rfl rfl
  | du hd pv it =>
    simp only [stepPc]; unfold stepDu
    split
    · exact spec_none rfl rfl
    · exact spec_none rfl (abs_mvInsert _ _ _)
  | cn hd pv nv it =>
    simp only [stepPc]; unfold stepCn
    refine spec_none rfl ?_
    show (mvInsert _ th it).abs = s.abs
    rw [abs_mvInsert]; split <;> rfl
  | ulo hd r =>
    simp only [stepPc]; unfold stepUlo
    exact spec_none rfl rfl
  | ult r =>
    simp only [stepPc]; unfold stepUlt
    exact spec_none rfl rfl
  | rul r rz ch =>
    simp only [stepPc]; unfold stepRul
    split
    · exact spec_none rfl rfl
    · exact spec_none rfl (abs_release _ _ _)
  | wr ch r =>
    simp only [stepPc]; unfold stepWr
    split
    · exact spec_none rfl rfl
    · refine spec_none rfl ?_
      show (if ch = s.top then s.resize else s).abs = s.abs
      split <;> rfl
  | wul r =>
    simp only [stepPc]
    exact spec_none rfl (abs_release _ _ _)

/-! ## the global invariant -/

structure ThOk (c : Config) (s : State) (t : Nat) (th : Thread) : Prop where
  tinv : TInv s.m t th.op th.pc
  time : TimeOk t s.time th
  lins : s.lins.filter (fun l => l.tid == t) = linsOf t th
  prog : ProgOk (c.progs.getD t []) th

structure Inv (c : Config) (s : State) : Prop where
  g : SInv s.m s.thr
  th : ∀ t th, s.thr[t]? = some th → ThOk c s t th
  len : s.thr.length = c.progs.length
  sorted : s.lins.Pairwise (fun a b => a.tLin < b.tLin)
  bound : ∀ l ∈ s.lins, l.tLin < s.time
  stamp : ∀ l ∈ s.lins, l.tInv ≤ l.tLin
  spec : Spec.replay [] (s.lins.map LinRec.ev) = some s.m.abs

theorem Inv.init (c : Config) (hc : c.WF) : Inv c (init c) := by
  have hth : ∀ (t : Nat) (th : Thread), (HashTable.init c).thr[t]? = some th →
      ∃ p, c.progs[t]? = some p ∧ th = ⟨.idle, .find 0, p, [], 0, 0⟩ := by
    intro t th h
    simp only [HashTable.init, List.getElem?_map] at h
    cases hp : c.progs[t]? with
    | none => rw [hp] at h; cases h
    | some p => rw [hp] at h; cases h; exact ⟨p, rfl, rfl⟩
  have hidle : ∀ (t : Nat) (th : Thread), (HashTable.init c).thr[t]? = some th → th.pc = .idle := by
    intro t th h; obtain ⟨p, _, e⟩ := hth t th h; rw [e]
  refine ⟨⟨⟨hc.1, Nat.le_refl _, hc.2, ?_, ?_, ?_, ?_, ?_, ?_⟩, ?_, ⟨?_, ?_, ?_⟩, ?_, ⟨?_, ?_, ?_, ?_⟩⟩, ?_,
    by simp [HashTable.init], by simp [HashTable.init], by simp [HashTable.init], by simp [HashTable.init],
    by simp [HashTable.init, Spec.replay]⟩
  · intro T hT
    have : T = c.nb0 := Nat.le_antisymm hT.2 hT.1
    show (blankTable).next < T ∧ _
    rw [this]
    exact ⟨hc.1, Or.inl rfl⟩
  · intro T b _; rfl
  · intro T b it _ hit; cases hit
  · intro T T' hT _ h2 h3
    have : T ≤ c.nb0 := hT.2
    have : c.nb0 ≤ T' := h3
    omega
  · intro T b _; exact List.nodup_nil
  · intro T T' b b' it _ _ hit; cases hit
  · intro T h1 h2
    have : c.nb0 ≤ T := h1
    have : T < c.nb0 := h2
    omega
  · rintro it ⟨T, b, _, hit⟩; cases hit
  · intro it hit; cases hit
  · exact List.Pairwise.nil
  · intro t t' th th' h1 _ hw
    rw [hidle t th h1] at hw; cases hw
  · intro k hk; cases hk
  · intro it hit; cases hit
  · intro t th k h hp
    rcases hp.1 with e | e <;> rw [hidle t th h] at e <;> cases e
  · intro t th k h hp
    obtain ⟨_, _, r, hr, _⟩ := hp
    rw [hidle t th h] at hr; cases hr
  · intro t th h
    obtain ⟨p, hp, e⟩ := hth t th h
    subst e
    refine ⟨trivial, ⟨by simp, by simp, by simp [pending, Pc.linRes]⟩, by simp [HashTable.init, linsOf, pending, Pc.linRes], ?_⟩
    simp [ProgOk, running, List.getD, hp]

/-- everything one needs to know about a micro step of thread `t` -/
theorem stepTh_facts (c : Config) (s : State) (t : Nat) (th : Thread) (h : Inv c s) (ht : s.thr[t]? = some th) :
    StepOk s.m s.thr t (stepTh s t th) ∧
    (∀ l, (stepTh s t th).lin = some l → Spec.step s.m.abs l.op l.res = some (stepTh s t th).m.abs) ∧
    ((stepTh s t th).lin = none → (stepTh s t th).m.abs = s.m.abs) ∧
    linsOf t (stepTh s t th).th = linsOf t th ++ (stepTh s t th).lin.toList ∧
    TimeOk t (s.time + 1) (stepTh s t th).th ∧
    (∀ l, (stepTh s t th).lin = some l → l.tInv ≤ l.tLin ∧ l.tid = t ∧ l.tLin = s.time) ∧
    ProgOk (c.progs.getD t []) (stepTh s t th).th := by
  have hAll : ∀ (t' : Nat) (a : Thread), s.thr[t']? = some a → TInv s.m t' a.op a.pc := fun t' a ha => (h.th t' a ha).tinv
  have hsh := stepPc_shape s.m s.thr t s.time th th.pc rfl
  have hsp := stepPc_spec (now := s.time) h.g hAll ht th.pc rfl
  have hk := h.th t th ht
  exact ⟨stepPc_ok h.g hAll ht th.pc rfl, hsp.1, hsp.2, shape_lins hsh, shape_time hsh hk.time, shape_lin_stamp hsh hk.time,
    shape_prog hsh _ hk.prog⟩

theorem Inv.step {c : Config} {s : State} (h : Inv c s) (t : Nat) : Inv c (step s t) := by
  unfold HashTable.step
  cases hth : s.thr[t]? with
  | none => exact h
  | some th =>
    simp only
    have ht := h.th t th hth
    obtain ⟨f1, f4, f5, f6, f7, f9, f8⟩ := stepTh_facts c s t th h hth
    generalize stepTh s t th = o at *
    have htlt : t < s.thr.length := lt_of_get hth
    have hfilt : ∀ u, (o.lin.toList).filter (fun l => l.tid == u) = if u = t then o.lin.toList else [] := by
      intro u
      cases hl : o.lin with
      | none => simp
      | some l =>
        have := (f9 l hl).2.1
        by_cases hu : u = t
        · simp [hu, this]
        · simp only [Option.toList_some, hu, ite_false]
          simp only [List.filter_cons, List.filter_nil, this]
          have : (t == u) = false := by simp; exact fun h => hu h.symm
          simp [this]
    have hspec : Spec.replay [] ((s.lins ++ o.lin.toList).map LinRec.ev) = some o.m.abs := by
      cases hl : o.lin with
      | none => simp only [Option.toList_none, List.append_nil]; rw [f5 hl]; exact h.spec
      | some l =>
        simp only [Option.toList_some, List.map_append, List.map_cons, List.map_nil]
        rw [Spec.replay_append, h.spec]
        exact f4 l hl
    refine ⟨f1.sinv, ?_, by simp [h.len], ?_, ?_, ?_, hspec⟩
    · intro u thu hu
      rw [List.getElem?_set] at hu
      by_cases hut : t = u
      · subst hut
        simp only [htlt, ite_true] at hu
        cases hu
        refine ⟨f1.tinv, f7, ?_, f8⟩
        simp only [List.filter_append, hfilt, ite_true]
        rw [ht.lins, f6]
      · simp only [hut, ite_false] at hu
        have hu' := h.th u thu hu
        have hne : u ≠ t := fun h => hut h.symm
        refine ⟨hu'.tinv.stable (fun hr => f1.rely u hne thu hu hr), hu'.time.mono, ?_, hu'.prog⟩
        simp only [List.filter_append, hfilt, if_neg hne, List.append_nil]
        exact hu'.lins
    · rw [List.pairwise_append]
      refine ⟨h.sorted, ?_, ?_⟩
      · cases o.lin <;> simp
      · intro a ha b hb
        cases hl : o.lin with
        | none => rw [hl] at hb; simp at hb
        | some l =>
          rw [hl] at hb; simp only [Option.toList_some, List.mem_singleton] at hb
          subst hb
          rw [(f9 b hl).2.2]; exact h.bound a ha
    · intro l hl
      rcases List.mem_append.1 hl with hl | hl
      · have := h.bound l hl; simp only; omega
      · cases hlin : o.lin with
        | none => rw [hlin] at hl; simp at hl
        | some l' =>
          rw [hlin] at hl; simp only [Option.toList_some, List.mem_singleton] at hl
          subst hl
          rw [(f9 l hlin).2.2]; exact Nat.lt_succ_self _
    · intro l hl
      rcases List.mem_append.1 hl with hl | hl
      · exact h.stamp l hl
      · cases hlin : o.lin with
        | none => rw [hlin] at hl; simp at hl
        | some l' =>
          rw [hlin] at hl; simp only [Option.toList_some, List.mem_singleton] at hl
          subst hl
          exact (f9 l hlin).1

theorem Inv.run (c : Config) (hc : c.WF) (sched : List Nat) : Inv c (run c sched) := by
  unfold HashTable.run
  suffices ∀ s, Inv c s → Inv c (sched.foldl HashTable.step s) from this _ (Inv.init c hc)
  induction sched with
  | nil => intro s h; exact h
  | cons t r ih => intro s h; exact ih _ (h.step t)

/-! ## order in a list sorted by time stamp -/

/-- `a` occurs strictly before `b` in `S` -/
def Before (S : List LinRec) (a b : LinRec) : Prop := ∃ l1 l2 l3, S = l1 ++ a :: l2 ++ b :: l3

theorem before_of_sorted {S : List LinRec} (hs : S.Pairwise (fun a b => a.tLin < b.tLin)) {a b : LinRec}
    (ha : a ∈ S) (hb : b ∈ S) (hab : a.tLin < b.tLin) : Before S a b := by
  induction S with
  | nil => cases ha
  | cons x xs ih =>
    rw [List.pairwise_cons] at hs
    rcases List.mem_cons.1 ha with ha' | ha'
    · subst ha'
      rcases List.mem_cons.1 hb with hb | hb
      · subst hb; omega
      · obtain ⟨l2, l3, h⟩ := List.append_of_mem hb
        exact ⟨[], l2, l3, by simp [h]⟩
    · rcases List.mem_cons.1 hb with hb | hb
      · subst hb; have := hs.1 a ha'; omega
      · obtain ⟨l1, l2, l3, h⟩ := ih hs.2 ha' hb
        exact ⟨x :: l1, l2, l3, by simp [h]⟩

end ParsecVerif.HashTable
