import ParsecVerif.Proofs.FourCounterP4
/-
  Preservation of `Hist` (the counting argument) by control-only changes and by the application.
-/
namespace ParsecVerif.FourCounter

theorem transit_eq {s s' : State} (hn : s'.n = s.n) (ho : ∀ q, (s'.procs q).opn = (s.procs q).opn)
    (ha : cnt isApp s'.net = cnt isApp s.net) : transit s' = transit s := by
  unfold transit
  rw [appCount_eq_cnt, appCount_eq_cnt, ha, hn, sumTo_congr (fun q _ => ho q)]

/-- changes of the protocol fields and of control messages only -/
theorem Hist.ctl {s s' : State} (h : Hist s)
    (hn : s'.n = s.n) (hg : s'.gh = s.gh) (hst : s'.started = s.started) (htr : s'.trT = s.trT)
    (hms : ∀ q, (s'.procs q).ms = (s.procs q).ms) (hmr : ∀ q, (s'.procs q).mr = (s.procs q).mr)
    (hwl : ∀ q, (s'.procs q).wl = (s.procs q).wl) (ho : ∀ q, (s'.procs q).opn = (s.procs q).opn)
    (hbp : ∀ q, (s'.procs q).st = .busyWP → (s.procs q).st = .busyWP)
    (hnr : ∀ q, cls (s'.procs q).st = 0 → cls (s.procs q).st = 0)
    (ha : cnt isApp s'.net = cnt isApp s.net) : Hist s' := by
  have htz := transit_eq hn ho ha
  refine ⟨?_, ?_, ?_, ?_, ?_, ?_, ?_, ?_, ?_, ?_⟩
  · intro q hq; rw [hg, hms]; exact h.h1S q (hn ▸ hq)
  · intro q hq; rw [hg, hmr]; exact h.h1R q (hn ▸ hq)
  · rw [hn, hg, htr]; exact h.h2
  · intro hs q hq; rw [hg, htr]; exact h.h3 (hst ▸ hs) q (hn ▸ hq)
  · intro hs ht ha'
    rw [hst] at hs; rw [htr] at ht; rw [hn, hg] at ha'
    have := h.h4 hs ht ha'
    unfold Quiet at this ⊢
    rw [hn, hg, ha]
    refine ⟨fun q hq => ?_, this.2⟩
    rw [hwl, ho, hms, hmr]; exact this.1 q hq
  · intro q hq hc hw
    rw [hg, hst] at hc; rw [hwl] at hw; rw [hg, hmr, ho]
    exact h.h5 q (hn ▸ hq) hc hw
  · rw [hn, htz, sumTo_congr (fun q _ => hms q), sumTo_congr (fun q _ => hmr q)]; exact h.h6
  · intro q hq hb
    rw [hwl, ho, hg, hmr]; exact h.h8 q (hn ▸ hq) (hbp q hb)
  · intro hle; rw [htz]; exact h.s1 (hn ▸ hle)
  · intro hs q hq hc
    exact h.nr (hst ▸ hs) q (hn ▸ hq) (hnr q hc)

/-- in a quiet state no process has work, a message being processed, or an application message to receive -/
theorem Hist.quiet_of {s : State} (h : Hist s) (hs : s.started = true) (ht : s.trT = 0)
    (ha : ∀ q, q < s.n → (s.gh q).actT = false) : Quiet s := h.h4 hs ht ha

/-- the application changes the workload of `p` (and the monitor follows with a busy/idle flip) -/
theorem Hist.work {s : State} (h : Hist s) (hS : Struct s) {p : Nat} (hp : p < s.n) {v : Proc}
    (hms : v.ms = (s.procs p).ms) (hmr : v.mr = (s.procs p).mr) (ho : v.opn = (s.procs p).opn)
    (hc : cls v.st = cls (s.procs p).st)
    (hmay : mayWork (s.procs p) v.wl)
    (h8 : v.st = .busyWP → 0 < v.wl ∨ 0 < v.opn ∨ (s.gh p).curR < v.mr) : Hist (setP s p v) := by
  have hpq : ∀ q, q ≠ p → (setP s p v).procs q = s.procs q := by intro q e; simp [setP, e]
  have hpp : (setP s p v).procs p = v := by simp [setP]
  have hmsq : ∀ q, ((setP s p v).procs q).ms = (s.procs q).ms := by
    intro q; by_cases e : q = p
    · subst e; rw [hpp, hms]
    · rw [hpq q e]
  have hmrq : ∀ q, ((setP s p v).procs q).mr = (s.procs q).mr := by
    intro q; by_cases e : q = p
    · subst e; rw [hpp, hmr]
    · rw [hpq q e]
  have hoq : ∀ q, ((setP s p v).procs q).opn = (s.procs q).opn := by
    intro q; by_cases e : q = p
    · subst e; rw [hpp, ho]
    · rw [hpq q e]
  have htz : transit (setP s p v) = transit s := transit_eq rfl hoq rfl
  refine ⟨?_, ?_, ?_, ?_, ?_, ?_, ?_, ?_, ?_, ?_⟩
  · intro q hq; rw [hmsq]; exact h.h1S q hq
  · intro q hq; rw [hmrq]; exact h.h1R q hq
  · exact h.h2
  · exact h.h3
  · intro hs ht ha
    have hq := h.h4 hs ht ha
    unfold Quiet at hq ⊢
    refine ⟨fun q hq' => ?_, hq.2⟩
    rw [hoq, hmsq, hmrq]
    by_cases e : q = p
    · subst e
      have := hq.1 q hp
      refine ⟨?_, this.2⟩
      rw [hpp]
      have hnr := h.nr hs q hp
      unfold mayWork at hmay
      by_cases hv : v.wl = 0
      · exact hv
      · rcases hmay this.1 (by omega) with e1 | e1
        · rw [e1] at hnr; simp [cls] at hnr
        · omega
    · rw [hpq q e]; exact hq.1 q hq'
  · intro q hq hcq hw
    rw [hmrq, hoq]
    by_cases e : q = p
    · subst e
      rw [hpp] at hw
      by_cases hw0 : 0 < (s.procs q).wl
      · exact h.h5 q hq hcq hw0
      · rcases hmay (by omega) hw with e1 | e1
        · exfalso
          rcases hcq with hcq | hcq
          · have := hS.cls_of_c hq hcq; rw [e1] at this; simp [cls] at this
          · have := h.nr hcq q hq; rw [e1] at this; simp [cls] at this
        · exact Or.inr e1
    · rw [hpq q e] at hw; exact h.h5 q hq hcq hw
  · show sumTo s.n _ = sumTo s.n _ + _
    rw [htz, sumTo_congr (fun q _ => hmsq q), sumTo_congr (fun q _ => hmrq q)]; exact h.h6
  · intro q hq hb
    by_cases e : q = p
    · subst e; rw [hpp] at hb ⊢; exact h8 hb
    · rw [hpq q e] at hb ⊢; exact h.h8 q hq hb
  · intro hle; rw [htz]; exact h.s1 hle
  · intro hs q hq
    by_cases e : q = p
    · subst e; rw [hpp, hc]; exact h.nr hs q hq
    · rw [hpq q e]; exact h.nr hs q hq

end ParsecVerif.FourCounter
