import ParsecVerif.Proofs.FourCounterI1
/-
  The full invariant is preserved by taskpool_ready and by the delivery of a control message.
-/
namespace ParsecVerif.FourCounter

theorem st_of_fin {s : State} (h : Fin s) (ht : (s.procs 0).st = .term) {q : Nat} (hq : q < s.n) :
    cls (s.procs q).st = 2 ∨ cls (s.procs q).st = 3 := by
  rcases ((h.q ht).1 q hq).2.2 with t | t <;> rw [t] <;> simp [cls]

theorem Inv.ready {s : State} (h : Inv s) {p : Nat} (hp : p < s.n) (hnr : (s.procs p).st = .notReady) :
    Inv (pReady s p) := by
  have hne : ∀ q, q ≠ p → (pReady s p).procs q = s.procs q := by intro q e; simp [pReady, setP, e]
  have hpp : (pReady s p).procs p = { s.procs p with ncl := nbChildren s.n p, st := .busyWC } := by
    simp [pReady, setP]
  have hnot : (s.procs 0).st ≠ .term := by
    intro ht
    rcases st_of_fin h.fi ht hp with t | t <;> rw [hnr] at t <;> simp [cls] at t
  refine ⟨h.st.ready hp hnr, ?_, ?_, ?_⟩
  · apply h.hi.ctl (s' := pReady s p) rfl rfl rfl rfl
    · intro q; by_cases e : q = p
      · subst e; rw [hpp]
      · rw [hne q e]
    · intro q; by_cases e : q = p
      · subst e; rw [hpp]
      · rw [hne q e]
    · intro q; by_cases e : q = p
      · subst e; rw [hpp]; rfl
      · rw [hne q e]
    · intro q; by_cases e : q = p
      · subst e; rw [hpp]
      · rw [hne q e]
    · intro q; by_cases e : q = p
      · subst e; rw [hpp]; intro hh; cases hh
      · rw [hne q e]; exact id
    · intro q; by_cases e : q = p
      · subst e; rw [hpp]; intro hh; simp [cls] at hh
      · rw [hne q e]; exact id
    · rfl
  · intro ht
    exfalso
    by_cases e : 0 = p
    · subst e; rw [hpp] at ht; cases ht
    · rw [hne 0 e] at ht; exact hnot ht
  · intro q hq
    by_cases e : q = p
    · subst e; rw [hpp]
      have := h.fi.cb q hq; rw [hnr] at this; simpa using this
    · rw [hne q e]; exact h.fi.cb q hq

theorem Inv.hold {s : State} (h : Inv s) {k : Nat} {pk : Packet} (hk : s.net[k]? = some pk) :
    Inv (pHold s k pk) := by
  have ha : cnt isApp (pHold s k pk).net = cnt isApp s.net := cnt_hold _ hk (isApp_held pk)
  refine ⟨h.st.hold hk, ?_, ?_, h.fi.cb⟩
  · exact h.hi.ctl (s' := pHold s k pk) rfl rfl rfl rfl (fun _ => rfl) (fun _ => rfl) (fun _ => rfl)
      (fun _ => rfl) (fun _ => id) (fun _ => id) ha
  · intro ht
    have := h.fi.q ht
    exact ⟨this.1, by rw [ha]; exact this.2⟩

theorem Inv.msgUp {s : State} (h : Inv s) {k : Nat} {pk : Packet} {a b : Nat}
    (hk : s.net[k]? = some pk) (hkind : pk.kind = .up a b) (hr : (s.procs pk.dst).st ≠ .notReady) :
    Inv (msgUp { s with net := s.net.eraseIdx k } pk.dst a b) := by
  have hr' : cls (s.procs pk.dst).st ≠ 0 := fun e => hr (cls_eq_0.1 e)
  obtain ⟨hS, h1, _, hrn⟩ := h.st.absorb hk hkind hr'
  have hne : ∀ q, q ≠ pk.dst → (pAbsorb s k pk.dst a b).procs q = s.procs q := by
    intro q e; simp [pAbsorb, setP, e]
  have hpp : (pAbsorb s k pk.dst a b).procs pk.dst =
      { s.procs pk.dst with accR := (s.procs pk.dst).accR + b, accS := (s.procs pk.dst).accS + a,
                            ncl := (s.procs pk.dst).ncl - 1 } := by simp [pAbsorb, setP]
  have hst : ∀ q, ((pAbsorb s k pk.dst a b).procs q).st = (s.procs q).st := by
    intro q; by_cases e : q = pk.dst
    · rw [e, hpp]
    · rw [hne q e]
  have ha : cnt isApp (pAbsorb s k pk.dst a b).net = cnt isApp s.net := by
    have := cnt_eraseIdx isApp hk
    have e : isApp pk = false := by simp [isApp, hkind]
    rw [e] at this; simpa [pAbsorb, setP] using this
  have hnot : (s.procs 0).st ≠ .term := by
    intro ht
    rcases st_of_fin h.fi ht hrn with t | t <;> omega
  have hI : Inv (pAbsorb s k pk.dst a b) := by
    refine ⟨hS, ?_, ?_, ?_⟩
    · apply h.hi.ctl (s' := pAbsorb s k pk.dst a b) rfl rfl rfl rfl
      · intro q; by_cases e : q = pk.dst
        · rw [e, hpp]
        · rw [hne q e]
      · intro q; by_cases e : q = pk.dst
        · rw [e, hpp]
        · rw [hne q e]
      · intro q; by_cases e : q = pk.dst
        · rw [e, hpp]; rfl
        · rw [hne q e]
      · intro q; by_cases e : q = pk.dst
        · rw [e, hpp]
        · rw [hne q e]
      · intro q; rw [hst]; exact id
      · intro q; rw [hst]; exact id
      · exact ha
    · intro ht; rw [hst] at ht; exact absurd ht hnot
    · intro q hq
      rw [hst]
      by_cases e : q = pk.dst
      · rw [e, hpp]; exact h.fi.cb pk.dst hrn
      · rw [hne q e]; exact h.fi.cb q hq
  exact hI.checkMsg hrn

theorem Inv.msgDown {s : State} (h : Inv s) {k : Nat} {pk : Packet} {res : Bool}
    (hk : s.net[k]? = some pk) (hkind : pk.kind = .down res) (hr : (s.procs pk.dst).st ≠ .notReady) :
    Inv (msgDown { s with net := s.net.eraseIdx k } pk.dst res) := by
  have hr' : cls (s.procs pk.dst).st ≠ 0 := fun e => hr (cls_eq_0.1 e)
  cases res with
  | true =>
    have hv : ∀ v : Proc, v = { s.procs pk.dst with st := .term, cbs := (s.procs pk.dst).cbs + 1 } →
        Inv (pDown s k pk.dst true v) := by
      intro v hv
      obtain ⟨hS, a2, r3, h0, hme⟩ := h.st.downT (v := v) hk hkind (by rw [hv]; rfl) (by rw [hv]) (by rw [hv])
      have ht : (s.procs 0).st = .term := cls_eq_3.1 r3
      have hfin := h.fi.q ht
      have hne : ∀ q, q ≠ pk.dst → (pDown s k pk.dst true v).procs q = s.procs q := by
        intro q e; simp [pDown, setP, push, e]
      have hpp : (pDown s k pk.dst true v).procs pk.dst = v := by simp [pDown, setP, push]
      have ha := pDown_app (me := pk.dst) (v := v) hk hkind
      have hip : (s.procs pk.dst).st = .idleWP := by
        rcases (hfin.1 pk.dst hme).2.2 with t | t
        · exact t
        · rw [t] at a2; simp [cls] at a2
      refine ⟨hS, ?_, ?_, ?_⟩
      · apply h.hi.ctl (s' := pDown s k pk.dst true v) rfl rfl rfl rfl
        · intro q; by_cases e : q = pk.dst
          · rw [e, hpp, hv]
          · rw [hne q e]
        · intro q; by_cases e : q = pk.dst
          · rw [e, hpp, hv]
          · rw [hne q e]
        · intro q; by_cases e : q = pk.dst
          · rw [e, hpp, hv]; rfl
          · rw [hne q e]
        · intro q; by_cases e : q = pk.dst
          · rw [e, hpp, hv]
          · rw [hne q e]
        · intro q; by_cases e : q = pk.dst
          · rw [e, hpp, hv]; intro hh; cases hh
          · rw [hne q e]; exact id
        · intro q; by_cases e : q = pk.dst
          · rw [e, hpp, hv]; intro hh; simp [cls] at hh
          · rw [hne q e]; exact id
        · exact ha
      · intro _
        refine ⟨fun q hq => ?_, by rw [ha]; exact hfin.2⟩
        by_cases e : q = pk.dst
        · rw [e, hpp, hv]
          have := hfin.1 pk.dst hme
          exact ⟨this.1, this.2.1, Or.inr rfl⟩
        · rw [hne q e]; exact hfin.1 q hq
      · intro q hq
        by_cases e : q = pk.dst
        · rw [e, hpp, hv]
          have := h.fi.cb pk.dst hme
          rw [hip] at this; simp at this; simp [this]
        · rw [hne q e]; exact h.fi.cb q hq
    exact hv _ rfl
  | false =>
    have hv : ∀ v : Proc, cls v.st = 1 → v.accS = 0 → v.accR = 0 → v.ncl = (s.procs pk.dst).ncl →
        v.ms = (s.procs pk.dst).ms → v.mr = (s.procs pk.dst).mr → v.wl = (s.procs pk.dst).wl →
        v.opn = (s.procs pk.dst).opn → v.cbs = (s.procs pk.dst).cbs →
        Inv (pDown s k pk.dst false v) ∧ pk.dst < s.n := by
      intro v v1 vS vR vn vms vmr vwl vo vcb
      obtain ⟨hS, a2, b1, h0, hme⟩ := h.st.downF (v := v) hk hkind hr' v1 vS vR vn
      have hnot : (s.procs 0).st ≠ .term := by
        intro ht
        have := parent_lt h0
        rcases st_of_fin h.fi ht (q := parent pk.dst) (by omega) with t | t <;> omega
      have hne : ∀ q, q ≠ pk.dst → (pDown s k pk.dst false v).procs q = s.procs q := by
        intro q e; simp [pDown, setP, push, e]
      have hpp : (pDown s k pk.dst false v).procs pk.dst = v := by simp [pDown, setP, push]
      have ha := pDown_app (me := pk.dst) (v := v) hk hkind
      refine ⟨⟨hS, ?_, ?_, ?_⟩, hme⟩
      · apply h.hi.ctl (s' := pDown s k pk.dst false v) rfl rfl rfl rfl
        · intro q; by_cases e : q = pk.dst
          · rw [e, hpp, vms]
          · rw [hne q e]
        · intro q; by_cases e : q = pk.dst
          · rw [e, hpp, vmr]
          · rw [hne q e]
        · intro q; by_cases e : q = pk.dst
          · rw [e, hpp, vwl]
          · rw [hne q e]
        · intro q; by_cases e : q = pk.dst
          · rw [e, hpp, vo]
          · rw [hne q e]
        · intro q; by_cases e : q = pk.dst
          · rw [e, hpp]; intro hh; rw [hh] at v1; simp [cls] at v1
          · rw [hne q e]; exact id
        · intro q; by_cases e : q = pk.dst
          · rw [e, hpp]; intro hh; omega
          · rw [hne q e]; exact id
        · exact ha
      · intro ht
        have : (pDown s k pk.dst false v).procs 0 = s.procs 0 := hne 0 (by omega)
        rw [this] at ht; exact absurd ht hnot
      · intro q hq
        by_cases e : q = pk.dst
        · rw [e, hpp, vcb]
          have := h.fi.cb pk.dst hme
          have nt : (s.procs pk.dst).st ≠ .term := by intro e; rw [e] at a2; simp [cls] at a2
          have nt' : v.st ≠ .term := by intro e; rw [e] at v1; simp [cls] at v1
          rw [if_neg nt] at this; rw [if_neg nt']; exact this
        · rw [hne q e]; exact h.fi.cb q hq
    unfold FourCounter.msgDown
    simp only [Bool.false_eq_true, if_false]
    split
    · obtain ⟨hI, hme⟩ := hv { s.procs pk.dst with accS := 0, accR := 0, st := .idleWC } rfl rfl rfl rfl rfl rfl rfl rfl rfl
      exact hI.checkMsg hme
    · exact (hv { s.procs pk.dst with accS := 0, accR := 0, st := .busyWC } rfl rfl rfl rfl rfl rfl rfl rfl rfl).1

end ParsecVerif.FourCounter
