import ParsecVerif.Model.Dtd
/-!
  Helper lemmas and the inductive invariant of the DTD runtime machine (`Model/Dtd.lean`).
  Core Lean only.
-/
namespace ParsecVerif.Dtd

/-! ## stores and bodies -/

@[simp] theorem upd_same (s : Store) (d v : Nat) : upd s d v d = v := by simp [upd]
theorem upd_other (s : Store) (d v x : Nat) (h : x ≠ d) : upd s d v x = s x := by simp [upd, h]

/-- a datum no parameter writes is left alone -/
theorem writeArgs_not_written (f : Nat → Nat) (as : List (Nat × Mode)) (j : Nat) (s : Store) (d : Nat)
    (h : as.any (fun a => a.1 == d && a.2.writes) = false) : writeArgs f as j s d = s d := by
  induction as generalizing j s with
  | nil => rfl
  | cons a as ih =>
    simp only [List.any_cons, Bool.or_eq_false_iff] at h
    simp only [writeArgs]
    rw [ih _ _ h.2]
    by_cases hw : a.2.writes = true
    · have hd : a.1 ≠ d := by
        intro hd
        have := h.1
        simp [hd, hw] at this
      simp [hw, upd, Ne.symm hd]
    · simp [hw]

/-- the value left in a written datum does not depend on what was there before -/
theorem writeArgs_written (f : Nat → Nat) (as : List (Nat × Mode)) (j : Nat) (s s' : Store) (d : Nat)
    (h : as.any (fun a => a.1 == d && a.2.writes) = true) : writeArgs f as j s d = writeArgs f as j s' d := by
  induction as generalizing j s s' with
  | nil => simp at h
  | cons a as ih =>
    simp only [writeArgs]
    by_cases hrest : as.any (fun a => a.1 == d && a.2.writes) = true
    · exact ih _ _ _ hrest
    · have hrest' : as.any (fun a => a.1 == d && a.2.writes) = false := by simpa using hrest
      rw [writeArgs_not_written f as _ _ d hrest', writeArgs_not_written f as _ _ d hrest']
      simp only [List.any_cons, hrest', Bool.or_false, Bool.and_eq_true, beq_iff_eq] at h
      simp [h.2, h.1]

theorem exec_not_written (t : Task) (ins : List Nat) (s : Store) (d : Nat)
    (h : writesD t d = false) : exec t ins s d = s d :=
  writeArgs_not_written _ _ _ _ _ h

theorem exec_written (t : Task) (ins : List Nat) (s s' : Store) (d : Nat)
    (h : writesD t d = true) : exec t ins s d = exec t ins s' d :=
  writeArgs_written _ _ _ _ _ _ h

theorem writesD_usesD (t : Task) (d : Nat) (h : writesD t d = true) : usesD t d = true := by
  simp only [writesD, usesD, List.any_eq_true] at *
  obtain ⟨a, ha, h2⟩ := h
  exact ⟨a, ha, by simp only [Bool.and_eq_true] at h2; exact h2.1⟩

theorem mem_readArgs_usesD (t : Task) (d : Nat) (h : d ∈ readArgs t) : usesD t d = true := by
  simp only [readArgs, List.mem_map, List.mem_filter] at h
  obtain ⟨a, ⟨ha, _⟩, rfl⟩ := h
  simp only [usesD, List.any_eq_true]
  exact ⟨a, ha, by simp⟩

theorem readsOf_congr (t : Task) (s s' : Store) (h : ∀ d, d ∈ readArgs t → s d = s' d) :
    readsOf t s = readsOf t s' := by
  simp only [readsOf]
  exact List.map_congr_left h

/-! ## the static chain: previous writer -/

theorem writesAt_usesAt (p : Prog) (u d : Nat) (h : writesAt p u d = true) : usesAt p u d = true := by
  simp only [writesAt, usesAt] at *
  cases hp : p[u]? with
  | none => simp [hp] at h
  | some t => simp only [hp] at h ⊢; exact writesD_usesD t d h

theorem prevWriter_some (p : Prog) (t d w : Nat) (h : prevWriter p t d = some w) :
    w < t ∧ writesAt p w d = true ∧ ∀ u, w < u → u < t → writesAt p u d = false := by
  induction t with
  | zero => simp [prevWriter] at h
  | succ t ih =>
    simp only [prevWriter] at h
    by_cases hw : writesAt p t d = true
    · simp only [hw, if_true, Option.some.injEq] at h
      subst h
      exact ⟨Nat.lt_succ_self _, hw, fun u h1 h2 => by omega⟩
    · simp only [hw] at h
      obtain ⟨h1, h2, h3⟩ := ih h
      refine ⟨by omega, h2, fun u hu1 hu2 => ?_⟩
      by_cases hut : u = t
      · subst hut; simpa using hw
      · exact h3 u hu1 (by omega)

theorem prevWriter_none (p : Prog) (t d : Nat) (h : prevWriter p t d = none) :
    ∀ u, u < t → writesAt p u d = false := by
  induction t with
  | zero => intro u hu; omega
  | succ t ih =>
    simp only [prevWriter] at h
    by_cases hw : writesAt p t d = true
    · simp [hw] at h
    · simp only [hw] at h
      intro u hu
      by_cases hut : u = t
      · subst hut; simpa using hw
      · exact ih h u (by omega)

/-- an earlier writer of `d` is at or before the previous writer -/
theorem prevWriter_ge (p : Prog) (t d u : Nat) (hu : u < t) (hw : writesAt p u d = true) :
    ∃ w, prevWriter p t d = some w ∧ u ≤ w := by
  cases h : prevWriter p t d with
  | none => have := prevWriter_none p t d h u hu; simp [hw] at this
  | some w =>
    refine ⟨w, rfl, ?_⟩
    obtain ⟨_, _, h3⟩ := prevWriter_some p t d w h
    by_cases hle : u ≤ w
    · exact hle
    · have := h3 u (by omega) hu
      simp [hw] at this

/-- no writer of `d` in `[u, t)`: both see the same previous writer -/
theorem prevWriter_eq_of_no_writer (p : Prog) (d u t : Nat) (hut : u ≤ t)
    (h : ∀ x, u ≤ x → x < t → writesAt p x d = false) : prevWriter p t d = prevWriter p u d := by
  induction t with
  | zero => have : u = 0 := by omega
            subst this; rfl
  | succ t ih =>
    by_cases he : u = t + 1
    · subst he; rfl
    · simp only [prevWriter]
      have hw := h t (by omega) (by omega)
      simp only [hw]
      exact ih (by omega) (fun x h1 h2 => h x h1 (by omega))

/-! ## the sequential store only changes at writers -/

theorem seqStore_succ_not_writer (p : Prog) (k d : Nat) (h : writesAt p k d = false) :
    seqStore p (k + 1) d = seqStore p k d := by
  simp only [seqStore]
  cases hp : p[k]? with
  | none => rfl
  | some t =>
    simp only [writesAt, hp] at h
    exact exec_not_written _ _ _ _ h

theorem seqStore_const (p : Prog) (d k m : Nat) (hkm : k ≤ m)
    (h : ∀ u, k ≤ u → u < m → writesAt p u d = false) : seqStore p m d = seqStore p k d := by
  induction m with
  | zero => have : k = 0 := by omega
            subst this; rfl
  | succ m ih =>
    by_cases he : k = m + 1
    · subst he; rfl
    · rw [seqStore_succ_not_writer p m d (h m (by omega) (by omega))]
      exact ih (by omega) (fun u h1 h2 => h u h1 (by omega))

/-! ## dedup -/

theorem mem_dedup (l : List Nat) (x : Nat) : x ∈ dedup l ↔ x ∈ l := by
  induction l with
  | nil => simp [dedup]
  | cons y ys ih =>
    simp only [dedup, List.mem_cons, List.mem_filter, ih]
    constructor
    · rintro (h | ⟨h, _⟩)
      · exact Or.inl h
      · exact Or.inr h
    · rintro (h | h)
      · exact Or.inl h
      · by_cases hxy : x = y
        · exact Or.inl hxy
        · exact Or.inr ⟨h, by simpa using hxy⟩

theorem mem_dataOf (t : Task) (d : Nat) : d ∈ dataOf t ↔ usesD t d = true := by
  simp only [dataOf, mem_dedup, usesD, List.mem_map, List.any_eq_true, beq_iff_eq]

/-! ## counting -/

set_option linter.unusedSimpArgs false in
/-- bookkeeping of a counter when the counted predicate changes from `P` to `P'`:
    the elements `Q ⊆ P` leave, the elements `N` (disjoint from `P`) enter -/
theorem countP_move {α} (l : List α) (P P' Q N : α → Bool)
    (h : ∀ a, a ∈ l → (P' a = ((P a && !Q a) || N a)) ∧ (Q a = true → P a = true) ∧ (N a = true → P a = false)) :
    l.countP P' + l.countP Q = l.countP P + l.countP N := by
  induction l with
  | nil => simp
  | cons a l ih =>
    have ha := h a (List.mem_cons_self)
    have ih' := ih (fun b hb => h b (List.mem_cons_of_mem _ hb))
    simp only [List.countP_cons]
    obtain ⟨h1, h2, h3⟩ := ha
    cases hP : P a <;> cases hQ : Q a <;> cases hN : N a <;> simp [hP, hQ, hN] at h1 h2 h3 <;> simp [h1, hP, hQ, hN] <;> omega

theorem countP_pos_of_mem {α} (l : List α) (P : α → Bool) (a : α) (ha : a ∈ l) (hp : P a = true) :
    0 < l.countP P := List.countP_pos_iff.2 ⟨a, ha, hp⟩

end ParsecVerif.Dtd
