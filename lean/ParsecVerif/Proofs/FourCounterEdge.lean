import ParsecVerif.Proofs.FourCounterStruct
/-
  How the configuration of one tree edge changes under each protocol event (pure arithmetic).
-/
namespace ParsecVerif.FourCounter

variable {a b c d u d0 d1 : Nat}

/-- case split on the old configuration, then try each configuration for the new one -/
macro "edge_tac" h:ident : tactic => `(tactic| (
  unfold edgeOK at *
  rcases $h:ident with h|h|h|h|h|h|h <;>
  first
  | (exfalso; omega)
  | (refine Or.inl ?_; omega)
  | (refine Or.inr (Or.inl ?_); omega)
  | (refine Or.inr (Or.inr (Or.inl ?_)); omega)
  | (refine Or.inr (Or.inr (Or.inr (Or.inl ?_))); omega)
  | (refine Or.inr (Or.inr (Or.inr (Or.inr (Or.inl ?_)))); omega)
  | (refine Or.inr (Or.inr (Or.inr (Or.inr (Or.inr (Or.inl ?_))))); omega)
  | (refine Or.inr (Or.inr (Or.inr (Or.inr (Or.inr (Or.inr ?_))))); omega)))

macro "edge_hyp" h:ident : tactic => `(tactic| (
  unfold edgeOK at *
  rcases $h:ident with h|h|h|h|h|h|h <;> omega))

theorem edge_ready_self (h : edgeOK 0 b c d u d0 d1) : edgeOK 1 b c d u d0 d1 := by
  edge_tac h
theorem edge_ready_parent (h : edgeOK a 0 c d u d0 d1) : edgeOK a 1 c d u d0 d1 := by
  edge_tac h
theorem edge_sample_self (h : edgeOK 1 b c d u d0 d1) : edgeOK 2 b 1 d (u + 1) d0 d1 := by
  edge_tac h
theorem edge_sample_parent (h : edgeOK 2 1 1 0 0 d0 d1) : edgeOK 2 2 1 1 0 d0 d1 := by
  edge_tac h
theorem edge_decide_false_child (h : edgeOK 2 1 1 0 0 d0 d1) : edgeOK 2 1 0 0 0 (d0 + 1) d1 := by
  edge_tac h
theorem edge_decide_true_child (h : edgeOK 2 1 1 0 0 d0 d1) : edgeOK 2 3 0 0 0 d0 (d1 + 1) := by
  edge_hyp h
theorem edge_decide_other (h : edgeOK 2 2 1 1 0 d0 d1) : edgeOK 2 2 0 0 0 d0 d1 := by
  edge_tac h
theorem edge_absorb (h : edgeOK a b c d (u + 1) d0 d1) (hb : b ≠ 0) : edgeOK a b c d u d0 d1 := by
  edge_tac h
theorem edge_absorb_b (h : edgeOK a b c d (u + 1) d0 d1) (hb : b ≠ 0) : b = 1 ∧ d = 0 ∧ a = 2 ∧ c = 1 ∧ u = 0 := by
  edge_hyp h
theorem edge_downF_self (h : edgeOK a b c d u (d0 + 1) d1) : edgeOK 1 b c d u d0 d1 := by
  edge_tac h
theorem edge_downF_self' (h : edgeOK a b c d u (d0 + 1) d1) : a = 2 ∧ c = 0 ∧ u = 0 ∧ d0 = 0 ∧ d1 = 0 ∧ b = 1 := by
  edge_hyp h
theorem edge_downF_parent (h : edgeOK a 2 c 0 u d0 d1) : edgeOK a 1 c 0 u (d0 + 1) d1 ∧ a = 2 ∧ c = 0 := by
  edge_hyp h
theorem edge_downT_self (h : edgeOK a b c d u d0 (d1 + 1)) : edgeOK 3 b c d u d0 d1 := by
  edge_tac h
theorem edge_downT_self' (h : edgeOK a b c d u d0 (d1 + 1)) : a = 2 ∧ c = 0 ∧ u = 0 ∧ d0 = 0 ∧ d1 = 0 ∧ b = 3 := by
  edge_hyp h
theorem edge_downT_parent (h : edgeOK a 2 c 0 u d0 d1) : edgeOK a 3 c 0 u d0 (d1 + 1) := by
  edge_hyp h
/-- a child that does not owe its contribution, below a collecting parent -/
theorem edge_notpend (h : edgeOK 2 b 1 d 0 d0 d1) : d0 = 0 ∧ d1 = 0 ∧ ((b = 1 ∧ d = 0) ∨ (b = 2 ∧ d = 1)) := by
  edge_hyp h
theorem edge_parent_wfp_c (h : edgeOK a 2 c 1 u d0 d1) : a = 2 ∧ c = 1 ∧ u = 0 ∧ d0 = 0 ∧ d1 = 0 := by
  edge_hyp h
theorem edge_parent_nr (h : edgeOK a 0 c d u d0 d1) : ¬ (a = 2 ∧ c = 1 ∧ u = 0) := by
  edge_hyp h
theorem edge_parent_wfp_nc (h : edgeOK a 2 c 0 u d0 d1) : a = 2 ∧ c = 0 ∧ u = 0 ∧ d0 = 0 ∧ d1 = 0 := by
  edge_hyp h
theorem edge_parent_term (h : edgeOK a 3 c d u d0 d1) : (a = 2 ∨ a = 3) ∧ c = 0 ∧ u = 0 ∧ d0 = 0 := by
  edge_hyp h

end ParsecVerif.FourCounter
