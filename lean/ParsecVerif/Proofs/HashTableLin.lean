/-
  Forward simulation of the hash-table model to the sequential map: every micro step either leaves
  the ghost map unchanged or is the linearization point of the stepping thread's operation and
  performs exactly that operation of the sequential specification; bookkeeping of the linearization
  order, time stamps and per-thread programs.
-/
import ParsecVerif.Proofs.HashTableStepE

namespace ParsecVerif.HashTable

/-! ## the shape of the thread record after a step -/

inductive Shape (u now : Nat) (th : Thread) : Out → Prop
  | stay (m : Store) : Shape u now th ⟨m, th, none⟩
  | goto (m : Store) (pc' : Pc) (h1 : pc'.linRes = th.pc.linRes) (h2 : pc' ≠ .idle) (h3 : th.pc ≠ .idle) :
      Shape u now th ⟨m, th.goto pc', none⟩
  | lin (m : Store) (pc' : Pc) (r : Nat) (h1 : pc'.linRes = some r) (h2 : th.pc.linRes = none) (h3 : pc' ≠ .idle) (h4 : th.pc ≠ .idle) :
      Shape u now th ⟨m, { th with pc := pc', tLin := now }, some ⟨u, th.op, th.op.res r, th.tInv, now⟩⟩
  | fin (m : Store) (r : Nat) (h1 : th.pc.linRes = some r) :
      Shape u now th ⟨m, { th with pc := .idle, hist := th.hist ++ [⟨th.op, th.op.res r, th.tInv, th.tLin, now⟩] }, none⟩
  | inv (m : Store) (op : Op) (rest : List Op) (h1 : th.pc = .idle) (h2 : th.todo = op :: rest) :
      Shape u now th ⟨m, { th with op := op, todo := rest, tInv := now, pc := .rd }, none⟩
  | rej (m : Store) (op : Op) (rest : List Op) (h1 : th.pc = .idle) (h2 : th.todo = op :: rest) :
      Shape u now th ⟨m, { th with op := op, todo := rest, tInv := now, tLin := now, pc := .idle,
                                    hist := th.hist ++ [⟨op, .rejected, now, now, now⟩] },
                      some ⟨u, op, .rejected, now, now⟩⟩

theorem shape_linAt {u now : Nat} {th : Thread} (m : Store) (pc' : Pc) (r : Nat) (h1 : pc'.linRes = some r)
    (h2 : th.pc.linRes = none) (h3 : pc' ≠ .idle) (h4 : th.pc ≠ .idle) : Shape u now th (linAt m u now th pc' r) :=
  Shape.lin m pc' r h1 h2 h3 h4

theorem shape_finish {u now : Nat} {th : Thread} (m : Store) (r : Nat) (h1 : th.pc.linRes = some r) :
    Shape u now th (finish m now th r) := Shape.fin _ r h1

theorem stepPc_shape (s : Store) (thr : List Thread) (u now : Nat) (th : Thread) (pc : Pc) (hpc : th.pc = pc) :
    Shape u now th (stepPc s thr u now th pc) := by
  cases pc with
  | idle =>
    simp only [stepPc]; unfold invoke
    split
    · exact Shape.stay _
    · rename_i op rest heq
      split
      · exact Shape.inv _ op rest hpc heq
      · exact Shape.rej _ op rest hpc heq
  | rd =>
    simp only [stepPc]; unfold stepRd
    split
    · exact Shape.stay _
    · exact Shape.goto _ _ (by rw [hpc]; rfl) (by simp) (by rw [hpc]; simp)
  | lt =>
    simp only [stepPc]; unfold stepLt
    split
    · cases hop : th.op with
      | ins k i => exact shape_linAt _ _ _ rfl (by rw [hpc]; rfl) (by simp) (by rw [hpc]; simp)
      | find k =>
        simp only [ltBody]; split
        · exact shape_linAt _ _ _ rfl (by rw [hpc]; rfl) (by simp) (by rw [hpc]; simp)
        · exact Shape.goto _ _ (by rw [hpc]; rfl) (by simp) (by rw [hpc]; simp)
      | rem k =>
        simp only [ltBody]; split
        · exact shape_linAt _ _ _ rfl (by rw [hpc]; rfl) (by simp) (by rw [hpc]; simp)
        · exact Shape.goto _ _ (by rw [hpc]; rfl) (by simp) (by rw [hpc]; simp)
      | foi k i =>
        simp only [ltBody]; split
        · exact shape_linAt _ _ _ rfl (by rw [hpc]; rfl) (by simp) (by rw [hpc]; simp)
        · exact Shape.goto _ _ (by rw [hpc]; rfl) (by simp) (by rw [hpc]; simp)
    · exact Shape.stay _
  | nx cur =>
    simp only [stepPc]; unfold stepNx
    split
    · split
      · exact shape_linAt _ _ _ rfl (by rw [hpc]; rfl) (by simp) (by rw [hpc]; simp)
      · exact shape_linAt _ _ _ rfl (by rw [hpc]; rfl) (by simp) (by rw [hpc]; simp)
    · exact Shape.goto _ _ (by rw [hpc]; rfl) (by simp) (by rw [hpc]; simp)
  | lo hd pv =>
    simp only [stepPc]; unfold stepLo
    split
    · split
      · exact Shape.goto _ _ (by rw [hpc]; rfl) (by simp) (by rw [hpc]; simp)
      · unfold loFound
        split
        · exact shape_linAt _ _ _ rfl (by rw [hpc]; rfl) (by simp) (by rw [hpc]; simp)
        · exact shape_linAt _ _ _ rfl (by rw [hpc]; rfl) (by simp) (by rw [hpc]; simp)
    · exact Shape.stay _
  | du hd pv it =>
    simp only [stepPc]; unfold stepDu
    split
    · exact Shape.goto _ _ (by rw [hpc]; rfl) (by simp) (by rw [hpc]; simp)
    · exact Shape.goto _ _ (by rw [hpc]; rfl) (by simp) (by rw [hpc]; simp)
  | cn hd pv nv it =>
    simp only [stepPc]; unfold stepCn
    exact Shape.goto _ _ (by rw [hpc]; rfl) (by simp) (by rw [hpc]; simp)
  | ulo hd r =>
    simp only [stepPc]; unfold stepUlo
    cases r with
    | some it => exact Shape.goto _ _ (by rw [hpc]; rfl) (by simp) (by rw [hpc]; simp)
    | none => exact Shape.goto _ _ (by rw [hpc]; rfl) (by simp) (by rw [hpc]; simp)
  | ult r =>
    simp only [stepPc]; unfold stepUlt
    exact Shape.goto _ _ (by rw [hpc]; rfl) (by simp) (by rw [hpc]; simp)
  | rul r rz ch =>
    simp only [stepPc]; unfold stepRul
    split
    · exact Shape.goto _ _ (by rw [hpc]; rfl) (by simp) (by rw [hpc]; simp)
    · exact shape_finish _ r (by rw [hpc]; rfl)
  | wr ch r =>
    simp only [stepPc]; unfold stepWr
    split
    · exact Shape.stay _
    · exact Shape.goto _ _ (by rw [hpc]; rfl) (by simp) (by rw [hpc]; simp)
  | wul r =>
    simp only [stepPc]
    exact shape_finish _ r (by rw [hpc]; rfl)

/-! ## per-thread bookkeeping -/

/-- the linearized but not yet returned operation of a thread -/
def pending (t : Nat) (th : Thread) : List LinRec :=
  match th.pc.linRes with
  | some r => [⟨t, th.op, th.op.res r, th.tInv, th.tLin⟩]
  | none => []

/-- what thread `t` has contributed to the linearization order -/
def linsOf (t : Nat) (th : Thread) : List LinRec := th.hist.map (OpRec.lin t) ++ pending t th

theorem linRes_idle : Pc.idle.linRes = none := rfl

theorem pc_ne_idle_of_linRes {pc : Pc} {r : Nat} (h : pc.linRes = some r) : pc ≠ .idle := by
  intro hc; rw [hc] at h; cases h

theorem shape_lins {u now : Nat} {th : Thread} {o : Out} (h : Shape u now th o) :
    linsOf u o.th = linsOf u th ++ o.lin.toList := by
  cases h with
  | stay m => simp
  | goto m pc' h1 h2 h3 => simp [linsOf, pending, Thread.goto, h1]
  | lin m pc' r h1 h2 h3 h4 => simp [linsOf, pending, h1, h2]
  | fin m r h1 => simp [linsOf, pending, h1, linRes_idle, OpRec.lin]
  | inv m op rest h1 h2 => simp [linsOf, pending, h1, Pc.linRes]
  | rej m op rest h1 h2 => simp [linsOf, pending, h1, Pc.linRes, OpRec.lin]

/-- time stamps of a thread: completed operations have inv ≤ lin ≤ ret < now, the running one was
    invoked before now, a pending linearization lies between its invocation and now -/
structure TimeOk (t now : Nat) (th : Thread) : Prop where
  hist : ∀ r ∈ th.hist, r.tInv ≤ r.tLin ∧ r.tLin ≤ r.tRet ∧ r.tRet < now
  run : th.pc ≠ .idle → th.tInv < now
  pend : ∀ l ∈ pending t th, l.tInv ≤ l.tLin ∧ l.tLin < now

theorem TimeOk.mono {t now : Nat} {th : Thread} (h : TimeOk t now th) : TimeOk t (now + 1) th :=
  ⟨fun r hr => by have := h.hist r hr; omega, fun hp => by have := h.run hp; omega,
   fun l hl => by have := h.pend l hl; omega⟩

theorem shape_time {u now : Nat} {th : Thread} {o : Out} (hs : Shape u now th o) (h : TimeOk u now th) :
    TimeOk u (now + 1) o.th := by
  cases hs with
  | stay m => exact h.mono
  | goto m pc' h1 h2 h3 =>
    refine ⟨fun r hr => by have := h.hist r hr; omega, fun _ => Nat.lt_succ_of_lt (h.run h3), fun l hl => ?_⟩
    have : l ∈ pending u th := by simpa [pending, Thread.goto, h1] using hl
    have := h.pend l this; omega
  | lin m pc' r h1 h2 h3 h4 =>
    have hr := h.run h4
    refine ⟨fun r hr => by have := h.hist r hr; omega, fun _ => Nat.lt_succ_of_lt hr, fun l hl => ?_⟩
    simp only [pending, h1, List.mem_singleton] at hl
    subst hl; simp only; omega
  | fin m r h1 =>
    have hp := h.pend ⟨u, th.op, th.op.res r, th.tInv, th.tLin⟩ (by simp [pending, h1])
    simp only at hp
    refine ⟨fun r hr => ?_, fun hp => absurd rfl hp, fun l hl => by simp [pending, linRes_idle] at hl⟩
    rcases List.mem_append.1 hr with hr | hr
    · have := h.hist r hr; omega
    · simp only [List.mem_singleton] at hr; subst hr; simp only; omega
  | inv m op rest h1 h2 =>
    exact ⟨fun r hr => by have := h.hist r hr; omega, fun _ => Nat.lt_succ_self now, fun l hl => by simp [pending, Pc.linRes] at hl⟩
  | rej m op rest h1 h2 =>
    refine ⟨fun r hr => ?_, fun hp => absurd rfl hp, fun l hl => by simp [pending, linRes_idle] at hl⟩
    rcases List.mem_append.1 hr with hr | hr
    · have := h.hist r hr; omega
    · simp only [List.mem_singleton] at hr; subst hr; simp only; omega

theorem shape_lin_stamp {u now : Nat} {th : Thread} {o : Out} (hs : Shape u now th o) (h : TimeOk u now th) :
    ∀ l, o.lin = some l → l.tInv ≤ l.tLin ∧ l.tid = u ∧ l.tLin = now := by
  cases hs with
  | stay m => intro l hl; cases hl
  | goto m pc' h1 h2 h3 => intro l hl; cases hl
  | lin m pc' r h1 h2 h3 h4 => intro l hl; cases hl; exact ⟨Nat.le_of_lt (h.run h4), rfl, rfl⟩
  | fin m r h1 => intro l hl; cases hl
  | inv m op rest h1 h2 => intro l hl; cases hl
  | rej m op rest h1 h2 => intro l hl; cases hl; exact ⟨Nat.le_refl _, rfl, rfl⟩

/-- the operation a thread is executing -/
def running (th : Thread) : List Op := if th.pc = .idle then [] else [th.op]

/-- completed operations, the running one and the remaining ones make up the thread's program -/
def ProgOk (prog : List Op) (th : Thread) : Prop :=
  th.hist.map (fun r => r.op) ++ running th ++ th.todo = prog

theorem shape_prog {u now : Nat} {th : Thread} {o : Out} (hs : Shape u now th o) (prog : List Op) (h : ProgOk prog th) :
    ProgOk prog o.th := by
  unfold ProgOk at h ⊢
  cases hs with
  | stay m => exact h
  | goto m pc' h1 h2 h3 => simpa [running, Thread.goto, h2, h3] using h
  | lin m pc' r h1 h2 h3 h4 => simpa [running, h3, h4] using h
  | fin m r h1 =>
    have := pc_ne_idle_of_linRes h1
    simpa [running, this] using h
  | inv m op rest h1 h2 => simpa [running, h1, h2] using h
  | rej m op rest h1 h2 => simpa [running, h1, h2] using h

/-! ## sequential specification -/

theorem Spec.replay_append (σ : List Item) (l : List (Op × Res)) (e : Op × Res) :
    Spec.replay σ (l ++ [e]) = (Spec.replay σ l).bind fun σ' => Spec.step σ' e.1 e.2 := by
  induction l generalizing σ with
  | nil => cases h : Spec.step σ e.1 e.2 <;> simp [Spec.replay, h]
  | cons a t ih =>
    simp only [List.cons_append, Spec.replay]
    cases Spec.step σ a.1 a.2 with
    | none => rfl
    | some σ' => exact ih σ'

theorem Spec.step_rejected (σ : List Item) (op : Op) : Spec.step σ op .rejected = some σ := by
  cases op <;> rfl

theorem abs_mvInsert (s : Store) (th : Thread) (it : Item) : (mvInsert s th it).abs = s.abs := by
  unfold mvInsert; split <;> rfl

/-- the item found in a chain is the map's entry for its key -/
theorem lookup_of_stored {s : Store} {thr : List Thread} (hS : SInv s thr) {T b : Nat} (hT : Tin s T) {it : Item}
    (hit : it ∈ (s.bk T b).items) : lookup s.abs it.key = some it :=
  lookup_of_mem hS.ab.absKeys (hS.ab.absIn it ⟨T, b, hT, hit⟩)

end ParsecVerif.HashTable
