import ParsecVerif.Proofs.Dataflow
import ParsecVerif.Proofs.DataflowAgain
import ParsecVerif.Proofs.PtgData
/-! The task graph of a well-formed program is a well-formed dataflow graph; completion order of every run is a
    topological order; lemmas linking `preds` to the graph (helper lemmas for C01 / C02 / C16 on programs). -/
namespace ParsecVerif.PtgRt
open ParsecVerif.Ptg ParsecVerif.Dataflow

theorem ixOf_some {insts : List Instance} {t : Instance} {i : Nat} (h : ixOf insts t = some i) :
    ∃ hi : i < insts.length, insts[i] = t := by
  unfold ixOf at h
  obtain ⟨hi, he, _⟩ := List.idxOf?_eq_some_iff.1 h
  exact ⟨hi, he⟩

theorem ixOf_of_mem {insts : List Instance} {t : Instance} (h : t ∈ insts) : ∃ i, ixOf insts t = some i := by
  unfold ixOf
  have : (insts.idxOf? t).isSome := List.isSome_idxOf?.2 h
  exact Option.isSome_iff_exists.1 this

theorem posOf_eq (p : Program) (t : Instance) : posOf p t = ixOf (allInstances p) t := rfl

theorem mem_graphOf_E (p : Program) (cfg : Cfg) (e : Nat × Nat) :
    e ∈ (graphOf p cfg).E ↔ ∃ x ∈ allOutEdges p, posOf p x.src = some e.1 ∧ posOf p x.dst = some e.2 := by
  unfold graphOf
  simp only [List.mem_filterMap]
  constructor
  · rintro ⟨x, hx, he⟩
    refine ⟨x, hx, ?_⟩
    unfold edgeIx at he
    rw [posOf_eq, posOf_eq]
    split at he
    · rename_i i j h1 h2
      cases he
      exact ⟨h1, h2⟩
    · cases he
  · rintro ⟨x, hx, h1, h2⟩
    refine ⟨x, hx, ?_⟩
    unfold edgeIx
    rw [posOf_eq] at h1 h2
    rw [h1, h2]

/-! ### what `WellFormed` gives -/

theorem wf_parts {p : Program} (h : WellFormed p = true) :
    (∀ e ∈ allOutEdges p, e.dst ∈ allInstances p ∧ edgeForward p e = true) ∧
    (∀ e ∈ allInEdges p, e ∈ allOutEdges p) ∧ (∀ e ∈ allInEdges p, e.src ∈ allInstances p) := by
  unfold WellFormed at h
  simp only [Bool.and_eq_true, List.all_eq_true, List.contains_iff_mem] at h
  obtain ⟨_, ⟨⟨⟨_, _⟩, hio⟩, hof⟩, his⟩ := h
  exact ⟨fun e he => hof e he, fun e he => hio e he, fun e he => his e he⟩

theorem edgeForward_lt {p : Program} {e : Edge} (h : edgeForward p e = true) :
    ∃ i j, posOf p e.src = some i ∧ posOf p e.dst = some j ∧ i < j := by
  unfold edgeForward at h
  split at h
  · rename_i i j h1 h2
    exact ⟨i, j, h1, h2, by simpa using h⟩
  · cases h

/-- **Instantiation.**  The task graph of a well-formed program is a well-formed dataflow graph: its edges stay among
    the enumerated instances and go forward in enumeration order (the rank certificate of `WellFormed`). -/
theorem graphOf_WF (p : Program) (cfg : Cfg) (h : WellFormed p = true) : WF (graphOf p cfg) id := by
  obtain ⟨hof, _, _⟩ := wf_parts h
  constructor
  · intro e he
    obtain ⟨x, hx, h1, h2⟩ := (mem_graphOf_E p cfg e).1 he
    rw [posOf_eq] at h1 h2
    obtain ⟨hi, _⟩ := ixOf_some h1
    obtain ⟨hj, _⟩ := ixOf_some h2
    exact ⟨hi, hj⟩
  · intro e he
    obtain ⟨x, hx, h1, h2⟩ := (mem_graphOf_E p cfg e).1 he
    obtain ⟨i, j, h3, h4, hlt⟩ := edgeForward_lt (hof x hx).2
    rw [h1] at h3; rw [h2] at h4
    cases h3; cases h4
    exact hlt

/-- an active input dependency of an instance of the space names a node of the graph, and the graph has that edge -/
theorem preds_edge (p : Program) (cfg : Cfg) (h : WellFormed p = true) (t : Instance) (ht : t ∈ allInstances p)
    (u : Instance) (sf : Nat) (hu : (u, sf) ∈ preds p t) :
    ∃ i j, nodeOf p u = some i ∧ nodeOf p t = some j ∧ (i, j) ∈ (graphOf p cfg).E := by
  obtain ⟨hof, hio, his⟩ := wf_parts h
  unfold preds at hu
  rw [List.mem_map] at hu
  obtain ⟨e, he, heq⟩ := hu
  have hsrc : e.src = u := by cases heq; rfl
  have hin : e ∈ allInEdges p := by
    unfold allInEdges
    rw [List.mem_flatMap]
    exact ⟨t, ht, he⟩
  have hdst : e.dst = t := by
    -- every in-edge of t has t as destination
    unfold inEdges at he
    split at he
    · cases he
    · simp only [List.mem_flatMap] at he
      obtain ⟨_, _, _, _, he⟩ := he
      split at he
      · split at he
        · cases he
        · rw [List.mem_filterMap] at he
          obtain ⟨_, _, he⟩ := he
          simp only [Option.map_eq_some_iff] at he
          obtain ⟨_, _, he⟩ := he
          rw [← he]
      · cases he
  have hout := hio e hin
  obtain ⟨i, j, h3, h4, _⟩ := edgeForward_lt (hof e hout).2
  refine ⟨i, j, ?_, ?_, ?_⟩
  · rw [← hsrc]; exact h3
  · rw [← hdst]; exact h4
  · exact (mem_graphOf_E p cfg (i, j)).2 ⟨e, hout, h3, h4⟩

/-! ### completion order of a run -/

theorem endOrder_append (l1 l2 : List Ev) : endOrder (l1 ++ l2) = endOrder l1 ++ endOrder l2 := by
  unfold endOrder; rw [List.filterMap_append]

theorem mem_endOrder (log : List Ev) (i : Nat) : i ∈ endOrder log ↔ Ev.end_ i ∈ log := by
  unfold endOrder
  rw [List.mem_filterMap]
  constructor
  · rintro ⟨e, he, h⟩
    cases e <;> simp at h
    subst h; exact he
  · intro h; exact ⟨_, h, rfl⟩

theorem count_endOrder (log : List Ev) (i : Nat) : (endOrder log).count i = log.count (.end_ i) := by
  induction log with
  | nil => rfl
  | cons e log ih =>
    cases e with
    | start j => simp [endOrder] at ih ⊢; exact ih
    | again j => simp [endOrder] at ih ⊢; exact ih
    | end_ j =>
      simp only [endOrder, List.filterMap_cons, List.count_cons] at ih ⊢
      rw [ih]
      by_cases hji : j = i
      · subst hji; simp
      · have : ¬ (Ev.end_ j = Ev.end_ i) := fun hh => hji (by injection hh)
        simp [hji, this]

/-- every node appears after all its predecessors -/
def Topo (g : Graph) (l : List Nat) : Prop := ∀ L1 j L2, l = L1 ++ j :: L2 → ∀ e ∈ g.E, e.2 = j → e.1 ∈ L1

theorem append_singleton_decomp' {α : Type} {L L1 L2 : List α} {ev x : α} (h : L ++ [ev] = L1 ++ x :: L2) :
    (L2 = [] ∧ L1 = L ∧ x = ev) ∨ (∃ L2', L2 = L2' ++ [ev] ∧ L = L1 ++ x :: L2') := by
  rcases List.eq_nil_or_concat L2 with hnil | ⟨L2', y, hc⟩
  · subst hnil
    left
    have h' : L ++ [ev] = L1 ++ [x] := h
    have := List.append_inj' h' rfl
    exact ⟨rfl, this.1.symm, (List.singleton_inj.1 this.2).symm⟩
  · right
    subst hc
    have h' : L ++ [ev] = (L1 ++ x :: L2') ++ [y] := by simpa [List.append_assoc] using h
    have := List.append_inj' h' rfl
    exact ⟨L2', by rw [(List.singleton_inj.1 this.2)]; simp, this.1⟩

section machine
variable {g : Graph} {F : Nat → List (Option Nat) → Nat} {rank : Nat → Nat}

theorem topo_step (_hwf : WF g rank) (s : St) (h : Inv g F s) (ht : Topo g (endOrder s.log)) (t : Tr) :
    Topo g (endOrder (step g F s t).log) := by
  unfold step
  by_cases hen : enabled s t = true
  · rw [if_neg (by simp [hen])]
    cases t with
    | start i =>
      show Topo g (endOrder (s.log ++ [Ev.start i]))
      rw [endOrder_append]; simpa [endOrder] using ht
    | again i =>
      show Topo g (endOrder (s.log ++ [Ev.again i]))
      rw [endOrder_append]; simpa [endOrder] using ht
    | finish i =>
      have hst : s.status[i]? = some .running := by
        simp only [enabled, Bool.and_eq_true, beq_iff_eq] at hen; exact hen.1
      have hin : i < g.n := h.len ▸ (List.getElem?_eq_some_iff.1 hst).1
      show Topo g (endOrder (s.log ++ [Ev.end_ i]))
      rw [endOrder_append]
      have : endOrder [Ev.end_ i] = [i] := rfl
      rw [this]
      intro L1 j L2 hl e he hej
      rcases append_singleton_decomp' hl with ⟨_, hL1, hx⟩ | ⟨L2', _, hL⟩
      · subst hL1; subst hx
        have hw : s.status[e.2]? ≠ some .waiting := by rw [hej, hst]; decide
        have hend := preds_ended h e he (hej ▸ hin) hw
        have hc := h.cnt e.1
        rw [if_pos hend] at hc
        rw [mem_endOrder]
        exact List.count_pos_iff.1 (by omega)
      · exact ht L1 j L2' hL e he hej
    | release a b => exact ht
  · rw [if_pos (by simpa using hen)]; exact ht

theorem topo_run (hwf : WF g rank) (again : List Nat) (ts : List Tr) : Topo g (endOrder (run g F again ts).log) := by
  have key : ∀ (ts : List Tr) (s : St), Inv g F s → Topo g (endOrder s.log) →
      Topo g (endOrder (ts.foldl (step g F) s).log) := by
    intro ts
    induction ts with
    | nil => intro s _ h2; exact h2
    | cons t ts ih => intro s h1 h2; exact ih _ (inv_step hwf s h1 t) (topo_step hwf s h1 h2 t)
  apply key ts _ (inv_init g F again rank hwf)
  intro L1 j L2 hl
  have : endOrder (init g again).log = [] := rfl
  rw [this] at hl
  cases L1 <;> simp at hl

end machine

/-! ### from a topological order to "no later element reaches an earlier one" -/

theorem path_before {g : Graph} {l : List Nat} (ht : Topo g l) {a b : Nat} (hp : Path g a b) :
    ∀ L1 L2, l = L1 ++ b :: L2 → a ∈ L1 := by
  induction hp with
  | edge he => intro L1 L2 hl; exact ht L1 _ L2 hl _ he rfl
  | step _ he ih =>
    intro L1 L2 hl
    have hz := ht L1 _ L2 hl _ he rfl
    obtain ⟨M1, M2, rfl⟩ := List.append_of_mem hz
    have := ih M1 (M2 ++ _ :: L2) (by rw [hl]; simp [List.append_assoc]; rfl)
    exact List.mem_append_left _ this

theorem pairwise_of_topo {g : Graph} (pre l : List Nat) (hnd : (pre ++ l).Nodup) (ht : Topo g (pre ++ l)) :
    l.Pairwise (fun x y => ¬ Path g y x) := by
  induction l generalizing pre with
  | nil => exact List.Pairwise.nil
  | cons x t ih =>
    rw [List.pairwise_cons]
    constructor
    · intro y hy hp
      have hin := path_before ht hp pre t rfl
      rw [List.nodup_append] at hnd
      exact hnd.2.2 y hin y (List.mem_cons_of_mem _ hy) rfl
    · apply ih (pre ++ [x])
      · simpa [List.append_assoc] using hnd
      · simpa [List.append_assoc] using ht

theorem path_lt {g : Graph} (hwf : WF g id) {a b : Nat} (hp : Path g a b) : a < b := by
  induction hp with
  | edge he => exact hwf.2 _ he
  | step _ he ih => exact Nat.lt_trans ih (hwf.2 _ he)

theorem pairwise_range {g : Graph} (hwf : WF g id) (n : Nat) : (List.range n).Pairwise (fun x y => ¬ Path g y x) :=
  List.pairwise_lt_range.imp (fun hxy hp => by have := path_lt hwf hp; omega)

end ParsecVerif.PtgRt
