import ParsecVerif.Proofs.ContextInv
/-! Invariant preservation: task end, termination detection (completion callback), decrement. -/
namespace ParsecVerif.Context

theorem inv_taskEnd {s : St} {t p : Nat} {tp : Tp} (h : Inv s) (hbt : s.bases[t]? = some (.task p))
    (hsu : s.subs[t]? = some .none) (htp : s.tps[p]? = some tp) :
    Inv (tick { s with bases := s.bases.set t .idle,
                       tps := s.tps.set p { tp with ended := tp.ended + 1, lastEnd := s.clock } }) := by
  have hst : tp.st = .added := by
    obtain ⟨x, hx, hxs⟩ := h.taskSt t p hbt
    rw [htp] at hx; cases hx; exact hxs
  obtain ⟨htl, hbt'⟩ := List.getElem?_eq_some_iff.1 hbt
  obtain ⟨hpl, _⟩ := List.getElem?_eq_some_iff.1 htp
  refine { len1 := ?len1, len2 := ?len2, cnt := ?cnt, tokM := ?tokM, notSt := ?notSt, wIdle := ?wIdle, mIdle := ?mIdle,
           taskSt := ?taskSt, taskCnt := ?taskCnt, cbFwd := ?cbFwd, cbBack := ?cbBack, addFwd := ?addFwd,
           addBack := ?addBack, nFwd := ?nFwd, nBack := ?nBack, len3 := ?len3, nIdle := ?nIdle, nNodup := ?nNodup,
           allOut := ?allOut, leaving := ?leaving }
  all_goals try (keep h)
  case len1 => simpa [tick] using h.len1
  case len2 => simpa [tick] using h.len2
  case cnt => simp only [tick]; rw [csum_set_same _ _ _ _ htp]; exact h.cnt; rfl
  case wIdle =>
    intro w m hw hm
    obtain ⟨h1, h2⟩ := h.wIdle w m hw hm
    exact ⟨set_keep h1, h2⟩
  case mIdle =>
    intro hm
    obtain ⟨h1, h2⟩ := h.mIdle hm
    exact ⟨set_keep h1, h2⟩
  case taskSt =>
    intro t' p' hb
    simp only [tick] at hb ⊢
    rcases get_set_cases _ _ _ _ _ hb with ⟨_, hx, _⟩ | ⟨_, hb'⟩
    · cases hx
    · obtain ⟨x, hx, hxs⟩ := h.taskSt t' p' hb'
      by_cases hpp : p = p'
      · subst hpp; exact ⟨_, List.getElem?_set_self hpl, hst⟩
      · exact ⟨x, by rw [List.getElem?_set_ne hpp]; exact hx, hxs⟩
  case taskCnt =>
    intro p' x hx
    simp only [tick] at hx ⊢
    have hmv := Interleave.count_set_move s.bases t Base.idle htl (Base.task p')
    rw [hbt'] at hmv
    rcases get_set_cases _ _ _ _ _ hx with ⟨rfl, hxe, _⟩ | ⟨hne, hx'⟩
    · subst hxe
      have := h.taskCnt p tp htp
      simp at hmv ⊢
      omega
    · have := h.taskCnt p' x hx'
      have hne' : ¬ (Base.task p = Base.task p') := by intro e; cases e; exact hne rfl
      simp [hne'] at hmv
      omega
  case cbFwd =>
    intro t' p' hb
    simp only [tick] at hb ⊢
    rcases get_set_cases _ _ _ _ _ hb with ⟨_, hx, _⟩ | ⟨_, hb'⟩
    · cases hx
    · obtain ⟨x, hx, hxs, hxb⟩ := h.cbFwd t' p' hb'
      have hne : p ≠ p' := by intro e; subst e; rw [htp] at hx; cases hx; rw [hst] at hxs; cases hxs
      exact ⟨x, by rw [List.getElem?_set_ne hne]; exact hx, hxs, hxb⟩
  case cbBack =>
    intro p' x hx hxs
    simp only [tick] at hx ⊢
    rcases get_set_cases _ _ _ _ _ hx with ⟨_, hxe, _⟩ | ⟨_, hx'⟩
    · subst hxe; simp only [] at hxs; rw [hst] at hxs; cases hxs
    · have hb := h.cbBack p' x hx' hxs
      have hne : t ≠ x.by_ := by intro e; rw [← e, hbt] at hb; cases hb
      rw [List.getElem?_set_ne hne]; exact hb
  case addFwd =>
    intro t' q hq
    simp only [tick] at hq ⊢
    obtain ⟨x, hx, hxs, hxb⟩ := h.addFwd t' q hq
    have hne : p ≠ q := by
      intro e; subst e; rw [htp] at hx; cases hx; rw [hst] at hxs; rcases hxs with e | e | e <;> cases e
    exact ⟨x, by rw [List.getElem?_set_ne hne]; exact hx, hxs, hxb⟩
  case addBack =>
    intro q x hx hxs
    simp only [tick] at hx ⊢
    rcases get_set_cases _ _ _ _ _ hx with ⟨_, hxe, _⟩ | ⟨_, hx'⟩
    · subst hxe; simp only [] at hxs; rw [hst] at hxs; rcases hxs with e | e | e <;> cases e
    · exact h.addBack q x hx' hxs
  case nFwd => exact nf_set h.nFwd htp (by rw [hst]; simp)
  case nBack => exact nb_set h.nBack (by simp [hst])
  case len3 => simpa [tick] using h.len3
  case nIdle => exact nIdle_set h hbt (Or.inl (by intro m e; cases e))
  case leaving =>
    intro hm
    have := (all_idle h (Or.inl hm) t htl).1
    rw [hbt] at this; cases this

theorem inv_detect {s : St} {t p : Nat} {tp : Tp} (h : Inv s) (htp : s.tps[p]? = some tp)
    (hg : canExec s t = true ∧ idleT s t = true ∧ tp.st = .added ∧ tp.ready = true ∧ tp.ended = tp.total) :
    Inv (tick { s with bases := s.bases.set t (.cb p),
                       tps := s.tps.set p { tp with st := .inCb, cbs := tp.cbs + 1, cbAt := s.clock, by_ := t } }) := by
  obtain ⟨hc, hid, hst, _, hend⟩ := hg
  obtain ⟨hbt, hsu⟩ := (idleT_iff s t).1 hid
  obtain ⟨htl, hbt'⟩ := List.getElem?_eq_some_iff.1 hbt
  obtain ⟨hpl, _⟩ := List.getElem?_eq_some_iff.1 htp
  have hcnt0 : s.bases.count (Base.task p) = 0 := by have := h.taskCnt p tp htp; omega
  refine { len1 := ?len1, len2 := ?len2, cnt := ?cnt, tokM := ?tokM, notSt := ?notSt, wIdle := ?wIdle, mIdle := ?mIdle,
           taskSt := ?taskSt, taskCnt := ?taskCnt, cbFwd := ?cbFwd, cbBack := ?cbBack, addFwd := ?addFwd,
           addBack := ?addBack, nFwd := ?nFwd, nBack := ?nBack, len3 := ?len3, nIdle := ?nIdle, nNodup := ?nNodup,
           allOut := ?allOut, leaving := ?leaving }
  all_goals try (keep h)
  case len1 => simpa [tick] using h.len1
  case len2 => simpa [tick] using h.len2
  case cnt =>
    simp only [tick]; rw [csum_set_contrib _ _ _ _ htp]; exact h.cnt
    simp [hst, contrib]
  case wIdle =>
    intro w m hw hm
    have hne := canExec_wIdle hc hw hm
    simp only [tick, List.getElem?_set_ne hne]
    exact h.wIdle w m hw hm
  case mIdle =>
    intro hm
    have hne := canExec_mIdle hc hm
    simp only [tick, List.getElem?_set_ne hne]
    exact h.mIdle hm
  case taskSt =>
    intro t' p' hb
    simp only [tick] at hb ⊢
    rcases get_set_cases _ _ _ _ _ hb with ⟨_, hx, _⟩ | ⟨_, hb'⟩
    · cases hx
    · obtain ⟨x, hx, hxs⟩ := h.taskSt t' p' hb'
      have hne : p ≠ p' := by
        intro e; subst e
        have := count_pos_of_get hb'
        omega
      exact ⟨x, by rw [List.getElem?_set_ne hne]; exact hx, hxs⟩
  case taskCnt =>
    intro p' x hx
    simp only [tick] at hx ⊢
    have hmv := Interleave.count_set_move s.bases t (Base.cb p) htl (Base.task p')
    rw [hbt'] at hmv
    simp at hmv
    rcases get_set_cases _ _ _ _ _ hx with ⟨rfl, hxe, _⟩ | ⟨hne, hx'⟩
    · subst hxe
      have := h.taskCnt p tp htp
      simp only []
      omega
    · have := h.taskCnt p' x hx'
      omega
  case cbFwd =>
    intro t' p' hb
    simp only [tick] at hb ⊢
    rcases get_set_cases _ _ _ _ _ hb with ⟨rfl, hx, _⟩ | ⟨_, hb'⟩
    · cases hx; exact ⟨_, List.getElem?_set_self hpl, rfl, rfl⟩
    · obtain ⟨x, hx, hxs, hxb⟩ := h.cbFwd t' p' hb'
      have hne : p ≠ p' := by intro e; subst e; rw [htp] at hx; cases hx; rw [hst] at hxs; cases hxs
      exact ⟨x, by rw [List.getElem?_set_ne hne]; exact hx, hxs, hxb⟩
  case cbBack =>
    intro p' x hx hxs
    simp only [tick] at hx ⊢
    rcases get_set_cases _ _ _ _ _ hx with ⟨rfl, hxe, _⟩ | ⟨_, hx'⟩
    · subst hxe; exact List.getElem?_set_self htl
    · have hb := h.cbBack p' x hx' hxs
      have hne : t ≠ x.by_ := by intro e; rw [← e, hbt] at hb; cases hb
      rw [List.getElem?_set_ne hne]; exact hb
  case addFwd =>
    intro t' q hq
    simp only [tick] at hq ⊢
    obtain ⟨x, hx, hxs, hxb⟩ := h.addFwd t' q hq
    have hne : p ≠ q := by
      intro e; subst e; rw [htp] at hx; cases hx; rw [hst] at hxs; rcases hxs with e | e | e <;> cases e
    exact ⟨x, by rw [List.getElem?_set_ne hne]; exact hx, hxs, hxb⟩
  case addBack =>
    intro q x hx hxs
    simp only [tick] at hx ⊢
    rcases get_set_cases _ _ _ _ _ hx with ⟨_, hxe, _⟩ | ⟨_, hx'⟩
    · subst hxe; simp only [] at hxs; rcases hxs with e | e | e <;> cases e
    · exact h.addBack q x hx' hxs
  case nFwd => exact nf_set h.nFwd htp (by rw [hst]; simp)
  case nBack => exact nb_set h.nBack (by simp)
  case len3 => simpa [tick] using h.len3
  case nIdle => exact nIdle_set h hbt (Or.inr (Or.inr ⟨p, rfl⟩))
  case leaving => intro hm; exact (canExec_not_out h hc (Or.inl hm)).elim

theorem inv_dec {s : St} {t p : Nat} {tp : Tp} (h : Inv s) (hbt : s.bases[t]? = some (.cb p))
    (hsu : s.subs[t]? = some .none) (htp : s.tps[p]? = some tp) (hne : s.nests[t]? = some []) :
    Inv (tick { s with active := s.active - 1, bases := s.bases.set t .idle,
                       tps := s.tps.set p { tp with st := .done, decAt := s.clock } }) := by
  obtain ⟨hst, hby⟩ : tp.st = .inCb ∧ tp.by_ = t := by
    obtain ⟨x, hx, hxs, hxb⟩ := h.cbFwd t p hbt
    rw [htp] at hx; cases hx; exact ⟨hxs, hxb⟩
  obtain ⟨htl, hbt'⟩ := List.getElem?_eq_some_iff.1 hbt
  obtain ⟨hpl, _⟩ := List.getElem?_eq_some_iff.1 htp
  have hbusy : ¬ (s.mm = .leaving ∨ (s.mm = .atBarrier ∧ ∀ m ∈ s.wm, m = .exited)) := by
    intro hm
    have := (all_idle h hm t htl).1
    rw [hbt] at this; cases this
  refine { len1 := ?len1, len2 := ?len2, cnt := ?cnt, tokM := ?tokM, notSt := ?notSt, wIdle := ?wIdle, mIdle := ?mIdle,
           taskSt := ?taskSt, taskCnt := ?taskCnt, cbFwd := ?cbFwd, cbBack := ?cbBack, addFwd := ?addFwd,
           addBack := ?addBack, nFwd := ?nFwd, nBack := ?nBack, len3 := ?len3, nIdle := ?nIdle, nNodup := ?nNodup,
           allOut := ?allOut, leaving := ?leaving }
  all_goals try (keep h)
  case len1 => simpa [tick] using h.len1
  case len2 => simpa [tick] using h.len2
  case cnt =>
    have := h.cnt
    simp only [tick]; rw [csum_set' _ _ _ _ htp]
    simp [hst, contrib]
    rw [this]; cases s.token <;> simp <;> omega
  case wIdle =>
    intro w m hw hm
    obtain ⟨h1, h2⟩ := h.wIdle w m hw hm
    exact ⟨set_keep h1, h2⟩
  case mIdle =>
    intro hm
    obtain ⟨h1, h2⟩ := h.mIdle hm
    exact ⟨set_keep h1, h2⟩
  case taskSt =>
    intro t' p' hb
    simp only [tick] at hb ⊢
    rcases get_set_cases _ _ _ _ _ hb with ⟨_, hx, _⟩ | ⟨_, hb'⟩
    · cases hx
    · obtain ⟨x, hx, hxs⟩ := h.taskSt t' p' hb'
      have hne : p ≠ p' := by intro e; subst e; rw [htp] at hx; cases hx; rw [hst] at hxs; cases hxs
      exact ⟨x, by rw [List.getElem?_set_ne hne]; exact hx, hxs⟩
  case taskCnt =>
    intro p' x hx
    simp only [tick] at hx ⊢
    have hmv := Interleave.count_set_move s.bases t Base.idle htl (Base.task p')
    rw [hbt'] at hmv
    simp at hmv
    rcases get_set_cases _ _ _ _ _ hx with ⟨rfl, hxe, _⟩ | ⟨hne, hx'⟩
    · subst hxe
      have := h.taskCnt p tp htp
      simp only []
      omega
    · have := h.taskCnt p' x hx'
      omega
  case cbFwd =>
    intro t' p' hb
    simp only [tick] at hb ⊢
    rcases get_set_cases _ _ _ _ _ hb with ⟨_, hx, _⟩ | ⟨hne, hb'⟩
    · cases hx
    · obtain ⟨x, hx, hxs, hxb⟩ := h.cbFwd t' p' hb'
      have hne : p ≠ p' := by intro e; subst e; rw [htp] at hx; cases hx; exact hne (hby.symm.trans hxb)
      exact ⟨x, by rw [List.getElem?_set_ne hne]; exact hx, hxs, hxb⟩
  case cbBack =>
    intro p' x hx hxs
    simp only [tick] at hx ⊢
    rcases get_set_cases _ _ _ _ _ hx with ⟨_, hxe, _⟩ | ⟨hpp, hx'⟩
    · subst hxe; cases hxs
    · have hb := h.cbBack p' x hx' hxs
      have hne : t ≠ x.by_ := by intro e; rw [← e, hbt] at hb; cases hb; exact hpp rfl
      rw [List.getElem?_set_ne hne]; exact hb
  case addFwd =>
    intro t' q hq
    simp only [tick] at hq ⊢
    obtain ⟨x, hx, hxs, hxb⟩ := h.addFwd t' q hq
    have hne : p ≠ q := by
      intro e; subst e; rw [htp] at hx; cases hx; rw [hst] at hxs; rcases hxs with e | e | e <;> cases e
    exact ⟨x, by rw [List.getElem?_set_ne hne]; exact hx, hxs, hxb⟩
  case addBack =>
    intro q x hx hxs
    simp only [tick] at hx ⊢
    rcases get_set_cases _ _ _ _ _ hx with ⟨_, hxe, _⟩ | ⟨_, hx'⟩
    · subst hxe; simp only [] at hxs; rcases hxs with e | e | e <;> cases e
    · exact h.addBack q x hx' hxs
  case nFwd => exact nf_set h.nFwd htp (by rw [hst]; simp)
  case nBack => exact nb_set h.nBack (by simp)
  case len3 => simpa [tick] using h.len3
  case nIdle => exact nIdle_set h hbt (Or.inr (Or.inl hne))
  case allOut => intro hm hw; exact (hbusy (Or.inr ⟨hm, hw⟩)).elim
  case leaving => intro hm; exact (hbusy (Or.inl hm)).elim

end ParsecVerif.Context
