/-
  C14, second layer — proofs: conservation of messages, and "the oldest posted receive is always tested".
-/
import ParsecVerif.Model.CommWindow
import ParsecVerif.Proofs.CommPool
import ParsecVerif.Proofs.CommDyn
import ParsecVerif.Proofs.CommEngine

namespace ParsecVerif.CommEngine

/-! ### cyclic distance and the rotation scan -/

theorem cd_lt {n a b : Nat} (ha : a < n) (hb : b < n) : cd n a b < n := by
  unfold cd; split <;> omega

theorem cd_step {n a b : Nat} (ha : a < n) (hb : b < n) (hab : a ≠ b) :
    cd n ((a + 1) % n) b + 1 = cd n a b := by
  rw [succ_mod_eq ha]
  unfold cd
  by_cases h1 : a + 1 = n
  · simp only [h1, if_true]
    split <;> split <;> omega
  · simp only [h1, if_false]
    split <;> split <;> omega

/-- The scan stops on `x` or strictly before it (in cyclic order): afterwards `req_idx` is strictly closer to any
    other receive that is outside the window. -/
theorem scan_cd (inw : List Bool) (n x : Nat) (hx : x < n) (hxf : inw.getD x false = false) :
    ∀ f r, r < n → scan inw n f r < n →
      inw.getD (scan inw n f r) false = false →
      scan inw n f r = x ∨ cd n ((scan inw n f r + 1) % n) x + 1 ≤ cd n r x := by
  intro f
  induction f with
  | zero =>
    intro r hr _ hq
    simp only [scan] at hq ⊢
    by_cases h : r = x
    · exact Or.inl h
    · right; rw [cd_step hr hx h]; exact Nat.le_refl _
  | succ f ih =>
    intro r hr hlt hq
    unfold scan at hlt hq ⊢
    by_cases hb : inw.getD r false = true
    · simp only [hb, if_true] at hlt hq ⊢
      have hrx : r ≠ x := by intro e; subst e; rw [hb] at hxf; cases hxf
      have := ih ((r + 1) % n) (succ_mod_lt hr) hlt hq
      rcases this with h | h
      · exact Or.inl h
      · right
        have := cd_step hr hx hrx
        omega
    · have hb' : inw.getD r false = false := by
        cases h' : inw.getD r false with
        | true => exact absurd h' hb
        | false => rfl
      simp only [hb', Bool.false_eq_true, if_false] at hlt hq ⊢
      by_cases h : r = x
      · exact Or.inl h
      · right; rw [cd_step hr hx h]; exact Nat.le_refl _

/-! ### position in the posted order -/

theorem idxOf_erase_ge (l : List Nat) (x r : Nat) (hxr : x ≠ r) : List.idxOf x (l.erase r) + 1 ≥ List.idxOf x l := by
  induction l with
  | nil => simp
  | cons a rest ih =>
    by_cases har : a = r
    · subst har
      simp only [List.erase_cons_head, List.idxOf_cons]
      have : (a == x) = false := by simp [Ne.symm hxr]
      simp [this]
    · rw [List.erase_cons_tail (by simpa using har)]
      simp only [List.idxOf_cons]
      by_cases hax : a = x
      · simp [hax]
      · have : (a == x) = false := by simp [hax]
        simp only [this, cond_false]
        omega

theorem idxOf_move_last (l : List Nat) (r : Nat) (hnd : l.Nodup) (hr : r ∈ l) :
    List.idxOf r (l.erase r ++ [r]) = l.length - 1 := by
  have hnot : r ∉ l.erase r := fun h => (List.Nodup.mem_erase_iff hnd).mp h |>.1 rfl
  rw [List.idxOf_append]
  simp only [hnot, if_false, List.length_erase_of_mem hr]
  simp [List.idxOf_cons]

theorem idxOf_move_other (l : List Nat) (x r : Nat) (hxr : x ≠ r) (hx : x ∈ l) :
    List.idxOf x (l.erase r ++ [r]) + 1 ≥ List.idxOf x l := by
  have hin : x ∈ l.erase r := (List.mem_erase_of_ne hxr).mpr hx
  rw [List.idxOf_append]
  simp only [hin, if_true]
  exact idxOf_erase_ge l x r hxr

/-! ### invariants of the second layer -/

/-- Potential argument: a receive outside the window is at least as many places from the front of the posted
    order as `req_idx` is rotation steps away from it (counting the refills still owed by the current pass). -/
def OInv (p : Pool) (posted : List Nat) : Prop :=
  ∀ x, x < p.n → p.inw.getD x false = false →
    cd p.n p.ridx x + 1 ≤ List.idxOf x posted + (p.t - (winReqs p.win).length)

structure GCore (g : GPool) : Prop where
  posted_nodup : g.posted.Nodup
  posted_mem : ∀ r, r ∈ g.posted ↔ r < g.p.n
  posted_len : g.posted.length = g.p.n
  keys_nodup : g.keys.Nodup
  keys_lt : ∀ r, r ∈ g.keys → r < g.p.n
  /-- the receives holding a message are a prefix of the posted order -/
  pre : g.posted.Pairwise (fun a b => b ∈ g.keys → a ∈ g.keys)
  /-- a message waits in the unexpected queue only if every receive holds one -/
  full : g.unexp ≠ [] → ∀ r, r < g.p.n → r ∈ g.keys
  conserve : (g.delivered ++ g.held.map (·.2) ++ g.unexp).Perm g.arrived
  pot : OInv g.p g.posted

/-- Between passes. -/
structure GInv (g : GPool) : Prop where
  quiet : PQuiet g.p
  core : GCore g

/-- Inside a pass; `todo` = reported offsets not yet served. -/
structure GMid (g : GPool) (todo : List Nat) : Prop where
  pinv : PInv g.p
  core : GCore g
  t1 : ∀ j, j ∈ todo → ∃ r, r < g.p.n ∧ g.p.win[j]? = some (amSlot g.p.id r (g.p.base + j)) ∧
        g.p.act.getD r true = false ∧ r ∈ g.keys
  u1 : ∀ r, r < g.p.n → g.p.act.getD r true = false →
        ∃ j, j ∈ todo ∧ g.p.win[j]? = some (amSlot g.p.id r (g.p.base + j))

theorem keys_append (g : GPool) (r m : Nat) :
    ({ g with held := g.held ++ [(r, m)] } : GPool).keys = g.keys ++ [r] := by
  simp [GPool.keys]

/-! ### a message arrives -/

theorem GCore_arrive {g : GPool} (h : GCore g) (m : Nat) : GCore (g.arrive m) ∧ (g.arrive m).p = g.p := by
  unfold GPool.arrive
  cases hf : g.posted.find? (fun r => decide (r ∉ g.keys)) with
  | none =>
    simp only
    have hall : ∀ r, r ∈ g.posted → r ∈ g.keys := by
      intro r hr
      have := List.find?_eq_none.mp hf r hr
      simpa using this
    refine ⟨⟨h.posted_nodup, h.posted_mem, h.posted_len, h.keys_nodup, h.keys_lt, h.pre, ?_, ?_, h.pot⟩, trivial⟩
    · intro _ r hr
      exact hall r ((h.posted_mem r).mpr hr)
    · show (g.delivered ++ g.held.map (·.2) ++ (g.unexp ++ [m])).Perm (g.arrived ++ [m])
      rw [← List.append_assoc]
      exact List.Perm.append_right _ h.conserve
  | some r =>
    simp only
    obtain ⟨hr, as, bs, hsplit, has⟩ := List.find?_eq_some_iff_append.mp hf
    have hrk : r ∉ g.keys := by simpa using hr
    have has' : ∀ a, a ∈ as → a ∈ g.keys := by
      intro a ha; have := has a ha; simpa using this
    have hk : ({ g with held := g.held ++ [(r, m)], arrived := g.arrived ++ [m] } : GPool).keys = g.keys ++ [r] := by
      simp [GPool.keys]
    have hrp : r ∈ g.posted := by rw [hsplit]; simp
    refine ⟨⟨h.posted_nodup, h.posted_mem, h.posted_len, ?_, ?_, ?_, ?_, ?_, h.pot⟩, trivial⟩
    · rw [hk, List.nodup_append]
      refine ⟨h.keys_nodup, by simp, ?_⟩
      intro a ha b hb
      simp at hb; subst hb
      intro e; subst e; exact hrk ha
    · intro x hx
      rw [hk, List.mem_append, List.mem_singleton] at hx
      rcases hx with hx | hx
      · exact h.keys_lt x hx
      · subst hx; exact (h.posted_mem _).mp hrp
    · show g.posted.Pairwise _
      rw [hk]
      have hnd := h.posted_nodup
      have hpre := h.pre
      rw [hsplit] at hnd hpre ⊢
      rw [List.pairwise_append] at hpre ⊢
      obtain ⟨p1, p2, p3⟩ := hpre
      rw [List.pairwise_cons] at p2 ⊢
      have hrbs : r ∉ bs := by
        have := (List.nodup_append.mp hnd).2.1
        exact (List.nodup_cons.mp this).1
      refine ⟨?_, ⟨?_, ?_⟩, ?_⟩
      · refine List.Pairwise.imp_of_mem ?_ p1
        intro a b ha _ _ _
        rw [List.mem_append]
        exact Or.inl (has' a ha)
      · intro b _ _
        simp
      · refine List.Pairwise.imp_of_mem ?_ p2.2
        intro a b _ hb hab hbk
        rw [List.mem_append, List.mem_singleton] at hbk ⊢
        rcases hbk with hbk | hbk
        · exact Or.inl (hab hbk)
        · subst hbk; exact absurd hb hrbs
      · intro a ha b _ _
        rw [List.mem_append]
        exact Or.inl (has' a ha)
    · intro hu x hx
      rw [hk, List.mem_append]
      exact Or.inl (h.full hu x hx)
    · show (g.delivered ++ (g.held ++ [(r, m)]).map (·.2) ++ g.unexp).Perm (g.arrived ++ [m])
      simp only [List.map_append, List.map_cons, List.map_nil]
      have e : g.delivered ++ (g.held.map (·.2) ++ [m]) ++ g.unexp =
          g.delivered ++ g.held.map (·.2) ++ ([m] ++ g.unexp) := by simp
      rw [e]
      refine (List.Perm.append_left _ List.perm_append_comm).trans ?_
      rw [← List.append_assoc]
      exact List.Perm.append_right _ h.conserve

/-! ### `MPI_Testsome` reports a tested receive that holds a message -/

theorem GMid_report {g : GPool} {todo : List Nat} (h : GMid g todo) (j r : Nat) (hr : r < g.p.n)
    (hw : g.p.win[j]? = some (amSlot g.p.id r (g.p.base + j))) (hk : r ∈ g.keys) :
    GMid (g.report j) (j :: todo) ∧ (g.report j).keys = g.keys ∧ (g.report j).p.win = g.p.win ∧
    (g.report j).p.id = g.p.id ∧ (g.report j).p.base = g.p.base ∧ (g.report j).p.n = g.p.n := by
  have hq : g.p.complete j = { g.p with act := g.p.act.set r false } :=
    complete_act j r g.p.id _ hw (by simp [amSlot])
  have hg : g.report j = { g with p := g.p.complete j } := rfl
  rw [hg]
  generalize hqq : g.p.complete j = q at hq
  have e_act : q.act = g.p.act.set r false := by rw [hq]
  have e_win : q.win = g.p.win := by rw [hq]
  have e_n : q.n = g.p.n := by rw [hq]
  have e_t : q.t = g.p.t := by rw [hq]
  have e_id : q.id = g.p.id := by rw [hq]
  have e_b : q.base = g.p.base := by rw [hq]
  have e_inw : q.inw = g.p.inw := by rw [hq]
  have e_r : q.ridx = g.p.ridx := by rw [hq]
  have hqi : PInv q := by rw [← hqq]; exact PInv_complete h.pinv j
  have hc := h.core
  refine ⟨⟨hqi, ⟨hc.posted_nodup, ?_, ?_, hc.keys_nodup, ?_, hc.pre, ?_, hc.conserve, ?_⟩, ?_, ?_⟩, rfl, e_win, e_id, e_b, e_n⟩
  · intro x; show x ∈ g.posted ↔ x < q.n; rw [e_n]; exact hc.posted_mem x
  · show g.posted.length = q.n; rw [e_n]; exact hc.posted_len
  · intro x hx; show x < q.n; rw [e_n]; exact hc.keys_lt x hx
  · intro hu x hx; exact hc.full hu x (by rw [← e_n]; exact hx)
  · intro x hx hxf
    show cd q.n q.ridx x + 1 ≤ List.idxOf x g.posted + (q.t - (winReqs q.win).length)
    rw [e_n, e_r, e_t, e_win]
    exact hc.pot x (by rw [← e_n]; exact hx) (by rw [← e_inw]; exact hxf)
  · intro j' hj'
    show ∃ r', r' < q.n ∧ q.win[j']? = some (amSlot q.id r' (q.base + j')) ∧ q.act.getD r' true = false ∧ r' ∈ g.keys
    rw [e_n, e_win, e_id, e_b, e_act]
    rcases List.mem_cons.mp hj' with e | e
    · subst e
      exact ⟨r, hr, hw, by rw [getD_set_bool]; simp [h.pinv.core.act_len, hr], hk⟩
    · obtain ⟨r', h1, h2, h3, h4⟩ := h.t1 j' e
      refine ⟨r', h1, h2, ?_, h4⟩
      rw [getD_set_bool]
      by_cases hrr : r = r'
      · simp [hrr, h.pinv.core.act_len, h1]
      · simp only [hrr, false_and, if_false]; exact h3
  · intro x hx hxa
    show ∃ j', j' ∈ j :: todo ∧ q.win[j']? = some (amSlot q.id x (q.base + j'))
    rw [e_win, e_id, e_b]
    have hx' : x < g.p.n := by rw [← e_n]; exact hx
    have hxa' : (g.p.act.set r false).getD x true = false := by rw [← e_act]; exact hxa
    rw [getD_set_bool] at hxa'
    by_cases hrr : r = x
    · subst hrr; exact ⟨j, by simp, hw⟩
    · simp only [hrr, false_and, if_false] at hxa'
      obtain ⟨j', h1, h2⟩ := h.u1 x hx' hxa'
      exact ⟨j', List.mem_cons_of_mem _ h1, h2⟩

/-! ### the message of a receive is taken out of `held` -/

theorem held_extract : ∀ (L : List (Nat × Nat)) (r : Nat) (e : Nat × Nat), (L.map (·.1)).Nodup →
    L.find? (fun e => e.1 == r) = some e →
    e.1 = r ∧ L.Perm (e :: L.filter (fun e => e.1 != r)) ∧
    (∀ x, x ∈ (L.filter (fun e => e.1 != r)).map (·.1) ↔ (x ∈ L.map (·.1) ∧ x ≠ r)) := by
  intro L
  induction L with
  | nil => intro r e _ h; simp at h
  | cons a rest ih =>
    intro r e hnd hf
    simp only [List.map_cons, List.nodup_cons] at hnd
    by_cases har : a.1 = r
    · have : (a.1 == r) = true := by simp [har]
      simp only [List.find?_cons, this] at hf
      injection hf with hf
      subst hf
      have hrest : rest.filter (fun e => e.1 != r) = rest := by
        apply List.filter_eq_self.mpr
        intro b hb
        have : b.1 ≠ r := by
          intro e2
          apply hnd.1
          rw [har, ← e2]
          exact List.mem_map_of_mem hb
        simpa using this
      have hfa : (a.1 != r) = false := by simp [har]
      have hfil : (a :: rest).filter (fun e => e.1 != r) = rest := by
        rw [List.filter_cons]; simp only [hfa]; simpa using hrest
      rw [hfil]
      refine ⟨har, List.Perm.refl _, ?_⟩
      intro x
      simp only [List.map_cons, List.mem_cons]
      constructor
      · intro hx
        refine ⟨Or.inr hx, ?_⟩
        intro e2; subst e2
        apply hnd.1; rw [har]; exact hx
      · rintro ⟨hx | hx, hne⟩
        · rw [har] at hx; exact absurd hx hne
        · exact hx
    · have hf1 : (a.1 == r) = false := by simp [har]
      simp only [List.find?_cons, hf1] at hf
      obtain ⟨i1, i2, i3⟩ := ih r e hnd.2 hf
      have hf2 : (a.1 != r) = true := by simp [har]
      refine ⟨i1, ?_, ?_⟩
      · simp only [List.filter_cons, hf2, if_true]
        exact (List.Perm.cons a i2).trans (List.Perm.swap e a _)
      · intro x
        simp only [List.filter_cons, hf2, if_true, List.map_cons, List.mem_cons]
        rw [i3 x]
        constructor
        · rintro (hx | ⟨hx, hne⟩)
          · exact ⟨Or.inl hx, by rw [hx]; exact har⟩
          · exact ⟨Or.inr hx, hne⟩
        · rintro ⟨hx | hx, hne⟩
          · exact Or.inl hx
          · exact Or.inr ⟨hx, hne⟩

theorem pairwise_of_forall {α} (R : α → α → Prop) (l : List α) (h : ∀ a b, a ∈ l → b ∈ l → R a b) : l.Pairwise R := by
  induction l with
  | nil => exact List.Pairwise.nil
  | cons a rest ih =>
    rw [List.pairwise_cons]
    exact ⟨fun b hb => h a b (by simp) (by simp [hb]), ih (fun a b ha hb => h a b (by simp [ha]) (by simp [hb]))⟩

/-! ### the callback of a reported receive runs, the receive is restarted -/

theorem GMid_serve {g : GPool} {j : Nat} {rest : List Nat} (h : GMid g (j :: rest)) (hj : j ∉ rest) :
    GMid (g.serve j) rest := by
  obtain ⟨r, hr, hw, ha, hk⟩ := h.t1 j (by simp)
  have hc := h.core
  have hpi := h.pinv
  -- the message held by the receive
  obtain ⟨e, hfe⟩ : ∃ e, g.held.find? (fun e => e.1 == r) = some e := by
    cases hf : g.held.find? (fun e => e.1 == r) with
    | some e => exact ⟨e, rfl⟩
    | none =>
      have hk' : r ∈ g.held.map (·.1) := hk
      rw [List.mem_map] at hk'
      obtain ⟨e, he, her⟩ := hk'
      have := List.find?_eq_none.mp hf e he
      simp [her] at this
  obtain ⟨he1, hperm, hkeys⟩ := held_extract g.held r e hc.keys_nodup hfe
  obtain ⟨_, d2, d3, d4, d5, d6, d7, d8, d9, d10, d11⟩ := PInv_done hpi hr hw ha
  have hd := done_eq hr hw ha
  have hserve : g.serve j = (g.deliver j r e).restart r := by
    unfold GPool.serve
    rw [hw]
    simp only [amSlot]
    rw [hfe]
  rw [hserve]
  unfold GPool.deliver
  generalize hq : (g.p.done j).1 = q at d2 d3 d5 d6 d7 d8 d9 d10 d11
  have e_win : q.win = g.p.win.set j (amSlot g.p.id r (g.p.base + j)).clear := by rw [← hq, hd]; rfl
  have hwlen : (winReqs q.win).length + 1 = (winReqs g.p.win).length := by
    rw [d3, List.length_erase_of_mem d4]
    have := List.length_pos_of_mem d4
    omega
  have hwle : (winReqs g.p.win).length ≤ g.p.t := by
    have := winReqs_length_le g.p.win; rw [hpi.win_len] at this; exact this
  have hrp : r ∈ g.posted := (hc.posted_mem r).mpr hr
  have hnd' : (g.posted.erase r ++ [r]).Nodup := by
    rw [List.nodup_append]
    refine ⟨hc.posted_nodup.erase r, by simp, ?_⟩
    intro a ha' b hb
    simp at hb; subst hb
    intro e2; subst e2
    exact ((List.Nodup.mem_erase_iff hc.posted_nodup).mp ha').1 rfl
  have hmem' : ∀ x, x ∈ g.posted.erase r ++ [r] ↔ x < q.n := by
    intro x
    rw [d8, List.mem_append, List.mem_singleton, ← hc.posted_mem x]
    by_cases hxr : x = r
    · subst hxr; simp [hrp]
    · rw [List.mem_erase_of_ne hxr]; simp [hxr]
  have hlen' : (g.posted.erase r ++ [r]).length = q.n := by
    rw [d8, List.length_append, List.length_erase_of_mem hrp, ← hc.posted_len]
    have := List.length_pos_of_mem hrp
    simp; omega
  -- the potential after the restart
  have hpot' : OInv q (g.posted.erase r ++ [r]) := by
    intro x hx hxf
    rw [d8] at hx
    rw [d5, getD_set_bool] at hxf
    rw [d8, d7, d9]
    by_cases hrx : r = x
    · subst hrx
      rw [idxOf_move_last _ _ hc.posted_nodup hrp, hc.posted_len]
      have := cd_lt hpi.core.ridx_lt hr
      omega
    · simp only [hrx, false_and, if_false] at hxf
      have h1 := hc.pot x hx hxf
      have h2 := idxOf_move_other g.posted x r (fun e2 => hrx e2.symm) ((hc.posted_mem x).mpr hx)
      omega
  -- the pending reports
  have ht1 : ∀ (K : List Nat), (∀ x, x ∈ g.keys → x ≠ r → x ∈ K) → ∀ j', j' ∈ rest →
      ∃ r', r' < q.n ∧ q.win[j']? = some (amSlot q.id r' (q.base + j')) ∧ q.act.getD r' true = false ∧ r' ∈ K := by
    intro K hK j' hj'
    have hjj : j' ≠ j := fun e2 => hj (e2 ▸ hj')
    obtain ⟨r', h1, h2, h3, h4⟩ := h.t1 j' (List.mem_cons_of_mem _ hj')
    have hrr : r ≠ r' := by
      intro e2; subst e2
      exact hjj (win_inj hpi.core h2 hw)
    refine ⟨r', by rw [d8]; exact h1, ?_, ?_, hK r' h4 (fun e2 => hrr e2.symm)⟩
    · rw [e_win, d11, d10, List.getElem?_set]; simp [Ne.symm hjj, h2]
    · rw [d6, getD_set_bool]; simp only [hrr, false_and, if_false]; exact h3
  have hu1 : ∀ x, x < q.n → q.act.getD x true = false →
      ∃ j', j' ∈ rest ∧ q.win[j']? = some (amSlot q.id x (q.base + j')) := by
    intro x hx hxa
    rw [d8] at hx
    rw [d6, getD_set_bool] at hxa
    by_cases hrx : r = x
    · subst hrx; simp [hpi.core.act_len, hr] at hxa
    · simp only [hrx, false_and, if_false] at hxa
      obtain ⟨j', h1, h2⟩ := h.u1 x hx hxa
      have hjj : j' ≠ j := by
        intro e2; subst e2
        rw [hw] at h2; injection h2 with h2
        simp [amSlot] at h2; exact hrx h2
      refine ⟨j', ?_, ?_⟩
      · rcases List.mem_cons.mp h1 with e2 | e2
        · exact absurd e2 hjj
        · exact e2
      · rw [e_win, d11, d10, List.getElem?_set]; simp [Ne.symm hjj, h2]
  have hsnd : (g.held.map (·.2)).Perm (e.2 :: (g.held.filter (fun e => e.1 != r)).map (·.2)) := by
    have := hperm.map (·.2)
    simpa using this
  have hK1nd : ((g.held.filter (fun e => e.1 != r)).map (·.1)).Nodup :=
    List.Nodup.sublist (List.Sublist.map _ List.filter_sublist) hc.keys_nodup
  unfold GPool.restart
  cases hu : g.unexp with
  | nil =>
    simp only [hu]
    refine ⟨d2, ⟨hnd', hmem', hlen', hK1nd, ?_, ?_, by intro hne; exact absurd rfl hne, ?_, hpot'⟩, ?_, hu1⟩
    · intro x hx
      rw [d8]; exact hc.keys_lt x ((hkeys x).mp hx).1
    · show (g.posted.erase r ++ [r]).Pairwise _
      rw [List.pairwise_append]
      refine ⟨?_, by simp, ?_⟩
      · refine List.Pairwise.imp_of_mem ?_ (List.Pairwise.sublist List.erase_sublist hc.pre)
        intro a b ha' _ hab hb
        have hb' := (hkeys b).mp hb
        have hane : a ≠ r := fun e2 => ((List.Nodup.mem_erase_iff hc.posted_nodup).mp (e2 ▸ ha')).1 rfl
        exact (hkeys a).mpr ⟨hab hb'.1, hane⟩
      · intro a _ b hb hbk
        simp at hb; subst hb
        exact absurd rfl ((hkeys b).mp hbk).2
    · show (g.delivered ++ [e.2] ++ (g.held.filter (fun (e : Nat × Nat) => e.1 != r)).map (fun (x : Nat × Nat) => x.2) ++ []).Perm g.arrived
      have hcons := hc.conserve
      rw [hu] at hcons
      refine List.Perm.trans ?_ hcons
      simp only [List.append_nil, List.append_assoc]
      refine List.Perm.append_left _ ?_
      exact hsnd.symm
    · exact ht1 _ (fun x hx hne => (hkeys x).mpr ⟨hx, hne⟩)
  | cons m' urest =>
    simp only [hu]
    have hall : ∀ x, x < g.p.n → x ∈ g.keys := hc.full (by rw [hu]; simp)
    have hk' : ∀ x, x ∈ ((g.held.filter (fun e => e.1 != r)) ++ [(r, m')]).map (·.1) ↔ x < g.p.n := by
      intro x
      simp only [List.map_append, List.mem_append, List.map_cons, List.map_nil, List.mem_singleton]
      constructor
      · rintro (hx | hx)
        · exact hc.keys_lt x ((hkeys x).mp hx).1
        · rw [hx]; exact hr
      · intro hx
        by_cases hxr : x = r
        · exact Or.inr hxr
        · exact Or.inl ((hkeys x).mpr ⟨hall x hx, hxr⟩)
    refine ⟨d2, ⟨hnd', hmem', hlen', ?_, ?_, ?_, ?_, ?_, hpot'⟩, ?_, hu1⟩
    · show (((g.held.filter (fun (e : Nat × Nat) => e.1 != r)) ++ [(r, m')]).map (fun (x : Nat × Nat) => x.1)).Nodup
      simp only [List.map_append, List.map_cons, List.map_nil]
      rw [List.nodup_append]
      refine ⟨hK1nd, by simp, ?_⟩
      intro a ha' b hb
      simp at hb; subst hb
      intro e2; subst e2
      exact ((hkeys a).mp ha').2 rfl
    · intro x hx
      rw [d8]; exact (hk' x).mp hx
    · show (g.posted.erase r ++ [r]).Pairwise _
      apply pairwise_of_forall
      intro a b ha' _ _
      exact (hk' a).mpr (by rw [← d8]; exact (hmem' a).mp ha')
    · intro _ x hx
      exact (hk' x).mpr (by rw [← d8]; exact hx)
    · show (g.delivered ++ [e.2] ++ ((g.held.filter (fun (e : Nat × Nat) => e.1 != r)) ++ [(r, m')]).map (fun (x : Nat × Nat) => x.2) ++ urest).Perm g.arrived
      have hcons := hc.conserve
      rw [hu] at hcons
      refine List.Perm.trans ?_ hcons
      simp only [List.map_append, List.map_cons, List.map_nil, List.append_assoc]
      refine List.Perm.append_left _ ?_
      refine List.Perm.trans ?_ (List.Perm.append_right _ hsnd.symm)
      simp only [List.cons_append, List.singleton_append, List.nil_append]
      refine List.Perm.cons _ ?_
      refine List.Perm.append_left _ ?_
      exact List.Perm.refl _
    · exact ht1 _ (fun x hx _ => (hk' x).mpr (hc.keys_lt x hx))

/-! ### refill: the potential pays for the rotation -/

theorem fill1_fields (p : Pool) :
    winReqs p.fill1.win = winReqs p.win ++ [scan p.inw p.n p.n p.ridx] ∧
    p.fill1.inw = p.inw.set (scan p.inw p.n p.n p.ridx) true ∧
    p.fill1.ridx = (scan p.inw p.n p.n p.ridx + 1) % p.n ∧ p.fill1.n = p.n ∧ p.fill1.t = p.t := by
  refine ⟨?_, rfl, rfl, rfl, rfl⟩
  show winReqs (p.win ++ [amSlot p.id _ _]) = _
  rw [winReqs_append]; rfl

theorem OInv_fill1 {p : Pool} {posted : List Nat} (h : PCore p) (hlt : (winReqs p.win).length < p.t)
    (ho : OInv p posted) : OInv p.fill1 posted := by
  obtain ⟨f1, f2, f3, f4, f5⟩ := fill1_fields p
  have hwl : (winReqs p.win).length < p.n := by have := h.t_le; omega
  obtain ⟨x0, hx0, hx0f⟩ := exists_outside h hwl
  obtain ⟨hq, hqf⟩ := scan_finds (inw := p.inw) h.ridx_lt hx0 hx0f
  intro x hx hxf
  rw [f4] at hx
  rw [f2, getD_set_bool] at hxf
  rw [f4, f3, f5, f1, List.length_append]
  by_cases hsx : scan p.inw p.n p.n p.ridx = x
  · simp [hsx, h.inw_len, hx] at hxf
  · simp only [hsx, false_and, if_false] at hxf
    have h1 := ho x hx hxf
    have h2 := scan_cd p.inw p.n x hx hxf p.n p.ridx h.ridx_lt hq hqf
    rcases h2 with h2 | h2
    · exact absurd h2 hsx
    · simp only [List.length_cons, List.length_nil]
      omega

theorem OInv_fillN (posted : List Nat) : ∀ (m : Nat) (p : Pool), PCore p → (∀ sl, sl ∈ p.win → sl.req ≠ none) →
    (winReqs p.win).length = p.win.length → p.win.length + m = p.t → OInv p posted →
    OInv (Pool.fillN m p) posted := by
  intro m
  induction m with
  | zero => intro p _ _ _ _ ho; exact ho
  | succ m ih =>
    intro p h hf hw hl ho
    obtain ⟨h1, hf1, hl1, ht1, _, _, _, _⟩ := PCore_fill1 h hf (by omega)
    obtain ⟨f1, _, _, _, _⟩ := fill1_fields p
    show OInv (Pool.fillN m p.fill1) posted
    apply ih p.fill1 h1 hf1
    · rw [f1, List.length_append, hl1, hw]; rfl
    · rw [hl1, ht1]; omega
    · exact OInv_fill1 h (by rw [hw]; omega) ho

theorem OInv_refill {p : Pool} {posted : List Nat} (h : PInv p) (ho : OInv p posted) : OInv p.refill posted := by
  have hslots : ∀ j sl, (compact p.base p.win 0 0)[j]? = some sl →
      ∃ r, r < p.n ∧ sl = amSlot p.id r (p.base + j) := by
    intro j sl hj
    have := compact_slots p.id p.n p.base p.win 0 0 (Nat.le_refl _)
      (by intro j sl hj; simpa using h.core.slots j sl hj) j sl hj
    simpa using this
  have hwk : winReqs (compact p.base p.win 0 0) = winReqs p.win := winReqs_compact p.base p.win 0 0
  have hfl := winReqs_length_full p.id p.n p.base _ hslots
  have hlen : (compact p.base p.win 0 0).length ≤ p.t := by
    have h3 := winReqs_length_le p.win
    have := h.win_len
    rw [hwk] at hfl
    omega
  have hc : PCore { p with win := compact p.base p.win 0 0 } := by
    refine ⟨h.core.t_pos, h.core.t_le, h.core.ridx_lt, h.core.inw_len, h.core.act_len, ?_, ?_, ?_, ?_⟩
    · intro j sl hj; right; exact hslots j sl hj
    · show (winReqs (compact p.base p.win 0 0)).Nodup
      rw [hwk]; exact h.core.nodup
    · intro r hr
      show (p.inw.getD r false = true ↔ r ∈ winReqs (compact p.base p.win 0 0))
      rw [hwk]; exact h.core.inw_iff r hr
    · intro r hr hra
      show r ∈ winReqs (compact p.base p.win 0 0)
      rw [hwk]; exact h.core.act_in r hr hra
  have ho' : OInv { p with win := compact p.base p.win 0 0 } posted := by
    intro x hx hxf
    show cd p.n p.ridx x + 1 ≤ List.idxOf x posted + (p.t - (winReqs (compact p.base p.win 0 0)).length)
    rw [hwk]; exact ho x hx hxf
  exact OInv_fillN posted _ _ hc (compact_full p.base p.win 0 0) hfl
    (by show (compact p.base p.win 0 0).length + _ = p.t; omega) ho'

theorem GInv_refill {g : GPool} (h : GMid g []) : GInv g.refill := by
  have hact : ∀ r, r < g.p.n → g.p.act.getD r true = true := by
    intro r hr
    cases ha : g.p.act.getD r true with
    | true => rfl
    | false => obtain ⟨j, hj, _⟩ := h.u1 r hr ha; simp at hj
  obtain ⟨hq, e_t, e_n, e_b, e_i⟩ := PQuiet_refill h.pinv hact
  have hc := h.core
  refine ⟨hq, ⟨hc.posted_nodup, ?_, ?_, hc.keys_nodup, ?_, hc.pre, ?_, hc.conserve, OInv_refill h.pinv hc.pot⟩⟩
  · intro x; show x ∈ g.posted ↔ x < g.p.refill.n; rw [e_n]; exact hc.posted_mem x
  · show g.posted.length = g.p.refill.n; rw [e_n]; exact hc.posted_len
  · intro x hx; show x < g.p.refill.n; rw [e_n]; exact hc.keys_lt x hx
  · intro hu x hx; exact hc.full hu x (by rw [← e_n]; exact hx)

/-! ### a whole pass, reachability -/

/-- What `MPI_Testsome` may report for this tag: a window offset whose receive holds a message. -/
def GReportable (g : GPool) (j : Nat) : Prop :=
  ∃ r, r < g.p.n ∧ g.p.win[j]? = some (amSlot g.p.id r (g.p.base + j)) ∧ r ∈ g.keys

theorem GMid_reports : ∀ (js : List Nat) (g : GPool) (todo : List Nat), GMid g todo → js.Nodup →
    (∀ j, j ∈ js → GReportable g j) → GMid (js.foldl GPool.report g) (js ++ todo) := by
  intro js
  induction js with
  | nil => intro g todo h _ _; exact h
  | cons j rest ih =>
    intro g todo h hnd hrep
    rw [List.nodup_cons] at hnd
    obtain ⟨r, hr, hw, hk⟩ := hrep j (by simp)
    obtain ⟨g1, g2, g3, g4, g5, g6⟩ := GMid_report h j r hr hw hk
    have hrep' : ∀ j', j' ∈ rest → GReportable (g.report j) j' := by
      intro j' hj'
      obtain ⟨r', h1, h2, h3⟩ := hrep j' (by simp [hj'])
      exact ⟨r', by rw [g6]; exact h1, by rw [g3, g4, g5]; exact h2, by rw [g2]; exact h3⟩
    have := ih (g.report j) (j :: todo) g1 hnd.2 hrep'
    show GMid (rest.foldl GPool.report (g.report j)) (j :: rest ++ todo)
    refine ⟨this.pinv, this.core, ?_, ?_⟩
    · intro j' hj'
      apply this.t1 j'
      simp only [List.mem_append, List.mem_cons] at hj' ⊢
      rcases hj' with (h1 | h1) | h1
      · exact Or.inr (Or.inl h1)
      · exact Or.inl h1
      · exact Or.inr (Or.inr h1)
    · intro x hx hxa
      obtain ⟨j', h1, h2⟩ := this.u1 x hx hxa
      refine ⟨j', ?_, h2⟩
      simp only [List.mem_append, List.mem_cons] at h1 ⊢
      rcases h1 with h1 | h1 | h1
      · exact Or.inl (Or.inr h1)
      · exact Or.inl (Or.inl h1)
      · exact Or.inr h1

theorem GMid_serves : ∀ (js : List Nat) (g : GPool), GMid g js → js.Nodup → GMid (js.foldl GPool.serve g) [] := by
  intro js
  induction js with
  | nil => intro g h _; exact h
  | cons j rest ih =>
    intro g h hnd
    rw [List.nodup_cons] at hnd
    exact ih (g.serve j) (GMid_serve h hnd.1) hnd.2

theorem GInv.toMid {g : GPool} (h : GInv g) : GMid g [] :=
  ⟨h.quiet.inv, h.core, fun j hj => by simp at hj,
   fun r hr ha => by have := h.quiet.active r hr; rw [ha] at this; cases this⟩

theorem GInv_pass {g : GPool} (h : GInv g) (js : List Nat) (hnd : js.Nodup) (hrep : ∀ j, j ∈ js → GReportable g j) :
    GInv (g.pass js) := by
  have h1 := GMid_reports js g [] h.toMid hnd hrep
  rw [List.append_nil] at h1
  exact GInv_refill (GMid_serves js _ h1 hnd)

theorem idxOf_range : ∀ (n x : Nat), x < n → List.idxOf x (List.range n) = x := by
  intro n
  induction n with
  | zero => intro x h; omega
  | succ n ih =>
    intro x hx
    rw [List.range_succ, List.idxOf_append]
    by_cases hxn : x < n
    · simp [hxn, ih x hxn]
    · have : x = n := by omega
      subst this
      simp [List.idxOf_cons]

theorem GInv_init (id n t base : Nat) (h1 : 1 ≤ t) (h2 : t ≤ n) : GInv (GPool.init id n t base) := by
  refine ⟨PQuiet_init id n t base h1 h2, ⟨List.nodup_range, ?_, ?_, by simp [GPool.init, GPool.keys], ?_, ?_, ?_, ?_, ?_⟩⟩
  · intro r; show r ∈ List.range n ↔ r < n; simp
  · show (List.range n).length = n; simp
  · intro r hr; simp [GPool.init, GPool.keys] at hr
  · apply pairwise_of_forall
    intro a b _ _ hb; simp [GPool.init, GPool.keys] at hb
  · intro hu; exact absurd rfl hu
  · simp [GPool.init]
  · intro x hx hxf
    have hx' : x < n := hx
    have hw : (winReqs (Pool.init id n t base).win).length = t := by
      show (winReqs ((List.range t).map _)).length = t
      rw [winReqs_init]; simp
    have hinw : (Pool.init id n t base).inw.getD x false = decide (x < t) := by
      show ((List.range n).map (fun r => decide (r < t))).getD x false = _
      rw [List.getD_eq_getElem?_getD, List.getElem?_map, List.getElem?_range hx']; rfl
    have hxf' : (Pool.init id n t base).inw.getD x false = false := hxf
    rw [hinw] at hxf'
    have hxt : ¬ x < t := by simpa using hxf'
    show cd n (t % n) x + 1 ≤ List.idxOf x (List.range n) + (t - (winReqs (Pool.init id n t base).win).length)
    rw [hw, idxOf_range n x hx', Nat.mod_eq_of_lt (by omega)]
    unfold cd
    split <;> omega

/-- States of one tag reachable by arrivals of messages and passes of the progress loop. -/
inductive GReach (id n t base : Nat) : GPool → Prop
  | init : GReach id n t base (GPool.init id n t base)
  | arrive {g : GPool} (m : Nat) : GReach id n t base g → GReach id n t base (g.arrive m)
  | pass {g : GPool} (js : List Nat) : GReach id n t base g → js.Nodup → (∀ j, j ∈ js → GReportable g j) →
      GReach id n t base (g.pass js)

theorem greach_inv {id n t base : Nat} (h1 : 1 ≤ t) (h2 : t ≤ n) {g : GPool} (h : GReach id n t base g) : GInv g := by
  induction h with
  | init => exact GInv_init id n t base h1 h2
  | arrive m _ ih =>
    obtain ⟨a, b⟩ := GCore_arrive ih.core m
    exact ⟨by rw [b]; exact ih.quiet, a⟩
  | pass js _ hnd hrep ih => exact GInv_pass ih js hnd hrep

theorem GInv.conserve {g : GPool} (h : GInv g) : (g.delivered ++ g.held.map (·.2) ++ g.unexp).Perm g.arrived :=
  h.core.conserve

/-- The receive started longest ago is in the tested window. -/
theorem GInv.oldest_in_window {g : GPool} (h : GInv g) : ∃ r, g.posted.head? = some r ∧ r ∈ winReqs g.p.win := by
  have hn : 0 < g.p.n := by have := h.quiet.inv.core.t_pos; have := h.quiet.inv.core.t_le; omega
  cases hp : g.posted with
  | nil => have := h.core.posted_len; rw [hp] at this; simp at this; omega
  | cons r rest =>
    refine ⟨r, rfl, ?_⟩
    have hr : r < g.p.n := (h.core.posted_mem r).mp (by rw [hp]; simp)
    apply (h.quiet.inv.core.inw_iff r hr).mp
    cases hw : g.p.inw.getD r false with
    | true => rfl
    | false =>
      have := h.core.pot r hr hw
      rw [hp] at this
      have hfull : (winReqs g.p.win).length = g.p.t := by
        have hslots : ∀ j sl, g.p.win[j]? = some sl → ∃ r, r < g.p.n ∧ sl = amSlot g.p.id r (g.p.base + j) := by
          intro j sl hj
          rcases h.quiet.inv.core.slots j sl hj with h0 | h0
          · exact absurd h0 (h.quiet.full sl (List.mem_of_getElem? hj))
          · exact h0
        rw [winReqs_length_full g.p.id g.p.n g.p.base _ hslots, h.quiet.inv.win_len]
      rw [hfull] at this
      simp [List.idxOf_cons] at this

/-- No message is stranded outside the tested window. -/
theorem GInv.no_starvation {g : GPool} (h : GInv g) (hh : g.held ≠ []) :
    ∃ j r m, g.p.win[j]? = some (amSlot g.p.id r (g.p.base + j)) ∧ (r, m) ∈ g.held := by
  obtain ⟨r, hhead, hrw⟩ := h.oldest_in_window
  obtain ⟨e0, rest0, he0⟩ := List.exists_cons_of_ne_nil hh
  have hk0 : e0.1 ∈ g.keys := by simp [GPool.keys, he0]
  -- the head of the posted order holds a message as soon as any receive does
  have hrk : r ∈ g.keys := by
    cases hp : g.posted with
    | nil => rw [hp] at hhead; cases hhead
    | cons a tl =>
      rw [hp] at hhead; simp at hhead; subst hhead
      have hpre := h.core.pre
      rw [hp, List.pairwise_cons] at hpre
      have hmem : e0.1 ∈ g.posted := (h.core.posted_mem _).mpr (h.core.keys_lt _ hk0)
      rw [hp] at hmem
      rcases List.mem_cons.mp hmem with e | e
      · rw [← e]; exact hk0
      · exact hpre.1 _ e hk0
  -- and it sits in the window
  simp only [winReqs, List.mem_filterMap] at hrw
  obtain ⟨sl, hsl, hamr⟩ := hrw
  obtain ⟨j, hj⟩ := List.getElem?_of_mem hsl
  have hk' : r ∈ g.held.map (·.1) := hrk
  rw [List.mem_map] at hk'
  obtain ⟨e, he, her⟩ := hk'
  refine ⟨j, r, e.2, ?_, by rw [← her]; exact he⟩
  rcases h.quiet.inv.core.slots j sl hj with h0 | ⟨r', _, he'⟩
  · rw [amR_none h0] at hamr; cases hamr
  · rw [he'] at hamr; simp at hamr
    rw [hj, he', hamr]

end ParsecVerif.CommEngine
