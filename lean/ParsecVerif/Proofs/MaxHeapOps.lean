import ParsecVerif.Proofs.MaxHeap
/-!
  The three heap operations against the heap invariant: `insert_spec`, `remove_spec`, `split_spec`.
-/
namespace ParsecVerif.MaxHeap
open Tree

/-- invariant of a heap object -/
structure Inv (h : Heap) : Prop where
  shape : Shape h.size h.t
  ord : Ord h.t
  prio : ∀ x, h.t.root? = some x → h.prio = x.prio

/-- number of occurrences of `a` in an optional heap -/
def hcount (a : Task) : Option Heap → Nat
  | none => 0
  | some h => h.t.elems.count a

def osize : Option Heap → Nat
  | none => 0
  | some h => h.size

/-- an optional heap is well-formed (NULL, or a heap satisfying the invariant) -/
def OInv (o : Option Heap) : Prop := ∀ h, o = some h → Inv h

theorem inv_create : Inv create := ⟨rfl, trivial, by simp [create, Tree.root?]⟩

theorem Shape_node {n : Nat} {t : Tree} (h : Shape n t) (h0 : n ≠ 0) : ∃ l x r, t = .node l x r := by
  cases t with
  | nil => exact absurd h h0
  | node l x r => exact ⟨l, x, r, rfl⟩

theorem topPrio_root (t : Tree) (d : Int) : ∀ x, t.root? = some x → topPrio t d = x.prio := by
  intro x hx
  cases t with
  | nil => simp [Tree.root?] at hx
  | node l y r => simp [Tree.root?] at hx; subst hx; rfl

/-- top = max: the root has the highest priority of the heap -/
theorem top_is_max (h : Heap) (hi : Inv h) (x : Task) (hx : h.t.root? = some x) :
    ∀ a ∈ h.t.elems, a.prio ≤ x.prio := by
  apply Ord_max h.t hi.ord
  cases ht : h.t with
  | nil => trivial
  | node l y r => rw [ht] at hx; simp [Tree.root?] at hx; subst hx; exact Int.le_refl _

/-! ## heap_insert -/

theorem insert_t (h : Heap) (e : Task) (_hs : Shape h.size h.t) :
    (insert h e).t = (insPath e (pathOf (h.size + 1)) h.t).1 := by
  unfold insert
  by_cases h1 : h.size + 1 = 1
  · have h0 : h.size = 0 := by omega
    simp only [h1, if_true]
    rw [pathOf_one]
    rfl
  · simp only [h1, if_false]
    rw [pathBits_eq _ (by omega)]

theorem insert_spec (h : Heap) (e : Task) (hi : Inv h) :
    Inv (insert h e) ∧ (insert h e).size = h.size + 1 ∧
    ∀ a, (insert h e).t.elems.count a = h.t.elems.count a + (if e = a then 1 else 0) := by
  have ht := insert_t h e hi.shape
  obtain ⟨s1, s2⟩ := insPath_shape e h.t h.size hi.shape
  obtain ⟨o1, _, _⟩ := insPath_ord e (pathOf (h.size + 1)) h.t hi.ord
  refine ⟨⟨?_, ?_, ?_⟩, rfl, ?_⟩
  · rw [ht]; exact s1
  · rw [ht]; exact o1
  · intro x hx
    show topPrio _ _ = _
    exact topPrio_root _ _ x hx
  · intro a; rw [ht]; exact s2 a

/-! ## heap_remove -/

theorem detachPath_root : ∀ (p : List Bool) (t : Tree),
    (detachPath p t).1 = .nil ∨ (detachPath p t).1.root? = t.root? := by
  intro p t
  cases t with
  | nil => left; cases p <;> rfl
  | node l x r =>
    cases p with
    | nil => left; rfl
    | cons b bs => right; cases b <;> simp [detachPath, Tree.root?]

theorem lsz_zero (n : Nat) (h0 : n ≠ 0) (h : lsz n = 0) : n = 1 := by
  by_cases h2 : 2 ≤ n
  · exact absurd h (lsz_pos n h2)
  · omega

theorem remove_spec (h : Heap) (hi : Inv h) (h0 : h.size ≠ 0) :
    ∃ o, remove h = some o ∧ h.t.root? = some o.ret ∧ o.fresh = none ∧ OInv o.heap ∧
      osize o.heap = h.size - 1 ∧
      ∀ a, h.t.elems.count a = hcount a o.heap + (if o.ret = a then 1 else 0) := by
  obtain ⟨n, pr, t⟩ := h
  obtain ⟨hs, ho, hp⟩ := hi
  simp only at hs ho hp h0
  cases t with
  | nil => exact absurd hs h0
  | node l x r =>
    obtain ⟨_, sl, sr⟩ := hs
    cases l with
    | nil =>
      have n1 : n = 1 := lsz_zero n h0 sl
      subst n1
      rw [rsz_one] at sr
      have := Shape_zero sr
      subst this
      refine ⟨⟨none, none, x⟩, rfl, rfl, rfl, ?_, rfl, ?_⟩
      · intro h' hh; cases hh
      · intro a; simp [Tree.elems, hcount, List.count_cons]
    | node ll p lr =>
      have n2 : 2 ≤ n := by
        by_cases h1 : n = 1
        · subst h1; rw [lsz_one] at sl; exact absurd sl.1 (by simp)
        · omega
      obtain ⟨o1, o2, o3, o4⟩ := ho
      cases r with
      | nil =>
        have e2 : n = 2 := rsz_zero n n2 sr
        subst e2
        rw [lsz_two] at sl
        refine ⟨⟨some ⟨2 - 1, topPrio (.node ll p lr) pr, .node ll p lr⟩, none, x⟩, rfl, rfl, rfl, ?_, rfl, ?_⟩
        · intro h' hh
          cases hh
          exact ⟨sl, o3, fun y hy => topPrio_root (.node ll p lr) pr y hy⟩
        · intro a
          simp [Tree.elems, hcount, List.count_cons, List.count_append]
      | node rl q rr =>
        have n3 : 3 ≤ n := by
          by_cases h2 : n = 2
          · subst h2
            have : rsz 2 = 0 := by have := rsz_val 0 0 (by simp); simpa using this
            rw [this] at sr; exact absurd sr.1 (by simp)
          · omega
        have hsh : Shape n (.node (.node ll p lr) x (.node rl q rr)) := ⟨h0, sl, sr⟩
        have hord : Ord (.node (.node ll p lr) x (.node rl q rr)) := ⟨o1, o2, o3, o4⟩
        obtain ⟨last, d1, d2, d3⟩ := detachPath_shape _ n hsh h0
        obtain ⟨q1, _⟩ := detachPath_ord (pathOf n) _ hord
        have hroot := detachPath_root (pathOf n) (.node (.node ll p lr) x (.node rl q rr))
        obtain ⟨l', x', r', hd⟩ := Shape_node d2 (by omega)
        rw [hd] at hroot d2 q1 d3
        have hx : x' = x := by
          rcases hroot with hr | hr
          · cases hr
          · simpa [Tree.root?] using hr
        subst hx
        obtain ⟨_, _, q3, q4⟩ := q1
        obtain ⟨f1, _⟩ := sift_ord last _ l' x' r' rfl q3 q4
        have f2 := sift_shape last _ (n - 1) d2
        have f3 := sift_count last _ l' x' r' rfl
        refine ⟨⟨some ⟨n - 1, topPrio (sift last (.node l' x' r')) pr, sift last (.node l' x' r')⟩, none, x'⟩, ?_, rfl, rfl, ?_, rfl, ?_⟩
        · simp only [remove]
          rw [pathBits_eq n n2, d1, hd]
        · intro h' hh
          cases hh
          exact ⟨f2, f1, fun y hy => topPrio_root _ _ y hy⟩
        · intro a
          have := d3 a
          have := f3 a
          simp only [hcount, Tree.elems, List.count_cons, List.count_append, beq_iff_eq] at *
          omega

/-! ## heap_split_and_steal -/

theorem split_spec (h : Heap) (hi : Inv h) (h0 : h.size ≠ 0) (h32 : h.size < 2 ^ 32) :
    ∃ o, split h = some o ∧ h.t.root? = some o.ret ∧ OInv o.heap ∧ OInv o.fresh ∧
      osize o.heap + osize o.fresh = h.size - 1 ∧
      ∀ a, h.t.elems.count a = hcount a o.heap + hcount a o.fresh + (if o.ret = a then 1 else 0) := by
  obtain ⟨n, pr, t⟩ := h
  obtain ⟨hs, ho, hp⟩ := hi
  simp only at hs ho hp h0 h32
  cases t with
  | nil => exact absurd hs h0
  | node l x r =>
    obtain ⟨_, sl, sr⟩ := hs
    cases l with
    | nil =>
      have n1 : n = 1 := lsz_zero n h0 sl
      subst n1
      rw [rsz_one] at sr
      have := Shape_zero sr
      subst this
      refine ⟨⟨none, none, x⟩, rfl, rfl, ?_, ?_, rfl, ?_⟩
      · intro h' hh; cases hh
      · intro h' hh; cases hh
      · intro a; simp [Tree.elems, hcount, List.count_cons]
    | node ll p lr =>
      have n2 : 2 ≤ n := by
        by_cases h1 : n = 1
        · subst h1; rw [lsz_one] at sl; exact absurd sl.1 (by simp)
        · omega
      obtain ⟨o1, o2, o3, o4⟩ := ho
      cases r with
      | nil =>
        have e2 : n = 2 := rsz_zero n n2 sr
        subst e2
        rw [lsz_two] at sl
        refine ⟨⟨some ⟨2 - 1, topPrio (.node ll p lr) pr, .node ll p lr⟩, none, x⟩, rfl, rfl, ?_, ?_, rfl, ?_⟩
        · intro h' hh
          cases hh
          exact ⟨sl, o3, fun y hy => topPrio_root (.node ll p lr) pr y hy⟩
        · intro h' hh; cases hh
        · intro a
          simp [Tree.elems, hcount, List.count_cons, List.count_append]
      | node rl q rr =>
        have hsz := splitSizes_eq n n2 h32
        refine ⟨⟨some ⟨(splitSizes n).2, topPrio (.node rl q rr) pr, .node rl q rr⟩,
                 some ⟨(splitSizes n).1, topPrio (.node ll p lr) 0, .node ll p lr⟩, x⟩, rfl, rfl, ?_, ?_, ?_, ?_⟩
        · intro h' hh
          cases hh
          exact ⟨by rw [hsz]; exact sr, o4, fun y hy => topPrio_root (.node rl q rr) pr y hy⟩
        · intro h' hh
          cases hh
          exact ⟨by rw [hsz]; exact sl, o3, fun y hy => topPrio_root (.node ll p lr) 0 y hy⟩
        · simp only [osize, hsz]
          have := lsz_add_rsz n h0
          omega
        · intro a
          simp only [hcount, Tree.elems, List.count_cons, List.count_append, beq_iff_eq]
          omega

/-- the sizes written by the split are the real sizes of the two subtrees -/
theorem split_sizes_real (h : Heap) (hi : Inv h) (l r : Tree) (x : Task) (ht : h.t = .node l x r)
    (h2 : 2 ≤ h.size) (h32 : h.size < 2 ^ 32) :
    splitSizes h.size = (l.size, r.size) := by
  have hs := hi.shape
  rw [ht] at hs
  obtain ⟨_, sl, sr⟩ := hs
  rw [splitSizes_eq h.size h2 h32, Shape_size l _ sl, Shape_size r _ sr]

end ParsecVerif.MaxHeap
