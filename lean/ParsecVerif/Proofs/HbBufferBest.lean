import ParsecVerif.Proofs.HbBuffer
/-!
  Quiescent `parsec_hbbuffer_pop_best`: when no other thread moves, the scan + CAS returns the task of
  highest priority, the one at the lowest index among equals, and empties exactly that slot.
-/
namespace ParsecVerif.HbBuffer
open ParsecVerif.MaxHeap (Task)

/-- thread `t` alone takes `n` micro steps -/
def solo : Nat → State → Nat → State
  | 0, s, _ => s
  | n + 1, s, t => solo n (step s t) t

/-- the update of (best_elt, best_idx) by one candidate -/
def better (best : Option (Task × Nat)) (c : Task) (i : Nat) : Option (Task × Nat) :=
  match best with
  | none => some (c, i)
  | some (t, k) => if c.prio > t.prio then some (c, i) else some (t, k)

/-- the scan loop of pop_best over the slots `rest` starting at index `i` -/
def scan : List (Option Task) → Nat → Option (Task × Nat) → Option (Task × Nat)
  | [], _, best => best
  | none :: r, i, best => scan r (i + 1) best
  | some c :: r, i, best => scan r (i + 1) (better best c i)

/-- `b` is the best element of `l`: highest priority, lowest index among equals (none: `l` is empty of tasks) -/
def IsBest (l : List (Option Task)) : Option (Task × Nat) → Prop
  | none => ∀ (j : Nat) (y : Task), l[j]? = some (some y) → False
  | some (x, k) => l[k]? = some (some x) ∧
      ∀ (j : Nat) (y : Task), l[j]? = some (some y) → y.prio < x.prio ∨ (y.prio = x.prio ∧ k ≤ j)

theorem getElem?_snoc {α} (l : List α) (c : α) (j : Nat) (v : α) (h : (l ++ [c])[j]? = some v) :
    (j < l.length ∧ l[j]? = some v) ∨ (j = l.length ∧ v = c) := by
  by_cases hj : j < l.length
  · rw [List.getElem?_append_left hj] at h; exact Or.inl ⟨hj, h⟩
  · rw [List.getElem?_append_right (by omega)] at h
    rw [List.getElem?_singleton] at h
    split at h
    · right; constructor
      · omega
      · simpa using h.symm
    · cases h

theorem isBest_snoc_none (pre : List (Option Task)) (b : Option (Task × Nat)) (h : IsBest pre b) :
    IsBest (pre ++ [none]) b := by
  cases b with
  | none =>
    simp only [IsBest] at h ⊢
    intro j y hj
    rcases getElem?_snoc _ _ _ _ hj with ⟨_, h1⟩ | ⟨_, h1⟩
    · exact h j y h1
    · cases h1
  | some p =>
    obtain ⟨x, k⟩ := p
    simp only [IsBest] at h ⊢
    obtain ⟨h1, h2⟩ := h
    have hk : k < pre.length := (List.getElem?_eq_some_iff.1 h1).1
    refine ⟨by rw [List.getElem?_append_left hk]; exact h1, ?_⟩
    intro j y hj
    rcases getElem?_snoc _ _ _ _ hj with ⟨_, h3⟩ | ⟨_, h3⟩
    · exact h2 j y h3
    · cases h3

theorem isBest_snoc_some (pre : List (Option Task)) (b : Option (Task × Nat)) (c : Task) (h : IsBest pre b) :
    IsBest (pre ++ [some c]) (better b c pre.length) := by
  cases b with
  | none =>
    simp only [IsBest, better] at h ⊢
    refine ⟨List.getElem?_concat_length, ?_⟩
    intro j y hj
    rcases getElem?_snoc _ _ _ _ hj with ⟨_, h1⟩ | ⟨h0, h1⟩
    · exact absurd h1 (fun hh => h j y hh)
    · cases h1; right; exact ⟨rfl, by omega⟩
  | some p =>
    obtain ⟨x, k⟩ := p
    simp only [IsBest] at h
    obtain ⟨h1, h2⟩ := h
    have hk : k < pre.length := (List.getElem?_eq_some_iff.1 h1).1
    simp only [better]
    split
    · rename_i hgt
      simp only [IsBest]
      refine ⟨List.getElem?_concat_length, ?_⟩
      intro j y hj
      rcases getElem?_snoc _ _ _ _ hj with ⟨_, h3⟩ | ⟨h0, h3⟩
      · rcases h2 j y h3 with h4 | ⟨h4, _⟩
        · left; omega
        · left; omega
      · cases h3; right; exact ⟨rfl, by omega⟩
    · rename_i hgt
      simp only [IsBest]
      refine ⟨by rw [List.getElem?_append_left hk]; exact h1, ?_⟩
      intro j y hj
      rcases getElem?_snoc _ _ _ _ hj with ⟨_, h3⟩ | ⟨h0, h3⟩
      · exact h2 j y h3
      · cases h3
        by_cases he : c.prio = x.prio
        · right; exact ⟨he, by omega⟩
        · left; omega

/-- the scan computes the best element -/
theorem scan_isBest : ∀ (rest pre : List (Option Task)) (b : Option (Task × Nat)), IsBest pre b →
    IsBest (pre ++ rest) (scan rest pre.length b) := by
  intro rest
  induction rest with
  | nil => intro pre b h; simpa [scan] using h
  | cons c r ih =>
    intro pre b h
    have e : pre ++ c :: r = (pre ++ [c]) ++ r := by simp
    rw [e]
    cases c with
    | none =>
      have := ih (pre ++ [none]) b (isBest_snoc_none pre b h)
      simpa [scan] using this
    | some c =>
      have := ih (pre ++ [some c]) _ (isBest_snoc_some pre b c h)
      simpa [scan] using this

theorem scan_spec (slots : List (Option Task)) : IsBest slots (scan slots 0 none) := by
  have := scan_isBest slots [] none (by simp [IsBest])
  simpa using this

/-! ## the micro steps of a lone pop_best -/

theorem set_same {α} (l : List α) (t : Nat) (x : α) (h : l[t]? = some x) : l.set t x = l := by
  obtain ⟨hi, he⟩ := List.getElem?_eq_some_iff.1 h
  rw [← he]; exact List.set_getElem_self hi

/-- the scan part: `rest.length` reads -/
theorem solo_scan (t : Nat) : ∀ (rest : List (Option Task)) (s : State) (th : Thread) (i : Nat) (best : Option (Task × Nat)),
    s.thr[t]? = some th → th.pc = .poRd i best → s.mem.slots.drop i = rest → i + rest.length = s.mem.slots.length →
    solo rest.length s t =
      { mem := s.mem, thr := s.thr.set t (th.goto (.poRd s.mem.slots.length (scan rest i best))) } := by
  intro rest
  induction rest with
  | nil =>
    intro s th i best ht hpc _ hlen
    simp only [List.length_nil, Nat.add_zero] at hlen
    simp only [solo, List.length_nil, scan]
    have : th.goto (.poRd s.mem.slots.length best) = th := by
      rw [← hlen, ← hpc]; rfl
    rw [this, set_same _ _ _ ht]
  | cons c r ih =>
    intro s th i best ht hpc hdrop hlen
    simp only [List.length_cons] at hlen
    have hi : i < s.mem.slots.length := by omega
    have hc : s.mem.slots[i]? = some c := by
      have := @List.getElem?_drop _ s.mem.slots i 0
      rw [hdrop] at this
      simpa using this.symm
    have hr : s.mem.slots.drop (i + 1) = r := by
      rw [List.drop_eq_getElem_cons hi] at hdrop
      exact (List.cons.inj hdrop).2
    have hti : t < s.thr.length := (List.getElem?_eq_some_iff.1 ht).1
    simp only [List.length_cons, solo]
    -- one read
    have hstep : ∃ b', step s t = { mem := s.mem, thr := s.thr.set t (th.goto (.poRd (i + 1) b')) } ∧
        scan (c :: r) i best = scan r (i + 1) b' := by
      unfold step
      rw [ht]
      simp only [stepTh, hpc, stepPc]
      have hnot : ¬ i ≥ s.mem.slots.length := by omega
      simp only [hnot, if_false, hc]
      cases c with
      | none => exact ⟨best, rfl, rfl⟩
      | some c =>
        cases best with
        | none => exact ⟨some (c, i), rfl, rfl⟩
        | some p =>
          obtain ⟨x, k⟩ := p
          simp only
          split
          · rename_i hgt; exact ⟨some (c, i), rfl, by simp [scan, better, hgt]⟩
          · rename_i hgt; exact ⟨some (x, k), rfl, by simp [scan, better, hgt]⟩
    obtain ⟨b', hs, hsc⟩ := hstep
    rw [hs, hsc]
    have := ih { mem := s.mem, thr := s.thr.set t (th.goto (.poRd (i + 1) b')) } (th.goto (.poRd (i + 1) b')) (i + 1) b'
      (by simp [List.getElem?_set_self hti]) rfl hr (by simp only; omega)
    rw [this]
    simp [Thread.goto, List.set_set]

/-- result of a lone pop_best on the slots -/
def popResult (slots : List (Option Task)) : Option Task := (scan slots 0 none).map (·.1)

/-- state after a lone pop_best by thread `t` (whose record is `th`) -/
def afterPop (s : State) (t : Nat) (th : Thread) : State :=
  match scan s.mem.slots 0 none with
  | none => { mem := s.mem, thr := s.thr.set t { th with pc := .idle, rets := th.rets ++ [.item none] } }
  | some (x, k) =>
    { mem := { s.mem with slots := s.mem.slots.set k none },
      thr := s.thr.set t { th with pc := .idle, hand := x :: th.hand, rets := th.rets ++ [.item (some x)] } }

theorem step_at (s : State) (t : Nat) (th : Thread) (ht : s.thr[t]? = some th) :
    step s t = { mem := (stepPc s.mem th th.pc).1, thr := s.thr.set t (stepPc s.mem th th.pc).2 } := by
  unfold step; rw [ht]; rfl

theorem solo_add (t : Nat) : ∀ (n m : Nat) (s : State), solo (n + m) s t = solo m (solo n s t) t := by
  intro n
  induction n with
  | zero => intro m s; simp [solo]
  | succ n ih => intro m s; rw [Nat.add_right_comm]; simp only [solo]; exact ih m _

/-- a pop_best that runs alone: `size` reads, the end-of-scan test, and (if a task was seen) one CAS, which succeeds -/
theorem solo_pop (s : State) (t : Nat) (th : Thread) (ht : s.thr[t]? = some th) (hpc : th.pc = .poRd 0 none) :
    solo (s.mem.slots.length + 2) s t = afterPop s t th ∨ solo (s.mem.slots.length + 1) s t = afterPop s t th := by
  have hti : t < s.thr.length := (List.getElem?_eq_some_iff.1 ht).1
  have h1 := solo_scan t s.mem.slots s th 0 none ht hpc (by simp) (by simp)
  have hb := scan_spec s.mem.slots
  unfold afterPop
  cases hsc : scan s.mem.slots 0 none with
  | none =>
    right
    rw [solo_add, h1, hsc]
    simp only [solo]
    rw [step_at _ t (th.goto (.poRd s.mem.slots.length none)) (by simp [List.getElem?_set_self hti])]
    simp [stepPc, Thread.goto, Thread.finish, List.set_set]
  | some p =>
    obtain ⟨x, k⟩ := p
    left
    rw [hsc] at hb
    simp only [IsBest] at hb
    obtain ⟨hk, _⟩ := hb
    rw [solo_add, h1, hsc]
    have e1 : step { mem := s.mem, thr := s.thr.set t (th.goto (.poRd s.mem.slots.length (some (x, k)))) } t =
        { mem := s.mem, thr := s.thr.set t ⟨.poCas x k, th.todo, th.hand, th.rets⟩ } := by
      rw [step_at _ t (th.goto (.poRd s.mem.slots.length (some (x, k)))) (by simp [List.getElem?_set_self hti])]
      simp [stepPc, Thread.goto, List.set_set]
    have e2 : step { mem := s.mem, thr := s.thr.set t ⟨.poCas x k, th.todo, th.hand, th.rets⟩ } t =
        { mem := { s.mem with slots := s.mem.slots.set k none },
          thr := s.thr.set t { th with pc := .idle, hand := x :: th.hand, rets := th.rets ++ [.item (some x)] } } := by
      rw [step_at _ t ⟨.poCas x k, th.todo, th.hand, th.rets⟩ (by simp [List.getElem?_set_self hti])]
      simp [stepPc, hk, List.set_set]
    simp only [solo]
    rw [e1, e2]

end ParsecVerif.HbBuffer
