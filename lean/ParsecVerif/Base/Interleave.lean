/-
  Generic facts for small-step concurrent machines whose thread-local state is a list of
  program points indexed by thread id.
-/
namespace ParsecVerif.Interleave

/-- Changing the program point of one thread moves one unit between two counters. -/
theorem count_set_move {α} [DecidableEq α] (l : List α) (i : Nat) (y : α) (h : i < l.length) (b : α) :
    (l.set i y).count b + (if l[i] = b then 1 else 0) = l.count b + (if y = b then 1 else 0) := by
  rw [List.count_set h]
  by_cases hb : l[i] = b
  · have hm : b ∈ l := hb ▸ List.getElem_mem h
    have hpos := List.count_pos_iff.2 hm
    by_cases hy : y = b <;> simp [hb, hy] <;> omega
  · by_cases hy : y = b <;> simp [hb, hy]

end ParsecVerif.Interleave
