/-
  Generic facts for small-step concurrent machines whose thread-local state is a list of
  program points indexed by thread id.
-/
namespace ParsecVerif.Interleave

/-- Changing the program point of one thread moves one unit between two counters. -/
theorem count_set_move {α} [DecidableEq α] (l : List α) (i : Nat) (y : α) (h : i < l.length) (b : α) :
    (l.set i y).count b + (if l[i] = b then 1 else 0) = l.count b + (if y = b then 1 else 0) := by
  rw [List.count_set h]
  by_cases hb : l[i] = b
  · have hm : b ∈ l := hb ▸ List.getElem_mem h
    have hpos := List.count_pos_iff.2 hm
    by_cases hy : y = b <;> simp [hb, hy] <;> omega
  · by_cases hy : y = b <;> simp [hb, hy]

end ParsecVerif.Interleave

namespace ParsecVerif.Interleave

/-- replacing one entry of a list of naturals moves the sum accordingly -/
theorem sum_set (l : List Nat) (i v : Nat) (h : i < l.length) : (l.set i v).sum + l[i] = l.sum + v := by
  induction l generalizing i with
  | nil => simp at h
  | cons a t ih =>
    cases i with
    | zero => simp; omega
    | succ k =>
      simp only [List.length_cons, Nat.add_lt_add_iff_right] at h
      have := ih k h
      simp only [List.set_cons_succ, List.sum_cons, List.getElem_cons_succ]
      omega

end ParsecVerif.Interleave
