/-
  Line protocol shared by all drivers: one operation per line on stdin, one canonical
  result line per operation on stdout.  Mathlib-free (drivers are linked as executables).
-/
namespace ParsecVerif.Proto

def words (line : String) : List String :=
  (line.trimAscii.toString.splitOn " ").filter (· ≠ "")

/-- Parse a (possibly negative) decimal integer. -/
def int? (s : String) : Option Int := s.toInt?

def nat? (s : String) : Option Nat := s.toNat?

def nats? (ws : List String) : Option (List Nat) := ws.mapM nat?
def ints? (ws : List String) : Option (List Int) := ws.mapM int?

def showList {α} [ToString α] (l : List α) : String :=
  "[" ++ " ".intercalate (l.map toString) ++ "]"

/-- Run a state machine over stdin lines.  `step` never defaults: malformed lines must
    yield `bad-op` (the harness side does the same). -/
partial def loop {σ : Type} (step : σ → List String → σ × String) (h : IO.FS.Stream)
    (out : IO.FS.Stream) (s : σ) : IO Unit := do
  let line ← h.getLine
  if line.isEmpty then
    out.flush
    return ()
  let (s', o) := step s (words line)
  out.putStrLn o
  loop step h out s'

def run {σ : Type} (init : σ) (step : σ → List String → σ × String) : IO Unit := do
  let stdin ← IO.getStdin
  let stdout ← IO.getStdout
  loop step stdin stdout init

end ParsecVerif.Proto
