import ParsecVerif.Proofs.DataflowLive
import ParsecVerif.Proofs.DataflowAgain
/-!
# Theorems about the abstract runtime (generic dataflow machine)

These are the unbounded statements that C01 (exactly once), C02 (dependency order, schedule
independence of the computed values) and C16 (AGAIN re-execution) instantiate on the task graph
of a PTG program, and that C03/C04 reuse for DTD chains.  They hold for EVERY task graph with a
topological rank, EVERY number of workers and EVERY interleaving of
start / again / finish / per-dependency release transitions.
-/
namespace ParsecVerif.Runtime
open ParsecVerif.Dataflow

variable {g : Graph} {F : Nat → List (Option Nat) → Nat} {rank : Nat → Nat}

/-- **Exactly once (safety).**  In every reachable state a node has completed at most once, and
    exactly once iff it is in the `ended` state. -/
theorem completes_at_most_once (hwf : WF g rank) (again : List Nat) (ts : List Tr) (i : Nat) :
    (run g F again ts).log.count (.end_ i) ≤ 1 ∧
    ((run g F again ts).log.count (.end_ i) = 1 ↔ (run g F again ts).status[i]? = some .ended) := by
  have h := (inv_run (F := F) hwf again ts).cnt i
  constructor
  · rw [h]; split <;> omega
  · rw [h]; constructor
    · intro hh; split at hh
      · assumption
      · omega
    · intro hh; rw [if_pos hh]

/-- nothing outside the graph ever runs -/
theorem only_graph_nodes_run (hwf : WF g rank) (again : List Nat) (ts : List Tr) (i : Nat) (hi : g.n ≤ i) :
    (run g F again ts).log.count (.end_ i) = 0 := by
  have h := inv_run (F := F) hwf again ts
  rw [h.cnt i]
  have : (run g F again ts).status[i]? = none := List.getElem?_eq_none (by rw [h.len]; exact hi)
  rw [this]; simp

/-- **Dependencies respected.**  Whenever a node starts, every node it depends on has completed
    before (its `end_` event is strictly earlier in the trace). -/
theorem deps_respected (hwf : WF g rank) (again : List Nat) (ts : List Tr) (L1 L2 : List Ev) (j : Nat)
    (hl : (run g F again ts).log = L1 ++ Ev.start j :: L2) (e : Nat × Nat) (he : e ∈ g.E) (hj : e.2 = j) :
    Ev.end_ e.1 ∈ L1 :=
  (inv_run (F := F) hwf again ts).order L1 L2 j hl e he hj

/-- **No deadlock:** a reachable state that is not quiescent has an enabled transition. -/
theorem deadlock_free (hwf : WF g rank) (again : List Nat) (ts : List Tr)
    (hq : ¬ quiescent (run g F again ts)) : ∃ t, enabled (run g F again ts) t = true :=
  progress hwf (inv_run (F := F) hwf again ts) hq

/-- **Termination:** every enabled transition of a reachable state strictly decreases a natural
    measure, so no run is infinite (at most `mu init` effective steps). -/
theorem step_decreases (hwf : WF g rank) (again : List Nat) (ts : List Tr) (t : Tr)
    (hen : enabled (run g F again ts) t = true) :
    mu (step g F (run g F again ts) t) < mu (run g F again ts) := by
  apply mu_decreases g F _ t hen
  intro a b ht
  subst ht
  exact Or.inl (release_target_waiting hwf (inv_run (F := F) hwf again ts) a b hen)

/-- **Every node runs exactly once** in every maximal run: a run that cannot be extended is
    quiescent (by `deadlock_free`), and in a quiescent state every node of the graph has exactly
    one completion. -/
theorem quiescent_all_once (hwf : WF g rank) (again : List Nat) (ts : List Tr)
    (hq : quiescent (run g F again ts)) (i : Nat) (hi : i < g.n) :
    (run g F again ts).log.count (.end_ i) = 1 := by
  have h := inv_run (F := F) hwf again ts
  have hlen : i < (run g F again ts).status.length := h.len ▸ hi
  have : (run g F again ts).status[i]? = some .ended := by
    rw [List.getElem?_eq_getElem hlen]; congr 1; exact hq.2 _ (List.getElem_mem hlen)
  rw [h.cnt i, if_pos this]

theorem maximal_run_is_quiescent (hwf : WF g rank) (again : List Nat) (ts : List Tr)
    (hmax : ∀ t, enabled (run g F again ts) t = false) : quiescent (run g F again ts) :=
  Classical.byContradiction (fun hq => by
    obtain ⟨t, ht⟩ := deadlock_free hwf again ts hq
    rw [hmax t] at ht; exact absurd ht (by simp))

/-- **Schedule independence of the values (confluence).**  Two complete runs of the same graph
    with the same deterministic bodies — whatever the schedules, worker counts and AGAIN answers —
    end with the same value at every node. -/
theorem values_schedule_independent (hwf : WF g rank) (ag1 ag2 : List Nat) (ts1 ts2 : List Tr)
    (hq1 : quiescent (run g F ag1 ts1)) (hq2 : quiescent (run g F ag2 ts2)) :
    ∀ i, i < g.n → (run g F ag1 ts1).val[i]? = (run g F ag2 ts2).val[i]? := by
  have h1 := inv_run (F := F) hwf ag1 ts1
  have h2 := inv_run (F := F) hwf ag2 ts2
  have ended : ∀ (s : St), Inv g F s → quiescent s → ∀ i, i < g.n → s.status[i]? = some .ended := by
    intro s h hq i hi
    have hlen : i < s.status.length := h.len ▸ hi
    rw [List.getElem?_eq_getElem hlen]; congr 1; exact hq.2 _ (List.getElem_mem hlen)
  intro i
  induction hr : rank i using Nat.strongRecOn generalizing i with
  | _ r ih =>
    intro hi
    rw [h1.vals i (ended _ h1 hq1 i hi), h2.vals i (ended _ h2 hq2 i hi)]
    congr 3
    unfold inputs
    apply List.map_congr_left
    intro p hp
    have hpe := (mem_predsOf g i p).1 hp
    have hlt : rank p < rank i := hwf.2 (p, i) hpe
    have := ih (rank p) (by rw [← hr]; exact hlt) p rfl (hwf.1 (p, i) hpe).1
    rw [this]

theorem inv2_run (hwf : WF g rank) (again : List Nat) (ts : List Tr) : Inv2 again (run g F again ts) := by
  have key : ∀ (ts : List Tr) (s : St), Inv g F s → Inv2 again s →
      Inv g F (ts.foldl (step g F) s) ∧ Inv2 again (ts.foldl (step g F) s) := by
    intro ts
    induction ts with
    | nil => intro s h1 h2; exact ⟨h1, h2⟩
    | cons t ts ih =>
      intro s h1 h2
      exact ih _ (inv_step hwf s h1 t)
        (inv2_step g F again s h2 (fun a b hen => release_target_waiting hwf h1 a b hen) t)
  exact (key ts _ (inv_init g F again rank hwf) (inv2_init g again)).2

/-- **AGAIN re-execution (C16).**  A node whose body answers AGAIN `k` times is started exactly
    `k + 1` times in every complete run, completes once (so its successors are released once, after
    the final DONE), and at every moment `#starts = #AGAIN answers + [running or ended]`. -/
theorem again_reexecutes (hwf : WF g rank) (again : List Nat) (ts : List Tr)
    (hq : quiescent (run g F again ts)) (i : Nat) (hi : i < g.n) :
    (run g F again ts).log.count (.start i) = (again[i]?).getD 0 + 1 ∧
    (run g F again ts).log.count (.end_ i) = 1 := by
  have h := inv_run (F := F) hwf again ts
  have h2 := inv2_run (F := F) hwf again ts
  have hlen : i < (run g F again ts).status.length := h.len ▸ hi
  have hend : (run g F again ts).status[i]? = some .ended := by
    rw [List.getElem?_eq_getElem hlen]; congr 1; exact hq.2 _ (List.getElem_mem hlen)
  refine ⟨?_, quiescent_all_once hwf again ts hq i hi⟩
  have hs := h2.starts i
  have hb := h2.budget i
  have hz := h2.zero i hend
  rw [hend] at hs
  simp only [active] at hs
  simp at hs
  omega

/-- never more starts than the AGAIN answers allow, at any moment of any run -/
theorem starts_bounded (hwf : WF g rank) (again : List Nat) (ts : List Tr) (i : Nat) :
    (run g F again ts).log.count (.start i) ≤ (again[i]?).getD 0 + 1 := by
  have h2 := inv2_run (F := F) hwf again ts
  have hs := h2.starts i
  have hb := h2.budget i
  have : active (run g F again ts).status[i]? ≤ 1 := by unfold active; split <;> omega
  omega

/-! Non-vacuity: a diamond 0 → {1,2} → 3 with a duplicated dependency 0 → 1, node 2 answering AGAIN
    once; two different complete schedules. -/
def diamond : Graph := ⟨4, [(0, 1), (0, 1), (0, 2), (1, 3), (2, 3)]⟩
def sumF : Nat → List (Option Nat) → Nat := fun i ins => i + 1 + (ins.map (·.getD 0)).sum
example : WF diamond id := by
  constructor <;> (intro e he; simp [diamond] at he; rcases he with rfl | rfl | rfl | rfl <;> simp [diamond])
def schedA : List Tr := [.start 0, .finish 0, .release 0 1, .release 0 2, .release 0 1, .start 2, .again 2, .start 1,
  .finish 1, .start 2, .release 1 3, .finish 2, .release 2 3, .start 3, .finish 3]
def schedB : List Tr := [.start 0, .finish 0, .release 0 2, .start 2, .again 2, .start 2, .finish 2, .release 2 3,
  .release 0 1, .release 0 1, .start 1, .finish 1, .release 1 3, .start 3, .finish 3]
example : (run diamond sumF [0, 0, 1, 0] schedA).pending = [] ∧
    (run diamond sumF [0, 0, 1, 0] schedA).status = [.ended, .ended, .ended, .ended] ∧
    (run diamond sumF [0, 0, 1, 0] schedA).val = (run diamond sumF [0, 0, 1, 0] schedB).val := by decide

end ParsecVerif.Runtime
