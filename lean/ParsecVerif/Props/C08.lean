import ParsecVerif.Proofs.Sched.Simple
import ParsecVerif.Proofs.Sched.Lifo
import ParsecVerif.Proofs.Sched.Hbb
import ParsecVerif.Proofs.Sched.Ltq
import ParsecVerif.Proofs.Sched.Vp
import ParsecVerif.Model.Sched.All
import ParsecVerif.Proofs.Sched.LlpConc
/-!
# C08 — schedulers never lose or duplicate a ready task

Models (`ParsecVerif.Sched`, one machine per module of parsec/mca/sched over its real containers):
`Model/Sched/Prio.lean` (ap, ip, spq), `Simple.lean` (gd, rnd, ll, llp with `lifo_merge_ring`),
`Hbb.lean` (hierarchical bounded buffers: lfq, lhq, pbq), `Ltq.lean` (ltq and the max-heaps of
maxheap.c), `Vp.lean` (`__parsec_schedule_vp`'s next_task retention on top of any module).
One step = one module call (`MOp`), issued by ANY stream of the virtual process: a history is any
interleaving of the streams' calls at module-call granularity.

The theorems are proved once for a generic bag-refining machine (`Proofs/Sched/Bag.lean`) and
instantiated with a `Module.Correct` certificate per module (`Proofs/Sched/*.lean`).
Quantification: every module, every stream count / buffer topology satisfying the stated
shape condition, every finite history, any ring contents, priorities and distances.
Task identity is `Task.id`.
-/
namespace ParsecVerif.C08
open ParsecVerif.Sched

/-- the refinement certificate of each module (invariant + the four bag facts + liveness) -/
def ModId.correct : (m : ModId) → m.module.Correct
  | .ap => apCorrect | .gd => gdCorrect | .ip => ipCorrect | .lfq => hbbCorrect | .lhq => hbbCorrect
  | .ll => llCorrect | .llp => llpCorrect | .ltq => ltqCorrect | .pbq => pbqCorrect | .rnd => rndCorrect
  | .spq => spqCorrect

/-! ### the theorems, for a plain module and for a module under next_task retention -/

/-- **Conservation.**  For every module, from any empty state satisfying the module's shape
    invariant and for every history of schedule/select calls on any streams: pending ⊎ returned =
    scheduled (as multisets of task identities) — nothing is lost, nothing is invented. -/
theorem C08_conservation (m : ModId) (s0 : m.module.St) (hinv : m.correct.Inv s0)
    (hempty : m.module.pending s0 = []) (ops : List MOp) :
    (ids (m.module.pending (m.module.runFrom s0 [] ops).1) ++ ids (m.module.runFrom s0 [] ops).2).Perm
      (ids (scheduledOf (m.module.nstreams s0) ops)) := by
  have h := (m.correct.conservation_from ops s0 [] hinv).2
  simpa [hempty, ids] using h

/-- **No duplicate.**  If the tasks handed in are pairwise distinct, no task is ever returned
    twice, nor returned while still pending. -/
theorem C08_no_duplicate (m : ModId) (s0 : m.module.St) (hinv : m.correct.Inv s0)
    (hempty : m.module.pending s0 = []) (ops : List MOp)
    (hnd : (ids (scheduledOf (m.module.nstreams s0) ops)).Nodup) :
    (ids (m.module.pending (m.module.runFrom s0 [] ops).1) ++ ids (m.module.runFrom s0 [] ops).2).Nodup :=
  m.correct.no_duplicate ops s0 hinv hempty hnd

/-- the invariant is kept along every history (so the two theorems below apply to every reachable state) -/
theorem C08_invariant (m : ModId) (s0 : m.module.St) (hinv : m.correct.Inv s0) (ops : List MOp) :
    m.correct.Inv (m.module.runFrom s0 [] ops).1 :=
  (m.correct.conservation_from ops s0 [] hinv).1

/-- **Progress.**  While something is pending, some stream of the virtual process selects a task. -/
theorem C08_progress (m : ModId) (s : m.module.St) (hinv : m.correct.Inv s) (hne : m.module.pending s ≠ []) :
    ∃ es, es < m.module.nstreams s ∧ (m.module.select s es).2 ≠ none :=
  m.correct.live s hinv hne

/-- **Drain.**  `k = |pending|` successive selects on suitable streams return `k` tasks and leave
    nothing pending. -/
theorem C08_drain (m : ModId) (s : m.module.St) (hinv : m.correct.Inv s) :
    ∃ ess : List Nat, ess.length = (m.module.pending s).length ∧ (∀ es ∈ ess, es < m.module.nstreams s) ∧
      m.module.pending (m.module.runFrom s [] (ess.map MOp.sel)).1 = [] ∧
      (m.module.runFrom s [] (ess.map MOp.sel)).2.length = (m.module.pending s).length :=
  m.correct.drain _ s hinv rfl

/-- conservation with `__parsec_schedule_vp` / `__parsec_get_next_task` in front of the module
    (`pending` then includes the tasks retained in `es->next_task`) -/
theorem C08_vp_conservation (m : ModId) (s0 : (vpModule m.module).St) (hinv : (vpCorrect m.correct).Inv s0)
    (hempty : (vpModule m.module).pending s0 = []) (ops : List MOp) :
    (ids ((vpModule m.module).pending ((vpModule m.module).runFrom s0 [] ops).1) ++
      ids ((vpModule m.module).runFrom s0 [] ops).2).Perm
      (ids (scheduledOf ((vpModule m.module).nstreams s0) ops)) := by
  have h := ((vpCorrect m.correct).conservation_from ops s0 [] hinv).2
  simpa [hempty, ids] using h

theorem C08_vp_drain (m : ModId) (s : (vpModule m.module).St) (hinv : (vpCorrect m.correct).Inv s) :
    ∃ ess : List Nat, ess.length = ((vpModule m.module).pending s).length ∧
      (∀ es ∈ ess, es < (vpModule m.module).nstreams s) ∧
      (vpModule m.module).pending ((vpModule m.module).runFrom s [] (ess.map MOp.sel)).1 = [] ∧
      ((vpModule m.module).runFrom s [] (ess.map MOp.sel)).2.length = ((vpModule m.module).pending s).length :=
  (vpCorrect m.correct).drain _ s hinv rfl

/-! ### the initial states satisfy the hypotheses -/

/-- shared-object modules (ap, ip, spq, gd, rnd) with `n ≥ 1` streams -/
theorem init_shared {σ : Type} {sched : σ → SArg → σ} {sel : σ → σ × Option (Task × Int)} {pend : σ → List Task}
    (h : SharedCorrect sched sel pend) (n : Nat) (hn : 0 < n) (st : σ) : (sharedCorrect h).Inv ⟨n, st⟩ := hn

theorem init_ap (n : Nat) (hn : 0 < n) : (ModId.correct .ap).Inv ⟨n, LSt.init⟩ ∧ (ModId.module .ap).pending ⟨n, LSt.init⟩ = [] := ⟨hn, rfl⟩
theorem init_ip (n : Nat) (hn : 0 < n) : (ModId.correct .ip).Inv ⟨n, LSt.init⟩ ∧ (ModId.module .ip).pending ⟨n, LSt.init⟩ = [] := ⟨hn, rfl⟩
theorem init_spq (n : Nat) (hn : 0 < n) : (ModId.correct .spq).Inv ⟨n, SpqSt.init⟩ ∧ (ModId.module .spq).pending ⟨n, SpqSt.init⟩ = [] := ⟨hn, rfl⟩
theorem init_gd (n : Nat) (hn : 0 < n) : (ModId.correct .gd).Inv ⟨n, []⟩ ∧ (ModId.module .gd).pending ⟨n, []⟩ = [] := ⟨hn, rfl⟩
theorem init_rnd (n : Nat) (hn : 0 < n) : (ModId.correct .rnd).Inv ⟨n, []⟩ ∧ (ModId.module .rnd).pending ⟨n, []⟩ = [] := ⟨hn, rfl⟩

theorem flatten_replicate_nil {α : Type} : ∀ n : Nat, (List.replicate n ([] : List α)).flatten = []
  | 0 => rfl
  | n + 1 => by simp [List.replicate_succ, flatten_replicate_nil n]

theorem init_ll (n : Nat) (hn : 0 < n) : (ModId.correct .ll).Inv (LlSt.init n) ∧ (ModId.module .ll).pending (LlSt.init n) = [] :=
  ⟨⟨hn, by simp [LlSt.init]⟩, flatten_replicate_nil n⟩
theorem init_llp (n : Nat) (hn : 0 < n) : (ModId.correct .llp).Inv (LlSt.init n) ∧ (ModId.module .llp).pending (LlSt.init n) = [] :=
  ⟨⟨hn, by simp [LlSt.init]⟩, flatten_replicate_nil n⟩

theorem hbbPending_init {α : Type} (cfg : HbbCfg) : hbbPending (HbbSt.init cfg : HbbSt α) = [] := by
  simp only [hbbPending, HbbSt.init, List.append_nil]
  induction cfg.sizes with
  | nil => rfl
  | cons n ns ih =>
    simp only [List.map_cons, List.flatten_cons, List.filterMap_append, ih, List.append_nil]
    induction n with
    | zero => rfl
    | succ k ihk => simpa [List.replicate_succ] using ihk

theorem init_hbb (cfg : HbbCfg) (h : cfgCovered cfg = true) : HbbInv (HbbSt.init cfg : HbbSt Task) := by
  simp only [cfgCovered, Bool.and_eq_true, decide_eq_true_eq, List.all_eq_true, List.mem_range, List.any_eq_true,
    List.contains_iff_mem] at h
  refine ⟨h.1, fun b hb => ?_⟩
  have hb' : b < cfg.sizes.length := by simpa [HbbSt.init] using hb
  obtain ⟨es, hes, hmem⟩ := h.2 b hb'
  exact ⟨es, hes, hmem⟩

theorem init_lfq (cfg : HbbCfg) (h : cfgCovered cfg = true) :
    (ModId.correct .lfq).Inv (HbbSt.init cfg) ∧ (ModId.module .lfq).pending (HbbSt.init cfg) = [] :=
  ⟨init_hbb cfg h, hbbPending_init cfg⟩
theorem init_lhq (cfg : HbbCfg) (h : cfgCovered cfg = true) :
    (ModId.correct .lhq).Inv (HbbSt.init cfg) ∧ (ModId.module .lhq).pending (HbbSt.init cfg) = [] :=
  ⟨init_hbb cfg h, hbbPending_init cfg⟩
theorem init_pbq (cfg : HbbCfg) (h : cfgCovered cfg = true) :
    (ModId.correct .pbq).Inv (HbbSt.init cfg) ∧ (ModId.module .pbq).pending (HbbSt.init cfg) = [] :=
  ⟨init_hbb cfg h, hbbPending_init cfg⟩

theorem init_ltq (cfg : HbbCfg) (h : cfgOwned cfg = true) :
    (ModId.correct .ltq).Inv (HbbSt.init cfg) ∧ (ModId.module .ltq).pending (HbbSt.init cfg) = [] := by
  simp only [cfgOwned, Bool.and_eq_true, decide_eq_true_eq, List.all_eq_true, List.mem_range, List.any_eq_true,
    beq_iff_eq] at h
  have hp : hbbPending (HbbSt.init cfg : HbbSt Heap) = [] := hbbPending_init cfg
  refine ⟨⟨h.1, fun b hb => ?_, ?_⟩, ?_⟩
  · have hb' : b < cfg.sizes.length := by simpa [HbbSt.init] using hb
    obtain ⟨es, hes, he⟩ := h.2 b hb'
    exact ⟨es, hes, he⟩
  · intro x hx; rw [hp] at hx; simp at hx
  · show ltqPending _ = []
    simp [ltqPending, hp]

/-- under next_task retention: no task retained initially -/
theorem init_vp (m : ModId) (s0 : m.module.St) (hinv : m.correct.Inv s0) (hempty : m.module.pending s0 = []) :
    (vpCorrect m.correct).Inv (VpSt.init m.module s0) ∧ (vpModule m.module).pending (VpSt.init m.module s0) = [] := by
  refine ⟨⟨hinv, by simp [VpSt.init]⟩, ?_⟩
  show m.module.pending s0 ++ (List.replicate _ none).filterMap id = []
  rw [hempty]
  generalize m.module.nstreams s0 = n
  induction n with
  | zero => rfl
  | succ k ih => simpa [List.replicate_succ] using ih

/-! ### `lifo_merge_ring` (llp) and `hbbuffer_push_all` overflow: the two mechanisms named in the property -/

/-- llp: chaining a ring into a LIFO with `lifo_chain_sorted` / `lifo_merge_ring` keeps every
    element, for every distance and every (sorted or unsorted) ring and LIFO content -/
theorem C08_llp_chain (lifo ring : List Task) (d : Int) : (llpChain lifo ring d).Perm (ring ++ lifo) :=
  llpChain_perm lifo ring d

/-- bounded buffers: `push_all` into a buffer of any fill level, with overflow to the parent
    buffers and the system queue, keeps every element -/
theorem C08_push_all (s : HbbSt Task) (b : Nat) (ring : List Task) (d : Int) :
    (hbbPending (hbbPushAll (s.cfg.sizes.length + 1) s b ring d)).Perm (ring ++ hbbPending s) :=
  hbbPushAll_perm _ s b ring d

/-! ### llp under concurrency: every interleaving of the atomic steps of `lifo_chain_sorted` and `lifo_pop` -/

/-- **llp, one LIFO, all interleavings at atomic-operation granularity.**  Any number of threads run
    `lifo_chain_sorted` (push-in-front CAS, or detach-all CAS + local merge + write-back, with the
    repeat loop of the multi-writer variant) and `lifo_pop` concurrently, in any interleaving `ms`.
    Under the usage hypothesis the code documents (`allowed`: on a single-writer LIFO only its owner
    chains), LIFO ⊎ tasks held in local variables ⊎ returned = handed in, at every point. -/
theorem C08_llp_concurrent (sw : Bool) (n : Nat) (ms : List LlpConc.Move) :
    ((LlpConc.run sw (LlpConc.init n) ms).lifo ++ LlpConc.hands (LlpConc.run sw (LlpConc.init n) ms) ++
      (LlpConc.run sw (LlpConc.init n) ms).ret).Perm (LlpConc.run sw (LlpConc.init n) ms).sched :=
  (LlpConc.Inv.run sw ms _ (LlpConc.Inv.init sw n)).1

/-- at quiescence (no thread inside `lifo_chain_sorted`) nothing is in hand: LIFO ⊎ returned = handed in -/
theorem C08_llp_concurrent_quiescent (sw : Bool) (n : Nat) (ms : List LlpConc.Move)
    (hq : ∀ p ∈ (LlpConc.run sw (LlpConc.init n) ms).pcs, LlpConc.hand p = []) :
    ((LlpConc.run sw (LlpConc.init n) ms).lifo ++ (LlpConc.run sw (LlpConc.init n) ms).ret).Perm
      (LlpConc.run sw (LlpConc.init n) ms).sched := by
  have h := C08_llp_concurrent sw n ms
  have he : LlpConc.hands (LlpConc.run sw (LlpConc.init n) ms) = [] := by
    unfold LlpConc.hands
    generalize (LlpConc.run sw (LlpConc.init n) ms).pcs = l at hq
    induction l with
    | nil => rfl
    | cons p ps ih =>
      simp only [List.map_cons, List.flatten_cons, hq p (List.mem_cons_self ..), List.nil_append]
      exact ih (fun q hq' => hq q (List.mem_cons_of_mem _ hq'))
  rw [he, List.append_nil] at h
  exact h

/-- the interleaving in which two threads chain into the same single-writer LIFO -/
def twoWriters : List LlpConc.Move :=
  [.call 0 [⟨1, 5, 0, 0⟩] 1, .call 1 [⟨2, 5, 0, 0⟩] 1, .step 0, .step 1, .step 0, .step 1]

/-- **The single-writer hypothesis is necessary**: without it (a second thread chaining into a
    single-writer LIFO, as `__parsec_reschedule` does on stream th_id+1), the plain-store write-back
    of one thread overwrites the other's: task 1 is lost although both calls have returned. -/
theorem C08_llp_two_writers_lose :
    (LlpConc.runAny true (LlpConc.init 2) twoWriters).lifo.map (·.id) = [2] ∧
    (LlpConc.runAny true (LlpConc.init 2) twoWriters).ret = [] ∧
    LlpConc.hands (LlpConc.runAny true (LlpConc.init 2) twoWriters) = [] ∧
    (LlpConc.runAny true (LlpConc.init 2) twoWriters).sched.map (·.id) = [2, 1] := by decide

/-! ### non-vacuity -/

def cfg2 : HbbCfg := ⟨[2, 2], [none, none], [[0, 1], [1, 0]]⟩

example : cfgCovered cfg2 = true ∧ cfgOwned cfg2 = true := by decide

/-- lfq-like machine, two streams, buffers of 2 slots: a ring of 5 overflows into the system queue;
    stream 1 finds the tasks by stealing and in the system queue -/
example :
    let s1 := hbbSchedule (HbbSt.init cfg2) ⟨0, [⟨1, 5, 0, 0⟩, ⟨2, 7, 0, 0⟩, ⟨3, 6, 0, 0⟩, ⟨4, 9, 0, 0⟩, ⟨5, 1, 0, 0⟩], 0, false, []⟩
    (ids (hbbPending s1) = [1, 2, 3, 4, 5]) ∧ s1.sysq.length = 3 ∧
    (hbbSelect s1 1).2 = some (⟨2, 7, 0, 0⟩, 2) := by decide

/-- llp: a ring merged behind higher priorities (the `mid` cursor is used) -/
example : ids (llpChain [⟨1, 4, 0, 0⟩, ⟨2, 8, 0, 0⟩, ⟨3, 1, 0, 0⟩] [⟨4, 5, 0, 0⟩, ⟨5, 4, 0, 0⟩, ⟨6, 3, 0, 0⟩] 0) = [1, 6, 5, 4, 2, 3] := by decide

/-- llp concurrency theorem on a non-trivial interleaving: thread 1 detaches [1,2] and merges its ring,
    thread 0 pushes task 4 meanwhile; thread 1's write-back finds it, takes it out as a new ring and repeats -/
example :
    (fun (s : LlpConc.St) => (ids s.lifo, ids s.ret, ids (LlpConc.hands s)))
      (LlpConc.run false (LlpConc.init 3)
        [.call 0 [⟨1, 9, 0, 0⟩, ⟨2, 3, 0, 0⟩] 0, .step 0, .call 1 [⟨3, 5, 0, 0⟩] 0, .step 1, .call 0 [⟨4, 7, 0, 0⟩] 0, .step 0,
         .step 1, .step 1, .step 1, .step 1, .pop 2])
    = ([3, 1, 2], [4], []) := by decide

end ParsecVerif.C08
