import ParsecVerif.Proofs.Info
/-!
# C41 — info registries return what was set

Model: `ParsecVerif.Info` (mirrors parsec/class/info.c after the two repairs recorded in
known_findings.json).  One step = one API call.  Quantification: every history of
register / unregister / new-array / set / get / test_and_set calls.
-/
namespace ParsecVerif.C41
open ParsecVerif.Info

inductive Op
  | reg (name : String) (ctor : Option Nat) (dtor : Bool)
  | unreg (iid : Nat)
  | oanew
  | set (a iid v : Nat)
  | get (a iid : Nat)
  | tas (a iid new old : Nat)

def apply (s : St) : Op → St
  | .reg n c d => (register s n c d).1
  | .unreg i => (unregister s i).1
  | .oanew => (oaNew s).1
  | .set a i v => match Info.set s a i v with | some (s', _) => s' | none => s
  | .get a i => match Info.get s a i with | some (s', _) => s' | none => s
  | .tas a i n o => match Info.tas s a i n o with | some (s', _) => s' | none => s

def runFrom (s : St) (ops : List Op) : St := ops.foldl apply s
def run (ops : List Op) : St := runFrom init ops

structure Inv (s : St) : Prop where
  sorted : Sorted s.entries
  names : (s.entries.map (·.name)).Nodup
  maxOk : s.maxId = maxIid s.entries

theorem inv_init : Inv init := ⟨List.Pairwise.nil, List.nodup_nil, rfl⟩

theorem insertAt_perm {α} (l : List α) (k : Nat) (x : α) : (insertAt l k x).Perm (x :: l) := by
  unfold insertAt
  have : (x :: l).Perm (x :: (l.take k ++ l.drop k)) := by rw [List.take_append_drop]
  exact List.perm_middle.trans this.symm

theorem name_not_mem_of_any_false (l : List Entry) (name : String)
    (h : l.any (fun e => e.name == name) = false) : name ∉ l.map (·.name) := by
  intro hm
  simp only [List.mem_map] at hm
  obtain ⟨e, he, hn⟩ := hm
  have : l.any (fun e => e.name == name) = true := List.any_eq_true.2 ⟨e, he, by simp [hn]⟩
  rw [h] at this; exact absurd this (by simp)

/-- the three facts about a successful registration -/
theorem register_ok (s : St) (h : Inv s) (name : String) (c : Option Nat) (d : Bool)
    (hn : s.entries.any (fun e => e.name == name) = false) :
    let r := (findHole s.entries 0).1
    (register s name c d).2 = r ∧ r ∉ ids s.entries ∧ (∀ j, j < r → j ∈ ids s.entries) ∧
    Inv (register s name c d).1 := by
  have spec := findHole_spec s.entries 0 h.sorted (fun _ _ => Nat.zero_le _)
  obtain ⟨hk, hr, hlt, hgt⟩ := spec
  have hsplit : ∀ e ∈ s.entries, e ∈ s.entries.take (findHole s.entries 0).2 ∨ e ∈ s.entries.drop (findHole s.entries 0).2 := by
    intro e he
    rw [← List.take_append_drop (findHole s.entries 0).2 s.entries] at he
    exact List.mem_append.1 he
  have hnotin : (findHole s.entries 0).1 ∉ ids s.entries := by
    intro hm
    simp only [ids, List.mem_map] at hm
    obtain ⟨e, he, hid⟩ := hm
    rcases hsplit e he with h1 | h1
    · have := hlt e h1; omega
    · have := hgt e h1; omega
  refine ⟨by simp [register, hn], hnotin, ?_, ?_⟩
  · -- least free id: every smaller id is taken (the prefix carries 0,1,…,r-1)
    intro j hj
    -- the prefix has k = r entries, strictly increasing, all < r: so it contains every j < r
    have hpre : ∀ (l : List Entry) (ret : Nat), Sorted l → (∀ e ∈ l, ret ≤ e.iid) →
        ∀ j, ret ≤ j → j < (findHole l ret).1 → j ∈ ids l := by
      intro l
      induction l with
      | nil => intro ret _ _ j h1 h2; simp [findHole] at h2; omega
      | cons e t ih =>
        intro ret hs hge j h1 h2
        unfold findHole at h2
        by_cases he : e.iid = ret
        · simp only [he, if_true] at h2
          by_cases hj : j = ret
          · simp [ids, he, hj]
          · have hs' : Sorted t := (List.pairwise_cons.1 hs).2
            have hlt' : ∀ x ∈ t, e.iid < x.iid := (List.pairwise_cons.1 hs).1
            have := ih (ret + 1) hs' (fun x hx => by have := hlt' x hx; omega) j (by omega) h2
            simp only [ids, List.map_cons, List.mem_cons]
            exact Or.inr this
        · simp only [he, if_false] at h2; omega
    exact hpre s.entries 0 h.sorted (fun _ _ => Nat.zero_le _) j (Nat.zero_le _) hj
  · have hreg : (register s name c d).1 =
        { s with entries := insertAt s.entries (findHole s.entries 0).2 ⟨(findHole s.entries 0).1, name, c, d⟩,
                 maxId := if ((findHole s.entries 0).1 : Int) > s.maxId then ((findHole s.entries 0).1 : Int) else s.maxId } := by
      simp [register, hn]
    rw [hreg]
    refine ⟨?_, ?_, ?_⟩
    · exact sorted_insertAt _ _ _ h.sorted hlt hgt
    · have hp := (insertAt_perm s.entries (findHole s.entries 0).2
        (⟨(findHole s.entries 0).1, name, c, d⟩ : Entry)).map (·.name)
      show (List.map (·.name) (insertAt s.entries _ _)).Nodup
      rw [hp.nodup_iff]
      simp only [List.map_cons, List.nodup_cons]
      exact ⟨name_not_mem_of_any_false _ _ hn, h.names⟩
    · show (if ((findHole s.entries 0).1 : Int) > s.maxId then ((findHole s.entries 0).1 : Int) else s.maxId) = _
      symm
      rw [maxIid_eq_iff]
      have hge := maxIid_ge s.entries
      rw [← h.maxOk] at hge
      by_cases hgt' : ((findHole s.entries 0).1 : Int) > s.maxId
      · rw [if_pos hgt']
        constructor
        · intro e he
          rcases (mem_insertAt _ _ _ _).1 he with rfl | he
          · exact Int.le_refl _
          · have := hge e he; omega
        · right; exact ⟨_, (mem_insertAt _ _ _ _).2 (Or.inl rfl), rfl⟩
      · rw [if_neg hgt']
        constructor
        · intro e he
          rcases (mem_insertAt _ _ _ _).1 he with rfl | he
          · show ((findHole s.entries 0).1 : Int) ≤ s.maxId; omega
          · exact hge e he
        · right
          rcases maxIid_mem_or s.entries with ⟨hm, _⟩ | ⟨e, he, hm⟩
          · rw [← h.maxOk] at hm; omega
          · exact ⟨e, (mem_insertAt _ _ _ _).2 (Or.inr he), by rw [h.maxOk, hm]⟩

theorem inv_register (s : St) (h : Inv s) (name : String) (c : Option Nat) (d : Bool) :
    Inv (register s name c d).1 := by
  by_cases hn : s.entries.any (fun e => e.name == name) = true
  · simp [register, hn]; exact h
  · exact (register_ok s h name c d (by simpa using hn)).2.2.2

theorem inv_unregister (s : St) (h : Inv s) (iid : Nat) : Inv (unregister s iid).1 := by
  unfold unregister
  split
  · exact h
  · rename_i e hf
    have hmem : e ∈ s.entries := List.mem_of_find?_eq_some hf
    have hid : e.iid = iid := by have := List.find?_some hf; simpa using this
    have hsub : (s.entries.erase e).Sublist s.entries := List.erase_sublist
    refine ⟨h.sorted.sublist hsub, (hsub.map _).nodup h.names, ?_⟩
    show (if (iid : Int) = s.maxId then maxIid (s.entries.erase e) else s.maxId) = maxIid (s.entries.erase e)
    split
    · rfl
    · rename_i hne
      symm
      rw [maxIid_eq_iff]
      have hge := maxIid_ge s.entries
      rw [← h.maxOk] at hge
      refine ⟨fun x hx => hge x (List.mem_of_mem_erase hx), ?_⟩
      rcases maxIid_mem_or s.entries with ⟨_, hl⟩ | ⟨m, hm, hmax⟩
      · rw [hl] at hmem; simp at hmem
      · right
        refine ⟨m, ?_, by rw [h.maxOk, hmax]⟩
        have : m ≠ e := by
          intro heq; subst heq
          rw [← h.maxOk] at hmax
          omega
        exact (List.mem_erase_of_ne this).2 hm

/-! set / get / test_and_set / new array never touch the registry part of the state -/
theorem withOAs_reg {s s' : St} {r : Nat} {x : Option (List OA × Nat)} (h : withOAs s x = some (s', r)) :
    s'.entries = s.entries ∧ s'.maxId = s.maxId := by
  unfold withOAs at h
  cases x with
  | none => simp at h
  | some p =>
    simp only [Option.map_some, Option.some.injEq, Prod.mk.injEq] at h
    rw [← h.1]; exact ⟨rfl, rfl⟩

theorem set_reg {s s' : St} {a i v r : Nat} (h : Info.set s a i v = some (s', r)) :
    s'.entries = s.entries ∧ s'.maxId = s.maxId := withOAs_reg h
theorem tas_reg {s s' : St} {a i n o r : Nat} (h : Info.tas s a i n o = some (s', r)) :
    s'.entries = s.entries ∧ s'.maxId = s.maxId := withOAs_reg h
theorem get_reg {s s' : St} {a i r : Nat} (h : Info.get s a i = some (s', r)) :
    s'.entries = s.entries ∧ s'.maxId = s.maxId := withOAs_reg h

theorem inv_of_reg_eq {s s' : St} (h : Inv s) (he : s'.entries = s.entries ∧ s'.maxId = s.maxId) : Inv s' :=
  ⟨he.1 ▸ h.sorted, he.1 ▸ h.names, by rw [he.1, he.2]; exact h.maxOk⟩

theorem inv_apply (s : St) (h : Inv s) (op : Op) : Inv (apply s op) := by
  cases op with
  | reg n c d => exact inv_register s h n c d
  | unreg i => exact inv_unregister s h i
  | oanew => exact inv_of_reg_eq h ⟨rfl, rfl⟩
  | set a i v =>
    simp only [apply]; split
    · rename_i hs; exact inv_of_reg_eq h (set_reg hs)
    · exact h
  | get a i =>
    simp only [apply]; split
    · rename_i hs; exact inv_of_reg_eq h (get_reg hs)
    · exact h
  | tas a i n o =>
    simp only [apply]; split
    · rename_i hs; exact inv_of_reg_eq h (tas_reg hs)
    · exact h

theorem inv_runFrom (s : St) (h : Inv s) (ops : List Op) : Inv (runFrom s ops) := by
  unfold runFrom
  induction ops generalizing s with
  | nil => exact h
  | cons op ops ih => exact ih _ (inv_apply s h op)

/-- **C41, distinct identifiers.**  After any history of calls, the registered infos carry
    pairwise distinct identifiers and pairwise distinct names. -/
theorem distinct_ids (ops : List Op) :
    (ids (run ops).entries).Nodup ∧ ((run ops).entries.map (·.name)).Nodup :=
  let h := inv_runFrom init inv_init ops
  ⟨sorted_nodup_ids h.sorted, h.names⟩

/-- **Registration hands out the least free identifier**, never one in use, in every reachable state. -/
theorem register_fresh (ops : List Op) (name : String) (c : Option Nat) (d : Bool)
    (hn : (run ops).entries.any (fun e => e.name == name) = false) :
    ∃ r : Nat, (register (run ops) name c d).2 = r ∧ r ∉ ids (run ops).entries ∧
      ∀ j, j < r → j ∈ ids (run ops).entries :=
  let h := register_ok (run ops) (inv_runFrom init inv_init ops) name c d hn
  ⟨_, h.1, h.2.1, h.2.2.1⟩

/-- registering an already registered name is refused and changes nothing -/
theorem register_dup (s : St) (name : String) (c : Option Nat) (d : Bool)
    (hn : s.entries.any (fun e => e.name == name) = true) : register s name c d = (s, -1) := by
  simp [register, hn]

/-- **Lookup by name returns the identifier of the entry carrying that name** (and -1 iff no
    entry does), in every reachable state. -/
theorem lookup_spec (ops : List Op) (name : String) :
    (∀ e ∈ (run ops).entries, e.name = name → lookup (run ops) name = e.iid) ∧
    ((∀ e ∈ (run ops).entries, e.name ≠ name) → lookup (run ops) name = -1) := by
  have h : Inv (run ops) := inv_runFrom init inv_init ops
  generalize run ops = s at *
  constructor
  · intro e he hname
    unfold lookup
    cases hf : s.entries.find? (fun e => e.name == name) with
    | none =>
      have := List.find?_eq_none.1 hf e he
      simp [hname] at this
    | some e' =>
      have he' : e' ∈ s.entries := List.mem_of_find?_eq_some hf
      have hn' : e'.name = name := by have := List.find?_some hf; simpa using this
      -- names are distinct, so e' = e
      have key : ∀ (l : List Entry), (l.map (·.name)).Nodup → ∀ x ∈ l, ∀ y ∈ l, x.name = y.name → x = y := by
        intro l
        induction l with
        | nil => intro _ x hx; simp at hx
        | cons a t ih =>
          intro hnd x hx y hy hxy
          simp only [List.map_cons, List.nodup_cons, List.mem_map, not_exists, not_and] at hnd
          simp only [List.mem_cons] at hx hy
          rcases hx with rfl | hx <;> rcases hy with rfl | hy
          · rfl
          · exact absurd hxy.symm (hnd.1 y hy)
          · exact absurd hxy (hnd.1 x hx)
          · exact ih hnd.2 x hx y hy hxy
      have : e' = e := key s.entries h.names e' he' e he (by rw [hn', hname])
      rw [this]
  · intro hall
    unfold lookup
    cases hf : s.entries.find? (fun e => e.name == name) with
    | none => rfl
    | some e' =>
      have he' : e' ∈ s.entries := List.mem_of_find?_eq_some hf
      have hn' : e'.name = name := by have := List.find?_some hf; simpa using this
      exact absurd hn' (hall e' he')

/-! ## Object arrays: last value set, constructed default, test-and-set, across growth -/

/-- the value an object's slot holds (NULL = 0 for slots not yet materialised) -/
def slotAt (s : St) (a i : Nat) : Nat :=
  match s.oas[a]? with
  | some oa => slotOf oa i
  | none => 0

theorem slotOf_grow (m : Int) (oa : OA) (i j : Nat) : slotOf (grow m oa i) j = slotOf oa j := by
  unfold grow slotOf
  split
  · by_cases hj : j < oa.length
    · rw [List.getElem?_append_left hj]
    · rw [List.getElem?_append_right (by omega)]
      have : oa[j]? = none := List.getElem?_eq_none (by omega)
      rw [this]
      cases h : (List.replicate ((m + 1).toNat - oa.length) 0)[j - oa.length]? with
      | none => rfl
      | some x =>
        have := List.mem_of_getElem? h
        simp only [List.mem_replicate] at this
        simp [this.2]
  · rfl

theorem slotOf_replicate_zero (n i : Nat) : slotOf (List.replicate n 0) i = 0 := by
  unfold slotOf
  cases hy : (List.replicate n 0)[i]? with
  | none => rfl
  | some y =>
    have := List.mem_of_getElem? hy
    simp only [List.mem_replicate] at this
    simp [this.2]

theorem lt_length_grow (m : Int) (oa : OA) (i : Nat) (h : (i : Int) ≤ m) : i < (grow m oa i).length := by
  unfold grow
  split
  · simp only [List.length_append, List.length_replicate]; omega
  · omega

theorem slotOf_setSlot (oa : OA) (i v j : Nat) :
    slotOf (setSlot oa i v) j = if j = i ∧ i < oa.length then v else slotOf oa j := by
  unfold slotOf setSlot
  by_cases hji : j = i
  · subst hji
    by_cases hl : j < oa.length
    · simp [hl]
    · simp [hl]
  · have : ¬ (j = i ∧ i < oa.length) := fun h => hji h.1
    rw [if_neg this, List.getElem?_set_ne (Ne.symm hji)]

theorem slotAt_set_oas (s : St) (oas' : List OA) (a : Nat) : slotAt { s with oas := oas' } a = fun i =>
    match oas'[a]? with | some oa => slotOf oa i | none => 0 := rfl

/-- `set` stores the value and returns the previous one, whether or not the array had to grow. -/
theorem set_spec {s s1 : St} {a i v old : Nat} (h : Info.set s a i v = some (s1, old)) :
    slotAt s1 a i = v ∧ old = slotAt s a i := by
  unfold Info.set withOAs setOA at h
  unfold slotAt
  cases hoa : s.oas[a]? with
  | none => simp [hoa] at h
  | some oa =>
    simp only [hoa] at h
    split at h
    · rename_i hv
      simp only [Option.map_some, Option.some.injEq, Prod.mk.injEq] at h
      obtain ⟨rfl, rfl⟩ := h
      have ha : a < s.oas.length := (List.getElem?_eq_some_iff.1 hoa).1
      simp only [List.getElem?_set_self ha, slotOf_setSlot, slotOf_grow]
      simp [lt_length_grow _ _ _ hv]
    · simp at h

/-- `test_and_set` replaces the value only when it matches, and reports what the slot holds. -/
theorem tas_spec {s s1 : St} {a i n o r : Nat} (h : Info.tas s a i n o = some (s1, r)) :
    (slotAt s a i = o → r = n ∧ slotAt s1 a i = n) ∧
    (slotAt s a i ≠ o → r = slotAt s a i ∧ slotAt s1 a i = slotAt s a i) := by
  unfold Info.tas withOAs tasOA at h
  unfold slotAt
  cases hoa : s.oas[a]? with
  | none => simp [hoa] at h
  | some oa =>
    simp only [hoa] at h
    have ha : a < s.oas.length := (List.getElem?_eq_some_iff.1 hoa).1
    split at h
    · rename_i hv
      split at h
      · rename_i heq
        simp only [Option.map_some, Option.some.injEq, Prod.mk.injEq] at h
        obtain ⟨rfl, rfl⟩ := h
        rw [slotOf_grow] at heq
        simp only [List.getElem?_set_self ha, slotOf_setSlot, slotOf_grow]
        simp [lt_length_grow _ _ _ hv, heq]
      · rename_i hne
        simp only [Option.map_some, Option.some.injEq, Prod.mk.injEq] at h
        obtain ⟨rfl, rfl⟩ := h
        rw [slotOf_grow] at hne
        simp only [List.getElem?_set_self ha, slotOf_grow]
        simp [hne]
    · simp at h

/-- `get` returns the stored value when there is one, otherwise the constructed default (which it
    stores), otherwise NULL. -/
theorem get_spec {s s1 : St} {a i r : Nat} (h : Info.get s a i = some (s1, r)) :
    (slotAt s a i ≠ 0 → r = slotAt s a i ∧ slotAt s1 a i = slotAt s a i) ∧
    (slotAt s a i = 0 → ∃ e ∈ s.entries, e.iid = i ∧ r = e.ctor.getD 0 ∧ slotAt s1 a i = e.ctor.getD 0) := by
  unfold Info.get withOAs getOA at h
  unfold slotAt
  cases hoa : s.oas[a]? with
  | none => simp [hoa] at h
  | some oa =>
    simp only [hoa] at h
    have ha : a < s.oas.length := (List.getElem?_eq_some_iff.1 hoa).1
    split at h
    · rename_i hv
      cases hf : s.entries.find? (fun e => e.iid == i) with
      | none => simp [hf] at h
      | some e =>
        have hmem : e ∈ s.entries := List.mem_of_find?_eq_some hf
        have hid : e.iid = i := by have := List.find?_some hf; simpa using this
        simp only [hf] at h
        split at h
        · rename_i hnz
          simp only [Option.map_some, Option.some.injEq, Prod.mk.injEq] at h
          obtain ⟨rfl, rfl⟩ := h
          rw [slotOf_grow] at hnz
          simp only [List.getElem?_set_self ha, slotOf_grow]
          simp [hnz]
        · rename_i hz
          rw [slotOf_grow] at hz
          have hz' : slotOf oa i = 0 := by simpa using hz
          refine ⟨fun hnz => absurd hz' hnz, fun _ => ⟨e, hmem, hid, ?_⟩⟩
          cases hc : e.ctor with
          | none =>
            simp only [hc, Option.map_some, Option.some.injEq, Prod.mk.injEq] at h
            obtain ⟨rfl, rfl⟩ := h
            simp [List.getElem?_set_self ha, slotOf_grow, hz']
          | some d =>
            simp only [hc] at h
            split at h
            · rename_i hd
              simp only [Option.map_some, Option.some.injEq, Prod.mk.injEq] at h
              obtain ⟨rfl, rfl⟩ := h
              simp [List.getElem?_set_self ha, slotOf_grow, hd, hz']
            · simp only [Option.map_some, Option.some.injEq, Prod.mk.injEq] at h
              obtain ⟨rfl, rfl⟩ := h
              simp [List.getElem?_set_self ha, slotOf_setSlot, slotOf_grow, lt_length_grow _ _ _ hv]
    · simp at h

/-- operations that may change the slot `(a, i)` -/
def touches (a i : Nat) : Op → Bool
  | .set a' i' _ => a' = a ∧ i' = i
  | .tas a' i' _ _ => a' = a ∧ i' = i
  | .get a' i' => a' = a ∧ i' = i
  | .unreg i' => i' = i
  | _ => false

theorem frame_set_oas (s : St) (a' i' a i : Nat) (oa : OA) (X : OA) (hoa : s.oas[a']? = some oa)
    (hX : a' = a → slotOf X i = slotOf oa i) :
    slotAt { s with oas := s.oas.set a' X } a i = slotAt s a i := by
  unfold slotAt
  have ha : a' < s.oas.length := (List.getElem?_eq_some_iff.1 hoa).1
  by_cases haa : a' = a
  · subst haa
    simp only [List.getElem?_set_self ha, hoa]
    exact hX rfl
  · simp only [List.getElem?_set_ne haa]

/-- **Frame:** an operation that does not address slot `(a, i)` leaves it unchanged — in particular
    registrations (registry growth), growth of the array itself, and traffic on other slots. -/
theorem frame (s : St) (a i : Nat) (op : Op) (h : touches a i op = false) :
    slotAt (apply s op) a i = slotAt s a i := by
  cases op with
  | reg n c d =>
    unfold apply register slotAt
    simp only []
    by_cases hn : (s.entries.any fun e => e.name == n) = true
    · simp [hn]
    · simp [hn]
  | unreg i' =>
    simp only [touches, decide_eq_false_iff_not] at h
    simp only [apply, unregister]
    cases hf : s.entries.find? (fun e => e.iid == i') with
    | none => rfl
    | some e =>
      simp only []
      unfold slotAt
      by_cases hd : e.dtor = true
      · simp only [hd, if_true, List.getElem?_map]
        cases s.oas[a]? with
        | none => rfl
        | some oa =>
          simp only [Option.map_some, slotOf_setSlot]
          rw [if_neg (fun hh => h hh.1.symm)]
      · simp only [hd]; rfl
  | oanew =>
    unfold apply oaNew slotAt
    simp only []
    by_cases ha : a < s.oas.length
    · rw [List.getElem?_append_left ha]
    · rw [List.getElem?_append_right (by omega)]
      have hnone : s.oas[a]? = none := List.getElem?_eq_none (by omega)
      rw [hnone]
      cases hx : [List.replicate (s.maxId + 1).toNat 0][a - s.oas.length]? with
      | none => rfl
      | some x =>
        have := List.mem_of_getElem? hx
        simp only [List.mem_singleton] at this
        subst this
        exact slotOf_replicate_zero _ _
  | set a' i' v =>
    simp only [touches, decide_eq_false_iff_not, not_and] at h
    simp only [apply]
    split
    · rename_i s' r hs
      unfold Info.set withOAs setOA at hs
      cases hoa : s.oas[a']? with
      | none => simp [hoa] at hs
      | some oa =>
        simp only [hoa] at hs
        split at hs
        · simp only [Option.map_some, Option.some.injEq, Prod.mk.injEq] at hs
          rw [← hs.1]
          apply frame_set_oas s a' i' a i oa _ hoa
          intro haa
          rw [slotOf_setSlot, if_neg (fun hh => h haa hh.1.symm), slotOf_grow]
        · simp at hs
    · rfl
  | tas a' i' n o =>
    simp only [touches, decide_eq_false_iff_not, not_and] at h
    simp only [apply]
    split
    · rename_i s' r hs
      unfold Info.tas withOAs tasOA at hs
      cases hoa : s.oas[a']? with
      | none => simp [hoa] at hs
      | some oa =>
        simp only [hoa] at hs
        split at hs
        · split at hs
          · simp only [Option.map_some, Option.some.injEq, Prod.mk.injEq] at hs
            rw [← hs.1]
            apply frame_set_oas s a' i' a i oa _ hoa
            intro haa
            rw [slotOf_setSlot, if_neg (fun hh => h haa hh.1.symm), slotOf_grow]
          · simp only [Option.map_some, Option.some.injEq, Prod.mk.injEq] at hs
            rw [← hs.1]
            apply frame_set_oas s a' i' a i oa _ hoa
            intro _
            rw [slotOf_grow]
        · simp at hs
    · rfl
  | get a' i' =>
    simp only [touches, decide_eq_false_iff_not, not_and] at h
    simp only [apply]
    split
    · rename_i s' r hs
      unfold Info.get withOAs getOA at hs
      cases hoa : s.oas[a']? with
      | none => simp [hoa] at hs
      | some oa =>
        simp only [hoa] at hs
        split at hs
        · cases hf : s.entries.find? (fun e => e.iid == i') with
          | none => simp [hf] at hs
          | some e =>
            simp only [hf] at hs
            have hgrow : a' = a → slotOf (grow s.maxId oa i') i = slotOf oa i := fun _ => slotOf_grow _ _ _ _
            have hset : ∀ d, a' = a → slotOf (setSlot (grow s.maxId oa i') i' d) i = slotOf oa i := by
              intro d haa
              rw [slotOf_setSlot, if_neg (fun hh => h haa hh.1.symm), slotOf_grow]
            split at hs
            · simp only [Option.map_some, Option.some.injEq, Prod.mk.injEq] at hs
              rw [← hs.1]; exact frame_set_oas s a' i' a i oa _ hoa hgrow
            · cases hc : e.ctor with
              | none =>
                simp only [hc, Option.map_some, Option.some.injEq, Prod.mk.injEq] at hs
                rw [← hs.1]; exact frame_set_oas s a' i' a i oa _ hoa hgrow
              | some d =>
                simp only [hc] at hs
                split at hs
                · simp only [Option.map_some, Option.some.injEq, Prod.mk.injEq] at hs
                  rw [← hs.1]; exact frame_set_oas s a' i' a i oa _ hoa hgrow
                · simp only [Option.map_some, Option.some.injEq, Prod.mk.injEq] at hs
                  rw [← hs.1]; exact frame_set_oas s a' i' a i oa _ hoa (hset d)
        · simp at hs
    · rfl

/-- a `get` of a slot holding a non-NULL value does not change it -/
theorem get_keeps (s : St) (a i : Nat) (hnz : slotAt s a i ≠ 0) :
    slotAt (apply s (.get a i)) a i = slotAt s a i := by
  simp only [apply]
  split
  · rename_i s' r hs; exact ((get_spec hs).1 hnz).2
  · rfl

/-- **C41, last value set.**  After `set (a, i) := v` (v non-NULL), any history of further calls —
    registrations and unregistrations of other infos (registry growth and holes), new arrays,
    growth of this array, sets / gets / test-and-sets on other slots, and gets of this slot —
    leaves the value in place: a `get` of `(a, i)` returns `v`. -/
theorem last_set {s s1 s2 : St} {a i v old r : Nat} (hset : Info.set s a i v = some (s1, old)) (hv : v ≠ 0)
    (ops : List Op) (hops : ∀ op ∈ ops, touches a i op = false ∨ op = .get a i)
    (hget : Info.get (runFrom s1 ops) a i = some (s2, r)) : r = v := by
  have h1 : slotAt s1 a i = v := (set_spec hset).1
  have hkeep : ∀ (ops : List Op) (t : St), slotAt t a i = v → (∀ op ∈ ops, touches a i op = false ∨ op = .get a i) →
      slotAt (runFrom t ops) a i = v := by
    intro ops
    induction ops with
    | nil => intro t ht _; exact ht
    | cons op ops ih =>
      intro t ht hall
      apply ih (apply t op)
      · rcases hall op (by simp) with hf | hg
        · rw [frame t a i op hf, ht]
        · subst hg; rw [get_keeps t a i (by rw [ht]; exact hv), ht]
      · intro op' hop'; exact hall op' (by simp [hop'])
  have h2 := hkeep ops s1 h1 hops
  have := ((get_spec hget).1 (by rw [h2]; exact hv)).1
  rw [this, h2]

/-- **C41, the finding (kept as a theorem about the code before the repair).**  With the original
    insertion point, registering after an unregistration hands out an identifier that is still in
    use: the registry then holds two infos with the same id. -/
theorem buggy_register_duplicates :
    let s0 := (register (register (register init "a" none false).1 "b" none false).1 "c" none false).1
    let s1 := (unregister s0 1).1
    let s2 := (registerBuggy s1 "x" none false).1
    (registerBuggy s2 "y" none false).2 = 1 ∧ (registerBuggy s1 "x" none false).2 = 1 := by decide

/-! Non-vacuity -/
example : (Info.set (run [.reg "a" none false, .oanew]) 0 0 7).isSome = true := by decide
example : ((Info.set (run [.reg "a" none false, .oanew]) 0 0 7).bind (fun p =>
    Info.get (runFrom p.1 [.reg "b" none false, .reg "c" none true, .set 0 2 9, .unreg 1]) 0 0)).map Prod.snd = some 7 := by
  decide

end ParsecVerif.C41
