import ParsecVerif.Proofs.Ptg
/-!
# C23 — PTG task keys identify task instances uniquely

Model: `Ptg.keyInfo` (the per-parameter `(min, range)` collected by the generated `internal_init`, starting from
`min = 0x7fffffff`, `max = 0`, widened at every visit of the loop header; `(0, 1)` for a parameter defined by an
expression), `Ptg.makeKey` (the running-multiplier sum of the generated `make_key`, in `uint64_t`), `Ptg.keyPrintVals`
(the digit-by-digit inversion of the generated `key_print`).

* `injective_sem` / `C23_injective`: for ARBITRARY range functions (bounds and steps may depend on the outer locals
  through any function; negative bounds and steps; derived locals and derived parameters) two instances of the
  enumerated space with the same key are equal, under the explicit decidable hypothesis `NoOverflow`.
* `C23_print_partial`: when no parameter is defined by an expression, `key_print (make_key a)` names `a`.
* `C23_print_full_false`: the unrestricted printing statement is false of the generated code (witness: a parameter
  `k = 2*i+1`); replayed on the real generated code by checks/C23.py (corpus/C23/001-derived-param-print.case).
-/
namespace ParsecVerif.C23
open ParsecVerif.Ptg

/-- Key injectivity at the semantic level: arbitrary functions as bounds / steps / derived definitions. -/
theorem injective_sem (ds : List LocalSem) (ps : List Bool) (hrap : RangesAreParams ds ps)
    (hno : NoOverflow (keyInfo ds ps) (enumSem ds [])) :
    ∀ a ∈ enumSem ds [], ∀ b ∈ enumSem ds [],
      makeKeyOf (keyInfo ds ps) a = makeKeyOf (keyInfo ds ps) b → a = b := by
  intro a ha b hb hk
  have hda := digitsOK_of_mem ds ps hrap a ha
  have hdb := digitsOK_of_mem ds ps hrap b hb
  have hz : keyZ (keyInfo ds ps) a = keyZ (keyInfo ds ps) b := by
    have := hno a ha b hb
    unfold makeKeyOf toU64 at hk
    unfold two64 at *
    omega
  rw [keyZ_eq_keyH, keyZ_eq_keyH] at hz
  exact keyH_inj ds (keyInfo ds ps) [] a b ha hb hda hdb hz

/-- C23, first half: within a task class of any program of the AST, two instances of the execution space that
    receive the same key are the same instance (same locals, hence same parameter values). -/
theorem C23_injective (p : Program) (c : Nat) (cl : TaskClass) (hc : p.classes[c]? = some cl)
    (hrap : RangesAreParams (cl.sems p.globals) cl.isParam)
    (hno : NoOverflow (classKeyInfo p.globals cl) (space p c)) :
    ∀ a ∈ space p c, ∀ b ∈ space p c, makeKey p c a = makeKey p c b →
      a = b ∧ paramsOf cl.isParam a = paramsOf cl.isParam b := by
  intro a ha b hb hk
  simp only [space, hc, spaceOf] at ha hb hno
  simp only [makeKey, hc, classKeyInfo] at hk
  have := injective_sem (cl.sems p.globals) cl.isParam hrap (by simpa [classKeyInfo] using hno) a ha b hb hk
  exact ⟨this, by rw [this]⟩

/-- Contrapositive reading of the property: different parameter tuples never share a key. -/
theorem C23_distinct_keys (p : Program) (c : Nat) (cl : TaskClass) (hc : p.classes[c]? = some cl)
    (hrap : RangesAreParams (cl.sems p.globals) cl.isParam)
    (hno : NoOverflow (classKeyInfo p.globals cl) (space p c)) :
    ∀ a ∈ space p c, ∀ b ∈ space p c, paramsOf cl.isParam a ≠ paramsOf cl.isParam b →
      makeKey p c a ≠ makeKey p c b :=
  fun a ha b hb hne hk => hne (C23_injective p c cl hc hrap hno a ha b hb hk).2

/-- The full printing statement of the property: the printed form of an instance's key gives its parameter values. -/
def C23_print_full : Prop :=
  ∀ (p : Program) (c : Nat) (cl : TaskClass), p.classes[c]? = some cl →
    RangesAreParams (cl.sems p.globals) cl.isParam →
    ∀ a ∈ space p c, keyZ (classKeyInfo p.globals cl) a < two64 →
      keyPrintVals (classKeyInfo p.globals cl) (makeKey p c a) = paramsOf cl.isParam a

/-- C23, second half, proved part: if no parameter is defined by an expression (`PrintHyp`, which also asks the
    stored bounds to fit an `int`) and the key does not wrap, `key_print` decodes exactly the parameter values —
    and the printed string is the instance's name. -/
theorem C23_print_partial (p : Program) (c : Nat) (cl : TaskClass) (hc : p.classes[c]? = some cl)
    (hrap : RangesAreParams (cl.sems p.globals) cl.isParam)
    (hph : PrintHyp (classKeyInfo p.globals cl) (cl.sems p.globals)) :
    ∀ a ∈ space p c, keyZ (classKeyInfo p.globals cl) a < two64 →
      keyPrintVals (classKeyInfo p.globals cl) (makeKey p c a) = paramsOf cl.isParam a ∧
      keyPrint p c (makeKey p c a) = instName p c a := by
  intro a ha hfit
  simp only [space, hc, spaceOf] at ha
  have hd := digitsOK_of_mem (cl.sems p.globals) cl.isParam hrap a ha
  have hlen := length_of_mem_enumSem _ _ _ ha
  have h0 := keyH_nonneg (cl.sems p.globals) _ a hd (by simpa [classKeyInfo] using hph)
  have hkey : makeKey p c a = keyH (classKeyInfo p.globals cl) a := by
    simp only [makeKey, hc, makeKeyOf]
    rw [keyZ_eq_keyH] at hfit ⊢
    exact toU64_small _ (by simpa [classKeyInfo] using h0) (by simpa [two64] using hfit)
  have hvals : keyPrintVals (classKeyInfo p.globals cl) (makeKey p c a) = paramsOf cl.isParam a := by
    rw [hkey]
    have := keyPrintVals_keyH (cl.sems p.globals) (classKeyInfo p.globals cl) a (by simpa [classKeyInfo] using hd) hph
    rw [this]
    simp only [classKeyInfo, keyInfo]
    exact paramsByInfo_keyInfoFrom _ _ _ 0 a hrap hlen
  refine ⟨hvals, ?_⟩
  simp only [keyPrint, instName, hc, hvals]

/-! ### The unrestricted printing statement is false of the generated code -/

/-- `T(i, k, j)` with `i = 0 .. 2`, `k = 2*i+1`, `j = -2 .. 0` (DESIGN.md 5.5) -/
def witness : Program :=
  { globals := [],
    classes := [{ name := "T",
                  locals := [.range ⟨.const 0, .const 2, .const 1⟩,
                             .expr (.bin .add (.bin .mul (.const 2) (.var 0)) (.const 1)),
                             .range ⟨.const (-2), .const 0, .const 1⟩],
                  isParam := [true, true, true], place := .var 0, prio := none, flows := [] }] }

/-- `T(2, 5, -1)` is an instance, its key is `2 + 5·3 + 1·3 = 20` and the generated `key_print` decodes it as
    `T(2, 0, -2)`: `internal_init` stores `(min, range) = (0, 1)` for `k`, so `k` prints as `(20/3) % 1 + 0 = 0`
    and — `make_key` having added `5·3` for `k` — the following digit is shifted: `j` prints as `6 % 3 − 2 = −2`. -/
theorem witness_prints_wrong :
    [2, 5, -1] ∈ space witness 0 ∧ makeKey witness 0 [2, 5, -1] = 20 ∧
    keyPrintVals (classKeyInfo witness.globals witness.classes[0]!) 20 = [2, 0, -2] := by
  decide

theorem C23_print_full_false : ¬ C23_print_full := by
  intro h
  have := h witness 0 witness.classes[0]! rfl (by decide) [2, 5, -1] (by decide) (by decide)
  revert this
  decide

/-! ### Non-vacuity: the hypotheses hold on non-trivial spaces -/

/-- `T(i, k, j)`: `i = 2 .. -1 .. -1` (negative step), `d = i*i - 3` (derived local), `k = 2*i + 1` (derived
    parameter, negative for `i = -1`), `j = d .. i .. 2` (bounds depend on outer locals, empty for some `i`) -/
def example1 : Program :=
  { globals := [],
    classes := [{ name := "T",
                  locals := [.range ⟨.const 2, .const (-1), .const (-1)⟩,
                             .expr (.bin .sub (.bin .mul (.var 0) (.var 0)) (.const 3)),
                             .expr (.bin .add (.bin .mul (.const 2) (.var 0)) (.const 1)),
                             .range ⟨.var 1, .var 0, .const 2⟩],
                  isParam := [true, false, true, true], place := .var 0, prio := none, flows := [] }] }

example : (space example1 0).length = 6 := by decide
example : RangesAreParams (example1.classes[0]!.sems example1.globals) example1.classes[0]!.isParam := by decide
example : NoOverflow (classKeyInfo example1.globals example1.classes[0]!) (space example1 0) := by decide
example : makeKey example1 0 [-1, -2, -1, -2] ≠ makeKey example1 0 [0, -3, 1, -1] := by decide

/-- a class without derived parameters: the printing hypotheses hold and the decoded values are the parameters -/
def example2 : Program :=
  { globals := [3],
    classes := [{ name := "U",
                  locals := [.range ⟨.const (-2), .glob 0, .const 2⟩,
                             .expr (.bin .mul (.var 0) (.const 2)),
                             .range ⟨.var 1, .const 1, .const (-1)⟩],
                  isParam := [true, false, true], place := .var 0, prio := none, flows := [] }] }

example : (space example2 0).length = 4 := by decide
example : PrintHyp (classKeyInfo example2.globals example2.classes[0]!) (example2.classes[0]!.sems example2.globals) := by decide
example : keyPrintVals (classKeyInfo example2.globals example2.classes[0]!) (makeKey example2 0 [2, 4, 3]) = [2, 3] := by decide

end ParsecVerif.C23
