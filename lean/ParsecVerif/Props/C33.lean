import ParsecVerif.Proofs.RwLockSafe
import ParsecVerif.Proofs.RwLock32
/-!
# C33 — the runtime read-write lock excludes correctly and makes progress

Model: `Model/RwLock.lean`, the phase-fair ticket lock configured in `parsec/class/parsec_rwlock.h`
(`PARSEC_RWLOCK_IMPL_TICKET`), one transition per atomic primitive / barrier / spin re-read / plain
access to a shared field.  A configuration is a list of threads, each with its own list of lock
cycles (`rd` = rdlock … rdunlock, `wr` = wrlock … wrunlock); a schedule is any list of thread ids.
All theorems are for ANY number of threads, ANY programs, ANY schedule and any initial value
`(a, b)` of the counters.  `run 0` is the machine over the naturals, `run M32` the machine over the
32-bit fields; `C33_refine32` transfers every statement to the latter for fewer than 2^24 threads.
-/
namespace ParsecVerif.C33
open ParsecVerif.RwLock

/-- the states reachable from an unlocked lock -/
def reach (a b : Nat) (progs : List (List Kind)) (sched : List Nat) : State := run 0 (init a b progs) sched

theorem reach_inv (a b : Nat) (progs : List (List Kind)) (sched : List Nat) : Inv (reach a b progs sched) :=
  inv_reach a b progs sched

/-- **Mutual exclusion.**  In every reachable state at most one thread is inside the write critical
    section, and if one is, no thread is inside the read critical section. -/
theorem C33_exclusion (a b : Nat) (progs : List (List Kind)) (sched : List Nat) :
    writersIn (reach a b progs sched) ≤ 1 ∧
    (writersIn (reach a b progs sched) = 1 → readersIn (reach a b progs sched) = 0) := by
  obtain ⟨h1, h2, _⟩ := excl_counts _ (reach_inv a b progs sched)
  exact ⟨h1, h2⟩

/-- the same, thread by thread: a writer inside excludes every other thread, reader or writer -/
theorem C33_exclusion_threads (a b : Nat) (progs : List (List Kind)) (sched : List Nat) (i j t : Nat) (x y : Thread)
    (hij : i ≠ j) (hi : (reach a b progs sched).th[i]? = some x) (hj : (reach a b progs sched).th[j]? = some y)
    (hx : x.pc = .wIn t) : y.pc ≠ .rIn ∧ ∀ t', y.pc ≠ .wIn t' :=
  excl_threads _ (reach_inv a b progs sched) i j t x y hij hi hj hx

/-- **Writers enter in ticket order.**  Along every schedule the tickets of the writers, recorded at
    the moment each enters the write critical section, are `b, b+1, b+2, …` without gap or repetition;
    tickets are handed out by `fetch_inc(&win)` in the same order. -/
theorem C33_ticket_order (a b : Nat) (progs : List (List Kind)) (sched : List Nat) :
    (runL (init a b progs) sched).2 = List.range' b (runL (init a b progs) sched).2.length :=
  log_run a b progs sched

/-- the writer inside holds the ticket that `wout` currently shows -/
theorem C33_holder_ticket (a b : Nat) (progs : List (List Kind)) (sched : List Nat) (i t : Nat) (x : Thread)
    (hi : (reach a b progs sched).th[i]? = some x) (hx : x.pc = .wIn t) : t = (reach a b progs sched).wout := by
  have := (reach_inv a b progs sched).pt i x hi
  rw [hx] at this
  exact this

/-- **Readers may share.**  Two (three) readers are inside together in a reachable state. -/
theorem C33_readers_share :
    (∃ sched, readersIn (reach 0 0 [[.rd], [.rd]] sched) = 2) ∧
    (∃ sched, readersIn (reach 0 0 [[.rd], [.wr], [.rd], [.rd]] sched) = 3) :=
  ⟨⟨[0, 0, 0, 1, 1, 1], by decide⟩, ⟨[0, 0, 0, 2, 2, 2, 1, 1, 3, 3, 3], by decide⟩⟩

/-- **No deadlock.**  In every reachable state in which some thread has not finished its program,
    some thread can take a step that changes the state (a thread waiting in a spin loop whose
    condition is false does not count: its step leaves the state unchanged). -/
theorem C33_no_deadlock (a b : Nat) (progs : List (List Kind)) (sched : List Nat) (i0 : Nat) (x0 : Thread)
    (h0 : (reach a b progs sched).th[i0]? = some x0) (hnd : x0.pc ≠ .done) :
    ∃ (i : Nat) (x : Thread), (reach a b progs sched).th[i]? = some x ∧ canMove (reach a b progs sched) x.pc = true ∧
      step 0 (reach a b progs sched) i ≠ reach a b progs sched := by
  obtain ⟨i, x, hi, hc⟩ := exists_canMove _ (reach_inv a b progs sched) x0 i0 h0 hnd
  refine ⟨i, x, hi, hc, ?_⟩
  intro he
  have := mu_step_lt 0 _ i x hi hc
  rw [he] at this
  exact Nat.lt_irrefl _ this

def isSpin : Pc → Bool
  | .rSpin _ => true
  | .wSpin1 _ => true
  | .wSpin2 _ _ => true
  | _ => false

/-- **Progress.**  In every reachable state in which nobody is inside or in the middle of a lock or
    unlock operation (every thread is finished or waits in a spin loop) and some thread waits, the spin
    condition of some waiting thread holds: it stops waiting at its next step. -/
theorem C33_progress (a b : Nat) (progs : List (List Kind)) (sched : List Nat)
    (hall : ∀ x ∈ (reach a b progs sched).th, x.pc = .done ∨ isSpin x.pc = true)
    (i0 : Nat) (x0 : Thread) (h0 : (reach a b progs sched).th[i0]? = some x0) (hw : isSpin x0.pc = true) :
    ∃ (i : Nat) (x : Thread), (reach a b progs sched).th[i]? = some x ∧ isSpin x.pc = true ∧
      blocked (reach a b progs sched) x.pc = false := by
  have hnd : x0.pc ≠ .done := by intro h; rw [h] at hw; cases hw
  obtain ⟨i, x, hi, hc, _⟩ := C33_no_deadlock a b progs sched i0 x0 h0 hnd
  obtain ⟨hlt, hx⟩ := getElem_of_getElem? hi
  have hmem : x ∈ (reach a b progs sched).th := hx ▸ List.getElem_mem hlt
  rw [canMove_eq] at hc
  simp only [Bool.and_eq_true, Bool.not_eq_true', decide_eq_true_eq] at hc
  rcases hall x hmem with hd | hs
  · exact absurd hd hc.1
  · exact ⟨i, x, hi, hs, hc.2⟩

/-- **Measure.**  Every step either leaves the state unchanged (a finished thread, or a waiting
    thread whose spin condition is false) or strictly decreases the natural number `mu`. -/
theorem C33_measure (M : Nat) (s : State) (i : Nat) : step M s i = s ∨ mu (step M s i) < mu s := by
  cases h : s.th[i]? with
  | none => left; unfold step; rw [h]
  | some x =>
    cases hc : canMove s x.pc with
    | false => exact Or.inl (stutter M s i x h hc)
    | true => exact Or.inr (mu_step_lt M s i x h hc)

theorem mu_init (a b : Nat) (progs : List (List Kind)) :
    mu (init a b progs) = progs.length + ((progs.map fun p => (p.map cost).sum)).sum := by
  unfold mu init
  simp only
  induction progs with
  | nil => rfl
  | cons p ps ih =>
    simp only [List.map_cons, List.sum_cons, List.length_cons, muT, rank] at ih ⊢
    omega

/-- **Liveness under fairness.**  Every schedule made of at least `mu (init …)` fair rounds — in each
    round every thread is scheduled at least once, in any order, any number of times — runs every
    thread to the end of its program: every `rdlock`/`wrlock` issued has returned (every waiting thread
    acquired the lock) and has been released.  `mu (init …) = #threads + 8·#read cycles + 13·#write cycles`. -/
theorem C33_fair_termination (a b : Nat) (progs : List (List Kind)) (rounds : List (List Nat))
    (hfair : ∀ r ∈ rounds, ∀ i, i < progs.length → i ∈ r)
    (hlen : mu (init a b progs) ≤ rounds.length) :
    allDone (reach a b progs rounds.flatten) := by
  apply fair_rounds_terminate _ (inv_init a b progs) rounds _ hlen
  intro r hr i hi
  apply hfair r hr i
  simpa [init] using hi

/-- **Distance of a waiting writer.**  A writer waiting with ticket `t` is `t - wout ≥ 1` write
    releases away from its turn while another writer holds the lock, and the completion of a write
    release (`wout = wout + 1`) decreases that distance by exactly one. -/
theorem C33_writer_distance (a b : Nat) (progs : List (List Kind)) (sched : List Nat) (i k t t' v : Nat) (x y : Thread)
    (hi : (reach a b progs sched).th[i]? = some x) (hx : x.pc = .wSpin1 t)
    (hk : (reach a b progs sched).th[k]? = some y) (hy : y.pc = .wStore t' v) :
    (step 0 (reach a b progs sched) k).wout = (reach a b progs sched).wout + 1 ∧
    (reach a b progs sched).wout < t := by
  have hinv := reach_inv a b progs sched
  have h1 := hinv.pt i x hi
  have h2 := hinv.pt k y hk
  have hpos := cnt_pos _ k y hk
  rw [hx] at h1
  rw [hy] at h2 hpos
  simp only [PT, PTv, H, n, cls] at h1 h2 hpos
  constructor
  · unfold step
    rw [hk]
    obtain ⟨pc, prog⟩ := y
    simp only at hy
    subst hy
    simp only [stepT, setT, Nat.mod_zero]
    omega
  · omega

/-- **Refinement to the 32-bit fields.**  With fewer than `2^24` threads, the machine whose counters
    and locals are 32-bit words (all additions modulo `2^32`, equality tests on the wrapped values)
    goes, under every schedule, through exactly the images of the states of the machine over the
    naturals. -/
theorem C33_refine32 (a b : Nat) (progs : List (List Kind)) (sched : List Nat) (hn : progs.length < 16777216) :
    run M32 (wrapS M32 (init a b progs)) sched = wrapS M32 (reach a b progs sched) :=
  wrapS_run _ sched (inv_init a b progs) (by simpa [init] using hn)

theorem wrap_writersIn (s : State) : writersIn (wrapS M32 s) = writersIn s := by
  unfold writersIn wrapS
  simp only
  induction s.th with
  | nil => rfl
  | cons x t ih =>
    obtain ⟨pc, prog⟩ := x
    simp only [List.map_cons, List.filter_cons, wrapT]
    cases pc <;> simp [wrapPc, ih]

theorem wrap_readersIn (s : State) : readersIn (wrapS M32 s) = readersIn s := by
  unfold readersIn wrapS
  simp only
  induction s.th with
  | nil => rfl
  | cons x t ih =>
    obtain ⟨pc, prog⟩ := x
    simp only [List.map_cons, List.filter_cons, wrapT]
    cases pc <;> simp [wrapPc, ih]

/-- mutual exclusion for the machine over 32-bit words (fewer than `2^24` threads) -/
theorem C33_exclusion32 (a b : Nat) (progs : List (List Kind)) (sched : List Nat) (hn : progs.length < 16777216) :
    writersIn (run M32 (wrapS M32 (init a b progs)) sched) ≤ 1 ∧
    (writersIn (run M32 (wrapS M32 (init a b progs)) sched) = 1 →
      readersIn (run M32 (wrapS M32 (init a b progs)) sched) = 0) := by
  rw [C33_refine32 a b progs sched hn, wrap_writersIn, wrap_readersIn]
  exact C33_exclusion a b progs sched

/-- the executions seen by the cooperative scheduler (a step = up to the next yield point) are
    executions of the fine-grained machine, so the theorems above apply to them -/
theorem C33_macro (M : Nat) (s : State) (sched : List Nat) : ∃ l, macroRun M s sched = run M s l :=
  macroRun_eq_run M s sched

/-! ## Non-vacuity -/

/-- a writer is inside while a reader and a second writer wait; both wait on false conditions -/
example : (reach 0 0 [[.wr], [.rd], [.wr]] [0, 0, 0, 0, 0, 0, 1, 1, 1, 2, 2, 2]).th.map (·.pc) =
    [.wIn 0, .rSpin 2, .wSpin1 1] := by decide

set_option maxRecDepth 8000 in
/-- ticket log of two writers and a reader under an interleaved schedule -/
example : (runL (init 0 5 [[.wr], [.rd], [.wr, .wr]]) (List.replicate 31 [2, 0, 1]).flatten).2 = [5, 6, 7] := by decide

set_option maxRecDepth 8000 in
/-- a fair schedule of 28 rounds finishes three threads with five lock cycles (the bound is 53) -/
example : (reach 0 0 [[.wr, .rd], [.rd], [.wr, .rd]] (List.replicate 28 [0, 1, 2]).flatten).th.map (·.pc) =
    [.done, .done, .done] := by decide

example : mu (init 0 0 [[.wr, .rd], [.rd], [.wr, .rd]]) = 53 := by decide

/-- the 32-bit machine started just below the wrap-around of all four counters -/
example : run M32 (wrapS M32 (init 16777215 4294967295 [[.wr], [.rd]])) [0, 0, 0, 1, 1, 0] =
    { rin := 3, rout := 4294967040, win := 0, wout := 4294967295,
      th := [⟨.wSpin2 4294967295 0, []⟩, ⟨.rFence, []⟩] } := by decide

/-- hypotheses of `C33_progress` are satisfiable: everybody waits (two writers behind a reader-drain) -/
example : ((reach 0 0 [[.rd], [.wr], [.wr]] [0, 0, 0, 1, 1, 1, 1, 1, 2, 2, 2]).th.map (·.pc)) =
    [.rIn, .wSpin2 0 256, .wSpin1 1] := by decide

end ParsecVerif.C33
