import ParsecVerif.Proofs.TermdetLocalInv
/-!
# C10 — local termination detection is exact

Model: `Model/TermdetLocal.lean` (one transition per atomic operation of
`parsec/mca/termdet/local/termdet_local_module.c`).  All theorems quantify over ANY number of threads,
ANY scripts of API calls and ANY interleaving (`Reach scripts s`: `s` is reached from the initial state by a
schedule every step of which respects the usage protocol `okStep`):

* counters never go negative, a thread releases only units it holds (`put`/`take` hand units over);
* a counter is raised (positive add, set to a larger value) only by a thread that itself holds an accounted
  unit or the set-up token (`canRaise`) — hence nothing is added after termination;
* `taskpool_ready` is called by the holder of the set-up token.

Outside that protocol the detector is unsound by design: `C10_boundary`.
-/
namespace ParsecVerif.C10
open ParsecVerif.TermdetLocal

theorem sumBy_eq_zero (f : Thread → Nat) (l : List Thread) (h : sumBy f l = 0) : ∀ th ∈ l, f th = 0 := by
  induction l with
  | nil => intro th hm; simp at hm
  | cons a t ih =>
    simp only [sumBy] at h
    intro th hm
    rcases List.mem_cons.1 hm with rfl | hm
    · omega
    · exact ih (by omega) th hm

theorem exists_of_sumBy_pos (f : Thread → Nat) (l : List Thread) (h : 1 ≤ sumBy f l) :
    ∃ i, ∃ hi : i < l.length, 1 ≤ f l[i] := by
  induction l with
  | nil => simp [sumBy] at h
  | cons a t ih =>
    simp only [sumBy] at h
    by_cases ha : 1 ≤ f a
    · exact ⟨0, by simp, by simpa using ha⟩
    · obtain ⟨i, hi, hf⟩ := ih (by omega)
      exact ⟨i + 1, by simpa using hi, by simpa using hf⟩

/-- every thread has returned from all its calls -/
def AllDone (s : State) : Prop := ∀ th ∈ s.ths, th.pc = .idle ∧ th.script = []

/-- no thread is between its update of `nb_tasks` and the matching inc/dec of `nb_pending_actions` -/
def NoneInCounterPart (s : State) : Prop := ∀ th ∈ s.ths, ∀ r, th.pc ≠ .tInc r ∧ th.pc ≠ .tDec r

/-- no accounted unit is left anywhere (so the protocol allows no further change of the counters) -/
def NothingHeld (s : State) : Prop :=
  (∀ th ∈ s.ths, th.hT = 0 ∧ th.hA = 0 ∧ th.hK = 0) ∧ s.sh.pT = 0 ∧ s.sh.pA = 0 ∧ s.sh.pK = 0

/-- **Safety.**  Whenever the monitor is TERMINATING or TERMINATED — i.e. from the linearization point of the
    winning CAS BUSY→TERMINATING on — `ready` has happened, both counters are 0, no thread is inside the counter
    part of an update and no unit is outstanding. -/
theorem C10_safe (scripts : List (List Op)) (s : State) (h : Reach scripts s)
    (ht : s.sh.mon = 3 ∨ s.sh.mon = 0) :
    s.sh.rdy = 1 ∧ s.sh.nt = 0 ∧ s.sh.npa = 0 ∧ NoneInCounterPart s ∧ NothingHeld s := by
  have hI := inv_reach scripts s h
  obtain ⟨i1, i2, i3, i4, i5, i6, i7, i8, i9, i10, i11⟩ := hI
  have q := i7 (by omega)
  have hT0 : sumBy wT s.ths = 0 := by have := q.2.1; simp only [total] at i3; omega
  have hA0 : sumBy wA s.ths = 0 := by have := q.2.2.2.1; simp only [total] at this; omega
  have hK0 : sumBy wK s.ths = 0 := by have := i5.2 q.1; simp only [total] at this; omega
  have hinc : sumBy wInc s.ths = 0 := q.2.2.2.2.1
  have hdec : sumBy wDec s.ths = 0 := q.2.2.2.2.2
  refine ⟨i2.2 q.1, q.2.1, q.2.2.1, ?_, ⟨?_, ?_, ?_, ?_⟩⟩
  · intro th hm r
    have a := sumBy_eq_zero _ _ hinc th hm
    have b := sumBy_eq_zero _ _ hdec th hm
    constructor
    · intro hp; simp [wInc, hp] at a
    · intro hp; simp [wDec, hp] at b
  · intro th hm
    exact ⟨sumBy_eq_zero _ _ hT0 th hm, sumBy_eq_zero _ _ hA0 th hm, sumBy_eq_zero _ _ hK0 th hm⟩
  · have := q.2.1; simp only [total] at i3; omega
  · have := q.2.2.2.1; simp only [total] at this; omega
  · have := i5.2 q.1; simp only [total] at this; omega

@[simp] theorem addPool_mon (sh : Shared) (c : Kind) (k : Nat) : (addPool sh c k).mon = sh.mon := by cases c <;> rfl
@[simp] theorem subPool_mon (sh : Shared) (c : Kind) (k : Nat) : (subPool sh c k).mon = sh.mon := by cases c <;> rfl

/-- the monitor word only moves forward NOT_READY → BUSY → TERMINATING → TERMINATED (no protocol needed) -/
theorem tstep_mon (sh : Shared) (th : Thread) :
    (tstep sh th).1.mon = sh.mon ∨ (sh.mon = 1 ∧ (tstep sh th).1.mon = 2) ∨
    (sh.mon = 2 ∧ (tstep sh th).1.mon = 3) ∨ (sh.mon = 3 ∧ (tstep sh th).1.mon = 0) := by
  unfold tstep begin
  repeat' split
  all_goals simp_all

theorem step_mon (s : State) (t : Nat) :
    (step s t).sh.mon = s.sh.mon ∨ (s.sh.mon = 1 ∧ (step s t).sh.mon = 2) ∨
    (s.sh.mon = 2 ∧ (step s t).sh.mon = 3) ∨ (s.sh.mon = 3 ∧ (step s t).sh.mon = 0) := by
  unfold step
  cases hth : s.ths[t]? with
  | none => simp
  | some th => exact tstep_mon s.sh th

theorem run_detected (s : State) (sched : List Nat) (h : s.sh.mon = 3 ∨ s.sh.mon = 0) :
    (run s sched).sh.mon = 3 ∨ (run s sched).sh.mon = 0 := by
  induction sched generalizing s with
  | nil => simpa [run] using h
  | cons t r ih =>
    simp only [run, List.foldl_cons]
    apply ih
    have := step_mon s t
    omega

/-- **Safety, for ever.**  Once detected, every protocol-respecting continuation keeps the taskpool detected with
    both counters 0 and exactly one callback: it is never reported terminated while a count is non-zero, and
    nothing is added after termination. -/
theorem C10_safe_forever (scripts : List (List Op)) (s : State) (h : Reach scripts s)
    (ht : s.sh.mon = 3 ∨ s.sh.mon = 0) (sched : List Nat) (hok : okRun s sched = true) :
    ((run s sched).sh.mon = 3 ∨ (run s sched).sh.mon = 0) ∧ (run s sched).sh.nt = 0 ∧
    (run s sched).sh.npa = 0 ∧ (run s sched).sh.cb = 1 := by
  have hr := reach_run scripts s sched h hok
  have hd := run_detected s sched ht
  have hs := C10_safe scripts _ hr hd
  have hI := inv_reach scripts _ hr
  have i8 := hI.h
  refine ⟨hd, hs.2.1, hs.2.2.1, ?_⟩
  omega

/-- **Exactly once.**  The callback runs at most once; it has not run while NOT_READY/BUSY, it has run exactly
    once when TERMINATING (the caller is between the callback and its final CAS) or TERMINATED. -/
theorem C10_once (scripts : List (List Op)) (s : State) (h : Reach scripts s) :
    s.sh.cb ≤ 1 ∧ (s.sh.mon = 1 ∨ s.sh.mon = 2 → s.sh.cb = 0) ∧ (s.sh.mon = 3 ∨ s.sh.mon = 0 → s.sh.cb = 1) ∧
    (s.sh.cb = 1 → s.sh.mon = 3 ∨ s.sh.mon = 0) := by
  have hI := inv_reach scripts s h
  have i1 := hI.mon3
  have i8 := hI.h
  omega

/-- what a monitoring thread sees: if `taskpool_state` returns TERMINATED (4) then, at that moment, the callback
    has run exactly once and both counters are 0 -/
theorem C10_state_call (scripts : List (List Op)) (s : State) (h : Reach scripts s) (t : Nat) (th th' : Thread)
    (rest : List Op) (hth : s.ths[t]? = some th) (hpc : th.pc = .idle) (hs : th.script = .state :: rest)
    (hth' : (step s t).ths[t]? = some th') (hret : th'.ret = 4) :
    s.sh.mon = 0 ∧ s.sh.cb = 1 ∧ s.sh.nt = 0 ∧ s.sh.npa = 0 ∧ (step s t).sh = s.sh := by
  obtain ⟨hi, _⟩ := getElem_of_getElem? hth
  have hstep : step s t = ⟨s.sh, s.ths.set t (fin { th with script := rest } (stateCode s.sh.mon))⟩ := by
    simp [step, hth, tstep, hpc, begin, hs]
  rw [hstep] at hth'
  simp only [List.getElem?_set_self hi, Option.some.injEq] at hth'
  subst hth'
  have hm : s.sh.mon = 0 := by
    simp only [fin, stateCode] at hret
    split at hret
    · assumption
    · split at hret
      · omega
      · split at hret <;> omega
  have hsafe := C10_safe scripts s h (Or.inr hm)
  have honce := C10_once scripts s h
  refine ⟨hm, ?_, hsafe.2.1, hsafe.2.2.1, by rw [hstep]⟩
  omega

theorem allDone_zero (s : State) (hd : AllDone s) (f : Thread → Nat)
    (hf : ∀ th : Thread, th.pc = .idle → f th = 0) : sumBy f s.ths = 0 :=
  sumBy_zero f s.ths (fun th hm => hf th (hd th hm).1)

/-- **Liveness (no lost detection).**  In every reachable state in which all threads have returned from all their
    calls: the monitor is not stuck in TERMINATING, `nb_pending_actions` is exactly the outstanding actions plus
    `[nb_tasks > 0]`, and if `ready` was called and both counters are 0 then termination HAS been reported
    (TERMINATED, callback run once): the thread whose update made the counters zero — or `ready` itself —
    performed the detection. -/
theorem C10_live (scripts : List (List Op)) (s : State) (h : Reach scripts s) (hd : AllDone s) :
    s.sh.mon ≠ 3 ∧ ¬(s.sh.mon = 2 ∧ s.sh.npa = 0) ∧
    s.sh.npa = ((sumBy wA s.ths + s.sh.pA : Nat) : Int) + (if 0 < s.sh.nt then 1 else 0) ∧
    (s.sh.rdy = 1 → s.sh.nt = 0 → s.sh.npa = 0 → s.sh.mon = 0 ∧ s.sh.cb = 1) := by
  have hI := inv_reach scripts s h
  obtain ⟨i1, i2, i3, i4, i5, i6, i7, i8, i9, i10, i11⟩ := hI
  have z2 : (total s.ths).c2 = 0 := allDone_zero s hd wC2 (by intro th hp; simp [wC2, hp])
  have z3 : (total s.ths).c3 = 0 := allDone_zero s hd wC3 (by intro th hp; simp [wC3, hp])
  have zr : (total s.ths).ret = 0 := allDone_zero s hd wRet (by intro th hp; simp [wRet, hp])
  have zi : (total s.ths).inc = 0 := allDone_zero s hd wInc (by intro th hp; simp [wInc, hp])
  have zd : (total s.ths).dec = 0 := allDone_zero s hd wDec (by intro th hp; simp [wDec, hp])
  have hA : (total s.ths).hA = sumBy wA s.ths := rfl
  refine ⟨by omega, by omega, ?_, by omega⟩
  split <;> omega

/-- **Liveness (progress).**  Whenever the monitor is BUSY with `nb_pending_actions = 0`, some thread is already
    committed to the detection: its next one or two steps are always allowed and bring the monitor to TERMINATING
    (callback called), whatever the other threads do meanwhile being irrelevant since it needs no one else. -/
theorem C10_live_progress (scripts : List (List Op)) (s : State) (h : Reach scripts s)
    (hm : s.sh.mon = 2) (hz : s.sh.npa = 0) :
    ∃ t, okStep s t ∧ (((step s t).sh.mon = 3 ∧ (step s t).sh.cb = 1) ∨
      (okStep (step s t) t ∧ (step (step s t) t).sh.mon = 3 ∧ (step (step s t) t).sh.cb = 1)) := by
  have hI := inv_reach scripts s h
  have hcb : s.sh.cb = 0 := (hI.h.1 (Or.inr hm)).1
  have hl := hI.l ⟨hm, hz⟩
  have hl' : 1 ≤ sumBy (fun th => wC2 th + wRet th) s.ths := by
    rw [sumBy_add]; exact hl
  obtain ⟨t, hi, hf⟩ := exists_of_sumBy_pos _ _ hl'
  have hth : s.ths[t]? = some s.ths[t] := List.getElem?_eq_getElem hi
  generalize hx : s.ths[t] = th at hth hf
  refine ⟨t, ?_, ?_⟩
  · simp only [okStep, hth]
    cases hpc : th.pc <;> simp [wC2, wRet, hpc] at hf <;> simp [enabled, hpc]
  · cases hpc : th.pc <;> simp [wC2, wRet, hpc] at hf
    · -- rRetain: RETAIN, reads nbpa = 0, goes for the CAS; second step wins it
      right
      have h1 : step s t = ⟨{ s.sh with rc := s.sh.rc + 1 }, s.ths.set t { th with pc := .dCas2 0 }⟩ := by
        simp [step, hth, tstep, hpc, hz]
      have h2 : (step s t).ths[t]? = some { th with pc := .dCas2 0 } := by
        rw [h1]; simp [List.getElem?_set_self hi]
      have hsh : (step s t).sh = { s.sh with rc := s.sh.rc + 1 } := by rw [h1]
      generalize step s t = s1 at h2 hsh
      refine ⟨?_, ?_, ?_⟩
      · simp [okStep, h2, enabled]
      · simp [step, h2, tstep, hsh, hm]
      · simp [step, h2, tstep, hsh, hm, hcb]
    · -- dCas2: the CAS succeeds
      left
      constructor
      · simp [step, hth, tstep, hpc, hm]
      · simp [step, hth, tstep, hpc, hm, hcb]

/-- reference count: `ready` retains once, the detection releases once; relative to its initial value the count
    stays within −1 … 1 and is back to 0 when everything has returned after termination -/
theorem C10_refcount (scripts : List (List Op)) (s : State) (h : Reach scripts s) :
    -1 ≤ s.sh.rc ∧ s.sh.rc ≤ 1 ∧ (AllDone s → s.sh.mon = 0 → s.sh.rc = 0) := by
  have hI := inv_reach scripts s h
  obtain ⟨i1, i2, i3, i4, i5, i6, i7, i8, i9, i10, i11⟩ := hI
  refine ⟨by omega, by omega, ?_⟩
  intro hd hm
  have zr : (total s.ths).ret = 0 := allDone_zero s hd wRet (by intro th hp; simp [wRet, hp])
  have zl : (total s.ths).rel = 0 := allDone_zero s hd wRel (by intro th hp; simp [wRel, hp])
  omega

/-! ### The documented boundary: without the protocol the detector is unsound by design

Thread 0 legitimately brings `nb_pending_actions` to 0 while BUSY and is about to CAS; thread 1 — holding no
accounted unit — raises the counter to 1; thread 0's CAS BUSY→TERMINATING still succeeds.  (Replayed on the real
code: corpus/C10/010-boundary-unsound.case.) -/

def bScripts : List (List Op) := [[.take .K 1, .addA 1, .ready, .addA (-1)], [.addA 1]]
def bSched : List Nat := [0, 0, 0, 0, 0, 0, 0, 0, 1, 1, 0]

theorem C10_boundary :
    okRun (init bScripts) bSched = false ∧ firstBad (init bScripts) bSched 0 = some 9 ∧
    (run (init bScripts) bSched).sh.mon = 3 ∧ (run (init bScripts) bSched).sh.cb = 1 ∧
    (run (init bScripts) bSched).sh.npa = 1 := by decide

/-! ### An observation on the real code (inside the protocol): RELEASE can precede ready's RETAIN

`taskpool_ready` publishes BUSY *before* it retains the taskpool.  If the units are held by other threads, one of
them can detect termination and run the RELEASE in that window: the reference count drops below its initial value
(with an initial count of 1 the taskpool would be destructed while `ready` is still about to touch it).
(Replayed on the real code: corpus/C10/011-release-before-retain.case.) -/

def rScripts : List (List Op) := [[.take .K 1, .addA 1, .put .A 1, .ready], [.take .A 1, .addA (-1)]]
def rSched : List Nat := [0, 0, 0, 0, 0, 0, 1, 1, 1, 1, 1, 1]

theorem C10_refcount_dip :
    okRun (init rScripts) rSched = true ∧ (run (init rScripts) rSched).sh.rc = -1 ∧
    (run (init rScripts) rSched).sh.mon = 0 ∧
    ((run (init rScripts) rSched).ths[0]?.map (·.pc)) = some .rRetain := by decide

/-! ### Non-vacuity: the hypotheses are satisfiable on non-trivial executions -/

/-- three threads; nb_tasks crosses zero three times; the last decrement races with `ready` -/
def eScripts : List (List Op) :=
  [[.take .K 1, .addT 2, .addA 2, .put .T 1, .put .A 1, .ready, .addT (-1), .addA (-1)],
   [.take .T 1, .addT (-1), .state],
   [.take .A 1, .addT 1, .addT (-1), .addT 2, .addT (-2), .addA (-1), .state]]
def eSched : List Nat :=
  [0, 0, 0, 0, 0, 0, 0, 0,   -- set-up: token, 2 tasks, 2 actions, hand one of each over
   2, 1, 2, 2, 1, 1, 0, 0, 1, 2, 2, 0, 2, 2, 2, 0, 2, 2, 2, 0, 2, 0, 0, 0, 0, 0, 0]

example : okRun (init eScripts) eSched = true := by decide
example : Reach eScripts (run (init eScripts) eSched) :=
  reach_run eScripts _ _ (Reach.init) (by decide)
example : (run (init eScripts) eSched).sh.mon = 0 ∧ (run (init eScripts) eSched).sh.cb = 1 ∧
    (run (init eScripts) eSched).sh.rc = 0 ∧ (run (init eScripts) eSched).ths.all Thread.done = true := by decide
/-- a reachable state to which `C10_live_progress` applies (BUSY, nbpa = 0, detection pending) -/
example : ∃ k, (run (init eScripts) (eSched.take k)).sh.mon = 2 ∧ (run (init eScripts) (eSched.take k)).sh.npa = 0 :=
  ⟨32, by decide⟩

end ParsecVerif.C10
