import ParsecVerif.Proofs.ContextStamps2
/-!
# C06 — wait and completion calls return exactly when the work is done

Theorems about EVERY run of the context machine `Model/Context.lean` (any number of workers, any
number of taskpools — plain, DTD-like, or added without a termination detector —, any number of
epochs, any interleaving of the transitions, taskpools added by the master, by task bodies and by
completion callbacks).  Stamps are the values of the machine's global clock at the steps.
-/
namespace ParsecVerif.C06
open ParsecVerif.Context

theorem sinv_run (k : Nat) (tps : List Tp) (hf : ∀ tp ∈ tps, tp.fresh) (trs : List Tr) :
    Inv (run k tps trs) ∧ SInv (run k tps trs) := by
  unfold run
  have key : ∀ (trs : List Tr) (s : St), Inv s → SInv s → Inv (trs.foldl step s) ∧ SInv (trs.foldl step s) := by
    intro trs
    induction trs with
    | nil => intro s h1 h2; exact ⟨h1, h2⟩
    | cons tr trs ih =>
      intro s h1 h2
      apply ih
      · exact inv_step' tr h1
      · unfold step
        cases hs : step? s tr with
        | none => exact h2
        | some s' => exact sinv_step h1 h2 hs
  exact key trs _ (inv_init k tps hf) (sinv_init k tps hf)

/-- **parsec_context_wait is sound.**  Whenever a wait returned (stamp `r`), every taskpool whose
    increment (`parsec_context_add_taskpool`) happened before that return — whoever added it: the
    master, a task body or a completion callback of that epoch or of an earlier one — is completely
    done before `r`: all its tasks ended, then its completion callback ran (once), then
    `active_taskpools` was decremented, then the wait returned. -/
theorem C06_wait_sound (k : Nat) (tps : List Tp) (hf : ∀ tp ∈ tps, tp.fresh) (trs : List Tr)
    (r : Nat) (hr : r ∈ (run k tps trs).waitRets) (tp : Tp) (hm : tp ∈ (run k tps trs).tps)
    (ha : tp.addAt ≠ 0) (hlt : tp.addAt < r) :
    tp.st = .done ∧ tp.ended = tp.total ∧ tp.started = tp.total ∧ tp.cbs = 1 ∧
    tp.lastEnd < tp.cbAt ∧ tp.cbAt < tp.decAt ∧ tp.decAt < r := by
  obtain ⟨_, hs⟩ := sinv_run k tps hf trs
  obtain ⟨_, h2⟩ := hs.wr r hr
  obtain ⟨hd0, hdr⟩ := h2 tp hm ha hlt
  have hok := hs.tpok tp hm
  cases hst : tp.st <;> simp only [tpOK, hst] at hok <;> first | omega | skip
  exact ⟨rfl, by omega, by omega, by omega, by omega, by omega, hdr⟩

/-- **The completion callback runs exactly once, after the last task.**  At every moment of every
    run: at most one execution; exactly one as soon as the taskpool is done; and once it has run, all
    tasks of the taskpool have started and ended, the last end is earlier than the callback, and (no
    task being left) none can come later. -/
theorem C06_cb_once (k : Nat) (tps : List Tp) (hf : ∀ tp ∈ tps, tp.fresh) (trs : List Tr)
    (tp : Tp) (hm : tp ∈ (run k tps trs).tps) :
    tp.cbs ≤ 1 ∧ (tp.st = .done → tp.cbs = 1) ∧
    (tp.cbs = 1 → tp.ended = tp.total ∧ tp.started = tp.total ∧ tp.cbAt ≠ 0 ∧ tp.lastEnd < tp.cbAt ∧ tp.firstBegin < tp.cbAt) ∧
    (tp.decAt ≠ 0 → tp.cbs = 1 ∧ tp.cbAt < tp.decAt) := by
  obtain ⟨_, hs⟩ := sinv_run k tps hf trs
  have hok := hs.tpok tp hm
  cases hst : tp.st <;> simp only [tpOK, hst] at hok <;>
    obtain ⟨a1, a2, a3, a4, a5, a6, a7, a8, a9, a10, a11, a12⟩ := hok
  case notAdded => exact ⟨by omega, (fun e => nomatch e), by omega, by omega⟩
  case adding => exact ⟨by omega, (fun e => nomatch e), by omega, by omega⟩
  case added => exact ⟨by omega, (fun e => nomatch e), by omega, by omega⟩
  case earlyCb =>
    have := a7 a12.1
    exact ⟨by omega, (fun e => nomatch e), fun _ => ⟨by omega, by omega, by omega, by omega, by omega⟩, by omega⟩
  case earlyDec =>
    have := a7 a12.1
    exact ⟨by omega, (fun e => nomatch e), fun _ => ⟨by omega, by omega, by omega, by omega, by omega⟩, fun _ => ⟨by omega, by omega⟩⟩
  case inCb =>
    exact ⟨by omega, (fun e => nomatch e), fun _ => ⟨by omega, by omega, by omega, by omega, by omega⟩, by omega⟩
  case inCbN =>
    exact ⟨by omega, (fun e => nomatch e), fun _ => ⟨by omega, by omega, by omega, by omega, by omega⟩, by omega⟩
  case done =>
    exact ⟨by omega, fun _ => by omega, fun _ => ⟨by omega, by omega, by omega, by omega, by omega⟩, fun _ => ⟨by omega, by omega⟩⟩

/-- **parsec_taskpool_wait(p) is sound**: every recorded return is later than p's decrement, hence
    later than p's completion callback and than the end of every task of p. -/
theorem C06_taskpool_wait (k : Nat) (tps : List Tp) (hf : ∀ tp ∈ tps, tp.fresh) (trs : List Tr)
    (p r : Nat) (hr : (p, r) ∈ (run k tps trs).tpWaitRets) :
    ∃ tp : Tp, (run k tps trs).tps[p]? = some tp ∧ tp.st = .done ∧ tp.ended = tp.total ∧ tp.cbs = 1 ∧
      tp.lastEnd < tp.cbAt ∧ tp.cbAt < tp.decAt ∧ tp.decAt < r := by
  obtain ⟨_, hs⟩ := sinv_run k tps hf trs
  obtain ⟨_, tp, htp, hst, hd⟩ := hs.tw (p, r) hr
  have hok := hs.tpok tp (List.mem_of_getElem? htp)
  simp only [tpOK, hst] at hok
  exact ⟨tp, htp, hst, by omega, by omega, by omega, by omega, hd⟩

/-- number of taskpools counted in `active_taskpools`: added (or in their callback) and not yet
    decremented, minus those decremented before being incremented (taskpools added without detector) -/
def pendingCount (l : List Tp) : Int :=
  (l.countP (fun tp => tp.st == .added || tp.st == .inCb || tp.st == .inCbN) : Int) - (l.countP (fun tp => tp.st == .earlyDec) : Int)

theorem csum_eq_pendingCount (l : List Tp) : csum l = pendingCount l := by
  induction l with
  | nil => rfl
  | cons a t ih =>
    have e : csum (a :: t) = contrib a.st + csum t := by simp [csum]
    rw [e, ih]
    unfold pendingCount
    simp only [List.countP_cons]
    cases a.st <;> simp [contrib] <;> omega

/-- **The counter invariant, re-established at every start and in every epoch.**  In every
    reachable state `active_taskpools = token + |added ∖ decremented|`; the token is held exactly
    between `parsec_context_start` and `parsec_context_wait` (or during `parsec_taskpool_wait`);
    outside an epoch the master is outside the API, no token is held and every worker is parked at
    the barrier with nothing in hand. -/
theorem C06_epochs (k : Nat) (tps : List Tp) (hf : ∀ tp ∈ tps, tp.fresh) (trs : List Tr) :
    let s := run k tps trs
    s.active = (if s.token = true then 1 else 0) + pendingCount s.tps ∧
    (s.token = true ↔ (s.started = true ∧ (s.mm = .out ∨ isTpWait s.mm = true))) ∧
    (s.started = false → s.token = false ∧ s.mm = .out ∧ (∀ m ∈ s.wm, m = .parked) ∧
      ∀ w, w < s.wm.length → s.bases[w + 1]? = some .idle ∧ s.subs[w + 1]? = some .none) := by
  intro s
  obtain ⟨hi, _⟩ := sinv_run k tps hf trs
  refine ⟨by rw [← csum_eq_pendingCount]; exact hi.cnt, hi.tokM, ?_⟩
  intro hst
  obtain ⟨h1, h2⟩ := hi.notSt hst
  refine ⟨tok_false_of_not_started hi hst, h1, h2, ?_⟩
  intro w hw
  have hget : s.wm[w]? = some s.wm[w] := List.getElem?_eq_getElem hw
  exact hi.wIdle w _ hget (by rw [h2 _ (List.getElem_mem hw)]; simp)

/-- the step of `parsec_context_start` that takes the token re-establishes `active = 1 + pending` -/
theorem C06_start_token (k : Nat) (tps : List Tp) (hf : ∀ tp ∈ tps, tp.fresh) (trs : List Tr) (s' : St)
    (hs : step? (run k tps trs) .startToken = some s') :
    s'.token = true ∧ s'.active = 1 + pendingCount s'.tps ∧ s'.mm = .out ∧ s'.started = true := by
  obtain ⟨hi, _⟩ := sinv_run k tps hf trs
  have hi' := inv_step hi hs
  simp only [step?] at hs
  split at hs
  · cases hs
    refine ⟨rfl, ?_, rfl, (hi'.tokM.1 rfl).1⟩
    rw [← csum_eq_pendingCount]
    have hc := hi'.cnt
    simpa [tick] using hc
  · cases hs

theorem csum_zero_of_done (l : List Tp) (h : ∀ tp ∈ l, tp.st = .notAdded ∨ tp.st = .done) : csum l = 0 := by
  induction l with
  | nil => rfl
  | cons a t ih =>
    have ha := h a List.mem_cons_self
    have := ih (fun tp hm => h tp (List.mem_cons_of_mem _ hm))
    have e : csum (a :: t) = contrib a.st + csum t := by simp [csum]
    rw [e, this]
    rcases ha with e | e <;> rw [e] <;> rfl

/-- **Epoch end.**  When the master is past the end-of-epoch barrier (about to return from the wait)
    every worker has left the loop and is parked, every thread is idle, and every taskpool is either
    never added or completely done: the return cannot overtake anything. -/
theorem C06_epoch_end (k : Nat) (tps : List Tp) (hf : ∀ tp ∈ tps, tp.fresh) (trs : List Tr)
    (hm : (run k tps trs).mm = .leaving) :
    (∀ m ∈ (run k tps trs).wm, m = .parked) ∧
    (∀ tp ∈ (run k tps trs).tps, tp.st = .notAdded ∨ tp.st = .done) ∧
    (run k tps trs).active = 0 ∧
    ∀ t, t < (run k tps trs).bases.length → (run k tps trs).bases[t]? = some .idle ∧ (run k tps trs).subs[t]? = some .none := by
  obtain ⟨hi, _⟩ := sinv_run k tps hf trs
  obtain ⟨h1, h2⟩ := hi.leaving hm
  refine ⟨h1, h2, ?_, fun t ht => all_idle hi (Or.inl hm) t ht⟩
  have htok := tok_false_of_mm hi (by rw [hm]; simp) (by rw [hm]; rfl)
  have hc := hi.cnt
  rw [htok] at hc
  have hz := csum_zero_of_done _ h2
  simpa [hz] using hc

/-- **The loop can be left when the work is done**: with the token released and every taskpool
    either not added or done, the counter is 0 (so `sawZero` / `leave` are enabled for idle threads). -/
theorem C06_zero_when_done (k : Nat) (tps : List Tp) (hf : ∀ tp ∈ tps, tp.fresh) (trs : List Tr)
    (ht : (run k tps trs).token = false)
    (hd : ∀ tp ∈ (run k tps trs).tps, tp.st = .notAdded ∨ tp.st = .done) : (run k tps trs).active = 0 := by
  obtain ⟨hi, _⟩ := sinv_run k tps hf trs
  have hc := hi.cnt
  rw [ht] at hc
  have hz := csum_zero_of_done _ hd
  simpa [hz] using hc

/-! Non-vacuity: one worker, three taskpools — 0 (two tasks) added by the master before the start, 1 added
    by a task body of 0 while the master waits, 2 (no detector: fires at once) added by the completion
    callback of 0 — one full epoch.  The hypotheses of all theorems above are met by this run. -/
def exTps : List Tp := [mkTp 2 false false, mkTp 1 false false, mkTp 0 true false]
def exRun : List Tr :=
  [.addCall 0 0, .addInc 0, .addReturn 0, .startBarrier, .startToken, .waitBegin,
   .taskBegin 1 0, .addCall 1 1, .addInc 1, .addReturn 1, .taskEnd 1, .taskBegin 0 0, .taskEnd 0,
   .detect 0 0, .addCall 0 2, .earlyCb 0, .earlyDec 0, .addInc 0, .addReturn 0, .dec 0,
   .taskBegin 1 1, .taskEnd 1, .detect 1 1, .dec 1, .sawZero, .leave 0, .barrier, .waitReturn]

theorem mkTp_fresh (n : Nat) (e d : Bool) : (mkTp n e d).fresh := by
  cases e <;> cases d <;> simp [mkTp, Tp.fresh]

theorem exTps_fresh : ∀ tp ∈ exTps, tp.fresh := by
  intro tp h
  simp only [exTps, List.mem_cons, List.not_mem_nil, or_false] at h
  rcases h with rfl | rfl | rfl <;> exact mkTp_fresh _ _ _
example : (run 1 exTps exRun).waitRets = [28] ∧ (run 1 exTps exRun).active = 0 ∧
    (run 1 exTps exRun).tps.map (·.st) = [.done, .done, .done] ∧
    (run 1 exTps exRun).tps.map (·.addAt) = [2, 9, 18] ∧
    (run 1 exTps exRun).tps.map (·.decAt) = [20, 24, 17] ∧
    (run 1 exTps exRun).tps.map (·.cbs) = [1, 1, 1] ∧ (run 1 exTps exRun).started = false := by decide
example : (run 1 exTps (exRun.take 5)).token = true ∧ (run 1 exTps (exRun.take 5)).active = 2 := by decide

end ParsecVerif.C06
