/-
  C14 — the communication engine delivers every message exactly once and intact.

  PARTIAL: what is proved here is the bookkeeping of `parsec/parsec_mpi_funnelled.c` — the array polled by
  `MPI_Testsome`, the per-tag pools of persistent receives with their tested windows, the dynamic region with its two
  FIFOs and receive quota, and `next_tag` — for every configuration, every sequence of API calls and every behaviour of
  MPI that is compatible with the stated hypotheses.  MPI itself (bytes of a send arrive intact in exactly one
  matching receive, non-overtaking matching, `MPI_Testsome` reporting indices in increasing order) is assumed; the
  end-to-end statement `C14_delivery_partial` composes the two.  What is *not* a theorem is listed in
  docs/notes/C14.md.
-/
import ParsecVerif.Proofs.CommEngine
import ParsecVerif.Proofs.CommTags
import ParsecVerif.Proofs.CommWindow

namespace ParsecVerif.C14
open ParsecVerif.CommEngine

/-! ## The moves of the engine and of its environment -/

/-- A move: the upper layer creates a request between two calls of `progress` (`put` / `get`), or one pass of the
    loop of `mpi_no_thread_progress` runs: `MPI_Testsome` reports a set of indices (given by location), each is
    served, and the callback of each may create requests (the internal GET/PUT handshake callbacks always do,
    user callbacks may call `put`/`get`). -/
inductive Move
  | create (x : Dyn)
  | pass (c : List (Loc × List Dyn))

/-- What the environment may do.  For a pass: `MPI_Testsome` reports distinct indices holding a request
    (`Reportable`), in increasing order (`dynOffs … Pairwise <`; for the windows the order is irrelevant), and the
    requests created are new. -/
def Move.admissible (s : St) : Move → Prop
  | .create x => x ∉ s.issued
  | .pass c => (c.map (·.1)).Nodup ∧ (∀ l, l ∈ c.map (·.1) → Reportable s l) ∧
      (dynOffs (c.map (·.1))).Pairwise (fun a b => a < b) ∧
      (c.flatMap (·.2)).Nodup ∧ ∀ x, x ∈ c.flatMap (·.2) → x ∉ s.issued

def Move.apply (s : St) : Move → St
  | .create x => s.install x
  | .pass c => s.iterL c

/-- A configuration: per registered tag (tag, posted, tested) with `1 ≤ tested ≤ posted`
    (`mpi_funnelled_normalize_params`). -/
def ValidCfg (cfg : List (Nat × Nat × Nat)) : Prop := ∀ id n t, (id, n, t) ∈ cfg → 1 ≤ t ∧ t ≤ n

/-- States reachable from `enable` by admissible moves. -/
inductive Reach (cap quota : Nat) (cfg : List (Nat × Nat × Nat)) : St → Prop
  | init : Reach cap quota cfg (init cap quota cfg)
  | step {s : St} {m : Move} : Reach cap quota cfg s → m.admissible s → Reach cap quota cfg (m.apply s)

theorem reach_inv {cap quota : Nat} {cfg : List (Nat × Nat × Nat)} (hcfg : ValidCfg cfg) {s : St}
    (h : Reach cap quota cfg s) : Inv s ∧ Static (init cap quota cfg) s := by
  induction h with
  | init => exact ⟨Inv_init cap quota cfg hcfg, Static.refl _⟩
  | step hr hm ih =>
    rename_i s m
    cases m with
    | create x =>
      obtain ⟨a, b, _, _⟩ := Inv_install ih.1 x hm
      exact ⟨a, ih.2.trans b⟩
    | pass c =>
      obtain ⟨h1, h2, h3, h4, h5⟩ := hm
      obtain ⟨a, b, _, _, _⟩ := Inv_iterL ih.1 c h1 h2 h3 h4 h5
      exact ⟨a, ih.2.trans b⟩

/-- What the driver `pv_C14` checks on every `test` line of a real trace (`passOkB` on the located indices) and on
    every `inst` line (the request is new) is exactly the admissibility the theorems assume. -/
theorem C14_acceptor_sound (s : St) (c : List (Loc × List Dyn)) (h : passOkB s (c.map (·.1)) = true)
    (hfn : (c.flatMap (·.2)).Nodup) (hf : ∀ x, x ∈ c.flatMap (·.2) → x ∉ s.issued) : (Move.pass c).admissible s := by
  obtain ⟨a, b, d⟩ := passOkB_sound h
  exact ⟨a, b, d, hfn, hf⟩

/-! ## C14_slots — the slot invariant -/

/-- **Slot invariant.**  In every reachable state (between two passes of the progress loop):
    * the machine never entered its error state (`MPI_Start` on an active request, or a write through a callback
      record that does not describe its own slot);
    * the windows tile the static part of the array in tag order and the dynamic region starts right after;
    * every window has its `tested_count` slots, each holding a *distinct* persistent receive `r` of its own tag,
      with callback record = that request, `storage1` = the slot, `is_dynamic_recv` = false, `reqs_in_testsome[r]`
      set, the receive active (started); conversely a receive flagged in `reqs_in_testsome` is in the window;
    * every slot of the dynamic region below `last_active_req` holds a live request with its own callback record,
      `storage1` = the slot and `is_dynamic_recv` = "is a receive"; there are at most `dynamic_requests` of them;
      `num_recv_req_in_arr` equals the number of receive slots and does not exceed the quota; the send FIFO holds
      only sends and the receive FIFO only receives;
    * no dynamic request is referenced twice (array slots and FIFO entries together). -/
theorem C14_slots {cap quota : Nat} {cfg : List (Nat × Nat × Nat)} (hcfg : ValidCfg cfg) {s : St}
    (h : Reach cap quota cfg s) :
    s.bad = false ∧ Contig 0 s.pools s.dyn.base ∧
    (∀ (k : Nat) p, s.pools[k]? = some p →
      p.win.length = p.t ∧ (winReqs p.win).Nodup ∧
      (∀ j, j < p.t → ∃ r, r < p.n ∧ p.win[j]? = some (amSlot p.id r (p.base + j)) ∧
          p.inw.getD r false = true ∧ p.act.getD r true = true) ∧
      (∀ r, r < p.n → p.inw.getD r false = true → r ∈ winReqs p.win)) ∧
    (∀ j, j < s.dyn.slots.length → ∃ x, s.dyn.slots[j]? = some (dynSlot x (s.dyn.base + j) x.kind.isRecv)) ∧
    s.dyn.slots.length ≤ cap ∧ s.dyn.nrecv = nRecv s.dyn.slots ∧ s.dyn.nrecv ≤ quota ∧
    (∀ x, x ∈ s.dyn.sendq → x.kind.isRecv = false) ∧ (∀ x, x ∈ s.dyn.recvq → x.kind.isRecv = true) ∧
    s.dyn.refs.Nodup := by
  obtain ⟨hi, hs⟩ := reach_inv hcfg h
  have hcap : s.dyn.cap = cap := hs.cap
  have hquota : s.dyn.quota = quota := hs.quota
  refine ⟨hi.ok, ?_, ?_, ?_, by rw [← hcap]; exact hi.dyn.mid.len_le, hi.dyn.mid.nrecv_eq,
    by rw [← hquota]; exact hi.dyn.mid.nrecv_le, hi.dyn.mid.sendq_kind, hi.dyn.mid.recvq_kind, ?_⟩
  · have hc := contig_mkPools cfg 0
    rw [Nat.zero_add] at hc
    have : s.dyn.base = nstatic cfg := hs.base
    rw [this]
    exact contig_congr _ _ _ _ hs.shapes hc
  · intro k p hk
    have hq := hi.pools k p hk
    refine ⟨hq.inv.win_len, hq.inv.core.nodup, ?_, fun r hr hw => (hq.inv.core.inw_iff r hr).mp hw⟩
    intro j hj
    have hjl : j < p.win.length := by rw [hq.inv.win_len]; exact hj
    have hsl := List.getElem?_eq_getElem hjl
    rcases hq.inv.core.slots j _ hsl with h0 | ⟨r, hr, he⟩
    · exact absurd h0 (hq.full _ (List.getElem_mem hjl))
    · refine ⟨r, hr, by rw [hsl, he], ?_, hq.active r hr⟩
      apply (hq.inv.core.inw_iff r hr).mpr
      simp only [winReqs, List.mem_filterMap]
      exact ⟨_, List.getElem_mem hjl, by rw [he]; rfl⟩
  · intro j hj
    obtain ⟨x, hx⟩ := hi.dyn.slot_eq (List.getElem?_eq_getElem hj)
    exact ⟨x, by rw [List.getElem?_eq_getElem hj, hx]⟩
  · have hp := hi.ledger
    have hn : (s.dyn.refs ++ servedDyn s).Nodup := hp.nodup_iff.mpr hi.nodup
    exact (List.nodup_append.mp hn).1

/-! ## C14_served_once — every request is served exactly once -/

/-- **Ledger.**  In every reachable state every dynamic request ever created is in exactly one place: referenced by
    one array slot or one FIFO entry, or in the log of served callbacks — and there at most once: the multiset
    `refs ++ served` is a duplicate-free rearrangement of the requests created.  So no request is lost by the
    swap-with-last removal or by the FIFOs, none is served twice, none is served while still referenced.
    `bad = false`: a persistent receive is restarted (`MPI_Start`) only when MPI had reported it complete, and at
    that moment it leaves the window (`reqs_in_testsome := false`); `refill` only takes receives outside the window,
    which are active (`fill1_active`). -/
theorem C14_served_once {cap quota : Nat} {cfg : List (Nat × Nat × Nat)} (hcfg : ValidCfg cfg) {s : St}
    (h : Reach cap quota cfg s) :
    (s.dyn.refs ++ servedDyn s).Perm s.issued ∧ s.issued.Nodup ∧ (servedDyn s).Nodup ∧
    (∀ x, x ∈ servedDyn s → x ∉ s.dyn.refs) ∧ (∀ x, x ∈ s.issued → x ∈ s.dyn.refs ∨ x ∈ servedDyn s) ∧
    s.bad = false := by
  obtain ⟨hi, _⟩ := reach_inv hcfg h
  have hn : (s.dyn.refs ++ servedDyn s).Nodup := hi.ledger.nodup_iff.mpr hi.nodup
  obtain ⟨n1, n2, n3⟩ := List.nodup_append.mp hn
  refine ⟨hi.ledger, hi.nodup, n2, fun x hx hr => n3 x hr x hx rfl, ?_, hi.ok⟩
  intro x hx
  have := hi.ledger.symm.subset hx
  exact List.mem_append.mp this

/-- Within one pass every reported index is served exactly once: the log of served callback records grows by
    exactly one entry per reported index (and the requests created by the callbacks are exactly those recorded). -/
theorem C14_served_once_pass {s : St} (h : Inv s) (c : List (Loc × List Dyn)) (hm : (Move.pass c).admissible s) :
    (∃ rs, rs.length = c.length ∧ (s.iterL c).served = s.served ++ rs) ∧
    (s.iterL c).issued = s.issued ++ c.flatMap (·.2) := by
  obtain ⟨h1, h2, h3, h4, h5⟩ := hm
  obtain ⟨_, _, a, b, _⟩ := Inv_iterL h c h1 h2 h3 h4 h5
  exact ⟨b, a⟩

/-- The receive that `mpi_funnelled_refill_am_requests` moves into the window is an active (started) one. -/
theorem fill1_active {p : Pool} (h : PCore p) (hlt : (winReqs p.win).length < p.n) :
    p.act.getD (scan p.inw p.n p.n p.ridx) true = true := by
  obtain ⟨x, hx, hxf⟩ := exists_outside h hlt
  obtain ⟨hq, hqf⟩ := scan_finds (inw := p.inw) h.ridx_lt hx hxf
  cases ha : p.act.getD (scan p.inw p.n p.n p.ridx) true with
  | true => rfl
  | false =>
    have := (h.inw_iff _ hq).mpr (h.act_in _ hq ha)
    rw [hqf] at this; cases this

/-! ## C14_progress — the feed loop -/

/-- **Progress.**  After every pass nothing installable is left behind: it is impossible that a slot of the dynamic
    region is free while the send FIFO is non-empty, or the receive FIFO is non-empty with the receive quota not
    exhausted.  (So a non-empty FIFO and a free slot at the end of the removal loop ⇒ that pass installs.)  Entries
    leave the FIFOs from the front only. -/
theorem C14_progress {s : St} (h : Inv s) (c : List (Loc × List Dyn)) (hm : (Move.pass c).admissible s) :
    ¬ ((s.iterL c).dyn.slots.length < (s.iterL c).dyn.cap ∧
        ((s.iterL c).dyn.sendq ≠ [] ∨ ((s.iterL c).dyn.recvq ≠ [] ∧ (s.iterL c).dyn.nrecv < (s.iterL c).dyn.quota))) := by
  obtain ⟨h1, h2, h3, h4, h5⟩ := hm
  obtain ⟨_, _, _, _, a⟩ := Inv_iterL h c h1 h2 h3 h4 h5
  exact a

/-- A request created while a slot is free (and, for a receive, the quota allows) goes straight into the array. -/
theorem C14_progress_create (d : DynR) (x : Dyn) (hroom : d.slots.length < d.cap)
    (hq : x.kind.isRecv = true → d.nrecv < d.quota) :
    (d.install x).slots = d.slots ++ [dynSlot x d.last x.kind.isRecv] ∧ (d.install x).sendq = d.sendq ∧
    (d.install x).recvq = d.recvq := by
  unfold DynR.install
  cases hk : x.kind.isRecv with
  | true => simp [DynR.installRecv, hroom, hq hk, DynR.append, DynR.last]
  | false => simp [DynR.installSend, hroom, DynR.append, DynR.last]

/-! ## C14_tags — `next_tag` -/

/-- **Tags.**  With `MAX_MPI_TAG = m`: `next_tag(k)` (for `k ≤ m`) returns the first tag `T` of a block
    `T … T+k-1` of `k` consecutive tags inside `[0, m]` and advances the counter to `T+k ≤ m`; and the blocks of any
    run of consecutive calls with sizes at most `K` summing to at most `m - K` are pairwise disjoint, from any value
    of the counter, roll-over included.  (The engine only calls `next_tag(1)`: any `m - 1` consecutive handshakes
    have distinct tags.) -/
theorem C14_tags (m K : Nat) (ks : List Nat) (v : Nat) (hk : ∀ k, k ∈ ks → k ≤ K) (hsum : ks.sum + K ≤ m) :
    (∀ T k, (T, k) ∈ allocs m v ks → T + k ≤ m) ∧
    (allocs m v ks).Pairwise (fun a b => a.1 + a.2 ≤ b.1 ∨ b.1 + b.2 ≤ a.1) ∧
    (∀ k, k ≤ m → (nextTag m v k).1 + k ≤ m ∧ (nextTag m v k).2 = (nextTag m v k).1 + k) :=
  ⟨allocs_range m ks v (fun k hk' => by have := hk k hk'; omega), allocs_disjoint m K ks v hk hsum,
   fun k hk' => ⟨(nextTag_range m v k hk').1, (nextTag_range m v k hk').2.1⟩⟩

/-- FINDING F1 (replayed on the real code, corpus/C14/020).  The per-process uniqueness above is not enough: the
    data message of a `put` a→b carries a tag drawn from a's counter, the data message of a `get` (b pulls from a)
    travels the same way a→b on the same communicator with a tag drawn from b's counter.  Both counters start at 0
    (`__VAL_NEXT_TAG = 0`), so the first put and the first get between a pair have the same MPI envelope
    (source, destination, tag): MPI may match either send with either receive. -/
theorem C14_put_get_tags_collide (m a b : Nat) :
    let envPut : Nat × Nat × Nat := (a, b, (nextTag m 0 1).1)   -- tag chosen by the sender a
    let envGet : Nat × Nat × Nat := (a, b, (nextTag m 0 1).1)   -- tag chosen by the receiver b, same initial counter
    envPut = envGet ∧ ∀ va vb, va = vb → (nextTag m va 1).1 = (nextTag m vb 1).1 :=
  ⟨rfl, fun _ _ h => by rw [h]⟩

/-! ## The hypothesis on `MPI_Testsome` is needed -/

/-- Three sends in a dynamic region of three slots. -/
def w0 : St :=
  ((((init 3 3 []).install ⟨0, .putS⟩).install ⟨1, .putS⟩).install ⟨2, .putS⟩)

/-- ASSUMPTION MADE EXPLICIT.  If `MPI_Testsome` reported the completed indices in decreasing order (2 then 0; the
    MPI standard does not promise an order, Open MPI reports them increasing), the removal loop — which walks
    `array_of_indices` backwards and relies on "everything above the current index is live" — drops the still
    active request of slot 1: afterwards it is neither in the array, nor in a FIFO, nor served. -/
theorem C14_testsome_order_matters :
    let s' := w0.iterL [(.dyn 2, []), (.dyn 0, [])]
    (⟨1, .putS⟩ ∈ s'.issued ∧ ⟨1, .putS⟩ ∉ s'.dyn.refs ∧ ⟨1, .putS⟩ ∉ servedDyn s') ∧
    -- while in increasing order nothing is lost
    (let s'' := w0.iterL [(.dyn 0, []), (.dyn 2, [])]
     ⟨1, .putS⟩ ∈ s''.dyn.refs) := by
  decide

/-! ## Second layer: the window and MPI's matching -/

/-- **The oldest posted receive is tested.**  Hypothesis on MPI: a message matches the oldest posted receive that
    holds none (`GPool.arrive`), `MPI_Start` makes a receive the youngest (`GPool.serve`).  Then in every state
    reachable by arrivals and passes (any subset of the window receives that hold a message may be reported, in any
    order — slow rendezvous completions included) the receive that was started longest ago is inside the tested
    window. -/
theorem C14_window_oldest {id n t base : Nat} (h1 : 1 ≤ t) (h2 : t ≤ n) {g : GPool}
    (h : GReach id n t base g) : ∃ r, g.posted.head? = some r ∧ r ∈ winReqs g.p.win :=
  (greach_inv h1 h2 h).oldest_in_window

/-- **Delivery (partial: MPI assumed).**  For one tag, under the matching hypothesis above: every message that
    arrived is at every moment in exactly one place — delivered to the tag callback (once), held by one receive of
    the pool, or in MPI's unexpected queue; and whenever some receive of the pool holds a message, some receive
    *inside the tested window* holds one, so `MPI_Testsome` can report it and the next pass delivers a message
    (no message is stranded in the untested part of the pool). -/
theorem C14_delivery_partial {id n t base : Nat} (h1 : 1 ≤ t) (h2 : t ≤ n) {g : GPool}
    (h : GReach id n t base g) (hfresh : g.arrived.Nodup) :
    (g.delivered ++ g.held.map (·.2) ++ g.unexp).Perm g.arrived ∧ g.delivered.Nodup ∧
    (g.held ≠ [] → ∃ j r m, g.p.win[j]? = some (amSlot g.p.id r (g.p.base + j)) ∧ (r, m) ∈ g.held) := by
  have hi := greach_inv h1 h2 h
  refine ⟨hi.conserve, ?_, hi.no_starvation⟩
  have := hi.conserve.nodup_iff.mpr hfresh
  rw [List.append_assoc] at this
  exact (List.nodup_append.mp this).1

/-- CAVEAT (not part of the property statement, which asks for exactly-once and intact): the *order* of delivery
    per tag is not the order of arrival once MPI has reported two window receives out of order (possible when a large
    rendezvous message from one source completes after a later small one from another source).  Here tag 0 has 4
    posted / 2 tested receives; message 11 completes before 10; later 14 and 15 (think: same source) are both complete
    when `MPI_Testsome` is called and are reported together in increasing index order — and 15 is delivered first,
    because the rotation refilled the window in pool order (0, 1) while MPI's posted order had become (1, 0). -/
theorem C14_delivery_order_caveat :
    let g := ((((((((GPool.init 0 4 2 0).arrive 10).arrive 11).pass [1]).pass [0]).arrive 12).arrive 13).pass [0, 1])
    let g' := ((g.arrive 14).arrive 15).pass [0, 1]
    GReach 0 4 2 0 g' ∧ g'.arrived = [10, 11, 12, 13, 14, 15] ∧ g'.delivered = [11, 10, 12, 13, 15, 14] := by
  refine ⟨?_, by decide, by decide⟩
  refine GReach.pass _ (GReach.arrive _ (GReach.arrive _ (GReach.pass _ (GReach.arrive _ (GReach.arrive _
    (GReach.pass _ (GReach.pass _ (GReach.arrive _ (GReach.arrive _ GReach.init)) ?_ ?_) ?_ ?_))) ?_ ?_))) ?_ ?_
  all_goals first
    | decide
    | (intro j hj
       simp only [List.mem_cons, List.mem_singleton, List.not_mem_nil, or_false] at hj
       rcases hj with rfl | rfl <;> (unfold GReportable; decide))
    | (intro j hj
       simp only [List.mem_cons, List.mem_singleton, List.not_mem_nil, or_false] at hj
       subst hj; unfold GReportable; decide)

/-! ## Non-vacuity -/

/-- A configuration with two tags (posted 3 / tested 2 and posted 1 / tested 1), 2 dynamic slots, quota 1. -/
def cfgEx : List (Nat × Nat × Nat) := [(0, 3, 2), (1, 1, 1)]

example : ValidCfg cfgEx := by
  intro id n t h
  simp [cfgEx] at h
  rcases h with ⟨_, rfl, rfl⟩ | ⟨_, rfl, rfl⟩ <;> decide

/-- A reachable state after: two gets and a put are created (the second get and the put overflow into the FIFOs),
    then a pass in which `MPI_Testsome` reports slot 1 (an active message of tag 0 whose callback creates a request)
    and slot 3 (the first get). -/
def exRun : St :=
  (Move.pass [(.win 0 1, [⟨7, .putR⟩]), (.dyn 0, [])]).apply
    ((Move.create ⟨3, .putS⟩).apply ((Move.create ⟨2, .getR⟩).apply ((Move.create ⟨1, .getR⟩).apply (init 2 1 cfgEx))))

example : Reach 2 1 cfgEx exRun := by
  refine Reach.step (Reach.step (Reach.step (Reach.step Reach.init ?_) ?_) ?_) ?_
  · show _ ∉ _; decide
  · show _ ∉ _; decide
  · show _ ∉ _; decide
  · refine ⟨by decide, ?_, by decide, by decide, by decide⟩
    intro l hl
    simp at hl
    rcases hl with rfl | rfl
    · exact ⟨_, rfl, by decide⟩
    · show 0 < _; decide

/-- … and what it looks like: the window of tag 0 rotated (receive 1 was served and restarted, receive 2 entered),
    the completed get left the array, the queued get took its place under the quota, and the request created by the
    callback waits in the receive FIFO. -/
example : exRun.show =
    "L=5 R=1 t0 i=0 w=101 [a0:0 a0:2] t1 i=0 w=1 [a1:0] D[P3 G2r] sq=[] rq=[p7]" := by
  decide

example : ¬ exRun.dyn.starved := by
  unfold DynR.starved; decide

example : (allocs 7 5 [1, 1, 1, 1, 1]) = [(5, 1), (6, 1), (0, 1), (1, 1), (2, 1)] := by decide

end ParsecVerif.C14
