import ParsecVerif.Proofs.MatrixTypes
/-!
# C19 — matrix datatypes select exactly the specified elements

Model: `ParsecVerif.MatrixTypes` — MPI typemap semantics (trusted, validated with `MPI_Pack` on
every run) and `parsec_matrix_define_datatype / _triangle / _rectangle / _contiguous` as coded.
Quantification: every `m n ld`, every `diag : Int`, every `uplo` code, every `resized : Int` —
not the 1…12 box.  Units: one basic element (`oldsize` bytes).
Hypotheses recorded for the tie: `1 ≤ m`, `1 ≤ n` (the C code computes `n-diag`, `m-diag` in
`unsigned`), and no `int`/`unsigned` overflow (`ld*n*oldsize < 2^31`).
-/
namespace ParsecVerif.C19
open ParsecVerif.MatrixTypes

/-- The caller's request: `diag ≠ 0` means "with the diagonal". -/
abbrev withDiag (diag : Int) : Bool := decide (diag ≠ 0)

/-- **C19, selection.**  For every size, leading dimension, `diag`, `uplo` and `resized`, the real
    construction succeeds (in particular it never reads a cell of `blocklens`/`indices` it did not
    write), its lower bound is 0 and its typemap is exactly
    `[ j*ld + i | j < n, i < m, (i,j) in the region ]`, column by column, rows increasing. -/
theorem exact (uplo : Nat) (diag : Int) (m n ld : Nat) (rsz : Int) :
    ∃ t, defineDatatype uplo diag m n ld rsz = .ok t ∧
      t.offs = regionOffsets uplo (withDiag diag) m n ld ∧ t.lb = 0 := by
  unfold defineDatatype
  by_cases h : uplo = LOWER ∨ uplo = UPPER
  · rw [if_pos h]
    rcases h with h | h
    · subst h; obtain ⟨t, h1, h2, h3, _⟩ := triangle_lower diag m n ld; exact ⟨t, h1, h2, h3⟩
    · subst h; obtain ⟨t, h1, h2, h3, _⟩ := triangle_upper diag m n ld; exact ⟨t, h1, h2, h3⟩
  · rw [if_neg h, region_full uplo h]
    by_cases hm : m = ld
    · rw [if_pos hm]
      refine ⟨_, rfl, ?_, ?_⟩
      · have : (defineContiguous (ld * n) rsz).offs = (contiguous (ld * n) elem).offs := by
          unfold defineContiguous maybeResize; split <;> rfl
        rw [this, (contiguous_elem _).1, hm, range_mul]
      · unfold defineContiguous maybeResize; split
        · rfl
        · exact (contiguous_elem _).2.1
    · rw [if_neg hm]
      refine ⟨_, rfl, ?_, ?_⟩
      · have : (defineRectangle m n ld rsz).offs = (vector n m ld elem).offs := by
          unfold defineRectangle maybeResize; rw [if_neg hm]; split <;> rfl
        rw [this, (vector_elem _ _ _).1]
      · unfold defineRectangle maybeResize; rw [if_neg hm]; split
        · rfl
        · exact (vector_elem _ _ _).2.1

/-- The extent the code produces (element units), as a closed form. -/
def extentSpec (uplo : Nat) (m n ld : Nat) (rsz : Int) : Nat :=
  if uplo = LOWER ∨ uplo = UPPER then ld * n
  else if 0 ≤ rsz then rsz.toNat
  else if m = ld then ld * n else (n - 1) * ld + m

/-- **C19, extent (exact value).**  Triangles: always `ld*n` (the `resized` argument is ignored).
    Full/rectangular: `resized` when it is `≥ 0`; otherwise `ld*n` when `m = ld` and
    `(n-1)*ld + m` (the memory footprint of the tile) when `m < ld`. -/
theorem extent (uplo : Nat) (diag : Int) (m n ld : Nat) (rsz : Int) (hm : 1 ≤ m) (hn : 1 ≤ n)
    (t : DType) (h : defineDatatype uplo diag m n ld rsz = .ok t) :
    t.extent = extentSpec uplo m n ld rsz := by
  unfold defineDatatype at h
  unfold extentSpec
  by_cases hu : uplo = LOWER ∨ uplo = UPPER
  · rw [if_pos hu] at h; rw [if_pos hu]
    rcases hu with hu | hu
    · subst hu; obtain ⟨t', h1, _, h3, h4⟩ := triangle_lower diag m n ld
      rw [h1] at h; injection h with h; subst h; unfold DType.extent; omega
    · subst hu; obtain ⟨t', h1, _, h3, h4⟩ := triangle_upper diag m n ld
      rw [h1] at h; injection h with h; subst h; unfold DType.extent; omega
  · rw [if_neg hu] at h; rw [if_neg hu]
    by_cases hml : m = ld
    · rw [if_pos hml] at h; injection h with h; subst h
      unfold defineContiguous maybeResize
      by_cases hr : 0 ≤ rsz
      · rw [if_pos hr, if_pos hr]; simp [resized, DType.extent]
      · rw [if_neg hr, if_neg hr, if_pos hml]
        have hN : 1 ≤ ld * n := by subst hml; exact Nat.mul_pos hm hn
        have := contiguous_elem (ld * n)
        unfold DType.extent; rw [this.2.1, this.2.2 hN]; omega
    · rw [if_neg hml] at h; injection h with h; subst h
      unfold defineRectangle maybeResize
      rw [if_neg hml]
      by_cases hr : 0 ≤ rsz
      · rw [if_pos hr, if_pos hr]; simp [resized, DType.extent]
      · rw [if_neg hr, if_neg hr, if_neg hml]
        have := vector_elem n m ld
        unfold DType.extent; rw [this.2.1, this.2.2 hn hm]; omega

/-- Membership form of `exact`: an element offset is selected iff it is `j*ld + i` for a position
    `(i, j)` of the tile that lies in the requested region. -/
theorem mem_iff (uplo : Nat) (diag : Int) (m n ld : Nat) (rsz : Int) (t : DType)
    (h : defineDatatype uplo diag m n ld rsz = .ok t) (x : Nat) :
    x ∈ t.offs ↔ ∃ i j, i < m ∧ j < n ∧ inRegion uplo (withDiag diag) i j = true ∧ x = j * ld + i := by
  obtain ⟨t', h1, h2, _⟩ := exact uplo diag m n ld rsz
  rw [h1] at h; injection h with h; subst h
  rw [h2]
  simp only [regionOffsets, List.mem_flatMap, List.mem_map, List.mem_filter, List.mem_range]
  constructor
  · rintro ⟨j, hj, i, ⟨hi, hr⟩, rfl⟩; exact ⟨i, j, hi, hj, hr, rfl⟩
  · rintro ⟨i, j, hi, hj, hr, rfl⟩; exact ⟨j, hj, i, ⟨hi, hr⟩, rfl⟩

/-- The region list is strictly increasing when columns do not overlap (`m ≤ ld`). -/
theorem region_increasing (uplo : Nat) (wd : Bool) (m n ld : Nat) (hld : m ≤ ld) :
    (regionOffsets uplo wd m n ld).Pairwise (· < ·) := by
  unfold regionOffsets
  rw [List.pairwise_flatMap]
  constructor
  · intro j _
    rw [List.pairwise_map]
    exact (List.Pairwise.filter _ List.pairwise_lt_range).imp (by intro a b h; omega)
  · refine List.pairwise_lt_range.imp ?_
    intro j1 j2 hj x hx y hy
    simp only [List.mem_map, List.mem_filter, List.mem_range] at hx hy
    obtain ⟨i1, ⟨hi1, _⟩, rfl⟩ := hx
    obtain ⟨i2, ⟨_, _⟩, rfl⟩ := hy
    have : (j1 + 1) * ld ≤ j2 * ld := Nat.mul_le_mul_right _ hj
    rw [Nat.add_mul] at this
    omega

/-- **C19, no element twice, column-major = memory order.**  With `m ≤ ld` the selected offsets
    are strictly increasing. -/
theorem increasing (uplo : Nat) (diag : Int) (m n ld : Nat) (rsz : Int) (hld : m ≤ ld) (t : DType)
    (h : defineDatatype uplo diag m n ld rsz = .ok t) : t.offs.Pairwise (· < ·) := by
  obtain ⟨t', h1, h2, _⟩ := exact uplo diag m n ld rsz
  rw [h1] at h; injection h with h; subst h
  rw [h2]; exact region_increasing uplo _ m n ld hld

/-- **C19, the extent covers the tile.**  Under the API precondition and when the caller does not
    force another extent (`resized < 0`, or a triangle, for which `resized` is ignored), the extent
    lies between the memory footprint of the `m × n` tile with leading dimension `ld` and the full
    `ld × n` slab, the lower bound is 0, and every selected element lies inside `[0, extent)`. -/
theorem covers (uplo : Nat) (diag : Int) (m n ld : Nat) (rsz : Int) (hp : Pre m n ld)
    (hr : rsz < 0 ∨ uplo = LOWER ∨ uplo = UPPER) (t : DType)
    (h : defineDatatype uplo diag m n ld rsz = .ok t) :
    (n - 1) * ld + m ≤ t.extent ∧ t.extent ≤ ld * n ∧ t.lb = 0 ∧ ∀ x ∈ t.offs, x < t.extent := by
  obtain ⟨hm, hn, hld⟩ := hp
  have he := extent uplo diag m n ld rsz hm hn t h
  have hfoot : (n - 1) * ld + m ≤ ld * n := by
    have : ld * n = (n - 1) * ld + ld := by
      rw [Nat.mul_comm ld n]
      have : n = (n - 1) + 1 := by omega
      conv => lhs; rw [this, Nat.add_mul, Nat.one_mul]
    omega
  have hext : (n - 1) * ld + m ≤ t.extent ∧ t.extent ≤ ld * n := by
    rw [he]; unfold extentSpec
    by_cases hu : uplo = LOWER ∨ uplo = UPPER
    · rw [if_pos hu]; omega
    · rw [if_neg hu]
      have : ¬ (0 ≤ rsz) := by rcases hr with hr | hr; omega; exact absurd hr hu
      rw [if_neg this]
      split <;> omega
  obtain ⟨t', h1, _, h3⟩ := exact uplo diag m n ld rsz
  have ht : t' = t := by rw [h1] at h; injection h
  subst ht
  refine ⟨hext.1, hext.2, h3, ?_⟩
  intro x hx
  obtain ⟨i, j, hi, hj, _, rfl⟩ := (mem_iff uplo diag m n ld rsz t' h x).1 hx
  have : j * ld ≤ (n - 1) * ld := Nat.mul_le_mul_right _ (by omega)
  omega

/-- **C19, consecutive tiles do not collide.**  Because the extent covers the tile, `count` consecutive
    instances of the built type (what `MPI_Send(buf, count, type)` / an array of tiles uses) select
    pairwise distinct elements, instance after instance, still in increasing memory order. -/
theorem tiles_disjoint (uplo : Nat) (diag : Int) (m n ld : Nat) (rsz : Int) (hp : Pre m n ld)
    (hr : rsz < 0 ∨ uplo = LOWER ∨ uplo = UPPER) (t : DType)
    (h : defineDatatype uplo diag m n ld rsz = .ok t) (count : Nat) :
    (contiguous count t).offs.Pairwise (· < ·) := by
  have hc := covers uplo diag m n ld rsz hp hr t h
  have hi := increasing uplo diag m n ld rsz hp.2.2 t h
  simp only [contiguous, place]
  rw [List.pairwise_flatMap]
  constructor
  · intro p _
    rw [List.pairwise_map]
    exact hi.imp (by intro a b h; omega)
  · rw [List.pairwise_map]
    refine List.pairwise_lt_range.imp ?_
    intro k1 k2 hk x hx y hy
    simp only [List.mem_map] at hx hy
    obtain ⟨a, ha, rfl⟩ := hx
    obtain ⟨b, _, rfl⟩ := hy
    have h1 := hc.2.2.2 a ha
    have : (k1 + 1) * t.extent ≤ k2 * t.extent := Nat.mul_le_mul_right _ hk
    rw [Nat.add_mul] at this
    omega

/-- `parsec_matrix_define_triangle` called directly with anything but UPPER/LOWER returns
    `PARSEC_ERR_BAD_PARAM`. -/
theorem triangle_bad_param (uplo : Nat) (diag : Int) (m n ld : Nat) (h1 : uplo ≠ UPPER) (h2 : uplo ≠ LOWER) :
    defineTriangle uplo diag m n ld = .badParam := by
  unfold defineTriangle; rw [if_neg h1, if_neg h2]

/-! Non-vacuity / sanity: concrete instances (kernel-evaluated). -/
example : defineDatatype UPPER 1 3 4 5 (-1) = .ok ⟨[0, 5, 6, 10, 11, 12, 15, 16, 17], 0, 20⟩ := by decide
example : defineDatatype UPPER 0 3 4 5 (-1) = .ok ⟨[5, 10, 11, 15, 16, 17], 0, 20⟩ := by decide
example : defineDatatype LOWER 1 4 3 5 (-1) = .ok ⟨[0, 1, 2, 3, 6, 7, 8, 12, 13], 0, 15⟩ := by decide
example : defineDatatype LOWER 0 3 5 4 (-1) = .ok ⟨[1, 2, 6], 0, 20⟩ := by decide
example : defineDatatype FULL 0 2 3 4 (-1) = .ok ⟨[0, 1, 4, 5, 8, 9], 0, 10⟩ := by decide
example : defineDatatype FULL 0 2 3 2 (-1) = .ok ⟨[0, 1, 2, 3, 4, 5], 0, 6⟩ := by decide
example : defineDatatype FULL 0 2 3 4 12 = .ok ⟨[0, 1, 4, 5, 8, 9], 0, 12⟩ := by decide
example : Pre 3 4 5 ∧ ((-1 : Int) < 0 ∨ UPPER = LOWER ∨ UPPER = UPPER) := by decide
example : (contiguous 2 ⟨[5, 10, 11, 15, 16, 17], 0, 20⟩).offs = [5, 10, 11, 15, 16, 17, 25, 30, 31, 35, 36, 37] := by decide
example : regionOffsets UPPER true 3 4 5 = [0, 5, 6, 10, 11, 12, 15, 16, 17] := by decide

end ParsecVerif.C19
