/-
  C32 — the concurrent hash table (parsec/class/parsec_hash_table.c) is a linearizable map across
  resizes, and iteration over a quiescent table visits each stored item exactly once.

  Model: `Model/HashTable.lean` — any number of threads, any programs of insert / find / remove /
  find-or-insert (lock_bucket; nolock_find; nolock_insert; unlock_bucket), any hash function that lands
  in the table, any `max_collisions_hint` and `max_table_nb_bits`, EVERY schedule, one step per
  synchronisation action of the real code (lock of a bucket with the lock-protected work, fetch-dec of
  `used_buckets`, CAS of a `next` pointer, the racy read `head = cur->next`, each unlock, each
  operation of the read-write lock).
  Hypotheses, explicit in the model:
  * the read-write lock satisfies its specification (property C33): a writer is admitted only when
    nobody is inside, a reader only when no writer is inside; waiting is arbitrary (any schedule);
  * caller discipline ("unique-key usage"): a key managed with `parsec_hash_table_insert` is inserted
    only while no earlier insert of it is outstanding; the other keys are managed with the
    find-or-insert idiom only; the discipline is decided on caller-side bookkeeping, a call outside
    it is not issued (`rejected`);
  * `key_equal` is equality of keys and `key_hash` a function of the key; sequentially consistent
    memory; tables are never freed before `fini`.
-/
import ParsecVerif.Proofs.HashTableForAll

namespace ParsecVerif.C32
open ParsecVerif.HashTable

/-- `S` is a linearization of the execution that led to state `s` of configuration `c`. -/
structure Linearization (c : Config) (s : State) (S : List LinRec) : Prop where
  /-- `S` is a legal history of the sequential map `Key ⇀ Item` started empty (`find` returns the
      item stored under the key or NULL, `remove` returns it and deletes it, `insert` adds an absent
      key, find-or-insert returns the stored item or stores its own); it ends in the ghost map -/
  legal : Spec.replay [] (S.map LinRec.ev) = some s.m.abs
  /-- the ghost map is exactly what the tables hold plus what a `find` is moving to the top-level
      table at this moment, under pairwise distinct keys -/
  store : (∀ it, it ∈ s.m.abs ↔ Stored s.m it ∨ InFlight s.thr it) ∧ s.m.abs.Pairwise (fun a b => a.key ≠ b.key)
  /-- thread `t`'s part of `S` = its completed operations with their results, in program order
      (followed by its operation that has taken effect but not yet returned, if any) -/
  perThread : ∀ t th, s.thr[t]? = some th →
    S.filter (fun l => l.tid == t) = th.hist.map (OpRec.lin t) ++ pending t th
  /-- and these are the thread's program: completed ++ running ++ remaining -/
  program : ∀ t th, s.thr[t]? = some th →
    th.hist.map (fun r => r.op) ++ running th ++ th.todo = c.progs.getD t []
  threads : s.thr.length = c.progs.length
  /-- real-time order: an operation that returned (step stamp `tRet`) before another one was invoked
      (`tInv`) comes first in `S` -/
  realTime : ∀ (i : Nat) (thi : Thread) (a : OpRec), s.thr[i]? = some thi → a ∈ thi.hist → ∀ b ∈ S, a.tRet < b.tInv → Before S (a.lin i) b
  /-- every entry of `S` took effect between its invocation and (if it returned) its return -/
  stamps : (∀ l ∈ S, l.tInv ≤ l.tLin) ∧ ∀ (t : Nat) (th : Thread), s.thr[t]? = some th → ∀ r ∈ th.hist, r.tLin ≤ r.tRet

theorem inFlight_abs {c : Config} {s : State} (h : Inv c s) {it : Item} (hf : InFlight s.thr it) : it ∈ s.m.abs := by
  obtain ⟨t, a, ha, hm, hh⟩ := hf
  have hT := (h.th t a ha).tinv
  cases hpc : a.pc with
  | du hd pv y =>
    rw [hpc] at hT hh
    obtain ⟨_, _, _, _, _, _, _, _, _, _, h11⟩ := hT
    cases hh; exact h11 hm
  | cn hd pv nv y =>
    rw [hpc] at hT hh
    obtain ⟨_, _, _, _, _, _, _, _, _, h11, _⟩ := hT
    cases hh; exact h11 hm
  | idle => rw [hpc] at hh; cases hh
  | rd => rw [hpc] at hh; cases hh
  | lt => rw [hpc] at hh; cases hh
  | nx _ => rw [hpc] at hh; cases hh
  | lo _ _ => rw [hpc] at hh; cases hh
  | ulo _ _ => rw [hpc] at hh; cases hh
  | ult _ => rw [hpc] at hh; cases hh
  | rul _ _ _ => rw [hpc] at hh; cases hh
  | wr _ _ => rw [hpc] at hh; cases hh
  | wul _ => rw [hpc] at hh; cases hh

/-- **The hash table refines a map**, for every well-formed configuration (any hash function into
    the table, any thresholds, any number of threads with any programs) and EVERY schedule of micro
    steps — across any number of resizes and with items migrating from older tables: there is a
    sequential map history with the same per-thread operations and results that respects the
    real-time order, and it ends in the content of the tables. -/
theorem C32_refines_map (c : Config) (hc : c.WF) (sched : List Nat) :
    ∃ S, Linearization c (run c sched) S := by
  have h := Inv.run c hc sched
  refine ⟨(run c sched).lins, h.spec, ⟨fun it => ⟨h.g.ab.absOut it, ?_⟩, h.g.ab.absKeys⟩, fun t th ht => (h.th t th ht).lins,
    fun t th ht => (h.th t th ht).prog, h.len, ?_, h.stamp, fun t th ht r hr => ((h.th t th ht).time.hist r hr).2.1⟩
  · rintro (hs | hf)
    · exact h.g.ab.absIn it hs
    · exact inFlight_abs h hf
  · intro i thi a hi ha b hb hab
    have hti := (h.th i thi hi)
    have ha' : a.lin i ∈ (run c sched).lins := by
      have : a.lin i ∈ linsOf i thi := List.mem_append_left _ (List.mem_map_of_mem ha)
      rw [← hti.lins] at this
      exact (List.mem_filter.1 this).1
    have h1 := hti.time.hist a ha
    have h2 := h.stamp b hb
    exact before_of_sorted h.sorted ha' hb (by show a.tLin < b.tLin; omega)

/-- when every thread has finished, the sequential history consists exactly of the threads' whole
    programs with the results they returned, and the map it ends in is exactly what the tables hold -/
theorem C32_refines_map_complete (c : Config) (hc : c.WF) (sched : List Nat)
    (hfin : ∀ th ∈ (run c sched).thr, th.pc = .idle ∧ th.todo = []) :
    ∃ S, Linearization c (run c sched) S ∧
      (∀ t th, (run c sched).thr[t]? = some th →
        S.filter (fun l => l.tid == t) = th.hist.map (OpRec.lin t) ∧ th.hist.map (fun r => r.op) = c.progs.getD t []) ∧
      ∀ it, it ∈ (run c sched).m.abs ↔ Stored (run c sched).m it := by
  obtain ⟨S, hS⟩ := C32_refines_map c hc sched
  refine ⟨S, hS, fun t th ht => ?_, fun it => ?_⟩
  · have hf := hfin th (List.mem_of_getElem? ht)
    have h1 := hS.perThread t th ht
    have h2 := hS.program t th ht
    simp only [pending, hf.1, hf.2, running, Pc.linRes, List.append_nil, if_true] at h1 h2
    exact ⟨h1, h2⟩
  · rw [hS.store.1 it]
    constructor
    · rintro (h | ⟨t, a, ha, _, hh⟩)
      · exact h
      · rw [(hfin a (List.mem_of_getElem? ha)).1] at hh; cases hh
    · exact Or.inl

/-- **The store is a map**, in every reachable state: every chained item sits in the bucket of its
    key, `cur_len` is the length of the chain, no item is chained twice (neither in one chain nor in
    two buckets or tables), two chained items have different keys, and every table that holds an
    item is linked from the top-level table (what `for_all` and the look-ups follow). -/
theorem C32_store_is_map (c : Config) (hc : c.WF) (sched : List Nat) :
    (∀ T b it, Tin (run c sched).m T → it ∈ ((run c sched).m.bk T b).items → b = (run c sched).m.hf it.key T ∧ b < 2 ^ T) ∧
    (∀ T b, Tin (run c sched).m T → ((run c sched).m.bk T b).len = (((run c sched).m.bk T b).items.length : Int) ∧
        ((run c sched).m.bk T b).items.Nodup) ∧
    (∀ T T' b b' it it', Tin (run c sched).m T → Tin (run c sched).m T' → it ∈ ((run c sched).m.bk T b).items →
        it' ∈ ((run c sched).m.bk T' b').items → it.key = it'.key → T = T' ∧ b = b' ∧ it = it') ∧
    (∀ T, Tin (run c sched).m T → ¬ EmptyT (run c sched).m T →
        T ∈ chain (run c sched).m ((run c sched).m.top + 1) (run c sched).m.top) := by
  have h := Inv.run c hc sched
  generalize run c sched = s at h
  have st := h.g.st
  refine ⟨fun T b it hT hit => ?_, fun T b hT => ⟨st.len T b hT, st.nodup T b hT⟩, ?_, fun T hT hne => ?_⟩
  · have := st.place T b it hT hit
    exact ⟨this, by rw [this]; exact st.hfr _ _⟩
  · intro T T' b b' it it' hT hT' h1 h2 hk
    have a1 := h.g.ab.absIn it ⟨T, b, hT, h1⟩
    have a2 := h.g.ab.absIn it' ⟨T', b', hT', h2⟩
    have he := eq_of_key_eq h.g.ab.absKeys a1 a2 hk
    subst he
    have hTT := st.once T T' b b' it hT hT' h1 h2
    subst hTT
    exact ⟨rfl, (st.place T b it hT h1).trans (st.place T b' it hT' h2).symm, rfl⟩
  · exact chain_covers st _ _ ⟨st.top, Nat.le_refl _⟩ (by omega) T hT hT.2 hne

/-- **Quiescent iteration**: in every reachable state in which no operation is in progress,
    `parsec_hash_table_for_all` (following `next` from the top-level table, every bucket of every
    table reached) passes exactly the items of the map to the callback, each exactly once. -/
theorem C32_for_all (c : Config) (hc : c.WF) (sched : List Nat)
    (hq : ∀ th ∈ (run c sched).thr, th.pc = .idle) :
    (forAll (run c sched).m).Perm (run c sched).m.abs ∧ (forAll (run c sched).m).Nodup :=
  forAll_perm (Inv.run c hc sched).g hq

/-- program points at which a thread holds the lock of the top-level bucket of its key -/
def holdsTopPc : Pc → Bool
  | .nx _ | .lo .. | .du .. | .cn .. | .ulo .. | .ult _ => true
  | _ => false

/-- **The lock protocol serialises the operations on one key**: in every reachable state two
    different threads inside their top-level critical sections work on different buckets of the
    SAME top-level table (no resize can happen while a reader is inside: a writer excludes every
    other reader and writer), hence on different keys; a thread that carries an item between two
    tables holds the top-level bucket of that item's key. -/
theorem C32_atomic_sections (c : Config) (hc : c.WF) (sched : List Nat) :
    (∀ (t t' : Nat) (th th' : Thread), (run c sched).thr[t]? = some th → (run c sched).thr[t']? = some th' → t ≠ t' →
        holdsTopPc th.pc = true → holdsTopPc th'.pc = true →
        (run c sched).m.hf th.op.key (run c sched).m.top ≠ (run c sched).m.hf th'.op.key (run c sched).m.top ∧ th.op.key ≠ th'.op.key) ∧
    (∀ (t t' : Nat) (th th' : Thread), (run c sched).thr[t]? = some th → (run c sched).thr[t']? = some th' → th.pc.isWriter = true →
        (th'.pc.isReader = true ∨ th'.pc.isWriter = true) → t = t') ∧
    (∀ (t : Nat) (th : Thread) (it : Item), (run c sched).thr[t]? = some th → th.pc.inHand = some it →
        ((run c sched).m.bk (run c sched).m.top ((run c sched).m.hf it.key (run c sched).m.top)).lock = t + 1 ∧ ¬ Stored (run c sched).m it) := by
  have h := Inv.run c hc sched
  generalize run c sched = s at h
  have holds : ∀ t th, s.thr[t]? = some th → holdsTopPc th.pc = true → HoldsTop s.m t th.op.key := by
    intro t th ht hp
    have hT := (h.th t th ht).tinv
    cases hpc : th.pc with
    | nx _ => rw [hpc] at hT; exact hT.2.2.1
    | lo _ _ => rw [hpc] at hT; exact hT.2.2.1
    | du _ _ _ => rw [hpc] at hT; exact hT.2.2.1
    | cn _ _ _ _ => rw [hpc] at hT; exact hT.2.2.1
    | ulo _ _ => rw [hpc] at hT; exact hT.2.2.1
    | ult _ => rw [hpc] at hT; exact hT
    | idle => rw [hpc] at hp; cases hp
    | rd => rw [hpc] at hp; cases hp
    | lt => rw [hpc] at hp; cases hp
    | rul _ _ _ => rw [hpc] at hp; cases hp
    | wr _ _ => rw [hpc] at hp; cases hp
    | wul _ => rw [hpc] at hp; cases hp
  refine ⟨?_, h.g.excl, fun t th it ht hh => inHand_holds (h.th t th ht).tinv hh⟩
  intro t t' th th' ht ht' hne hp hp'
  have h1 := holds t th ht hp
  have h2 := holds t' th' ht' hp'
  unfold HoldsTop at h1 h2
  have hb : s.m.hf th.op.key s.m.top ≠ s.m.hf th'.op.key s.m.top := by
    intro he
    rw [he, h2] at h1
    exact hne (Nat.succ.inj h1).symm
  exact ⟨hb, fun hk => hb (by rw [hk])⟩

/-- every step of the cooperative scheduler (the real code runs from one park point to the next)
    is a run of micro steps of one thread: the theorems above cover every schedule the harness can
    produce -/
theorem C32_macro_is_micro (c : Config) (msched : List (Nat × Bool)) :
    ∃ sched, msched.foldl (fun s p => macroStep s p.1 p.2) (init c) = run c sched := by
  suffices ∀ s0 : State, ∃ sched : List Nat, msched.foldl (fun s p => macroStep s p.1 p.2) s0 = sched.foldl step s0 from this _
  induction msched with
  | nil => intro s0; exact ⟨[], rfl⟩
  | cons p r ih =>
    intro s0
    obtain ⟨n, hn⟩ := macroStep_micro s0 p.1 p.2
    obtain ⟨sched, hs⟩ := ih (macroStep s0 p.1 p.2)
    refine ⟨List.replicate n p.1 ++ sched, ?_⟩
    rw [List.foldl_cons, hs, hn, List.foldl_append]

/-- `parsec_hash_table_universal_rehash` lands in the table (the C code asserts it) -/
theorem rehash_lt (h64 nb : Nat) : rehash h64 nb < 2 ^ nb := HashTable.rehash_lt h64 nb

/-- the configurations the harness runs are well formed -/
theorem mkConfig_WF (hmode : Nat) (hint maxb : Int) (nb0 : Nat) (progs : List (List Op)) (h : 1 ≤ nb0) :
    (mkConfig hmode hint maxb nb0 progs).WF := by
  refine ⟨h, fun k nb => ?_⟩
  show hfOf hmode k nb < 2 ^ nb
  unfold hfOf
  split <;> exact HashTable.rehash_lt _ _

/-! ## the hypotheses are satisfiable on non-trivial executions -/

/-- one thread, `max_collisions_hint = 1`, keys 2, 4, 6 (2 and 6 collide at one bit): the third insert
    resizes, the find migrates key 2 from the old table, the remove empties a bucket of the old table,
    the find-or-insert of key 3 lands on the bucket of key 2 and resizes again. -/
def exCfg : Config := mkConfig 0 1 5 1 [[.ins 2 1, .ins 4 2, .ins 6 3, .find 2, .rem 6, .foi 3 4]]

def exState : State := run exCfg (List.replicate 60 0)

example : exCfg.WF := mkConfig_WF 0 1 5 1 _ (by decide)
example : exState.m.top = 3 ∧ (exState.m.tab 1).used = 1 ∧ (exState.m.tab 2).used = 1 := by decide +kernel
example : (exState.thr.map fun th => th.hist.map fun r => r.res) = [[.unit, .unit, .unit, .ptr 1, .ptr 3, .ptr 4]] := by decide +kernel
example : ∀ th ∈ exState.thr, th.pc = .idle ∧ th.todo = [] := by decide +kernel
example : (forAll exState.m).map (fun it => it.id) = [4, 1, 2] := by decide +kernel

/-- two threads on colliding keys, an interleaving in which thread 1 waits for thread 0's bucket -/
def exCfg2 : Config := mkConfig 0 1 5 1 [[.ins 2 1, .find 6], [.ins 6 2, .rem 2]]
def exSched2 : List Nat := [0, 0, 1, 1, 1, 0, 1, 0, 0, 1, 0, 1, 1, 0, 0, 1, 1, 0, 0, 0, 1, 1, 1, 1, 0, 0, 0, 1, 1, 1, 1, 1, 0, 0, 0, 0, 0, 1, 1, 1, 1]
example : (run exCfg2 exSched2).lins.length = 4 := by decide +kernel

end ParsecVerif.C32
