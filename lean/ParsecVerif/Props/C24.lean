import ParsecVerif.Proofs.JdfLimits
/-!
# C24 — the PTG compiler accepts only programs it can compile  (the limit decision logic)

Model: `ParsecVerif.JdfLimits` (mirrors `jdf_assign_ldef_index`, `jdf_flatten_function`,
`jdf_sanity_check_flows_and_deps_number`, `main`, and the limit tests / `#error` blocks of `jdf2c.c`).
Quantification: every build configuration `L`, every command line `c` (`--Werror` or not), every
program shape `p` (any number of task classes, flows, dependencies, local definitions).

Only this decision logic is a theorem.  That accepted programs compile, that two runs agree, and
that rejections carry a diagnostic are explored on the real compiler by `checks/C24.py`.

The statement of the property — "programs exceeding the runtime limits on flows, dependencies or
locals are always rejected" — is `limits_full` below.  It is **false** of the code: see
`not_limits_full` and the five witnesses.  What holds is `limits_never_clean` (counted limits: ptgpp
or the C compiler refuses the program), `limits_rejected_werror_partial`, `locals_always_rejected`,
`runtime_limits_partial`, and the exact characterisation `clean_iff`.
-/
namespace ParsecVerif.C24
open ParsecVerif.JdfLimits

/-- The full statement: whatever the command line, a program that exceeds a limit of the runtime
    structures is refused by ptgpp itself. -/
def limits_full : Prop :=
  ∀ (L : Limits) (c : Cfg) (p : Prog), exceedsRuntime L p → (decision L c p).rejected = true

/-! ## exact characterisation of the outcomes -/

/-- **When is a program accepted with C that compiles?**  Exactly when every task class passes the
    index test of `jdf_flatten_function`, `--Werror` (if given) finds no warning, every task class has
    at most `MAX_LOCAL_COUNT` counted locals, and no `#error` block (nor the missing `ldef` member)
    fires. -/
theorem clean_iff (L : Limits) (c : Cfg) (p : Prog) :
    (decision L c p).notClean = false ↔
      (∀ f ∈ p.funcs, f.flattenOk = true) ∧ (c.werror = true → ∀ f ∈ p.funcs, f.sane L) ∧
      (∀ f ∈ p.funcs, f.nbLocals ≤ L.maxLocal) ∧ (∀ f ∈ p.funcs, f.cleanC L) := by
  unfold decision
  cases hp : parseReject 0 p.funcs with
  | some k =>
    simp only [Outcome.notClean, Bool.true_eq_false, false_iff]
    intro ⟨h, _⟩
    have := (parseReject_none p.funcs 0).mpr h
    simp [hp] at this
  | none =>
    have h1 := (parseReject_none p.funcs 0).mp hp
    simp only
    by_cases hw : (c.werror && !(sanityDiags L p).isEmpty) = true
    · simp only [hw, if_true, Outcome.notClean, Bool.true_eq_false, false_iff]
      simp only [Bool.and_eq_true, Bool.not_eq_true', List.isEmpty_eq_false_iff] at hw
      intro ⟨_, h2, _⟩
      exact hw.2 ((progDiags_nil L p.funcs 0).mpr (h2 hw.1))
    · simp only [hw, Bool.false_eq_true, if_false]
      have hw' : c.werror = true → ∀ f ∈ p.funcs, f.sane L := by
        intro hc
        apply (progDiags_nil L p.funcs 0).mp
        simp only [Bool.and_eq_true, Bool.not_eq_true', hc, true_and, Bool.not_eq_false,
          List.isEmpty_iff] at hw
        exact hw
      unfold genStage genReject
      cases hg : genRejectGo L 0 p.funcs with
      | some k =>
        simp only [Outcome.notClean, Bool.true_eq_false, false_iff]
        intro ⟨_, _, h, _⟩
        have := (genRejectGo_none L p.funcs 0).mpr h
        simp [hg] at this
      | none =>
        have h3 := (genRejectGo_none L p.funcs 0).mp hg
        simp only
        unfold emitStage emitErrors
        by_cases he : (progErrs L 0 p.funcs).isEmpty = true
        · simp only [he, if_true, Outcome.notClean, true_iff]
          exact ⟨h1, hw', h3, (progErrs_nil L p.funcs 0).mp (List.isEmpty_iff.mp he)⟩
        · simp only [he, Bool.false_eq_true, if_false, Outcome.notClean, Bool.true_eq_false, false_iff]
          intro ⟨_, _, _, h4⟩
          exact he (List.isEmpty_iff.mpr ((progErrs_nil L p.funcs 0).mpr h4))

/-- **When does ptgpp itself refuse?**  Exactly when a task class fails the index test, or `--Werror`
    is given and the limit check printed a warning, or a task class has more than `MAX_LOCAL_COUNT`
    counted locals. -/
theorem rejected_iff (L : Limits) (c : Cfg) (p : Prog) :
    (decision L c p).rejected = true ↔
      (∃ f ∈ p.funcs, f.flattenOk = false) ∨ (c.werror = true ∧ ∃ f ∈ p.funcs, ¬ f.sane L) ∨
      (∃ f ∈ p.funcs, L.maxLocal < f.nbLocals) := by
  have hA : (∃ f ∈ p.funcs, f.flattenOk = false) ↔ ¬ ∀ f ∈ p.funcs, f.flattenOk = true := by
    simp
  have hB : (∃ f ∈ p.funcs, ¬ f.sane L) ↔ ¬ ∀ f ∈ p.funcs, f.sane L := by simp
  have hC : (∃ f ∈ p.funcs, L.maxLocal < f.nbLocals) ↔ ¬ ∀ f ∈ p.funcs, f.nbLocals ≤ L.maxLocal := by
    simp
  rw [hA, hB, hC, ← parseReject_none p.funcs 0, ← progDiags_nil L p.funcs 0, ← genRejectGo_none L p.funcs 0]
  unfold decision
  cases hp : parseReject 0 p.funcs with
  | some k => simp [Outcome.rejected]
  | none =>
    simp only [not_true_eq_false, false_or]
    by_cases hw : (c.werror && !(sanityDiags L p).isEmpty) = true
    · simp only [hw, if_true, Outcome.rejected, true_iff]
      simp only [Bool.and_eq_true, Bool.not_eq_true', List.isEmpty_eq_false_iff] at hw
      exact Or.inl hw
    · simp only [hw, Bool.false_eq_true, if_false]
      have hw' : ¬ (c.werror = true ∧ ¬ progDiags L 0 p.funcs = []) := by
        intro ⟨hc, hd⟩
        apply hw
        simp only [Bool.and_eq_true, Bool.not_eq_true', List.isEmpty_eq_false_iff]
        exact ⟨hc, hd⟩
      unfold genStage genReject
      cases hg : genRejectGo L 0 p.funcs with
      | some k => simp [Outcome.rejected]
      | none =>
        simp only [not_true_eq_false, or_false]
        unfold emitStage
        by_cases he : (emitErrors L p).isEmpty = true
        · simp only [he, if_true, Outcome.rejected, Bool.false_eq_true, false_iff]; exact hw'
        · simp only [he, Bool.false_eq_true, if_false, Outcome.rejected, false_iff]; exact hw'

/-! ## the true part of the limit clause -/

theorem Func.exceedsCounted_not_clean (L : Limits) (f : Func) (h : f.exceedsCounted L) :
    ¬ (f.nbLocals ≤ L.maxLocal ∧ f.cleanC L) := by
  intro ⟨h1, h2⟩
  unfold Func.cleanC at h2
  obtain ⟨a, _, b, c, d, _⟩ := h2
  unfold Func.exceedsCounted at h
  rcases h with h | h | h | h | ⟨fl, hfl, h⟩
  · omega
  · omega
  · omega
  · omega
  · have := b fl hfl
    unfold Flow.depsOk at this
    omega

/-- **Counted limits are never accepted cleanly.**  For every configuration, command line and
    program: if some task class exceeds a limit *as ptgpp counts it* (locals + `nb_max_local_def`,
    flows, READ flows, WRITE flows, input or output dependencies of a flow), then either ptgpp exits
    non-zero or the C it emits is refused by the C compiler (a firing `#error`). -/
theorem limits_never_clean (L : Limits) (c : Cfg) (p : Prog) (h : exceedsCounted L p) :
    (decision L c p).notClean = true := by
  cases hn : (decision L c p).notClean with
  | true => rfl
  | false =>
    obtain ⟨_, _, h3, h4⟩ := (clean_iff L c p).mp hn
    obtain ⟨f, hf, hx⟩ := h
    exact absurd ⟨h3 f hf, h4 f hf⟩ (Func.exceedsCounted_not_clean L f hx)

/-- **Under `--Werror` ptgpp itself refuses** every program in which a task class exceeds a checked
    limit (partial: the total number of flows is not among them, see `total_flows_not_rejected`). -/
theorem limits_rejected_werror_partial (L : Limits) (p : Prog)
    (h : ∃ f ∈ p.funcs, f.exceedsChecked L) : (decision L ⟨true⟩ p).rejected = true := by
  rw [rejected_iff]
  obtain ⟨f, hf, hx⟩ := h
  unfold Func.exceedsChecked at hx
  rcases hx with hx | hx | hx | ⟨fl, hfl, hx⟩
  · exact Or.inr (Or.inr ⟨f, hf, hx⟩)
  · refine Or.inr (Or.inl ⟨rfl, f, hf, ?_⟩); unfold Func.sane; omega
  · refine Or.inr (Or.inl ⟨rfl, f, hf, ?_⟩); unfold Func.sane; omega
  · refine Or.inr (Or.inl ⟨rfl, f, hf, ?_⟩)
    unfold Func.sane
    intro ⟨h1, _⟩
    have := h1 fl hfl
    unfold Flow.depsOk at this
    omega

/-- **Too many (counted) locals are refused by ptgpp whatever the command line.** -/
theorem locals_always_rejected (L : Limits) (c : Cfg) (p : Prog)
    (h : ∃ f ∈ p.funcs, L.maxLocal < f.nbLocals) : (decision L c p).rejected = true :=
  (rejected_iff L c p).mpr (Or.inr (Or.inr h))

/-- A limit exceeded as ptgpp counts it is exceeded for the runtime too (no spurious refusal on
    these grounds): ptgpp counts at most what the runtime structures need. -/
theorem counted_le_runtime (L : Limits) (p : Prog) (h : exceedsCounted L p) : exceedsRuntime L p := by
  obtain ⟨f, hf, hx⟩ := h
  refine ⟨f, hf, ?_⟩
  unfold Func.exceedsCounted at hx
  unfold Func.exceedsRuntime
  rcases hx with hx | hx | hx | hx | ⟨fl, hfl, hx⟩
  · left; have := f.nbMaxLocalDef_le; unfold Func.nbLocals at hx; omega
  · right; left; exact hx
  · right; left
    have : f.readFlows ≤ f.flows.length := List.length_filter_le _ _
    omega
  · right; left
    have : f.writeFlows ≤ f.flows.length := List.length_filter_le _ _
    omega
  · right; right; right; right
    refine ⟨fl, hfl, ?_⟩
    have := fl.depsIn_le; have := fl.depsOut_le
    omega

theorem mem_flatMap_deps (f : Func) (d : Dep) (h : d ∈ f.flows.flatMap (·.deps)) :
    ∃ fl ∈ f.flows, d ∈ fl.deps := by
  simpa [List.mem_flatMap] using h

/-- **The runtime limits, for programs without ternary dependencies and with fewer than 32 input and
    32 output dependencies per task class** (partial: the two hypotheses are exactly the two ways in
    which ptgpp under-counts, see `ternary_deps_accepted`, `ternary_ldef_accepted`,
    `index_wrap_accepted`): such a program is never accepted cleanly. -/
theorem runtime_limits_partial (L : Limits) (c : Cfg) (p : Prog) (hnt : p.noTernary)
    (hsmall : ∀ f ∈ p.funcs, f.totalIn < 32 ∧ f.totalOut < 32)
    (h : exceedsRuntime L p) : (decision L c p).notClean = true := by
  obtain ⟨f, hf, hx⟩ := h
  have hdeps : ∀ d ∈ f.flows.flatMap (·.deps), d.noTernary := by
    intro d hd
    obtain ⟨fl, hfl, hd'⟩ := mem_flatMap_deps f d hd
    exact hnt f hf fl hfl d hd'
  unfold Func.exceedsRuntime at hx
  rcases hx with hx | hx | hx | hx | ⟨fl, hfl, hx⟩
  · -- locals: the count is exact without ternaries
    apply limits_never_clean
    refine ⟨f, hf, Or.inl ?_⟩
    have : f.nbMaxLocalDef = f.ldNeed := by
      unfold Func.nbMaxLocalDef Func.ldNeed
      exact foldl_ldefStep_eq f.ldLocals _ hdeps f.ldLocals 0 (by omega)
    unfold Func.nbLocals; omega
  · exact limits_never_clean L c p ⟨f, hf, Or.inr (Or.inl hx)⟩
  · -- 24 ≤ total outputs < 32: the index test fires at the latest after the last flow
    cases hn : (decision L c p).notClean with
    | true => rfl
    | false =>
      have hfl := ((clean_iff L c p).mp hn).1 f hf
      have hne : f.flows ≠ [] := by
        intro he; unfold Func.totalOut at hx; simp [he] at hx
      have := flattenGo_final f.flows 0 0 hne hfl
      have hs := hsmall f hf
      simp only [Func.totalIn, Func.totalOut] at hs hx
      simp only [Nat.zero_add, sumIn, sumOut] at this
      rw [maskReject_of_window _ _ hs.1 hs.2 (Or.inr hx)] at this
      exact absurd this (by simp)
  · cases hn : (decision L c p).notClean with
    | true => rfl
    | false =>
      have hfl := ((clean_iff L c p).mp hn).1 f hf
      have hne : f.flows ≠ [] := by
        intro he; unfold Func.totalIn at hx; simp [he] at hx
      have := flattenGo_final f.flows 0 0 hne hfl
      have hs := hsmall f hf
      simp only [Func.totalIn, Func.totalOut] at hs hx
      simp only [Nat.zero_add, sumIn, sumOut] at this
      rw [maskReject_of_window _ _ hs.1 hs.2 (Or.inl hx)] at this
      exact absurd this (by simp)
  · apply limits_never_clean
    refine ⟨f, hf, Or.inr (Or.inr (Or.inr (Or.inr ⟨fl, hfl, ?_⟩)))⟩
    have hin : fl.depsIn = fl.entriesIn :=
      length_eq_sum_entries _ (fun d hd => hnt f hf fl hfl d (List.mem_filter.mp hd).1)
    have hout : fl.depsOut = fl.entriesOut :=
      length_eq_sum_entries _ (fun d hd => hnt f hf fl hfl d (List.mem_filter.mp hd).1)
    omega

/-- The index test as written in C, `(1U << n) > 0x1FFFFFFF` / `(1U << n) > 0x00FFFFFF`, for shift
    counts the C standard defines (`n < 32`). -/
theorem shl_form : ∀ n : Fin 32, (decide (2 ^ n.val > 0x1FFFFFFF) = decide (29 ≤ n.val)) ∧
    (decide (2 ^ n.val > 0x00FFFFFF) = decide (24 ≤ n.val)) := by decide

/-! ## the full statement is false of the code: five witnesses (replayed on the real ptgpp) -/

private def din (g : Guard := .binary) : Dep := ⟨false, g, 0, 0, 0⟩
private def dout (g : Guard := .binary) : Dep := ⟨true, g, 0, 0, 0⟩

/-- `tests/dsl/ptg/ptgpp/too_many_in_deps.jdf` in shape: one READ flow with 11 inputs. -/
def wTooManyIn : Prog := ⟨[⟨1, 0, [⟨.read, List.replicate 10 din ++ [din .uncond, dout]⟩]⟩]⟩

set_option maxRecDepth 16384 in
/-- **Finding (default command line).**  Without `--Werror` the answer of `jdf_sanity_checks` is
    ignored: the over-limit program is not refused by ptgpp (exit 0, `#error` left to the C compiler). -/
theorem default_flags_not_rejected :
    exceedsCounted Limits.std wTooManyIn ∧
    decision Limits.std ⟨false⟩ wTooManyIn = .emitBad [.depsIn 0 0 11] [.depsIn 0 0 11] ∧
    decision Limits.std ⟨true⟩ wTooManyIn = .rejectSanity [.depsIn 0 0 11] := by decide

/-- 11 READ flows and 10 WRITE flows: 21 flows, but neither count of the sanity check is over. -/
def wMixedFlows : Prog :=
  ⟨[⟨1, 0, List.replicate 11 ⟨.read, [din .uncond]⟩ ++ List.replicate 10 ⟨.write, [dout]⟩⟩]⟩

set_option maxRecDepth 16384 in
/-- **Finding (`--Werror`).**  The total number of flows is only guarded by an `#error` block. -/
theorem total_flows_not_rejected :
    exceedsCounted Limits.std wMixedFlows ∧
    decision Limits.std ⟨true⟩ wMixedFlows = .emitBad [] [.flows 0 21, .unused 0 21] := by decide

/-- One RW flow with six ternary outputs: 12 entries for `dep_out[10]`. -/
def wTernaryOut : Prog := ⟨[⟨1, 0, [⟨.rw, din .uncond :: List.replicate 6 (dout .ternary)⟩]⟩]⟩

set_option maxRecDepth 16384 in
/-- **Finding.**  Ternary dependencies are counted once but fill two slots: accepted, no `#error`. -/
theorem ternary_deps_accepted :
    exceedsRuntime Limits.std wTernaryOut ∧ ¬ exceedsCounted Limits.std wTernaryOut ∧
    decision Limits.std ⟨true⟩ wTernaryOut = .emitOk [] := by decide

/-- 19 locals, one local definition on a dependency, two on the true branch of a ternary. -/
def wTernaryLdef : Prog :=
  ⟨[⟨19, 0, [⟨.rw, [din .uncond, ⟨true, .binary, 1, 0, 0⟩, ⟨true, .ternary, 0, 2, 0⟩]⟩]⟩]⟩

set_option maxRecDepth 16384 in
/-- **Finding.**  `jdf_assign_ldef_index` forgets the local definitions of `calltrue` of a ternary:
    21 slots needed, 20 counted, accepted. -/
theorem ternary_ldef_accepted :
    exceedsRuntime Limits.std wTernaryLdef ∧ ¬ exceedsCounted Limits.std wTernaryLdef ∧
    decision Limits.std ⟨true⟩ wTernaryLdef = .emitOk [] := by decide

/-- Same cause, within all limits: no `ldef` member is declared but the code uses it. -/
def wNoLdef : Prog := ⟨[⟨1, 0, [⟨.rw, [din .uncond, ⟨true, .ternary, 0, 2, 0⟩]⟩]⟩]⟩

set_option maxRecDepth 16384 in
/-- **Finding.**  A program within every limit is accepted and its C does not compile. -/
theorem accepted_not_compilable :
    ¬ exceedsRuntime Limits.std wNoLdef ∧
    decision Limits.std ⟨true⟩ wNoLdef = .emitBad [] [.noLdef 0] := by decide

/-- Four RW flows with 8, 8, 7 and 10 outputs: indexes 23 then 33; `1U << 33` is not `> 0xFFFFFF`. -/
def wIndexWrap : Prog :=
  ⟨[⟨1, 0, [8, 8, 7, 10].map (fun n => ⟨.rw, din .uncond :: List.replicate n dout⟩)⟩]⟩

set_option maxRecDepth 16384 in
/-- **Finding.**  33 output dependencies in one task class (24 bits available): accepted. -/
theorem index_wrap_accepted :
    exceedsRuntime Limits.std wIndexWrap ∧ ¬ exceedsCounted Limits.std wIndexWrap ∧
    decision Limits.std ⟨true⟩ wIndexWrap = .emitOk [] := by decide

/-- **The full statement is false**, even under `--Werror`. -/
theorem not_limits_full : ¬ limits_full := by
  intro h
  have := h Limits.std ⟨true⟩ wTernaryOut ternary_deps_accepted.1
  rw [ternary_deps_accepted.2.2] at this
  exact absurd this (by decide)

/-! ## the hypotheses are satisfiable, the conclusions are not vacuous -/

/-- 21 locals. -/
def wLocals : Prog := ⟨[⟨21, 0, [⟨.rw, [din .uncond, dout]⟩]⟩, ⟨2, 1, [⟨.ctl, [din, dout]⟩]⟩]⟩

set_option maxRecDepth 16384 in
example : exceedsCounted Limits.std wLocals ∧ decision Limits.std ⟨false⟩ wLocals = .rejectGen 0 [] := by
  decide
example : (∃ f ∈ wLocals.funcs, Limits.std.maxLocal < f.nbLocals) := by decide
example : (∃ f ∈ wTooManyIn.funcs, f.exceedsChecked Limits.std) :=
  ⟨_, List.mem_cons_self, Or.inr (Or.inr (Or.inr ⟨_, List.mem_cons_self, Or.inl (by decide)⟩))⟩

/-- a program within all limits: accepted cleanly in both modes (`clean_iff` is not vacuous). -/
def wFine : Prog :=
  ⟨[⟨3, 1, [⟨.rw, [din, din .uncond, ⟨true, .binary, 1, 1, 0⟩, ⟨true, .ternary, 0, 1, 2⟩]⟩, ⟨.ctl, [din, dout]⟩]⟩,
    ⟨20, 0, [⟨.write, [din .uncond, dout]⟩]⟩]⟩

set_option maxRecDepth 16384 in
example : decision Limits.std ⟨true⟩ wFine = .emitOk [] ∧ decision Limits.std ⟨false⟩ wFine = .emitOk [] ∧
    ¬ exceedsRuntime Limits.std wFine := by decide

/-- 24 outputs over three flows, no ternary, fewer than 32: refused by the parser stage. -/
def wIndex24 : Prog := ⟨[⟨1, 0, [8, 8, 8].map (fun n => ⟨.rw, din .uncond :: List.replicate n dout⟩)⟩]⟩

set_option maxRecDepth 16384 in
example : wIndex24.noTernary ∧ (∀ f ∈ wIndex24.funcs, f.totalIn < 32 ∧ f.totalOut < 32) ∧
    exceedsRuntime Limits.std wIndex24 ∧ ¬ exceedsCounted Limits.std wIndex24 ∧
    decision Limits.std ⟨false⟩ wIndex24 = .rejectParse 0 := by
  refine ⟨?_, by decide, by decide, by decide, by decide⟩
  intro f hf fl hfl d hd
  simp only [wIndex24, List.map_cons, List.map_nil, List.mem_cons, List.not_mem_nil, or_false] at hf
  subst hf
  simp only [List.mem_cons, List.not_mem_nil, or_false] at hfl
  rcases hfl with rfl | rfl | rfl <;>
  · simp only [List.mem_cons, List.mem_replicate, din, dout] at hd
    rcases hd with rfl | ⟨_, rfl⟩ <;> simp [Dep.noTernary]

end ParsecVerif.C24
