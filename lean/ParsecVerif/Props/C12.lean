import ParsecVerif.Proofs.UserTrigger
/-!
# C12 — user-triggered termination reaches every process exactly once

Model: `ParsecVerif.UserTrigger` (mirrors `parsec_termdet_signal_termination`).
Quantification: every communicator size `n ≥ 1`, every root, every delivery order.
Hypothesis recorded for the tie: ranks are `< n`; `int` arithmetic does not overflow
(`2n + 2 < 2^31`), so `Nat` arithmetic agrees with the C expressions.
-/
namespace ParsecVerif.C12
open ParsecVerif.UserTrigger

theorem sum_map_zero {α : Type} (l : List α) : (l.map (fun _ => 0)).sum = 0 := by
  induction l with
  | nil => rfl
  | cons a l ih => simp [ih]

theorem sum_indicator_range (n p : Nat) (hp : p < n) :
    ((List.range n).map (fun me => if me = p then 1 else 0)).sum = 1 := by
  induction n with
  | zero => omega
  | succ k ih =>
    rw [List.range_succ, List.map_append, List.sum_append]
    by_cases h : p < k
    · rw [ih h]; simp; omega
    · have : p = k := by omega
      subst this
      have : ((List.range p).map (fun me => if me = p then 1 else 0)) = (List.range p).map (fun _ => 0) := by
        apply List.map_congr_left
        intro a ha; simp at ha; simp; omega
      rw [this, sum_map_zero]; simp

/-- **Static exactly-once.**  If every process of the communicator signals termination once,
    the multiset of all notification destinations contains every non-root rank exactly once and
    never the root. -/
theorem static_exactly_once (n root r : Nat) (hroot : root < n) (hr : r < n) :
    ((allSends n root).map Prod.snd).count r = if r = root then 0 else 1 := by
  have h1 : (allSends n root).map Prod.snd = (List.range n).flatMap (children n root) := by
    unfold allSends
    rw [List.map_flatMap]
    congr 1; funext me
    simp [Function.comp_def]
  rw [h1, List.count_flatMap]
  have h2 : (List.range n).map (List.count r ∘ children n root)
      = (List.range n).map (fun me => if r ≠ root ∧ me = parent n root r then 1 else 0) := by
    apply List.map_congr_left
    intro me hme
    simp only [List.mem_range] at hme
    simp only [Function.comp]
    rw [(children_nodup n root me hroot hme).count]
    by_cases h : r ∈ children n root me
    · rw [if_pos h, if_pos ((mem_children_iff n root me r hroot hme hr).1 h)]
    · rw [if_neg h, if_neg (fun h' => h ((mem_children_iff n root me r hroot hme hr).2 h'))]
  rw [h2]
  by_cases hrr : r = root
  · simp only [hrr, ne_eq, not_true_eq_false, false_and, if_false]; exact sum_map_zero _
  · simp only [hrr, ne_eq, not_false_eq_true, true_and, if_false]
    exact sum_indicator_range n _ (parent_lt n root r hroot hr)

/-- No notification leaves the communicator. -/
theorem dest_in_range (n root me c : Nat) (hroot : root < n) (h : c ∈ children n root me) : c < n :=
  children_lt n root me c hroot h

/-- Reachability along notification edges. -/
inductive Reach (n root : Nat) : Nat → Prop
  | root : Reach n root root
  | step {me c : Nat} : Reach n root me → c ∈ children n root me → Reach n root c

/-- **Every rank is reached** from the triggering process. -/
theorem all_reached (n root : Nat) (hroot : root < n) : ∀ r, r < n → Reach n root r := by
  intro r
  induction h : shifted n root r using Nat.strongRecOn generalizing r with
  | _ k ih =>
    intro hr
    by_cases hrr : r = root
    · subst hrr; exact Reach.root
    · have hp := parent_lt n root r hroot hr
      have hlt := shifted_parent_lt n root r hroot hr hrr
      have := ih _ (by rw [← h]; exact hlt) (parent n root r) rfl hp
      exact Reach.step this ((mem_children_iff n root _ r hroot hp hr).2 ⟨hrr, rfl⟩)

/-! ## The protocol as a machine: any delivery order -/

structure St where
  term : List Nat      -- processes that have signalled termination (most recent first)
  inflight : List Nat  -- destinations of notifications sent and not yet delivered
  recv : List Nat      -- log of receipts (most recent first)

def init (n root : Nat) : St := ⟨[root], children n root root, []⟩

/-- Deliver one in-flight notification addressed to `d`: `d` records the receipt, signals
    termination and notifies its own children (`msg_dispatch → set_nb_tasks(0) →
    signal_termination`).  Not enabled when no such notification is in flight. -/
def deliver (n root : Nat) (s : St) (d : Nat) : St :=
  if d ∈ s.inflight then ⟨d :: s.term, s.inflight.erase d ++ children n root d, d :: s.recv⟩ else s

def run (n root : Nat) (ds : List Nat) : St := ds.foldl (deliver n root) (init n root)

structure Inv (n root : Nat) (s : St) : Prop where
  nodup : (s.term ++ s.inflight).Nodup
  lt : ∀ x ∈ s.term ++ s.inflight, x < n
  closed : ∀ x, x < n → x ≠ root → (x ∈ s.term ++ s.inflight ↔ parent n root x ∈ s.term)
  log : s.term = s.recv ++ [root]

theorem inv_init (n root : Nat) (hroot : root < n) : Inv n root (init n root) := by
  refine ⟨?_, ?_, ?_, by simp [init]⟩
  · simp only [init, List.singleton_append, List.nodup_cons]
    refine ⟨?_, children_nodup n root root hroot hroot⟩
    intro h
    exact ((mem_children_iff n root root root hroot hroot hroot).1 h).1 rfl
  · intro x hx
    simp only [init, List.singleton_append, List.mem_cons] at hx
    rcases hx with rfl | hx
    · exact hroot
    · exact children_lt n root root x hroot hx
  · intro x hx hne
    simp only [init, List.singleton_append, List.mem_cons, List.mem_singleton, List.not_mem_nil, or_false]
    rw [mem_children_iff n root root x hroot hroot hx]
    constructor
    · rintro (h | ⟨_, h⟩)
      · exact absurd h hne
      · exact h.symm
    · intro h; exact Or.inr ⟨hne, h.symm⟩

theorem inv_deliver (n root : Nat) (hroot : root < n) (s : St) (d : Nat) (h : Inv n root s) :
    Inv n root (deliver n root s d) := by
  unfold deliver
  split
  case isFalse => exact h
  case isTrue hd =>
    have hdn : d < n := h.lt d (List.mem_append_right _ hd)
    have hperm : (s.term ++ s.inflight).Perm (d :: (s.term ++ s.inflight.erase d)) :=
      (List.Perm.append_left s.term (List.perm_cons_erase hd)).trans List.perm_middle
    have hnd : (d :: (s.term ++ s.inflight.erase d)).Nodup := hperm.nodup_iff.1 h.nodup
    have hdterm : d ∉ s.term := fun h' => (List.nodup_cons.1 hnd).1 (List.mem_append_left _ h')
    have hmem : ∀ x, x ∈ s.term ++ s.inflight ↔ x ∈ d :: (s.term ++ s.inflight.erase d) :=
      fun x => hperm.mem_iff
    refine ⟨?_, ?_, ?_, by simp [h.log]⟩
    · -- nodup
      show ((d :: s.term) ++ (s.inflight.erase d ++ children n root d)).Nodup
      rw [← List.append_assoc]
      rw [List.nodup_append]
      refine ⟨by simpa using hnd, children_nodup n root d hroot hdn, ?_⟩
      intro a ha b hb hab
      subst hab
      have ha' : a ∈ s.term ++ s.inflight := (hmem a).2 (by simpa using ha)
      have hb' := (mem_children_iff n root d a hroot hdn (children_lt n root d a hroot hb)).1 hb
      have := (h.closed a (children_lt n root d a hroot hb) hb'.1).1 ha'
      rw [← hb'.2] at this
      exact hdterm this
    · intro x hx
      simp only [List.cons_append, List.mem_cons, List.mem_append] at hx
      rcases hx with rfl | hx | hx | hx
      · exact hdn
      · exact h.lt x (List.mem_append_left _ hx)
      · exact h.lt x (List.mem_append_right _ (List.mem_of_mem_erase hx))
      · exact children_lt n root d x hroot hx
    · intro x hx hne
      have hold := h.closed x hx hne
      have hm := hmem x
      simp only [List.cons_append, List.mem_cons, List.mem_append] at hm hold ⊢
      rw [mem_children_iff n root d x hroot hdn hx]
      constructor
      · rintro (h1 | h1 | h1 | ⟨_, h1⟩)
        · exact Or.inr (hold.1 (hm.2 (Or.inl h1)))
        · exact Or.inr (hold.1 (Or.inl h1))
        · exact Or.inr (hold.1 (hm.2 (Or.inr (Or.inr h1))))
        · exact Or.inl h1.symm
      · rintro (h1 | h1)
        · exact Or.inr (Or.inr (Or.inr ⟨hne, h1.symm⟩))
        · rcases hm.1 (hold.2 h1) with h2 | h2 | h2
          · exact Or.inl h2
          · exact Or.inr (Or.inl h2)
          · exact Or.inr (Or.inr (Or.inl h2))

theorem inv_run (n root : Nat) (hroot : root < n) (ds : List Nat) : Inv n root (run n root ds) := by
  unfold run
  generalize hs : init n root = s
  have h : Inv n root s := hs ▸ inv_init n root hroot
  clear hs
  induction ds generalizing s with
  | nil => exact h
  | cons d ds ih => exact ih _ (inv_deliver n root hroot s d h)

/-- **Safety, at every moment of every run:** no process has received two notifications and the
    triggering process has received none. -/
theorem never_twice (n root : Nat) (hroot : root < n) (ds : List Nat) :
    (run n root ds).recv.Nodup ∧ root ∉ (run n root ds).recv := by
  have h := inv_run n root hroot ds
  have hn : (run n root ds).term.Nodup := (List.nodup_append.1 h.nodup).1
  rw [h.log, List.nodup_append] at hn
  refine ⟨hn.1, fun hm => hn.2.2 root hm root (by simp) rfl⟩

/-- **C12, dynamic form.**  In every run (any delivery order) that has no notification left in
    flight, every process other than the triggering one has received exactly one notification and
    the triggering one none. -/
theorem exactly_once (n root : Nat) (hroot : root < n) (ds : List Nat)
    (hq : (run n root ds).inflight = []) (r : Nat) (hr : r < n) :
    (run n root ds).recv.count r = if r = root then 0 else 1 := by
  have h := inv_run n root hroot ds
  have hall : ∀ x, x < n → x ∈ (run n root ds).term := by
    intro x
    induction hk : shifted n root x using Nat.strongRecOn generalizing x with
    | _ k ih =>
      intro hx
      by_cases hxr : x = root
      · rw [h.log, hxr]; simp
      · have hp := parent_lt n root x hroot hx
        have hlt := shifted_parent_lt n root x hroot hx hxr
        have hpin := ih _ (by rw [← hk]; exact hlt) (parent n root x) rfl hp
        have := (h.closed x hx hxr).2 hpin
        rw [hq, List.append_nil] at this
        exact this
  have hn : (run n root ds).term.Nodup := (List.nodup_append.1 h.nodup).1
  have hc : (run n root ds).term.count r = 1 := by rw [hn.count, if_pos (hall r hr)]
  rw [h.log, List.count_append] at hc
  by_cases hrr : r = root
  · subst hrr; simp at hc ⊢; omega
  · simp [hrr] at hc ⊢
    have : List.count r [root] = 0 := by simp [hrr, Ne.symm hrr]
    omega

/-- Progress: while something is in flight a delivery is enabled and strictly grows the log,
    and the log never exceeds `n - 1` entries, so every maximal run is finite and ends quiescent. -/
theorem progress (n root : Nat) (s : St) (d : Nat) (hd : d ∈ s.inflight) :
    (deliver n root s d).recv.length = s.recv.length + 1 := by
  unfold deliver; rw [if_pos hd]; simp

theorem length_le_of_nodup_lt : ∀ (n : Nat) (l : List Nat), l.Nodup → (∀ x ∈ l, x < n) → l.length ≤ n
  | 0, l, _, h => by
    cases l with
    | nil => simp
    | cons a t => exact absurd (h a (by simp)) (by omega)
  | n+1, l, hn, h => by
    have ih := length_le_of_nodup_lt n (l.erase n) (hn.erase n) (fun x hx => by
      have h1 := h x (List.mem_of_mem_erase hx)
      have h2 := (hn.mem_erase_iff.1 hx).1
      omega)
    have hl : l.length ≤ (l.erase n).length + 1 := by
      rw [List.length_erase]; split <;> omega
    omega

theorem log_bounded (n root : Nat) (hroot : root < n) (ds : List Nat) :
    (run n root ds).recv.length + 1 ≤ n := by
  have h := inv_run n root hroot ds
  have hn : (run n root ds).term.Nodup := (List.nodup_append.1 h.nodup).1
  have hlt : ∀ x ∈ (run n root ds).term, x < n := fun x hx => h.lt x (List.mem_append_left _ hx)
  have := length_le_of_nodup_lt n _ hn hlt
  rw [h.log] at this
  simpa using this

/-! Non-vacuity: concrete runs satisfy the hypotheses. -/
example : (run 5 3 [4, 0, 1, 2]).inflight = [] ∧ (run 5 3 [4, 0, 1, 2]).recv = [2, 1, 0, 4] := by decide
example : (run 6 2 [4, 3, 0, 5, 1]).inflight = [] := by decide
example : ((allSends 7 5).map Prod.snd).count 5 = 0 ∧ ((allSends 7 5).map Prod.snd).count 4 = 1 := by decide

end ParsecVerif.C12
