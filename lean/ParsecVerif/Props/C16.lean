import ParsecVerif.Props.Runtime
import ParsecVerif.Props.C01
import ParsecVerif.Proofs.PtgRt3
import ParsecVerif.Proofs.PtgStartup
/-!
# C16 — deferred tasks are re-run, never lost or duplicated

On the task graph `graphOf p` of EVERY well-formed program, for every AGAIN pattern, worker count and interleaving:

* `C16_again` — a body that answers AGAIN k times is started exactly k + 1 times in every complete run and completes once;
* `C16_done_is_final` — after its DONE the body is never started again and never answers AGAIN;
* `C16_released_once` — every dependency of the graph is released exactly as many times as it is declared in a complete
  run, and a release is only ever taken when its source has ended (`enabled`): successors are released once, after the
  final DONE;  `C16_successor_after_done` — every start of a successor comes after the producer's completion;
* `C16_startup_chunks` — the chunked startup enumeration (cursor saved in the pseudo task, `goto restore_context`,
  `reserved` doubling up to `task_startup_iter`, AGAIN once more than `task_startup_chunk` tasks have been scheduled):
  for EVERY `iter`, `chunk` (no lower bound needed) the batches of all invocations concatenate to the startup instances
  of the space, in enumeration order, each exactly once; every invocation but the last creates more than `chunk` tasks.
-/
namespace ParsecVerif.C16
open ParsecVerif.Ptg ParsecVerif.PtgRt ParsecVerif.PtgStartup ParsecVerif.Dataflow ParsecVerif.Runtime

variable {F : Nat → List (Option Nat) → Nat}

theorem C16_again (p : Program) (cfg : Cfg) (hwf : WellFormed p = true) (again : List Nat) (ts : List Tr)
    (hq : quiescent (run (graphOf p cfg) F again ts)) (t : Instance) (ht : t ∈ allInstances p) :
    ∃ j, nodeOf p t = some j ∧
      (run (graphOf p cfg) F again ts).log.count (.start j) = (again[j]?).getD 0 + 1 ∧
      (run (graphOf p cfg) F again ts).log.count (.again j) = (again[j]?).getD 0 ∧
      (run (graphOf p cfg) F again ts).log.count (.end_ j) = 1 := by
  obtain ⟨j, hj⟩ := ixOf_of_mem ht
  have hlt : j < (graphOf p cfg).n := (ixOf_some hj).1
  have hg := graphOf_WF p cfg hwf
  obtain ⟨h1, h2⟩ := again_reexecutes (F := F) hg again ts hq j hlt
  refine ⟨j, hj, h1, ?_, h2⟩
  have h3 := (inv2_run (F := F) hg again ts).starts j
  have hinv := inv_run (F := F) hg again ts
  have hend : (run (graphOf p cfg) F again ts).status[j]? = some .ended :=
    (completes_at_most_once (F := F) hg again ts j).2.1 h2
  rw [hend] at h3
  simp [active] at h3
  omega

theorem C16_done_is_final (p : Program) (cfg : Cfg) (hwf : WellFormed p = true) (again : List Nat) (ts : List Tr)
    (L1 L2 : List Ev) (j : Nat) (hl : (run (graphOf p cfg) F again ts).log = L1 ++ Ev.end_ j :: L2) :
    Ev.start j ∉ L2 ∧ Ev.again j ∉ L2 :=
  done_is_final (graphOf_WF p cfg hwf) again ts L1 L2 j hl

/-- in a complete run every dependency has been released exactly as many times as the graph declares it -/
theorem C16_released_once (p : Program) (cfg : Cfg) (hwf : WellFormed p = true) (again : List Nat) (ts : List Tr)
    (hq : quiescent (run (graphOf p cfg) F again ts)) (e : Nat × Nat) :
    relCount (graphOf p cfg) F e (init (graphOf p cfg) again) ts = (graphOf p cfg).E.count e := by
  have _ := hwf
  have h := relCount_spec (graphOf p cfg) F e ts (init (graphOf p cfg) again)
  have hp : (ts.foldl (step (graphOf p cfg) F) (init (graphOf p cfg) again)).pending = [] := hq.1
  rw [hp] at h
  simpa [init] using h

/-- a release is only ever taken after the completion of its source -/
theorem C16_release_needs_done (s : St) (a b : Nat) (h : enabled s (.release a b) = true) :
    s.status[a]? = some .ended := by
  simp only [enabled, Bool.and_eq_true, beq_iff_eq] at h; exact h.1

theorem C16_successor_after_done (p : Program) (cfg : Cfg) (hwf : WellFormed p = true) (again : List Nat) (ts : List Tr)
    (e : Nat × Nat) (he : e ∈ (graphOf p cfg).E) (L1 L2 : List Ev)
    (hl : (run (graphOf p cfg) F again ts).log = L1 ++ Ev.start e.2 :: L2) : Ev.end_ e.1 ∈ L1 :=
  deps_respected (graphOf_WF p cfg hwf) again ts L1 L2 e.2 hl e he rfl

/-- **Chunked startup.**  Whatever `task_startup_iter` and `task_startup_chunk`, the rings scheduled by all the
    invocations of the generated startup function, concatenated, are exactly the startup instances of the space in
    enumeration order (each once), and every invocation that returns AGAIN has scheduled more than `chunk` tasks. -/
theorem C16_startup_chunks (p : Program) (c : Nat) (cl : TaskClass) (hc : p.classes[c]? = some cl)
    (hpos : StepsPositive (cl.sems p.globals) []) (iter chunk : Nat) :
    ∃ invs, startupChunks p c iter chunk = some invs ∧
      invs.flatten.flatten = (space p c).filter (isStartup p.globals cl) ∧
      startupEnum p c = some invs.flatten.flatten ∧
      invs.flatten.flatten.Nodup ∧ invs ≠ [] ∧ ∀ inv ∈ invs.dropLast, chunk < inv.flatten.length := by
  obtain ⟨invs, h1, h2, h3, h4⟩ := startupRun_spec iter chunk (isStartup p.globals cl) (cl.sems p.globals) hpos
  have hsp : space p c = enumSem (cl.sems p.globals) [] := by simp [space, hc, spaceOf]
  refine ⟨invs, by simp [startupChunks, hc, h1], by rw [h2, hsp], ?_, ?_, h3, h4⟩
  · rw [h2, ← hsp]; exact C01.C01_startup_partial p c cl hc hpos
  · rw [h2, ← hsp]; exact C01.nodup_filter _ _ (C01.C01_space_nodup p c)

/-! ### Non-vacuity -/

/-- `P(i)`, i = 0, 2, reads and updates tile i and sends it to `T(i)`; `T(2)` answers AGAIN twice in the example run -/
def ex : Program :=
  { globals := [],
    classes := [{ name := "P", locals := [.range ⟨.const 0, .const 2, .const 2⟩], isParam := [true], place := .var 0, prio := none,
                  flows := [{ access := .rw, ins := [⟨none, .coll (.var 0), none⟩],
                              outs := [⟨none, .task 1 0 [.one (.var 0)], none⟩] }] },
                { name := "T", locals := [.range ⟨.const 0, .const 2, .const 2⟩], isParam := [true], place := .var 0, prio := none,
                  flows := [{ access := .rw, ins := [⟨none, .task 0 0 [.one (.var 0)], none⟩],
                              outs := [⟨none, .coll (.var 0), none⟩] }] }] }

example : WellFormed ex = true := by decide
example : (graphOf ex {}).n = 4 ∧ (graphOf ex {}).E = [(0, 2), (1, 3)] := by decide
def exSched : List Tr := [.start 1, .finish 1, .release 1 3, .start 3, .again 3, .start 0, .start 3, .again 3, .finish 0,
  .release 0 2, .start 2, .start 3, .finish 2, .finish 3]
set_option maxRecDepth 4000 in
example : (run (graphOf ex {}) (fun _ _ => 0) [0, 0, 0, 2] exSched).pending = [] ∧
    (run (graphOf ex {}) (fun _ _ => 0) [0, 0, 0, 2] exSched).status = List.replicate 4 .ended ∧
    (run (graphOf ex {}) (fun _ _ => 0) [0, 0, 0, 2] exSched).log.count (.start 3) = 3 := by decide
/-- a class with five startup instances -/
def ex5 : Program :=
  { globals := [], classes := [{ ex.classes[0]! with locals := [.range ⟨.const 0, .const 8, .const 2⟩], flows := [{ ex.classes[0]!.flows[0]! with outs := [] }] }] }
example : StepsPositive (ex5.classes[0]!.sems ex5.globals) [] := by decide
/-- chunk 1, iter 1: five startup instances in three invocations (2 + 2 + 1) -/
example : startupChunks ex5 0 1 1 = some [[[[0], [2]]], [[[4], [6]]], [[[8]]]] := by decide
example : startupChunks ex5 0 64 256 = some [[[[0], [2]], [[4], [6], [8]]]] := by decide

end ParsecVerif.C16
