import ParsecVerif.Proofs.Dist
/-!
# C20 — block-cyclic data distributions are consistent

Model: `ParsecVerif.Dist` (mirrors parsec/data_dist/matrix/*.c).  Quantification: every tile size,
matrix size, submatrix window, process grid `P × Q`, k-cyclicity `kp, kq`, grid offset `ip, jq`,
every rank's view, every number of virtual processes.

* 2D block-cyclic (plain and k-cyclic accessors, selected as the code does): `owner_in_range`,
  `local_iff_owner`, `slot_in_range`, `slot_injective`, `slot_surjective`, `memory_disjoint`,
  `key_roundtrip`, `key_injective`, `vp_grid`, `vpid_in_range`.
* The statement "the key stored in the data returned by data_of is the tile's key" is FALSE of the
  k-cyclic accessor: `DataKeyFaithful`, `kcyclic_datakey_collision` (witness), `datakey_partial`.
* band (composition of two 2D collections), tabular (any table): slot theorems.
* vector: owner range, diag slot injectivity; two defects proved with witnesses
  (`vec_diag_init_hangs`, `vec_row_slot_collision`).
* kview and symmetric: modelled and differentially tested only.
-/
namespace ParsecVerif.C20
open ParsecVerif.Dist

/-- preconditions of `parsec_grid_2Dcyclic_init` -/
structure GridWF (g : Grid) : Prop where
  P : 0 < g.P
  Q : 0 < g.Q
  kp : 0 < g.kp
  kq : 0 < g.kq
  ip : g.ip < g.P
  jq : g.jq < g.Q

structure BCWF (b : BC) : Prop where
  t : b.t.WF
  g : GridWF b.g

/-! ## 2D block-cyclic -/

/-- **Owner in range**: `rank_of` returns a rank of the `P × Q` grid. -/
theorem owner_in_range (b : BC) (hg : GridWF b.g) (m n : Nat) : b.rankOf m n < b.g.P * b.g.Q := by
  unfold BC.rankOf
  rw [b.rowOwner_eq, b.colOwner_eq]
  exact pair_lt _ _ _ _ (own1_lt _ _ _ _ hg.P) (own1_lt _ _ _ _ hg.Q)

/-- **Every tile is local to exactly its owner**: in the view of rank `rank`, the locality assertions
    of `data_of` / `vpid_of` (`m % rows == rrank` resp. `(m % (krows*rows)) / krows == rrank`, and the
    same for columns) hold iff `rank_of(m,n) == rank`. -/
theorem local_iff_owner (b : BC) (hg : GridWF b.g) (rank m n : Nat) (hr : rank < b.g.P * b.g.Q) :
    b.isLocal rank m n ↔ b.rankOf m n = rank := by
  rw [b.isLocal_iff]
  unfold BC.rankOf
  rw [b.rowOwner_eq, b.colOwner_eq, rank_split _ _ _ _ hg.Q (own1_lt _ _ _ _ hg.Q)]
  unfold Grid.rrank Grid.crank
  rw [← own1_eq_iff _ _ _ _ _ hg.P hg.ip (rank_div_lt _ _ _ hr),
      ← own1_eq_iff _ _ _ _ _ hg.Q hg.jq (Nat.mod_lt _ hg.Q)]
  constructor
  · intro h; exact ⟨h.1.symm, h.2.symm⟩
  · intro h; exact ⟨h.1.symm, h.2.symm⟩

theorem local_bounds (b : BC) (h : BCWF b) (rank m n : Nat) (hm : m < b.t.mt) (hn : n < b.t.nt)
    (hl : b.isLocal rank m n) :
    b.localM m < b.nbR0 rank ∧ b.localN n < b.nbC0 rank ∧ b.nbR rank = b.nbR0 rank ∧ b.nbC rank = b.nbC0 rank := by
  rw [b.isLocal_iff] at hl
  have h1 : b.localM m < b.nbR0 rank := by
    rw [b.localM_eq]; exact loc1_lt_nbElem _ _ _ _ _ h.g.kp h.g.P hl.1 (b.t.gm_lt h.t m hm)
  have h2 : b.localN n < b.nbC0 rank := by
    rw [b.localN_eq]; exact loc1_lt_nbElem _ _ _ _ _ h.g.kq h.g.Q hl.2 (b.t.gn_lt h.t n hn)
  have h3 : b.nbC rank = b.nbC0 rank := by unfold BC.nbC; rw [if_neg (by omega)]
  have h4 : b.nbR rank = b.nbR0 rank := by unfold BC.nbR; rw [h3, if_neg (by omega)]
  exact ⟨h1, h2, h4, h3⟩

/-- **Slots in range**: the `data_map` position of a local tile is below `nb_local_tiles`. -/
theorem slot_in_range (b : BC) (h : BCWF b) (rank m n : Nat) (hm : m < b.t.mt) (hn : n < b.t.nt)
    (hl : b.isLocal rank m n) : b.position rank m n < b.nbLocal rank := by
  have hb := local_bounds b h rank m n hm hn hl
  unfold BC.position BC.nbLocal
  rw [hb.2.2.1, hb.2.2.2]
  exact pos_lt _ _ _ _ hb.1 hb.2.1

/-- **Slots are injective**: two tiles of the submatrix that are local to the same rank and have the
    same `data_map` position are the same tile (no two local tiles share a slot). -/
theorem slot_injective (b : BC) (h : BCWF b) (rank m n m' n' : Nat)
    (hm : m < b.t.mt) (hn : n < b.t.nt) (hm' : m' < b.t.mt) (hn' : n' < b.t.nt)
    (hl : b.isLocal rank m n) (hl' : b.isLocal rank m' n')
    (hp : b.position rank m n = b.position rank m' n') : m = m' ∧ n = n' := by
  have hb := local_bounds b h rank m n hm hn hl
  have hb' := local_bounds b h rank m' n' hm' hn' hl'
  unfold BC.position at hp
  rw [hb.2.2.1] at hp
  have := pos_inj _ _ _ _ _ hb.1 hb'.1 hp
  rw [b.isLocal_iff] at hl hl'
  have e1 := glob1_loc1 _ _ _ _ h.g.kp hl.1
  have e2 := glob1_loc1 _ _ _ _ h.g.kp hl'.1
  have e3 := glob1_loc1 _ _ _ _ h.g.kq hl.2
  have e4 := glob1_loc1 _ _ _ _ h.g.kq hl'.2
  rw [← b.localM_eq] at e1 e2
  rw [← b.localN_eq] at e3 e4
  rw [this.1] at e1
  rw [this.2] at e3
  unfold BC.gm at e1 e2
  unfold BC.gn at e3 e4
  omega

/-- **Slots are onto** (no slot is wasted): for the full matrix (`i = j = 0`), every position below
    `nb_local_tiles` of a rank is the position of a tile of the matrix that is local to that rank.
    With `slot_injective` and `local_iff_owner`: `nb_local_tiles` is exactly the number of owned tiles. -/
theorem slot_surjective (b : BC) (hg : GridWF b.g) (hi : b.t.i = 0) (hj : b.t.j = 0) (rank s : Nat)
    (hs : s < b.nbLocal rank) :
    ∃ m n, m < b.t.lmt ∧ n < b.t.lnt ∧ b.isLocal rank m n ∧ b.position rank m n = s := by
  unfold BC.nbLocal at hs
  have hR : 0 < b.nbR rank := by
    rcases Nat.eq_zero_or_pos (b.nbR rank) with h0 | h0
    · rw [h0, Nat.zero_mul] at hs; omega
    · exact h0
  have hC : 0 < b.nbC rank := by
    rcases Nat.eq_zero_or_pos (b.nbC rank) with h0 | h0
    · rw [h0, Nat.mul_zero] at hs; omega
    · exact h0
  have hC0 : b.nbC rank = b.nbC0 rank := by
    unfold BC.nbC at hC ⊢; split <;> simp_all
  have hR0 : b.nbR rank = b.nbR0 rank := by
    unfold BC.nbR at hR ⊢; split <;> simp_all
  have hrr : b.g.rrank rank < b.g.P := Nat.mod_lt _ hg.P
  have hcr : b.g.crank rank < b.g.Q := Nat.mod_lt _ hg.Q
  have hlm : s % b.nbR rank < b.nbR0 rank := by rw [← hR0]; exact Nat.mod_lt _ hR
  have hln : s / b.nbR rank < b.nbC0 rank := by rw [← hC0]; exact Nat.div_lt_of_lt_mul hs
  have oi0 : b.t.oi = 0 := by unfold TM.oi; rw [hi, Nat.zero_div]
  have oj0 : b.t.oj = 0 := by unfold TM.oj; rw [hj, Nat.zero_div]
  refine ⟨glob1 b.g.kp b.g.P (b.g.rrank rank) (s % b.nbR rank),
          glob1 b.g.kq b.g.Q (b.g.crank rank) (s / b.nbR rank), ?_, ?_, ?_, ?_⟩
  · exact glob1_lt _ _ _ _ _ hg.kp hlm
  · exact glob1_lt _ _ _ _ _ hg.kq hln
  · rw [b.isLocal_iff]
    unfold BC.gm BC.gn
    rw [oi0, oj0, Nat.add_zero, Nat.add_zero]
    exact ⟨glob1_mine _ _ _ _ hg.kp hg.P hrr, glob1_mine _ _ _ _ hg.kq hg.Q hcr⟩
  · unfold BC.position
    rw [b.localM_eq, b.localN_eq]
    unfold BC.gm BC.gn
    rw [oi0, oj0, Nat.add_zero, Nat.add_zero,
        loc1_glob1 _ _ _ _ hg.kp hg.P hrr, loc1_glob1 _ _ _ _ hg.kq hg.Q hcr]
    exact Nat.div_add_mod s (b.nbR rank)

/-- **No overlapping storage** (tile storage): the blocks `[offset, offset + bsiz)` of two different
    local tiles are disjoint and inside the `nb_local_tiles * bsiz` elements of `mat`. -/
theorem memory_disjoint (b : BC) (h : BCWF b) (hst : b.lapack = false) (rank m n m' n' : Nat)
    (hm : m < b.t.mt) (hn : n < b.t.nt) (hm' : m' < b.t.mt) (hn' : n' < b.t.nt)
    (hl : b.isLocal rank m n) (hl' : b.isLocal rank m' n') (hne : ¬ (m = m' ∧ n = n')) :
    (b.offset rank m n + b.t.bsiz ≤ b.offset rank m' n' ∨ b.offset rank m' n' + b.t.bsiz ≤ b.offset rank m n)
    ∧ b.offset rank m n + b.t.bsiz ≤ b.nbLocal rank * b.t.bsiz := by
  have hp : b.position rank m n ≠ b.position rank m' n' :=
    fun e => hne (slot_injective b h rank m n m' n' hm hn hm' hn' hl hl' e)
  have hr := slot_in_range b h rank m n hm hn hl
  unfold BC.offset
  rw [hst]
  simp only [Bool.false_eq_true, if_false]
  have key : ∀ x y : Nat, x < y → x * b.t.bsiz + b.t.bsiz ≤ y * b.t.bsiz := by
    intro x y hxy
    have := Nat.mul_le_mul_right b.t.bsiz (Nat.succ_le_of_lt hxy)
    rw [Nat.succ_mul] at this
    exact this
  refine ⟨?_, key _ _ hr⟩
  rcases Nat.lt_or_gt_of_ne hp with hlt | hgt
  · exact Or.inl (key _ _ hlt)
  · exact Or.inr (key _ _ hgt)

/-- **Key round trip**: `key2coords (data_key (m, n)) = (m, n)`, and the key is below `lmt * lnt`. -/
theorem key_roundtrip (t : TM) (h : t.WF) (m n : Nat) (hm : m < t.mt) (hn : n < t.nt) :
    t.keyM (t.key m n) = m ∧ t.keyN (t.key m n) = n ∧ t.key m n < t.lmt * t.lnt := by
  have hg := t.gm_lt h m hm
  have hgn := t.gn_lt h n hn
  unfold TM.keyM TM.keyN
  rw [t.key_mod m n hg, t.key_div m n hg]
  refine ⟨by omega, by omega, ?_⟩
  unfold TM.key
  have := pos_lt t.lmt t.lnt _ _ hg hgn
  rw [Nat.mul_comm t.lmt (n + t.oj)] at this
  exact this

/-- distinct tiles have distinct keys -/
theorem key_injective (t : TM) (h : t.WF) (m n m' n' : Nat) (hm : m < t.mt) (hn : n < t.nt)
    (hm' : m' < t.mt) (hn' : n' < t.nt) (hk : t.key m n = t.key m' n') : m = m' ∧ n = n' := by
  have h1 := key_roundtrip t h m n hm hn
  have h2 := key_roundtrip t h m' n' hm' hn'
  rw [hk] at h1
  omega

/-- **VP grid**: `default_vp_data_dist` terminates with `vp_p * vp_q = nb_vp`. -/
theorem vp_grid (nbvp : Nat) (h : 1 ≤ nbvp) : vpP nbvp * vpQ nbvp = nbvp := (vpP_mul_vpQ nbvp h).1

/-- **Virtual process in range** (all tiles, plain and k-cyclic accessors). -/
theorem vpid_in_range (b : BC) (nbvp m n : Nat) (h : 1 ≤ nbvp) : b.vpid nbvp m n < nbvp :=
  vpidOf_lt nbvp _ _ h

/-! ### the key stored by data_of -/

/-- Full statement: the key that `data_of(m,n)` stores in the `parsec_data_t` is `data_key(m,n)`. -/
def DataKeyFaithful : Prop :=
  ∀ b : BC, BCWF b → ∀ m n, m < b.t.mt → n < b.t.nt → b.dataKey m n = b.t.key m n

/-- the proved part: plain accessors always; k-cyclic accessors only inside the first `kp*P × kq*Q` block -/
theorem datakey_partial (b : BC) (m n : Nat)
    (h : b.plain ∨ (b.gm m < b.g.kp * b.g.P ∧ b.gn n < b.g.kq * b.g.Q)) :
    b.dataKey m n = b.t.key m n := by
  unfold BC.dataKey TM.key
  split
  · rfl
  · rename_i hnp
    rcases h with h | h
    · exact absurd h hnp
    · unfold BC.gm BC.gn at h ⊢
      rw [Nat.mod_eq_of_lt h.1, Nat.mod_eq_of_lt h.2]

/-- witness: one process, 3×1 tiles, `kp = 2` -/
def kcWitness : BC :=
  { t := { mb := 1, nb := 1, lm := 3, ln := 1, i := 0, j := 0, m := 3, n := 1 },
    g := { P := 1, Q := 1, kp := 2, kq := 1, ip := 0, jq := 0 }, lapack := false }

theorem kcWitness_wf : BCWF kcWitness :=
  ⟨⟨by decide, by decide, by decide, by decide, by decide, by decide⟩,
   ⟨by decide, by decide, by decide, by decide, by decide, by decide⟩⟩

/-- **Finding F1**: with the k-cyclic accessors two different local tiles of one rank get the same
    data key (`twoDBC_kcyclic_data_of` computes the key after reducing `m`, `n` modulo `k*P`, `k*Q`). -/
theorem kcyclic_datakey_collision :
    ¬ DataKeyFaithful ∧
    (2 < kcWitness.t.mt ∧ kcWitness.rankOf 0 0 = kcWitness.rankOf 2 0 ∧
     kcWitness.t.key 0 0 ≠ kcWitness.t.key 2 0 ∧ kcWitness.dataKey 0 0 = kcWitness.dataKey 2 0) := by
  refine ⟨?_, by decide⟩
  intro hf
  have := hf kcWitness kcWitness_wf 2 0 (by decide) (by decide)
  revert this
  decide

/-! ## band -/

/-- locality of a tile of the band collection in the view of `rank` -/
def bandLocal (b : Band) (rank m n : Nat) : Prop :=
  if b.inBand m n then b.band.isLocal rank (b.bm m n) n else b.off.isLocal rank m n

structure BandWF (b : Band) : Prop where
  off : BCWF b.off
  band : BCWF b.band
  nodes : b.off.g.P * b.off.g.Q = b.band.g.P * b.band.g.Q
  /-- the band collection has `2*band_size - 1` tile rows and as many tile columns as the matrix -/
  rows : 2 * b.bs - 1 ≤ b.band.t.mt
  cols : b.off.t.nt ≤ b.band.t.nt

theorem band_owner_in_range (b : Band) (h : BandWF b) (m n : Nat) :
    b.rankOf m n < b.off.g.P * b.off.g.Q := by
  unfold Band.rankOf
  split
  · rw [h.nodes]; exact owner_in_range _ h.band.g _ _
  · exact owner_in_range _ h.off.g _ _

theorem bm_lt (b : Band) (h : BandWF b) (m n : Nat) (hb : b.inBand m n) : b.bm m n < b.band.t.mt := by
  unfold Band.inBand at hb
  unfold Band.bm
  have := h.rows
  split at hb <;> omega

/-- a band tile's slot is below the size of the storage it lives in -/
theorem band_slot_in_range (b : Band) (h : BandWF b) (rank m n : Nat) (hm : m < b.off.t.mt) (hn : n < b.off.t.nt)
    (hl : bandLocal b rank m n) :
    (b.slot rank m n).2 < (if (b.slot rank m n).1 = 1 then b.band.nbLocal rank else b.off.nbLocal rank) := by
  unfold bandLocal at hl
  unfold Band.slot
  split
  · rename_i hb
    rw [if_pos hb] at hl
    simp only [if_true]
    exact slot_in_range _ h.band rank _ _ (bm_lt b h m n hb) (Nat.lt_of_lt_of_le hn h.cols) hl
  · rename_i hb
    rw [if_neg hb] at hl
    simp only [Nat.zero_ne_one, if_false]
    exact slot_in_range _ h.off rank _ _ hm hn hl

/-- two tiles local to one rank with the same (storage, slot) are the same tile -/
theorem band_slot_injective (b : Band) (h : BandWF b) (rank m n m' n' : Nat)
    (hm : m < b.off.t.mt) (hn : n < b.off.t.nt) (hm' : m' < b.off.t.mt) (hn' : n' < b.off.t.nt)
    (hl : bandLocal b rank m n) (hl' : bandLocal b rank m' n')
    (hs : b.slot rank m n = b.slot rank m' n') : m = m' ∧ n = n' := by
  unfold bandLocal at hl hl'
  unfold Band.slot at hs
  by_cases hb : b.inBand m n <;> by_cases hb' : b.inBand m' n'
  · rw [if_pos hb] at hl hs
    rw [if_pos hb'] at hl' hs
    have e := slot_injective _ h.band rank _ _ _ _ (bm_lt b h m n hb) (Nat.lt_of_lt_of_le hn h.cols)
      (bm_lt b h m' n' hb') (Nat.lt_of_lt_of_le hn' h.cols) hl hl' (by injection hs)
    unfold Band.inBand at hb hb'
    unfold Band.bm at e
    split at hb <;> split at hb' <;> omega
  · rw [if_pos hb] at hs; rw [if_neg hb'] at hs; injection hs with h1 _; omega
  · rw [if_neg hb] at hs; rw [if_pos hb'] at hs; injection hs with h1 _; omega
  · rw [if_neg hb] at hl hs
    rw [if_neg hb'] at hl' hs
    exact slot_injective _ h.off rank _ _ _ _ hm hn hm' hn' hl hl' (by injection hs)

/-! ## tabular -/

theorem tabPos_cons (a : Nat) (l : List Nat) (me k : Nat) :
    tabPos (a :: l) me (k + 1) = (if a = me then 1 else 0) + tabPos l me k := by
  unfold tabPos
  rw [List.take_succ_cons, List.count_cons]
  by_cases h : a = me
  · simp [h]; omega
  · simp [h]

theorem tabNb_cons (a : Nat) (l : List Nat) (me : Nat) :
    tabNbLocal (a :: l) me = (if a = me then 1 else 0) + tabNbLocal l me := by
  unfold tabNbLocal
  rw [List.count_cons]
  by_cases h : a = me
  · simp [h]; omega
  · simp [h]

/-- an entry owned by `me` gets a position below `nb_local_tiles` -/
theorem tab_slot_in_range (ranks : List Nat) (me : Nat) :
    ∀ k, ranks[k]? = some me → tabPos ranks me k < tabNbLocal ranks me := by
  induction ranks with
  | nil => intro k h; simp at h
  | cons a l ih =>
    intro k h
    cases k with
    | zero =>
      simp at h
      rw [tabNb_cons, if_pos h]
      unfold tabPos; simp only [List.take_zero, List.count_nil]; omega
    | succ k =>
      simp at h
      rw [tabPos_cons, tabNb_cons]
      have := ih k h
      omega

theorem tabPos_mono (ranks : List Nat) (me : Nat) :
    ∀ k k', k < k' → ranks[k]? = some me → tabPos ranks me k < tabPos ranks me k' := by
  induction ranks with
  | nil => intro k k' _ h; simp at h
  | cons a l ih =>
    intro k k' hk h
    cases k' with
    | zero => omega
    | succ k' =>
      cases k with
      | zero =>
        simp at h
        rw [tabPos_cons, if_pos h]
        unfold tabPos; simp only [List.take_zero, List.count_nil]; omega
      | succ k =>
        simp at h
        rw [tabPos_cons, tabPos_cons]
        have := ih k k' (by omega) h
        omega

/-- two entries of one rank never share a position -/
theorem tab_slot_injective (ranks : List Nat) (me k k' : Nat)
    (h : ranks[k]? = some me) (h' : ranks[k']? = some me)
    (hp : tabPos ranks me k = tabPos ranks me k') : k = k' := by
  rcases Nat.lt_trichotomy k k' with hlt | heq | hgt
  · have := tabPos_mono ranks me k k' hlt h; omega
  · exact heq
  · have := tabPos_mono ranks me k' k hgt h'; omega

/-- every position below `nb_local_tiles` is used -/
theorem tab_slot_surjective (ranks : List Nat) (me : Nat) :
    ∀ s, s < tabNbLocal ranks me → ∃ k, ranks[k]? = some me ∧ tabPos ranks me k = s := by
  induction ranks with
  | nil => intro s h; unfold tabNbLocal at h; simp at h
  | cons a l ih =>
    intro s hs
    rw [tabNb_cons] at hs
    by_cases ha : a = me
    · rw [if_pos ha] at hs
      cases s with
      | zero => exact ⟨0, by simp [ha], by unfold tabPos; simp⟩
      | succ s =>
        obtain ⟨k, hk, hp⟩ := ih s (by omega)
        exact ⟨k + 1, by simpa using hk, by rw [tabPos_cons, if_pos ha, hp]; omega⟩
    · rw [if_neg ha] at hs
      obtain ⟨k, hk, hp⟩ := ih s (by omega)
      exact ⟨k + 1, by simpa using hk, by rw [tabPos_cons, if_neg ha, hp]; omega⟩

/-! ## vector -/

theorem vec_owner_in_range (v : Vec) (hP : 0 < v.P) (hQ : 0 < v.Q) (m : Nat) : v.rankOf m < v.P * v.Q := by
  unfold Vec.rankOf
  apply pair_lt
  · split
    · exact hP
    · exact Nat.mod_lt _ hP
  · split
    · exact hQ
    · exact Nat.mod_lt _ hQ

theorem lcmPQ_eq (v : Vec) : v.lcmPQ = Nat.lcm v.P v.Q := by
  unfold Vec.lcmPQ Nat.lcm
  exact Nat.div_mul_right_comm (Nat.gcd_dvd_left _ _) _

/-- DIAG distribution: two segments with the same owner and the same local position are the same
    segment (`local_m = m / lcm(P,Q)` is injective on the segments of one rank). -/
theorem vec_diag_slot_injective (v : Vec) (hd : v.d = .diag) (hP : 0 < v.P) (hQ : 0 < v.Q) (m m' : Nat)
    (ho : v.rankOf m = v.rankOf m') (hp : v.position m = v.position m') : m = m' := by
  unfold Vec.rankOf at ho
  simp only [hd, reduceCtorEq, if_false] at ho
  have hq1 : v.gm m % v.Q < v.Q := Nat.mod_lt _ hQ
  have hq2 : v.gm m' % v.Q < v.Q := Nat.mod_lt _ hQ
  have h1 := (rank_split v.Q (v.gm m' % v.P * v.Q + v.gm m' % v.Q) (v.gm m % v.P) (v.gm m % v.Q) hQ hq1).1 ho
  have h2 := (rank_split v.Q (v.gm m' % v.P * v.Q + v.gm m' % v.Q) (v.gm m' % v.P) (v.gm m' % v.Q) hQ hq2).1 rfl
  have hs : v.gm m' % v.P = v.gm m % v.P ∧ v.gm m' % v.Q = v.gm m % v.Q :=
    ⟨h2.1.symm.trans h1.1, h2.2.symm.trans h1.2⟩
  unfold Vec.position Vec.lcm at hp
  simp only [hd] at hp
  rw [lcmPQ_eq] at hp
  have hL : 0 < Nat.lcm v.P v.Q := Nat.lcm_pos hP hQ
  have key : ∀ a c : Nat, c ≤ a → a % v.P = c % v.P → a % v.Q = c % v.Q →
      a / Nat.lcm v.P v.Q = c / Nat.lcm v.P v.Q → a = c := by
    intro a c hca e1 e2 e3
    have d1 : v.P ∣ a - c := Nat.dvd_of_mod_eq_zero (Nat.sub_mod_eq_zero_of_mod_eq e1)
    have d2 : v.Q ∣ a - c := Nat.dvd_of_mod_eq_zero (Nat.sub_mod_eq_zero_of_mod_eq e2)
    have d3 : Nat.lcm v.P v.Q ∣ a - c := Nat.lcm_dvd d1 d2
    have ha := Nat.div_add_mod a (Nat.lcm v.P v.Q)
    have hc := Nat.div_add_mod c (Nat.lcm v.P v.Q)
    have hma : a % Nat.lcm v.P v.Q < Nat.lcm v.P v.Q := Nat.mod_lt _ hL
    rw [e3] at ha
    have hlt : a - c < Nat.lcm v.P v.Q := by omega
    have := Nat.eq_zero_of_dvd_of_lt d3 hlt
    omega
  have hgm : v.gm m = v.gm m' := by
    rcases Nat.le_total (v.gm m') (v.gm m) with hle | hle
    · exact key _ _ hle hs.1.symm hs.2.symm hp
    · exact (key _ _ hle hs.1 hs.2 hp.symm).symm
  unfold Vec.gm at hgm
  omega

/-- the init terminates exactly when the rank is not caught by the loop
    `while (drank % Q != 0) drank += Q;` -/
theorem vec_init_terminates_iff (v : Vec) (rank : Nat) :
    (v.nbLocal rank).isSome ↔ ¬ (v.d = .diag ∧ v.diagHangs rank) := by
  unfold Vec.nbLocal Vec.diagHangs
  cases hd : v.d <;> simp
  · split <;> simp
  · split <;> simp
  · split
    · rename_i h1
      split
      · rename_i h2; simp [h1, h2]
      · rename_i h2; simp [h1]; simpa using h2
    · rename_i h1; simp [h1]

def vecHangWitness : Vec := { mb := 1, lm := 4, i := 0, m := 4, P := 1, Q := 2, d := .diag }

/-- **Finding F2**: on a valid `1 × 2` grid the DIAG init of rank 1 never terminates, although rank 1
    owns segments (1 and 3). -/
theorem vec_diag_init_hangs :
    1 < vecHangWitness.P * vecHangWitness.Q ∧ vecHangWitness.nbLocal 1 = none ∧
    vecHangWitness.rankOf 1 = 1 ∧ vecHangWitness.rankOf 3 = 1 := by decide

def vecRowWitness : Vec := { mb := 1, lm := 4, i := 0, m := 4, P := 1, Q := 2, d := .row }

/-- **Finding F3**: ROW distribution on a `1 × 2` grid: segments 0 and 1 have the same owner and the
    same local position (the init treats ROW as "spread over Q columns", rank_of as "spread over P rows"). -/
theorem vec_row_slot_collision :
    vecRowWitness.rankOf 0 = vecRowWitness.rankOf 1 ∧ vecRowWitness.position 0 = vecRowWitness.position 1 ∧
    (0 : Nat) < vecRowWitness.t.mt ∧ 1 < vecRowWitness.t.mt := by decide

/-! ## k-cyclic view -/

structure KVWF (v : KV) : Prop where
  o : BCWF v.o
  vp : 0 < v.vp
  vq : 0 < v.vq

/-- **The view stays in the window**: `kview_compute_m/n` terminate (within `p*ps` rounds) with an
    index of the window, so the origin's accessors are called on a tile of the window and every
    theorem of the 2D block-cyclic section applies to `(sm, sn)`. -/
theorem kview_in_window (v : KV) (h : KVWF v) (m n : Nat) (hm : m < v.o.t.mt) (hn : n < v.o.t.nt) :
    ∃ sm sn, v.sm m = some sm ∧ v.sn n = some sn ∧ sm < v.o.t.mt ∧ sn < v.o.t.nt := by
  obtain ⟨sm, h1, h2⟩ := kviewCompute_total v.o.g.P v.vp v.o.t.mt m h.o.g.P h.vp hm
  obtain ⟨sn, h3, h4⟩ := kviewCompute_total v.o.g.Q v.vq v.o.t.nt n h.o.g.Q h.vq hn
  exact ⟨sm, sn, h1, h3, h2, h4⟩

/-- **The view is one-to-one**: two tiles of the view that are mapped to the same origin tile are the
    same tile (with `kview_in_window` and finiteness: the view permutes the tiles of the window). -/
theorem kview_injective (v : KV) (h : KVWF v) (m n m' n' sm sn : Nat)
    (hm : m < v.o.t.mt) (hn : n < v.o.t.nt) (hm' : m' < v.o.t.mt) (hn' : n' < v.o.t.nt)
    (e1 : v.sm m = some sm) (e2 : v.sn n = some sn) (e1' : v.sm m' = some sm) (e2' : v.sn n' = some sn) :
    m = m' ∧ n = n' :=
  ⟨kviewCompute_inj _ _ _ _ _ _ h.o.g.P h.vp hm hm' e1 e1',
   kviewCompute_inj _ _ _ _ _ _ h.o.g.Q h.vq hn hn' e2 e2'⟩

/-- consequently: two different tiles of the view that are local to one rank use different slots -/
theorem kview_slot_injective (v : KV) (h : KVWF v) (rank m n m' n' sm sn sm' sn' : Nat)
    (hm : m < v.o.t.mt) (hn : n < v.o.t.nt) (hm' : m' < v.o.t.mt) (hn' : n' < v.o.t.nt)
    (e1 : v.sm m = some sm) (e2 : v.sn n = some sn) (e1' : v.sm m' = some sm') (e2' : v.sn n' = some sn')
    (hl : v.o.isLocal rank sm sn) (hl' : v.o.isLocal rank sm' sn')
    (hp : v.o.position rank sm sn = v.o.position rank sm' sn') : m = m' ∧ n = n' := by
  obtain ⟨a, b, ha, hb, hlt1, hlt2⟩ := kview_in_window v h m n hm hn
  obtain ⟨a', b', ha', hb', hlt1', hlt2'⟩ := kview_in_window v h m' n' hm' hn'
  rw [e1] at ha; rw [e2] at hb; rw [e1'] at ha'; rw [e2'] at hb'
  injection ha with ha; injection hb with hb; injection ha' with ha'; injection hb' with hb'
  subst ha hb ha' hb'
  have := slot_injective v.o h.o rank _ _ _ _ hlt1 hlt2 hlt1' hlt2' hl hl' hp
  rw [this.1] at e1; rw [this.2] at e2
  exact kview_injective v h m n m' n' _ _ hm hn hm' hn' e1 e2 e1' e2'

/-! ## symmetric (one triangle stored, square tile grid) -/

structure SymWF (s : Sym) : Prop where
  t : s.t.WF
  P : 0 < s.P
  Q : 0 < s.Q
  /-- symmetric matrices are square in tiles -/
  sq : s.t.lmt = s.t.lnt

/-- the locality assertions of `sym_twoDBC_vpid_of` in the view of `rank` -/
def symLocal (s : Sym) (rank m n : Nat) : Prop :=
  s.gm m % s.P = s.rrank rank ∧ s.gn n % s.Q = s.crank rank
instance (s : Sym) (rank m n : Nat) : Decidable (symLocal s rank m n) := by unfold symLocal; exact inferInstance

theorem sym_rrank (s : Sym) (_h : SymWF s) (rank : Nat) (hr : rank < s.P * s.Q) : s.rrank rank = rank / s.Q := by
  unfold Sym.rrank Sym.grid Grid.rrank
  simp only [Nat.sub_zero, Nat.add_mod_right]
  exact Nat.mod_eq_of_lt (rank_div_lt _ _ _ hr)

theorem sym_crank (s : Sym) (rank : Nat) : s.crank rank = rank % s.Q := by
  unfold Sym.crank Sym.grid Grid.crank
  simp only [Nat.sub_zero, Nat.add_mod_right, Nat.mod_mod]

theorem sym_owner_in_range (s : Sym) (h : SymWF s) (m n : Nat) (hst : s.stored m n) : s.rankOf m n < s.P * s.Q := by
  unfold Sym.rankOf
  rw [if_pos hst]
  exact pair_lt _ _ _ _ (Nat.mod_lt _ h.P) (Nat.mod_lt _ h.Q)

/-- a stored tile is local to exactly its owner -/
theorem sym_local_iff_owner (s : Sym) (h : SymWF s) (rank m n : Nat) (hr : rank < s.P * s.Q) (hst : s.stored m n) :
    symLocal s rank m n ↔ s.rankOf m n = rank := by
  unfold symLocal Sym.rankOf
  rw [if_pos hst, sym_rrank s h rank hr, sym_crank, rank_split _ _ _ _ h.Q (Nat.mod_lt _ h.Q)]
  constructor
  · intro x; exact ⟨x.1.symm, x.2.symm⟩
  · intro x; exact ⟨x.1.symm, x.2.symm⟩

theorem lowPrefix_at (P Q r L gn c : Nat) (hP : 0 < P) (hr : r < P) (hQ : 0 < Q) (hc : gn % Q = c) (hL : gn ≤ L) :
    Sym.lowPrefix P Q r L gn (gn + 1) c = some ((lowSum P Q r L (gn / Q) c : Nat) : Int) := by
  have e : c + (gn / Q) * Q = gn := by
    have := Nat.mod_add_div gn Q; rw [Nat.mul_comm] at this; omega
  have := lowPrefix_eq P Q r L hP hr hQ (gn / Q) (gn + 1) c
    (by have := Nat.div_le_self gn Q; omega) (by omega)
  rw [e] at this; exact this

theorem upPrefix_at (P Q r gn c : Nat) (hQ : 0 < Q) (hc : gn % Q = c) :
    Sym.upPrefix P Q r gn (gn + 1) c = some (upSum P Q r (gn / Q) c) := by
  have e : c + (gn / Q) * Q = gn := by
    have := Nat.mod_add_div gn Q; rw [Nat.mul_comm] at this; omega
  have := upPrefix_eq P Q r hQ (gn / Q) (gn + 1) c (by have := Nat.div_le_self gn Q; omega)
  rw [e] at this; exact this

theorem prefix_contra (St St1 St' off off' cnt : Nat) (s1 : St1 = St + cnt) (o1 : off < cnt)
    (le : St1 ≤ St') (hp : St + off = St' + off') : False := by omega

theorem col_of (Q gn c : Nat) (hc : gn % Q = c) : c + (gn / Q) * Q = gn := by
  have := Nat.mod_add_div gn Q; rw [Nat.mul_comm] at this; omega

/-- the LOWER position of a local stored tile, in closed form -/
theorem sym_lower_position (s : Sym) (h : SymWF s) (hl : s.upper = false) (rank m n : Nat)
    (hm : m < s.t.mt) (hst : s.stored m n) (hloc : symLocal s rank m n) :
    s.position rank m n = some (((lowSum s.P s.Q (s.rrank rank) s.t.lmt (s.gn n / s.Q) (s.crank rank)
      + (s.gm m - s.gn n) / s.P : Nat)) : Int) := by
  have hgm : s.gm m < s.t.lmt := s.t.gm_lt h.t m hm
  unfold Sym.stored at hst
  rw [hl] at hst
  simp only [Bool.false_eq_true, if_false] at hst
  have hrr : s.rrank rank < s.P := Nat.mod_lt _ h.P
  unfold Sym.position Sym.coord2pos
  rw [hl]
  simp only [Bool.false_eq_true, if_false]
  rw [lowPrefix_at _ _ _ _ _ _ h.P hrr h.Q hloc.2 (by omega)]
  simp only [Option.map_some]
  congr 1

/-- **symmetric, LOWER: slot in range** -/
theorem sym_lower_slot_in_range (s : Sym) (h : SymWF s) (hl : s.upper = false) (rank m n : Nat)
    (hm : m < s.t.mt) (hst : s.stored m n) (hloc : symLocal s rank m n) :
    ∃ p : Nat, s.position rank m n = some (p : Int) ∧ (p : Int) < s.nbLocal rank := by
  refine ⟨_, sym_lower_position s h hl rank m n hm hst hloc, ?_⟩
  have hgm : s.gm m < s.t.lmt := s.t.gm_lt h.t m hm
  have hst' := hst
  unfold Sym.stored at hst'
  rw [hl] at hst'
  simp only [Bool.false_eq_true, if_false] at hst'
  have hrr : s.rrank rank < s.P := Nat.mod_lt _ h.P
  unfold Sym.nbLocal
  rw [hl]
  simp only [Bool.false_eq_true, if_false]
  rw [← h.sq]
  have e := col_of s.Q (s.gn n) (s.crank rank) hloc.2
  have hdl : s.gn n / s.Q ≤ s.gn n := Nat.div_le_self _ _
  have h1 := lowTotal_ge s.P s.Q (s.rrank rank) s.t.lmt h.P hrr (s.gn n / s.Q) (s.t.lmt + 1) (s.crank rank)
    (by omega) (by omega)
  have h2 := lowSum_succ_end s.P s.Q (s.rrank rank) s.t.lmt (s.gn n / s.Q) (s.crank rank)
  rw [e] at h2
  have h3 := low_off_lt s.P (s.rrank rank) s.t.lmt (s.gm m) (s.gn n) h.P hrr hloc.1 hst' hgm
  omega

/-- **symmetric, LOWER: slots are injective** -/
theorem sym_lower_slot_injective (s : Sym) (h : SymWF s) (hl : s.upper = false) (rank m n m' n' : Nat)
    (hm : m < s.t.mt) (hm' : m' < s.t.mt) (hst : s.stored m n) (hst' : s.stored m' n')
    (hloc : symLocal s rank m n) (hloc' : symLocal s rank m' n')
    (hp : s.position rank m n = s.position rank m' n') : m = m' ∧ n = n' := by
  rw [sym_lower_position s h hl rank m n hm hst hloc, sym_lower_position s h hl rank m' n' hm' hst' hloc'] at hp
  have hp' : lowSum s.P s.Q (s.rrank rank) s.t.lmt (s.gn n / s.Q) (s.crank rank) + (s.gm m - s.gn n) / s.P
      = lowSum s.P s.Q (s.rrank rank) s.t.lmt (s.gn n' / s.Q) (s.crank rank) + (s.gm m' - s.gn n') / s.P := by
    injection hp with hp; exact Int.ofNat.inj hp
  have hgm : s.gm m < s.t.lmt := s.t.gm_lt h.t m hm
  have hgm' : s.gm m' < s.t.lmt := s.t.gm_lt h.t m' hm'
  unfold Sym.stored at hst hst'
  rw [hl] at hst hst'
  simp only [Bool.false_eq_true, if_false] at hst hst'
  have hrr : s.rrank rank < s.P := Nat.mod_lt _ h.P
  have e := col_of s.Q (s.gn n) (s.crank rank) hloc.2
  have e' := col_of s.Q (s.gn n') (s.crank rank) hloc'.2
  have o1 := low_off_lt s.P (s.rrank rank) s.t.lmt (s.gm m) (s.gn n) h.P hrr hloc.1 hst hgm
  have o2 := low_off_lt s.P (s.rrank rank) s.t.lmt (s.gm m') (s.gn n') h.P hrr hloc'.1 hst' hgm'
  have s1 := lowSum_succ_end s.P s.Q (s.rrank rank) s.t.lmt (s.gn n / s.Q) (s.crank rank)
  have s2 := lowSum_succ_end s.P s.Q (s.rrank rank) s.t.lmt (s.gn n' / s.Q) (s.crank rank)
  rw [e] at s1
  rw [e'] at s2
  rcases Nat.lt_trichotomy (s.gn n / s.Q) (s.gn n' / s.Q) with hlt | heq | hgt
  · have := lowSum_le s.P s.Q (s.rrank rank) s.t.lmt (s.gn n / s.Q + 1) (s.gn n' / s.Q - (s.gn n / s.Q + 1)) (s.crank rank)
    rw [Nat.add_sub_cancel' (by omega)] at this
    exact (prefix_contra _ _ _ _ _ _ s1 (by omega) this hp').elim
  · rw [heq] at e
    have hn : s.gn n = s.gn n' := by omega
    rw [heq, hn] at hp'
    have := same_col_inj s.P (s.gn n') (s.gm m) (s.gm m') h.P (by omega) hst'
      (hloc.1.trans hloc'.1.symm) (by omega)
    unfold Sym.gm at this
    unfold Sym.gn at hn
    omega
  · have := lowSum_le s.P s.Q (s.rrank rank) s.t.lmt (s.gn n' / s.Q + 1) (s.gn n / s.Q - (s.gn n' / s.Q + 1)) (s.crank rank)
    rw [Nat.add_sub_cancel' (by omega)] at this
    exact (prefix_contra _ _ _ _ _ _ s2 (by omega) this hp'.symm).elim

/-- the UPPER position of a local stored tile, in closed form -/
theorem sym_upper_position (s : Sym) (h : SymWF s) (hu : s.upper = true) (rank m n : Nat)
    (hloc : symLocal s rank m n) :
    s.position rank m n = some (((upSum s.P s.Q (s.rrank rank) (s.gn n / s.Q) (s.crank rank) + s.gm m / s.P : Nat)) : Int) := by
  unfold Sym.position Sym.coord2pos
  rw [hu]
  simp only [if_true]
  rw [upPrefix_at _ _ _ _ _ h.Q hloc.2]
  simp only [Option.map_some]

/-- **symmetric, UPPER: slots are injective** -/
theorem sym_upper_slot_injective (s : Sym) (h : SymWF s) (hu : s.upper = true) (rank m n m' n' : Nat)
    (hst : s.stored m n) (hst' : s.stored m' n')
    (hloc : symLocal s rank m n) (hloc' : symLocal s rank m' n')
    (hp : s.position rank m n = s.position rank m' n') : m = m' ∧ n = n' := by
  rw [sym_upper_position s h hu rank m n hloc, sym_upper_position s h hu rank m' n' hloc'] at hp
  have hp' : upSum s.P s.Q (s.rrank rank) (s.gn n / s.Q) (s.crank rank) + s.gm m / s.P
      = upSum s.P s.Q (s.rrank rank) (s.gn n' / s.Q) (s.crank rank) + s.gm m' / s.P := by
    injection hp with hp; exact Int.ofNat.inj hp
  unfold Sym.stored at hst hst'
  rw [hu] at hst hst'
  simp only [if_true] at hst hst'
  have hrr : s.rrank rank < s.P := Nat.mod_lt _ h.P
  have e := col_of s.Q (s.gn n) (s.crank rank) hloc.2
  have e' := col_of s.Q (s.gn n') (s.crank rank) hloc'.2
  have o1 := up_off_lt s.P (s.rrank rank) (s.gm m) (s.gn n) h.P hrr hloc.1 hst
  have o2 := up_off_lt s.P (s.rrank rank) (s.gm m') (s.gn n') h.P hrr hloc'.1 hst'
  have s1 := upSum_succ_end s.P s.Q (s.rrank rank) (s.gn n / s.Q) (s.crank rank)
  have s2 := upSum_succ_end s.P s.Q (s.rrank rank) (s.gn n' / s.Q) (s.crank rank)
  rw [e] at s1
  rw [e'] at s2
  rcases Nat.lt_trichotomy (s.gn n / s.Q) (s.gn n' / s.Q) with hlt | heq | hgt
  · have := upSum_le s.P s.Q (s.rrank rank) (s.gn n / s.Q + 1) (s.gn n' / s.Q - (s.gn n / s.Q + 1)) (s.crank rank)
    rw [Nat.add_sub_cancel' (by omega)] at this
    exact (prefix_contra _ _ _ _ _ _ s1 o1 this hp').elim
  · rw [heq] at e
    have hn : s.gn n = s.gn n' := by omega
    rw [heq] at hp'
    have := same_res_div_inj s.P (s.gm m) (s.gm m') (hloc.1.trans hloc'.1.symm) (by omega)
    unfold Sym.gm at this
    unfold Sym.gn at hn
    omega
  · have := upSum_le s.P s.Q (s.rrank rank) (s.gn n' / s.Q + 1) (s.gn n / s.Q - (s.gn n' / s.Q + 1)) (s.crank rank)
    rw [Nat.add_sub_cancel' (by omega)] at this
    exact (prefix_contra _ _ _ _ _ _ s2 o2 this hp'.symm).elim

/-- **symmetric, UPPER: slot in range** (the init counts the tiles row by row, `coord2pos` column by
    column: both count the pairs (row ≡ rrank, column ≡ crank, row ≤ column < L)) -/
theorem sym_upper_slot_in_range (s : Sym) (h : SymWF s) (hu : s.upper = true) (rank m n : Nat)
    (hn : n < s.t.nt) (hst : s.stored m n) (hloc : symLocal s rank m n) :
    ∃ p : Nat, s.position rank m n = some (p : Int) ∧ (p : Int) < s.nbLocal rank := by
  refine ⟨_, sym_upper_position s h hu rank m n hloc, ?_⟩
  have hgn : s.gn n < s.t.lmt := by rw [h.sq]; exact s.t.gn_lt h.t n hn
  unfold Sym.stored at hst
  rw [hu] at hst
  simp only [if_true] at hst
  have hrr : s.rrank rank < s.P := Nat.mod_lt _ h.P
  have hcr : s.crank rank < s.Q := Nat.mod_lt _ h.Q
  have hr_le : s.rrank rank ≤ s.gm m := by rw [← hloc.1]; exact Nat.mod_le _ _
  unfold Sym.nbLocal
  rw [hu]
  simp only [if_true]
  rw [← h.sq, upTotal_eq s.P s.Q (s.rrank rank) (s.crank rank) s.t.lmt h.P h.Q hcr (s.t.lmt + 1) (s.rrank rank)
        (Nat.mod_eq_of_lt hrr) (by omega) (by omega)]
  have w0 : W s.P s.Q (s.rrank rank) (s.crank rank) s.t.lmt (s.rrank rank) = 0 := by
    unfold W; exact isum_zero _ _ _ hrr _ (Nat.le_refl _)
  have b0 : Bs s.P s.Q (s.rrank rank) (s.crank rank) (s.crank rank) = 0 := by
    unfold Bs; exact isum_zero _ _ _ hcr _ (Nat.le_refl _)
  rw [w0, W_eq_Bs s.P s.Q _ _ h.P hrr h.Q hcr]
  have e := col_of s.Q (s.gn n) (s.crank rank) hloc.2
  have h1 := upSum_eq_Bs s.P s.Q (s.rrank rank) (s.crank rank) h.Q (s.gn n / s.Q) (s.crank rank) (Nat.mod_eq_of_lt hcr)
  rw [e, b0] at h1
  have h2 : Bs s.P s.Q (s.rrank rank) (s.crank rank) (s.gn n + 1)
      = Bs s.P s.Q (s.rrank rank) (s.crank rank) (s.gn n) + cntBelow s.P (s.rrank rank) (s.gn n + 1) := by
    unfold Bs; rw [isum, if_pos hloc.2]
  have h3 := up_off_lt s.P (s.rrank rank) (s.gm m) (s.gn n) h.P hrr hloc.1 hst
  have h4 := isum_mono s.Q (s.crank rank) (fun κ => cntBelow s.P (s.rrank rank) (κ + 1)) (s.gn n + 1) (s.t.lmt - (s.gn n + 1))
  rw [Nat.add_sub_cancel' (by omega)] at h4
  unfold Bs at h1 h2 ⊢
  omega

/-! ## non-vacuity: the hypotheses of the theorems are satisfiable on non-trivial configurations -/

/-- 2×3 grid, k-cyclic 2×3, grid offset (1,2), 2×3 tiles, 10×13 matrix, window at (2,3) of size 7×9 -/
def exB : BC :=
  { t := { mb := 2, nb := 3, lm := 10, ln := 13, i := 2, j := 3, m := 7, n := 9 },
    g := { P := 2, Q := 3, kp := 2, kq := 3, ip := 1, jq := 2 }, lapack := false }
/-- the same grid on the full matrix -/
def exF : BC :=
  { t := { mb := 2, nb := 3, lm := 10, ln := 13, i := 0, j := 0, m := 10, n := 13 },
    g := { P := 2, Q := 3, kp := 2, kq := 3, ip := 1, jq := 2 }, lapack := false }
/-- plain accessors (k = 1) -/
def exP : BC :=
  { t := { mb := 2, nb := 3, lm := 10, ln := 13, i := 2, j := 3, m := 7, n := 9 },
    g := { P := 2, Q := 3, kp := 1, kq := 1, ip := 1, jq := 2 }, lapack := false }

theorem exB_wf : BCWF exB :=
  ⟨⟨by decide, by decide, by decide, by decide, by decide, by decide⟩,
   ⟨by decide, by decide, by decide, by decide, by decide, by decide⟩⟩
theorem exP_wf : BCWF exP :=
  ⟨⟨by decide, by decide, by decide, by decide, by decide, by decide⟩,
   ⟨by decide, by decide, by decide, by decide, by decide, by decide⟩⟩
theorem exF_wf : BCWF exF :=
  ⟨⟨by decide, by decide, by decide, by decide, by decide, by decide⟩,
   ⟨by decide, by decide, by decide, by decide, by decide, by decide⟩⟩

-- owner_in_range / local_iff_owner: a valid rank, a tile of the window it owns, one it does not
example : (5 : Nat) < exB.g.P * exB.g.Q ∧ exB.isLocal 5 0 0 ∧ ¬ exB.isLocal 5 1 0 ∧ exB.rankOf 0 0 = 5 := by decide
example : exP.isLocal 3 1 0 ∧ exP.rankOf 1 0 = 3 := by decide
-- slot_in_range / slot_injective / memory_disjoint: two different local tiles of rank 5 in the window
example : (0 : Nat) < exB.t.mt ∧ 3 < exB.t.mt ∧ 1 < exB.t.nt ∧ exB.isLocal 5 0 0 ∧ exB.isLocal 5 3 1 ∧
    exB.position 5 0 0 ≠ exB.position 5 3 1 ∧ exB.position 5 3 1 < exB.nbLocal 5 := by decide
-- slot_surjective: a rank of the full matrix with 6 slots
example : exF.t.i = 0 ∧ exF.t.j = 0 ∧ 5 < exF.nbLocal 5 := by decide
-- key_roundtrip / key_injective
example : exB.t.WF ∧ (3 : Nat) < exB.t.mt ∧ 2 < exB.t.nt ∧ exB.t.key 3 2 = 19 := ⟨exB_wf.t, by decide⟩
-- vp_grid / vpid_in_range: 6 virtual processes give a 2 × 3 VP grid and a non-zero vpid
example : vpP 6 = 2 ∧ vpQ 6 = 3 ∧ exB.vpid 6 3 1 = 4 := by decide
-- datakey_partial: both disjuncts occur
example : exP.plain ∧ ¬ exB.plain ∧ exB.gm 0 < exB.g.kp * exB.g.P ∧ exB.gn 0 < exB.g.kq * exB.g.Q := by decide

/-- band of half-width 2 over a 6×6 tile matrix on 4 ranks: off-band 2×2 plain, band 4×1 with k = (2,1) -/
def exBand : Band :=
  { off := { t := { mb := 2, nb := 2, lm := 12, ln := 12, i := 0, j := 0, m := 12, n := 12 },
             g := { P := 2, Q := 2, kp := 1, kq := 1, ip := 0, jq := 0 }, lapack := false },
    band := { t := { mb := 2, nb := 2, lm := 6, ln := 12, i := 0, j := 0, m := 6, n := 12 },
              g := { P := 4, Q := 1, kp := 2, kq := 1, ip := 3, jq := 0 }, lapack := false },
    bs := 2 }
theorem exBand_wf : BandWF exBand :=
  ⟨⟨⟨by decide, by decide, by decide, by decide, by decide, by decide⟩,
    ⟨by decide, by decide, by decide, by decide, by decide, by decide⟩⟩,
   ⟨⟨by decide, by decide, by decide, by decide, by decide, by decide⟩,
    ⟨by decide, by decide, by decide, by decide, by decide, by decide⟩⟩,
   by decide, by decide, by decide⟩
instance (b : Band) (rank m n : Nat) : Decidable (bandLocal b rank m n) := by
  unfold bandLocal; exact inferInstance
-- a band tile and an off-band tile, both local to rank 0... and the band test itself
example : exBand.inBand 1 0 ∧ ¬ exBand.inBand 2 0 ∧ bandLocal exBand (exBand.rankOf 1 0) 1 0 ∧
    bandLocal exBand (exBand.rankOf 2 0) 2 0 ∧ (exBand.slot (exBand.rankOf 1 0) 1 0).1 = 1 := by decide

-- tabular: rank 1 owns entries 1, 3, 4 of the table
example : [0, 1, 2, 1, 1, 0][3]? = some 1 ∧ tabPos [0, 1, 2, 1, 1, 0] 1 3 = 1 ∧ tabNbLocal [0, 1, 2, 1, 1, 0] 1 = 3 := by decide

/-- vector, DIAG distribution on a square 2×2 grid (the only grids on which the init terminates for every rank) -/
def exVec : Vec := { mb := 2, lm := 13, i := 0, m := 13, P := 2, Q := 2, d := .diag }
example : exVec.d = .diag ∧ exVec.rankOf 1 = exVec.rankOf 3 ∧ exVec.position 1 ≠ exVec.position 3 ∧
    (exVec.nbLocal 3).isSome ∧ exVec.rankOf 1 = 3 := by decide

/-- the view of the header's example generalised: 3×2 grid, view factors (4,2), window at (4,2) of 13×9 elements, 2×2 tiles -/
def exKV : KV :=
  { o := { t := { mb := 2, nb := 2, lm := 19, ln := 11, i := 4, j := 2, m := 13, n := 9 },
           g := { P := 3, Q := 2, kp := 1, kq := 1, ip := 2, jq := 1 }, lapack := false },
    vp := 4, vq := 2 }
theorem exKV_wf : KVWF exKV :=
  ⟨⟨⟨by decide, by decide, by decide, by decide, by decide, by decide⟩,
    ⟨by decide, by decide, by decide, by decide, by decide, by decide⟩⟩, by decide, by decide⟩
-- the view really permutes the 7 rows (0 3 6 5 1 4 2: a single partial block of 12, row 3 needs the cycle walk: 3 ↦ 9 ↦ 5)
example : exKV.o.t.mt = 7 ∧ exKV.sm 1 = some 3 ∧ exKV.sm 2 = some 6 ∧ exKV.sm 3 = some 5 ∧ exKV.sm 6 = some 2 ∧
    exKV.sn 1 = some 2 ∧ kviewStep 3 4 3 = 9 := by decide

/-- symmetric 9×9 tiles... (5×5 tile grid of 2×2 tiles), 2×3 process grid -/
def exSymL : Sym := { t := { mb := 2, nb := 2, lm := 9, ln := 9, i := 0, j := 0, m := 9, n := 9 }, P := 2, Q := 3, upper := false }
def exSymU : Sym := { t := { mb := 2, nb := 2, lm := 9, ln := 9, i := 2, j := 2, m := 6, n := 6 }, P := 3, Q := 2, upper := true }
theorem exSymL_wf : SymWF exSymL :=
  ⟨⟨by decide, by decide, by decide, by decide, by decide, by decide⟩, by decide, by decide, by decide⟩
theorem exSymU_wf : SymWF exSymU :=
  ⟨⟨by decide, by decide, by decide, by decide, by decide, by decide⟩, by decide, by decide, by decide⟩
-- two different stored tiles local to rank 0 (lower), with different positions below nb_local_tiles = 4
example : exSymL.stored 2 0 ∧ exSymL.stored 4 3 ∧ symLocal exSymL 0 2 0 ∧ symLocal exSymL 0 4 3 ∧
    exSymL.position 0 2 0 = some 1 ∧ exSymL.position 0 4 3 = some 3 ∧ exSymL.nbLocal 0 = 4 ∧ exSymL.rankOf 4 3 = 0 := by decide
-- upper, window starting at tile (1,1): rank 3 holds tiles (0,0) and (0,2) of the window
example : 2 < exSymU.t.nt ∧ exSymU.stored 0 0 ∧ exSymU.stored 0 2 ∧ symLocal exSymU 3 0 0 ∧ symLocal exSymU 3 0 2 ∧
    exSymU.position 3 0 0 ≠ exSymU.position 3 0 2 ∧ exSymU.rankOf 0 2 = 3 := by decide

end ParsecVerif.C20
