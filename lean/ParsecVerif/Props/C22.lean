import ParsecVerif.Model.MatrixOps
import ParsecVerif.Proofs.MatrixOpsApply
import ParsecVerif.Proofs.MatrixOpsMap
import ParsecVerif.Proofs.MatrixOpsReduce
/-!
# C22 — matrix operators visit each tile once and reduce correctly

* `apply_exactly_once`, `apply_uplo_arg`: for all `mt nt uplo` the three task spaces of apply.jdf
  invoke the operator exactly once on every tile of the requested region and on no other tile.
* `map_exactly_once`, `map_never_twice`, `map_global`: the column-claiming chains of
  map_operator.c, under ANY interleaving of task executions and atomic claims of `next_n`, visit
  every local tile exactly once; over the ranks every tile exactly once, at its owner.
* `reduce_schedule_fold`: any reduction tree whose leaves are a permutation of the tiles, executed
  as a dataflow under ANY schedule, with an associative-commutative operator yields the sequential
  fold.  `reduce_jdf_partial`, `reduce_col_partial`: the trees that reduce.jdf / reduce_col.jdf /
  reduce_row.jdf describe have that leaf property at the root (reduce.jdf: every `MT ≥ 1`;
  reduce_col/row: `2^depth` leaf tasks).
* The full statement for the reduction task classes is FALSE of the code (`reduce_full_false`,
  `reduce_jdf_oob_even`, `reduce_jdf_edge_mismatch`, `reduce_col_not_pow2`, `reduce_wrapper_oob`,
  `reduce_row_reads_column0`): see docs/notes/C22.md for the replay on the real code.
-/
namespace ParsecVerif.C22
open ParsecVerif.MatrixOps

/-! ## parsec_apply -/

/-- C22 (apply): for every shape and every `uplo`, the operator is invoked exactly once on every
    tile of the requested region, and never on any other index pair. -/
theorem apply_exactly_once (mt nt uplo m n : Int) :
    ((applyCalls mt nt uplo).map (fun c => (c.1, c.2.1))).count (m, n) =
      if inRegion mt nt uplo m n then 1 else 0 := by
  rw [applyCalls_tiles]
  have hnd := List.nodup_iff_count.1 (nodup_applyTiles mt nt uplo) (m, n)
  by_cases h : inRegion mt nt uplo m n
  · rw [if_pos h]
    have := List.count_pos_iff.2 ((mem_applyTiles mt nt uplo m n).2 h)
    omega
  · rw [if_neg h]
    exact List.count_eq_zero.2 (fun hm => h ((mem_applyTiles mt nt uplo m n).1 hm))

/-- the `uplo` argument the operator receives: the caller's `uplo` on diagonal tiles (APPLY_DIAG),
    `PARSEC_MATRIX_FULL` on all others -/
theorem apply_uplo_arg (mt nt uplo : Int) (c : Int × Int × Int) (h : c ∈ applyCalls mt nt uplo) :
    c.2.2 = if c.1 = c.2.1 then uplo else FULL := by
  obtain ⟨m, n, u⟩ := c
  unfold applyCalls at h
  simp only [List.mem_append, List.mem_map, Prod.mk.injEq] at h
  rcases h with (⟨⟨a, b⟩, hab, rfl, rfl, rfl⟩ | ⟨⟨a, b⟩, hab, rfl, rfl, rfl⟩) | ⟨⟨a, b⟩, hab, rfl, rfl, rfl⟩
  · rw [mem_applyL] at hab
    have : ¬ (a = b) := by omega
    simp [this]
  · rw [mem_applyU] at hab
    have : ¬ (a = b) := by omega
    simp [this]
  · rw [mem_applyDiag] at hab
    simp [hab.1]

example : inRegion 3 4 UPPER 1 2 ∧ ¬ inRegion 3 4 UPPER 2 1 ∧ inRegion 3 4 LOWER 2 1 := by decide
example : applyCalls 2 3 UPPER = [(0, 1, FULL), (0, 2, FULL), (1, 2, FULL), (0, 0, UPPER), (1, 1, UPPER)] := by decide

/-! ## parsec_map_operator -/

/-- safety at every moment of every interleaving: no tile is ever visited twice, and nothing but a
    local tile is ever visited -/
theorem map_never_twice (cfg : MapCfg) (sched : List Nat) (t : Nat × Nat) :
    (mapRun cfg (mapInit cfg) sched).log.count t ≤ 1 ∧
    (¬ isLocalTile cfg t → (mapRun cfg (mapInit cfg) sched).log.count t = 0) := by
  have I := mapInv_run cfg _ (mapInv_init cfg) sched
  refine ⟨?_, I.only t⟩
  by_cases h : isLocalTile cfg t
  · have := I.once t h; omega
  · rw [I.only t h]; omega

/-- C22 (map): for every shape, locality function, number of cores and every interleaving of the
    chains' steps, when all chains have finished every local tile has been visited exactly once -/
theorem map_exactly_once (cfg : MapCfg) (sched : List Nat)
    (hd : allDone (mapRun cfg (mapInit cfg) sched)) (t : Nat × Nat) :
    (mapRun cfg (mapInit cfg) sched).log.count t = if isLocalTile cfg t then 1 else 0 := by
  have I := mapInv_run cfg _ (mapInv_init cfg) sched
  by_cases h : isLocalTile cfg t
  · rw [if_pos h]
    have E := I.once t h
    rw [countP_covers_allDone _ hd t] at E
    have hnt : cfg.nt ≤ (mapRun cfg (mapInit cfg) sched).nextN := by
      rcases I.live with h1 | ⟨c, hc, hne⟩
      · exact h1
      · exact absurd (hd c hc) hne
    have : ¬ ((mapRun cfg (mapInit cfg) sched).nextN < t.2) := by have := h.2.1; omega
    rw [if_neg this] at E
    omega
  · rw [if_neg h]; exact I.only t h

/-- the configuration of rank `r` when tile `(m, n)` belongs to rank `owner m n` -/
def rankCfg (mt nt cores : Nat) (owner : Nat → Nat → Nat) (r : Nat) : MapCfg :=
  ⟨mt, nt, cores, fun m n => owner m n == r⟩

/-- over all ranks: every tile of the matrix is visited exactly once, by its owner -/
theorem map_global (mt nt cores P : Nat) (owner : Nat → Nat → Nat) (scheds : Nat → List Nat)
    (hd : ∀ r, r < P → allDone (mapRun (rankCfg mt nt cores owner r) (mapInit (rankCfg mt nt cores owner r)) (scheds r)))
    (m n : Nat) (hm : m < mt) (hn : n < nt) (r : Nat) (hr : r < P) :
    (mapRun (rankCfg mt nt cores owner r) (mapInit (rankCfg mt nt cores owner r)) (scheds r)).log.count (m, n) =
      if r = owner m n then 1 else 0 := by
  rw [map_exactly_once _ _ (hd r hr)]
  by_cases e : r = owner m n
  · rw [if_pos e]
    have : isLocalTile (rankCfg mt nt cores owner r) (m, n) := ⟨hm, hn, by simp [rankCfg, e]⟩
    rw [if_pos this]
  · rw [if_neg e]
    have : ¬ isLocalTile (rankCfg mt nt cores owner r) (m, n) := by
      rintro ⟨_, _, h3⟩
      simp only [rankCfg, beq_iff_eq] at h3
      exact e h3.symm
    rw [if_neg this]

/-- a 3 × 4 matrix, checkerboard locality, two cores: a schedule after which all chains are done -/
def exCfg : MapCfg := ⟨3, 4, 2, fun m n => (m + n) % 2 == 0⟩
example : (mapInit exCfg).chains = [.ready 0 0, .ready 1 1] ∧ (mapInit exCfg).nextN = 1 := by decide
example : (mapRun exCfg (mapInit exCfg) [1, 0, 1, 0, 0, 1, 1, 0, 1, 0, 1]).log =
    [(1, 1), (0, 0), (2, 0), (0, 2), (2, 2), (1, 3)] := by decide
example : ∀ c ∈ (mapRun exCfg (mapInit exCfg) [1, 0, 1, 0, 0, 1, 1, 0, 1, 0, 1]).chains, c = Chain.done := by decide

/-! ## reductions -/

/-- C22 (reduce): any reduction tree whose leaves are a permutation of `tiles`, executed as a
    dataflow under ANY schedule (nodes fire in any order, as soon as their inputs exist), with an
    associative and commutative operator: whatever value the root receives is the sequential fold
    of the tiles. -/
theorem reduce_schedule_fold {α} (f : α → α → α) (hassoc : ∀ a b c, f (f a b) c = f a (f b c))
    (hcomm : ∀ a b, f a b = f b a) (v : Nat → α) (root : RTree) (tiles : List Nat)
    (hperm : root.leaves.Perm tiles) (sched : List (List Bool)) (x : α)
    (hx : (runSched f v root [] sched).get [] = some x) :
    some x = foldSeq f (tiles.map v) := by
  obtain ⟨t, h1, h2⟩ := runSched_ok f v root [] (storeOK_nil f v root) sched [] x hx
  simp only [RTree.sub] at h1
  cases h1
  rw [h2, ← eval_eq_foldSeq f hassoc v root]
  exact foldSeq_perm f hassoc hcomm (hperm.map v)

/-- every value a schedule ever stores at any node is the value of the sub-tree at that node -/
theorem reduce_schedule_deterministic {α} (f : α → α → α) (v : Nat → α) (root : RTree)
    (sched : List (List Bool)) (p : List Bool) (x : α)
    (hx : (runSched f v root [] sched).get p = some x) :
    ∃ t, root.sub p = some t ∧ x = t.eval f v :=
  runSched_ok f v root [] (storeOK_nil f v root) sched p x hx

/-- reduce.jdf, true part: for every `MT ≥ 1` the tree below the task that writes `R(0,0)`
    (`reduce(depth+1, 0)`) has the tiles `descA(0..MT-1, 0)` as leaves, in order, each once, and its
    value with an associative operator is the sequential fold. -/
theorem reduce_jdf_partial {α} (MT : Nat) (h1 : 1 ≤ MT) (f : α → α → α)
    (hassoc : ∀ a b c, f (f a b) c = f a (f b c)) (v : Nat → α) :
    (redTree MT (clog2 MT + 1) 0).leaves = List.range MT ∧
    some (redVal MT f v (clog2 MT + 1) 0) = foldSeq f ((List.range MT).map v) := by
  have hl : (redTree MT (clog2 MT + 1) 0).leaves = List.range MT := by
    rw [redTree_leaves]; exact redLeaves_root MT _ h1 (le_pow_clog2 MT)
  refine ⟨hl, ?_⟩
  rw [← redTree_eval, ← hl]
  exact (eval_eq_foldSeq f hassoc v _).symm

/-- reduce.jdf, true part: for odd `MT` every task of the space is a proper node (covers at least
    one existing tile) -/
theorem reduce_jdf_in_bounds_odd (MT l p : Nat) (hodd : MT % 2 = 1) (h : (l, p) ∈ redSpace MT) :
    p * 2 ^ l < MT := by
  rw [mem_redSpace] at h
  obtain ⟨h1, _, h3⟩ := h
  have hpos : 0 < 2 ^ l := Nat.two_pow_pos l
  have hle : p * 2 ^ l ≤ MT := (Nat.le_div_iff_mul_le hpos).1 h3
  obtain ⟨k, rfl⟩ : ∃ k, l = k + 1 := ⟨l - 1, by omega⟩
  have e : p * 2 ^ (k + 1) = 2 * (p * 2 ^ k) := by rw [Nat.pow_succ]; ac_rfl
  omega

/-- the statement one would like: every tile a task of reduce.jdf reads exists -/
def ReduceFull : Prop :=
  ∀ MT, 1 ≤ MT → ∀ t ∈ redSpace MT, ∀ m ∈ srcTiles (redA t.1 t.2) ++ srcTiles (redB MT t.1 t.2), m < MT

/-- FINDING: for every even `MT` the task `reduce(1, MT/2)` is in the space and reads `descA(MT, 0)`,
    a tile that does not exist -/
theorem reduce_jdf_oob_even (MT : Nat) (heven : MT % 2 = 0) :
    (1, MT / 2) ∈ redSpace MT ∧ redA 1 (MT / 2) = .tile MT := by
  constructor
  · rw [mem_redSpace]
    refine ⟨Nat.le_refl _, by omega, ?_⟩
    rw [Nat.pow_one]; exact Nat.le_refl _
  · unfold redA
    rw [if_pos rfl]
    congr 1; omega

theorem reduce_full_false : ¬ ReduceFull := by
  intro h
  have := h 2 (by decide) (1, 1) (by decide) 2 (by decide)
  omega

/-- FINDING: for `MT = 4` the task `reduce(2,1)` sends its result to flow `B` of `reduce(3,0)`, whose
    own input declaration for `B` is `NULL` -/
theorem reduce_jdf_edge_mismatch :
    (2, 1) ∈ redSpace 4 ∧ redOut 4 2 1 = .flowB 3 0 ∧ redB 4 3 0 = .null := by decide

/-- reduce_col.jdf / reduce_row.jdf, true part: the tree below `reduce_col(depth, 0, col)` has the
    leaf tasks of rows `0 .. 2^depth − 1` as leaves, in order, each once; its value with an
    associative operator is the sequential fold over these rows. -/
theorem reduce_col_partial {α} (d : Nat) (f : α → α → α)
    (hassoc : ∀ a b c, f (f a b) c = f a (f b c)) (v : Nat → α) :
    (colTree d 0).leaves = List.range (2 ^ d) ∧
    some (colVal f v d 0) = foldSeq f ((List.range (2 ^ d)).map v) := by
  have hl : (colTree d 0).leaves = List.range (2 ^ d) := by
    rw [colTree_leaves]; exact colLeaves_root d
  refine ⟨hl, ?_⟩
  rw [← colTree_eval, ← hl]
  exact (eval_eq_foldSeq f hassoc v _).symm

/-- reduce_col.jdf / reduce_row.jdf: the output declarations of the producers and the input
    declarations of the consumers describe the same edges -/
theorem reduce_col_edges_match (d lv i : Nat) :
    Dst.flowA (lv + 1) i ∈ colOut d lv (2 * i) ∧ Dst.flowB (lv + 1) i ∈ colOut d lv (2 * i + 1) ∧
    colLeafOut (2 * i) = .flowA 1 i ∧ colLeafOut (2 * i + 1) = .flowB 1 i ∧
    colTop 1 i = .tile (2 * i) ∧ colBottom 1 i = .tile (2 * i + 1) ∧
    colTop (lv + 2) i = .node (lv + 1) (2 * i) ∧ colBottom (lv + 2) i = .node (lv + 1) (2 * i + 1) := by
  have e0 : 0 = 2 * i % 2 := by omega
  have e1 : 1 = (2 * i + 1) % 2 := by omega
  have e2 : 2 * i / 2 = i := by omega
  have e3 : (2 * i + 1) / 2 = i := by omega
  have e4 : 2 * i % 2 = 0 := by omega
  have e5 : ¬ ((2 * i + 1) % 2 = 0) := by omega
  refine ⟨?_, ?_, ?_, ?_, ?_, ?_, ?_, ?_⟩
  · unfold colOut; rw [if_pos e0, e2]; simp
  · unfold colOut; rw [if_pos e1, e3]; simp
  · unfold colLeafOut; rw [if_pos e4, e2]
  · unfold colLeafOut; rw [if_neg e5, e3]
  · unfold colTop; rw [if_pos rfl]
  · unfold colBottom; rw [if_pos rfl]
  · unfold colTop; rw [if_neg (by omega)]; rfl
  · unfold colBottom; rw [if_neg (by omega)]; rfl

/-- FINDING: when `mt` is not a power of two the tree of reduce_col.jdf / reduce_row.jdf (depth
    `ceil(log2 mt)`) needs a leaf for row `mt`, which is not a row of the matrix -/
theorem reduce_col_not_pow2 (mt : Nat) (h : mt ≠ 2 ^ clog2 mt) : mt ∈ colLeaves (clog2 mt) 0 := by
  rw [colLeaves_root, List.mem_range]
  have := le_pow_clog2 mt
  omega

/-- FINDING: `parsec_reduce_col_New` / `parsec_reduce_row_New` pass `(IA, JA, M, N) = (0, 0, lnt, lmt)`;
    the leaf task space of reduce_col.jdf then contains `(row, col) = (lnt, lmt)`, which is outside
    every `lmt × lnt` tile matrix -/
theorem reduce_wrapper_oob (lmt lnt : Int) (h1 : 0 ≤ lmt) (h2 : 0 ≤ lnt) :
    (lnt, lmt) ∈ colInSpace (wrapperArgs lmt lnt).1 (wrapperArgs lmt lnt).2.1
        (wrapperArgs lmt lnt).2.2.1 (wrapperArgs lmt lnt).2.2.2 ∧
    ¬ (lnt < lmt ∧ lmt < lnt) := by
  constructor
  · unfold colInSpace wrapperArgs
    rw [mem_pairs _ (fun _ => irange 0 lmt)]
    simp only [mem_irange]
    omega
  · omega

/-- FINDING: every leaf task of reduce_row.jdf reads a tile of column 0 -/
theorem reduce_row_reads_column0 (depth : Nat) (IA N : Int) (t : Int × Int) (h : t ∈ rowReads depth IA N) :
    t.2 = 0 := by
  unfold rowReads at h
  simp only [List.mem_map] at h
  obtain ⟨_, _, rfl⟩ := h
  rfl

/-- `clog2` is the exact ceiling of the binary logarithm -/
theorem clog2_spec (n : Nat) : n ≤ 2 ^ clog2 n ∧ ∀ e, e < clog2 n → 2 ^ e < n :=
  ⟨le_pow_clog2 n, fun e h => clog2_min n e h⟩

/-! non-vacuity -/
example : (redTree 5 (clog2 5 + 1) 0).leaves = [0, 1, 2, 3, 4] := by decide
example : redVal 5 (· + ·) (fun i => i + 1) (clog2 5 + 1) 0 = 15 := by decide
example : redSpace 3 = [(1, 0), (1, 1), (2, 0), (3, 0)] := by decide
/-- a complete schedule of the tree of `MT = 3` (leaves first, then inner nodes bottom-up) -/
example : (runSched (· + ·) (fun i => 10 * i + 1) (redTree 3 3 0) []
    [[false, false, true], [false, true, false], [false, false, false], [false, false], [false, true], [false], []]).get []
    = some 33 := by decide
example : (redTree 3 3 0).leaves.Perm [2, 0, 1] := by decide
example : (colTree 2 0).leaves = [0, 1, 2, 3] := by decide
example : (3 : Nat) ≠ 2 ^ clog2 3 := by decide

end ParsecVerif.C22
