import ParsecVerif.Model.DepWord
import ParsecVerif.Base.Interleave
import ParsecVerif.Proofs.DepWordMask
/-!
# C07 — a task becomes ready exactly once, when its last input arrives

Counter mode: `n = goal ≥ 1` predecessors each run `parsec_update_deps_with_counter` once, under
ANY interleaving of their atomic steps.  Exactly one call returns "ready", and when it does every
other call has already returned (so all inputs have been released).

Mask mode (second half of the file): one predecessor per entry of `bits` runs
`parsec_update_deps_with_mask` once (plain read of the word, then one atomic fetch-or), under ANY
interleaving; same statement for the fetch-or results.  Invariant in `Proofs/DepWordMask.lean`.
-/
namespace ParsecVerif.C07
open ParsecVerif.DepWord ParsecVerif.Interleave

def cS (s : CState) := s.pcs.count .start
def cC (s : CState) := s.pcs.count .cas
def cD (s : CState) := s.pcs.count .dec
def cF (s : CState) := s.pcs.count (.done false)
def cT (s : CState) := s.pcs.count (.done true)

theorem length_eq_counts (l : List Pc) :
    l.length = l.count .start + l.count .cas + l.count .dec + l.count (.done false) + l.count (.done true) := by
  induction l with
  | nil => simp
  | cons x t ih =>
    simp only [List.length_cons, List.count_cons, beq_iff_eq]
    cases x with
    | start => simp; omega
    | cas => simp; omega
    | dec => simp; omega
    | done b => cases b <;> simp <;> omega

/-- The inductive invariant (counter abstraction): before the first successful CAS the word is 0
    and nobody went past it; afterwards `w = n − #returned`, and "ready" was returned exactly when
    all `n` calls have returned. -/
structure CInv (n : Nat) (s : CState) : Prop where
  len : s.pcs.length = n
  cases : (s.w = 0 ∧ cD s = 0 ∧ cF s = 0 ∧ cT s = 0) ∨
          (cF s + cT s ≥ 1 ∧ s.w = (n : Int) - ((cF s + cT s : Nat) : Int) ∧
            ((cF s + cT s = n ∧ cT s = 1) ∨ (cF s + cT s < n ∧ cT s = 0)))

theorem cinv_init (n : Nat) : CInv n (cinit n) := by
  refine ⟨by simp [cinit], Or.inl ⟨rfl, ?_, ?_, ?_⟩⟩ <;> simp [cinit, cD, cF, cT, List.count_replicate]

/-- bookkeeping of the five counters when thread `t` moves from `x` to `y` -/
theorem move5 (l : List Pc) (t : Nat) (x y : Pc) (hi : t < l.length) (hx : l[t] = x) :
    (l.set t y).count .start + (if x = .start then 1 else 0) = l.count .start + (if y = .start then 1 else 0) ∧
    (l.set t y).count .cas + (if x = .cas then 1 else 0) = l.count .cas + (if y = .cas then 1 else 0) ∧
    (l.set t y).count .dec + (if x = .dec then 1 else 0) = l.count .dec + (if y = .dec then 1 else 0) ∧
    (l.set t y).count (.done false) + (if x = .done false then 1 else 0) = l.count (.done false) + (if y = .done false then 1 else 0) ∧
    (l.set t y).count (.done true) + (if x = .done true then 1 else 0) = l.count (.done true) + (if y = .done true then 1 else 0) := by
  subst hx
  exact ⟨count_set_move l t y hi _, count_set_move l t y hi _, count_set_move l t y hi _,
         count_set_move l t y hi _, count_set_move l t y hi _⟩

theorem cinv_step (n : Nat) (hn : 1 ≤ n) (s : CState) (t : Nat) (h : CInv n s) : CInv n (cstep n s t) := by
  unfold cstep
  have hsum := length_eq_counts s.pcs
  rw [h.len] at hsum
  have hcases := h.cases
  simp only [cD, cF, cT] at hcases
  cases hpc : s.pcs[t]? with
  | none => simpa using h
  | some pc =>
    obtain ⟨hi, hx⟩ := getElem_of_getElem? hpc
    cases pc with
    | start =>
      simp only []
      by_cases hw : s.w = 0
      · rw [if_pos hw]
        have m := move5 s.pcs t .start .cas hi hx
        simp at m
        refine ⟨by simp [h.len], ?_⟩
        simp only [cD, cF, cT]
        omega
      · rw [if_neg hw]
        have m := move5 s.pcs t .start .dec hi hx
        simp at m
        refine ⟨by simp [h.len], ?_⟩
        simp only [cD, cF, cT]
        omega
    | cas =>
      simp only []
      by_cases hw : s.w = 0
      · rw [if_pos hw]
        refine ⟨by simp [h.len], ?_⟩
        simp only [cD, cF, cT]
        by_cases h1 : n = 1
        · have hd : decide ((n : Int) - 1 = 0) = true := by simp; omega
          rw [hd]
          have m := move5 s.pcs t .cas (.done true) hi hx
          simp at m
          omega
        · have hd : decide ((n : Int) - 1 = 0) = false := by simp; omega
          rw [hd]
          have m := move5 s.pcs t .cas (.done false) hi hx
          simp at m
          omega
      · rw [if_neg hw]
        have m := move5 s.pcs t .cas .dec hi hx
        simp at m
        refine ⟨by simp [h.len], ?_⟩
        simp only [cD, cF, cT]
        omega
    | dec =>
      simp only []
      refine ⟨by simp [h.len], ?_⟩
      simp only [cD, cF, cT]
      by_cases hz : s.w - 1 = 0
      · have hd : decide (s.w - 1 = 0) = true := by simp [hz]
        rw [hd]
        have m := move5 s.pcs t .dec (.done true) hi hx
        simp at m
        omega
      · have hd : decide (s.w - 1 = 0) = false := by simp [hz]
        rw [hd]
        have m := move5 s.pcs t .dec (.done false) hi hx
        simp at m
        omega
    | done b => simpa using h

theorem cinv_run (n : Nat) (hn : 1 ≤ n) (sched : List Nat) : CInv n (crun n n sched) := by
  unfold crun
  generalize hs : cinit n = s
  have h : CInv n s := hs ▸ cinv_init n
  clear hs
  induction sched generalizing s with
  | nil => exact h
  | cons t ts ih => exact ih _ (cinv_step n hn s t h)

def allDone (s : CState) : Prop := ∀ pc ∈ s.pcs, ∃ b, pc = .done b

theorem allDone_iff (n : Nat) (s : CState) (h : s.pcs.length = n) : allDone s ↔ cF s + cT s = n := by
  have hsum := length_eq_counts s.pcs
  rw [h] at hsum
  unfold allDone cF cT
  constructor
  · intro hd
    have z : ∀ p : Pc, (∀ b, p ≠ .done b) → s.pcs.count p = 0 := by
      intro p hp
      apply List.count_eq_zero.2
      intro hm
      obtain ⟨b, hb⟩ := hd p hm
      exact hp b hb
    have := z .start (by intro b; simp)
    have := z .cas (by intro b; simp)
    have := z .dec (by intro b; simp)
    omega
  · intro hc pc hm
    cases pc with
    | done b => exact ⟨b, rfl⟩
    | start => have := List.count_pos_iff.2 hm; omega
    | cas => have := List.count_pos_iff.2 hm; omega
    | dec => have := List.count_pos_iff.2 hm; omega

/-- **C07, counter mode.**  For every goal `n ≥ 1` and every interleaving of the `n` releasing
    calls: at most one call has returned "ready"; if one has, every call has already returned
    (all inputs were released before the task was declared ready); and once all calls have
    returned, exactly one returned "ready". -/
theorem counter_exactly_once (n : Nat) (hn : 1 ≤ n) (sched : List Nat) :
    cT (crun n n sched) ≤ 1 ∧ (cT (crun n n sched) = 1 → allDone (crun n n sched)) ∧
    (allDone (crun n n sched) → cT (crun n n sched) = 1) := by
  have h := cinv_run n hn sched
  generalize crun n n sched = s at h
  have hd := allDone_iff n s h.len
  have hc := h.cases
  refine ⟨by omega, fun h1 => hd.2 (by omega), fun ha => ?_⟩
  have := hd.1 ha
  omega

/-- the word never goes negative and, once armed, counts the calls still to come -/
theorem counter_word (n : Nat) (hn : 1 ≤ n) (sched : List Nat) :
    0 ≤ (crun n n sched).w ∧ (crun n n sched).w ≤ n := by
  have h := cinv_run n hn sched
  generalize crun n n sched = s at h
  have hsum := length_eq_counts s.pcs
  rw [h.len] at hsum
  rcases h.cases with ⟨hw, _⟩ | ⟨_, hw, _⟩
  · omega
  · simp only [cF, cT] at *; omega

/-- Progress: a thread that has not returned can always take a step, and each thread takes at most
    3 steps (start, failed CAS, decrement), so every fair run ends with all calls returned. -/
theorem counter_step_progress (goal : Int) (s : CState) (t : Nat) (pc : Pc) (h : s.pcs[t]? = some pc)
    (hnd : ∀ b, pc ≠ .done b) : (cstep goal s t).pcs[t]? ≠ some pc := by
  obtain ⟨hi, _⟩ := getElem_of_getElem? h
  unfold cstep
  rw [h]
  cases pc with
  | start => simp only []; rw [List.getElem?_set_self hi]; split <;> simp
  | cas =>
    simp only []
    split
    · simp only []; rw [List.getElem?_set_self hi]; simp
    · simp only []; rw [List.getElem?_set_self hi]; simp
  | dec => simp only []; rw [List.getElem?_set_self hi]; simp
  | done b => exact absurd rfl (hnd b)

/-! Non-vacuity: a concrete interleaving in which the CAS of thread 0 races with thread 1's read. -/
example : (crun 3 3 [0, 1, 1, 0, 2, 2, 0]).pcs = [.done true, .done false, .done false] ∧ (crun 3 3 [0, 1, 1, 0, 2, 2, 0]).w = 0 := by
  decide

/-! ## Mask mode -/

open ParsecVerif.DepWordMask

/-- number of `parsec_update_deps_with_mask` calls that reported "ready" -/
def mT (s : MState) := s.pcs.count (.done true)

def mAllDone (s : MState) : Prop := ∀ pc ∈ s.pcs, ∃ b, pc = .done b

theorem mAllDone_iff (s : MState) : mAllDone s ↔ ∀ u, u < s.pcs.length → Dn s.pcs u := by
  unfold mAllDone Dn
  constructor
  · intro h u hu
    obtain ⟨b, hb⟩ := h s.pcs[u] (List.getElem_mem hu)
    exact ⟨b, by rw [List.getElem?_eq_getElem hu, hb]⟩
  · intro h pc hm
    obtain ⟨u, hu⟩ := List.mem_iff_getElem?.1 hm
    obtain ⟨r, hr⟩ := h u (List.getElem?_eq_some_iff.1 hu).1
    rw [hu] at hr
    injection hr with hr
    exact ⟨r, hr⟩

/-- **C07, mask mode.**  For all masks satisfying `MaskOK` (what the generator guarantees,
    `DepWordMask.maskOK_of_flows`) and every interleaving of the plain reads and atomic fetch-ors of
    the `bits.length` releasing calls: at most one call has returned "ready"; if one has, every call
    has already returned; and once all calls have returned, exactly one returned "ready". -/
theorem mask_exactly_once (im g : Nat) (bits : List Nat) (ok : MaskOK im g bits) (sched : List Nat) :
    mT (mrun im g bits sched) ≤ 1 ∧ (mT (mrun im g bits sched) = 1 → mAllDone (mrun im g bits sched)) ∧
    (mAllDone (mrun im g bits sched) → mT (mrun im g bits sched) = 1) := by
  have h := minv_run ok sched
  generalize mrun im g bits sched = s at h
  have hd := mAllDone_iff s
  unfold mT
  rcases h.ready with ⟨h1, h2⟩ | ⟨⟨u, hu, h1⟩, h2⟩
  · exact ⟨by omega, fun _ => hd.2 h1, fun _ => h2⟩
  · refine ⟨by omega, fun h3 => by omega, fun h3 => absurd (hd.1 h3 u hu) h1⟩

/-- the word never contains a bit outside IN_DONE ∪ IN mask ∪ released flows -/
theorem mask_word_bits (im g : Nat) (bits : List Nat) (ok : MaskOK im g bits) (sched : List Nat) (i : Nat)
    (hi : (mrun im g bits sched).w.testBit i = true) : i = 30 ∨ im.testBit i = true ∨ i ∈ bits := by
  have h := minv_run ok sched
  generalize mrun im g bits sched = s at h hi
  rcases (h.word i).1 hi with ⟨_, h1 | h1⟩ | ⟨u, _, h1⟩
  · exact Or.inl h1
  · exact Or.inr (Or.inl h1)
  · exact Or.inr (Or.inr (List.mem_iff_getElem?.2 ⟨u, h1⟩))

/-- once every call has returned the word is exactly IN_DONE ∪ IN mask ∪ released flows, and it
    covers the goal -/
theorem mask_word_final (im g : Nat) (bits : List Nat) (ok : MaskOK im g bits) (sched : List Nat)
    (hall : mAllDone (mrun im g bits sched)) :
    (∀ i, (mrun im g bits sched).w.testBit i = true ↔ (i = 30 ∨ im.testBit i = true ∨ i ∈ bits)) ∧
    (mrun im g bits sched).w &&& g = g := by
  have h := minv_run ok sched
  have hb := mask_word_bits im g bits ok sched
  generalize mrun im g bits sched = s at h hall hb
  have hd := (mAllDone_iff s).1 hall
  have hpos : 0 < s.pcs.length := by rw [h.len]; exact List.length_pos_iff.2 ok.ne
  have hex : ∃ u, Dn s.pcs u := ⟨0, hd 0 hpos⟩
  have hw : ∀ i, s.w.testBit i = true ↔ (i = 30 ∨ im.testBit i = true ∨ i ∈ bits) := by
    intro i
    refine ⟨hb i, ?_⟩
    rintro (h1 | h1 | h1)
    · exact (h.word i).2 (Or.inl ⟨hex, Or.inl h1⟩)
    · exact (h.word i).2 (Or.inl ⟨hex, Or.inr h1⟩)
    · obtain ⟨u, hu⟩ := List.mem_iff_getElem?.1 h1
      have hlt : u < s.pcs.length := by rw [h.len]; exact (List.getElem?_eq_some_iff.1 hu).1
      exact (h.word i).2 (Or.inr ⟨u, hd u hlt, hu⟩)
  refine ⟨hw, (and_eq_iff s.w g).2 fun i hg => (hw i).2 ?_⟩
  rcases ok.cover i hg with h1 | h1
  · exact Or.inr (Or.inl h1)
  · exact Or.inr (Or.inr h1)

/-- Progress: in every reachable state a call that has not returned can take a step, and each call
    takes exactly 2 steps (plain read, fetch-or), so every fair run ends with all calls returned. -/
theorem mask_step_progress (im g : Nat) (bits : List Nat) (ok : MaskOK im g bits) (sched : List Nat) (t : Nat) (pc : MPc)
    (h : (mrun im g bits sched).pcs[t]? = some pc) (hnd : ∀ b, pc ≠ .done b) :
    (mstep im g bits (mrun im g bits sched) t).pcs[t]? ≠ some pc := by
  have hinv := minv_run ok sched
  generalize mrun im g bits sched = s at h hinv
  obtain ⟨hi, _⟩ := List.getElem?_eq_some_iff.1 h
  cases pc with
  | start =>
    have hlt : t < bits.length := by rw [← hinv.len]; exact hi
    rw [mstep_start h (List.getElem?_eq_getElem hlt)]
    show (s.pcs.set t _)[t]? ≠ _
    rw [List.getElem?_set_self hi]
    simp
  | orr v =>
    rw [mstep_orr h]
    show (s.pcs.set t _)[t]? ≠ _
    rw [List.getElem?_set_self hi]
    simp
  | done b => exact absurd rfl (hnd b)

/-! Non-vacuity.  Flows `L D W C1 D`: IN mask = bits 0,2; goal = 0b11111; releases = flows 1,3,4.
    Threads 0 and 1 both read the word before any fetch-or (both carry the IN bits), thread 2 reads
    it after thread 0's fetch-or (sees IN_DONE, carries only its own bit); thread 1 is last. -/
example : inMask [.localData, .data, .writeOnly, .ctl1, .data] = 5 ∧ goalMask [.localData, .data, .writeOnly, .ctl1, .data] = 31 ∧
    releaseBits [.localData, .data, .writeOnly, .ctl1, .data] = [1, 3, 4] := by decide
example : MaskOK 5 31 [1, 3, 4] := by decide
example : MaskOK 5 31 [1, 3, 4] := maskOK_of_flows [.localData, .data, .writeOnly, .ctl1, .data] (by decide) (by decide) (by decide)
/-- a data flow whose first applicable input comes from a task, followed by an unguarded collection fallback: the
    IN computation must NOT pre-set its bit (the scan stops at the first applicable dependency) -/
example : inMask [.dataDeps [(.f, true), (.t, false), (.none, true)], .data] = 0 ∧
    releaseBits [.dataDeps [(.f, true), (.t, false), (.none, true)], .data] = [0, 1] := by decide
example : (mrun 5 31 [1, 3, 4] [0, 1, 0, 2, 2, 1]).pcs = [.done false, .done true, .done false] ∧
    (mrun 5 31 [1, 3, 4] [0, 1, 0, 2, 2, 1]).w = 2 ^ 30 + 31 ∧
    (mrun 5 31 [1, 3, 4] [0, 1, 0, 2, 2]).pcs = [.done false, .orr (2 ^ 30 + 8 + 5), .done false] := by
  decide

end ParsecVerif.C07
