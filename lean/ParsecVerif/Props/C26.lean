import ParsecVerif.Proofs.DataOwnership
/-!
# C26 — data copy ownership transfers keep one consistent newest version

Model: `ParsecVerif.DataOwnership` (parsec/data.c, `parsec_data_start_transfer_ownership_to_copy`
and `parsec_data_end_transfer_ownership_to_copy` line by line, their asserts as the precondition).
History alphabet: complete transfers `(device, READ bit, WRITE bit, bump kind)`; a transfer whose
asserts would fire is not issued.  Quantification: every state / every history, any number of devices.
-/
namespace ParsecVerif.C26
open ParsecVerif.DataOwnership

structure Op where
  d : Nat
  r : Bool
  w : Bool
  b : Nat
deriving Repr, DecidableEq

/-- one history step: the complete transfer, skipped when outside the precondition -/
def apply (s : St) (o : Op) : St :=
  match transfer s o.d o.r o.w o.b with
  | some (s', _) => s'
  | none => s

def run (s : St) (ops : List Op) : St := ops.foldl apply s

/-- every OWNED copy sits on `owner_device` -/
def OneOwner (s : St) : Prop :=
  ∀ i c, getC s.copies i = some c → c.coh = .owned → s.owner = (i : Int)

/-- `v` is at least the version of every valid (non-NULL, non-INVALID) copy -/
def Top (cs : List (Option Copy)) (v : Nat) : Prop :=
  ∀ j cj, getC cs j = some cj → cj.coh ≠ .invalid → cj.ver ≤ v

/-- the copy of device `d` is valid and holds the newest version -/
def UpToDate (cs : List (Option Copy)) (d : Nat) : Prop :=
  ∃ c, getC cs d = some c ∧ c.coh ≠ .invalid ∧ Top cs c.ver

theorem transfer_target {s s' : St} {d : Nat} {r w : Bool} {b : Nat} {ret : Int}
    (h : transfer s d r w b = some (s', ret)) : ∃ tgt, getC s.copies d = some tgt := by
  unfold transfer at h
  split at h
  · rename_i hp
    unfold xferPre startPre at hp
    cases hc : getC s.copies d with
    | none => simp [hc] at hp
    | some c => exact ⟨c, rfl⟩
  · exact absurd h (by simp)

/-! ## (d) a write access makes the target the owner — every state, no invariant needed -/

theorem write_owns (s s' : St) (d : Nat) (r : Bool) (b : Nat) (ret : Int)
    (h : transfer s d r true b = some (s', ret)) :
    s'.owner = (d : Int) ∧ ∃ c, getC s'.copies d = some c ∧ c.coh = .owned := by
  obtain ⟨tgt, ht⟩ := transfer_target h
  have sp := transfer_spec ht h
  obtain ⟨t', h1, h2, _⟩ := sp.target
  exact ⟨by simpa using sp.owner, t', h1, by simpa using h2⟩

/-! ## (a) at most one owner — inductive over all histories -/

theorem rb_owned {x : Option Copy} {c : Copy} (h : rb x = some c) (hc : c.coh = .owned) :
    x = some c := by
  cases x with
  | none => simp [rb, readBody] at h
  | some c0 =>
    simp only [rb, readBody, Bool.false_eq_true, false_and, if_false] at h
    split at h
    · exact h
    · split at h
      · simp only [Option.some.injEq] at h; subst h; simp [setCoh] at hc
      · exact h

theorem writeBody_not_owned {x : Option Copy} {c : Copy} (h : writeBody x = some c) :
    c.coh ≠ .owned := by
  cases x with
  | none => simp [writeBody] at h
  | some c0 =>
    simp only [writeBody] at h
    split at h
    · simp only [Option.some.injEq] at h; subst h; simp_all
    · simp only [Option.some.injEq] at h; subst h; simp [setCoh]

theorem otherF_owned {o r w : Bool} {x : Option Copy} {c : Copy}
    (h : otherF o r w x = some c) (hc : c.coh = .owned) :
    x = some c ∧ (o = true ∨ w = false) := by
  cases o with
  | true => exact ⟨by simpa [otherF] using h, Or.inl rfl⟩
  | false =>
    cases w with
    | true =>
      simp only [otherF, Bool.false_eq_true, if_false, if_true] at h
      exact absurd hc (writeBody_not_owned h)
    | false =>
      cases r with
      | true =>
        simp only [otherF, Bool.false_eq_true, if_false, if_true] at h
        exact ⟨rb_owned h hc, Or.inr rfl⟩
      | false => exact ⟨by simpa [otherF] using h, Or.inr rfl⟩

theorem oneOwner_step (s s' : St) (d : Nat) (r w : Bool) (b : Nat) (ret : Int)
    (hA : OneOwner s) (h : transfer s d r w b = some (s', ret)) : OneOwner s' := by
  obtain ⟨tgt, ht⟩ := transfer_target h
  have sp := transfer_spec ht h
  obtain ⟨t', h1, h2, _⟩ := sp.target
  intro i c hi hc
  by_cases hid : d = i
  · subst hid
    rw [h1] at hi
    cases hi
    rw [sp.owner]
    cases w with
    | true => rfl
    | false =>
      cases r with
      | true => simp [hc] at h2
      | false =>
        simp only [Bool.false_eq_true, if_false] at h2 ⊢
        exact hA d tgt ht (by rw [← h2]; exact hc)
  · rw [sp.other i hid] at hi
    obtain ⟨hx, how⟩ := otherF_owned hi hc
    have hoi := hA i c hx hc
    rcases how with ho | hw
    · have : s.owner = (d : Int) := by simpa using ho
      omega
    · rw [sp.owner, hw]; simpa using hoi

theorem oneOwner_apply (s : St) (o : Op) (hA : OneOwner s) : OneOwner (apply s o) := by
  unfold apply
  split
  · rename_i s' ret h
    exact oneOwner_step s s' o.d o.r o.w o.b ret hA h
  · exact hA

/-- **(a)** from any state in which OWNED copies sit on `owner_device`, after any history of
    complete transfers (any devices, modes, bumps; out-of-precondition calls not issued) every OWNED
    copy still sits on `owner_device` … -/
theorem one_owner (s : St) (hA : OneOwner s) (ops : List Op) : OneOwner (run s ops) := by
  induction ops generalizing s with
  | nil => exact hA
  | cons o t ih => exact ih (apply s o) (oneOwner_apply s o hA)

/-- … hence at most one copy is OWNED. -/
theorem at_most_one_owned (s : St) (hA : OneOwner s) (ops : List Op) (i j : Nat) (ci cj : Copy)
    (hi : getC (run s ops).copies i = some ci) (hj : getC (run s ops).copies j = some cj)
    (hoi : ci.coh = .owned) (hoj : cj.coh = .owned) : i = j := by
  have h := one_owner s hA ops
  have h1 := h i ci hi hoi
  have h2 := h j cj hj hoj
  omega

/-! ## (b), direction "only if": a requested transfer means the target is not up to date —
      every state, no invariant needed -/

theorem newerOwned_true {cs : List (Option Copy)} {v : Nat} (h : newerOwned cs v = true) :
    ∃ i c, getC cs i = some c ∧ c.coh = .owned ∧ v < c.ver := by
  obtain ⟨i, c, hi, hp⟩ := getC_of_any (isNewerOwned v) rfl h
  simp only [isNewerOwned, Bool.and_eq_true, beq_iff_eq, decide_eq_true_eq] at hp
  exact ⟨i, c, hi, hp.1, hp.2⟩

theorem newerOwned_of {cs : List (Option Copy)} {v i : Nat} {c : Copy} (hi : getC cs i = some c)
    (ho : c.coh = .owned) (hv : v < c.ver) : newerOwned cs v = true :=
  any_of_getC (isNewerOwned v) hi (by simp [isNewerOwned, ho, hv])

theorem startRet_ne {s : St} {d : Nat} {tgt : Copy} {r : Bool} (h : startRet s d tgt r ≠ -1) :
    s.owner ≠ (d : Int) ∧ r = true ∧ switchTreq s.copies tgt = true ∧
      startRet s d tgt r = switchValid s.owner s.copies tgt := by
  unfold startRet at h ⊢
  by_cases ho : s.owner = (d : Int)
  · simp [ho] at h
  · rw [if_neg ho] at h ⊢
    by_cases ht : (r && switchTreq s.copies tgt) = true
    · rw [if_pos ht]
      simp only [Bool.and_eq_true] at ht
      exact ⟨ho, ht.1, ht.2, rfl⟩
    · rw [if_neg ht] at h; exact absurd rfl h

/-- **(b, ⇒)** whenever a complete transfer names a source (`ret ≠ -1`), the access has the READ bit
    and the target copy was not up to date: INVALID, or older than some valid copy. -/
theorem transfer_only_if_stale (s s' : St) (d : Nat) (r w : Bool) (b : Nat) (ret : Int)
    (h : transfer s d r w b = some (s', ret)) (hr : ret ≠ -1) :
    r = true ∧ ¬ UpToDate s.copies d := by
  obtain ⟨tgt, ht⟩ := transfer_target h
  have sp := transfer_spec ht h
  have hne := sp.ret ▸ hr
  obtain ⟨_, hr1, htr, _⟩ := startRet_ne hne
  refine ⟨hr1, ?_⟩
  rintro ⟨c, hc, hv, htop⟩
  rw [ht] at hc; cases hc
  unfold switchTreq at htr
  split at htr
  · rename_i hcoh; exact hv hcoh
  · obtain ⟨i, ci, hi, hoi, hlt⟩ := newerOwned_true htr
    have := htop i ci hi (by rw [hoi]; decide)
    omega
  · exact absurd htr (by simp)
  · exact absurd htr (by simp)

/-! ## the invariant of well-numbered histories -/

/-- `A` owned copies sit on owner_device; `K` owner_device names a valid copy; `J` a valid copy that
    is not up to date is SHARED and the owner's copy is OWNED with a greater version (the only
    staleness `start` detects); `X` an EXCLUSIVE copy is the only valid copy. -/
structure Inv (s : St) : Prop where
  A : OneOwner s
  K0 : -1 ≤ s.owner
  K : ∀ o : Nat, s.owner = (o : Int) → ∃ c, getC s.copies o = some c ∧ c.coh ≠ .invalid
  J : ∀ i c, getC s.copies i = some c → c.coh ≠ .invalid →
    Top s.copies c.ver ∨
    (c.coh = .shared ∧ ∃ (o : Nat) (co : Copy), s.owner = (o : Int) ∧ getC s.copies o = some co ∧
      co.coh = .owned ∧ c.ver < co.ver)
  X : ∀ i c, getC s.copies i = some c → c.coh = .exclusive →
    ∀ j cj, j ≠ i → getC s.copies j = some cj → cj.coh = .invalid

theorem getC_cons_zero (x : Option Copy) (t : List (Option Copy)) : getC (x :: t) 0 = x := by
  simp [getC]

theorem getC_cons_succ (x : Option Copy) (t : List (Option Copy)) (j : Nat) :
    getC (x :: t) (j + 1) = getC t j := by
  simp [getC]

theorem lastValid_spec (cs : List (Option Copy)) (i : Nat) (acc : Int) :
    lastValid cs i acc = acc ∨
    ∃ j c, lastValid cs i acc = ((i + j : Nat) : Int) ∧ getC cs j = some c ∧ c.coh ≠ .invalid := by
  induction cs generalizing i acc with
  | nil => exact Or.inl rfl
  | cons x t ih =>
    unfold lastValid
    rcases ih (i + 1) (if isValid x = true then (i : Int) else acc) with h | ⟨j, c, h1, h2, h3⟩
    · rw [h]
      by_cases hv : isValid x = true
      · rw [if_pos hv]
        right
        cases x with
        | none => simp [isValid] at hv
        | some c =>
          refine ⟨0, c, by simp, getC_cons_zero _ _, ?_⟩
          simpa [isValid] using hv
      · rw [if_neg hv]; exact Or.inl rfl
    · right
      refine ⟨j + 1, c, ?_, by rw [getC_cons_succ]; exact h2, h3⟩
      rw [h1]; congr 1; omega

/-- **(c)** under the invariant, the device named as transfer source holds a valid copy carrying the
    newest version. -/
theorem source_newest_partial (s s' : St) (d : Nat) (r w : Bool) (b : Nat) (ret : Int) (hI : Inv s)
    (h : transfer s d r w b = some (s', ret)) (hr : ret ≠ -1) :
    ∃ k : Nat, ret = (k : Int) ∧ UpToDate s.copies k := by
  obtain ⟨tgt, ht⟩ := transfer_target h
  have sp := transfer_spec ht h
  have hne := sp.ret ▸ hr
  obtain ⟨hod, hr1, htr, hret⟩ := startRet_ne hne
  have hsrc := sp.srcOk hod (by simp [hr1, htr])
  rw [sp.ret, hret]
  -- the owner's copy, when there is an owner, is up to date
  have hownerTop : ∀ o : Nat, s.owner = (o : Int) → UpToDate s.copies o := by
    intro o ho
    obtain ⟨co, hco, hvo⟩ := hI.K o ho
    refine ⟨co, hco, hvo, ?_⟩
    rcases hI.J o co hco hvo with h1 | ⟨hsh, o', co', ho', hco', hown, hlt⟩
    · exact h1
    · have : o' = o := by omega
      subst this
      rw [hco] at hco'; cases hco'
      omega
  unfold switchValid at hsrc ⊢
  by_cases hcase : tgt.coh = .invalid ∧ s.owner = -1
  · rw [if_pos hcase] at hsrc ⊢
    rcases lastValid_spec s.copies 0 (-1) with h1 | ⟨j, c, h1, h2, h3⟩
    · exact absurd h1 hsrc
    · refine ⟨j, by rw [h1]; simp, c, h2, h3, ?_⟩
      rcases hI.J j c h2 h3 with h4 | ⟨_, o', _, ho', _⟩
      · exact h4
      · omega
  · rw [if_neg hcase] at hsrc ⊢
    have h0 := hI.K0
    have : ∃ o : Nat, s.owner = (o : Int) := ⟨s.owner.toNat, by omega⟩
    obtain ⟨o, ho⟩ := this
    exact ⟨o, ho, hownerTop o ho⟩

/-- **(b)** under the invariant, a complete transfer with the READ bit names a source exactly when
    the target copy is not up to date. -/
theorem transfer_iff_stale_partial (s s' : St) (d : Nat) (w : Bool) (b : Nat) (ret : Int)
    (hI : Inv s) (h : transfer s d true w b = some (s', ret)) :
    ret ≠ -1 ↔ ¬ UpToDate s.copies d := by
  refine ⟨fun hr => (transfer_only_if_stale s s' d true w b ret h hr).2, ?_⟩
  intro hstale hret
  apply hstale
  obtain ⟨tgt, ht⟩ := transfer_target h
  have sp := transfer_spec ht h
  have hr0 : startRet s d tgt true = -1 := by rw [← sp.ret]; exact hret
  by_cases hod : s.owner = (d : Int)
  · -- the owner's copy is valid (K) and cannot be older than itself (J)
    obtain ⟨co, hco, hvo⟩ := hI.K d hod
    rw [ht] at hco; cases hco
    refine ⟨tgt, ht, hvo, ?_⟩
    rcases hI.J d tgt ht hvo with h1 | ⟨_, o', co', ho', hco', _, hlt⟩
    · exact h1
    · have : o' = d := by omega
      subst this
      rw [ht] at hco'; cases hco'; omega
  · have hno := sp.notOwned hod
    unfold startRet at hr0
    rw [if_neg hod] at hr0
    have htr : switchTreq s.copies tgt = false := by
      cases htr : switchTreq s.copies tgt with
      | false => rfl
      | true =>
        have := sp.srcOk hod (by simp [htr])
        simp only [htr, Bool.and_self, if_true] at hr0
        exact absurd hr0 this
    unfold switchTreq at htr
    have hvalid : tgt.coh ≠ .invalid := by
      intro hc; rw [hc] at htr; simp at htr
    refine ⟨tgt, ht, hvalid, ?_⟩
    rcases hI.J d tgt ht hvalid with h1 | ⟨hsh, o', co', ho', hco', hown, hlt⟩
    · exact h1
    · rw [hsh] at htr
      simp only at htr
      rw [newerOwned_of hco' hown hlt] at htr
      exact absurd htr (by simp)

/-! ## preservation of the invariant -/

/-- hypothesis H1 on a history step: the owner does not make a READ-only access to its own OWNED copy
    while another valid copy carries a different (older) version -/
def OwnerReadOK (s : St) (o : Op) : Prop :=
  o.r = true → o.w = false → s.owner = (o.d : Int) →
    ∀ tgt, getC s.copies o.d = some tgt → tgt.coh = .owned →
      ∀ j cj, getC s.copies j = some cj → cj.coh ≠ .invalid → cj.ver = tgt.ver

/-- hypothesis H2 on a history step (obligation of the caller): after a WRITE access the version the
    caller gave to the written copy is the newest -/
def WriteNewest (s' : St) (o : Op) : Prop := o.w = true → UpToDate s'.copies o.d

theorem syncVer_neg {s : St} {tgt : Copy} : syncVer s tgt (-1) = tgt.ver := by
  simp [syncVer]

theorem syncVer_src {s : St} {tgt ck : Copy} {k : Nat} (h : getC s.copies k = some ck) :
    syncVer s tgt (k : Int) = ck.ver := by
  have : ¬ ((k : Int) < 0) := by omega
  simp [syncVer, this, h]

theorem inv_step (s s' : St) (d : Nat) (r w : Bool) (b : Nat) (ret : Int) (hI : Inv s)
    (h : transfer s d r w b = some (s', ret))
    (h1 : OwnerReadOK s ⟨d, r, w, b⟩) (h2 : WriteNewest s' ⟨d, r, w, b⟩) : Inv s' := by
  obtain ⟨tgt, ht⟩ := transfer_target h
  have sp := transfer_spec ht h
  obtain ⟨t', ht', hcoh', hver'⟩ := sp.target
  have hfw : ∀ i, d ≠ i → ∀ c, getC s.copies i = some c →
      getC s'.copies i = some (setCoh c (cohF (decide (s.owner = (d : Int))) r w c.coh)) := by
    intro i hi c hc; rw [sp.other i hi, hc, otherF_some]
  have hbw : ∀ i, d ≠ i → ∀ c', getC s'.copies i = some c' → ∃ c, getC s.copies i = some c ∧
      c' = setCoh c (cohF (decide (s.owner = (d : Int))) r w c.coh) := by
    intro i hi c' hc'
    rw [sp.other i hi] at hc'
    cases hx : getC s.copies i with
    | none => rw [hx, otherF_none] at hc'; exact absurd hc' (by simp)
    | some c =>
      rw [hx, otherF_some] at hc'
      exact ⟨c, rfl, (Option.some.inj hc').symm⟩
  have hA' := oneOwner_step s s' d r w b ret hI.A h
  have hK0 := hI.K0
  cases w with
  | true =>
    have hown : s'.owner = (d : Int) := by simpa using sp.owner
    have hco : t'.coh = .owned := by simpa using hcoh'
    obtain ⟨c0, hc0, _, htop⟩ := h2 rfl
    simp only at hc0 htop
    rw [ht'] at hc0; cases hc0
    refine ⟨hA', by rw [hown]; omega, ?_, ?_, ?_⟩
    · intro o ho
      have : o = d := by omega
      subst this
      exact ⟨t', ht', by rw [hco]; decide⟩
    · intro i c' hi hv
      by_cases hid : d = i
      · subst hid; rw [ht'] at hi; cases hi; exact Or.inl htop
      · have hle := htop i c' hi hv
        by_cases heq : c'.ver = t'.ver
        · left; rw [heq]; exact htop
        · right
          obtain ⟨c, hc, hc'⟩ := hbw i hid c' hi
          refine ⟨?_, d, t', hown, ht', hco, by omega⟩
          subst hc'
          have hvc : c.coh ≠ .invalid := by
            intro hh; apply hv; simp [setCoh, (cohF_invalid _ _ _ _).2 hh]
          by_cases hod : s.owner = (d : Int)
          · have hid' : cohF (decide (s.owner = (d : Int))) r true c.coh = c.coh := by
              simp [hod, cohF]
            simp only [setCoh, hid']
            cases hk : c.coh with
            | invalid => exact absurd hk hvc
            | owned => have := hI.A i c hc hk; omega
            | exclusive =>
              have hinv := hI.X i c hc hk d tgt hid ht
              obtain ⟨co, hco2, hvo⟩ := hI.K d hod
              rw [ht] at hco2; cases hco2; exact absurd hinv hvo
            | shared => rfl
          · have hdec : decide (s.owner = (d : Int)) = false := by simp [hod]
            simp only [setCoh, hdec, cohF_write hvc]
    · intro i c' hi hex j cj' hji hj
      by_cases hid : d = i
      · subst hid; rw [ht'] at hi; cases hi; rw [hco] at hex; exact absurd hex (by decide)
      · obtain ⟨c, hc, hc'⟩ := hbw i hid c' hi
        subst hc'
        simp only [setCoh] at hex
        obtain ⟨hk, hor⟩ := cohF_exclusive hex
        rcases hor with hod | ⟨_, hw⟩
        · have hod' : s.owner = (d : Int) := by simpa using hod
          have hinv := hI.X i c hc hk d tgt hid ht
          obtain ⟨co, hco2, hvo⟩ := hI.K d hod'
          rw [ht] at hco2; cases hco2; exact absurd hinv hvo
        · exact absurd hw (by simp)
  | false =>
    have hown : s'.owner = s.owner := by simpa using sp.owner
    have hcoh : t'.coh = if r = true then Coh.shared else tgt.coh := by simpa using hcoh'
    have hver : t'.ver = syncVer s tgt ret := by simpa using hver'
    -- copies other than the target keep version and validity
    have hbwv : ∀ i, d ≠ i → ∀ c', getC s'.copies i = some c' → c'.coh ≠ .invalid →
        ∃ c, getC s.copies i = some c ∧ c.coh ≠ .invalid ∧ c'.ver = c.ver ∧
          c' = setCoh c (cohF (decide (s.owner = (d : Int))) r false c.coh) := by
      intro i hi c' hc' hv'
      obtain ⟨c, hc, he⟩ := hbw i hi c' hc'
      refine ⟨c, hc, ?_, by rw [he]; rfl, he⟩
      intro hh; apply hv'; rw [he]; simp [setCoh, (cohF_invalid _ _ _ _).2 hh]
    by_cases hret : ret = -1
    · -- no transfer requested
      have hv1 : t'.ver = tgt.ver := by rw [hver, hret, syncVer_neg]
      have hval : r = true → tgt.coh ≠ .invalid := by
        intro hr
        subst hr
        have hiff := transfer_iff_stale_partial s s' d false b ret hI h
        have : UpToDate s.copies d := Classical.byContradiction fun hn => (hiff.2 hn) hret
        obtain ⟨c, hc, hvc, _⟩ := this
        rw [ht] at hc; cases hc; exact hvc
      have htv : t'.coh ≠ .invalid → tgt.coh ≠ .invalid := by
        intro hv'
        cases r with
        | true => exact hval rfl
        | false => simpa [hcoh] using hv'
      have hTop : ∀ v, Top s.copies v → Top s'.copies v := by
        intro v hT j cj' hj hvj
        by_cases hjd : d = j
        · subst hjd; rw [ht'] at hj; cases hj
          rw [hv1]; exact hT d tgt ht (htv hvj)
        · obtain ⟨cj, hcj, hvcj, hveq, _⟩ := hbwv j hjd cj' hj hvj
          rw [hveq]; exact hT j cj hcj hvcj
      refine ⟨hA', by rw [hown]; exact hK0, ?_, ?_, ?_⟩
      · intro o ho
        rw [hown] at ho
        obtain ⟨co, hco, hvo⟩ := hI.K o ho
        by_cases hod : d = o
        · subst hod
          rw [ht] at hco; cases hco
          refine ⟨t', ht', ?_⟩
          rw [hcoh]; cases r <;> simp [hvo]
        · refine ⟨_, hfw o hod co hco, ?_⟩
          simp only [setCoh]
          intro hh; exact hvo ((cohF_invalid _ _ _ _).1 hh)
      · intro i c' hi hv
        -- the corresponding old copy
        have hold : ∃ c, getC s.copies i = some c ∧ c.coh ≠ .invalid ∧ c'.ver = c.ver ∧
            (c.coh = .shared → c'.coh = .shared) := by
          by_cases hid : d = i
          · subst hid; rw [ht'] at hi; cases hi
            refine ⟨tgt, ht, htv hv, hv1, ?_⟩
            intro hs; rw [hcoh]; cases r <;> simp [hs]
          · obtain ⟨c, hc, hvc, hveq, he⟩ := hbwv i hid c' hi hv
            refine ⟨c, hc, hvc, hveq, ?_⟩
            intro hs; rw [he]; simp [setCoh, hs, cohF_shared]
        obtain ⟨c, hc, hvc, hveq, hsh⟩ := hold
        rcases hI.J i c hc hvc with hT | ⟨hs, o, co, ho, hco, hoo, hlt⟩
        · left; rw [hveq]; exact hTop _ hT
        · right
          refine ⟨hsh hs, ?_⟩
          by_cases hod : d = o
          · subst hod
            rw [ht] at hco; cases hco
            cases r with
            | true =>
              have := h1 rfl rfl ho tgt ht hoo i c hc hvc
              omega
            | false =>
              refine ⟨d, t', by rw [hown]; exact ho, ht', ?_, by omega⟩
              simpa [hoo] using hcoh
          · refine ⟨o, _, by rw [hown]; exact ho, hfw o hod co hco, ?_, ?_⟩
            · simp [setCoh, hoo, cohF_nowrite_owned]
            · simp only [setCoh]; omega
      · intro i c' hi hex j cj' hji hj
        by_cases hid : d = i
        · subst hid; rw [ht'] at hi; cases hi
          have hr : r = false := by
            cases r with
            | true => simp [hcoh] at hex
            | false => rfl
          subst hr
          have hte : tgt.coh = .exclusive := by simpa [hcoh] using hex
          obtain ⟨cj, hcj, he⟩ := hbw j (by omega) cj' hj
          have := hI.X d tgt ht hte j cj hji hcj
          rw [he]; simp [setCoh, (cohF_invalid _ _ _ _).2 this]
        · obtain ⟨c, hc, he⟩ := hbw i hid c' hi
          subst he
          simp only [setCoh] at hex
          obtain ⟨hk, _⟩ := cohF_exclusive hex
          by_cases hjd : d = j
          · subst hjd; rw [ht'] at hj; cases hj
            have hti := hI.X i c hc hk d tgt hid ht
            cases r with
            | true => exact absurd hti (hval rfl)
            | false => simpa [hcoh] using hti
          · obtain ⟨cj, hcj, he⟩ := hbw j hjd cj' hj
            have := hI.X i c hc hk j cj hji hcj
            rw [he]; simp [setCoh, (cohF_invalid _ _ _ _).2 this]
    · -- a transfer is requested: the target receives the newest version
      obtain ⟨hr, _⟩ := transfer_only_if_stale s s' d r false b ret h hret
      subst hr
      obtain ⟨k, hk, ck, hck, hvck, hTk⟩ := source_newest_partial s s' d true false b ret hI h hret
      have hod : s.owner ≠ (d : Int) := (startRet_ne (sp.ret ▸ hret)).1
      have hdec : decide (s.owner = (d : Int)) = false := by simp [hod]
      have hv1 : t'.ver = ck.ver := by rw [hver, hk, syncVer_src hck]
      have hcs : t'.coh = .shared := by simpa using hcoh
      have hTop : ∀ v, Top s.copies v → Top s'.copies v := by
        intro v hT j cj' hj hvj
        by_cases hjd : d = j
        · subst hjd; rw [ht'] at hj; cases hj
          rw [hv1]; exact hT k ck hck hvck
        · obtain ⟨cj, hcj, hvcj, hveq, _⟩ := hbwv j hjd cj' hj hvj
          rw [hveq]; exact hT j cj hcj hvcj
      refine ⟨hA', by rw [hown]; exact hK0, ?_, ?_, ?_⟩
      · intro o ho
        rw [hown] at ho
        obtain ⟨co, hco, hvo⟩ := hI.K o ho
        have hne : d ≠ o := by omega
        refine ⟨_, hfw o hne co hco, ?_⟩
        simp only [setCoh]
        intro hh; exact hvo ((cohF_invalid _ _ _ _).1 hh)
      · intro i c' hi hv
        by_cases hid : d = i
        · subst hid; rw [ht'] at hi; cases hi
          left; rw [hv1]; exact hTop _ hTk
        · obtain ⟨c, hc, hvc, hveq, he⟩ := hbwv i hid c' hi hv
          rcases hI.J i c hc hvc with hT | ⟨hs, o, co, ho, hco, hoo, hlt⟩
          · left; rw [hveq]; exact hTop _ hT
          · right
            have hne : d ≠ o := by omega
            refine ⟨by rw [he]; simp [setCoh, hs, cohF_shared], o, _, by rw [hown]; exact ho,
              hfw o hne co hco, ?_, ?_⟩
            · simp [setCoh, hoo, cohF_nowrite_owned]
            · simp only [setCoh]; omega
      · intro i c' hi hex j cj' hji hj
        by_cases hid : d = i
        · subst hid; rw [ht'] at hi; cases hi; rw [hcs] at hex; exact absurd hex (by decide)
        · obtain ⟨c, hc, he⟩ := hbw i hid c' hi
          subst he
          simp only [setCoh, hdec] at hex
          obtain ⟨_, hor⟩ := cohF_exclusive hex
          rcases hor with h3 | ⟨h3, _⟩ <;> exact absurd h3 (by simp)

/-! ## histories -/

/-- the hypotheses H1, H2 at a step that is issued -/
def SafeStep (s : St) (o : Op) : Prop :=
  ∀ s' ret, transfer s o.d o.r o.w o.b = some (s', ret) → OwnerReadOK s o ∧ WriteNewest s' o

def SafeRun : St → List Op → Prop
  | _, [] => True
  | s, o :: t => SafeStep s o ∧ SafeRun (apply s o) t

theorem inv_apply (s : St) (o : Op) (hI : Inv s) (hS : SafeStep s o) : Inv (apply s o) := by
  unfold apply
  split
  · rename_i s' ret h
    obtain ⟨h1, h2⟩ := hS s' ret h
    exact inv_step s s' o.d o.r o.w o.b ret hI h h1 h2
  · exact hI

/-- the invariant holds after every history whose steps satisfy H1 and H2 -/
theorem inv_run (s : St) (hI : Inv s) (ops : List Op) (hS : SafeRun s ops) : Inv (run s ops) := by
  induction ops generalizing s with
  | nil => exact hI
  | cons o t ih => exact ih (apply s o) (inv_apply s o hI hS.1) hS.2

/-- the four parts of the property statement at one issued transfer `s --o--> s'` returning `ret` -/
structure StepOK (s : St) (o : Op) (s' : St) (ret : Int) : Prop where
  oneOwner : OneOwner s' ∧ ∀ i j ci cj, getC s'.copies i = some ci → getC s'.copies j = some cj →
    ci.coh = .owned → cj.coh = .owned → i = j
  iffStale : o.r = true → (ret ≠ -1 ↔ ¬ UpToDate s.copies o.d)
  source : ret ≠ -1 → ∃ k : Nat, ret = (k : Int) ∧ UpToDate s.copies k
  write : o.w = true → s'.owner = (o.d : Int) ∧ ∃ c, getC s'.copies o.d = some c ∧ c.coh = .owned

theorem stepOK_of_inv (s : St) (hI : Inv s) (o : Op) (s' : St) (ret : Int)
    (h : transfer s o.d o.r o.w o.b = some (s', ret)) : StepOK s o s' ret := by
  have hA := oneOwner_step s s' o.d o.r o.w o.b ret hI.A h
  refine ⟨⟨hA, ?_⟩, ?_, source_newest_partial s s' o.d o.r o.w o.b ret hI h, ?_⟩
  · intro i j ci cj hi hj hoi hoj
    have h1 := hA i ci hi hoi
    have h2 := hA j cj hj hoj
    omega
  · intro hr
    rw [hr] at h
    exact transfer_iff_stale_partial s s' o.d o.w o.b ret hI h
  · intro hw
    rw [hw] at h
    exact write_owns s s' o.d o.r o.b ret h

/-- **C26, proved part.**  From any state satisfying the invariant (e.g. `created n`, `fresh n`),
    after any history of complete transfers whose steps satisfy H1 (`OwnerReadOK`) and H2
    (`WriteNewest`), every further transfer that is issued has all four parts of the property. -/
theorem history_partial (s0 : St) (hI : Inv s0) (ops : List Op) (hS : SafeRun s0 ops) (o : Op)
    (s' : St) (ret : Int) (h : transfer (run s0 ops) o.d o.r o.w o.b = some (s', ret)) :
    StepOK (run s0 ops) o s' ret :=
  stepOK_of_inv (run s0 ops) (inv_run s0 hI ops hS) o s' ret h

/-! ## the initial states satisfy the invariant -/

theorem getC_replicate {n i : Nat} {x c : Copy} (h : getC (List.replicate n (some x)) i = some c) :
    c = x := by
  unfold getC at h
  rw [List.getElem?_replicate] at h
  split at h
  · simpa using h.symm
  · simp at h

theorem getC_created {n i : Nat} {c : Copy} (h : getC (created n).copies i = some c) :
    (i = 0 ∧ c = ⟨.owned, 0, 0, 0⟩) ∨ c = ⟨.invalid, 0, 0, 0⟩ := by
  unfold created at h
  cases i with
  | zero => left; rw [getC_cons_zero] at h; exact ⟨rfl, (Option.some.inj h).symm⟩
  | succ j => right; rw [getC_cons_succ] at h; exact getC_replicate h

theorem inv_created (n : Nat) : Inv (created n) := by
  refine ⟨?_, by simp [created], ?_, ?_, ?_⟩
  · intro i c hi hc
    rcases getC_created hi with ⟨h0, _⟩ | h1
    · subst h0; rfl
    · subst h1; exact absurd hc (by decide)
  · intro o ho
    have : o = 0 := by simp [created] at ho; omega
    subst this
    exact ⟨⟨.owned, 0, 0, 0⟩, by simp [created, getC_cons_zero], by decide⟩
  · intro i c hi hv
    left
    intro j cj hj _
    rcases getC_created hi with ⟨_, h0⟩ | h1 <;> rcases getC_created hj with ⟨_, h2⟩ | h3 <;>
      simp_all
  · intro i c hi hc
    rcases getC_created hi with ⟨_, h0⟩ | h1
    · subst h0; exact absurd hc (by decide)
    · subst h1; exact absurd hc (by decide)

theorem inv_fresh (n : Nat) : Inv (fresh n) := by
  have hall : ∀ i c, getC (fresh n).copies i = some c → c = ⟨.invalid, 0, 0, 0⟩ :=
    fun i c h => getC_replicate h
  refine ⟨?_, by simp [fresh], ?_, ?_, ?_⟩
  · intro i c hi hc; rw [hall i c hi] at hc; exact absurd hc (by decide)
  · intro o ho; simp [fresh] at ho
  · intro i c hi hv; rw [hall i c hi] at hv; exact absurd rfl hv
  · intro i c hi hc; rw [hall i c hi] at hc; exact absurd hc (by decide)

/-! ## executable forms of the side conditions (sound and complete), used by the examples and
      the witnesses below -/

theorem all_of_getC {cs : List (Option Copy)} (p : Option Copy → Bool) (hn : p none = true)
    (h : ∀ i c, getC cs i = some c → p (some c) = true) : cs.all p = true := by
  rw [List.all_eq_true]
  intro x hx
  obtain ⟨i, hi, rfl⟩ := List.getElem_of_mem hx
  cases hc : cs[i] with
  | none => exact hn
  | some c =>
    apply h i c
    unfold getC; rw [List.getElem?_eq_getElem hi, hc]; rfl

theorem top_iff (cs : List (Option Copy)) (v : Nat) : cs.all (verLeB v) = true ↔ Top cs v := by
  constructor
  · intro h j cj hj hv
    have := all_getC _ h hj
    simp only [verLeB, Bool.or_eq_true, beq_iff_eq, decide_eq_true_eq] at this
    rcases this with h1 | h1
    · exact absurd h1 hv
    · exact h1
  · intro h
    apply all_of_getC _ rfl
    intro i c hi
    simp only [verLeB, Bool.or_eq_true, beq_iff_eq, decide_eq_true_eq]
    by_cases hv : c.coh = .invalid
    · exact Or.inl hv
    · exact Or.inr (h i c hi hv)

theorem upToDateB_iff (cs : List (Option Copy)) (d : Nat) : upToDateB cs d = true ↔ UpToDate cs d := by
  unfold upToDateB UpToDate
  cases hc : getC cs d with
  | none => simp
  | some c =>
    simp only [Bool.and_eq_true, bne_iff_ne, ne_eq, Option.some.injEq, top_iff]
    constructor
    · intro h; exact ⟨c, rfl, h.1, h.2⟩
    · rintro ⟨c', rfl, h1, h2⟩; exact ⟨h1, h2⟩

def ownerReadOKB (s : St) (o : Op) : Bool := ownerReadOKD s o.d o.r o.w

theorem ownerReadOKB_sound (s : St) (o : Op) (h : ownerReadOKB s o = true) : OwnerReadOK s o := by
  intro hr hw ho tgt ht hown j cj hj hv
  unfold ownerReadOKB ownerReadOKD at h
  simp only [hr, hw, ho, ht, hown, Bool.not_false, Bool.and_self, decide_true, Bool.not_true,
    Bool.false_or, bne_self_eq_false] at h
  have := all_getC _ h hj
  simp only [verEqB, Bool.or_eq_true, beq_iff_eq, decide_eq_true_eq] at this
  rcases this with h1 | h1
  · exact absurd h1 hv
  · exact h1

def safeStepB (s : St) (o : Op) : Bool := safeStepD s o.d o.r o.w o.b

theorem safeStepB_sound (s : St) (o : Op) (h : safeStepB s o = true) : SafeStep s o := by
  intro s' ret ht
  unfold safeStepB safeStepD at h
  rw [ht] at h
  simp only [Bool.and_eq_true, Bool.or_eq_true, Bool.not_eq_true'] at h
  refine ⟨ownerReadOKB_sound s o (by unfold ownerReadOKB; exact h.1), ?_⟩
  intro hw
  rcases h.2 with h2 | h2
  · rw [hw] at h2; exact absurd h2 (by simp)
  · exact (upToDateB_iff _ _).1 h2

def safeRunB : St → List Op → Bool
  | _, [] => true
  | s, o :: t => safeStepB s o && safeRunB (apply s o) t

theorem safeRunB_sound (s : St) (ops : List Op) (h : safeRunB s ops = true) : SafeRun s ops := by
  induction ops generalizing s with
  | nil => trivial
  | cons o t ih =>
    simp only [safeRunB, Bool.and_eq_true] at h
    exact ⟨safeStepB_sound s o h.1, ih _ h.2⟩

/-! ## H2 is what callers do -/

theorem newestStep_ge (m : Nat) (x : Option Copy) : m ≤ newestStep m x := by
  cases x with
  | none => exact Nat.le_refl _
  | some c => simp only [newestStep]; split <;> omega

theorem newest_ge (cs : List (Option Copy)) : Top cs (newest cs) := by
  have gen : ∀ (l : List (Option Copy)) (m : Nat),
      m ≤ l.foldl newestStep m ∧ Top l (l.foldl newestStep m) := by
    intro l
    induction l with
    | nil => intro m; exact ⟨Nat.le_refl _, fun j cj hj => by simp [getC] at hj⟩
    | cons x t ih =>
      intro m
      simp only [List.foldl_cons]
      have h1 := (ih (newestStep m x)).1
      have h0 := newestStep_ge m x
      refine ⟨by omega, ?_⟩
      intro j cj hj hv
      cases j with
      | zero =>
        rw [getC_cons_zero] at hj
        subst hj
        simp only [newestStep, hv, if_false] at h1 ⊢
        omega
      | succ j =>
        rw [getC_cons_succ] at hj
        exact (ih _).2 j cj hj hv
  exact (gen cs 0).2

/-- a caller that gives the written copy `newest valid version + 1` (bump kind ≥ 2, the accelerator
    stage-in) always satisfies H2 -/
theorem bump2_write_newest (s s' : St) (d : Nat) (r : Bool) (b : Nat) (ret : Int) (hb : 2 ≤ b)
    (h : transfer s d r true b = some (s', ret)) : WriteNewest s' ⟨d, r, true, b⟩ := by
  intro _
  obtain ⟨tgt, ht⟩ := transfer_target h
  have sp := transfer_spec ht h
  obtain ⟨t', ht', hcoh', hver'⟩ := sp.target
  have hv : t'.ver = newest s.copies + 1 := by
    have h0 : b ≠ 0 := by omega
    have h1 : b ≠ 1 := by omega
    simpa [bumpVer, h0, h1, setVer] using hver'
  refine ⟨t', ht', by simp at hcoh'; rw [hcoh']; decide, ?_⟩
  intro j cj' hj hvj
  by_cases hjd : d = j
  · subst hjd
    show cj'.ver ≤ t'.ver
    rw [ht'] at hj; cases hj; exact Nat.le_refl _
  · show cj'.ver ≤ t'.ver
    rw [sp.other j hjd] at hj
    cases hx : getC s.copies j with
    | none => rw [hx, otherF_none] at hj; exact absurd hj (by simp)
    | some c =>
      rw [hx, otherF_some] at hj
      have he := (Option.some.inj hj).symm
      subst he
      have hvc : c.coh ≠ .invalid := by
        intro hh; apply hvj; simp [setCoh, (cohF_invalid _ _ _ _).2 hh]
      have := newest_ge s.copies j c hx hvc
      simp only [setCoh]
      omega

/-- generated PTG code and DTD: `version++` after a READ-WRITE access satisfies H2 whenever the
    invariant holds before the call -/
theorem rw_bump1_write_newest (s s' : St) (d : Nat) (ret : Int) (hI : Inv s)
    (h : transfer s d true true 1 = some (s', ret)) : WriteNewest s' ⟨d, true, true, 1⟩ := by
  intro _
  obtain ⟨tgt, ht⟩ := transfer_target h
  have sp := transfer_spec ht h
  obtain ⟨t', ht', hcoh', hver'⟩ := sp.target
  have hv : t'.ver = syncVer s tgt ret + 1 := by simpa [bumpVer, setVer] using hver'
  have hT : Top s.copies (syncVer s tgt ret) := by
    by_cases hret : ret = -1
    · have hiff := transfer_iff_stale_partial s s' d true 1 ret hI h
      have hu : UpToDate s.copies d := Classical.byContradiction fun hn => (hiff.2 hn) hret
      obtain ⟨c, hc, _, htop⟩ := hu
      rw [ht] at hc; cases hc
      rw [hret, syncVer_neg]; exact htop
    · obtain ⟨k, hk, ck, hck, _, hTk⟩ := source_newest_partial s s' d true true 1 ret hI h hret
      rw [hk, syncVer_src hck]; exact hTk
  refine ⟨t', ht', by simp at hcoh'; rw [hcoh']; decide, ?_⟩
  intro j cj' hj hvj
  by_cases hjd : d = j
  · subst hjd
    show cj'.ver ≤ t'.ver
    rw [ht'] at hj; cases hj; exact Nat.le_refl _
  · show cj'.ver ≤ t'.ver
    rw [sp.other j hjd] at hj
    cases hx : getC s.copies j with
    | none => rw [hx, otherF_none] at hj; exact absurd hj (by simp)
    | some c =>
      rw [hx, otherF_some] at hj
      have he := (Option.some.inj hj).symm
      subst he
      have hvc : c.coh ≠ .invalid := by
        intro hh; apply hvj; simp [setCoh, (cohF_invalid _ _ _ _).2 hh]
      have := hT j c hx hvc
      simp only [setCoh]
      omega

/-! ## (c) needs only the caller's obligation H2 -/

/-- weaker invariant kept by EVERY history that satisfies H2 (H1 not needed): the owner's copy is
    valid and newest; without an owner all valid copies carry the same version -/
structure Inv2 (s : St) : Prop where
  A : OneOwner s
  K0 : -1 ≤ s.owner
  N : ∀ o : Nat, s.owner = (o : Int) → UpToDate s.copies o
  U : s.owner = -1 → ∀ i j ci cj, getC s.copies i = some ci → getC s.copies j = some cj →
    ci.coh ≠ .invalid → cj.coh ≠ .invalid → ci.ver = cj.ver

theorem inv2_of_inv {s : St} (h : Inv s) : Inv2 s := by
  refine ⟨h.A, h.K0, ?_, ?_⟩
  · intro o ho
    obtain ⟨co, hco, hvo⟩ := h.K o ho
    refine ⟨co, hco, hvo, ?_⟩
    rcases h.J o co hco hvo with h1 | ⟨_, o', co', ho', hco', _, hlt⟩
    · exact h1
    · have : o' = o := by omega
      subst this
      rw [hco] at hco'; cases hco'; omega
  · intro ho i j ci cj hi hj hvi hvj
    have hi' : Top s.copies ci.ver := by
      rcases h.J i ci hi hvi with h1 | ⟨_, o', _, ho', _⟩
      · exact h1
      · omega
    have hj' : Top s.copies cj.ver := by
      rcases h.J j cj hj hvj with h1 | ⟨_, o', _, ho', _⟩
      · exact h1
      · omega
    have := hi' j cj hj hvj
    have := hj' i ci hi hvi
    omega

/-- **(c)** the device named as transfer source holds a valid copy with the newest version -/
theorem source_newest (s s' : St) (d : Nat) (r w : Bool) (b : Nat) (ret : Int) (hI : Inv2 s)
    (h : transfer s d r w b = some (s', ret)) (hr : ret ≠ -1) :
    ∃ k : Nat, ret = (k : Int) ∧ UpToDate s.copies k := by
  obtain ⟨tgt, ht⟩ := transfer_target h
  have sp := transfer_spec ht h
  have hne := sp.ret ▸ hr
  obtain ⟨hod, hr1, htr, hret⟩ := startRet_ne hne
  have hsrc := sp.srcOk hod (by simp [hr1, htr])
  rw [sp.ret, hret]
  unfold switchValid at hsrc ⊢
  by_cases hcase : tgt.coh = .invalid ∧ s.owner = -1
  · rw [if_pos hcase] at hsrc ⊢
    rcases lastValid_spec s.copies 0 (-1) with h1 | ⟨j, c, h1, h2, h3⟩
    · exact absurd h1 hsrc
    · refine ⟨j, by rw [h1]; simp, c, h2, h3, ?_⟩
      intro j' cj' hj' hv'
      have := hI.U hcase.2 j j' c cj' h2 hj' h3 hv'
      omega
  · rw [if_neg hcase] at hsrc ⊢
    have h0 := hI.K0
    have : ∃ o : Nat, s.owner = (o : Int) := ⟨s.owner.toNat, by omega⟩
    obtain ⟨o, ho⟩ := this
    exact ⟨o, ho, hI.N o ho⟩

theorem noreq_valid {s s' : St} {d : Nat} {r w : Bool} {b : Nat} {ret : Int} {tgt : Copy}
    (sp : TransferSpec s s' d r w b ret tgt) (hod : s.owner ≠ (d : Int)) (hret : ret = -1)
    (hr : r = true) : tgt.coh ≠ .invalid := by
  have hr0 : startRet s d tgt r = -1 := by rw [← sp.ret]; exact hret
  unfold startRet at hr0
  rw [if_neg hod] at hr0
  subst hr
  have htr : switchTreq s.copies tgt = false := by
    cases htr : switchTreq s.copies tgt with
    | false => rfl
    | true =>
      have := sp.srcOk hod (by simp [htr])
      simp only [htr, Bool.and_self, if_true] at hr0
      exact absurd hr0 this
  intro hc
  unfold switchTreq at htr
  rw [hc] at htr
  simp at htr

theorem inv2_step (s s' : St) (d : Nat) (r w : Bool) (b : Nat) (ret : Int) (hI : Inv2 s)
    (h : transfer s d r w b = some (s', ret)) (h2 : WriteNewest s' ⟨d, r, w, b⟩) : Inv2 s' := by
  obtain ⟨tgt, ht⟩ := transfer_target h
  have sp := transfer_spec ht h
  obtain ⟨t', ht', hcoh', hver'⟩ := sp.target
  have hfw : ∀ i, d ≠ i → ∀ c, getC s.copies i = some c →
      getC s'.copies i = some (setCoh c (cohF (decide (s.owner = (d : Int))) r w c.coh)) := by
    intro i hi c hc; rw [sp.other i hi, hc, otherF_some]
  have hbw : ∀ i, d ≠ i → ∀ c', getC s'.copies i = some c' → c'.coh ≠ .invalid →
      ∃ c, getC s.copies i = some c ∧ c.coh ≠ .invalid ∧ c'.ver = c.ver := by
    intro i hi c' hc' hv'
    rw [sp.other i hi] at hc'
    cases hx : getC s.copies i with
    | none => rw [hx, otherF_none] at hc'; exact absurd hc' (by simp)
    | some c =>
      rw [hx, otherF_some] at hc'
      have he := (Option.some.inj hc').symm
      refine ⟨c, rfl, ?_, by rw [he]; rfl⟩
      intro hh; apply hv'; rw [he]; simp [setCoh, (cohF_invalid _ _ _ _).2 hh]
  have hA' := oneOwner_step s s' d r w b ret hI.A h
  have hK0 := hI.K0
  cases w with
  | true =>
    have hown : s'.owner = (d : Int) := by simpa using sp.owner
    refine ⟨hA', by rw [hown]; omega, ?_, ?_⟩
    · intro o ho
      have : o = d := by omega
      subst this
      exact h2 rfl
    · intro ho; rw [hown] at ho; omega
  | false =>
    have hown : s'.owner = s.owner := by simpa using sp.owner
    have hcoh : t'.coh = if r = true then Coh.shared else tgt.coh := by simpa using hcoh'
    have hver : t'.ver = syncVer s tgt ret := by simpa using hver'
    -- the version of the (valid) target after the step is the version of a copy valid before it
    have htv : t'.coh ≠ .invalid → (∀ o : Nat, s.owner = (o : Int) → o ≠ d) →
        ∃ k ck, getC s.copies k = some ck ∧ ck.coh ≠ .invalid ∧ t'.ver = ck.ver := by
      intro hv' hno
      have hod : s.owner ≠ (d : Int) := fun hh => hno d hh rfl
      by_cases hret : ret = -1
      · refine ⟨d, tgt, ht, ?_, by rw [hver, hret, syncVer_neg]⟩
        cases r with
        | true => exact noreq_valid sp hod hret rfl
        | false => simpa [hcoh] using hv'
      · obtain ⟨k, hk, ck, hck, hvck, _⟩ := source_newest s s' d r false b ret hI h hret
        exact ⟨k, ck, hck, hvck, by rw [hver, hk, syncVer_src hck]⟩
    refine ⟨hA', by rw [hown]; exact hK0, ?_, ?_⟩
    · intro o ho
      rw [hown] at ho
      obtain ⟨co, hco, hvo, hTo⟩ := hI.N o ho
      by_cases hod : d = o
      · subst hod
        rw [ht] at hco; cases hco
        have hret : ret = -1 := by rw [sp.ret]; simp [startRet, ho]
        have hv1 : t'.ver = tgt.ver := by rw [hver, hret, syncVer_neg]
        refine ⟨t', ht', by rw [hcoh]; cases r <;> simp [hvo], ?_⟩
        intro j cj' hj hvj
        by_cases hjd : d = j
        · subst hjd; rw [ht'] at hj; cases hj; exact Nat.le_refl _
        · obtain ⟨cj, hcj, hvcj, hveq⟩ := hbw j hjd cj' hj hvj
          rw [hveq, hv1]; exact hTo j cj hcj hvcj
      · refine ⟨_, hfw o hod co hco, ?_, ?_⟩
        · simp only [setCoh]
          intro hh; exact hvo ((cohF_invalid _ _ _ _).1 hh)
        · intro j cj' hj hvj
          show cj'.ver ≤ co.ver
          by_cases hjd : d = j
          · subst hjd; rw [ht'] at hj; cases hj
            obtain ⟨k, ck, hck, hvck, hveq⟩ := htv hvj (fun o' ho' => by omega)
            rw [hveq]; exact hTo k ck hck hvck
          · obtain ⟨cj, hcj, hvcj, hveq⟩ := hbw j hjd cj' hj hvj
            rw [hveq]; exact hTo j cj hcj hvcj
    · intro ho
      rw [hown] at ho
      have hno : ∀ o : Nat, s.owner = (o : Int) → o ≠ d := fun o' ho' => by omega
      -- every valid copy after the step has the version of a copy valid before it
      have hold : ∀ i ci', getC s'.copies i = some ci' → ci'.coh ≠ .invalid →
          ∃ k ck, getC s.copies k = some ck ∧ ck.coh ≠ .invalid ∧ ci'.ver = ck.ver := by
        intro i ci' hi hvi
        by_cases hid : d = i
        · subst hid; rw [ht'] at hi; cases hi; exact htv hvi hno
        · obtain ⟨c, hc, hvc, hveq⟩ := hbw i hid ci' hi hvi
          exact ⟨i, c, hc, hvc, hveq⟩
      intro i j ci cj hi hj hvi hvj
      obtain ⟨k1, c1, hc1, hv1, e1⟩ := hold i ci hi hvi
      obtain ⟨k2, c2, hc2, hv2, e2⟩ := hold j cj hj hvj
      rw [e1, e2]
      exact hI.U ho k1 k2 c1 c2 hc1 hc2 hv1 hv2


/-- H2 alone: the caller numbers written copies correctly -/
def CallerStep (s : St) (o : Op) : Prop :=
  ∀ s' ret, transfer s o.d o.r o.w o.b = some (s', ret) → WriteNewest s' o

def CallerRun : St → List Op → Prop
  | _, [] => True
  | s, o :: t => CallerStep s o ∧ CallerRun (apply s o) t

theorem inv2_run (s : St) (hI : Inv2 s) (ops : List Op) (hS : CallerRun s ops) : Inv2 (run s ops) := by
  induction ops generalizing s with
  | nil => exact hI
  | cons o t ih =>
    refine ih (apply s o) ?_ hS.2
    unfold apply
    split
    · rename_i s' ret h
      exact inv2_step s s' o.d o.r o.w o.b ret hI h (hS.1 s' ret h)
    · exact hI

/-- **C26 without H1.**  After any history of complete transfers that satisfies only the caller's
    obligation H2, every further issued transfer still has: one owner (a), a source only when the
    target is stale (b ⇒), a source holding the newest version (c), the writer as owner (d).
    What is lost without H1 is exactly (b ⇐) — see `full_false`. -/
theorem history_caller (s0 : St) (hI : Inv2 s0) (ops : List Op) (hS : CallerRun s0 ops) (o : Op)
    (s' : St) (ret : Int) (h : transfer (run s0 ops) o.d o.r o.w o.b = some (s', ret)) :
    OneOwner s' ∧
    (ret ≠ -1 → o.r = true ∧ ¬ UpToDate (run s0 ops).copies o.d) ∧
    (ret ≠ -1 → ∃ k : Nat, ret = (k : Int) ∧ UpToDate (run s0 ops).copies k) ∧
    (o.w = true → s'.owner = (o.d : Int) ∧ ∃ c, getC s'.copies o.d = some c ∧ c.coh = .owned) := by
  have hI2 := inv2_run s0 hI ops hS
  refine ⟨oneOwner_step _ s' o.d o.r o.w o.b ret hI2.A h,
    transfer_only_if_stale _ s' o.d o.r o.w o.b ret h,
    source_newest _ s' o.d o.r o.w o.b ret hI2 h, ?_⟩
  intro hw
  rw [hw] at h
  exact write_owns _ s' o.d o.r o.b ret h

/-! ## the full statement is false of the code (finding) -/

/-- C26 as stated: from a data item created on device 0 (`parsec_data_create`) with `n` further
    INVALID device copies, after ANY history of complete transfers respecting the functions' asserts
    and the caller's obligation H2, every issued transfer has the four parts of the property. -/
def Full : Prop :=
  ∀ (n : Nat) (ops : List Op) (o : Op) (s' : St) (ret : Int), CallerRun (created n) ops →
    transfer (run (created n) ops) o.d o.r o.w o.b = some (s', ret) →
    StepOK (run (created n) ops) o s' ret

/-- witness: device 1 overwrites the data (WRITE, `version++`), reads it back (READ), then device 0
    reads (READ) -/
def witnessOps : List Op := [⟨1, false, true, 1⟩, ⟨1, true, false, 0⟩]
def witnessLast : Op := ⟨0, true, false, 0⟩

theorem witness_state : run (created 1) witnessOps =
    ⟨1, [some ⟨.shared, 0, 0, 0⟩, some ⟨.shared, 1, 1, 0⟩]⟩ := by decide

theorem witness_last : transfer (run (created 1) witnessOps) 0 true false 0 =
    some (⟨1, [some ⟨.shared, 0, 1, 0⟩, some ⟨.shared, 1, 1, 0⟩]⟩, -1) := by decide

theorem witness_caller : CallerRun (created 1) witnessOps := by
  refine ⟨?_, ?_, trivial⟩
  · intro s' ret h _
    have h1 : transfer (created 1) 1 false true 1 =
        some (⟨1, [some ⟨.shared, 0, 0, 0⟩, some ⟨.owned, 1, 0, 0⟩]⟩, -1) := by decide
    have h2 : s' = ⟨1, [some ⟨.shared, 0, 0, 0⟩, some ⟨.owned, 1, 0, 0⟩]⟩ := by
      have := h.symm.trans h1
      simp only [Option.some.injEq, Prod.mk.injEq] at this
      exact this.1
    subst h2
    exact (upToDateB_iff _ _).1 (by decide)
  · intro s' ret _ hw
    exact absurd hw (by decide)

/-- **Finding.**  The full statement fails: all asserts hold, versions are numbered correctly, yet
    the last transfer requests no source (`ret = -1`) although device 0 holds version 0 (SHARED)
    and device 1 holds version 1. -/
theorem full_false : ¬ Full := by
  intro hF
  have hs := hF 1 witnessOps witnessLast _ _ witness_caller witness_last
  have h1 := (hs.iffStale rfl).2
  have hstale : ¬ UpToDate (run (created 1) witnessOps).copies witnessLast.d := by
    rw [witness_state]
    intro hu
    have := (upToDateB_iff _ _).2 hu
    exact absurd this (by decide)
  exact h1 hstale rfl

/-! ## non-vacuity: the hypotheses of every theorem above are satisfiable on non-trivial states -/

/-- three devices; device 1 read-writes with `version++`, device 2 reads, device 0 reads again:
    a Safe history through transfers in both directions -/
def sampleOps : List Op := [⟨1, true, true, 1⟩, ⟨2, true, false, 0⟩, ⟨0, true, false, 0⟩]

example : SafeRun (created 2) sampleOps := safeRunB_sound _ _ (by decide)
example : run (created 2) sampleOps =
    ⟨1, [some ⟨.shared, 1, 1, 0⟩, some ⟨.owned, 1, 1, 0⟩, some ⟨.shared, 1, 1, 0⟩]⟩ := by decide
-- write_owns / one_owner / at_most_one_owned: an issued write transfer on a state with an owner
example : transfer (created 2) 1 true true 1 =
    some (⟨1, [some ⟨.shared, 0, 0, 0⟩, some ⟨.owned, 1, 1, 0⟩, some ⟨.invalid, 0, 0, 0⟩]⟩, 0) := by decide
example : OneOwner (created 2) := (inv_created 2).A
-- transfer_only_if_stale / source_newest_partial / transfer_iff_stale_partial: a transfer is requested
example : (transfer (run (created 2) [⟨1, true, true, 1⟩]) 0 true false 0).map (·.2) = some 1 := by
  decide
-- … and one is not requested although the READ bit is set (target up to date)
example : (transfer (run (created 2) sampleOps) 2 true false 0).map (·.2) = some (-1) := by decide
-- inv_step / history_partial / rw_bump1_write_newest: invariant states other than the initial ones
example : Inv (run (created 2) sampleOps) :=
  inv_run _ (inv_created 2) _ (safeRunB_sound _ _ (by decide))
example : Inv (run (fresh 3) [⟨2, false, true, 2⟩, ⟨0, true, false, 0⟩]) :=
  inv_run _ (inv_fresh 3) _ (safeRunB_sound _ _ (by decide))
-- bump2_write_newest: write-only access to a stale INVALID copy with the accelerator-style bump
example : (transfer (run (created 2) [⟨0, true, true, 1⟩, ⟨0, true, true, 1⟩]) 2 false true 2).map
    (fun p => getC p.1.copies 2) = some (some ⟨.owned, 3, 0, 0⟩) := by decide
-- inv2_step / history_caller / source_newest: an H2 history that violates H1 (the witness) keeps Inv2
example : Inv2 (run (created 1) (witnessOps ++ [witnessLast])) :=
  inv2_run _ (inv2_of_inv (inv_created 1)) _ (by
    refine ⟨witness_caller.1, witness_caller.2.1, ?_, trivial⟩
    intro s' ret _ hw; exact absurd hw (by decide))
-- H1 is what the witness history violates; H2 it satisfies
example : safeRunB (created 1) (witnessOps ++ [witnessLast]) = false := by decide
-- a call outside the precondition is not issued: READ of a data item nobody holds
example : transfer (fresh 2) 0 true false 0 = none := by decide

end ParsecVerif.C26
