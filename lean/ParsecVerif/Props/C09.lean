import ParsecVerif.Proofs.Sched.Prio
/-!
# C09 — priority schedulers honour task priorities

Models: `ParsecVerif.Sched` (`Model/Sched/Basic.lean`: `chain_sorted` of parsec/class/list.h with its
`pos` cursor; `Model/Sched/Prio.lean`: the ap, ip and spq modules, one step = one module call).
Quantification: EVERY finite history of `schedule(ring, distance)` / `select` calls (`List Op`),
any ring contents and order, any priorities (`Int`), any distances (`Int`), no concurrent activity.

`Task.seq` is the ghost arrival stamp: `stamp_seq` / `*_next` below show that the k-th task ever handed
to `schedule` (ring order inside one call) carries `seq = k`.  "Earliest scheduled among equals" is
"smallest `seq`".
-/
namespace ParsecVerif.C09
open ParsecVerif.Sched

/-! ### meaning of the ghost stamp -/

/-- number of tasks handed to `schedule` by a history -/
def schedCount : List Op → Nat
  | [] => 0
  | .sched r _ :: ops => r.length + schedCount ops
  | .sel :: ops => schedCount ops

theorem stamp_seq : ∀ (ring : List Task) (n i : Nat) (t : Task), (stamp n ring)[i]? = some t →
    t.seq = n + i ∧ ∃ t0, ring[i]? = some t0 ∧ t.id = t0.id ∧ t.prio = t0.prio
  | [], _, _, _, h => by simp [stamp] at h
  | r :: rs, n, 0, t, h => by
    simp only [stamp, List.getElem?_cons_zero, Option.some.injEq] at h
    subst h; exact ⟨rfl, r, by simp⟩
  | r :: rs, n, i + 1, t, h => by
    simp only [stamp, List.getElem?_cons_succ] at h
    have := stamp_seq rs (n + 1) i t h
    refine ⟨by omega, ?_⟩
    simpa using this.2

theorem ap_next_from : ∀ (ops : List Op) (s : LSt), (ops.foldl apStep s).next = s.next + schedCount ops
  | [], _ => by simp [schedCount]
  | .sched r d :: ops, s => by
    simp only [List.foldl_cons, apStep, schedCount]; rw [ap_next_from ops]; simp [apSchedule]; omega
  | .sel :: ops, s => by
    simp only [List.foldl_cons, apStep, schedCount]; rw [ap_next_from ops]
    unfold apSelect; cases s.list <;> rfl

/-- the arrival counter of ap equals the number of tasks scheduled so far -/
theorem ap_next (ops : List Op) : (apRun ops).next = schedCount ops := by
  simpa [apRun, LSt.init] using ap_next_from ops LSt.init

theorem ip_next_from : ∀ (ops : List Op) (s : LSt), (ops.foldl ipStep s).next = s.next + schedCount ops
  | [], _ => by simp [schedCount]
  | .sched r d :: ops, s => by
    simp only [List.foldl_cons, ipStep, schedCount]; rw [ip_next_from ops]
    unfold ipSchedule; split <;> simp <;> omega
  | .sel :: ops, s => by
    simp only [List.foldl_cons, ipStep, schedCount]; rw [ip_next_from ops]
    unfold ipSelect; cases s.list.getLast? <;> rfl

theorem ip_next (ops : List Op) : (ipRun ops).next = schedCount ops := by
  simpa [ipRun, LSt.init] using ip_next_from ops LSt.init

theorem spq_next_from : ∀ (ops : List Op) (s : SpqSt), (ops.foldl spqStep s).next = s.next + schedCount ops
  | [], _ => by simp [schedCount]
  | .sched r d :: ops, s => by
    simp only [List.foldl_cons, spqStep, schedCount]; rw [spq_next_from ops]; simp [spqSchedule]; omega
  | .sel :: ops, s => by
    simp only [List.foldl_cons, spqStep, schedCount]; rw [spq_next_from ops]; rfl

theorem spq_next (ops : List Op) : (spqRun ops).next = schedCount ops := by
  simpa [spqRun, SpqSt.init] using spq_next_from ops SpqSt.init

/-! ### ap -/

/-- ap `schedule` adds exactly the (stamped) ring to the pending list, whatever the distance -/
theorem ap_schedule_pending (s : LSt) (ring : List Task) (d : Int) :
    (apSchedule s ring d).list.Perm (stamp s.next ring ++ s.list) :=
  chainSorted_perm _ _

/-- **ap returns a maximum-priority pending task, the earliest scheduled among equals.**
    After any history, if `select` returns `t` then `t` was the head of the pending list, the
    reported distance is 0, and every task that stays pending has a strictly lower priority, or
    the same priority and a later arrival. -/
theorem C09_ap (ops : List Op) (t : Task) (d : Int) (h : (apSelect (apRun ops)).2 = some (t, d)) :
    d = 0 ∧ (apRun ops).list = t :: (apSelect (apRun ops)).1.list ∧
    ∀ u ∈ (apSelect (apRun ops)).1.list, u.prio < t.prio ∨ (u.prio = t.prio ∧ t.seq < u.seq) := by
  have hinv := (apRun_inv ops).1
  generalize apRun ops = s at *
  unfold apSelect at h ⊢
  cases hl : s.list with
  | nil => simp [hl] at h
  | cons x xs =>
    simp only [hl, Option.some.injEq, Prod.mk.injEq] at h ⊢
    obtain ⟨rfl, rfl⟩ := h
    rw [hl] at hinv
    refine ⟨rfl, rfl, fun u hu => ?_⟩
    have := (List.pairwise_cons.1 hinv).1 u hu
    unfold Before at this; omega

/-- ap `select` fails only when nothing is pending -/
theorem C09_ap_none (s : LSt) : (apSelect s).2 = none ↔ s.list = [] := by
  unfold apSelect; cases s.list <;> simp

/-! ### spq -/

/-- spq `schedule` adds exactly the ring, at the requested distance, to the pending bag -/
theorem spq_schedule_pending (s : SpqSt) (ring : List Task) (d : Int) :
    (pendD (spqSchedule s ring d).pls).Perm ((stamp s.next ring).map (fun t => (t, d)) ++ pendD s.pls) :=
  pendD_spqInsert d _ _

/-- **spq returns from the smallest pending distance, maximum priority within it, earliest among
    equals.**  `pendD` lists the pending tasks with the distance they were scheduled at. -/
theorem C09_spq (ops : List Op) (t : Task) (d : Int) (h : (spqSelect (spqRun ops)).2 = some (t, d)) :
    pendD (spqRun ops).pls = (t, d) :: pendD (spqSelect (spqRun ops)).1.pls ∧
    ∀ u du, (u, du) ∈ pendD (spqSelect (spqRun ops)).1.pls →
      d < du ∨ (d = du ∧ (u.prio < t.prio ∨ (u.prio = t.prio ∧ t.seq < u.seq))) := by
  have hinv := spqRun_inv ops
  generalize spqRun ops = s at *
  have := spqPop_spec s.pls t d h hinv.1 (fun q hq => (hinv.2 q hq).1)
  refine ⟨this.1, fun u du hu => ?_⟩
  rcases this.2 u du hu with h1 | ⟨h1, h2⟩
  · exact Or.inl h1
  · unfold Before at h2; exact Or.inr ⟨h1, by omega⟩

/-- spq `select` fails only when nothing is pending -/
theorem C09_spq_none (s : SpqSt) (h : (spqSelect s).2 = none) : pendD s.pls = [] :=
  (spqPopRes_none s.pls h).1

/-! ### ip -/

theorem ip_schedule_pending (s : LSt) (ring : List Task) (d : Int) :
    (ipSchedule s ring d).list.Perm (stamp s.next ring ++ s.list) := by
  unfold ipSchedule
  split
  · exact chainSorted_perm _ _
  · exact List.perm_append_comm

/-- **ip, restricted to histories whose `schedule` calls all used distance 0, returns a
    minimum-priority pending task** (the latest scheduled among equals). -/
theorem C09_ip_partial (ops : List Op) (h0 : AllD0 ops) (t : Task) (d : Int)
    (h : (ipSelect (ipRun ops)).2 = some (t, d)) :
    d = 0 ∧ (ipRun ops).list = (ipSelect (ipRun ops)).1.list ++ [t] ∧
    ∀ u ∈ (ipSelect (ipRun ops)).1.list, t.prio < u.prio ∨ (t.prio = u.prio ∧ u.seq < t.seq) := by
  have hinv := (ipRun_inv ops h0).1
  generalize ipRun ops = s at *
  unfold ipSelect at h ⊢
  cases hl : s.list.getLast? with
  | none => simp [hl] at h
  | some x =>
    simp only [hl, Option.some.injEq, Prod.mk.injEq] at h ⊢
    obtain ⟨rfl, rfl⟩ := h
    have hsplit : s.list = s.list.dropLast ++ [x] := by
      have hne : s.list ≠ [] := by intro hn; simp [hn] at hl
      have h2 := List.dropLast_concat_getLast hne
      rw [List.getLast?_eq_some_getLast hne] at hl
      simp only [Option.some.injEq] at hl
      rw [hl] at h2; exact h2.symm
    refine ⟨rfl, hsplit, fun u hu => ?_⟩
    unfold Sorted at hinv
    rw [hsplit, List.pairwise_append] at hinv
    have := hinv.2.2 u hu x (List.mem_singleton.2 rfl)
    unfold Before at this; omega

/-- The unrestricted statement for ip: whatever distances were used, `select` returns a
    minimum-priority pending task. -/
def C09_ip_full : Prop :=
  ∀ (ops : List Op) (t : Task) (d : Int), (ipSelect (ipRun ops)).2 = some (t, d) →
    ∀ u ∈ (ipRun ops).list, t.prio ≤ u.prio

/-- the witness of DESIGN 5.4: schedule(5, d=0); schedule(7, d=0); schedule(9, d=1) -/
def ipWitness : List Op :=
  [.sched [⟨1, 5, 0, 0⟩] 0, .sched [⟨2, 7, 0, 0⟩] 0, .sched [⟨3, 9, 0, 0⟩] 1]

/-- **The unrestricted ip statement is false of the code as modelled**: after the witness, `select`
    returns the priority-9 task while the priority-5 task is pending (`chain_back` for distance ≠ 0
    puts the ring at the end `pop_back` takes from).  Replayed on the real module by
    corpus/C09/001-ip-distance.case. -/
theorem C09_ip_full_false : ¬ C09_ip_full := by
  intro hfull
  have h := hfull ipWitness ⟨3, 9, 2, 0⟩ 0 (by decide) ⟨1, 5, 0, 0⟩ (by decide)
  exact absurd h (by decide)

/-- on the witness the three selects return 9, 5, 7 -/
example :
    let s0 := ipRun ipWitness
    let r1 := ipSelect s0
    let r2 := ipSelect r1.1
    let r3 := ipSelect r2.1
    (r1.2, r2.2, r3.2) = (some (⟨3, 9, 2, 0⟩, 0), some (⟨1, 5, 0, 0⟩, 0), some (⟨2, 7, 1, 0⟩, 0)) := by decide

/-! ### non-vacuity: the hypotheses are satisfiable on non-trivial states -/

def demo : List Op :=
  [.sched [⟨1, 5, 0, 0⟩, ⟨2, 7, 0, 0⟩, ⟨3, 5, 0, 0⟩] 1, .sched [⟨4, 7, 0, 0⟩, ⟨5, 9, 0, 0⟩] 0, .sel, .sched [⟨6, 7, 0, 0⟩] 2]

/-- ap: after `demo` the head is task 2 (priority 7, arrival 1), ahead of tasks 4 and 6 (priority 7,
    later arrivals) and of the priority-5 tasks -/
example : (apSelect (apRun demo)).2 = some (⟨2, 7, 1, 0⟩, 0) ∧
    (apRun demo).list.map (·.id) = [2, 4, 6, 1, 3] := by decide

/-- spq: after `demo` distance 0 holds task 4 only (5 was selected); it wins although distance 1 holds
    an equal priority that arrived earlier -/
example : (spqSelect (spqRun demo)).2 = some (⟨4, 7, 3, 0⟩, 0) ∧
    (pendD (spqRun demo).pls).map (fun p => (p.1.id, p.2)) = [(4, 0), (2, 1), (1, 1), (3, 1), (6, 2)] := by decide

def demo0 : List Op :=
  [.sched [⟨1, 5, 0, 0⟩, ⟨2, 7, 0, 0⟩, ⟨3, 5, 0, 0⟩] 0, .sched [⟨4, 7, 0, 0⟩, ⟨5, 3, 0, 0⟩] 0, .sel, .sched [⟨6, 5, 0, 0⟩] 0]

/-- ip with distance 0 only: lowest priority, latest arrival among equals -/
example : AllD0 demo0 ∧ (ipSelect (ipRun demo0)).2 = some (⟨6, 5, 5, 0⟩, 0) ∧
    (ipRun demo0).list.map (·.id) = [2, 4, 1, 3, 6] := by
  refine ⟨?_, by decide, by decide⟩
  intro op hop
  simp only [demo0, List.mem_cons, List.not_mem_nil, or_false] at hop
  rcases hop with rfl | rfl | rfl | rfl <;> simp

/-- `chain_sorted` on a list that is NOT sorted (ip after a distance ≠ 0 call): the `pos` cursor
    matters — the ring [6,4] is inserted after the trailing 9, not before the 5 -/
example : (chainSorted [⟨1, 7, 0, 0⟩, ⟨2, 5, 0, 0⟩, ⟨3, 9, 0, 0⟩] [⟨4, 6, 0, 0⟩, ⟨5, 4, 0, 0⟩]).map (·.id) = [1, 2, 3, 4, 5] := by decide

end ParsecVerif.C09
