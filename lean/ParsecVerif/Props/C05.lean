import ParsecVerif.Proofs.DistRtLive
import ParsecVerif.Proofs.DistRtTerm
import ParsecVerif.Props.Runtime
import ParsecVerif.Model.PtgDist
/-!
# C05 — distributed PTG results do not depend on process count or message path

Model: `ParsecVerif.DistRt` (Model/DistRt.lean): the generic dataflow machine of `Props/Runtime.lean` run on
`nranks` processes.  Nodes are partitioned by an arbitrary placement function; a node reads its inputs from
the copies held by its own rank; dependencies between ranks travel through C13's collective-activation
machine (`RemoteDep.Cfg` built per completed node by `cfgOf`: star / chain / binomial) with a value-preserving
transport that is eager or rendezvous, chosen nondeterministically within the short-message limit.

Quantification of the theorems: every labelled task graph whose nodes are numbered in a topological order
(`DGraph.WF`; for PTG programs: `Ptg.WellFormed`, the enumeration order), every deterministic body function
`F`, every number of processes `1 ≤ nranks ≤ 2^31`, every placement function, every topology, every short
limit and payload sizes, every AGAIN budget, and every run = every sequence of enabled transitions
(start / AGAIN / finish / local release / activation arrival (eager or not) / payload arrival).

* `C05_values_never_wrong` — SAFETY, unconditional: at every moment of every run every completed node holds
  the value of the sequential reference `seqRun`, and so does every copy held by any rank.
* `C05_rank_invariance_partial` — if every collective activation of the configuration satisfies C13's
  decidable predicate `deliveryOK`, every maximal run ends with all processes terminated and the store of `seqRun`.
* `C05_step_decreases` — every enabled transition of a reachable state decreases a natural measure: runs are finite.
* `C05_deadlock_free`, `C05_configurations_agree` — the two halves separately (the second composes
  `Runtime.values_schedule_independent` with the projection of a distributed run onto a single-process run).
* `C05_rank_invariance` — the property as stated (no side condition): FALSE of the code,
  `C05_rank_invariance_false` with the 3-rank witness of DESIGN.md 5.2 (chain topology loses output 1).
-/
namespace ParsecVerif.C05
open ParsecVerif.Dataflow ParsecVerif.DistRt
open ParsecVerif.RemoteDep hiding St

variable {g : DGraph} {cf : Conf} {F : Nat → List (Option Nat) → Nat}

/-- every completed node of the single-process machine holds the reference value, at every moment -/
theorem ended_vals_eq_seqRun {G : Graph} {F} (hfw : ∀ e ∈ G.E, e.1 < e.2 ∧ e.2 < G.n) {s : Dataflow.St} (h : Inv G F s) :
    ∀ i : Nat, s.status[i]? = some Status.ended → s.val[i]? = (seqRun G F)[i]? := by
  intro i
  induction i using Nat.strongRecOn with
  | _ i ih =>
    intro hend
    have hi : i < G.n := by have := h.len; have := (List.getElem?_eq_some_iff.1 hend).1; omega
    rw [h.vals i hend, seqRun_eq, seqPrefix_spec G F (fun e he => (hfw e he).1) G.n (Nat.le_refl _) i hi]
    congr 3
    unfold inputs
    apply List.map_congr_left
    intro p hp
    have hpe := (mem_predsOf G i p).1 hp
    have hlt : p < i := (hfw (p, i) hpe).1
    have hpend : s.status[p]? = some Status.ended :=
      preds_ended h (p, i) hpe (hfw (p, i) hpe).2 (by simp only; rw [hend]; simp)
    rw [ih p hlt hpend, seqRun_eq]

theorem graph_fw' (hwf : g.WF) : ∀ e ∈ g.graph.E, e.1 < e.2 ∧ e.2 < g.graph.n :=
  fun e he => ⟨(graph_WF g hwf).2 e he, ((graph_WF g hwf).1 e he).2⟩

/-- **Safety (no side condition).**  Whatever the number of processes, the placement, the topology, the short
    limit and the interleaving — also when an activation is lost — a node that has completed holds exactly the
    value of the sequential reference, and every copy of it held by any rank is that value: a distributed run
    can stop short, it never computes something else. -/
theorem C05_values_never_wrong (hwf : g.WF) (hcf : cf.WF g) (again : List Nat) (ts : List DTr) :
    (∀ i : Nat, (drun g cf F again ts).core.status[i]? = some Status.ended →
        (drun g cf F again ts).core.val[i]? = (seqRun g.graph F)[i]?) ∧
    (∀ r i v, look (drun g cf F again ts).store (r, i) = some v → (seqRun g.graph F)[i]? = some (some v)) := by
  have h := dinv_run (F := F) (again := again) hwf hcf ts
  have hG := h.ginv hwf
  refine ⟨ended_vals_eq_seqRun (graph_fw' hwf) hG, ?_⟩
  intro r i v hl
  obtain ⟨h1, h2⟩ := h.stv r i v hl
  rw [← ended_vals_eq_seqRun (graph_fw' hwf) hG i h1, h2]

/-- **No deadlock:** when every collective activation satisfies `dataOK` (C13's `deliveryOK` restricted to the
    outputs that carry data; implied by `deliveryOK`), a reachable state in which some process has not terminated has
    an enabled transition. -/
theorem C05_deadlock_free (hwf : g.WF) (hcf : cf.WF g) (hok : dataOKAll g cf = true) (again : List Nat)
    (ts : List DTr) (hq : ¬ allTerminate g (drun g cf F again ts)) :
    ∃ t, denabled cf (drun g cf F again ts) t = true :=
  dprogress hwf hcf hok (dinv_run hwf hcf ts) hq

/-- **Termination:** every enabled transition of a reachable state strictly decreases the natural number `dmu`
    (no side condition): no run is infinite — at most `dmu (dinit …) = mu init + 4·nranks·n` effective steps — so
    every run can be extended to a maximal one, to which the theorems below apply. -/
theorem C05_step_decreases (hwf : g.WF) (hcf : cf.WF g) (again : List Nat) (ts : List DTr) (t : DTr)
    (hen : denabled cf (drun g cf F again ts) t = true) :
    dmu g cf (drun g cf F again (ts ++ [t])) < dmu g cf (drun g cf F again ts) := by
  have h := dstep_decreases hwf hcf (dinv_run (F := F) (again := again) hwf hcf ts) t hen
  have e : drun g cf F again (ts ++ [t]) = dstep g cf F (drun g cf F again ts) t := by
    simp [drun, List.foldl_append]
  rw [e]; exact h

/-- a distributed run projects onto a run of the single-process machine: same statuses, dependencies, values, log -/
theorem dist_run_is_run (hwf : g.WF) (hcf : cf.WF g) (again : List Nat) (ts : List DTr) :
    ∃ ts', (drun g cf F again ts).core = Dataflow.run g.graph F again ts' :=
  (dinv_run (F := F) (again := again) hwf hcf ts).gen

/-- **C05 (partial form).**  For a well-formed graph whose every collective activation satisfies `dataOK`
    (`deliveryOK` on the data outputs) for the configured topology: for every number of ranks, placement function,
    short limit, payload sizes, AGAIN budget and every maximal run, every process terminates (all tasks done, nothing
    pending, nothing in flight) and the final values — at the nodes and in every copy held by any rank — are those of
    `seqRun`. -/
theorem C05_rank_invariance_partial (hwf : g.WF) (hcf : cf.WF g) (hok : dataOKAll g cf = true)
    (again : List Nat) (ts : List DTr) (hmax : ∀ t, denabled cf (drun g cf F again ts) t = false) :
    (∀ i, i < g.n → (drun g cf F again ts).core.val[i]? = (seqRun g.graph F)[i]?) ∧
    allTerminate g (drun g cf F again ts) ∧
    (∀ r i v, look (drun g cf F again ts).store (r, i) = some v → (seqRun g.graph F)[i]? = some (some v)) := by
  have hterm : allTerminate g (drun g cf F again ts) :=
    Classical.byContradiction fun hq => by
      obtain ⟨t, ht⟩ := C05_deadlock_free hwf hcf hok again ts hq
      rw [hmax t] at ht; cases ht
  have hG := (dinv_run (F := F) (again := again) hwf hcf ts).ginv hwf
  exact ⟨quiescent_vals_eq_seqRun (graph_fw g hwf) hG hterm.1, hterm, (C05_values_never_wrong hwf hcf again ts).2⟩

/-- the same with C13's own predicate as hypothesis (`deliveryOK` of every collective activation) -/
theorem C05_rank_invariance_deliveryOK (hwf : g.WF) (hcf : cf.WF g) (hok : deliveryOKAll g cf = true)
    (again : List Nat) (ts : List DTr) (hmax : ∀ t, denabled cf (drun g cf F again ts) t = false) :
    (∀ i, i < g.n → (drun g cf F again ts).core.val[i]? = (seqRun g.graph F)[i]?) ∧
    allTerminate g (drun g cf F again ts) :=
  let h := C05_rank_invariance_partial (F := F) hwf hcf (dataOKAll_of_deliveryOKAll hok) again ts hmax
  ⟨h.1, h.2.1⟩

/-- the star topology always satisfies the hypothesis: C05 holds unconditionally under `runtime_comm_coll_bcast = 0` -/
theorem C05_star (hwf : g.WF) (hcf : cf.WF g) (hstar : cf.topo = Topo.star)
    (again : List Nat) (ts : List DTr) (hmax : ∀ t, denabled cf (drun g cf F again ts) t = false) :
    (∀ i, i < g.n → (drun g cf F again ts).core.val[i]? = (seqRun g.graph F)[i]?) ∧
    allTerminate g (drun g cf F again ts) := by
  refine C05_rank_invariance_deliveryOK hwf hcf ?_ again ts hmax
  unfold deliveryOKAll
  rw [List.all_eq_true]
  intro a _
  apply C13.star_ok
  unfold cfgOf mkCfg
  rw [hstar]; rfl

/-- **Two configurations agree** (composition of `Runtime.values_schedule_independent` with the projection):
    two terminated runs of the same graph — different numbers of processes, placements, topologies, short limits,
    AGAIN budgets, interleavings — end with the same value at every node. -/
theorem C05_configurations_agree (hwf : g.WF) {cf1 cf2 : Conf} (h1 : cf1.WF g) (h2 : cf2.WF g)
    (ag1 ag2 : List Nat) (ts1 ts2 : List DTr)
    (hq1 : allTerminate g (drun g cf1 F ag1 ts1)) (hq2 : allTerminate g (drun g cf2 F ag2 ts2)) :
    ∀ i, i < g.n → (drun g cf1 F ag1 ts1).core.val[i]? = (drun g cf2 F ag2 ts2).core.val[i]? := by
  obtain ⟨t1, e1⟩ := dist_run_is_run (F := F) hwf h1 ag1 ts1
  obtain ⟨t2, e2⟩ := dist_run_is_run (F := F) hwf h2 ag2 ts2
  rw [e1, e2]
  exact Runtime.values_schedule_independent (graph_WF g hwf) ag1 ag2 t1 t2 (e1 ▸ hq1.1) (e2 ▸ hq2.1)

/-! ## PTG programs -/

theorem placeOfProg_lt (p : Ptg.Program) (nt : Nat) (table : List Nat) (nranks : Nat) (hn : 0 < nranks) (i : Nat) :
    PtgDist.placeOfProg p nt table nranks i < nranks := by
  unfold PtgDist.placeOfProg
  split
  · unfold PtgDist.ownerOf; split <;> exact Nat.mod_lt _ hn
  · exact hn

/-- **C05 for PTG programs (partial form).**  For a program of the JDF subset whose task graph (`graphOfProg`: the
    instances in enumeration order, one labelled edge per edge of the successor iterators) is numbered topologically
    — `Ptg.WellFormed` certifies it, the driver evaluates both on every case — placed by ANY distribution table over
    the tiles, on any number of processes: if `dataOK` holds for every collective activation under the configured
    topology, every maximal run of the distributed runtime terminates everywhere with the values of the sequential
    execution in enumeration order, whatever the bodies compute. -/
theorem C05_program_partial (p : Ptg.Program) (nt : Nat) (table : List Nat) (topo : Topo) (nranks short : Nat)
    (hn : 0 < nranks) (hn2 : nranks ≤ 2 ^ 31) (hwf : (PtgDist.graphOfProg p).WF)
    (hok : dataOKAll (PtgDist.graphOfProg p) (PtgDist.confOf p nt table topo nranks short) = true)
    (F : Nat → List (Option Nat) → Nat) (again : List Nat) (ts : List DTr)
    (hmax : ∀ t, denabled (PtgDist.confOf p nt table topo nranks short)
      (drun (PtgDist.graphOfProg p) (PtgDist.confOf p nt table topo nranks short) F again ts) t = false) :
    (∀ i, i < (PtgDist.graphOfProg p).n →
      (drun (PtgDist.graphOfProg p) (PtgDist.confOf p nt table topo nranks short) F again ts).core.val[i]? =
        (seqRun (PtgDist.graphOfProg p).graph F)[i]?) ∧
    allTerminate (PtgDist.graphOfProg p) (drun (PtgDist.graphOfProg p) (PtgDist.confOf p nt table topo nranks short) F again ts) :=
  let h := C05_rank_invariance_partial (F := F) hwf
    (⟨hn, hn2, fun i _ => placeOfProg_lt p nt table nranks hn i⟩ : (PtgDist.confOf p nt table topo nranks short).WF _) hok again ts hmax
  ⟨h.1, h.2.1⟩

/-! ## The property as stated is false of the code -/

/-- The statement of C05 without side condition: every maximal run of every configuration terminates everywhere
    with the reference values. -/
def C05_rank_invariance : Prop :=
  ∀ (g : DGraph) (cf : Conf) (F : Nat → List (Option Nat) → Nat) (again : List Nat) (ts : List DTr),
    g.WF → cf.WF g → (∀ t, denabled cf (drun g cf F again ts) t = false) →
    (∀ i, i < g.n → (drun g cf F again ts).core.val[i]? = (seqRun g.graph F)[i]?) ∧ allTerminate g (drun g cf F again ts)

/-- DESIGN.md 5.2: task 0 on rank 0; output 0 feeds tasks 1 (rank 1) and 2 (rank 2), output 1 feeds task 2 only -/
def g52 : DGraph := ⟨3, 2, [(0, 1, 0), (0, 2, 0), (0, 2, 1)], []⟩
def cf52 : Conf := ⟨.chain, 3, fun i => i, 0, fun _ => 1⟩
def F52 : Nat → List (Option Nat) → Nat := fun i ins => i + 1 + (ins.map (·.getD 0)).sum

/-- the run: 0 completes, its activation reaches rank 1, rank 1 relays to rank 2 (output 0 only), task 1 runs -/
def run52 : List DTr :=
  [.start 0, .finish 0, .recvAct 0 ⟨0, 1, [0]⟩ false, .recvData 0 ⟨0, 1, [0]⟩,
   .recvAct 0 ⟨1, 2, [0]⟩ false, .recvData 0 ⟨1, 2, [0]⟩, .start 1, .finish 1]

theorem wf52 : g52.WF ∧ cf52.WF g52 := by
  refine ⟨by decide, by decide, by decide, ?_⟩
  intro i hi; exact hi

theorem state52 :
    (drun g52 cf52 F52 [] run52).core.status = [.ended, .ended, .waiting] ∧
    (drun g52 cf52 F52 [] run52).core.pending = [(0, 2)] ∧
    (drun g52 cf52 F52 [] run52).xfer = [] ∧
    ((drun g52 cf52 F52 [] run52).coll.all fun e => (inflightOf (drun g52 cf52 F52 [] run52) e.1).isEmpty) = true ∧
    (cfgOf g52 cf52 0).deliveryOK = false := by decide

theorem inflight_nil_of_all (s : DSt) (h : (s.coll.all fun e => (inflightOf s e.1).isEmpty) = true) (a : Nat) :
    inflightOf s a = [] := by
  cases hl : look s.coll a with
  | none => unfold inflightOf; rw [hl]
  | some st =>
    unfold look at hl
    cases hf : s.coll.find? (fun e => e.1 == a) with
    | none => rw [hf] at hl; cases hl
    | some e =>
      have hmem := List.mem_of_find?_eq_some hf
      have hk : e.1 = a := by simpa using List.find?_some hf
      have := List.all_eq_true.1 h e hmem
      rw [hk] at this
      simpa using this

theorem status3 (x y z c : Status) (hx : x ≠ c) (hy : y ≠ c) (hz : z ≠ c) (i : Nat) :
    (([x, y, z] : List Status)[i]? == some c) = false := by
  match i with
  | 0 => simp [hx]
  | 1 => simp [hy]
  | 2 => simp [hz]
  | _ + 3 => simp

/-- the run is maximal: nothing is enabled, task 2 waits for an output nobody sends -/
theorem stuck52 : ∀ t, denabled cf52 (drun g52 cf52 F52 [] run52) t = false := by
  obtain ⟨hs, hp, hx, hc, _⟩ := state52
  intro t
  cases t with
  | start i => simp only [denabled, enabled, hs]; exact status3 _ _ _ _ (by decide) (by decide) (by decide) i
  | again i =>
    simp only [denabled, enabled, hs]
    rw [status3 _ _ _ _ (by decide) (by decide) (by decide) i]; rfl
  | finish i =>
    simp only [denabled, enabled, hs]
    rw [status3 _ _ _ _ (by decide) (by decide) (by decide) i]; rfl
  | releaseLocal a b =>
    simp only [denabled, enabled, hp]
    by_cases hab : (a, b) = (0, 2)
    · injection hab with h1 h2; subst h1; subst h2; simp [cf52]
    · have : ([(0, 2)] : List (Nat × Nat)).contains (a, b) = false := by
        simp only [List.contains_cons, List.contains_nil, Bool.or_false, beq_eq_false_iff_ne]; exact hab
      rw [this]; simp
  | recvAct a m e => simp [denabled, inflight_nil_of_all _ hc a]
  | recvData a m => simp [denabled, hx]

/-- **The unconditional statement is false**: on 3 ranks under the chain topology the run above is maximal and
    task 2 never runs (output 1 is lost: `¬ deliveryOK`, C13). -/
theorem C05_rank_invariance_false : ¬ C05_rank_invariance := by
  intro h
  have := (h g52 cf52 F52 [] run52 wf52.1 wf52.2 stuck52).2.1.1
  rw [state52.2.1] at this
  cases this

/-! ## Non-vacuity -/

/-- the same graph under the star topology satisfies the hypothesis; a maximal run of it terminates with the
    reference values -/
def cf52star : Conf := { cf52 with topo := .star }
def run52star : List DTr :=
  [.start 0, .finish 0, .recvAct 0 ⟨0, 2, [0, 1]⟩ false, .recvAct 0 ⟨0, 1, [0]⟩ false, .recvData 0 ⟨0, 1, [0]⟩,
   .start 1, .recvData 0 ⟨0, 2, [0, 1]⟩, .start 2, .finish 2, .finish 1]

/-- the same program with output 1 a control flow: `deliveryOK` fails, `dataOK` holds, and the chain run terminates
    (the receiver releases a control dependency from the propagation mask of the header) -/
def g52ctl : DGraph := { g52 with ctl := [(0, 1)] }
def run52ctl : List DTr :=
  [.start 0, .finish 0, .recvAct 0 ⟨0, 1, [0]⟩ false, .recvData 0 ⟨0, 1, [0]⟩,
   .recvAct 0 ⟨1, 2, [0]⟩ false, .recvData 0 ⟨1, 2, [0]⟩, .start 1, .finish 1, .start 2, .finish 2]

example : deliveryOKAll g52ctl cf52 = false ∧ dataOKAll g52ctl cf52 = true ∧
    (drun g52ctl cf52 F52 [] run52ctl).core.status = [.ended, .ended, .ended] ∧
    (drun g52ctl cf52 F52 [] run52ctl).core.pending = [] := by decide

example : g52.WF ∧ deliveryOKAll g52 cf52star = true ∧
    (drun g52 cf52star F52 [] run52star).core.status = [.ended, .ended, .ended] ∧
    (drun g52 cf52star F52 [] run52star).core.pending = [] ∧
    (drun g52 cf52star F52 [] run52star).core.val = seqRun g52.graph F52 ∧
    seqRun g52.graph F52 = [some 1, some 3, some 5] := by decide

/-- the hypotheses of `C05_rank_invariance_partial` are satisfiable together: the star run above is maximal -/
theorem state52star :
    (drun g52 cf52star F52 [] run52star).core.status = [.ended, .ended, .ended] ∧
    (drun g52 cf52star F52 [] run52star).core.pending = [] ∧
    (drun g52 cf52star F52 [] run52star).xfer = [] ∧
    ((drun g52 cf52star F52 [] run52star).coll.all fun e => (inflightOf (drun g52 cf52star F52 [] run52star) e.1).isEmpty) = true ∧
    dataOKAll g52 cf52star = true := by decide

theorem maximal52star : ∀ t, denabled cf52star (drun g52 cf52star F52 [] run52star) t = false := by
  obtain ⟨hs, hp, hx, hc, _⟩ := state52star
  intro t
  cases t with
  | start i => simp only [denabled, enabled, hs]; exact status3 _ _ _ _ (by decide) (by decide) (by decide) i
  | again i =>
    simp only [denabled, enabled, hs]
    rw [status3 _ _ _ _ (by decide) (by decide) (by decide) i]; rfl
  | finish i =>
    simp only [denabled, enabled, hs]
    rw [status3 _ _ _ _ (by decide) (by decide) (by decide) i]; rfl
  | releaseLocal a b => simp [denabled, enabled, hp]
  | recvAct a m e => simp [denabled, inflight_nil_of_all _ hc a]
  | recvData a m => simp [denabled, hx]

example : allTerminate g52 (drun g52 cf52star F52 [] run52star) :=
  (C05_rank_invariance_partial (F := F52) wf52.1 (by exact ⟨by decide, by decide, fun i hi => hi⟩) state52star.2.2.2.2 []
    run52star maximal52star).2.1

/-- differing destination sets that chain delivers (nested sets: the relay consumes both outputs): 4 ranks,
    output 0 → ranks {1, 2}, output 1 → ranks {1, 2, 3}; eager transport allowed (short limit 8 ≥ size 1) -/
def gN : DGraph := ⟨6, 2, [(0, 1, 0), (0, 2, 0), (0, 3, 1), (0, 4, 1), (0, 5, 1), (1, 5, 0)], []⟩
def cfN : Conf := ⟨.chain, 4, fun i => [0, 1, 2, 1, 2, 3].getD i 0, 8, fun _ => 1⟩
def choicesN : List Nat := [3, 1, 4, 1, 5, 9, 2, 6, 5, 3, 5, 8, 9, 7, 9, 3, 2, 3, 8, 4, 6, 2, 6, 4, 3, 3, 8, 3, 2, 7, 9, 5, 0, 2, 8, 8, 4, 1, 9, 7, 1, 6, 9, 3, 9, 9, 3, 7, 5, 1, 0, 5, 8, 2, 0, 9, 7, 4, 9, 4]

example : gN.WF ∧ deliveryOKAll gN cfN = true ∧ (cfgOf gN cfN 0).outs = [(0, [1, 2]), (1, [1, 2, 3])] ∧
    ((schedule gN cfN F52 choicesN (dinit gN []) []).1.core.val = seqRun gN.graph F52) := by decide

end ParsecVerif.C05
