import ParsecVerif.Proofs.Argv
import ParsecVerif.Proofs.CmdLine
/-!
# C39 — argument-vector utilities are consistent

Models: `ParsecVerif.Argv` (parsec/utils/argv.c) and `ParsecVerif.CmdLine` (option parsing of
parsec/utils/cmd_line.c), both written branch by branch after the C code.  Strings are byte lists,
`char **` is `Option (List Str)`.  Specification vocabulary (Proofs/Argv.lean): `fields d s` = the
fields of `s` separated by `d`, empty ones kept; `sjoin d l` = the strings of `l` with one `d`
between neighbours.  Quantification: all strings, delimiters, vectors, positions, option tables.

Three statements the property asks for were FALSE of the code as found (split_with_empty lost a
trailing empty field, delete left argc inconsistent, parse freed a parameter vector twice); they
were repaired in /repo (8e71ed6, ecccfcb, 16257ae).  The models mirror the repaired code and the
full statements are theorems; the previous behaviour is kept as `*Buggy` definitions together
with the witness theorems that refute the statements for it.
-/
namespace ParsecVerif.C39
open ParsecVerif.Argv ParsecVerif.CmdLine

/-! ## split / join -/

/-- `fields` and `sjoin` are the usual split and join: joining the fields gives the string back,
    no field contains the delimiter, and they are the only such decomposition. -/
theorem join_fields (d : Nat) (s : Str) :
    sjoin d (fields d s) = s ∧ (∀ f ∈ fields d s, d ∉ f) ∧
    (∀ v : List Str, v ≠ [] → (∀ f ∈ v, d ∉ f) → sjoin d v = s → v = fields d s) :=
  ⟨sjoin_fields d s, fields_no_delim d s, fun v hv hf hs => by rw [← hs, fields_sjoin d v hv hf]⟩

/-- `parsec_argv_split` returns exactly the non-empty fields (NULL if there is none), and joining
    them back gives the original string with its empty fields removed. -/
theorem split_join (s : Str) (d : Nat) :
    split s d = ofList ((fields d s).filter (· ≠ [])) ∧
    join (split s d) d = sjoin d ((fields d s).filter (· ≠ [])) := by
  unfold split
  rw [splitInter_false, join_ofList]
  exact ⟨rfl, rfl⟩

/-- conversely, a vector of non-empty delimiter-free strings survives join-then-split -/
theorem join_split (v : List Str) (d : Nat) (h : ∀ f ∈ v, f ≠ [] ∧ d ∉ f) :
    split (join (some v) d) d = ofList v := by
  unfold split
  rw [splitInter_false, join_some]
  by_cases hv : v = []
  · subst hv; rfl
  · rw [fields_sjoin d v hv (fun f hf => (h f hf).2)]
    congr 1
    apply List.filter_eq_self.2
    intro f hf
    simpa using (h f hf).1

example : split (join (some [[97, 98], [99]]) 44) 44 = some [[97, 98], [99]] := by
  rw [join_split _ _ (by decide)]; rfl

/-- `parsec_argv_split_with_empty` returns all fields (NULL for the empty string), and joining them
    back gives the original string — for every string. -/
theorem splitWithEmpty_join (s : Str) (d : Nat) :
    splitWithEmpty s d = ofList (if s = [] then [] else fields d s) ∧
    join (splitWithEmpty s d) d = s := by
  unfold splitWithEmpty
  rw [splitInter_true_trailing, join_ofList]
  refine ⟨rfl, ?_⟩
  split
  · rename_i h; subst h; rfl
  · exact sjoin_fields d s

example : splitWithEmpty [97, 44, 44, 98, 44] 44 = some [[97], [], [98], []] := by
  rw [(splitWithEmpty_join _ _).1]; decide

/-- conversely, every vector of delimiter-free strings other than `[""]` (whose join is the empty
    string) survives join-then-split_with_empty -/
theorem join_splitWithEmpty (v : List Str) (d : Nat) (h : ∀ f ∈ v, d ∉ f) (hv : v ≠ [[]]) :
    splitWithEmpty (join (some v) d) d = ofList v := by
  rw [(splitWithEmpty_join _ _).1, join_some]
  by_cases hv0 : v = []
  · subst hv0; rfl
  · have hf := fields_sjoin d v hv0 h
    split
    · rename_i he
      rw [he] at hf
      exact absurd hf.symm hv
    · rw [hf]

example : splitWithEmpty (join (some [[], [97], [], []]) 44) 44 = some [[], [97], [], []] := by
  rw [join_splitWithEmpty _ _ (by decide) (by decide)]; rfl

/-- the code before 8e71ed6: joining lost one trailing delimiter (exact value for every string) -/
theorem splitWithEmptyBuggy_join (s : Str) (d : Nat) :
    splitWithEmptyBuggy s d = ofList (dropLastEmpty (fields d s)) ∧
    join (splitWithEmptyBuggy s d) d = if s.getLast? = some d then s.dropLast else s := by
  unfold splitWithEmptyBuggy
  rw [splitInter_true, join_ofList, sjoin_dropLastEmpty_fields]
  exact ⟨rfl, rfl⟩

/-- … so the round trip failed: `"a,,b,"` came back as `"a,,b"` (finding C39-F1, fixed) -/
theorem splitWithEmptyBuggy_loses_field :
    ¬ ∀ (s : Str) (d : Nat), join (splitWithEmptyBuggy s d) d = s := by
  intro h
  have := h [97, 44, 44, 98, 44] 44
  rw [(splitWithEmptyBuggy_join _ _).2] at this
  revert this; decide

/-- `parsec_argv_join` is `sjoin`; `parsec_argv_join_range` joins exactly the positions
    `[start, end)` that exist -/
theorem joinRange_spec (v : List Str) (start stop d : Nat) :
    join (some v) d = sjoin d v ∧
    (start ≤ v.length → joinRange (some v) start stop d = sjoin d ((v.drop start).take (stop - start))) ∧
    (v.length < start → joinRange (some v) start stop d = []) := by
  refine ⟨join_some v d, joinRange_some v start stop d, ?_⟩
  intro h
  cases v with
  | nil => rfl
  | cons x r =>
    simp only [joinRange]
    have : (start : Int) > count (some (x :: r)) := by simp only [count]; omega
    rw [if_pos this]

example : joinRange (some [[97], [98], [99], [100]]) 1 3 44 = [98, 44, 99] := by
  rw [(joinRange_spec _ 1 3 44).2.1 (by decide)]; decide

/-! ## delete / insert / copy -/

/-- `parsec_argv_delete` on an in-range start with a positive count: the vector loses exactly the
    positions `[start, start+num) ∩ [0, count)`; everything before keeps its index, everything
    behind moves down by `num`; `argc` becomes the new element count. -/
theorem delete_spec (argc : Int) (l : List Str) (start num : Nat) (hs : start ≤ l.length)
    (hn : 0 < num) :
    ∃ r, delete argc (some l) start num = (SUCCESS, (r.length : Int), some r) ∧
      r = l.take start ++ l.drop (start + num) ∧
      r.length = l.length - min num (l.length - start) ∧
      (∀ i, i < start → r[i]? = l[i]?) ∧ (∀ i, start ≤ i → r[i]? = l[i + num]?) := by
  have hc := cut_positions l start num hs
  refine ⟨l.take start ++ l.drop (start + num), ?_, rfl, hc⟩
  have h1 : ¬ ((num : Int) = 0) := by omega
  have h2 : ¬ ((start : Int) > count (some l)) := by simp only [count]; omega
  have h3 : ¬ ((start : Int) < 0 ∨ (num : Int) < 0) := by omega
  simp only [delete, if_neg h1, if_neg h2, if_neg h3, Int.toNat_natCast, deleteList_eq]
  rw [hc.1]
  congr 2
  omega

example : delete 4 (some [[97], [98], [99], [100]]) 1 2 = (0, 2, some [[97], [100]]) := by
  obtain ⟨r, h, hr, _⟩ := delete_spec 4 [[97], [98], [99], [100]] 1 2 (by decide) (by decide)
  show delete 4 _ ((1 : Nat) : Int) ((2 : Nat) : Int) = _
  rw [h, hr]; rfl

/-- the calls that must not change anything: NULL vector, `num = 0`, start beyond the end
    (success), negative arguments (bad parameter) -/
theorem delete_noop (argc : Int) (v : Vec) (start num : Int)
    (h : v = none ∨ num = 0 ∨ start > count v ∨ start < 0 ∨ num < 0) :
    (delete argc v start num).2 = (argc, v) ∧
    ((delete argc v start num).1 = SUCCESS ∨ (delete argc v start num).1 = BAD_PARAM) := by
  cases v with
  | none => simp [delete]
  | some l =>
    simp only [delete]
    split
    · simp
    · split
      · simp
      · split
        · simp
        · rename_i h1 h2 h3
          rcases h with h | h | h | h | h
          · simp at h
          · exact absurd h h1
          · exact absurd h h2
          · exact absurd (Or.inl h) h3
          · exact absurd (Or.inr h) h3

/-- **`argc` stays the element count, for every call** (any vector, any integers) -/
theorem delete_argc (v : Vec) (start num : Int) :
    (delete (count v) v start num).2.1 = count (delete (count v) v start num).2.2 := by
  by_cases h : v = none ∨ num = 0 ∨ start > count v ∨ start < 0 ∨ num < 0
  · rw [(delete_noop (count v) v start num h).1]
  · cases v with
    | none => simp at h
    | some l =>
      have hs : 0 ≤ start ∧ start ≤ (l.length : Int) ∧ 0 < num := by
        simp only [count] at h; omega
      obtain ⟨r, hd, _⟩ := delete_spec (count (some l)) l start.toNat num.toNat (by omega) (by omega)
      rw [Int.toNat_of_nonneg hs.1, Int.toNat_of_nonneg (by omega)] at hd
      rw [hd]; rfl

example : (delete 3 (some [[97], [98], [99]]) 1 5) = (0, 1, some [[97]]) := by decide

/-- the code before ecccfcb on an accepted call: same vector, but `argc - num` -/
theorem deleteBuggy_spec (argc : Int) (l : List Str) (start num : Nat) (hs : start ≤ l.length)
    (hn : 0 < num) :
    deleteBuggy argc (some l) start num =
      (SUCCESS, argc - num, some (l.take start ++ l.drop (start + num))) := by
  have h1 : ¬ ((num : Int) = 0) := by omega
  have h2 : ¬ ((start : Int) > count (some l)) := by simp only [count]; omega
  have h3 : ¬ ((start : Int) < 0 ∨ (num : Int) < 0) := by omega
  simp only [deleteBuggy, if_neg h1, if_neg h2, if_neg h3, Int.toNat_natCast, deleteList_eq]

/-- … so `argc` went wrong as soon as the range ran past the end: deleting 5 from position 1 of
    3 elements left 1 element and `argc = -2` (finding C39-F2, fixed) -/
theorem deleteBuggy_argc_inconsistent :
    ¬ ∀ (v : Vec) (start num : Int),
      (deleteBuggy (count v) v start num).2.1 = count (deleteBuggy (count v) v start num).2.2 := by
  intro h
  have := h (some [[97], [98], [99]]) 1 5
  have hb := deleteBuggy_spec (count (some [[97], [98], [99]])) [[97], [98], [99]] 1 5 (by decide) (by decide)
  rw [show ((1 : Nat) : Int) = 1 from rfl, show ((5 : Nat) : Int) = 5 from rfl] at hb
  rw [hb] at this
  revert this; decide

/-- `parsec_argv_insert` with a valid target and source: the source is spliced in at position
    `min start count`; earlier elements keep their index, the source occupies the next
    `|source|` indices, later elements move up by `|source|`. -/
theorem insert_spec (t src : List Str) (start : Nat) :
    ∃ r, Argv.insert (some t) start (some src) = (SUCCESS, some r) ∧
      r = t.take (min start t.length) ++ src ++ t.drop (min start t.length) ∧
      r.length = t.length + src.length ∧
      (∀ i, i < min start t.length → r[i]? = t[i]?) ∧
      (∀ i, min start t.length ≤ i → i < min start t.length + src.length →
        r[i]? = src[i - min start t.length]?) ∧
      (∀ i, min start t.length + src.length ≤ i → r[i]? = t[i - src.length]?) := by
  refine ⟨_, ?_, rfl, splice_positions t src (min start t.length) (Nat.min_le_right _ _)⟩
  have h0 : ¬ ((start : Int) < 0) := by omega
  simp only [Argv.insert, if_neg h0]
  split
  · rename_i hgt
    simp only [count] at hgt
    have : t.length < start := by omega
    rw [foldl_append, Nat.min_eq_right (by omega)]
    simp
  · rename_i hgt
    simp only [count] at hgt
    have : start ≤ t.length := by omega
    rw [Nat.min_eq_left this]
    simp

example : Argv.insert (some [[97], [98]]) 1 (some [[120], [121]]) = (0, some [[97], [120], [121], [98]]) := by
  obtain ⟨r, h, hr, _⟩ := insert_spec [[97], [98]] [[120], [121]] 1
  show Argv.insert _ ((1 : Nat) : Int) _ = _
  rw [h, hr]; rfl

/-- the calls that must not change anything: NULL target or negative start (bad parameter), NULL
    source (success) -/
theorem insert_noop (t : Vec) (start : Int) (src : Vec) (h : t = none ∨ start < 0 ∨ src = none) :
    (Argv.insert t start src).2 = t := by
  cases t with
  | none => rfl
  | some l =>
    simp only [Argv.insert]
    split
    · rfl
    · rename_i h1
      cases src with
      | none => rfl
      | some s =>
        rcases h with h | h | h
        · simp at h
        · exact absurd h h1
        · simp at h

/-- `parsec_argv_insert_element`: the same with a single string -/
theorem insertElement_spec (t : List Str) (s : Str) (loc : Nat) :
    ∃ r, insertElement (some t) loc (some s) = (SUCCESS, some r) ∧
      r = t.take (min loc t.length) ++ [s] ++ t.drop (min loc t.length) ∧
      r.length = t.length + 1 ∧
      (∀ i, i < min loc t.length → r[i]? = t[i]?) ∧
      r[min loc t.length]? = some s ∧
      (∀ i, min loc t.length + 1 ≤ i → r[i]? = t[i - 1]?) := by
  have hp := splice_positions t [s] (min loc t.length) (Nat.min_le_right _ _)
  refine ⟨_, ?_, rfl, hp.1, hp.2.1, ?_, hp.2.2.2⟩
  · have h0 : ¬ ((loc : Int) < 0) := by omega
    simp only [insertElement, if_neg h0]
    split
    · rename_i hgt
      simp only [count] at hgt
      have : t.length < loc := by omega
      rw [Nat.min_eq_right (by omega)]
      simp [append, appendNosize]
    · rename_i hgt
      simp only [count] at hgt
      have : loc ≤ t.length := by omega
      rw [Nat.min_eq_left this]
      simp
  · have := hp.2.2.1 (min loc t.length) (Nat.le_refl _) (by simp)
    rw [this, Nat.sub_self]; rfl

example : insertElement (some [[97], [98]]) 7 (some [120]) = (0, some [[97], [98], [120]]) := by
  obtain ⟨r, h, hr, _⟩ := insertElement_spec [[97], [98]] [120] 7
  show insertElement _ ((7 : Nat) : Int) _ = _
  rw [h, hr]; rfl

/-- `parsec_argv_copy` returns an equal vector; `parsec_argv_count` of a built vector is its
    length and `parsec_argv_append` keeps `argc` equal to it -/
theorem copy_eq (v : Vec) (a : Str) :
    copy v = v ∧ (append v a).1 = count (append v a).2 ∧
    (append v a).2 = some ((v.getD []) ++ [a]) := by
  refine ⟨copy_eq' v, rfl, ?_⟩
  cases v <;> rfl

/-! ## command-line parsing -/

/-- **Parsing a well-formed command line.**  `items` are occurrences of declared options, each
    named by any of its three names (`--name`, `-name`, `-c`; `find_option` treats them as
    synonyms) and followed by exactly its declared number of parameters; the line then ends
    (`Ending`) with nothing, with `--` and arbitrary tokens, with a token that does not start with
    a dash, with a dash token that names no declared option, or with a declared option that lacks
    parameters.  Then `parsec_cmd_line_parse` records exactly the option instances with their
    parameters, in order, leaves exactly the rest as the tail, keeps the argument vector, returns
    success except for the three error endings (an unrecognised token is an error only if
    unknowns are not ignored), and takes no double-free path. -/
theorem parse_wellformed (opts : List Opt) (ign : Bool) (prog : Str) (items : List Item)
    (e : Ending) (h : ∀ it ∈ items, it.ok opts) (he : e.ok opts) :
    parse opts ign (prog :: (render items ++ e.toks)) =
      { rc := if e.err ign then ERROR else SUCCESS,
        argv := prog :: (render items ++ e.toks),
        params := items.map (fun it => (it.k, it.ps)),
        tail := e.tail } := by
  simp only [parse]
  rw [parseLoop_wellformed true opts ign items e h he _ [prog] [] ?_]
  · simp
  · have h1 := fuelFor_ge (render items ++ e.toks)
    have h2 := render_length items
    simp only [List.length_append] at h1
    omega

/-- hypotheses of `parse_wellformed` are satisfiable on a non-trivial line:
    options `-a` (0 parameters) and `-n` or `--np` (2 parameters); `prog --np p q -a -n r s -- t` -/
example :
    let opts : List Opt := [⟨some 97, none, none, 0⟩, ⟨some 110, none, some [110, 112], 2⟩]
    let items : List Item := [⟨[45, 45, 110, 112], 1, opts[1], [[112], [113]]⟩, ⟨[45, 97], 0, opts[0], []⟩,
                              ⟨[45, 110], 1, opts[1], [[114], [115]]⟩]
    (∀ it ∈ items, it.ok opts) ∧ (Ending.dashdash [[116]]).ok opts ∧
    (parse opts false ([112] :: (render items ++ (Ending.dashdash [[116]]).toks))).params =
      [(1, [[112], [113]]), (0, []), (1, [[114], [115]])] := by
  refine ⟨?_, trivial, ?_⟩
  · intro it hit
    simp only [List.mem_cons, List.not_mem_nil, or_false] at hit
    rcases hit with rfl | rfl | rfl <;> (unfold Item.ok lookup; decide)
  · decide

/-- **The accessors report each declared option with its parameters.**  After parsing a well-formed
    line, `get_ninsts(name)` is the number of occurrences of the option that `name` denotes and
    `get_param(name, inst, idx)` is parameter `idx` of its `inst`-th occurrence (NULL beyond). -/
theorem parse_queries (opts : List Opt) (ign : Bool) (prog : Str) (items : List Item)
    (e : Ending) (h : ∀ it ∈ items, it.ok opts) (he : e.ok opts) (name : Str) (k : Nat) (o : Opt)
    (hf : find opts name = some (k, o)) :
    ninsts opts (parse opts ign (prog :: (render items ++ e.toks))) name =
      (items.filter (fun it => it.k == k)).length ∧
    ∀ inst idx, getParam opts (parse opts ign (prog :: (render items ++ e.toks))) name inst idx =
      match (items.filter (fun it => it.k == k))[inst]? with
      | some it => it.ps[idx]?
      | none => none := by
  rw [parse_wellformed opts ign prog items e h he]
  have hfilt : (items.map (fun it => (it.k, it.ps))).filter (fun p => p.1 == k) =
      (items.filter (fun it => it.k == k)).map (fun it => (it.k, it.ps)) := by
    rw [List.filter_map]; rfl
  refine ⟨by simp only [ninsts, hf, hfilt, List.length_map], ?_⟩
  intro inst idx
  simp only [getParam, hf, hfilt, List.getElem?_map]
  cases hi : (items.filter (fun it => it.k == k))[inst]? with
  | none => simp
  | some it =>
    have hmem : it ∈ items.filter (fun it => it.k == k) := List.mem_of_getElem? hi
    have hit := h it (List.mem_filter.1 hmem).1
    have hk : it.k = k := by simpa using (List.mem_filter.1 hmem).2
    -- the option found for the item is the option found for `name`
    have ho : it.o = o := by
      have h3 := hit.2.2.1
      unfold lookup at h3
      have h4 : opts[it.k]? = some it.o := by
        split at h3 <;> exact find_some _ _ _ _ h3
      have h5 := find_some _ _ _ _ hf
      rw [hk] at h4; rw [h4] at h5; exact Option.some.inj h5
    have hlen : it.ps.length = o.nparams.toNat := ho ▸ hit.2.2.2.1
    simp only [Option.map_some]
    split
    · rfl
    · rename_i hge
      symm
      apply List.getElem?_eq_none
      omega

/-- **A bundle of short options parses like its expansion.**  If `-c₁c₂…` is not itself a declared
    name and `split_shorts` accepts it with a declared first letter, the parser continues exactly
    as if the expanded tokens `sv` (followed by the tokens that were not consumed as parameters)
    had been on the line; when every letter is a declared short name and enough tokens follow,
    `sv` is `-c₁ params₁ -c₂ params₂ …` (`expand`). -/
theorem parse_bundle (nulled : Bool) (opts : List Opt) (ign : Bool) (fuel : Nat) (pre : List Str) (cs : List Nat)
    (more : List Str) (params : List Param) (hd : cs.head? ≠ some dash)
    (hnf : find opts cs = none) :
    (∀ sv used, splitShorts opts ign cs more = some (sv, used) →
      (find opts ((sv.headD []).drop 1)).isSome →
      parseLoop nulled opts ign (fuel + 1) pre ((dash :: cs) :: more) params =
        parseLoop nulled opts ign (fuel + 1) pre (sv ++ more.drop used) params) ∧
    (∀ n, cs ≠ [] → need opts cs = some n → n ≤ more.length →
      ∃ sv, splitShorts opts ign cs more = some (sv, n) ∧
        sv ++ more.drop n = expand opts cs more) := by
  constructor
  · intro sv used hs hf
    obtain ⟨⟨k, o⟩, hko⟩ := Option.isSome_iff_exists.1 hf
    -- shape of cs and sv
    have hcs : cs ≠ [] := by
      intro e; simp [splitShorts, e] at hs
    obtain ⟨c, cs', rfl⟩ := List.exists_cons_of_ne_nil hcs
    have hc : c ≠ dash := by simpa using hd
    simp only [splitShorts, if_neg hcs] at hs
    have hhead := splitLetters_head opts ign more c cs' 0 sv used hs
    have hsvne : sv ≠ [] := by
      intro e; rw [e] at hhead; simp at hhead
    obtain ⟨s0, sv', rfl⟩ := List.exists_cons_of_ne_nil hsvne
    simp only [List.headD_cons] at hhead
    subst hhead
    simp only [List.headD_cons, List.drop_succ_cons, List.drop_zero] at hko
    have t1 : (dash :: c :: cs') ≠ [dash, dash] := by
      intro e; simp only [List.cons.injEq] at e; exact hc e.2.1
    have t2 : ¬ ((dash :: c :: cs').head? ≠ some dash) := by simp
    have t3 : (dash :: c :: cs').take 2 ≠ [dash, dash] := by
      intro e; simp only [List.take_succ_cons, List.take_zero, List.cons.injEq] at e; exact hc e.2.1
    have u1 : [dash, c] ≠ [dash, dash] := by
      intro e; simp only [List.cons.injEq] at e; exact hc e.2.1
    have u2 : ¬ (([dash, c] : Str).head? ≠ some dash) := by simp
    have u3 : ([dash, c] : Str).take 2 ≠ [dash, dash] := by
      intro e; simp only [List.take_succ_cons, List.take_zero, List.cons.injEq] at e; exact hc e.2.1
    have lhs : step nulled opts ign pre (dash :: c :: cs') more params =
        handle nulled pre params k o (([dash, c] :: sv') ++ more.drop used) := by
      unfold step
      rw [if_neg t1, if_neg t2, if_neg t3]
      simp only [List.drop_succ_cons, List.drop_zero, hnf, splitShorts, if_neg hcs, hs,
        List.headD_cons, hko]
    have rhs : step nulled opts ign pre [dash, c] (sv' ++ more.drop used) params =
        handle nulled pre params k o (([dash, c] :: sv') ++ more.drop used) := by
      unfold step
      rw [if_neg u1, if_neg u2, if_neg u3]
      simp only [List.drop_succ_cons, List.drop_zero, hko, List.cons_append]
    simp only [List.cons_append, parseLoop]
    rw [lhs, rhs]
  · intro n hcs hn hlen
    obtain ⟨sv, h1, h2⟩ := splitLetters_expand opts ign more cs 0 n hn (by omega)
    refine ⟨sv, ?_, ?_⟩
    · simp only [splitShorts, if_neg hcs]; simpa using h1
    · simpa using h2

/-- `prog -ab p q r` with `-a` taking one parameter and `-b` two is parsed as `-a p -b q r` -/
example :
    let opts : List Opt := [⟨some 97, none, none, 1⟩, ⟨some 98, none, none, 2⟩]
    expand opts [97, 98] [[112], [113], [114]] = [[45, 97], [112], [45, 98], [113], [114]] ∧
    (parse opts false [[120], [45, 97, 98], [112], [113], [114]]).params =
      [(0, [[112]]), (1, [[113], [114]])] := by
  decide

/-- **No parse frees the parameter vector of an option instance twice** (every option table,
    every argument vector, well-formed or not). -/
theorem parse_no_double_free (opts : List Opt) (ign : Bool) (argv : List Str) :
    (parse opts ign argv).doubleFree = false := by
  cases argv with
  | nil => rfl
  | cons prog rest => exact parseLoop_no_double_free opts ign _ _ _ _

/-- the code before 16257ae did: option `-b` with two parameters and the line `prog -bb p1`.  The
    bundle expands to `-b p1 ⟨special⟩ -b ⟨special⟩ ⟨special⟩`; the first `-b` saves `p1`, meets the
    special token, frees `clp_argv` and releases the instance, whose destructor freed it again
    (finding C39-F3, fixed) -/
theorem parseBuggy_double_free_witness :
    ¬ ∀ (opts : List Opt) (ign : Bool) (argv : List Str), (parseBuggy opts ign argv).doubleFree = false := by
  intro h
  have := h [⟨some 98, none, none, 2⟩] false [[112], [45, 98, 98], [112, 49]]
  revert this; decide

/-- the repaired parser on the same line: error, nothing freed twice -/
example : (parse [⟨some 98, none, none, 2⟩] false [[112], [45, 98, 98], [112, 49]]).rc = ERROR ∧
    (parse [⟨some 98, none, none, 2⟩] false [[112], [45, 98, 98], [112, 49]]).doubleFree = false := by
  decide

/-! ## one handle, several parses -/

/-- building a tail onto an empty handle tail gives exactly the tokens, with their count -/
theorem appendTail_fresh (l : List Str) : appendTail 0 none l = ((l.length : Int), ofList l) := by
  have gen : ∀ (l t : List Str) (c : Int), l ≠ [] →
      appendTail c (some t) l = (((t ++ l).length : Int), some (t ++ l)) := by
    intro l
    induction l with
    | nil => intro t c h; exact absurd rfl h
    | cons a r ih =>
      intro t c _
      simp only [appendTail, append, appendNosize, count]
      cases r with
      | nil => simp [appendTail]
      | cons b r' => rw [ih (t ++ [a]) _ (by simp)]; simp
  cases l with
  | nil => rfl
  | cons a r =>
    simp only [appendTail, append, appendNosize, count]
    cases r with
    | nil => simp [appendTail, ofList]
    | cons b r' => rw [gen (b :: r') [a] _ (by simp)]; simp [ofList]

/-- **The reset.**  Whatever the handle held before (any earlier parses, any tail, any option
    instances), after `parsec_cmd_line_parse` with a non-empty argument vector every result field
    is the one of this parse alone: `free_parse_results` clears params, argv/argc, tail/tail count,
    and the parse refills them. -/
theorem handle_parse_reset (h : Handle) (ign : Bool) (argv : List Str) (hne : argv ≠ []) :
    h.parse ign argv =
      ((CmdLine.parse h.opts ign argv).rc, Handle.ofResult h.opts (CmdLine.parse h.opts ign argv)) := by
  cases argv with
  | nil => exact absurd rfl hne
  | cons prog rest =>
    simp only [Handle.parse, freeParseResults, CmdLine.parse, Handle.ofResult, appendTail_fresh]

/-- `argc == 0` leaves the handle untouched -/
theorem handle_parse_empty (h : Handle) (ign : Bool) : h.parse ign [] = (SUCCESS, h) := rfl

inductive HOp where
  | parse (ign : Bool) (argv : List Str)
  | addOpt (e : Opt)

def HOp.apply (h : Handle) : HOp → Handle
  | .parse ign argv => (h.parse ign argv).2
  | .addOpt e => (h.addOpt e).2

def runOps (h : Handle) (ops : List HOp) : Handle := ops.foldl HOp.apply h

/-- **After any history on one handle, the query results depend only on the last parse**: for every
    sequence of parses and option additions followed by a parse of a non-empty vector, the handle
    is the one a single parse with the then-current option table produces; so `get_tail` returns
    exactly that parse's tail with its count, `get_argc/argv` its vector, and
    `get_ninsts/get_param` its instances (`parse_wellformed`, `parse_queries` apply). -/
theorem handle_last_parse_only (h : Handle) (ops : List HOp) (ign : Bool) (argv : List Str)
    (hne : argv ≠ []) :
    runOps h (ops ++ [.parse ign argv]) =
      Handle.ofResult (runOps h ops).opts (CmdLine.parse (runOps h ops).opts ign argv) ∧
    (runOps h (ops ++ [.parse ign argv])).getTail =
      (((CmdLine.parse (runOps h ops).opts ign argv).tail.length : Int),
        ofList (CmdLine.parse (runOps h ops).opts ign argv).tail) ∧
    (∀ name, (runOps h (ops ++ [.parse ign argv])).ninsts name =
      ninsts (runOps h ops).opts (CmdLine.parse (runOps h ops).opts ign argv) name) ∧
    (∀ name inst idx, (runOps h (ops ++ [.parse ign argv])).getParam name inst idx =
      getParam (runOps h ops).opts (CmdLine.parse (runOps h ops).opts ign argv) name inst idx) := by
  have h1 : runOps h (ops ++ [.parse ign argv]) =
      Handle.ofResult (runOps h ops).opts (CmdLine.parse (runOps h ops).opts ign argv) := by
    simp only [runOps, List.foldl_append, List.foldl_cons, List.foldl_nil, HOp.apply]
    rw [handle_parse_reset _ ign argv hne]
  rw [h1]
  refine ⟨rfl, ?_, fun _ => rfl, fun _ _ _ => rfl⟩
  simp only [Handle.getTail, Handle.ofResult, copy_eq']

/-- parses never change the option table; only `make_opt` does (appending) -/
theorem handle_parse_opts (h : Handle) (ign : Bool) (argv : List Str) :
    (h.parse ign argv).2.opts = h.opts := by
  cases argv with
  | nil => rfl
  | cons p r => rfl

/-- a parse that leaves a tail followed by a parse that leaves none: tail count 0 and NULL vector,
    and the option instance of the first parse is gone -/
example :
    let h0 : Handle := (Handle.new.addOpt ⟨some 97, none, none, 1⟩).2
    let h2 := runOps h0 [.parse false [[112], [45, 97], [120], [45, 45], [116]], .parse false [[112]]]
    h2.getTail = (0, none) ∧ h2.ninsts [97] = 0 ∧ h2.getArgv 1 = none ∧ h2.argc = 1 ∧
    (runOps h0 [.parse false [[112], [45, 97], [120], [45, 45], [116]]]).getTail = (1, some [[116]]) := by
  decide

end ParsecVerif.C39
