import ParsecVerif.Proofs.RedistributeTop
/-!
# C21 — redistribution copies exactly the requested window

Model: `ParsecVerif.Redistribute` (mirrors `redistribute_wrapper.c`, `redistribute_internal.h`,
`redistribute.jdf`, `redistribute_reshuffle.jdf`, R = 0).

Quantification: all tile sizes `mb, nb ≥ 1` of source and target (independently), all matrix sizes, all
window sizes and displacements accepted by `parsec_redistribute_New` (`validate`), all batch sizes
`num_col ≥ 1`, both taskpools (general and reshuffle), every assignment of tiles to ranks (`remote` is an
arbitrary predicate: which (source tile, target tile) pairs live on different ranks, i.e. take the
pack / send / unpack path), every execution order of the writing tasks (`order` is any permutation of the
task space).

Assumptions recorded for the tie: `int` arithmetic does not overflow; source and target are different
matrices; tile storage (element `(a,b)` of tile `(m,n)` is global element `(mb*m+a, nb*n+b)`); the runtime
delivers to `Update`/`Receive` the bytes the sender packed (C03/C05) and runs every task of the task space
exactly once (C01/C02).
-/
namespace ParsecVerif.C21
open ParsecVerif.Redistribute

/-- the element copies issued by one writing task (`Update`, resp. reshuffle `Receive`) -/
def taskCopies (p : Params) (path : Path) (remote : Task → Bool) (k : Task) : List ECopy :=
  match path with
  | .general => updateCopies p remote k
  | .reshuffle => rectCopies p k (receiveRect p k)

theorem redistCopies_eq (p : Params) (path : Path) (remote : Task → Bool) (order : List Task) :
    redistCopies p path remote order = order.flatMap (taskCopies p path remote) := by
  cases path <;> rfl

/-- what `parsec_redistribute_New` guarantees about a request it accepts -/
theorem accepted (dY dT : Desc) (hY : 0 < dY.mb ∧ 0 < dY.nb) (hT : 0 < dT.mb ∧ 0 < dT.nb)
    (sr sc diY djY diT djT : Int) (p : Params) (path : Path)
    (h : validate dY dT sr sc diY djY diT djT = some (p, path)) :
    p.Valid ∧ (path = .reshuffle → p.optimized = true) := by
  obtain ⟨_, hp, hv, _⟩ := validate_spec dY dT hY hT sr sc diY djY diT djT p path h
  refine ⟨hv, ?_⟩
  intro hr
  rw [hr] at hp
  unfold pathOf at hp
  by_cases ho : p.optimized = true
  · exact ho
  · rw [if_neg ho] at hp; cases hp

/-- **C21 (family of copies).**  For every request accepted by `parsec_redistribute_New`, on either path and
    for every placement of the tiles on ranks, the element copies issued by all task instances form a
    function whose domain is exactly the target window:
    (1) every copy moves source element `(disi_Y+i, disj_Y+j)` to target element `(disi_T+i, disj_T+j)` for some
        `(i,j)` of the `size_row × size_col` window — nothing outside the window is written and nothing wrong
        is written inside;
    (2) every element of the window is written by some task of the task space;
    (3) it is written exactly once: two copies with the same target element are the same copy of the same
        task instance (concurrent `Update`s of one target tile touch disjoint elements). -/
theorem C21_copies (dY dT : Desc) (hY : 0 < dY.mb ∧ 0 < dY.nb) (hT : 0 < dT.mb ∧ 0 < dT.nb)
    (sr sc diY djY diT djT : Int) (p : Params) (path : Path)
    (h : validate dY dT sr sc diY djY diT djT = some (p, path)) (remote : Task → Bool) :
    (∀ k ∈ tasksOf p path, ∀ c ∈ taskCopies p path remote k, IsWindowCopy p c) ∧
    (∀ i j, i < p.sizeRow → j < p.sizeCol →
      ∃ k ∈ tasksOf p path, (⟨p.diT + i, p.djT + j, p.diY + i, p.djY + j⟩ : ECopy) ∈ taskCopies p path remote k) ∧
    (∀ k ∈ tasksOf p path, ∀ k' ∈ tasksOf p path, ∀ c ∈ taskCopies p path remote k,
      ∀ c' ∈ taskCopies p path remote k', c.ti = c'.ti → c.tj = c'.tj → k = k' ∧ c = c') := by
  obtain ⟨hv, hopt⟩ := accepted dY dT hY hT sr sc diY djY diT djT p path h
  cases path with
  | general =>
    refine ⟨?_, ?_, ?_⟩
    · intro k hk c hc
      have hk' := mem_generalTasks.mp hk
      obtain ⟨r, hr, hs, _⟩ := general_task_sound p hv k hk'
      have : taskCopies p .general remote k = rectCopies p k r := by
        show updateCopies p remote k = _
        rw [updateCopies_remote p hv remote k hk', updateCopies_local p k r hr]
      rw [this] at hc
      exact hs c hc
    · intro i j hi hj
      obtain ⟨k, hk, r, hr, hmem⟩ := general_complete p hv i j hi hj
      refine ⟨k, mem_generalTasks.mpr hk, ?_⟩
      show _ ∈ updateCopies p remote k
      rw [updateCopies_remote p hv remote k hk, updateCopies_local p k r hr]
      exact hmem
    · intro k hk k' hk' c hc c' hc' hi hj
      have h1 := mem_generalTasks.mp hk
      have h2 := mem_generalTasks.mp hk'
      obtain ⟨r, hr, _⟩ := general_task_sound p hv k h1
      obtain ⟨r', hr', _⟩ := general_task_sound p hv k' h2
      have e1 : taskCopies p .general remote k = rectCopies p k r := by
        show updateCopies p remote k = _
        rw [updateCopies_remote p hv remote k h1, updateCopies_local p k r hr]
      have e2 : taskCopies p .general remote k' = rectCopies p k' r' := by
        show updateCopies p remote k' = _
        rw [updateCopies_remote p hv remote k' h2, updateCopies_local p k' r' hr']
      rw [e1] at hc; rw [e2] at hc'
      exact general_disjoint p hv k k' h1 h2 r r' hr hr' c c' hc hc' hi hj
  | reshuffle =>
    have ho := hopt rfl
    refine ⟨?_, ?_, ?_⟩
    · intro k hk c hc
      exact (reshuffle_task_sound p hv ho k (mem_reshuffleTasks.mp hk)).1 c hc
    · intro i j hi hj
      obtain ⟨k, hk, hmem⟩ := reshuffle_complete p hv ho i j hi hj
      exact ⟨k, mem_reshuffleTasks.mpr hk, hmem⟩
    · intro k hk k' hk' c hc c' hc' hi hj
      exact reshuffle_disjoint p hv ho k k' (mem_reshuffleTasks.mp hk) (mem_reshuffleTasks.mp hk') c c' hc hc' hi hj

/-- **C21 (effect).**  `parsec_redistribute` copies the requested `size_row × size_col` window of the source,
    starting at the source displacement, to the target at the target displacement, and leaves every other
    target element unchanged — for all tile sizes, displacements, batch sizes, distributions (`remote`) and
    schedules (`order`), on both code paths.  The parameters of the statement are the caller's arguments. -/
theorem C21_window {α : Type} (dY dT : Desc) (hY : 0 < dY.mb ∧ 0 < dY.nb) (hT : 0 < dT.mb ∧ 0 < dT.nb)
    (sr sc diY djY diT djT : Int) (p : Params) (path : Path)
    (h : validate dY dT sr sc diY djY diT djT = some (p, path))
    (remote : Task → Bool) (order : List Task) (hperm : order.Perm (tasksOf p path))
    (src tgt : Nat → Nat → α) :
    applyCopies src (redistCopies p path remote order) tgt = windowSpec p src tgt ∧
    ((p.sizeRow : Int) = sr ∧ (p.sizeCol : Int) = sc ∧ (p.diY : Int) = diY ∧ (p.djY : Int) = djY ∧
     (p.diT : Int) = diT ∧ (p.djT : Int) = djT) := by
  obtain ⟨hv, hopt⟩ := accepted dY dT hY hT sr sc diY djY diT djT p path h
  obtain ⟨_, _, _, hargs, _⟩ := validate_spec dY dT hY hT sr sc diY djY diT djT p path h
  refine ⟨?_, hargs⟩
  cases path with
  | general => exact general_window p hv remote order hperm src tgt
  | reshuffle => exact reshuffle_window p hv (hopt rfl) order hperm src tgt

/-- **Memory safety of every block copy.**  Each `MOVE_SUBMATRIX` / `memcpy` issued by a task of the task
    space reads inside its source tile and writes inside its target tile, both tiles exist in their
    matrices, and the block is not empty. -/
theorem C21_in_bounds (dY dT : Desc) (hY : 0 < dY.mb ∧ 0 < dY.nb) (hT : 0 < dT.mb ∧ 0 < dT.nb)
    (sr sc diY djY diT djT : Int) (p : Params) (path : Path)
    (h : validate dY dT sr sc diY djY diT djT = some (p, path)) (k : Task) (hk : k ∈ tasksOf p path) :
    ∃ r, (match path with | .general => updateRect p k | .reshuffle => some (receiveRect p k)) = some r ∧
      r.dI + r.rows ≤ dT.mb ∧ r.dJ + r.cols ≤ dT.nb ∧ r.sI + r.rows ≤ dY.mb ∧ r.sJ + r.cols ≤ dY.nb ∧
      1 ≤ r.rows ∧ 1 ≤ r.cols ∧ k.mT < dT.lmt ∧ k.nT < dT.lnt ∧ k.mY < dY.lmt ∧ k.nY < dY.lnt := by
  obtain ⟨hv, hopt⟩ := accepted dY dT hY hT sr sc diY djY diT djT p path h
  obtain ⟨hp, _, _, _, b1, b2, b3, b4⟩ := validate_spec dY dT hY hT sr sc diY djY diT djT p path h
  have e1 : p.mbY = dY.mb := by rw [hp]; rfl
  have e2 : p.nbY = dY.nb := by rw [hp]; rfl
  have e3 : p.mbT = dT.mb := by rw [hp]; rfl
  have e4 : p.nbT = dT.nb := by rw [hp]; rfl
  -- a window copy of the block's first element locates the tiles inside the matrices
  have tiles : ∀ r : Rect, 1 ≤ r.rows → 1 ≤ r.cols → r.dI + r.rows ≤ p.mbT → r.dJ + r.cols ≤ p.nbT →
      r.sI + r.rows ≤ p.mbY → r.sJ + r.cols ≤ p.nbY → (∀ c ∈ rectCopies p k r, IsWindowCopy p c) →
      k.mT < dT.lmt ∧ k.nT < dT.lnt ∧ k.mY < dY.lmt ∧ k.nY < dY.lnt := by
    intro r h1 h2 _ _ _ _ hs
    obtain ⟨i, j, hi, hj, hc⟩ := hs _ (mem_rectCopies.mpr ⟨0, 0, by omega, by omega, rfl⟩)
    simp only [ECopy.mk.injEq] at hc
    obtain ⟨c1, c2, c3, c4⟩ := hc
    rw [e3] at c1; rw [e4] at c2; rw [e1] at c3; rw [e2] at c4
    refine ⟨?_, ?_, ?_, ?_⟩
    · apply Nat.lt_of_mul_lt_mul_left (a := dT.mb); rw [Nat.mul_comm dT.mb dT.lmt]; omega
    · apply Nat.lt_of_mul_lt_mul_left (a := dT.nb); rw [Nat.mul_comm dT.nb dT.lnt]; omega
    · apply Nat.lt_of_mul_lt_mul_left (a := dY.mb); rw [Nat.mul_comm dY.mb dY.lmt]; omega
    · apply Nat.lt_of_mul_lt_mul_left (a := dY.nb); rw [Nat.mul_comm dY.nb dY.lnt]; omega
  cases path with
  | general =>
    obtain ⟨r, hr, hs, q1, q2, q3, q4, q5, q6⟩ := general_task_sound p hv k (mem_generalTasks.mp hk)
    obtain ⟨t1, t2, t3, t4⟩ := tiles r q5 q6 q1 q2 q3 q4 hs
    exact ⟨r, hr, by omega, by omega, by omega, by omega, q5, q6, t1, t2, t3, t4⟩
  | reshuffle =>
    obtain ⟨hs, q1, q2, q3, q4, q5, q6⟩ := reshuffle_task_sound p hv (hopt rfl) k (mem_reshuffleTasks.mp hk)
    have z1 : (receiveRect p k).dI = 0 := rfl
    have z2 : (receiveRect p k).dJ = 0 := rfl
    have z3 : (receiveRect p k).sI = 0 := rfl
    have z4 : (receiveRect p k).sJ = 0 := rfl
    obtain ⟨t1, t2, t3, t4⟩ := tiles (receiveRect p k) q5 q6 (by omega) (by omega) (by omega) (by omega) hs
    exact ⟨receiveRect p k, rfl, by omega, by omega, by omega, by omega, q5, q6, t1, t2, t3, t4⟩

/-- The pack / send / unpack path (`rank_Y != rank_T`) performs the same element copies as the in-place path. -/
theorem C21_remote_eq_local (p : Params) (hv : p.Valid) (remote : Task → Bool) (k : Task) (hk : k ∈ generalTasks p) :
    updateCopies p remote k = updateCopies p (fun _ => false) k :=
  updateCopies_remote p hv remote k (mem_generalTasks.mp hk)

/-- Requests outside the API precondition are refused (`parsec_redistribute` then returns an error and runs
    no task): empty or negative sizes, negative displacements, a window that leaves the source or target. -/
theorem C21_refused (dY dT : Desc) (sr sc diY djY diT djT : Int)
    (h : sr < 1 ∨ sc < 1 ∨ diY < 0 ∨ djY < 0 ∨ diT < 0 ∨ djT < 0 ∨
         diY + sr > dY.lmt * dY.mb ∨ djY + sc > dY.lnt * dY.nb ∨
         diT + sr > dT.lmt * dT.mb ∨ djT + sc > dT.lnt * dT.nb) :
    validate dY dT sr sc diY djY diT djT = none :=
  validate_refuses dY dT sr sc diY djY diT djT h

/-- No subtraction evaluated on a taken branch of the general path goes negative (the `Nat` model and the
    C `int` code compute the same values). -/
theorem C21_no_underflow (d : Dim) (hv : d.Valid) (t : Nat) (ht1 : d.tStart ≤ t) (ht2 : t ≤ d.tEnd) :
    1 ≤ d.size + d.dT ∧ d.tStart ≤ d.tEnd ∧ d.dT % d.bT ≤ d.bT ∧
    (d.tEnd - d.tStart) * d.bT ≤ d.size + d.dT % d.bT ∧
    (t ≠ d.tStart → d.dT % d.bT ≤ (t - d.tStart) * d.bT) ∧
    1 ≤ d.srcPos t + d.tInner t ∧ d.iStart t ≤ d.bY ∧ 1 ≤ d.iStart t + d.tInner t ∧ d.yStart t ≤ d.yEnd t :=
  no_underflow d hv t ht1 ht2

/-- The reshuffle taskpool's `Send` and `Receive` task spaces correspond one to one along the dataflow. -/
theorem C21_reshuffle_dataflow (p : Params) (hv : p.Valid) (ho : p.optimized = true) (b mY nY : Nat) :
    (b, mY, nY) ∈ reshuffleSends p ↔ ∃ k ∈ reshuffleTasks p, k.batch = b ∧ k.mY = mY ∧ k.nY = nY :=
  reshuffle_send_receive p hv ho b mY nY

/-! ## the hypotheses are satisfiable on non-trivial requests -/

/-- source 2DBC 3×4 tiles on a 2×2 grid, target 2DBC 5×2 tiles on a 1×4 grid, unaligned window -/
def exY : Desc := ⟨.bc 2 1, 3, 4, 5, 4⟩
def exT : Desc := ⟨.bc 4 2, 5, 2, 4, 7⟩

example : validate exY exT 7 6 2 3 4 1 = some (⟨3, 4, 5, 2, 7, 6, 2, 3, 4, 1, 8⟩, .general) := by decide
example : (generalTasks ⟨3, 4, 5, 2, 7, 6, 2, 3, 4, 1, 8⟩).length = 16 := by decide
example : (redistCopies ⟨3, 4, 5, 2, 7, 6, 2, 3, 4, 1, 8⟩ .general (fun k => k.mY % 2 == 0)
            (generalTasks ⟨3, 4, 5, 2, 7, 6, 2, 3, 4, 1, 8⟩)).length = 42 := by decide

/-- same tile sizes, aligned displacements: the reshuffle taskpool, 2 batches -/
def exY2 : Desc := ⟨.bc 1 1, 3, 2, 6, 6⟩
def exT2 : Desc := ⟨.sbcLower 2, 3, 2, 8, 8⟩

example : validate exY2 exT2 8 5 3 4 15 2 = some (⟨3, 2, 3, 2, 8, 5, 3, 4, 15, 2, 2⟩, .reshuffle) := by decide
example : (reshuffleTasks ⟨3, 2, 3, 2, 8, 5, 3, 4, 15, 2, 2⟩).length = 9 := by decide
example : (reshuffleTasks ⟨3, 2, 3, 2, 8, 5, 3, 4, 15, 2, 2⟩).map (·.batch) = [0, 0, 0, 0, 0, 0, 1, 1, 1] := by decide

/-- a window that touches an unstored tile of a lower SBC target, an unsupported distribution, and a window
    leaving the source are refused -/
example : validate exY2 exT2 8 5 3 4 3 6 = none := by decide
example : validate exY2 ⟨.other, 3, 2, 8, 8⟩ 8 5 3 4 15 2 = none := by decide
example : validate exY2 exT2 16 5 3 4 3 2 = none := by decide

end ParsecVerif.C21
