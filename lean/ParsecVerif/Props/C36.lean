import ParsecVerif.Proofs.RbTree
import ParsecVerif.Proofs.RbTreeOrder
/-!
# C36 — the red-black tree keeps order and balance

Model: `ParsecVerif.RbTree` (functional mirror of parsec/class/parsec_rbtree.c: same comparisons,
rotations, recolourings, successor choice; tied to the real tree by a structural comparison after
every operation).  One step = one API call.  Quantification: every sequence of
`parsec_rbtree_insert` (duplicate keys allowed, as in the code), `parsec_rbtree_remove` and
`parsec_rbtree_update_node` calls, every key, every node identity.

`inorder t` is the list of (key, node id) in traversal order (what `parsec_rbtree_foreach` visits).
-/
namespace ParsecVerif.C36
open ParsecVerif.RbTree

/-- binary-search-tree order (non-strict: `insert` accepts equal keys and puts them to the right)
    and the red-black invariants: black root, no red node with a red child, every root-to-sentinel
    path of every subtree has the same number of black nodes. -/
structure Valid (t : Tree) : Prop where
  bst : Sorted (inorder t)
  rb : RB t

def keys (t : Tree) : List Int := (inorder t).map (·.1)

inductive Op
  | ins (k : Int) (z : Nat)      -- parsec_rbtree_insert of node z carrying key k
  | rm (z : Nat)                 -- parsec_rbtree_remove of node z   (issued only if z is in the tree)
  | upd (z : Nat) (k : Int)      -- parsec_rbtree_update_node(z, k)  (issued only if z is in the tree)

def apply (t : Tree) : Op → Tree
  | .ins k z => RbTree.insert t k z
  | .rm z => if hasId z t then remove t z else t
  | .upd z k => if hasId z t then (update t z k).getD t else t

def runFrom (t : Tree) (ops : List Op) : Tree := ops.foldl apply t
def run (ops : List Op) : Tree := runFrom Tree.nil ops

theorem valid_nil : Valid Tree.nil := ⟨List.Pairwise.nil, rb_nil⟩

/-! ## single operations on an arbitrary valid tree -/

/-- insert: the traversal gains (k, z) after the last key ≤ k, and stays valid. -/
theorem insert_spec (t : Tree) (k : Int) (z : Nat) (h : Valid t) :
    inorder (RbTree.insert t k z) = insList k z (inorder t) ∧ Valid (RbTree.insert t k z) := by
  have e : inorder (RbTree.insert t k z) = insList k z (inorder t) := by
    unfold RbTree.insert; rw [inorder_setColor, inorder_ins k z t h.bst]
  exact ⟨e, ⟨by rw [e]; exact sorted_insList k z _ h.bst, rb_insert t k z h.rb⟩⟩

/-- remove: exactly node z leaves the traversal, and the tree stays valid. -/
theorem remove_spec (t : Tree) (z : Nat) (h : Valid t) :
    inorder (remove t z) = eraseId z (inorder t) ∧ Valid (remove t z) :=
  ⟨inorder_remove t z, ⟨by rw [inorder_remove]; exact sorted_eraseId z _ h.bst, rb_remove t z h.rb⟩⟩

/-- update_node: `PARSEC_ERR_EXISTS` (tree untouched) exactly when another node carries the new
    key; otherwise node z carries the new key, nothing else changed, and the tree is valid — on
    both the in-place path and the remove + insert path. -/
theorem update_spec (t : Tree) (z : Nat) (new : Int) (h : Valid t) (hz : hasId z t = true) :
    (update t z new = none ↔ new ∈ (eraseId z (inorder t)).map (·.1)) ∧
    (∀ t', update t z new = some t' →
        Valid t' ∧ (inorder t').Perm ((new, z) :: eraseId z (inorder t))) := by
  obtain ⟨L, k, R, hl, hL⟩ := split_at_id z (inorder t) (by rw [anyId_inorder]; exact hz)
  have hs := h.bst
  rw [hl] at hs
  have hp : predKey z none t = L.getLast?.map (·.1) := by
    rw [predKey_eq z t none hz, hl, predL_split z L R k hL]
  have hq : succKey z none t = R.head?.map (·.1) := by
    rw [succKey_eq z t none hz, hl, succL_split z L R k hL]
  have he : eraseId z (inorder t) = L ++ R := by rw [hl, eraseId_split z L R k hL]
  obtain ⟨d1, d2, d3⟩ := updDecide_spec z new L R k hs
  rw [← hp, ← hq] at d1 d2 d3
  rw [he]
  unfold update
  cases hd : updDecide (predKey z none t) (succKey z none t) new with
  | none =>
    simp only []
    exact ⟨⟨fun _ => d1 hd, fun _ => trivial⟩, fun t' ht' => nomatch ht'⟩
  | some b =>
    cases b with
    | false =>
      obtain ⟨hnot, hsort⟩ := d2 hd
      simp only []
      refine ⟨by simp only [reduceCtorEq, false_iff]; exact hnot, ?_⟩
      intro t' ht'
      simp only [Option.some.injEq] at ht'
      subst ht'
      have e : inorder (setKey z new t) = L ++ (new, z) :: R := by
        rw [inorder_setKey, hl, setKeyL_split z new L R k hL]
      refine ⟨⟨by rw [e]; exact hsort, rb_setKey t z new h.rb⟩, ?_⟩
      rw [e]; exact List.perm_middle
    | true =>
      have hne := d3 hd
      simp only []
      have hf := find_spec new t h.bst
      cases hfind : find new t with
      | some p =>
        obtain ⟨hp1, hp2⟩ := hf.1 p hfind
        simp only [Option.isSome_some, if_true, true_iff]
        constructor
        · rw [hl] at hp2
          simp only [List.mem_append, List.mem_cons] at hp2
          simp only [List.map_append, List.mem_append, List.mem_map]
          rcases hp2 with hp2 | rfl | hp2
          · exact Or.inl ⟨p, hp2, hp1⟩
          · exact absurd hp1.symm hne
          · exact Or.inr ⟨p, hp2, hp1⟩
        · intro t' ht'; simp at ht'
      | none =>
        have hnone := hf.2 hfind
        simp only [Option.isSome_none, Bool.false_eq_true, if_false, reduceCtorEq, false_iff]
        constructor
        · intro hmem
          simp only [List.mem_map] at hmem
          obtain ⟨p, hp, hpn⟩ := hmem
          have : p ∈ inorder t := by
            rw [hl]
            simp only [List.mem_append, List.mem_cons] at hp ⊢
            rcases hp with hp | hp
            · exact Or.inl hp
            · exact Or.inr (Or.inr hp)
          exact hnone p this hpn
        · intro t' ht'
          simp only [Option.some.injEq] at ht'
          subst ht'
          obtain ⟨e1, v1⟩ := remove_spec t z h
          obtain ⟨e2, v2⟩ := insert_spec (remove t z) new z v1
          refine ⟨v2, ?_⟩
          rw [e2, e1, he]
          exact insList_perm new z _

/-! ## all operation sequences -/

theorem valid_apply (t : Tree) (h : Valid t) (op : Op) : Valid (apply t op) := by
  cases op with
  | ins k z => exact (insert_spec t k z h).2
  | rm z =>
    simp only [apply]; split
    · exact (remove_spec t z h).2
    · exact h
  | upd z k =>
    simp only [apply]; split
    · rename_i hz
      cases hu : update t z k with
      | none => exact h
      | some t' => exact ((update_spec t z k h hz).2 t' hu).1
    · exact h

theorem valid_runFrom (t : Tree) (h : Valid t) (ops : List Op) : Valid (runFrom t ops) := by
  unfold runFrom
  induction ops generalizing t with
  | nil => exact h
  | cons op ops ih => exact ih _ (valid_apply t h op)

/-- **C36, order.**  After any sequence of insertions, removals and key updates the in-order
    traversal is sorted: the tree is a binary search tree. -/
theorem bst (ops : List Op) : Sorted (inorder (run ops)) := (valid_runFrom _ valid_nil ops).bst

/-- **C36, red-black invariants.**  After any sequence of insertions, removals and key updates:
    the root is black, no red node has a red child, and all root-to-sentinel paths of every subtree
    carry the same number of black nodes. -/
theorem rb (ops : List Op) :
    isRed (run ops) = false ∧ NoRR (run ops) ∧ Balanced (run ops) :=
  let h := (valid_runFrom _ valid_nil ops).rb
  ⟨h.rootBlack, h.noRR, h.balanced⟩

/-- **C36, balance.**  Consequence of the invariants: a reachable tree with n nodes has height
    at most 2·log2(n+1). -/
theorem height_bound (ops : List Op) : 2 ^ (height (run ops) / 2) ≤ size (run ops) + 1 := by
  have h : RB (run ops) := (valid_runFrom _ valid_nil ops).rb
  have h1 := height_le (run ops) h.noRR h.balanced
  rw [h.rootBlack] at h1
  simp only [Bool.false_eq_true, if_false, Nat.add_zero] at h1
  have h2 := size_ge (run ops) h.balanced
  exact Nat.le_trans (Nat.pow_le_pow_right (by decide) (by omega)) h2

/-- **C36, exact lookup** finds exactly the stored keys: on every reachable tree, `find q` returns
    a node of the tree carrying key q if some node carries q, and NULL otherwise. -/
theorem find_correct (ops : List Op) (q : Int) :
    (q ∈ keys (run ops) → ∃ i, find q (run ops) = some (q, i) ∧ (q, i) ∈ inorder (run ops)) ∧
    (q ∉ keys (run ops) → find q (run ops) = none) := by
  have hs := bst ops
  generalize run ops = t at *
  have hf := find_spec q t hs
  constructor
  · intro hq
    cases hfind : find q t with
    | none =>
      simp only [keys, List.mem_map] at hq
      obtain ⟨p, hp, hpq⟩ := hq
      exact absurd hpq (hf.2 hfind p hp)
    | some p =>
      obtain ⟨h1, h2⟩ := hf.1 p hfind
      obtain ⟨pk, pi⟩ := p
      simp only at h1; subst h1
      exact ⟨pi, rfl, h2⟩
  · intro hq
    cases hfind : find q t with
    | none => rfl
    | some p =>
      obtain ⟨h1, h2⟩ := hf.1 p hfind
      exact absurd (by simp only [keys, List.mem_map]; exact ⟨p, h2, h1⟩) hq

/-- **C36, lookup-or-larger** returns a node carrying the smallest stored key not below the query,
    and NULL exactly when every stored key is below the query. -/
theorem find_or_larger_correct (ops : List Op) (q : Int) :
    ((∃ k ∈ keys (run ops), q ≤ k) → ∃ m, findOrLarger q (run ops) = some m ∧ m ∈ inorder (run ops) ∧
        q ≤ m.1 ∧ ∀ k ∈ keys (run ops), q ≤ k → m.1 ≤ k) ∧
    ((∀ k ∈ keys (run ops), k < q) → findOrLarger q (run ops) = none) := by
  have hs := bst ops
  generalize run ops = t at *
  have hf := folAux_spec q t none hs
  unfold findOrLarger
  constructor
  · rintro ⟨k, hk, hqk⟩
    simp only [keys, List.mem_map] at hk
    obtain ⟨p, hp, rfl⟩ := hk
    obtain ⟨m, hm, hmem, hqm, hmin⟩ := hf.2 ⟨p, hp, hqk⟩
    refine ⟨m, hm, hmem, hqm, ?_⟩
    intro k hk hqk
    simp only [keys, List.mem_map] at hk
    obtain ⟨p', hp', rfl⟩ := hk
    exact hmin p' hp' hqk
  · intro hall
    exact hf.1 (fun p hp => hall p.1 (by simp only [keys, List.mem_map]; exact ⟨p, hp, rfl⟩))

/-- **C36, contents**: what each operation does to the stored (key, node) pairs on a reachable tree. -/
theorem contents (ops : List Op) :
    (∀ k z, inorder (RbTree.insert (run ops) k z) = insList k z (inorder (run ops))) ∧
    (∀ z, inorder (remove (run ops) z) = eraseId z (inorder (run ops))) ∧
    (∀ z new, hasId z (run ops) = true →
      (update (run ops) z new = none ↔ new ∈ (eraseId z (inorder (run ops))).map (·.1)) ∧
      (∀ t', update (run ops) z new = some t' →
        (inorder t').Perm ((new, z) :: eraseId z (inorder (run ops))))) := by
  have hv := valid_runFrom _ valid_nil ops
  refine ⟨fun k z => (insert_spec _ k z hv).1, fun z => inorder_remove _ z, ?_⟩
  intro z new hz
  have := update_spec _ z new hv hz
  exact ⟨this.1, fun t' ht' => (this.2 t' ht').2⟩

/-! ## node identities stay unique when every inserted node is a node that is not in the tree -/

def ids (t : Tree) : List Nat := (inorder t).map (·.2)

def freshOp (t : Tree) : Op → Prop
  | .ins _ z => hasId z t = false
  | _ => True

/-- the usage protocol of the C API: a node is never inserted while it is already in the tree -/
def FreshFrom : Tree → List Op → Prop
  | _, [] => True
  | t, op :: ops => freshOp t op ∧ FreshFrom (apply t op) ops

theorem not_mem_ids_of_hasId_false (t : Tree) (z : Nat) (h : hasId z t = false) : z ∉ ids t := by
  rw [hasId_eq_any] at h
  intro hm
  simp only [ids, List.mem_map] at hm
  obtain ⟨p, hp, hpz⟩ := hm
  have : (inorder t).any (fun p => p.2 == z) = true := List.any_eq_true.2 ⟨p, hp, by simp [hpz]⟩
  rw [h] at this; exact absurd this (by simp)

theorem ids_nodup_apply (t : Tree) (hv : Valid t) (hn : (ids t).Nodup) (op : Op) (hf : freshOp t op) :
    (ids (apply t op)).Nodup := by
  cases op with
  | ins k z =>
    have e := (insert_spec t k z hv).1
    have hp : (ids (RbTree.insert t k z)).Perm (z :: ids t) := by
      unfold ids; rw [e]; exact (insList_perm k z _).map _
    show (ids (RbTree.insert t k z)).Nodup
    rw [hp.nodup_iff, List.nodup_cons]
    exact ⟨not_mem_ids_of_hasId_false t z hf, hn⟩
  | rm z =>
    simp only [apply]; split
    · unfold ids; rw [inorder_remove]
      exact ((eraseId_sublist z _).map _).nodup hn
    · exact hn
  | upd z k =>
    simp only [apply]; split
    · rename_i hz
      cases hu : update t z k with
      | none => exact hn
      | some t' =>
        have hp := ((update_spec t z k hv hz).2 t' hu).2
        obtain ⟨L, k0, R, hl, hL⟩ := split_at_id z (inorder t) (by rw [anyId_inorder]; exact hz)
        have he : eraseId z (inorder t) = L ++ R := by rw [hl, eraseId_split z L R k0 hL]
        rw [he] at hp
        have hp' : (ids t').Perm (z :: (L ++ R).map (·.2)) := by unfold ids; exact hp.map _
        show (ids t').Nodup
        rw [hp'.nodup_iff]
        unfold ids at hn
        rw [hl] at hn
        simp only [List.map_append, List.map_cons, List.nodup_append, List.nodup_cons, List.mem_append,
          List.mem_cons] at hn ⊢
        refine ⟨?_, hn.1, hn.2.1.2, ?_⟩
        · rintro (h | h)
          · exact hn.2.2 z h z (Or.inl rfl) rfl
          · exact hn.2.1.1 h
        · intro a ha b hb
          exact hn.2.2 a ha b (Or.inr hb)
    · exact hn

/-- **node identities**: under the API's usage protocol every node is in the tree at most once, so
    `eraseId z` / "the node z" in the statements above denote one definite node. -/
theorem ids_nodup (ops : List Op) (hf : FreshFrom Tree.nil ops) : (ids (run ops)).Nodup := by
  have key : ∀ (ops : List Op) (t : Tree), Valid t → (ids t).Nodup → FreshFrom t ops → (ids (runFrom t ops)).Nodup := by
    intro ops
    induction ops with
    | nil => intro t _ hn _; exact hn
    | cons op ops ih =>
      intro t hv hn hf
      exact ih (apply t op) (valid_apply t hv op) (ids_nodup_apply t hv hn op hf.1) hf.2
  exact key ops Tree.nil valid_nil List.nodup_nil hf

/-! ## non-vacuity: the hypotheses are satisfiable on non-trivial states -/

def demoOps : List Op :=
  [.ins 50 0, .ins 30 1, .ins 70 2, .ins 20 3, .ins 40 4, .ins 60 5, .ins 80 6, .ins 10 7, .ins 30 8, .rm 3, .upd 7 45]

/-- the demo history reaches a 8-node tree with a duplicate key and a re-inserted node -/
example : keys (run demoOps) = [30, 30, 40, 45, 50, 60, 70, 80] := by decide
example : Valid (run demoOps) := valid_runFrom _ valid_nil _
example : hasId 7 (run demoOps) = true := by decide
example : FreshFrom Tree.nil demoOps := by simp [demoOps, FreshFrom, freshOp, apply]; decide
/-- update in place, update by remove + insert, and the EXISTS answer all occur -/
example : (update (run demoOps) 7 47).isSome = true ∧ (update (run demoOps) 7 65).isSome = true ∧
    update (run demoOps) 7 60 = none := by decide
example : find 45 (run demoOps) = some (45, 7) ∧ find 46 (run demoOps) = none := by decide
example : findOrLarger 46 (run demoOps) = some (50, 0) ∧ findOrLarger 81 (run demoOps) = none := by decide
/-- a removal that runs the fix-up through the red-sibling case -/
example : (del 7 (run [.ins 1 0, .ins 2 1, .ins 3 2, .ins 4 3, .ins 5 4, .ins 6 5, .ins 7 6, .ins 8 7, .rm 0])).2 = DStat.ok := by decide

end ParsecVerif.C36
