import ParsecVerif.Proofs.ReshapeAns
import ParsecVerif.Props.C29
/-!
# C18 — typed PTG flows deliver correctly converted copies

Model: `ParsecVerif.Reshape` (Model/Reshape.lean).
* the conversion `parsec_ce.reshape` = `MPI_Sendrecv` to self = `unpack ty_dst (pack ty_src tile)` into a fresh copy,
  with the element lists the real `parsec_matrix_define_datatype` builds (C19, as coded);
* the promise protocol = C29's data-copy future machine, every interleaving, extended with a heap of copies.

Quantification: every `uplo` code and every `diag : Int` (not only the six named shapes), every tile size `m n`, every
leading dimension `ld ≥ m`, every content of the producer's tile and of the fresh copy, every match function, every
choice of synchronous / deferred fulfilment, every thread count, program and schedule.

What is NOT a theorem here: that the generated code asks for the conversion the JDF annotations document (the
placement decisions of jdf2c and `parsec_set_up_reshape_promise`).  That part is exercised by the tie (checks/C18.py)
against the interpreter of Model/Reshape.lean part 3, and is where finding F1 lives (`mixed_output_types_witness`).
-/
namespace ParsecVerif.C18
open ParsecVerif.MatrixTypes ParsecVerif.Reshape ParsecVerif.Future

/-- the region of a shape: `[ j*ld + i | j < n, i < m, (i, j) selected ]` in column-major order (C19) -/
abbrev region (s : Shape) (m n ld : Nat) : List Nat := regionOffsets s.uplo (C19.withDiag s.diag) m n ld

/-- **C18, selected elements (every pair of shapes, every size).**  The fresh copy keeps its length; the k-th element
    of the consumer's region (column-major order) holds the k-th element of the producer's region, for every k both
    regions have; every other cell of the copy — the rest of the consumer's region when the producer's is smaller, and
    everything outside the consumer's region — keeps the content the fresh copy had. -/
theorem C18_selected (s d : Shape) (m n ld : Nat) (hld : m ≤ ld) (src init : Mem) (hinit : footprint m n ld ≤ init.length) :
    (reshape s d m n ld src init).length = init.length ∧
    (∀ (k : Nat) (hS : k < (region s m n ld).length) (hD : k < (region d m n ld).length),
      rd (reshape s d m n ld src init) (region d m n ld)[k] = rd src (region s m n ld)[k]) ∧
    (∀ x, x ∉ (region d m n ld).take (region s m n ld).length → rd (reshape s d m n ld src init) x = rd init x) := by
  unfold reshape sendrecv
  rw [typeOffs_eq s, typeOffs_eq d]
  refine ⟨unpack_length _ _ _, ?_, ?_⟩
  · intro k hS hD
    have hnd := region_nodup d.uplo (C19.withDiag d.diag) m n ld hld
    have hb : ∀ o ∈ region d m n ld, o < init.length := fun o ho =>
      Nat.lt_of_lt_of_le (region_lt_footprint _ _ _ _ _ _ ho) hinit
    have hv : k < (pack (region s m n ld) src).length := by rw [pack_length]; exact hS
    rw [rd_unpack_get (region d m n ld) (pack (region s m n ld) src) init hnd hb k hD hv]
    exact pack_get _ _ k hS
  · intro x hx
    apply rd_unpack_not_mem
    rw [pack_length]; exact hx

/-- **C18, selected elements, position by position.**  When producer and consumer declare the same region (the same
    shape, or two datatype handles of the same shape), every element `(i, j)` of the declared region equals the
    producer's element at the same position, and every cell that is not in the region keeps the fresh copy's content. -/
theorem C18_selected_same (s d : Shape) (m n ld : Nat) (hld : m ≤ ld) (src init : Mem) (hinit : footprint m n ld ≤ init.length)
    (hsame : region s m n ld = region d m n ld) :
    (∀ i j, i < m → j < n → inRegion d.uplo (C19.withDiag d.diag) i j = true →
      rd (reshape s d m n ld src init) (j * ld + i) = rd src (j * ld + i)) ∧
    (∀ x, (¬ ∃ i j, i < m ∧ j < n ∧ inRegion d.uplo (C19.withDiag d.diag) i j = true ∧ x = j * ld + i) →
      rd (reshape s d m n ld src init) x = rd init x) := by
  obtain ⟨_, h2, h3⟩ := C18_selected s d m n ld hld src init hinit
  constructor
  · intro i j hi hj hr
    have hx : j * ld + i ∈ region d m n ld := (mem_region _ _ _ _ _ _).2 ⟨i, j, hi, hj, hr, rfl⟩
    obtain ⟨k, hk, hkx⟩ := List.getElem_of_mem hx
    have hk' : k < (region s m n ld).length := by rw [hsame]; exact hk
    have := h2 k hk' hk
    rw [hkx] at this
    rw [this]
    congr 1
    have : (region s m n ld)[k] = (region d m n ld)[k] := by simp [hsame]
    rw [this, hkx]
  · intro x hx
    apply h3
    intro hm
    exact hx ((mem_region _ _ _ _ _ _).1 (List.mem_of_mem_take hm))

/-- in particular for one and the same shape on both sides (`[type = t]` on the output dependency only, or the same
    type on both ends) -/
theorem C18_selected_refl (s : Shape) (m n ld : Nat) (hld : m ≤ ld) (src init : Mem) (hinit : footprint m n ld ≤ init.length) :
    (∀ i j, i < m → j < n → inRegion s.uplo (C19.withDiag s.diag) i j = true →
      rd (reshape s s m n ld src init) (j * ld + i) = rd src (j * ld + i)) ∧
    (∀ x, (¬ ∃ i j, i < m ∧ j < n ∧ inRegion s.uplo (C19.withDiag s.diag) i j = true ∧ x = j * ld + i) →
      rd (reshape s s m n ld src init) x = rd init x) :=
  C18_selected_same s s m n ld hld src init hinit rfl

/-- The position-by-position reading is FALSE for two different shapes, even on the intersection of the regions:
    lower → upper on a 3 × 3 tile puts the producer's element (2, 0) at the diagonal position (1, 1), which belongs to
    both regions.  (Documented behaviour: "Pack t1, Unpack t2", CHANGELOG.ptg.md; tests/collections/reshape/local_input_LU_LL.jdf.) -/
theorem positionwise_needs_equal_regions :
    inRegion LOWER true 1 1 = true ∧ inRegion UPPER true 1 1 = true ∧
    rd (reshape ⟨LOWER, 1⟩ ⟨UPPER, 1⟩ 3 3 3 [10, 11, 12, 13, 14, 15, 16, 17, 18] (List.replicate 9 0)) (1 * 3 + 1) = 12 := by decide

/-- the destination of a conversion is written only inside the footprint of the tile: no write past the arena element -/
theorem C18_in_bounds (s d : Shape) (m n ld : Nat) (hld : m ≤ ld) (src init : Mem) (hinit : footprint m n ld ≤ init.length)
    (x : Nat) (hx : footprint m n ld ≤ x) : rd (reshape s d m n ld src init) x = rd init x := by
  apply (C18_selected s d m n ld hld src init hinit).2.2
  intro hm
  have := region_lt_footprint _ _ _ _ _ _ (List.mem_of_mem_take hm)
  omega

/-! ## Memory and the promise protocol (all interleavings) -/

/-- the producer's tile is the first copy of the heap, always -/
theorem heap_head (cfg : Cfg) (env : Env) (b : Nat) (pre : Bool) (progs : List (List DOp)) (sched : List Nat) :
    (hrun cfg env b pre progs sched).heap[0]? = some (if pre then valOf 1 b else 0, env.tile) := by
  obtain ⟨l, hl⟩ := foldl_hstep_prefix cfg env sched (hinit env b pre progs)
  unfold hrun
  rw [← hl]; rfl

/-- **C18, isolation.**  For every match function, every choice of synchronous / deferred fulfilment, every program of
    every thread and every schedule `sched ++ more`: every copy that exists after `sched` — the producer's tile (entry 0)
    and the copies fulfilled so far for other shapes — is still there with the same contents after `more`; the producer's
    tile is entry 0 throughout; and every other copy differs from fresh arena memory only inside the region of its own
    destination shape and inside the arena element (so a fulfilment writes its own fresh copy and nothing else). -/
theorem C18_isolated (cfg : Cfg) (env : Env) (b : Nat) (pre : Bool) (progs : List (List DOp)) (sched more : List Nat)
    (hld : env.m ≤ env.ld) (hfresh : footprint env.m env.n env.ld ≤ env.fresh.length) :
    (∀ i, i < (hrun cfg env b pre progs sched).heap.length →
      (hrun cfg env b pre progs (sched ++ more)).heap[i]? = (hrun cfg env b pre progs sched).heap[i]?) ∧
    (hrun cfg env b pre progs (sched ++ more)).heap[0]? = some (if pre then valOf 1 b else 0, env.tile) ∧
    (∀ e ∈ (hrun cfg env b pre progs (sched ++ more)).heap.tail, ∃ r, e = (valOf 1 r, copyFor env r) ∧
      e.2.length = env.fresh.length ∧
      ∀ x, x ∉ region (env.dstOf r) env.m env.n env.ld → rd e.2 x = rd env.fresh x) := by
  refine ⟨?_, ?_, ?_⟩
  · intro i hi
    rw [hrun_append]
    obtain ⟨l, hl⟩ := foldl_hstep_prefix cfg env more (hrun cfg env b pre progs sched)
    rw [← hl, List.getElem?_append_left hi]
  · exact heap_head cfg env b pre progs (sched ++ more)
  · intro e he
    obtain ⟨r, hr⟩ := (hinv_run cfg env b pre progs (sched ++ more)).tail e he
    refine ⟨r, hr, ?_, ?_⟩
    · rw [hr]; exact (C18_selected _ _ _ _ _ hld env.tile env.fresh hfresh).1
    · intro x hx
      rw [hr]
      apply (C18_selected _ _ _ _ _ hld env.tile env.fresh hfresh).2.2
      exact fun hm => hx (List.mem_of_mem_take hm)

/-- copies have pairwise distinct handles: one copy per handle, never a second allocation for the same promise -/
theorem C18_one_copy_per_handle (cfg : Cfg) (env : Env) (b : Nat) (pre : Bool) (progs : List (List DOp)) (sched : List Nat) :
    (Keys (hrun cfg env b pre progs sched).heap).Nodup := (hinv_run cfg env b pre progs sched).keys

/-- the fulfilment callback of every promise runs at most once (C29 on the `d` component) -/
theorem C18_fulfil_once (cfg : Cfg) (env : Env) (b : Nat) (pre : Bool) (progs : List (List DOp)) (sched : List Nat) :
    ∀ fu ∈ (hrun cfg env b pre progs sched).d.futs, fu.cb ≤ 1 := by
  rw [hrun_d]; intro fu hfu; exact (C29.C29_trigger_once cfg b pre progs sched fu hfu).1

/-- contents of the copy whose handle is the value of a promise of shape `sh` -/
theorem lookup_key (cfg : Cfg) (env : Env) (b : Nat) (pre : Bool) (progs : List (List DOp)) (sched : List Nat)
    (v sh : Nat) (hv : v = valOf 1 sh) (hkey : hasKey (hrun cfg env b pre progs sched).heap v = true) :
    lookup (hrun cfg env b pre progs sched).heap v = some (if pre = true ∧ sh = b then env.tile else copyFor env sh) := by
  have hI := hinv_run cfg env b pre progs sched
  obtain ⟨e, he, hk, hl⟩ := lookup_of_hasKey _ _ hkey
  rw [hl]
  have h0 := heap_head cfg env b pre progs sched
  have hkeys := hI.keys
  have htail := hI.tail
  generalize (hrun cfg env b pre progs sched).heap = heap at he h0 hkeys htail
  cases heap with
  | nil => simp at he
  | cons e0 tl =>
    have he0 : e0 = (if pre then valOf 1 b else 0, env.tile) := by simpa using h0
    simp only [Keys, List.map_cons, List.nodup_cons] at hkeys
    rcases List.mem_cons.1 he with rfl | het
    · -- the producer's own copy
      rw [he0] at hk ⊢
      cases pre with
      | true =>
        simp only [if_true] at hk
        have : b = sh := valOf_inj _ _ (by rw [hk, hv])
        simp [this]
      | false =>
        simp only [Bool.false_eq_true, if_false] at hk
        rw [hv] at hk; unfold valOf at hk; omega
    · obtain ⟨sh', hsh⟩ := htail e (by simpa using het)
      have hshape : sh' = sh := valOf_inj _ _ (by rw [← hv, ← hk, hsh])
      have hne : ¬ (pre = true ∧ sh = b) := by
        rintro ⟨hp, hb⟩
        apply hkeys.1
        rw [he0, hp]
        simp only [if_true]
        refine List.mem_map.2 ⟨e, het, ?_⟩
        rw [hk, hv, hb]
      rw [if_neg hne, hsh, hshape]

/-- contents of the copy named by a completed promise -/
theorem lookup_completed (cfg : Cfg) (env : Env) (b : Nat) (pre : Bool) (progs : List (List DOp)) (sched : List Nat)
    (fu : Fut) (hfu : fu ∈ (hrun cfg env b pre progs sched).d.futs) (hc : fu.compl = true) :
    lookup (hrun cfg env b pre progs sched).heap fu.data =
      some (if pre = true ∧ fu.shape = b then env.tile else copyFor env fu.shape) := by
  have hI := hinv_run cfg env b pre progs sched
  exact lookup_key cfg env b pre progs sched fu.data fu.shape ((hI.d.futs fu hfu).2 hc) (hI.compl fu hfu hc)

/-- **C18, sharing.**  For every match function, synchronous / deferred fulfilment, programs and schedule: any two
    consumers whose requests fall in the same match class and that obtained a copy obtained THE SAME copy (same handle);
    that handle is the value of the unique promise of the class, and the heap holds exactly one copy with this handle
    (`C18_one_copy_per_handle`): the producer's own tile for a fulfilled base promise, otherwise the conversion
    `unpack ty_dst (pack ty_src tile)` for the promise's shape.  (A non-NULL answer is only ever produced from a COMPLETED
    promise: `ansInv_run`.) -/
theorem C18_shared (cfg : Cfg) (env : Env) (b : Nat) (pre : Bool) (progs : List (List DOp)) (sched : List Nat) :
    ∀ th1 ∈ (hrun cfg env b pre progs sched).d.thr, ∀ th2 ∈ (hrun cfg env b pre progs sched).d.thr, ∀ r1 v1 r2 v2,
      (DOp.trig r1, v1) ∈ th1.res → (DOp.trig r2, v2) ∈ th2.res → v1 ≠ 0 → v2 ≠ 0 →
      C29.reqClass cfg (hrun cfg env b pre progs sched).d r1 = C29.reqClass cfg (hrun cfg env b pre progs sched).d r2 →
      v1 = v2 ∧ ∃ (f : Nat) (fu : Fut), (hrun cfg env b pre progs sched).d.futs[f]? = some fu ∧ v1 = valOf 1 fu.shape ∧
        cfg.cls fu.shape = C29.reqClass cfg (hrun cfg env b pre progs sched).d r1 ∧
        lookup (hrun cfg env b pre progs sched).heap v1 =
          some (if pre = true ∧ fu.shape = b then env.tile else copyFor env fu.shape) := by
  intro th1 h1 th2 h2 r1 v1 r2 v2 hm1 hm2 hv1 hv2 hcl
  have hd := hrun_d cfg env b pre progs sched
  refine ⟨?_, ?_⟩
  · rw [hd] at h1 h2 hcl
    exact C29.C29_dc_one_value_per_class cfg b pre progs sched th1 h1 th2 h2 r1 v1 r2 v2 hm1 hm2 hv1 hv2 hcl
  · have hv := C29.C29_dc_values cfg b pre progs sched th1 (by rw [← hd]; exact h1) r1 v1 hm1
    rcases hv with h0 | ⟨f, fu, hf, hval, hc, _⟩
    · exact absurd h0 hv1
    · refine ⟨f, fu, by rw [hd]; exact hf, hval, by rw [hd]; exact hc, ?_⟩
      have hkey : hasKey (hrun cfg env b pre progs sched).heap v1 = true := by
        rcases ((ansInv_run cfg env b pre progs sched) th1 h1).1 r1 v1 hm1 with h0 | hk
        · exact absurd h0 hv1
        · exact hk
      exact lookup_key cfg env b pre progs sched v1 fu.shape hval hkey

/-! ## The interpreter of the tie and the theorems

Every view the interpreter (Model/Reshape.lean part 3) predicts is the producer's own copy or an instance of the conversion
`reshape`, so `C18_selected` applies to it; and outside finding F1 the behaviour as coded is the documented one. -/

theorem basePromise_cases (p : Prog) (pc : Copy) (ot : Option Nat) :
    basePromise p pc ot = (pc.dtt, pc, true) ∨
    ∃ t, basePromise p pc ot = (t, ⟨t, sendrecv (offsOf p t) (offsOf p t) pc.mem (freshMem p)⟩, false) := by
  unfold basePromise
  cases ot with
  | none => exact Or.inl rfl
  | some o =>
    simp only []
    by_cases ho : o = pc.dtt
    · rw [if_pos ho]; exact Or.inl rfl
    · rw [if_neg ho]; exact Or.inr ⟨o, rfl⟩

/-- every view of the interpreter is the producer's own copy or an instance of the conversion the theorems are about -/
theorem localView_is_reshape (p : Prog) (pc : Copy) (ot : Option Nat) (c : Cons) :
    (localView p pc ot c).1 = pc ∨ ∃ s d, (localView p pc ot c).1 = ⟨d, reshape (shapeOf s) (shapeOf d) p.mb p.nb p.ld pc.mem (freshMem p)⟩ := by
  rcases basePromise_cases p pc ot with h | ⟨t0, h⟩
  · cases hit : c.it with
    | none => left; simp [localView, h, hit]
    | some t =>
      by_cases ht : t = pc.dtt
      · left; simp [localView, h, hit, ht]
      · right; exact ⟨pc.dtt, t, by simp [localView, h, hit, ht, reshape, offsOf]⟩
  · cases hit : c.it with
    | none => right; exact ⟨t0, t0, by simp [localView, h, hit, reshape, offsOf]⟩
    | some t =>
      by_cases ht : t = t0
      · right; exact ⟨t0, t0, by simp [localView, h, hit, ht, reshape, offsOf]⟩
      · right; exact ⟨t0, t, by simp [localView, h, hit, ht, reshape, offsOf]⟩

theorem remoteView_is_reshape (p : Prog) (w k ci : Nat) (c : Cons) :
    ∃ s d, (remoteView p w k ci c).1 = ⟨d, reshape (shapeOf s) (shapeOf d) p.mb p.nb p.ld (prodOut p k).mem (freshMem p)⟩ := by
  refine ⟨c.orr.getD (prodOut p k).dtt, recvType c, ?_⟩
  unfold remoteView
  simp only []
  split <;> rfl

/-- outside finding F1 (no producer instance has local output dependencies of different types) the behaviour as coded is
    the documented one for every local consumer -/
theorem coded_eq_doc_of_not_mixed (p : Prog) (w k : Nat) (c : Cons) (hk : k < p.nt) (hc : c ∈ p.cons) (hl : isLocal w k c = true)
    (h : mixedLocal p w = false) : localViewCoded p w k c = localViewDoc p k c := by
  unfold mixedLocal at h
  have h1 := (List.any_eq_false.1 h) k (List.mem_range.2 hk)
  have h2 : (firstLocalType p w k).getD c.ot = c.ot := by
    have := (by simpa using h1 : ∀ (x : Cons), x ∈ p.cons → isLocal w k x = true → (firstLocalType p w k).getD x.ot = x.ot)
    exact this c hc hl
  unfold localViewCoded localViewDoc
  rw [h2]

/-! ## Non-vacuity and the finding -/

/-- the conversions of tests/collections/reshape on a 3 × 3 tile: lower → lower keeps positions, lower → upper moves them -/
example : reshape ⟨LOWER, 1⟩ ⟨LOWER, 1⟩ 3 3 3 [10, 11, 12, 13, 14, 15, 16, 17, 18] (List.replicate 9 0) = [10, 11, 12, 0, 14, 15, 0, 0, 18] := by decide
example : reshape ⟨LOWER, 1⟩ ⟨UPPER, 1⟩ 3 3 3 [10, 11, 12, 13, 14, 15, 16, 17, 18] (List.replicate 9 0) = [10, 0, 0, 11, 12, 0, 14, 15, 18] := by decide
/-- a smaller source region (strict lower, 3 elements) into a larger one (upper with diagonal, 6): the last three stay fresh -/
example : reshape ⟨LOWER, 0⟩ ⟨UPPER, 1⟩ 3 3 3 [10, 11, 12, 13, 14, 15, 16, 17, 18] (List.replicate 9 (-7)) = [11, -7, -7, 12, 15, -7, -7, -7, -7] := by decide
/-- hypotheses of `C18_selected` / `C18_selected_same` are satisfiable on a non-square tile with `ld > m` -/
example : (2 : Nat) ≤ 3 ∧ footprint 2 3 3 ≤ (List.replicate 9 (0 : Int)).length ∧
    region ⟨LOWER, 1⟩ 2 3 3 = region ⟨LOWER, 7⟩ 2 3 3 ∧ region ⟨LOWER, 1⟩ 2 3 3 = [0, 1, 4] := by decide

def exEnv : Env := ⟨[10, 11, 12, 13], [0, 0, 0, 0], 2, 2, 2, fun r => if r = 1 then ⟨FULL, 1⟩ else ⟨LOWER, 1⟩, fun r => if r = 2 then ⟨LOWER, 1⟩ else ⟨UPPER, 1⟩⟩

set_option maxRecDepth 20000 in
/-- non-vacuity of the protocol theorems: fulfilled base promise (shape 1), two consumers ask for shape 2 and one for
    shape 3 with synchronous fulfilment: two fresh copies after the producer's tile, the two consumers of shape 2 share -/
example : ((hrun ⟨fun x => x, fun _ => false⟩ exEnv 1 true [[.trig 2], [.trig 2], [.trig 3]]
      [0, 0, 0, 0, 0, 1, 1, 1, 1, 1, 1, 1, 2, 2, 2, 2, 2, 2, 2, 2]).heap) =
      [(101, [10, 11, 12, 13]), (102, [10, 11, 0, 13]), (103, [10, 0, 11, 13])] ∧
    ((hrun ⟨fun x => x, fun _ => false⟩ exEnv 1 true [[.trig 2], [.trig 2], [.trig 3]]
      [0, 0, 0, 0, 0, 1, 1, 1, 1, 1, 1, 1, 2, 2, 2, 2, 2, 2, 2, 2]).d.thr.map (·.res)) =
      [[(.trig 2, 102)], [(.trig 2, 102)], [(.trig 3, 103)]] := by decide

/-- **Finding F1 (witness).**  PROD has two LOCAL output dependencies of the same flow with different `[type]`:
    `-> A C0(k, 0..0) [type = LO]` and `-> A C1(k, 0..0) [type = UP]`, `C1` reads `<- A PROD(k) [type = UP]`.
    As coded (one `data.data_future` per flow, never reset when the type changes) C1 is served from C0's promise:
    it receives `unpack UP (pack LO tile)`, i.e. the producer's LOWER elements, instead of the documented
    `unpack UP (pack UP tile)`: its element (0, 1) is the producer's (1, 0).  Replayed on the real code by
    corpus/C18/001-mixed-local-output-types.case. -/
def f1Prog : Prog := ⟨3, 3, 3, 1, none, none, [⟨some 1, none, none, none, 1, 0⟩, ⟨some 3, none, some 3, none, 1, 0⟩]⟩

theorem mixed_output_types_witness :
    mixedLocal f1Prog 1 = true ∧
    (localViewCoded f1Prog 1 0 ⟨some 3, none, some 3, none, 1, 0⟩).1.mem = [1000, -7777, -7777, 1001, 1002, -7777, 1004, 1005, 1008] ∧
    (localViewDoc f1Prog 0 ⟨some 3, none, some 3, none, 1, 0⟩).1.mem = [1000, -7777, -7777, 1003, 1004, -7777, 1006, 1007, 1008] ∧
    (prodOut f1Prog 0).mem = [1000, 1001, 1002, 1003, 1004, 1005, 1006, 1007, 1008] := by decide

end ParsecVerif.C18
