import ParsecVerif.Proofs.DtdSteps
/-!
# C04 — DTD never runs conflicting accesses at the same time

In every state reachable by the abstract runtime machine (every insertion sequence, every number of
workers, every interleaving, including the writer's AGAIN retry path): no two running tasks conflict
on a datum; a writer does not start while an earlier-inserted reader of the datum is pending or
running; the reader count of the shared copy equals the number of satisfied, unfinished read accesses.
Readers inserted between the same two writers may overlap (witness run).
-/
namespace ParsecVerif.C04
open ParsecVerif.Dtd

/-- **Exclusion.**  Two distinct tasks that conflict on a datum (both use it, one writes it) are never
    running at the same time. -/
theorem C04_exclusion (p : Prog) (nw : Nat) (ms : List Move) (hv : Valid p nw ms) (t u d : Nat)
    (hne : t ≠ u) (ht : isRunning (run p init ms) t = true) (hu : isRunning (run p init ms) u = true)
    (hc : conflict p t u d = true) : False := by
  have h := inv_reachable p nw ms hv
  generalize run p init ms = s at *
  have hc' : conflict p u t d = true := by
    obtain ⟨a, b, c⟩ := (conflict_iff p t u d).1 hc
    exact (conflict_iff p u t d).2 ⟨b, a, c.symm⟩
  rcases Nat.lt_or_gt_of_ne hne with hlt | hlt
  · have := h.prec u t d hlt (started_of_running s u hu) hc
    rw [not_done_of_running s t ht] at this; cases this
  · have := h.prec t u d hlt (started_of_running s t ht) hc'
    rw [not_done_of_running s u hu] at this; cases this

/-- **The writer waits.**  Whenever the machine allows the body of `u` to start, every earlier-inserted
    task that conflicts with `u` — in particular every earlier reader of a datum `u` writes — has
    completed (it is neither pending nor running). -/
theorem C04_writer_waits (p : Prog) (nw : Nat) (ms : List Move) (hv : Valid p nw ms) (u t d : Nat)
    (hen : enabled p nw (run p init ms) (.start u) = true) (htu : t < u)
    (hr : usesAt p t d = true) (hw : writesAt p u d = true) : isDone (run p init ms) t = true := by
  have h := inv_reachable p nw ms hv
  generalize run p init ms = s at *
  simp only [enabled, Bool.and_eq_true, Bool.not_eq_true', decide_eq_true_eq] at hen
  exact pred_done p s u h hen.1.1.1 hen.1.1.2 hen.1.2 t d htu
    ((conflict_iff p t u d).2 ⟨hr, writesAt_usesAt p u d hw, Or.inr hw⟩)

/-- the same for a writer that has begun (running or done) -/
theorem C04_writer_after_readers (p : Prog) (nw : Nat) (ms : List Move) (hv : Valid p nw ms) (u t d : Nat)
    (hs : started (run p init ms) u = true) (htu : t < u)
    (hr : usesAt p t d = true) (hw : writesAt p u d = true) : isDone (run p init ms) t = true :=
  (inv_reachable p nw ms hv).prec u t d htu hs
    ((conflict_iff p t u d).2 ⟨hr, writesAt_usesAt p u d hw, Or.inr hw⟩)

/-- **Reader counting.**  In every reachable state the reader count of datum `d` is the number of read
    accesses on `d` that are satisfied and whose task has not completed. -/
theorem C04_reader_count (p : Prog) (nw : Nat) (ms : List Move) (hv : Valid p nw ms) (d : Nat) :
    (run p init ms).readers d =
      (run p init ms).accs.countP (fun a => a.d == d && !a.wr && a.act && !isDone (run p init ms) a.t) :=
  (inv_reachable p nw ms hv).readers_eq d

/-- a satisfied flow has a completed parent, and conversely: activation by the completing writer's walk
    and activation by the inserting thread never miss or anticipate a flow -/
theorem C04_activation (p : Prog) (nw : Nat) (ms : List Move) (hv : Valid p nw ms) (a : Acc)
    (ha : a ∈ (run p init ms).accs) : a.act = parentDone (run p init ms) a.parent :=
  (inv_reachable p nw ms hv).act_iff a ha

/-! ## the model is not trivially serial: two readers between the same writers overlap -/

def rw0 (uid : Nat) : Task := { uid := uid, args := [(0, .rw)], rank := 0, kind := .user 1 }
def rd0 (uid : Nat) : Task := { uid := uid, args := [(0, .r)], rank := 0, kind := .user 2 }
/-- writer, reader, reader, writer on one datum -/
def wrrw : Prog := [rw0 0, rd0 1, rd0 2, rw0 3]
def overlapRun : List Move := [.ins, .ins, .ins, .ins, .start 0, .finish 0, .start 1, .start 2]

/-- **Readers may overlap.**  There is a valid run (2 workers) after which the two readers inserted
    between the same two writers are both running, with reader count 2, while the second writer is
    ready but answered AGAIN. -/
theorem C04_readers_may_overlap :
    Valid wrrw 2 overlapRun ∧ isRunning (run wrrw init overlapRun) 1 = true ∧
    isRunning (run wrrw init overlapRun) 2 = true ∧ (run wrrw init overlapRun).readers 0 = 2 ∧
    enabled wrrw 2 (run wrrw init overlapRun) (.again 3) = true ∧
    enabled wrrw 2 (run wrrw init overlapRun) (.start 3) = false := by
  refine ⟨firstBad_none _ _ _ _ 0 (by decide), by decide, by decide, by decide, by decide, by decide⟩

/-! Non-vacuity of the hypotheses of the theorems above on that run. -/
example : conflict wrrw 1 3 0 = true ∧ conflict wrrw 0 1 0 = true ∧ conflict wrrw 1 2 0 = false := by decide
example : Valid wrrw 2 (overlapRun ++ [.again 3, .finish 1, .again 3, .finish 2, .start 3, .finish 3]) :=
  firstBad_none _ _ _ _ 0 (by decide)
example : enabled wrrw 2 (run wrrw init (overlapRun ++ [.finish 1, .finish 2])) (.start 3) = true := by decide

end ParsecVerif.C04
