import ParsecVerif.Proofs.CompoundInv4
import ParsecVerif.Proofs.ComposeArray
/-!
# C15 — composed taskpools run strictly one after another

Theorems about EVERY run of the compound machine `Model/Compound.lean` (built on the context machine
of C06): any number of compounds of any size in one context, any number of threads and of other
taskpools, any interleaving.  `members[i]` is tp[i] of `parsec_compose`.
-/
namespace ParsecVerif.C15
open ParsecVerif.Context ParsecVerif.Compound

/-- a member whose callback stamp is set is in (or past) its completion callback -/
theorem member_cb_state {clk : Nat} {tp : Tp} (hok : tpOK clk tp) (he : tp.early = false) (hc : tp.cbAt ≠ 0) :
    (tp.st = .inCb ∨ tp.st = .done) ∧ tp.addAt ≠ 0 ∧ tp.addAt < tp.cbAt ∧ tp.lastEnd < tp.cbAt ∧
    tp.ended = tp.total ∧ tp.started = tp.total := by
  cases hst : tp.st <;> simp only [tpOK, hst] at hok <;>
    obtain ⟨a1, a2, a3, a4, a5, a6, a7, a8, a9, a10, a11, a12⟩ := hok
  case notAdded => omega
  case adding => omega
  case added => omega
  case earlyCb => rw [a12.1] at he; cases he
  case earlyDec => rw [a12.1] at he; cases he
  case inCb => exact ⟨Or.inl rfl, by omega, by omega, by omega, by omega, by omega⟩
  case done =>
    have := a12.2.2.2.2.2.2.1 he
    exact ⟨Or.inr rfl, by omega, by omega, by omega, by omega, by omega⟩

/-- chain of stamps along the members: if member `i+d+1` was ever incremented, member `i` ran its
    completion callback before that -/
theorem chain {l : List Tp} {clk : Nat} {c : Comp} (hci : CI l c) (hS : ∀ tp ∈ l, tpOK clk tp) (d : Nat) :
    ∀ (i mi mj : Nat) (ti tj : Tp), c.members[i]? = some mi → c.members[i + d + 1]? = some mj →
      l[mi]? = some ti → l[mj]? = some tj → tj.addAt ≠ 0 → ti.cbAt ≠ 0 ∧ ti.cbAt < tj.addAt := by
  induction d with
  | zero => intro i mi mj ti tj hi hj hti htj hne; exact hci.stamps i mi mj ti tj hi hj hti htj hne
  | succ d ih =>
    intro i mi mj ti tj hi hj hti htj hne
    have hjl : i + (d + 1) + 1 < c.members.length := (List.getElem?_eq_some_iff.1 hj).1
    have hnl : i + 1 < c.members.length := by omega
    have hn : c.members[i + 1]? = some c.members[i + 1] := List.getElem?_eq_getElem hnl
    obtain ⟨tn, htn, hne', _⟩ := hci.mem (i + 1) _ hn
    have hj' : c.members[i + 1 + d + 1]? = some mj := by
      have : i + 1 + d + 1 = i + (d + 1) + 1 := by omega
      rw [this]; exact hj
    obtain ⟨b1, b2⟩ := ih (i + 1) _ mj tn tj hn hj' htn htj hne
    obtain ⟨_, c1, c2, _⟩ := member_cb_state (hS tn (List.mem_of_getElem? htn)) hne' b1
    obtain ⟨d1, d2⟩ := hci.stamps i mi _ ti tn hi hn hti htn c1
    exact ⟨d1, by omega⟩

/-- **Composition order.**  For `i < j`: as soon as any task of tp[j] has started, every task of
    tp[i] has started and ended, tp[i] is in or past its completion callback, and the LAST task end of
    tp[i] is earlier than the FIRST task start of tp[j]. -/
theorem C15_order (k : Nat) (tps : List Tp) (comps : List Comp) (hwf : WF tps comps) (trs : List CTr)
    (ci : Nat) (c : Comp) (hc : (crun k tps comps trs).comps[ci]? = some c)
    (i j mi mj : Nat) (ti tj : Tp) (hij : i < j) (hi : c.members[i]? = some mi) (hj : c.members[j]? = some mj)
    (hti : (crun k tps comps trs).base.tps[mi]? = some ti) (htj : (crun k tps comps trs).base.tps[mj]? = some tj)
    (hb : tj.firstBegin ≠ 0) :
    ti.ended = ti.total ∧ ti.started = ti.total ∧ (ti.st = .inCb ∨ ti.st = .done) ∧
    ti.lastEnd < ti.cbAt ∧ ti.cbAt < tj.addAt ∧ tj.addAt < tj.firstBegin := by
  have hg := gi_run k tps comps hwf trs
  have hci := hg.ci ci c hc
  have hokj := hg.sinv.tpok tj (List.mem_of_getElem? htj)
  have hokj' := hokj
  unfold tpOK at hokj'
  obtain ⟨ha0, ha1⟩ := hokj'.2.2.2.2.2.2.2.1 hb
  obtain ⟨d, hd⟩ : ∃ d, j = i + d + 1 := ⟨j - i - 1, by omega⟩
  subst hd
  obtain ⟨b1, b2⟩ := chain hci hg.sinv.tpok d i mi mj ti tj hi hj hti htj ha0
  obtain ⟨x, hx, hei, _⟩ := hci.mem i mi hi
  rw [hti] at hx; cases hx
  obtain ⟨e1, _, _, e4, e5, e6⟩ := member_cb_state (hg.sinv.tpok ti (List.mem_of_getElem? hti)) hei b1
  exact ⟨e5, e6, e1, e4, b2, ha1⟩

/-- **The assert of `parsec_composed_taskpool_cb` cannot fail, and the next taskpool is enabled iff
    some remain.**  Whenever the termination of a member `m` can be detected, `m` is
    `taskpool_array[completed]`, `nb_pending_actions = n − completed`, hence `remaining > 0` exactly
    when `completed + 1 < n`, and in that case `taskpool_array[completed+1]` exists and has never been added. -/
theorem C15_assert_holds (k : Nat) (tps : List Tp) (comps : List Comp) (hwf : WF tps comps) (trs : List CTr)
    (ci : Nat) (c : Comp) (hc : (crun k tps comps trs).comps[ci]? = some c) (t m : Nat) (hm : m ∈ c.members) (s1 : St)
    (hdet : step? (crun k tps comps trs).base (.detect t m) = some s1) :
    c.members[c.completed]? = some m ∧ c.pending = (c.members.length : Int) - c.completed ∧
    (c.pending - 1 > 0 ↔ c.completed + 1 < c.members.length) ∧
    (c.completed + 1 < c.members.length → ∃ (nx : Nat) (tn : Tp), c.members[c.completed + 1]? = some nx ∧
        (crun k tps comps trs).base.tps[nx]? = some tn ∧ tn.st = .notAdded) := by
  have hg := gi_run k tps comps hwf trs
  have hci := hg.ci ci c hc
  obtain ⟨tp, htp, hst, _⟩ := detect_eff hdet
  obtain ⟨kk, hkl, hkget⟩ := List.getElem_of_mem hm
  have hk : c.members[kk]? = some m := by rw [List.getElem?_eq_getElem hkl, hkget]
  obtain ⟨hkc, hpend, hlt⟩ := added_pos hci hk htp hst
  refine ⟨hkc ▸ hk, hpend, by omega, ?_⟩
  intro hlt'
  have hn : c.members[c.completed + 1]? = some c.members[c.completed + 1] := List.getElem?_eq_getElem hlt'
  obtain ⟨tn, htn, _, _, h3, _⟩ := hci.mem _ _ hn
  exact ⟨_, tn, hn, htn, h3 (by omega)⟩

/-- **Exactly once (the part that is true of the code).**  The completion callback of the compound
    and of each member runs at most once at any moment, exactly once when the taskpool is done; the
    members complete in order (`completed` of them are in or past their callback, the others are
    not), and when all `n` have completed nothing is pending. -/
theorem C15_once_partial (k : Nat) (tps : List Tp) (comps : List Comp) (hwf : WF tps comps) (trs : List CTr)
    (ci : Nat) (c : Comp) (hc : (crun k tps comps trs).comps[ci]? = some c) :
    (∀ tp ∈ (crun k tps comps trs).base.tps, tp.cbs ≤ 1 ∧ (tp.st = .done → tp.cbs = 1)) ∧
    c.completed ≤ c.members.length ∧
    (∀ (i m : Nat) (tp : Tp), c.members[i]? = some m → (crun k tps comps trs).base.tps[m]? = some tp →
        ((tp.st = .inCb ∨ tp.st = .done) ↔ i < c.completed)) ∧
    (c.completed = c.members.length → c.pending = 0) := by
  have hg := gi_run k tps comps hwf trs
  have hci := hg.ci ci c hc
  refine ⟨?_, hci.le, ?_, hci.fin⟩
  · intro tp hm
    have hok := hg.sinv.tpok tp hm
    cases hst : tp.st <;> simp only [tpOK, hst] at hok <;>
      obtain ⟨a1, a2, a3, a4, a5, a6, a7, a8, a9, a10, a11, a12⟩ := hok
    case notAdded => exact ⟨a6, fun e => nomatch e⟩
    case adding => exact ⟨a6, fun e => nomatch e⟩
    case earlyCb => exact ⟨a6, fun e => nomatch e⟩
    case earlyDec => exact ⟨a6, fun e => nomatch e⟩
    case added => exact ⟨a6, fun e => nomatch e⟩
    case inCb => exact ⟨a6, fun e => nomatch e⟩
    case done => exact ⟨a6, fun _ => a12.1⟩
  · intro i m tp hm htp
    obtain ⟨x, hx, _, b2, b3, b4⟩ := hci.mem i m hm
    rw [htp] at hx; cases hx
    constructor
    · intro hs
      rcases Nat.lt_trichotomy i c.completed with h | h | h
      · exact h
      · obtain ⟨a1, _, _⟩ := b4 h
        rcases hs with e | e <;> rw [e] at a1 <;> rcases a1 with e' | e' | e' <;> cases e'
      · have := b3 h
        rcases hs with e | e <;> rw [e] at this <;> cases this
    · exact b2

/-- The full second half of the statement: the compound's own completion (its callback) comes after
    the last task of every member. -/
def CompletesAfterLast : Prop :=
  ∀ (k : Nat) (tps : List Tp) (comps : List Comp), WF tps comps → ∀ (trs : List CTr) (ci : Nat) (c : Comp),
    (crun k tps comps trs).comps[ci]? = some c → ∀ ts : Tp, (crun k tps comps trs).base.tps[c.self]? = some ts → ts.cbAt ≠ 0 →
    ∀ (m : Nat) (tm : Tp), m ∈ c.members → (crun k tps comps trs).base.tps[m]? = some tm →
      tm.ended = tm.total ∧ tm.lastEnd < ts.cbAt

def wTps : List Tp := [mkTp 1 false false, mkTp 1 false false, mkTp 0 true false]
def wComps : List Comp := [{ self := 2, members := [0, 1] }]
/-- the witness: master adds the compound (its callback and decrement run inside add_taskpool), starts,
    waits; only then do the two members run, one after the other -/
def wRun : List CTr :=
  [.ctx (.addCall 0 2), .ctx (.earlyCb 0), .ctx (.earlyDec 0), .ctx (.addInc 0), .startup 0 0, .ctx (.addInc 0),
   .ctx (.addReturn 0), .ctx .startBarrier, .ctx .startToken, .ctx .waitBegin, .ctx (.taskBegin 0 0), .ctx (.taskEnd 0),
   .memberCb 0 0 0, .ctx (.addInc 0), .ctx (.addReturn 0), .ctx (.dec 0), .ctx (.taskBegin 0 1), .ctx (.taskEnd 0),
   .memberCb 0 0 1, .ctx (.dec 0), .ctx .sawZero, .ctx .barrier, .ctx .waitReturn]

theorem mkTp_fresh (n : Nat) (e d : Bool) : (mkTp n e d).fresh := by
  cases e <;> cases d <;> simp [mkTp, Tp.fresh]

theorem wWF : WF wTps wComps := by
  refine ⟨by decide, ?_, ?_⟩
  · intro c hc
    simp only [wComps, List.mem_cons, List.not_mem_nil, or_false] at hc
    subst hc
    refine ⟨rfl, rfl, by decide, by decide, ⟨_, rfl, rfl⟩, ?_⟩
    intro m hm
    simp only [List.mem_cons, List.not_mem_nil, or_false] at hm
    rcases hm with rfl | rfl <;> exact ⟨_, rfl, rfl, rfl⟩
  · intro tp h
    simp only [wTps, List.mem_cons, List.not_mem_nil, or_false] at h
    rcases h with rfl | rfl | rfl <;> exact mkTp_fresh _ _ _

set_option maxRecDepth 8000 in
/-- what the witness run records: the compound's callback at stamp 2 and its decrement at 3, before its
    increment (4); the members' tasks at 11-12 and 18-19; the wait returns at 24 with everything done -/
theorem wFacts : (crun 0 wTps wComps wRun).base.tps.map (fun t => (t.cbAt, t.decAt, t.addAt, t.firstBegin, t.lastEnd)) =
      [(13, 17, 6, 11, 12), (20, 21, 15, 18, 19), (2, 3, 4, 0, 0)] ∧
    (crun 0 wTps wComps wRun).base.waitRets = [24] ∧ (crun 0 wTps wComps wRun).base.active = 0 ∧
    (crun 0 wTps wComps wRun).comps.map (fun c => (c.self, c.members, c.completed, c.pending)) = [(2, [0, 1], 2, 0)] := by decide

/-- **The compound does NOT complete after its last taskpool** (code as written): refutation of
    `CompletesAfterLast` by the run above, which is replayed on the real runtime (corpus/C15/001). -/
theorem C15_not_after_last : ¬ CompletesAfterLast := by
  intro h
  obtain ⟨hf, _, _, hcm⟩ := wFacts
  have hlen : (crun 0 wTps wComps wRun).base.tps.length = 3 := by
    have := congrArg List.length hf; simpa using this
  have hclen : (crun 0 wTps wComps wRun).comps.length = 1 := by
    have := congrArg List.length hcm; simpa using this
  have hc : (crun 0 wTps wComps wRun).comps[0]? = some (crun 0 wTps wComps wRun).comps[0] := List.getElem?_eq_getElem (by omega)
  have hs : (crun 0 wTps wComps wRun).base.tps[2]? = some (crun 0 wTps wComps wRun).base.tps[2] := List.getElem?_eq_getElem (by omega)
  have hm : (crun 0 wTps wComps wRun).base.tps[0]? = some (crun 0 wTps wComps wRun).base.tps[0] := List.getElem?_eq_getElem (by omega)
  have e0 := congrArg (fun l => l[0]?) hcm
  have e1 := congrArg (fun l => l[2]?) hf
  have e2 := congrArg (fun l => l[0]?) hf
  simp only [List.getElem?_map, hc, hs, hm, Option.map_some] at e0 e1 e2
  simp at e0 e1 e2
  obtain ⟨es, em, _, _⟩ := e0
  have := h 0 wTps wComps wWF wRun 0 _ hc _ (by rw [es]; exact hs) (by rw [e1.1]; decide) 0 _ (by rw [em]; decide) hm
  rw [e1.1, e2.2.2.2.2] at this
  omega

/-- **The array of `parsec_compose`, for every n ≥ 2.**  Composing `a, b, rest…` left to right yields a
    compound whose count is n, whose array holds the n taskpools in composition order followed by a
    NULL, inside an allocation of `16·(n/16 + 1)` entries (grown by 16 whenever the count reaches a
    multiple of 16), and no write ever fell outside the allocation.  Fewer than two taskpools create no
    compound object (`parsec_compose(tp, NULL) = tp`). -/
theorem C15_compose_array (a b : Nat) (rest : List Nat) :
    ∃ arr : Arr, compose (a :: b :: rest) = some arr ∧ arr.nb = rest.length + 2 ∧ arr.oob = false ∧
      arr.slots.length = arr.cap ∧ arr.cap = 16 * (arr.nb / 16 + 1) ∧ arr.nb < arr.cap ∧
      arr.slots[arr.nb]? = some .null ∧
      (∀ i, i < rest.length + 2 → arr.slots[i]? = ((a :: b :: rest)[i]?).map Slot.tp) ∧
      compose [a] = none ∧ compose [] = none := by
  have h := ainv_foldl rest _ _ (ainv_new a b)
  refine ⟨_, rfl, ?_, h.oob, h.len, h.cap, h.lt, h.term, ?_, rfl, rfl⟩
  · rw [h.nb]; simp
  · intro i hi
    exact h.elems i (by simp; omega)

set_option maxRecDepth 20000 in
example : ((compose (List.range 33)).map (fun a => (a.cap, a.nb, a.oob, a.slots[32]?, a.slots[33]?))) =
    some (48, 33, false, some (.tp 32), some .null) := by decide

/-- the theorems of C06 hold for the context under every run of the compound machine; in particular
    the wait is sound although a compound's counter goes down before it goes up -/
theorem C15_context_theorems_apply (k : Nat) (tps : List Tp) (comps : List Comp) (hwf : WF tps comps) (trs : List CTr) :
    Inv (crun k tps comps trs).base ∧ SInv (crun k tps comps trs).base ∧
    ∀ r ∈ (crun k tps comps trs).base.waitRets, ∀ tp ∈ (crun k tps comps trs).base.tps, tp.addAt ≠ 0 → tp.addAt < r →
      tp.st = .done ∧ tp.ended = tp.total ∧ tp.cbs = 1 ∧ tp.lastEnd < tp.cbAt ∧ tp.cbAt < tp.decAt ∧ tp.decAt < r := by
  have hg := gi_run k tps comps hwf trs
  refine ⟨hg.inv, hg.sinv, ?_⟩
  intro r hr tp hm ha hlt
  obtain ⟨_, h2⟩ := hg.sinv.wr r hr
  obtain ⟨hd0, hdr⟩ := h2 tp hm ha hlt
  have hok := hg.sinv.tpok tp hm
  cases hst : tp.st <;> simp only [tpOK, hst] at hok <;> first | omega | skip
  exact ⟨rfl, by omega, by omega, by omega, by omega, hdr⟩

end ParsecVerif.C15
