import ParsecVerif.Proofs.CompoundInv4
import ParsecVerif.Proofs.ComposeArray
/-!
# C15 — composed taskpools run strictly one after another

Theorems about EVERY run of the compound machine `Model/Compound.lean` (built on the context machine
of C06): any number of compounds of any size in one context, any number of threads and of other
taskpools, any interleaving.  `members[i]` is tp[i] of `parsec_compose`.
-/
namespace ParsecVerif.C15
open ParsecVerif.Context ParsecVerif.Compound

/-- a member whose callback stamp is set is in (or past) its completion callback -/
theorem member_cb_state {clk : Nat} {tp : Tp} (hok : tpOK clk tp) (he : tp.early = false) (hc : tp.cbAt ≠ 0) :
    (tp.st = .inCb ∨ tp.st = .inCbN ∨ tp.st = .done) ∧ tp.addAt ≠ 0 ∧ tp.addAt < tp.cbAt ∧ tp.lastEnd < tp.cbAt ∧
    tp.ended = tp.total ∧ tp.started = tp.total := by
  cases hst : tp.st <;> simp only [tpOK, hst] at hok <;>
    obtain ⟨a1, a2, a3, a4, a5, a6, a7, a8, a9, a10, a11, a12⟩ := hok
  case notAdded => omega
  case adding => omega
  case added => omega
  case earlyCb => rw [a12.1] at he; cases he
  case earlyDec => rw [a12.1] at he; cases he
  case inCb => exact ⟨Or.inl rfl, by omega, by omega, by omega, by omega, by omega⟩
  case inCbN => exact ⟨Or.inr (Or.inl rfl), by omega, by omega, by omega, by omega, by omega⟩
  case done =>
    have := a12.2.2.2.2.2.2.1 he
    exact ⟨Or.inr (Or.inr rfl), by omega, by omega, by omega, by omega, by omega⟩

/-- chain of stamps along the members: if member `i+d+1` was ever incremented, member `i` ran its
    completion callback before that -/
theorem chain {l : List Tp} {clk : Nat} {c : Comp} (hci : CI l c) (hS : ∀ tp ∈ l, tpOK clk tp) (d : Nat) :
    ∀ (i mi mj : Nat) (ti tj : Tp), c.members[i]? = some mi → c.members[i + d + 1]? = some mj →
      l[mi]? = some ti → l[mj]? = some tj → tj.addAt ≠ 0 → ti.cbAt ≠ 0 ∧ ti.cbAt < tj.addAt := by
  induction d with
  | zero => intro i mi mj ti tj hi hj hti htj hne; exact hci.stamps i mi mj ti tj hi hj hti htj hne
  | succ d ih =>
    intro i mi mj ti tj hi hj hti htj hne
    have hjl : i + (d + 1) + 1 < c.members.length := (List.getElem?_eq_some_iff.1 hj).1
    have hnl : i + 1 < c.members.length := by omega
    have hn : c.members[i + 1]? = some c.members[i + 1] := List.getElem?_eq_getElem hnl
    obtain ⟨tn, htn, hne', _⟩ := hci.mem (i + 1) _ hn
    have hj' : c.members[i + 1 + d + 1]? = some mj := by
      have : i + 1 + d + 1 = i + (d + 1) + 1 := by omega
      rw [this]; exact hj
    obtain ⟨b1, b2⟩ := ih (i + 1) _ mj tn tj hn hj' htn htj hne
    obtain ⟨_, c1, c2, _⟩ := member_cb_state (hS tn (List.mem_of_getElem? htn)) hne' b1
    obtain ⟨d1, d2⟩ := hci.stamps i mi _ ti tn hi hn hti htn c1
    exact ⟨d1, by omega⟩

/-- **Composition order.**  For `i < j`: as soon as any task of tp[j] has started, every task of
    tp[i] has started and ended, tp[i] is in or past its completion callback, and the LAST task end of
    tp[i] is earlier than the FIRST task start of tp[j]. -/
theorem C15_order_members (k : Nat) (tps : List Tp) (comps : List Comp) (hwf : WF tps comps) (trs : List CTr)
    (ci : Nat) (c : Comp) (hc : (crun k tps comps trs).comps[ci]? = some c)
    (i j mi mj : Nat) (ti tj : Tp) (hij : i < j) (hi : c.members[i]? = some mi) (hj : c.members[j]? = some mj)
    (hti : (crun k tps comps trs).base.tps[mi]? = some ti) (htj : (crun k tps comps trs).base.tps[mj]? = some tj)
    (hb : tj.firstBegin ≠ 0) :
    ti.ended = ti.total ∧ ti.started = ti.total ∧ (ti.st = .inCb ∨ ti.st = .inCbN ∨ ti.st = .done) ∧
    ti.lastEnd < ti.cbAt ∧ ti.cbAt < tj.addAt ∧ tj.addAt < tj.firstBegin := by
  have hg := gi_run k tps comps hwf trs
  have hci := hg.ci ci c hc
  have hokj := hg.sinv.tpok tj (List.mem_of_getElem? htj)
  have hokj' := hokj
  unfold tpOK at hokj'
  obtain ⟨ha0, ha1⟩ := hokj'.2.2.2.2.2.2.2.1 hb
  obtain ⟨d, hd⟩ : ∃ d, j = i + d + 1 := ⟨j - i - 1, by omega⟩
  subst hd
  obtain ⟨b1, b2⟩ := chain hci hg.sinv.tpok d i mi mj ti tj hi hj hti htj ha0
  obtain ⟨x, hx, hei, _⟩ := hci.mem i mi hi
  rw [hti] at hx; cases hx
  obtain ⟨e1, _, _, e4, e5, e6⟩ := member_cb_state (hg.sinv.tpok ti (List.mem_of_getElem? hti)) hei b1
  exact ⟨e5, e6, e1, e4, b2, ha1⟩

/-- **The assert of `parsec_composed_taskpool_cb` cannot fail, and the next taskpool is enabled iff
    some remain.**  Whenever the termination of a member `m` can be detected, `m` is
    `taskpool_array[completed]`, `nb_pending_actions = n − completed`, hence `remaining > 0` exactly
    when `completed + 1 < n`, and in that case `taskpool_array[completed+1]` exists and has never been added. -/
theorem C15_assert_holds (k : Nat) (tps : List Tp) (comps : List Comp) (hwf : WF tps comps) (trs : List CTr)
    (ci : Nat) (c : Comp) (hc : (crun k tps comps trs).comps[ci]? = some c) (t m : Nat) (hm : m ∈ c.members) (s1 : St)
    (hdet : step? (crun k tps comps trs).base (.detect t m) = some s1) :
    c.members[c.completed]? = some m ∧ c.pending = (c.members.length : Int) - c.completed ∧
    (c.pending - 1 > 0 ↔ c.completed + 1 < c.members.length) ∧
    (c.completed + 1 < c.members.length → ∃ (nx : Nat) (tn : Tp), c.members[c.completed + 1]? = some nx ∧
        (crun k tps comps trs).base.tps[nx]? = some tn ∧ tn.st = .notAdded) := by
  have hg := gi_run k tps comps hwf trs
  have hci := hg.ci ci c hc
  obtain ⟨tp, htp, hst, _, _⟩ := detect_eff hdet
  obtain ⟨kk, hkl, hkget⟩ := List.getElem_of_mem hm
  have hk : c.members[kk]? = some m := by rw [List.getElem?_eq_getElem hkl, hkget]
  obtain ⟨hkc, hpend, hlt⟩ := added_pos hci hk htp hst
  refine ⟨hkc ▸ hk, hpend, by omega, ?_⟩
  intro hlt'
  have hn : c.members[c.completed + 1]? = some c.members[c.completed + 1] := List.getElem?_eq_getElem hlt'
  obtain ⟨tn, htn, _, _, h3, _⟩ := hci.mem _ _ hn
  exact ⟨_, tn, hn, htn, h3 (by omega)⟩

/-- **The compound completes exactly once, after tp[n-1]** (repaired code).  At every moment of every
    run: the completion callback of the compound object ran at most once; it has run (exactly once)
    if and only if all `n` members completed; and when it has run, every member is in or past its own
    completion callback, all its tasks have started and ended, and
    `lastEnd(member) < cbAt(member) < cbAt(compound)`: the compound's completion is later than the
    last task of every composed taskpool (in particular of tp[n-1]).  The members complete in order:
    exactly the first `completed` of them are in or past their callback. -/
theorem C15_once (k : Nat) (tps : List Tp) (comps : List Comp) (hwf : WF tps comps) (trs : List CTr)
    (ci : Nat) (c : Comp) (hc : (crun k tps comps trs).comps[ci]? = some c)
    (ts : Tp) (hts : (crun k tps comps trs).base.tps[c.self]? = some ts) :
    ts.cbs ≤ 1 ∧ (ts.cbs = 1 ↔ c.completed = c.members.length) ∧ (ts.cbs = 1 ↔ ts.cbAt ≠ 0) ∧
    (c.completed = c.members.length → ts.st = .inCbN ∨ ts.st = .done) ∧
    (∀ (i m : Nat) (tp : Tp), c.members[i]? = some m → (crun k tps comps trs).base.tps[m]? = some tp →
        ((tp.st = .inCb ∨ tp.st = .done → i < c.completed) ∧
         (i < c.completed → tp.st = .inCb ∨ tp.st = .inCbN ∨ tp.st = .done))) ∧
    (ts.cbAt ≠ 0 → ∀ (m : Nat) (tm : Tp), m ∈ c.members → (crun k tps comps trs).base.tps[m]? = some tm →
        (tm.st = .inCb ∨ tm.st = .inCbN ∨ tm.st = .done) ∧ tm.ended = tm.total ∧ tm.started = tm.total ∧
        tm.lastEnd < tm.cbAt ∧ tm.cbAt < ts.cbAt) := by
  have hg := gi_run k tps comps hwf trs
  have hci := hg.ci ci c hc
  have hcs := hg.cself ci c hc
  obtain ⟨ts0, hts0, a0, ae, ass, ap, a1, a2, a3, a4, a5⟩ := hcs.ex
  rw [hts] at hts0; cases hts0
  have hok := hg.sinv.tpok ts (List.mem_of_getElem? hts)
  have hle := hci.le
  -- callback count and stamp by state
  have hcount : ts.cbs ≤ 1 ∧ ((ts.st = .inCbN ∨ ts.st = .done) → ts.cbs = 1 ∧ ts.cbAt ≠ 0) := by
    cases hst : ts.st <;> simp only [tpOK, hst] at hok <;>
      obtain ⟨b1, b2, b3, b4, b5, b6, b7, b8, b9, b10, b11, b12⟩ := hok
    case notAdded => exact ⟨b6, fun e => by rcases e with e | e <;> cases e⟩
    case adding => exact ⟨b6, fun e => by rcases e with e | e <;> cases e⟩
    case earlyCb => exact ⟨b6, fun e => by rcases e with e | e <;> cases e⟩
    case earlyDec => exact ⟨b6, fun e => by rcases e with e | e <;> cases e⟩
    case added => exact ⟨b6, fun e => by rcases e with e | e <;> cases e⟩
    case inCb => exact ⟨b6, fun e => by rcases e with e | e <;> cases e⟩
    case inCbN => exact ⟨b6, fun _ => ⟨b12.2.2.1, by omega⟩⟩
    case done => exact ⟨b6, fun _ => ⟨b12.1, b12.2.1⟩⟩
  have hmemiff : ∀ (i m : Nat) (tp : Tp), c.members[i]? = some m → (crun k tps comps trs).base.tps[m]? = some tp →
      ((tp.st = .inCb ∨ tp.st = .done → i < c.completed) ∧
       (i < c.completed → tp.st = .inCb ∨ tp.st = .inCbN ∨ tp.st = .done)) := by
    intro i m tp hm htp
    obtain ⟨x, hx, _, b2, b3, b4⟩ := hci.mem i m hm
    rw [htp] at hx; cases hx
    constructor
    · intro hs
      rcases Nat.lt_trichotomy i c.completed with h | h | h
      · exact h
      · obtain ⟨a1', _, _⟩ := b4 h
        rcases hs with e | e <;> rw [e] at a1' <;> rcases a1' with e' | e' | e' | e' <;> cases e'
      · have := b3 h
        rcases hs with e | e <;> rw [e] at this <;> cases this
    · exact b2
  refine ⟨hcount.1, ?_, ?_, a2, hmemiff, ?_⟩
  · constructor
    · intro h1
      rcases Nat.lt_or_ge c.completed c.members.length with h | h
      · have := (a3 h).2; omega
      · omega
    · intro hcn; exact (hcount.2 (a2 hcn)).1
  · constructor
    · intro h1
      rcases Nat.lt_or_ge c.completed c.members.length with h | h
      · have := (a3 h).2; omega
      · exact (hcount.2 (a2 (by omega))).2
    · intro hcb
      rcases Nat.lt_or_ge c.completed c.members.length with h | h
      · exact absurd (a3 h).1 hcb
      · exact (hcount.2 (a2 (by omega))).1
  · intro hcb m tm hm htm
    have hcn : c.completed = c.members.length := by
      rcases Nat.lt_or_ge c.completed c.members.length with h | h
      · exact absurd (a3 h).1 hcb
      · omega
    obtain ⟨i, hil, hget⟩ := List.getElem_of_mem hm
    have hi : c.members[i]? = some m := by rw [List.getElem?_eq_getElem hil, hget]
    obtain ⟨x, hx, hem, b2, _, _⟩ := hci.mem i m hi
    rw [htm] at hx; cases hx
    have hstm := b2 (by omega)
    have hokm := hg.sinv.tpok tm (List.mem_of_getElem? htm)
    have hcbm : tm.cbAt ≠ 0 := by
      rcases hstm with e | e | e <;> simp only [tpOK, e] at hokm
      · omega
      · omega
      · exact hokm.2.2.2.2.2.2.2.2.2.2.2.2.1
    obtain ⟨_, e2, e3, e4, e5, e6⟩ := member_cb_state hokm hem hcbm
    refine ⟨hstm, e5, e6, e4, ?_⟩
    -- the last member
    have hne := hcs.ne
    have hll : c.members.length - 1 < c.members.length := by omega
    have hl : c.members[c.members.length - 1]? = some c.members[c.members.length - 1] := List.getElem?_eq_getElem hll
    obtain ⟨tl, htl, hel, _⟩ := hci.mem _ _ hl
    obtain ⟨f1, f2⟩ := a4 hcb _ tl hl htl
    by_cases hlast : i = c.members.length - 1
    · subst hlast
      rw [hl] at hi; cases hi
      rw [htm] at htl; cases htl
      exact f2
    · obtain ⟨d, hd⟩ : ∃ d, c.members.length - 1 = i + d + 1 := ⟨c.members.length - 1 - i - 1, by omega⟩
      obtain ⟨_, g2, g3, _⟩ := member_cb_state (hg.sinv.tpok tl (List.mem_of_getElem? htl)) hel f1
      obtain ⟨c1, c2⟩ := chain hci hg.sinv.tpok d i m _ tm tl hi (by rw [← hd]; exact hl) htm htl g2
      omega

/-- The second half of the statement, in full: whenever the compound's completion callback has run, every
    task of every composed taskpool has ended before it. -/
def CompletesAfterLast : Prop :=
  ∀ (k : Nat) (tps : List Tp) (comps : List Comp), WF tps comps → ∀ (trs : List CTr) (ci : Nat) (c : Comp),
    (crun k tps comps trs).comps[ci]? = some c → ∀ ts : Tp, (crun k tps comps trs).base.tps[c.self]? = some ts → ts.cbAt ≠ 0 →
    ∀ (m : Nat) (tm : Tp), m ∈ c.members → (crun k tps comps trs).base.tps[m]? = some tm →
      tm.ended = tm.total ∧ tm.lastEnd < ts.cbAt

/-- **The compound completes after its last taskpool** (repaired code): the full statement holds. -/
theorem C15_completes_after_last : CompletesAfterLast := by
  intro k tps comps hwf trs ci c hc ts hts hcb m tm hm htm
  obtain ⟨_, _, _, _, _, h6⟩ := C15_once k tps comps hwf trs ci c hc ts hts
  obtain ⟨_, e2, _, e4, e5⟩ := h6 hcb m tm hm htm
  exact ⟨e2, by omega⟩

def wTps : List Tp := [mkTp 1 false false, mkTp 1 false false, mkTp 0 false true]
def wComps : List Comp := [{ self := 2, members := [0, 1] }]
/-- non-vacuity: master adds the compound, starts, waits; the members run one after the other; the last
    member's callback terminates the compound (nested), then both decrements, then the wait returns -/
def wRun : List CTr :=
  [.ctx (.addCall 0 2), .ctx (.addInc 0), .startup 0 0, .ctx (.addInc 0),
   .ctx (.addReturn 0), .ctx .startBarrier, .ctx .startToken, .ctx .waitBegin, .ctx (.taskBegin 0 0), .ctx (.taskEnd 0),
   .memberCb 0 0 0, .ctx (.addInc 0), .ctx (.addReturn 0), .ctx (.dec 0), .ctx (.taskBegin 0 1), .ctx (.taskEnd 0),
   .memberCb 0 0 1, .ctx (.nestDec 0), .ctx (.dec 0), .ctx .sawZero, .ctx .barrier, .ctx .waitReturn]

theorem mkTp_fresh (n : Nat) (e d : Bool) : (mkTp n e d).fresh := by
  cases e <;> cases d <;> simp [mkTp, Tp.fresh]

theorem wWF : WF wTps wComps := by
  refine ⟨by decide, by decide, ?_, ?_⟩
  · intro c hc
    simp only [wComps, List.mem_cons, List.not_mem_nil, or_false] at hc
    subst hc
    refine ⟨rfl, rfl, by decide, by decide, ⟨_, rfl, rfl, rfl⟩, ?_⟩
    intro m hm
    simp only [List.mem_cons, List.not_mem_nil, or_false] at hm
    rcases hm with rfl | rfl <;> exact ⟨_, rfl, rfl⟩
  · intro tp h
    simp only [wTps, List.mem_cons, List.not_mem_nil, or_false] at h
    rcases h with rfl | rfl | rfl <;> exact mkTp_fresh _ _ _

set_option maxRecDepth 8000 in
/-- the run records: member callbacks at 12 and 20, the compound's callback at 21 (after the last task end,
    19), its decrement at 22, the last member's decrement at 23, the wait return at 26 -/
theorem wFacts : (crun 0 wTps wComps wRun).base.tps.map (fun t => (t.cbAt, t.decAt, t.addAt, t.firstBegin, t.lastEnd)) =
      [(12, 17, 5, 10, 11), (20, 23, 15, 18, 19), (21, 22, 2, 0, 0)] ∧
    (crun 0 wTps wComps wRun).base.waitRets = [26] ∧ (crun 0 wTps wComps wRun).base.active = 0 ∧
    (crun 0 wTps wComps wRun).comps.map (fun c => (c.self, c.members, c.completed, c.pending)) = [(2, [0, 1], 2, 0)] := by decide

/-! ## composition trees: nested compounds -/

/-- once the completion callback of a taskpool has run, all its tasks have ended before it (any kind of taskpool) -/
theorem cb_after_tasks {clk : Nat} {tp : Tp} (hok : tpOK clk tp) (hc : tp.cbAt ≠ 0) :
    tp.ended = tp.total ∧ tp.lastEnd < tp.cbAt := by
  cases hst : tp.st <;> simp only [tpOK, hst] at hok <;>
    obtain ⟨a1, a2, a3, a4, a5, a6, a7, a8, a9, a10, a11, a12⟩ := hok
  case notAdded => omega
  case adding => omega
  case added => omega
  case earlyCb => have := a7 a12.1; exact ⟨by omega, by omega⟩
  case earlyDec => have := a7 a12.1; exact ⟨by omega, by omega⟩
  case inCb => exact ⟨by omega, by omega⟩
  case inCbN => exact ⟨by omega, by omega⟩
  case done => exact ⟨by omega, by omega⟩

/-- every member of a compound whose callback has run has run its own callback before -/
theorem member_cb_lt_self {cs : CSt} (hg : GI cs) {ci : Nat} {c : Comp} (hc : cs.comps[ci]? = some c)
    {ts tm : Tp} {m : Nat} (hts : cs.base.tps[c.self]? = some ts) (hm : m ∈ c.members) (htm : cs.base.tps[m]? = some tm)
    (hcb : ts.cbAt ≠ 0) : tm.cbAt ≠ 0 ∧ tm.cbAt < ts.cbAt := by
  have hci := hg.ci ci c hc
  have hcs := hg.cself ci c hc
  obtain ⟨ts0, hts0, a0, ae, ass, ap, a1, a2, a3, a4, a5⟩ := hcs.ex
  rw [hts] at hts0; cases hts0
  have hle := hci.le
  have hcn : c.completed = c.members.length := by
    rcases Nat.lt_or_ge c.completed c.members.length with h | h
    · exact absurd (a3 h).1 hcb
    · omega
  obtain ⟨i, hil, hget⟩ := List.getElem_of_mem hm
  have hi : c.members[i]? = some m := by rw [List.getElem?_eq_getElem hil, hget]
  obtain ⟨x, hx, hem, b2, _, _⟩ := hci.mem i m hi
  rw [htm] at hx; cases hx
  have hstm := b2 (by omega)
  have hokm := hg.sinv.tpok tm (List.mem_of_getElem? htm)
  have hcbm : tm.cbAt ≠ 0 := by
    rcases hstm with e | e | e <;> simp only [tpOK, e] at hokm
    · omega
    · omega
    · exact hokm.2.2.2.2.2.2.2.2.2.2.2.2.1
  refine ⟨hcbm, ?_⟩
  have hne := hcs.ne
  have hll : c.members.length - 1 < c.members.length := by omega
  have hl : c.members[c.members.length - 1]? = some c.members[c.members.length - 1] := List.getElem?_eq_getElem hll
  obtain ⟨tl, htl, hel, _⟩ := hci.mem _ _ hl
  obtain ⟨f1, f2⟩ := a4 hcb _ tl hl htl
  by_cases hlast : i = c.members.length - 1
  · subst hlast
    rw [hl] at hi; cases hi
    rw [htm] at htl; cases htl
    exact f2
  · obtain ⟨d, hd⟩ : ∃ d, c.members.length - 1 = i + d + 1 := ⟨c.members.length - 1 - i - 1, by omega⟩
    obtain ⟨_, g2, g3, _⟩ := member_cb_state (hg.sinv.tpok tl (List.mem_of_getElem? htl)) hel f1
    obtain ⟨c1, c2⟩ := chain hci hg.sinv.tpok d i m _ tm tl hi (by rw [← hd]; exact hl) htm htl g2
    omega

/-- **A subtree runs inside the interval of its root.**  For a leaf x of the subtree rooted at the object n:
    x starts only after n was added, and once n's completion callback has run every task of x has ended before it. -/
theorem subtree_bounds {cs : CSt} (hg : GI cs) {n x : Nat} (hl : LeafOf cs.comps n x) :
    ∀ (tn tx : Tp), cs.base.tps[n]? = some tn → cs.base.tps[x]? = some tx →
      (tx.firstBegin ≠ 0 → tn.addAt ≠ 0 ∧ tn.addAt < tx.firstBegin) ∧
      (tn.cbAt ≠ 0 → tx.ended = tx.total ∧ tx.lastEnd < tn.cbAt) := by
  induction hl with
  | leaf n _ =>
    intro tn tx htn htx
    rw [htn] at htx; cases htx
    have hok := hg.sinv.tpok tn (List.mem_of_getElem? htn)
    refine ⟨?_, fun hc => cb_after_tasks hok hc⟩
    intro hb
    unfold tpOK at hok
    exact hok.2.2.2.2.2.2.2.1 hb
  | node c m x hc hm _ ih =>
    intro tn tx htn htx
    obtain ⟨ci, hci_lt, hget⟩ := List.getElem_of_mem hc
    have hcget : cs.comps[ci]? = some c := by rw [List.getElem?_eq_getElem hci_lt, hget]
    have hci := hg.ci ci c hcget
    have hcs := hg.cself ci c hcget
    obtain ⟨i, hil, hig⟩ := List.getElem_of_mem hm
    have hi : c.members[i]? = some m := by rw [List.getElem?_eq_getElem hil, hig]
    obtain ⟨tm, htm, _⟩ := hci.mem i m hi
    obtain ⟨ih1, ih2⟩ := ih tm tx htm htx
    obtain ⟨ts0, hts0, _, _, _, _, _, _, _, _, a5⟩ := hcs.ex
    rw [htn] at hts0; cases hts0
    constructor
    · intro hb
      obtain ⟨g1, g2⟩ := ih1 hb
      obtain ⟨g3, g4⟩ := a5 m tm hm htm g1
      exact ⟨g3, by omega⟩
    · intro hcb
      obtain ⟨g1, g2⟩ := member_cb_lt_self hg hcget htn hm htm hcb
      obtain ⟨g3, g4⟩ := ih2 g1
      exact ⟨g3, by omega⟩

/-- **Composition order over composition trees.**  In every reachable state of every run, for every object n of
    the composition forest (a compound at any nesting level) and leaves a before b in the in-order sequence of the
    subtree of n: as soon as any task of b has started, every task of a has ended, and the LAST task end of a is
    earlier than the FIRST task start of b. -/
theorem C15_inorder (k : Nat) (tps : List Tp) (comps : List Comp) (hwf : WF tps comps) (trs : List CTr)
    (n a b : Nat) (hp : Precedes (crun k tps comps trs).comps n a b)
    (ta tb : Tp) (hta : (crun k tps comps trs).base.tps[a]? = some ta) (htb : (crun k tps comps trs).base.tps[b]? = some tb)
    (hb : tb.firstBegin ≠ 0) : ta.ended = ta.total ∧ ta.lastEnd < tb.firstBegin := by
  have hg := gi_run k tps comps hwf trs
  induction hp with
  | direct c i j mi mj a b hc hij hi hj ha hbl =>
    obtain ⟨ci, hci_lt, hget⟩ := List.getElem_of_mem hc
    have hcget : (crun k tps comps trs).comps[ci]? = some c := by rw [List.getElem?_eq_getElem hci_lt, hget]
    have hci := hg.ci ci c hcget
    obtain ⟨ti, hti, _⟩ := hci.mem i mi hi
    obtain ⟨tj, htj, _⟩ := hci.mem j mj hj
    obtain ⟨g1, g2⟩ := (subtree_bounds hg hbl tj tb htj htb).1 hb
    obtain ⟨d, hd⟩ : ∃ d, j = i + d + 1 := ⟨j - i - 1, by omega⟩
    subst hd
    obtain ⟨c1, c2⟩ := chain hci hg.sinv.tpok d i mi mj ti tj hi hj hti htj g1
    obtain ⟨e1, e2⟩ := (subtree_bounds hg ha ti ta hti hta).2 c1
    exact ⟨e1, by omega⟩
  | nested c m a b _ _ _ ih => exact ih hta htb

/-- **The outermost compound completes once, after the last leaf.**  For every compound (in particular the root
    of a composition tree): its completion callback ran at most once, exactly once iff all its members completed,
    and when it has run every task of every leaf of its subtree — at any nesting depth — has ended before it. -/
theorem C15_root_after_leaves (k : Nat) (tps : List Tp) (comps : List Comp) (hwf : WF tps comps) (trs : List CTr)
    (ci : Nat) (c : Comp) (hc : (crun k tps comps trs).comps[ci]? = some c)
    (ts : Tp) (hts : (crun k tps comps trs).base.tps[c.self]? = some ts) :
    ts.cbs ≤ 1 ∧ (ts.cbs = 1 ↔ c.completed = c.members.length) ∧
    (ts.cbAt ≠ 0 → ∀ (x : Nat) (tx : Tp), LeafOf (crun k tps comps trs).comps c.self x →
        (crun k tps comps trs).base.tps[x]? = some tx → tx.ended = tx.total ∧ tx.lastEnd < ts.cbAt) := by
  have hg := gi_run k tps comps hwf trs
  obtain ⟨h1, h2, _⟩ := C15_once k tps comps hwf trs ci c hc ts hts
  exact ⟨h1, h2, fun hcb x tx hl htx => (subtree_bounds hg hl ts tx hts htx).2 hcb⟩

/-- members of the compounds never change: the forest relations can be read off the initial composition -/
theorem comps_static (k : Nat) (tps : List Tp) (comps : List Comp) (trs : List CTr) :
    (crun k tps comps trs).comps.map (fun c => (c.self, c.members)) = comps.map (fun c => (c.self, c.members)) := by
  unfold crun
  have key : ∀ (cs : CSt) (tr : CTr), (cstep cs tr).comps.map (fun c => (c.self, c.members)) = cs.comps.map (fun c => (c.self, c.members)) := by
    intro cs tr
    have hset : ∀ (l : List Comp) (i : Nat) (c c' : Comp), l[i]? = some c → c'.self = c.self → c'.members = c.members →
        (l.set i c').map (fun c => (c.self, c.members)) = l.map (fun c => (c.self, c.members)) := by
      intro l
      induction l with
      | nil => intro i c c' h; simp at h
      | cons a t ih =>
        intro i c c' h h1 h2
        cases i with
        | zero => simp at h; subst h; simp [h1, h2]
        | succ i => simp at h; simp [ih i c c' h h1 h2]
    unfold cstep
    cases hs : cstep? cs tr with
    | none => rfl
    | some cs' =>
      simp only [Option.getD_some]
      cases tr with
      | ctx tr =>
        simp only [cstep?] at hs
        split at hs
        · cases hst : step? cs.base tr with
          | none => rw [hst] at hs; cases hs
          | some s' => rw [hst] at hs; cases hs; rfl
        · cases hs
      | startup t c0 =>
        simp only [cstep?] at hs
        split at hs
        · rename_i comp hcomp
          split at hs
          · split at hs
            · split at hs
              · cases hst : step? _ (.startupAdd t _) with
                | none => rw [hst] at hs; cases hs
                | some s' => rw [hst] at hs; cases hs; exact hset _ _ _ _ hcomp rfl rfl
              · cases hs
            · cases hs
          · cases hs
        · cases hs
      | memberCb t c0 m =>
        simp only [cstep?] at hs
        split at hs
        · rename_i comp hcomp
          split at hs
          · split at hs
            · split at hs
              · split at hs
                · split at hs
                  · cases hst : step? _ (.addCall t _) with
                    | none => rw [hst] at hs; cases hs
                    | some s' => rw [hst] at hs; cases hs; exact hset _ _ _ _ hcomp rfl rfl
                  · cases hs
                · cases hs; exact hset _ _ _ _ hcomp rfl rfl
              · cases hs
            · cases hs
          · cases hs
        · cases hs
      | compCb t p c =>
        simp only [cstep?] at hs
        split at hs
        · rename_i par ch hpar hch
          split at hs
          · split at hs
            · split at hs
              · split at hs
                · cases hst : step? _ (.addCall t _) with
                  | none => rw [hst] at hs; cases hs
                  | some s' => rw [hst] at hs; cases hs; exact hset _ _ _ _ hpar rfl rfl
                · cases hs
              · cases hs; exact hset _ _ _ _ hpar rfl rfl
            · cases hs
          · cases hs
        · cases hs
  have fold : ∀ (trs : List CTr) (cs0 : CSt),
      (trs.foldl cstep cs0).comps.map (fun c => (c.self, c.members)) = cs0.comps.map (fun c => (c.self, c.members)) := by
    intro trs
    induction trs with
    | nil => intro cs0; rfl
    | cons tr trs ih => intro cs0; simp only [List.foldl_cons]; rw [ih, key]
  exact fold trs _

/-! ## parsec_compose over composition trees -/

theorem leavesList_append (a b : List CT) : leavesList (a ++ b) = leavesList a ++ leavesList b := by
  induction a with
  | nil => simp [leavesList]
  | cons t ts ih => simp [leavesList, ih, List.append_assoc]

/-- **The four argument-kind cases of `parsec_compose`, exactly as coded**: a compound `start` gets `next`
    appended as ONE member (whether `next` is plain or a compound: no flattening); a plain `start` yields a new
    compound [start, next] (a compound `next` becomes a nested member). -/
theorem C15_compose_cases :
    (∀ i j, composeT (.leaf i) (.leaf j) = .comp [.leaf i, .leaf j]) ∧
    (∀ ms j, composeT (.comp ms) (.leaf j) = .comp (ms ++ [.leaf j])) ∧
    (∀ i ns, composeT (.leaf i) (.comp ns) = .comp [.leaf i, .comp ns]) ∧
    (∀ ms ns, composeT (.comp ms) (.comp ns) = .comp (ms ++ [.comp ns])) :=
  ⟨fun _ _ => rfl, fun _ _ => rfl, fun _ _ => rfl, fun _ _ => rfl⟩

/-- in all four cases the leaves of the result are the leaves of `start` followed by the leaves of `next` -/
theorem C15_compose_inorder (a b : CT) : (composeT a b).leaves = a.leaves ++ b.leaves := by
  cases a with
  | leaf i => simp [composeT, CT.leaves, leavesList]
  | comp ms => simp [composeT, CT.leaves, leavesList_append, leavesList]

/-- **For every composition expression** (left folds, right folds, arbitrary binary trees) the leaf sequence of
    the object that `parsec_compose` builds is the in-order (left-to-right) sequence of the expression. -/
theorem C15_tree_inorder (e : CE) : e.eval.leaves = e.inorder := by
  induction e with
  | tp i => rfl
  | compose a b iha ihb => simp [CE.eval, CE.inorder, C15_compose_inorder, iha, ihb]

/-- the same two behaviours on the heap of compound objects kept by the trace acceptor -/
theorem C15_hcompose (heap : List (Nat × List Nat)) (fresh a b : Nat) :
    (heap.any (fun e => e.1 == a) = true →
        (hcompose heap fresh a b).2 = a ∧
        (hcompose heap fresh a b).1 = heap.map (fun e => if e.1 == a then (e.1, e.2 ++ [b]) else e)) ∧
    (heap.any (fun e => e.1 == a) = false →
        (hcompose heap fresh a b).2 = fresh ∧ (hcompose heap fresh a b).1 = heap ++ [(fresh, [a, b])]) := by
  constructor <;> intro h <;> simp [hcompose, h]

example : (CE.compose (.tp 0) (.compose (.compose (.tp 1) (.tp 2)) (.compose (.tp 3) (.tp 4)))).eval =
    .comp [.leaf 0, .comp [.leaf 1, .leaf 2, .comp [.leaf 3, .leaf 4]]] := rfl

/-! Non-vacuity for nested compounds: compose(t0, compose(t1, t2)) — object 3 = [1,2] is a member of object 4 = [0,3].
    The master adds 4, starts, waits; t0, then the nested compound (t1, t2), whose termination is detected nested in t2's
    callback and notifies 4, which terminates nested one level deeper. -/
def nTps : List Tp := [mkTp 1 false false, mkTp 1 false false, mkTp 1 false false, mkTp 0 false true, mkTp 0 false true]
def nComps : List Comp := [{ self := 3, members := [1, 2] }, { self := 4, members := [0, 3] }]
def nRun : List CTr := [.ctx (.addCall 0 4), .ctx (.addInc 0), .startup 0 1, .ctx (.addInc 0), .ctx (.addReturn 0),
  .ctx .startBarrier, .ctx .startToken, .ctx .waitBegin, .ctx (.taskBegin 0 0), .ctx (.taskEnd 0),
  .memberCb 0 1 0, .ctx (.addInc 0), .startup 0 0, .ctx (.addInc 0), .ctx (.addReturn 0), .ctx (.dec 0),
  .ctx (.taskBegin 0 1), .ctx (.taskEnd 0), .memberCb 0 0 1, .ctx (.addInc 0), .ctx (.addReturn 0), .ctx (.dec 0),
  .ctx (.taskBegin 0 2), .ctx (.taskEnd 0), .memberCb 0 0 2, .compCb 0 1 0, .ctx (.nestDec 0), .ctx (.nestDec 0), .ctx (.dec 0),
  .ctx .sawZero, .ctx .barrier, .ctx .waitReturn]

theorem nWF : WF nTps nComps := by
  refine ⟨by decide, by decide, ?_, ?_⟩
  · intro c hc
    simp only [nComps, List.mem_cons, List.not_mem_nil, or_false] at hc
    rcases hc with rfl | rfl
    · refine ⟨rfl, rfl, by decide, by decide, ⟨_, rfl, rfl, rfl⟩, ?_⟩
      intro m hm
      simp only [List.mem_cons, List.not_mem_nil, or_false] at hm
      rcases hm with rfl | rfl <;> exact ⟨_, rfl, rfl⟩
    · refine ⟨rfl, rfl, by decide, by decide, ⟨_, rfl, rfl, rfl⟩, ?_⟩
      intro m hm
      simp only [List.mem_cons, List.not_mem_nil, or_false] at hm
      rcases hm with rfl | rfl <;> exact ⟨_, rfl, rfl⟩
  · intro tp h
    simp only [nTps, List.mem_cons, List.not_mem_nil, or_false] at h
    rcases h with rfl | rfl | rfl | rfl | rfl <;> exact mkTp_fresh _ _ _

set_option maxRecDepth 16000 in
/-- (callback, decrement, add, first task begin, last task end) of t0, t1, t2, object 3, object 4 -/
theorem nFacts : (crun 0 nTps nComps nRun).base.tps.map (fun t => (t.cbAt, t.decAt, t.addAt, t.firstBegin, t.lastEnd)) =
      [(12, 20, 5, 10, 11), (23, 28, 18, 21, 22), (31, 36, 26, 29, 30), (32, 35, 15, 0, 0), (33, 34, 2, 0, 0)] ∧
    (crun 0 nTps nComps nRun).base.waitRets = [39] ∧ (crun 0 nTps nComps nRun).base.active = 0 := by decide

example : Precedes nComps 4 0 2 :=
  .direct { self := 4, members := [0, 3] } 0 1 0 3 0 2 (by simp [nComps]) (by decide) rfl rfl
    (.leaf 0 (by decide)) (.node { self := 3, members := [1, 2] } 2 2 (by simp [nComps]) (by decide) (.leaf 2 (by decide)))
example : Precedes nComps 4 1 2 :=
  .nested { self := 4, members := [0, 3] } 3 1 2 (by simp [nComps]) (by decide)
    (.direct { self := 3, members := [1, 2] } 0 1 1 2 1 2 (by simp [nComps]) (by decide) rfl rfl (.leaf 1 (by decide)) (.leaf 2 (by decide)))

/-! ## the code before the repair -/

/-- the same statement for the compound as the code stood before the repair -/
def CompletesAfterLastBuggy : Prop :=
  ∀ (k : Nat) (tps : List Tp) (comps : List Comp), WFBuggy tps comps → ∀ (trs : List CTr) (ci : Nat) (c : Comp),
    (crunBuggy k tps comps trs).comps[ci]? = some c → ∀ ts : Tp, (crunBuggy k tps comps trs).base.tps[c.self]? = some ts → ts.cbAt ≠ 0 →
    ∀ (m : Nat) (tm : Tp), m ∈ c.members → (crunBuggy k tps comps trs).base.tps[m]? = some tm →
      tm.ended = tm.total ∧ tm.lastEnd < ts.cbAt

def bTps : List Tp := [mkTp 1 false false, mkTp 1 false false, mkTp 0 true false]
/-- the witness: the compound's callback and decrement run inside add_taskpool; only then do the members run -/
def bRun : List CTr :=
  [.ctx (.addCall 0 2), .ctx (.earlyCb 0), .ctx (.earlyDec 0), .ctx (.addInc 0), .startup 0 0, .ctx (.addInc 0),
   .ctx (.addReturn 0), .ctx .startBarrier, .ctx .startToken, .ctx .waitBegin, .ctx (.taskBegin 0 0), .ctx (.taskEnd 0),
   .memberCb 0 0 0, .ctx (.addInc 0), .ctx (.addReturn 0), .ctx (.dec 0), .ctx (.taskBegin 0 1), .ctx (.taskEnd 0),
   .memberCb 0 0 1, .ctx (.dec 0), .ctx .sawZero, .ctx .barrier, .ctx .waitReturn]

theorem bWF : WFBuggy bTps wComps := by
  refine ⟨by decide, ?_, ?_⟩
  · intro c hc
    simp only [wComps, List.mem_cons, List.not_mem_nil, or_false] at hc
    subst hc
    refine ⟨rfl, rfl, by decide, by decide, ⟨_, rfl, rfl⟩, ?_⟩
    intro m hm
    simp only [List.mem_cons, List.not_mem_nil, or_false] at hm
    rcases hm with rfl | rfl <;> exact ⟨_, rfl, rfl, rfl⟩
  · intro tp h
    simp only [bTps, List.mem_cons, List.not_mem_nil, or_false] at h
    rcases h with rfl | rfl | rfl <;> exact mkTp_fresh _ _ _

set_option maxRecDepth 8000 in
/-- before the repair: callback of the compound at stamp 2 and its decrement at 3, before its increment (4);
    the members' tasks at 11-12 and 18-19; the wait returns at 24 with everything done -/
theorem bFacts : (crunBuggy 0 bTps wComps bRun).base.tps.map (fun t => (t.cbAt, t.decAt, t.addAt, t.firstBegin, t.lastEnd)) =
      [(13, 17, 6, 11, 12), (20, 21, 15, 18, 19), (2, 3, 4, 0, 0)] ∧
    (crunBuggy 0 bTps wComps bRun).base.waitRets = [24] ∧ (crunBuggy 0 bTps wComps bRun).base.active = 0 ∧
    (crunBuggy 0 bTps wComps bRun).comps.map (fun c => (c.self, c.members, c.completed, c.pending)) = [(2, [0, 1], 2, 0)] := by decide

/-- **Before the repair the compound did NOT complete after its last taskpool** (finding, repaired by the
    `fix:` commit on parsec/compound.c; the reverse patch is caught by the check with a failing input). -/
theorem C15_buggy_not_after_last : ¬ CompletesAfterLastBuggy := by
  intro h
  obtain ⟨hf, _, _, hcm⟩ := bFacts
  have hlen : (crunBuggy 0 bTps wComps bRun).base.tps.length = 3 := by
    have := congrArg List.length hf; simpa using this
  have hclen : (crunBuggy 0 bTps wComps bRun).comps.length = 1 := by
    have := congrArg List.length hcm; simpa using this
  have hc : (crunBuggy 0 bTps wComps bRun).comps[0]? = some (crunBuggy 0 bTps wComps bRun).comps[0] := List.getElem?_eq_getElem (by omega)
  have hs : (crunBuggy 0 bTps wComps bRun).base.tps[2]? = some (crunBuggy 0 bTps wComps bRun).base.tps[2] := List.getElem?_eq_getElem (by omega)
  have hm : (crunBuggy 0 bTps wComps bRun).base.tps[0]? = some (crunBuggy 0 bTps wComps bRun).base.tps[0] := List.getElem?_eq_getElem (by omega)
  have e0 := congrArg (fun l => l[0]?) hcm
  have e1 := congrArg (fun l => l[2]?) hf
  have e2 := congrArg (fun l => l[0]?) hf
  simp only [List.getElem?_map, hc, hs, hm, Option.map_some] at e0 e1 e2
  simp at e0 e1 e2
  obtain ⟨es, em, _, _⟩ := e0
  have := h 0 bTps wComps bWF bRun 0 _ hc _ (by rw [es]; exact hs) (by rw [e1.1]; decide) 0 _ (by rw [em]; decide) hm
  rw [e1.1, e2.2.2.2.2] at this
  omega

/-- **The array of `parsec_compose`, for every n ≥ 2.**  Composing `a, b, rest…` left to right yields a
    compound whose count is n, whose array holds the n taskpools in composition order followed by a
    NULL, inside an allocation of `16·(n/16 + 1)` entries (grown by 16 whenever the count reaches a
    multiple of 16), and no write ever fell outside the allocation.  Fewer than two taskpools create no
    compound object (`parsec_compose(tp, NULL) = tp`). -/
theorem C15_compose_array (a b : Nat) (rest : List Nat) :
    ∃ arr : Arr, compose (a :: b :: rest) = some arr ∧ arr.nb = rest.length + 2 ∧ arr.oob = false ∧
      arr.slots.length = arr.cap ∧ arr.cap = 16 * (arr.nb / 16 + 1) ∧ arr.nb < arr.cap ∧
      arr.slots[arr.nb]? = some .null ∧
      (∀ i, i < rest.length + 2 → arr.slots[i]? = ((a :: b :: rest)[i]?).map Slot.tp) ∧
      compose [a] = none ∧ compose [] = none := by
  have h := ainv_foldl rest _ _ (ainv_new a b)
  refine ⟨_, rfl, ?_, h.oob, h.len, h.cap, h.lt, h.term, ?_, rfl, rfl⟩
  · rw [h.nb]; simp
  · intro i hi
    exact h.elems i (by simp; omega)

set_option maxRecDepth 20000 in
example : ((compose (List.range 33)).map (fun a => (a.cap, a.nb, a.oob, a.slots[32]?, a.slots[33]?))) =
    some (48, 33, false, some (.tp 32), some .null) := by decide

/-- the theorems of C06 hold for the context under every run of the compound machine; in particular
    the wait is sound although a compound's counter goes down before it goes up -/
theorem C15_context_theorems_apply (k : Nat) (tps : List Tp) (comps : List Comp) (hwf : WF tps comps) (trs : List CTr) :
    Inv (crun k tps comps trs).base ∧ SInv (crun k tps comps trs).base ∧
    ∀ r ∈ (crun k tps comps trs).base.waitRets, ∀ tp ∈ (crun k tps comps trs).base.tps, tp.addAt ≠ 0 → tp.addAt < r →
      tp.st = .done ∧ tp.ended = tp.total ∧ tp.cbs = 1 ∧ tp.lastEnd < tp.cbAt ∧ tp.cbAt < tp.decAt ∧ tp.decAt < r := by
  have hg := gi_run k tps comps hwf trs
  refine ⟨hg.inv, hg.sinv, ?_⟩
  intro r hr tp hm ha hlt
  obtain ⟨_, h2⟩ := hg.sinv.wr r hr
  obtain ⟨hd0, hdr⟩ := h2 tp hm ha hlt
  have hok := hg.sinv.tpok tp hm
  cases hst : tp.st <;> simp only [tpOK, hst] at hok <;> first | omega | skip
  exact ⟨rfl, by omega, by omega, by omega, by omega, hdr⟩

end ParsecVerif.C15
