import ParsecVerif.Proofs.CompoundInv4
import ParsecVerif.Proofs.ComposeArray
/-!
# C15 — composed taskpools run strictly one after another

Theorems about EVERY run of the compound machine `Model/Compound.lean` (built on the context machine
of C06): any number of compounds of any size in one context, any number of threads and of other
taskpools, any interleaving.  `members[i]` is tp[i] of `parsec_compose`.
-/
namespace ParsecVerif.C15
open ParsecVerif.Context ParsecVerif.Compound

/-- a member whose callback stamp is set is in (or past) its completion callback -/
theorem member_cb_state {clk : Nat} {tp : Tp} (hok : tpOK clk tp) (he : tp.early = false) (hc : tp.cbAt ≠ 0) :
    (tp.st = .inCb ∨ tp.st = .inCbN ∨ tp.st = .done) ∧ tp.addAt ≠ 0 ∧ tp.addAt < tp.cbAt ∧ tp.lastEnd < tp.cbAt ∧
    tp.ended = tp.total ∧ tp.started = tp.total := by
  cases hst : tp.st <;> simp only [tpOK, hst] at hok <;>
    obtain ⟨a1, a2, a3, a4, a5, a6, a7, a8, a9, a10, a11, a12⟩ := hok
  case notAdded => omega
  case adding => omega
  case added => omega
  case earlyCb => rw [a12.1] at he; cases he
  case earlyDec => rw [a12.1] at he; cases he
  case inCb => exact ⟨Or.inl rfl, by omega, by omega, by omega, by omega, by omega⟩
  case inCbN => exact ⟨Or.inr (Or.inl rfl), by omega, by omega, by omega, by omega, by omega⟩
  case done =>
    have := a12.2.2.2.2.2.2.1 he
    exact ⟨Or.inr (Or.inr rfl), by omega, by omega, by omega, by omega, by omega⟩

/-- a member is never in a nested callback -/
theorem member_not_inCbN {l : List Tp} {c : Comp} (hci : CI l c) {i m : Nat} {tp : Tp} (hm : c.members[i]? = some m)
    (htp : l[m]? = some tp) : tp.st ≠ .inCbN := by
  obtain ⟨x, hx, _, b2, b3, b4⟩ := hci.mem i m hm
  rw [htp] at hx; cases hx
  intro e
  rcases Nat.lt_trichotomy i c.completed with h | h | h
  · rcases b2 h with e' | e' <;> rw [e] at e' <;> cases e'
  · rcases (b4 h).1 with e' | e' | e' <;> rw [e] at e' <;> cases e'
  · have := b3 h; rw [e] at this; cases this

/-- chain of stamps along the members: if member `i+d+1` was ever incremented, member `i` ran its
    completion callback before that -/
theorem chain {l : List Tp} {clk : Nat} {c : Comp} (hci : CI l c) (hS : ∀ tp ∈ l, tpOK clk tp) (d : Nat) :
    ∀ (i mi mj : Nat) (ti tj : Tp), c.members[i]? = some mi → c.members[i + d + 1]? = some mj →
      l[mi]? = some ti → l[mj]? = some tj → tj.addAt ≠ 0 → ti.cbAt ≠ 0 ∧ ti.cbAt < tj.addAt := by
  induction d with
  | zero => intro i mi mj ti tj hi hj hti htj hne; exact hci.stamps i mi mj ti tj hi hj hti htj hne
  | succ d ih =>
    intro i mi mj ti tj hi hj hti htj hne
    have hjl : i + (d + 1) + 1 < c.members.length := (List.getElem?_eq_some_iff.1 hj).1
    have hnl : i + 1 < c.members.length := by omega
    have hn : c.members[i + 1]? = some c.members[i + 1] := List.getElem?_eq_getElem hnl
    obtain ⟨tn, htn, hne', _⟩ := hci.mem (i + 1) _ hn
    have hj' : c.members[i + 1 + d + 1]? = some mj := by
      have : i + 1 + d + 1 = i + (d + 1) + 1 := by omega
      rw [this]; exact hj
    obtain ⟨b1, b2⟩ := ih (i + 1) _ mj tn tj hn hj' htn htj hne
    obtain ⟨_, c1, c2, _⟩ := member_cb_state (hS tn (List.mem_of_getElem? htn)) hne' b1
    obtain ⟨d1, d2⟩ := hci.stamps i mi _ ti tn hi hn hti htn c1
    exact ⟨d1, by omega⟩

/-- **Composition order.**  For `i < j`: as soon as any task of tp[j] has started, every task of
    tp[i] has started and ended, tp[i] is in or past its completion callback, and the LAST task end of
    tp[i] is earlier than the FIRST task start of tp[j]. -/
theorem C15_order (k : Nat) (tps : List Tp) (comps : List Comp) (hwf : WF tps comps) (trs : List CTr)
    (ci : Nat) (c : Comp) (hc : (crun k tps comps trs).comps[ci]? = some c)
    (i j mi mj : Nat) (ti tj : Tp) (hij : i < j) (hi : c.members[i]? = some mi) (hj : c.members[j]? = some mj)
    (hti : (crun k tps comps trs).base.tps[mi]? = some ti) (htj : (crun k tps comps trs).base.tps[mj]? = some tj)
    (hb : tj.firstBegin ≠ 0) :
    ti.ended = ti.total ∧ ti.started = ti.total ∧ (ti.st = .inCb ∨ ti.st = .done) ∧
    ti.lastEnd < ti.cbAt ∧ ti.cbAt < tj.addAt ∧ tj.addAt < tj.firstBegin := by
  have hg := gi_run k tps comps hwf trs
  have hci := hg.ci ci c hc
  have hokj := hg.sinv.tpok tj (List.mem_of_getElem? htj)
  have hokj' := hokj
  unfold tpOK at hokj'
  obtain ⟨ha0, ha1⟩ := hokj'.2.2.2.2.2.2.2.1 hb
  obtain ⟨d, hd⟩ : ∃ d, j = i + d + 1 := ⟨j - i - 1, by omega⟩
  subst hd
  obtain ⟨b1, b2⟩ := chain hci hg.sinv.tpok d i mi mj ti tj hi hj hti htj ha0
  obtain ⟨x, hx, hei, _⟩ := hci.mem i mi hi
  rw [hti] at hx; cases hx
  obtain ⟨e1, _, _, e4, e5, e6⟩ := member_cb_state (hg.sinv.tpok ti (List.mem_of_getElem? hti)) hei b1
  have hnn := member_not_inCbN hci hi hti
  have e1' : ti.st = .inCb ∨ ti.st = .done := by
    rcases e1 with e | e | e
    · exact Or.inl e
    · exact absurd e hnn
    · exact Or.inr e
  exact ⟨e5, e6, e1', e4, b2, ha1⟩

/-- **The assert of `parsec_composed_taskpool_cb` cannot fail, and the next taskpool is enabled iff
    some remain.**  Whenever the termination of a member `m` can be detected, `m` is
    `taskpool_array[completed]`, `nb_pending_actions = n − completed`, hence `remaining > 0` exactly
    when `completed + 1 < n`, and in that case `taskpool_array[completed+1]` exists and has never been added. -/
theorem C15_assert_holds (k : Nat) (tps : List Tp) (comps : List Comp) (hwf : WF tps comps) (trs : List CTr)
    (ci : Nat) (c : Comp) (hc : (crun k tps comps trs).comps[ci]? = some c) (t m : Nat) (hm : m ∈ c.members) (s1 : St)
    (hdet : step? (crun k tps comps trs).base (.detect t m) = some s1) :
    c.members[c.completed]? = some m ∧ c.pending = (c.members.length : Int) - c.completed ∧
    (c.pending - 1 > 0 ↔ c.completed + 1 < c.members.length) ∧
    (c.completed + 1 < c.members.length → ∃ (nx : Nat) (tn : Tp), c.members[c.completed + 1]? = some nx ∧
        (crun k tps comps trs).base.tps[nx]? = some tn ∧ tn.st = .notAdded) := by
  have hg := gi_run k tps comps hwf trs
  have hci := hg.ci ci c hc
  obtain ⟨tp, htp, hst, _, _⟩ := detect_eff hdet
  obtain ⟨kk, hkl, hkget⟩ := List.getElem_of_mem hm
  have hk : c.members[kk]? = some m := by rw [List.getElem?_eq_getElem hkl, hkget]
  obtain ⟨hkc, hpend, hlt⟩ := added_pos hci hk htp hst
  refine ⟨hkc ▸ hk, hpend, by omega, ?_⟩
  intro hlt'
  have hn : c.members[c.completed + 1]? = some c.members[c.completed + 1] := List.getElem?_eq_getElem hlt'
  obtain ⟨tn, htn, _, _, h3, _⟩ := hci.mem _ _ hn
  exact ⟨_, tn, hn, htn, h3 (by omega)⟩

/-- **The compound completes exactly once, after tp[n-1]** (repaired code).  At every moment of every
    run: the completion callback of the compound object ran at most once; it has run (exactly once)
    if and only if all `n` members completed; and when it has run, every member is in or past its own
    completion callback, all its tasks have started and ended, and
    `lastEnd(member) < cbAt(member) < cbAt(compound)`: the compound's completion is later than the
    last task of every composed taskpool (in particular of tp[n-1]).  The members complete in order:
    exactly the first `completed` of them are in or past their callback. -/
theorem C15_once (k : Nat) (tps : List Tp) (comps : List Comp) (hwf : WF tps comps) (trs : List CTr)
    (ci : Nat) (c : Comp) (hc : (crun k tps comps trs).comps[ci]? = some c)
    (ts : Tp) (hts : (crun k tps comps trs).base.tps[c.self]? = some ts) :
    ts.cbs ≤ 1 ∧ (ts.cbs = 1 ↔ c.completed = c.members.length) ∧ (ts.cbs = 1 ↔ ts.cbAt ≠ 0) ∧
    (c.completed = c.members.length → ts.st = .inCbN ∨ ts.st = .done) ∧
    (∀ (i m : Nat) (tp : Tp), c.members[i]? = some m → (crun k tps comps trs).base.tps[m]? = some tp →
        ((tp.st = .inCb ∨ tp.st = .done) ↔ i < c.completed)) ∧
    (ts.cbAt ≠ 0 → ∀ (m : Nat) (tm : Tp), m ∈ c.members → (crun k tps comps trs).base.tps[m]? = some tm →
        (tm.st = .inCb ∨ tm.st = .done) ∧ tm.ended = tm.total ∧ tm.started = tm.total ∧
        tm.lastEnd < tm.cbAt ∧ tm.cbAt < ts.cbAt) := by
  have hg := gi_run k tps comps hwf trs
  have hci := hg.ci ci c hc
  have hcs := hg.cself ci c hc
  obtain ⟨ts0, hts0, a0, ae, ass, ap, a1, a2, a3, a4⟩ := hcs.ex
  rw [hts] at hts0; cases hts0
  have hok := hg.sinv.tpok ts (List.mem_of_getElem? hts)
  have hle := hci.le
  -- callback count and stamp by state
  have hcount : ts.cbs ≤ 1 ∧ ((ts.st = .inCbN ∨ ts.st = .done) → ts.cbs = 1 ∧ ts.cbAt ≠ 0) := by
    cases hst : ts.st <;> simp only [tpOK, hst] at hok <;>
      obtain ⟨b1, b2, b3, b4, b5, b6, b7, b8, b9, b10, b11, b12⟩ := hok
    case notAdded => exact ⟨b6, fun e => by rcases e with e | e <;> cases e⟩
    case adding => exact ⟨b6, fun e => by rcases e with e | e <;> cases e⟩
    case earlyCb => exact ⟨b6, fun e => by rcases e with e | e <;> cases e⟩
    case earlyDec => exact ⟨b6, fun e => by rcases e with e | e <;> cases e⟩
    case added => exact ⟨b6, fun e => by rcases e with e | e <;> cases e⟩
    case inCb => exact ⟨b6, fun e => by rcases e with e | e <;> cases e⟩
    case inCbN => exact ⟨b6, fun _ => ⟨b12.2.2.1, by omega⟩⟩
    case done => exact ⟨b6, fun _ => ⟨b12.1, b12.2.1⟩⟩
  have hmemiff : ∀ (i m : Nat) (tp : Tp), c.members[i]? = some m → (crun k tps comps trs).base.tps[m]? = some tp →
      ((tp.st = .inCb ∨ tp.st = .done) ↔ i < c.completed) := by
    intro i m tp hm htp
    obtain ⟨x, hx, _, b2, b3, b4⟩ := hci.mem i m hm
    rw [htp] at hx; cases hx
    constructor
    · intro hs
      rcases Nat.lt_trichotomy i c.completed with h | h | h
      · exact h
      · obtain ⟨a1', _, _⟩ := b4 h
        rcases hs with e | e <;> rw [e] at a1' <;> rcases a1' with e' | e' | e' <;> cases e'
      · have := b3 h
        rcases hs with e | e <;> rw [e] at this <;> cases this
    · exact b2
  refine ⟨hcount.1, ?_, ?_, a2, hmemiff, ?_⟩
  · constructor
    · intro h1
      rcases Nat.lt_or_ge c.completed c.members.length with h | h
      · have := (a3 h).2; omega
      · omega
    · intro hcn; exact (hcount.2 (a2 hcn)).1
  · constructor
    · intro h1
      rcases Nat.lt_or_ge c.completed c.members.length with h | h
      · have := (a3 h).2; omega
      · exact (hcount.2 (a2 (by omega))).2
    · intro hcb
      rcases Nat.lt_or_ge c.completed c.members.length with h | h
      · exact absurd (a3 h).1 hcb
      · exact (hcount.2 (a2 (by omega))).1
  · intro hcb m tm hm htm
    have hcn : c.completed = c.members.length := by
      rcases Nat.lt_or_ge c.completed c.members.length with h | h
      · exact absurd (a3 h).1 hcb
      · omega
    obtain ⟨i, hil, hget⟩ := List.getElem_of_mem hm
    have hi : c.members[i]? = some m := by rw [List.getElem?_eq_getElem hil, hget]
    obtain ⟨x, hx, hem, b2, _, _⟩ := hci.mem i m hi
    rw [htm] at hx; cases hx
    have hstm := b2 (by omega)
    have hokm := hg.sinv.tpok tm (List.mem_of_getElem? htm)
    have hcbm : tm.cbAt ≠ 0 := by
      rcases hstm with e | e <;> simp only [tpOK, e] at hokm
      · omega
      · exact hokm.2.2.2.2.2.2.2.2.2.2.2.2.1
    obtain ⟨_, e2, e3, e4, e5, e6⟩ := member_cb_state hokm hem hcbm
    refine ⟨hstm, e5, e6, e4, ?_⟩
    -- the last member
    have hne := hcs.ne
    have hll : c.members.length - 1 < c.members.length := by omega
    have hl : c.members[c.members.length - 1]? = some c.members[c.members.length - 1] := List.getElem?_eq_getElem hll
    obtain ⟨tl, htl, hel, _⟩ := hci.mem _ _ hl
    obtain ⟨f1, f2⟩ := a4 hcb _ tl hl htl
    by_cases hlast : i = c.members.length - 1
    · subst hlast
      rw [hl] at hi; cases hi
      rw [htm] at htl; cases htl
      exact f2
    · obtain ⟨d, hd⟩ : ∃ d, c.members.length - 1 = i + d + 1 := ⟨c.members.length - 1 - i - 1, by omega⟩
      obtain ⟨_, g2, g3, _⟩ := member_cb_state (hg.sinv.tpok tl (List.mem_of_getElem? htl)) hel f1
      obtain ⟨c1, c2⟩ := chain hci hg.sinv.tpok d i m _ tm tl hi (by rw [← hd]; exact hl) htm htl g2
      omega

/-- The second half of the statement, in full: whenever the compound's completion callback has run, every
    task of every composed taskpool has ended before it. -/
def CompletesAfterLast : Prop :=
  ∀ (k : Nat) (tps : List Tp) (comps : List Comp), WF tps comps → ∀ (trs : List CTr) (ci : Nat) (c : Comp),
    (crun k tps comps trs).comps[ci]? = some c → ∀ ts : Tp, (crun k tps comps trs).base.tps[c.self]? = some ts → ts.cbAt ≠ 0 →
    ∀ (m : Nat) (tm : Tp), m ∈ c.members → (crun k tps comps trs).base.tps[m]? = some tm →
      tm.ended = tm.total ∧ tm.lastEnd < ts.cbAt

/-- **The compound completes after its last taskpool** (repaired code): the full statement holds. -/
theorem C15_completes_after_last : CompletesAfterLast := by
  intro k tps comps hwf trs ci c hc ts hts hcb m tm hm htm
  obtain ⟨_, _, _, _, _, h6⟩ := C15_once k tps comps hwf trs ci c hc ts hts
  obtain ⟨_, e2, _, e4, e5⟩ := h6 hcb m tm hm htm
  exact ⟨e2, by omega⟩

def wTps : List Tp := [mkTp 1 false false, mkTp 1 false false, mkTp 0 false true]
def wComps : List Comp := [{ self := 2, members := [0, 1] }]
/-- non-vacuity: master adds the compound, starts, waits; the members run one after the other; the last
    member's callback terminates the compound (nested), then both decrements, then the wait returns -/
def wRun : List CTr :=
  [.ctx (.addCall 0 2), .ctx (.addInc 0), .startup 0 0, .ctx (.addInc 0),
   .ctx (.addReturn 0), .ctx .startBarrier, .ctx .startToken, .ctx .waitBegin, .ctx (.taskBegin 0 0), .ctx (.taskEnd 0),
   .memberCb 0 0 0, .ctx (.addInc 0), .ctx (.addReturn 0), .ctx (.dec 0), .ctx (.taskBegin 0 1), .ctx (.taskEnd 0),
   .memberCb 0 0 1, .ctx (.nestDec 0), .ctx (.dec 0), .ctx .sawZero, .ctx .barrier, .ctx .waitReturn]

theorem mkTp_fresh (n : Nat) (e d : Bool) : (mkTp n e d).fresh := by
  cases e <;> cases d <;> simp [mkTp, Tp.fresh]

theorem wWF : WF wTps wComps := by
  refine ⟨by decide, by decide, ?_, ?_⟩
  · intro c hc
    simp only [wComps, List.mem_cons, List.not_mem_nil, or_false] at hc
    subst hc
    refine ⟨rfl, rfl, by decide, by decide, ⟨_, rfl, rfl, rfl⟩, ?_⟩
    intro m hm
    simp only [List.mem_cons, List.not_mem_nil, or_false] at hm
    rcases hm with rfl | rfl <;> exact ⟨_, rfl, rfl, rfl⟩
  · intro tp h
    simp only [wTps, List.mem_cons, List.not_mem_nil, or_false] at h
    rcases h with rfl | rfl | rfl <;> exact mkTp_fresh _ _ _

set_option maxRecDepth 8000 in
/-- the run records: member callbacks at 12 and 20, the compound's callback at 21 (after the last task end,
    19), its decrement at 22, the last member's decrement at 23, the wait return at 26 -/
theorem wFacts : (crun 0 wTps wComps wRun).base.tps.map (fun t => (t.cbAt, t.decAt, t.addAt, t.firstBegin, t.lastEnd)) =
      [(12, 17, 5, 10, 11), (20, 23, 15, 18, 19), (21, 22, 2, 0, 0)] ∧
    (crun 0 wTps wComps wRun).base.waitRets = [26] ∧ (crun 0 wTps wComps wRun).base.active = 0 ∧
    (crun 0 wTps wComps wRun).comps.map (fun c => (c.self, c.members, c.completed, c.pending)) = [(2, [0, 1], 2, 0)] := by decide

/-! ## the code before the repair -/

/-- the same statement for the compound as the code stood before the repair -/
def CompletesAfterLastBuggy : Prop :=
  ∀ (k : Nat) (tps : List Tp) (comps : List Comp), WFBuggy tps comps → ∀ (trs : List CTr) (ci : Nat) (c : Comp),
    (crunBuggy k tps comps trs).comps[ci]? = some c → ∀ ts : Tp, (crunBuggy k tps comps trs).base.tps[c.self]? = some ts → ts.cbAt ≠ 0 →
    ∀ (m : Nat) (tm : Tp), m ∈ c.members → (crunBuggy k tps comps trs).base.tps[m]? = some tm →
      tm.ended = tm.total ∧ tm.lastEnd < ts.cbAt

def bTps : List Tp := [mkTp 1 false false, mkTp 1 false false, mkTp 0 true false]
/-- the witness: the compound's callback and decrement run inside add_taskpool; only then do the members run -/
def bRun : List CTr :=
  [.ctx (.addCall 0 2), .ctx (.earlyCb 0), .ctx (.earlyDec 0), .ctx (.addInc 0), .startup 0 0, .ctx (.addInc 0),
   .ctx (.addReturn 0), .ctx .startBarrier, .ctx .startToken, .ctx .waitBegin, .ctx (.taskBegin 0 0), .ctx (.taskEnd 0),
   .memberCb 0 0 0, .ctx (.addInc 0), .ctx (.addReturn 0), .ctx (.dec 0), .ctx (.taskBegin 0 1), .ctx (.taskEnd 0),
   .memberCb 0 0 1, .ctx (.dec 0), .ctx .sawZero, .ctx .barrier, .ctx .waitReturn]

theorem bWF : WFBuggy bTps wComps := by
  refine ⟨by decide, ?_, ?_⟩
  · intro c hc
    simp only [wComps, List.mem_cons, List.not_mem_nil, or_false] at hc
    subst hc
    refine ⟨rfl, rfl, by decide, by decide, ⟨_, rfl, rfl⟩, ?_⟩
    intro m hm
    simp only [List.mem_cons, List.not_mem_nil, or_false] at hm
    rcases hm with rfl | rfl <;> exact ⟨_, rfl, rfl, rfl⟩
  · intro tp h
    simp only [bTps, List.mem_cons, List.not_mem_nil, or_false] at h
    rcases h with rfl | rfl | rfl <;> exact mkTp_fresh _ _ _

set_option maxRecDepth 8000 in
/-- before the repair: callback of the compound at stamp 2 and its decrement at 3, before its increment (4);
    the members' tasks at 11-12 and 18-19; the wait returns at 24 with everything done -/
theorem bFacts : (crunBuggy 0 bTps wComps bRun).base.tps.map (fun t => (t.cbAt, t.decAt, t.addAt, t.firstBegin, t.lastEnd)) =
      [(13, 17, 6, 11, 12), (20, 21, 15, 18, 19), (2, 3, 4, 0, 0)] ∧
    (crunBuggy 0 bTps wComps bRun).base.waitRets = [24] ∧ (crunBuggy 0 bTps wComps bRun).base.active = 0 ∧
    (crunBuggy 0 bTps wComps bRun).comps.map (fun c => (c.self, c.members, c.completed, c.pending)) = [(2, [0, 1], 2, 0)] := by decide

/-- **Before the repair the compound did NOT complete after its last taskpool** (finding, repaired by the
    `fix:` commit on parsec/compound.c; the reverse patch is caught by the check with a failing input). -/
theorem C15_buggy_not_after_last : ¬ CompletesAfterLastBuggy := by
  intro h
  obtain ⟨hf, _, _, hcm⟩ := bFacts
  have hlen : (crunBuggy 0 bTps wComps bRun).base.tps.length = 3 := by
    have := congrArg List.length hf; simpa using this
  have hclen : (crunBuggy 0 bTps wComps bRun).comps.length = 1 := by
    have := congrArg List.length hcm; simpa using this
  have hc : (crunBuggy 0 bTps wComps bRun).comps[0]? = some (crunBuggy 0 bTps wComps bRun).comps[0] := List.getElem?_eq_getElem (by omega)
  have hs : (crunBuggy 0 bTps wComps bRun).base.tps[2]? = some (crunBuggy 0 bTps wComps bRun).base.tps[2] := List.getElem?_eq_getElem (by omega)
  have hm : (crunBuggy 0 bTps wComps bRun).base.tps[0]? = some (crunBuggy 0 bTps wComps bRun).base.tps[0] := List.getElem?_eq_getElem (by omega)
  have e0 := congrArg (fun l => l[0]?) hcm
  have e1 := congrArg (fun l => l[2]?) hf
  have e2 := congrArg (fun l => l[0]?) hf
  simp only [List.getElem?_map, hc, hs, hm, Option.map_some] at e0 e1 e2
  simp at e0 e1 e2
  obtain ⟨es, em, _, _⟩ := e0
  have := h 0 bTps wComps bWF bRun 0 _ hc _ (by rw [es]; exact hs) (by rw [e1.1]; decide) 0 _ (by rw [em]; decide) hm
  rw [e1.1, e2.2.2.2.2] at this
  omega

/-- **The array of `parsec_compose`, for every n ≥ 2.**  Composing `a, b, rest…` left to right yields a
    compound whose count is n, whose array holds the n taskpools in composition order followed by a
    NULL, inside an allocation of `16·(n/16 + 1)` entries (grown by 16 whenever the count reaches a
    multiple of 16), and no write ever fell outside the allocation.  Fewer than two taskpools create no
    compound object (`parsec_compose(tp, NULL) = tp`). -/
theorem C15_compose_array (a b : Nat) (rest : List Nat) :
    ∃ arr : Arr, compose (a :: b :: rest) = some arr ∧ arr.nb = rest.length + 2 ∧ arr.oob = false ∧
      arr.slots.length = arr.cap ∧ arr.cap = 16 * (arr.nb / 16 + 1) ∧ arr.nb < arr.cap ∧
      arr.slots[arr.nb]? = some .null ∧
      (∀ i, i < rest.length + 2 → arr.slots[i]? = ((a :: b :: rest)[i]?).map Slot.tp) ∧
      compose [a] = none ∧ compose [] = none := by
  have h := ainv_foldl rest _ _ (ainv_new a b)
  refine ⟨_, rfl, ?_, h.oob, h.len, h.cap, h.lt, h.term, ?_, rfl, rfl⟩
  · rw [h.nb]; simp
  · intro i hi
    exact h.elems i (by simp; omega)

set_option maxRecDepth 20000 in
example : ((compose (List.range 33)).map (fun a => (a.cap, a.nb, a.oob, a.slots[32]?, a.slots[33]?))) =
    some (48, 33, false, some (.tp 32), some .null) := by decide

/-- the theorems of C06 hold for the context under every run of the compound machine; in particular
    the wait is sound although a compound's counter goes down before it goes up -/
theorem C15_context_theorems_apply (k : Nat) (tps : List Tp) (comps : List Comp) (hwf : WF tps comps) (trs : List CTr) :
    Inv (crun k tps comps trs).base ∧ SInv (crun k tps comps trs).base ∧
    ∀ r ∈ (crun k tps comps trs).base.waitRets, ∀ tp ∈ (crun k tps comps trs).base.tps, tp.addAt ≠ 0 → tp.addAt < r →
      tp.st = .done ∧ tp.ended = tp.total ∧ tp.cbs = 1 ∧ tp.lastEnd < tp.cbAt ∧ tp.cbAt < tp.decAt ∧ tp.decAt < r := by
  have hg := gi_run k tps comps hwf trs
  refine ⟨hg.inv, hg.sinv, ?_⟩
  intro r hr tp hm ha hlt
  obtain ⟨_, h2⟩ := hg.sinv.wr r hr
  obtain ⟨hd0, hdr⟩ := h2 tp hm ha hlt
  have hok := hg.sinv.tpok tp hm
  cases hst : tp.st <;> simp only [tpOK, hst] at hok <;> first | omega | skip
  exact ⟨rfl, by omega, by omega, by omega, by omega, hdr⟩

end ParsecVerif.C15
