import ParsecVerif.Model.Compound
namespace ParsecVerif.C15
end ParsecVerif.C15
