import ParsecVerif.Proofs.MaxHeapPool
import ParsecVerif.Proofs.MaxHeapShape
import ParsecVerif.Proofs.HbBufferBest
/-!
# C35 — task buffers and heaps keep every task and prefer the best

Models: `ParsecVerif.HbBuffer` (parsec/hbbuffer.c, one step per shared-memory access, any number of
threads) and `ParsecVerif.MaxHeap` (parsec/maxheap.c, sequential — "not thread safe, protected by the
upper level").

Buffers
* `C35_hbb_conservation` — for all initial contents, all programs of push_all / push_all_by_priority /
  pop_best per thread and ALL interleavings: slots ⊎ parent store ⊎ in-hand = what was there initially
  (nothing is created, nothing is lost), as multisets.
* `C35_hbb_never_lost` — the same at quiescence: slots ⊎ parent ⊎ callers' hands.
* `C35_hbb_best` — a pop_best that runs alone returns a task of maximal priority, the one at the lowest
  index among equals, empties exactly that slot; NULL iff the buffer holds no task.
* `C35_macro_is_micro` — a step of the cooperative scheduler is a run of model steps.

Heaps (any script of create / insert / remove / split_and_steal on a pool of heaps, < 2^32 calls)
* `C35_heap_shape`, `C35_heap_leftComplete` — every live heap is the left-complete tree with `size` nodes; `C35_heap_nav_defined`:
  so the bit navigation of remove / split never dereferences NULL (the operations are defined).
* `C35_heap_order` — the top has the highest priority of the heap and `heap->priority` is the top's.
* `C35_heap_conservation` — tasks in the heaps ⊎ returned tasks = inserted tasks.
* `C35_heap_returns_top` — remove and split_and_steal return the top, i.e. a maximal task.
* `C35_split_sizes` — the sizes written by the split are the real sizes of the two subtrees.
-/
namespace ParsecVerif.C35
open ParsecVerif.MaxHeap (Task)

/-! ## hierarchical bounded buffers -/
section Buffers
open ParsecVerif.HbBuffer

theorem total_init (slots0 : List (Option Task)) (thr0 : List (List Task × List Op)) (a : Task) :
    total a (init slots0 thr0) = slots0.count (some a) + (thr0.map (fun p => p.1.count a)).sum := by
  simp only [total, init, memCount, List.count_nil, Nat.add_zero, List.map_map]
  congr 1
  apply congrArg List.sum
  apply List.map_congr_left
  intro p _
  simp [own, held]

/-- CONSERVATION, all interleavings: after any schedule, for every task `a`,
    #(a in the slots) + #(a in the parent store) + Σ_threads #(a in the locals of the running operation
    or in the caller's hand) = #(a in the initial slots) + Σ_threads #(a initially in hand). -/
theorem C35_hbb_conservation (slots0 : List (Option Task)) (thr0 : List (List Task × List Op))
    (sched : List Nat) (a : Task) :
    (run (init slots0 thr0) sched).mem.slots.count (some a) + (run (init slots0 thr0) sched).mem.parent.count a +
      ((run (init slots0 thr0) sched).thr.map (own a)).sum
    = slots0.count (some a) + (thr0.map (fun p => p.1.count a)).sum := by
  have := run_total sched (init slots0 thr0) a
  rw [total_init] at this
  simpa [total, memCount] using this

/-- at quiescence (no operation in progress) no pushed task is lost: it is in a slot, in the parent
    store, or was popped into a caller's hand -/
theorem C35_hbb_never_lost (slots0 : List (Option Task)) (thr0 : List (List Task × List Op))
    (sched : List Nat) (a : Task)
    (hq : ∀ th ∈ (run (init slots0 thr0) sched).thr, th.pc = .idle) :
    (run (init slots0 thr0) sched).mem.slots.count (some a) + (run (init slots0 thr0) sched).mem.parent.count a +
      ((run (init slots0 thr0) sched).thr.map (fun th => th.hand.count a)).sum
    = slots0.count (some a) + (thr0.map (fun p => p.1.count a)).sum := by
  rw [← C35_hbb_conservation slots0 thr0 sched a]
  congr 1
  apply congrArg
  apply List.map_congr_left
  intro th hth
  simp [own, held, hq th hth]

/-- QUIESCENT pop_best = the best: thread `t` is about to call pop_best and then runs alone.  After
    finitely many of its steps the call has returned `r` where
    * `r = none` iff no slot holds a task (and the buffer is unchanged),
    * `r = some x`: `x` sits in some slot `k`, every task in the buffer has priority ≤ x's, every task of
      equal priority sits at an index ≥ k, slot `k` is now empty and all other slots are unchanged;
      `x` is in the caller's hand. -/
theorem C35_hbb_best (s : State) (t : Nat) (th : Thread) (rest : List Op)
    (ht : s.thr[t]? = some th) (hpc : th.pc = .idle) (htodo : th.todo = .pop :: rest) :
    ∃ n r, (solo n s t).thr[t]? = some { th with todo := rest, hand := r.toList ++ th.hand, rets := th.rets ++ [.item r] } ∧
      (∀ u, u ≠ t → (solo n s t).thr[u]? = s.thr[u]?) ∧
      (solo n s t).mem.parent = s.mem.parent ∧
      match r with
      | none => (∀ (j : Nat) (y : Task), s.mem.slots[j]? = some (some y) → False) ∧ (solo n s t).mem.slots = s.mem.slots
      | some x => ∃ k, s.mem.slots[k]? = some (some x) ∧
          (∀ (j : Nat) (y : Task), s.mem.slots[j]? = some (some y) → y.prio < x.prio ∨ (y.prio = x.prio ∧ k ≤ j)) ∧
          (solo n s t).mem.slots = s.mem.slots.set k none := by
  have hti : t < s.thr.length := (List.getElem?_eq_some_iff.1 ht).1
  -- the invocation
  have e0 : step s t = { mem := s.mem, thr := s.thr.set t { th with todo := rest, pc := .poRd 0 none } } := by
    rw [step_at s t th ht, hpc]
    simp [stepPc, invoke, htodo]
  have ht1 : (step s t).thr[t]? = some { th with todo := rest, pc := .poRd 0 none } := by
    rw [e0]; simp [List.getElem?_set_self hti]
  have hm1 : (step s t).mem = s.mem := by rw [e0]
  have hb := scan_spec s.mem.slots
  have hother : ∀ (x : Thread) (u : Nat), u ≠ t → ((step s t).thr.set t x)[u]? = s.thr[u]? := by
    intro x u hu
    rw [e0]
    simp only [List.set_set, List.getElem?_set]
    have : ¬ t = u := fun h => hu h.symm
    simp [this]
  have key : ∀ n, solo n (step s t) t = afterPop (step s t) t { th with todo := rest, pc := .poRd 0 none } →
      ∃ n r, (solo n s t).thr[t]? = some { th with todo := rest, hand := r.toList ++ th.hand, rets := th.rets ++ [.item r] } ∧
      (∀ u, u ≠ t → (solo n s t).thr[u]? = s.thr[u]?) ∧
      (solo n s t).mem.parent = s.mem.parent ∧
      match r with
      | none => (∀ (j : Nat) (y : Task), s.mem.slots[j]? = some (some y) → False) ∧ (solo n s t).mem.slots = s.mem.slots
      | some x => ∃ k, s.mem.slots[k]? = some (some x) ∧
          (∀ (j : Nat) (y : Task), s.mem.slots[j]? = some (some y) → y.prio < x.prio ∨ (y.prio = x.prio ∧ k ≤ j)) ∧
          (solo n s t).mem.slots = s.mem.slots.set k none := by
    intro n h
    refine ⟨n + 1, (scan s.mem.slots 0 none).map (·.1), ?_⟩
    simp only [solo]
    rw [h]
    unfold afterPop
    rw [hm1]
    cases hsc : scan s.mem.slots 0 none with
    | none =>
      rw [hsc] at hb
      simp only [IsBest] at hb
      refine ⟨?_, ?_, rfl, hb, rfl⟩
      · rw [e0]; simp [List.getElem?_set_self hti, List.set_set, hpc]
      · intro u hu; exact hother _ u hu
    | some p =>
      obtain ⟨x, k⟩ := p
      rw [hsc] at hb
      simp only [IsBest] at hb
      refine ⟨?_, ?_, rfl, k, hb.1, hb.2, rfl⟩
      · rw [e0]; simp [List.getElem?_set_self hti, List.set_set, hpc]
      · intro u hu; exact hother _ u hu
  rcases solo_pop (step s t) t _ ht1 rfl with h | h
  · exact key _ h
  · exact key _ h

theorem solo_eq_run (t : Nat) : ∀ (n : Nat) (s : State), solo n s t = run s (List.replicate n t) := by
  intro n
  induction n with
  | zero => intro s; rfl
  | succ n ih => intro s; simp only [solo, List.replicate_succ, run, List.foldl_cons]; exact ih _

/-- one step of the cooperative scheduler (the real code runs from a park point to the next one) is a
    run of micro steps of the same thread: every schedule the harness can produce is a schedule of the
    model, so the all-interleavings theorems cover it -/
theorem C35_macro_is_micro (s : State) (t : Nat) : ∃ n, macroStep s t = run s (List.replicate (n + 1) t) := by
  have h : ∀ (fuel : Nat) (s : State), ∃ n, runToPark fuel s t = solo n s t := by
    intro fuel
    induction fuel with
    | zero => intro s; exact ⟨0, rfl⟩
    | succ f ih =>
      intro s
      simp only [runToPark]
      split
      · exact ⟨0, rfl⟩
      · obtain ⟨n, hn⟩ := ih (step s t); exact ⟨n + 1, by simp only [solo]; exact hn⟩
  obtain ⟨n, hn⟩ := h 1000000 (step s t)
  exact ⟨n, by rw [← solo_eq_run]; simp only [solo]; exact hn⟩

/-! non-vacuity: a full buffer of size 2, two threads: T0 pushes [(9,1),(1,2)] by priority (ejecting the
    lowest), T1 pops twice; an interleaved schedule in which T1 pops the task T0 has just pushed -/
def exInit : State :=
  init [some ⟨5, 10⟩, some ⟨3, 11⟩] [([⟨9, 1⟩, ⟨1, 2⟩], [.pushPrio [⟨9, 1⟩, ⟨1, 2⟩] 0]), ([], [.pop, .pop])]

def exSched : List Nat := [0, 0, 1, 1, 0, 1, 1, 0, 0, 1, 0, 0, 0, 0, 0, 1, 1, 1, 1, 1, 0, 0, 0]

example : (run exInit exSched).mem.slots = [some ⟨1, 2⟩, none] ∧
    (run exInit exSched).mem.parent = [⟨3, 11⟩] ∧
    (run exInit exSched).thr.map (·.hand) = [[], [⟨9, 1⟩, ⟨5, 10⟩]] ∧
    (run exInit exSched).thr.map (·.pc) = [.idle, .idle] := by decide

example : ∃ (t : Nat) (th : Thread) (rest : List Op), exInit.thr[t]? = some th ∧ th.pc = .idle ∧ th.todo = .pop :: rest :=
  ⟨1, _, _, rfl, rfl, rfl⟩

end Buffers

/-! ## scheduler max-heaps -/
section Heaps
open ParsecVerif.MaxHeap

/-- every heap of every reachable pool satisfies the heap invariant -/
theorem C35_heap_invariant (n : Nat) (ops : List MaxHeap.Op) (hl : ops.length < 2 ^ 32)
    (i : Nat) (h : Heap) (hh : (MaxHeap.run (MaxHeap.init n) ops).heaps[i]? = some (some h)) : Inv h :=
  (run_inv ops (MaxHeap.init n) (poolInv_init n) (by simpa [MaxHeap.init] using hl)).inv i h hh

/-- LEFT-COMPLETE SHAPE: every live heap is the left-complete binary tree with exactly `size` nodes
    (recursively: a root over the left-complete trees with `lsz size` and `rsz size` nodes) -/
theorem C35_heap_shape (n : Nat) (ops : List MaxHeap.Op) (hl : ops.length < 2 ^ 32)
    (i : Nat) (h : Heap) (hh : (MaxHeap.run (MaxHeap.init n) ops).heaps[i]? = some (some h)) :
    Shape h.size h.t ∧ h.t.size = h.size :=
  ⟨(C35_heap_invariant n ops hl i h hh).shape, Shape_size _ _ (C35_heap_invariant n ops hl i h hh).shape⟩

/-- the same in textbook terms: a non-empty live heap is a complete binary tree — every level above the
    last (depth `log2 size`) is full and the last level is filled from the left (`LeftComplete`,
    `Perfect` are the usual recursive definitions, independent of the size arithmetic of `Shape`) -/
theorem C35_heap_leftComplete (n : Nat) (ops : List MaxHeap.Op) (hl : ops.length < 2 ^ 32)
    (i : Nat) (h : Heap) (hh : (MaxHeap.run (MaxHeap.init n) ops).heaps[i]? = some (some h)) (h0 : h.size ≠ 0) :
    LeftComplete h.size.log2 h.t :=
  shape_leftComplete h.t h.size (C35_heap_invariant n ops hl i h hh).shape h0

/-- … so the bit navigation is defined: on a non-empty heap satisfying the invariant, remove and
    split_and_steal never reach a NULL child on their walk (the model's `none` = a NULL dereference /
    failed assertion in the C code) -/
theorem C35_heap_nav_defined (h : Heap) (hi : Inv h) (h0 : h.size ≠ 0) (h32 : h.size < 2 ^ 32) :
    (remove h).isSome ∧ (split h).isSome := by
  obtain ⟨o, r, _⟩ := remove_spec h hi h0
  obtain ⟨o', r', _⟩ := split_spec h hi h0 h32
  simp [r, r']

/-- … and heap_insert reaches a free position: the inserted heap has one more node, same other tasks -/
theorem C35_heap_insert_defined (h : Heap) (e : Task) (hi : Inv h) :
    Inv (insert h e) ∧ (insert h e).size = h.size + 1 ∧
    ∀ a, (insert h e).t.elems.count a = h.t.elems.count a + (if e = a then 1 else 0) := insert_spec h e hi

/-- TOP = MAX: in every live heap the top has the highest priority, and `heap->priority` is the top's -/
theorem C35_heap_order (n : Nat) (ops : List MaxHeap.Op) (hl : ops.length < 2 ^ 32)
    (i : Nat) (h : Heap) (hh : (MaxHeap.run (MaxHeap.init n) ops).heaps[i]? = some (some h))
    (x : Task) (hx : h.t.root? = some x) :
    h.prio = x.prio ∧ ∀ a ∈ h.t.elems, a.prio ≤ x.prio :=
  ⟨(C35_heap_invariant n ops hl i h hh).prio x hx, top_is_max h (C35_heap_invariant n ops hl i h hh) x hx⟩

/-- CONSERVATION across insert / remove / split: tasks in the heaps ⊎ returned = inserted -/
theorem C35_heap_conservation (n : Nat) (ops : List MaxHeap.Op) (hl : ops.length < 2 ^ 32) (a : Task) :
    ((MaxHeap.run (MaxHeap.init n) ops).heaps.map (hcount a)).sum + (MaxHeap.run (MaxHeap.init n) ops).returned.count a
      = (MaxHeap.run (MaxHeap.init n) ops).inserted.count a :=
  (run_inv ops (MaxHeap.init n) (poolInv_init n) (by simpa [MaxHeap.init] using hl)).cons a

/-- remove and split_and_steal return the top, which is a maximal task of the heap, exactly once:
    it is gone from what remains, everything else stays (and the remaining heaps satisfy the invariant) -/
theorem C35_heap_returns_top (h : Heap) (hi : Inv h) (h0 : h.size ≠ 0) (h32 : h.size < 2 ^ 32) :
    (∃ o, remove h = some o ∧ h.t.root? = some o.ret ∧ (∀ a ∈ h.t.elems, a.prio ≤ o.ret.prio) ∧
        OInv o.heap ∧ o.fresh = none ∧
        ∀ a, h.t.elems.count a = hcount a o.heap + (if o.ret = a then 1 else 0)) ∧
    (∃ o, split h = some o ∧ h.t.root? = some o.ret ∧ (∀ a ∈ h.t.elems, a.prio ≤ o.ret.prio) ∧
        OInv o.heap ∧ OInv o.fresh ∧
        ∀ a, h.t.elems.count a = hcount a o.heap + hcount a o.fresh + (if o.ret = a then 1 else 0)) := by
  obtain ⟨o, r1, r2, r3, r4, _, r6⟩ := remove_spec h hi h0
  obtain ⟨o', s1, s2, s3, s4, _, s6⟩ := split_spec h hi h0 h32
  exact ⟨⟨o, r1, r2, top_is_max h hi _ r2, r4, r3, r6⟩, ⟨o', s1, s2, top_is_max h hi _ s2, s3, s4, s6⟩⟩

/-- SPLIT SIZES: on a heap with both subtrees (≥ 3 nodes) the `hiBit` / `twoBit` formulas of
    heap_split_and_steal give exactly the numbers of nodes of the left and of the right subtree -/
theorem C35_split_sizes (h : Heap) (hi : Inv h) (l r : Tree) (x : Task) (ht : h.t = .node l x r)
    (h2 : 2 ≤ h.size) (h32 : h.size < 2 ^ 32) :
    splitSizes h.size = (l.size, r.size) := split_sizes_real h hi l r x ht h2 h32

/-! non-vacuity -/
def exHeap : Heap :=
  [(5, 1), (7, 2), (3, 3), (7, 4), (9, 5), (1, 6)].foldl (fun h (p : Int × Nat) => insert h ⟨p.1, p.2⟩) create

example : exHeap = ⟨6, 9, .node (.node (.node .nil ⟨5, 1⟩ .nil) ⟨7, 2⟩ (.node .nil ⟨7, 4⟩ .nil)) ⟨9, 5⟩
    (.node (.node .nil ⟨1, 6⟩ .nil) ⟨3, 3⟩ .nil)⟩ := by decide

theorem exHeap_inv : Inv exHeap := by
  unfold exHeap
  simp only [List.foldl]
  exact (insert_spec _ _ (insert_spec _ _ (insert_spec _ _ (insert_spec _ _ (insert_spec _ _
    (insert_spec _ _ inv_create).1).1).1).1).1).1

example : exHeap.size ≠ 0 ∧ exHeap.size < 2 ^ 32 ∧ 2 ≤ exHeap.size := by decide

example : (split exHeap).map (fun o => (o.ret, o.heap.map (·.size), o.fresh.map (·.size))) =
    some (⟨9, 5⟩, some 2, some 3) := by decide

example : (remove exHeap).map (fun o => (o.ret, o.heap.map (·.t))) =
    some (⟨9, 5⟩, some (.node (.node (.node .nil ⟨5, 1⟩ .nil) ⟨7, 4⟩ (.node .nil ⟨1, 6⟩ .nil)) ⟨7, 2⟩
      (.node .nil ⟨3, 3⟩ .nil))) := by decide

example : (MaxHeap.run (MaxHeap.init 2) [.new 0, .ins 0 ⟨4, 1⟩, .ins 0 ⟨8, 2⟩, .ins 0 ⟨6, 3⟩, .split 0 1, .rem 1]).returned
    = [⟨4, 1⟩, ⟨8, 2⟩] := by decide

/-- a reachable pool with two live heaps (the hypotheses of `C35_heap_shape` … `C35_heap_conservation`) -/
example : ∃ h g, (MaxHeap.run (MaxHeap.init 2) [.new 0, .ins 0 ⟨4, 1⟩, .ins 0 ⟨8, 2⟩, .ins 0 ⟨6, 3⟩, .ins 0 ⟨6, 4⟩, .split 0 1]).heaps
    = [some h, some g] ∧ h.size = 1 ∧ g.size = 2 ∧ h.t.root? = some ⟨6, 3⟩ := ⟨_, _, rfl, rfl, rfl, rfl⟩

end Heaps
end ParsecVerif.C35
