import ParsecVerif.Proofs.Profile
/-!
# C42 — profiling traces read back exactly as written

Model: `ParsecVerif.Profile` (mirrors parsec/parsec_binary_profile.h, the writer in
parsec/profiling.c and the reader in tools/profiling/dbpreader.c for the configured back-end:
x86-64, little endian, mmap'ed zero-filled buffers).

* `encode : Trace → Bytes` — the file the model writer produces (greedy packing of event
  records into fixed-size buffers, dictionary and thread chains, header), buffers laid out
  consecutively.
* `decode : Bytes → Option Trace` — the reader: follows the offsets stored in the file.
* `LayoutAt f t p` — `f` holds the model writer's buffers for `t` at the offsets `p` (any
  placement: the real writer places buffers in allocation order, which depends on timing).

Quantification: every well-formed trace (any dictionary, any number of streams, any event
sequence with any payloads of the declared length, any stream infos, any buffer size ≥ the file
header), every placement of the buffers, every list of processes.
-/
namespace ParsecVerif.C42
open ParsecVerif.Profile

/-- the file size fits `off_t`. -/
def FitsOffT (t : Trace) : Prop := (encode t).length < 9223372036854775808

/-- **Round trip.**  The reader applied to the file produced by the writer returns the trace:
    same dictionary, same streams in the same order, per stream the same events in the same
    order with the same key, flags, ids, timestamp and payload bytes. -/
theorem C42_roundtrip (t : Trace) (hwf : WellFormed t) (hsz : FitsOffT t) :
    decode (encode t) = some t :=
  decode_of_layout (encode t) t (canonPlace t) hwf hsz (layout_encode t hwf hsz)

/-- **Placement independence.**  Whatever offsets the buffers of the writer end up at (allocation
    order of concurrently tracing threads, helper-thread timing), the reader returns the trace. -/
theorem C42_decode_any_placement (f : Bytes) (t : Trace) (p : Place) (hwf : WellFormed t)
    (hf : f.length < 9223372036854775808) (hl : LayoutAt f t p) : decode f = some t :=
  decode_of_layout f t p hwf hf hl

/-- per-stream order and payloads, spelled out: the `i`-th stream read back is the `i`-th stream
    written, and its `j`-th event is the `j`-th event traced on it. -/
theorem C42_stream_order (t : Trace) (hwf : WellFormed t) (hsz : FitsOffT t) (i j : Nat)
    (s : Stream) (e : Event) (hs : t.streams[i]? = some s) (he : s.events[j]? = some e) :
    ∃ t', decode (encode t) = some t' ∧ ∃ s', t'.streams[i]? = some s' ∧ s'.hrid = s.hrid ∧
      s'.events.length = s.events.length ∧ s'.events[j]? = some e :=
  ⟨t, C42_roundtrip t hwf hsz, s, hs, rfl, rfl, he⟩

/-- distinct traces give distinct files. -/
theorem C42_encode_injective (t u : Trace) (ht : WellFormed t) (hu : WellFormed u)
    (hts : FitsOffT t) (hus : FitsOffT u) (h : encode t = encode u) : t = u := by
  have h1 := C42_roundtrip t ht hts
  have h2 := C42_roundtrip u hu hus
  rw [h] at h1
  rw [h1] at h2
  exact Option.some.inj h2

/-! ### the executable placement check is sound (it is what the driver runs on real files) -/

theorem chunksAtB_sound (B : Nat) (f : Bytes) (typ : Nat) (offs : List Int) (cs : List (Nat × Bytes))
    (h : chunksAtB B f typ offs cs = true) : ChunksAt B f typ offs cs := by
  induction cs generalizing offs with
  | nil =>
    cases offs with
    | nil => simp [ChunksAt]
    | cons o os => cases os <;> simp [chunksAtB] at h
  | cons c cs ih =>
    cases cs with
    | nil =>
      match offs, h with
      | [o], h =>
        simp only [chunksAtB] at h
        cases hrb : readBuf B f o with
        | none => simp [hrb] at h
        | some b =>
          simp only [hrb, Bool.and_eq_true, decide_eq_true_eq] at h
          exact ⟨b.next, h.1, by rw [hrb]; exact congrArg some h.2⟩
      | [], h => simp [chunksAtB] at h
      | _ :: _ :: _, h => simp [chunksAtB] at h
    | cons c' cs' =>
      match offs, h with
      | o :: o' :: os, h =>
        simp only [chunksAtB, Bool.and_eq_true, decide_eq_true_eq] at h
        exact ⟨h.1, ih (o' :: os) h.2⟩
      | [], h => simp [chunksAtB] at h
      | [_], h => simp [chunksAtB] at h

theorem evChunksAtB_sound (B : Nat) (f : Bytes) (oss : List (List Int)) (ss : List Stream)
    (h : evChunksAtB B f oss ss = true) : EvChunksAt B f oss ss := by
  induction ss generalizing oss with
  | nil => cases oss <;> simp [evChunksAtB, EvChunksAt] at *
  | cons s ss ih =>
    cases oss with
    | nil => simp [evChunksAtB] at h
    | cons os oss =>
      simp only [evChunksAtB, Bool.and_eq_true, decide_eq_true_eq] at h
      exact ⟨h.1.1, chunksAtB_sound _ _ _ _ _ h.1.2, ih oss h.2⟩

theorem C42_layoutAtB_sound (f : Bytes) (t : Trace) (p : Place) (h : layoutAtB f t p = true) :
    LayoutAt f t p := by
  simp only [layoutAtB, Bool.and_eq_true, decide_eq_true_eq] at h
  obtain ⟨⟨⟨⟨⟨hh, hd⟩, ht⟩, hdc⟩, htc⟩, hec⟩ := h
  refine ⟨?_, hd, ht, chunksAtB_sound _ _ _ _ _ hdc, chunksAtB_sound _ _ _ _ _ htc,
    evChunksAtB_sound _ _ _ _ hec⟩
  cases hdec : decHeader f with
  | none => simp [hdec] at hh
  | some hd' =>
    simp only [hdec, decide_eq_true_eq] at hh
    exact ⟨hd', rfl, hh⟩

/-- what the driver establishes for a real file: if the check passes for the trace the harness
    wrote, the model reader returns exactly that trace from the real bytes. -/
theorem C42_checked_file_decodes (f : Bytes) (t : Trace) (p : Place) (hwf : WellFormed t)
    (hf : f.length < 9223372036854775808) (h : layoutAtB f t p = true) : decode f = some t :=
  decode_of_layout f t p hwf hf (C42_layoutAtB_sound f t p h)

/-! ### several processes -/

theorem decodeList_map_encode (ts : List Trace) (h : ∀ t ∈ ts, WellFormed t ∧ FitsOffT t) :
    decodeList (ts.map encode) = some ts := by
  induction ts with
  | nil => rfl
  | cons t ts ih =>
    have ht := h t (by simp)
    simp only [List.map_cons, decodeList, C42_roundtrip t ht.1 ht.2,
      ih (fun u hu => h u (by simp [hu]))]

/-- the files of all processes of one run (same application id, same buffer size) are read back
    as the list of their traces. -/
theorem C42_roundtrip_all (ts : List Trace) (h : ∀ t ∈ ts, WellFormed t ∧ FitsOffT t)
    (hrun : sameRun ts = true) : decodeAll (ts.map encode) = some ts := by
  simp [decodeAll, decodeList_map_encode ts h, hrun]

/-! ### the reader's merged dictionary (one table for all files, local ids remapped) -/

theorem findKey_spec (k : KeyDef) (g : List KeyDef) (i : Nat) (h : findKey k g = some i) :
    ∃ x, g[i]? = some x ∧ sameKey x k = true := by
  induction g generalizing i with
  | nil => simp [findKey] at h
  | cons x xs ih =>
    simp only [findKey] at h
    cases hx : sameKey x k with
    | true =>
      simp only [hx, if_true, Option.some.injEq] at h
      subst h; exact ⟨x, rfl, hx⟩
    | false =>
      cases hf : findKey k xs with
      | none => simp [hx, hf] at h
      | some j =>
        simp [hx, hf] at h
        subst h
        obtain ⟨y, hy, hs⟩ := ih j hf
        exact ⟨y, by simpa using hy, hs⟩

theorem sameKey_refl (k : KeyDef) : sameKey k k = true := by simp [sameKey]

theorem mergeOne_spec (g : List KeyDef) (k : KeyDef) :
    (∃ x, (mergeOne g k).1[(mergeOne g k).2]? = some x ∧ sameKey x k = true) ∧
    ∃ r, (mergeOne g k).1 = g ++ r := by
  unfold mergeOne
  cases hf : findKey k g with
  | some i => exact ⟨findKey_spec k g i hf, [], by simp⟩
  | none => exact ⟨⟨k, by simp, sameKey_refl k⟩, [k], rfl⟩

theorem mergeDict_prefix (g d : List KeyDef) : ∃ r, (mergeDict g d).1 = g ++ r := by
  induction d generalizing g with
  | nil => exact ⟨[], by simp [mergeDict]⟩
  | cons k ks ih =>
    obtain ⟨r1, h1⟩ := (mergeOne_spec g k).2
    obtain ⟨r2, h2⟩ := ih (mergeOne g k).1
    refine ⟨r1 ++ r2, ?_⟩
    show (mergeDict (mergeOne g k).1 ks).1 = _
    rw [h2, h1, List.append_assoc]

/-- **Dictionary merge.**  After merging the dictionary `d` of a file into the global table `g`,
    every local key id `i` is mapped to a global entry with the same name, info length and
    convertor — so payload lengths computed through the global table (as `DBP_EVENT_LENGTH`
    does) are those of the file's own dictionary — and earlier global ids stay valid. -/
theorem C42_merge_dict_sound (g d : List KeyDef) (i : Nat) (k : KeyDef) (h : d[i]? = some k) :
    (∃ j x, (mergeDict g d).2[i]? = some j ∧ (mergeDict g d).1[j]? = some x ∧ sameKey x k = true) ∧
    ∃ r, (mergeDict g d).1 = g ++ r := by
  refine ⟨?_, mergeDict_prefix g d⟩
  induction d generalizing g i with
  | nil => simp at h
  | cons k0 ks ih =>
    cases i with
    | zero =>
      simp only [List.getElem?_cons_zero, Option.some.injEq] at h
      subst h
      obtain ⟨⟨x, hx, hs⟩, _⟩ := mergeOne_spec g k0
      obtain ⟨r, hr⟩ := mergeDict_prefix (mergeOne g k0).1 ks
      refine ⟨(mergeOne g k0).2, x, by simp [mergeDict], ?_, hs⟩
      simp only [mergeDict, hr]
      have hlt : (mergeOne g k0).2 < (mergeOne g k0).1.length := by
        cases hq : (mergeOne g k0).1[(mergeOne g k0).2]? with
        | none => simp [hq] at hx
        | some _ => exact (List.getElem?_eq_some_iff.mp hq).1
      rw [List.getElem?_append_left hlt]; exact hx
    | succ i =>
      simp only [List.getElem?_cons_succ] at h
      obtain ⟨j, x, hj, hx, hs⟩ := ih (mergeOne g k0).1 i h
      exact ⟨j, x, by simpa [mergeDict] using hj, by simpa [mergeDict] using hx, hs⟩

/-! ### non-vacuity: a two-stream trace whose event chains span several buffers -/

def exDict : List KeyDef :=
  [⟨[78, 47, 65], [102, 105, 108, 108, 58, 35, 48, 48, 48, 48, 48, 48], [], 0⟩,
   ⟨[97], [102, 105, 108, 108, 58, 35, 70, 70, 48, 48, 48, 48], [120, 123, 105, 125], 5⟩,
   ⟨[98, 98], [102, 105, 108, 108, 58, 35, 48, 48, 70, 70, 48, 48], [], 0⟩]

def exEvents (n : Nat) : List Event :=
  (List.range n).map (fun i =>
    if i % 3 = 0 then ⟨2, 1, 7, i, 100 + i, [i, 1, 2, 3, 255]⟩
    else if i % 3 = 1 then ⟨3, 2, 7, i, 100 + i, []⟩
    else ⟨4, 0, 0, 2 ^ 40 + i, 100 + i, []⟩)

def exTrace : Trace :=
  ⟨256, [97, 112, 112], 3, exDict,
   [⟨[116, 48], [⟨[107], [118, 97, 108]⟩], exEvents 20⟩, ⟨[116, 49], [], exEvents 9⟩]⟩

example : WellFormed exTrace := by decide +kernel
example : (evChunks 256 ⟨[116, 48], [], exEvents 20⟩).length = 3 := by decide +kernel
example : (dictChunks exTrace).length = 3 := by decide +kernel
example : (encode exTrace).length = 2560 := by decide +kernel
theorem exTrace_fits : FitsOffT exTrace := by
  have h : (encode exTrace).length = 2560 := by decide +kernel
  simp only [FitsOffT, h]; decide
/-- the theorem instantiated, and independently evaluated by the kernel. -/
example : decode (encode exTrace) = some exTrace := C42_roundtrip exTrace (by decide +kernel) exTrace_fits
example : decode (encode exTrace) = some exTrace := by decide +kernel
example : layoutAtB (encode exTrace) exTrace (canonPlace exTrace) = true := by decide +kernel
example : sameRun [exTrace, { exTrace with rank := 4 }] = true := by decide +kernel
example : (mergeDict exDict [⟨[98, 98], [], [], 0⟩, ⟨[99], [], [], 8⟩]).2 = [2, 3] := by decide +kernel

/-! ### the hypotheses are needed: the format truncates names to 63 bytes (model-level witness
    of a limit of the real format, replayed on the real code by corpus case `limits`) -/

def longName : Bytes := List.replicate 64 97

example : ¬ WellFormed { exTrace with dict := exDict ++ [⟨longName, [102, 105, 108, 108, 58, 35, 48, 48, 48, 48, 48, 48], [], 0⟩] } := by
  decide +kernel

theorem C42_name_truncated : (decKey (encKey ⟨longName, [], [], 0⟩)).map (·.1.name) = some (List.replicate 63 97) := by
  decide +kernel

end ParsecVerif.C42
