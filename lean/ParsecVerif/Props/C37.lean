import ParsecVerif.Model.TpRegistry
import ParsecVerif.Proofs.TpRegistry
/-!
# C37 — taskpool identifiers resolve to the registered taskpool

"While a taskpool is registered, looking up its identifier returns it; after unregistration the
lookup returns nothing; identifiers reserved concurrently are distinct; and after identifier
synchronization all processes assign the same identifier to their next taskpool."

* `refines_map`, `lookup_spec`  — every history whose identifiers come from `reserve_id` behaves like
  a plain finite map (register = insert, unregister = delete, lookup = find, fini = clear);
* `reserved_ids_increasing`, `reserved_ids_consecutive` — ids handed out are strictly increasing,
  hence pairwise distinct, in EVERY history (disciplined or not) between two resets;
* `interleaving_linearizes`, `mutual_exclusion`, `concurrent_reserved_distinct` — every interleaving
  of threads at atomic-operation granularity is a sequential history in lock-acquisition order;
* `sync_same_next_id`, `sync_preserves_lookup` — after the collective all processes hand out the
  same next id and nothing that was registered is lost;
* `LookupRegisteredFull` is FALSE of the code when the application chooses ids itself
  (`lookup_registered_full_false`); `lookup_before_first_reserve_crashes`,
  `register_unreserved_crashes`, `register_beyond_double_crashes`, `lookup_zero_uninitialised` are the
  bounds defects of DESIGN.md 5.7, as theorems about the model and replayed on the real code
  (corpus/C37).
-/
namespace ParsecVerif.C37
open ParsecVerif.TpRegistry

/-! ## the specification: a finite map from ids to taskpools -/

structure Spec where
  next : Nat                 -- ids 1..next have been handed out (or skipped by a synchronisation)
  tpid : List Nat            -- the taskpool_id field of every taskpool object
  live : Nat → Option Nat    -- id ↦ the taskpool currently registered under it

def Spec.init : Spec := ⟨0, List.replicate NH NOID, fun _ => none⟩

def specStep (sp : Spec) : Op → Spec × Out
  | .reserve h =>
    if h < sp.tpid.length then
      ({ sp with next := sp.next + 1, tpid := sp.tpid.set h (sp.next + 1) }, .rid (sp.next + 1))
    else (sp, .rejected)
  | .setid h v => if h < sp.tpid.length then ({ sp with tpid := sp.tpid.set h v }, .ok) else (sp, .rejected)
  | .register h =>
    match sp.tpid[h]? with
    | none => (sp, .rejected)
    | some id => ({ sp with live := fun i => if i = id then some h else sp.live i }, .reg id)
  | .unregister h =>
    match sp.tpid[h]? with
    | none => (sp, .rejected)
    | some id =>
      if sp.live id = some h then ({ sp with live := fun i => if i = id then none else sp.live i }, .ok)
      else (sp, .rejected)
  | .lookup id => (sp, match sp.live id with | some h => .tp h | none => .null)
  | .lookupOwn h =>
    match sp.tpid[h]? with
    | none => (sp, .rejected)
    | some id => (sp, match sp.live id with | some t => .tp t | none => .null)
  | .sync others => ({ sp with next := max sp.next others }, .ok)
  | .fini => ({ sp with next := 0, live := fun _ => none }, .ok)

def specRun : Spec → List Op → Spec
  | sp, [] => sp
  | sp, op :: ops => specRun (specStep sp op).1 ops

def specOuts : Spec → List Op → List Out
  | _, [] => []
  | sp, op :: ops => (specStep sp op).2 :: specOuts (specStep sp op).1 ops

/-- The id discipline: the application never writes `taskpool_id` itself, a taskpool is registered
    under an id in `1..next` (obtained from reserve_id, or skipped by a synchronisation), and id 0 —
    which reserve_id never returns — is not looked up. -/
def OpOK (sp : Spec) : Op → Prop
  | .setid _ _ => False
  | .register h => ∀ id, sp.tpid[h]? = some id → 1 ≤ id ∧ id ≤ sp.next
  | .lookup id => 1 ≤ id
  | _ => True

def Disciplined : Spec → List Op → Prop
  | _, [] => True
  | sp, op :: ops => OpOK sp op ∧ Disciplined (specStep sp op).1 ops

/-- simulation relation between the process state and the map -/
structure Sim (s : St) (sp : Spec) : Prop where
  alive : s.dead = false
  wf : WF s.reg
  clean : Clean s.reg
  pos : s.reg.pos = sp.next
  tpid : s.tpid = sp.tpid
  ids : ∀ v ∈ sp.tpid, 1 ≤ v
  live : ∀ i, 1 ≤ i → slot s.reg i = sp.live i

theorem sim_init : Sim St.init Spec.init := by
  refine ⟨rfl, WF_init, Clean_init, rfl, rfl, ?_, ?_⟩
  · intro v hv
    have := List.eq_of_mem_replicate hv
    simp [this, NOID]
  · intro i _; rfl

theorem slot_none_above (r : Reg) (i : Nat) (hc : Clean r) (hi : r.pos < i) : slot r i = none := by
  unfold slot
  rcases hc i hi with h | h <;> rw [h]

theorem slot_setcell (r : Reg) (a : List Cell) (i j : Nat) (c : Cell) (hi : i < a.length) :
    slot { r with arr := some (a.set i c) } j =
      if i = j then (match c with | .tp h => some h | _ => none) else slot { r with arr := some a } j := by
  unfold slot
  rw [cell_setcell r a i j c hi]
  by_cases e : i = j
  · simp only [e, if_true]
    cases c <;> rfl
  · simp only [e, if_false, cell]

theorem slot_arr (r : Reg) (a : List Cell) (h : r.arr = some a) (j : Nat) : slot { r with arr := some a } j = slot r j := by
  simp [slot, cell, h]

theorem Clean_setfree (r : Reg) (a : List Cell) (i : Nat) (ha : r.arr = some a) (hi : i < a.length)
    (hc : Clean r) : Clean { r with arr := some (a.set i .free) } := by
  intro j hj
  have hj' : r.pos < j := hj
  rw [cell_setcell r a i j .free hi]
  by_cases e : i = j
  · simp [e]
  · simp only [e, if_false]
    have := hc j hj'
    rwa [cell_of_arr ha] at this

theorem lookupReg_sim (s : St) (sp : Spec) (h : Sim s sp) (id : Nat) (h1 : 1 ≤ id) :
    lookupReg s.reg id = (match sp.live id with | some t => Out.tp t | none => Out.null) := by
  rw [lookupReg_spec s.reg id h.wf h1, ← h.live id h1]
  by_cases hp : id ≤ s.reg.pos
  · simp only [hp, if_true]
    cases slot s.reg id <;> rfl
  · simp only [hp, if_false]
    rw [slot_none_above s.reg id h.clean (by omega)]

/-- **One call preserves the simulation and returns what the map returns.** -/
theorem sim_step (s : St) (sp : Spec) (op : Op) (h : Sim s sp) (hok : OpOK sp op) :
    Sim (step s op).1 (specStep sp op).1 ∧ (step s op).2 = (specStep sp op).2 := by
  have hstep : step s op = stepLive s op := by simp [step, h.alive]
  rw [hstep]
  cases op with
  | reserve t =>
    simp only [stepLive, specStep, h.tpid, h.pos]
    by_cases ht : t < sp.tpid.length
    · simp only [ht, if_true, and_true]
      refine ⟨h.alive, WF_reserve _ h.wf, Clean_reserve _ h.wf h.clean, ?_, ?_, ?_, ?_⟩
      · simp [pos_reserveReg, h.pos]
      · simp [h.tpid]
      · intro v hv
        rcases List.mem_or_eq_of_mem_set hv with hv | hv
        · exact h.ids v hv
        · omega
      · intro i hi
        simp only [slot_reserve _ h.wf]
        exact h.live i hi
    · simp only [ht, if_false, and_true]; exact h
  | setid t v => exact absurd hok (by simp [OpOK])
  | register t =>
    simp only [stepLive, specStep, h.tpid]
    cases hid : sp.tpid[t]? with
    | none => simp only [and_true]; exact h
    | some idx =>
      have hr := hok idx hid
      obtain ⟨a, ha, hl, hreg⟩ := registerReg_in s.reg idx t h.wf hr.1 (by rw [h.pos]; exact hr.2)
      simp only [hreg, and_true]
      refine ⟨h.alive, WF_setcell _ a idx _ h.wf ha (by simp), Clean_setcell _ a idx _ ha hl (by rw [h.pos]; exact hr.2) h.clean,
              h.pos, rfl, h.ids, ?_⟩
      intro i hi
      simp only []
      rw [slot_setcell s.reg a idx i _ hl, slot_arr s.reg a ha]
      by_cases e : idx = i
      · simp [e]
      · have e' : ¬ i = idx := fun x => e x.symm
        simp only [e, e', if_false]; exact h.live i hi
  | unregister t =>
    simp only [stepLive, specStep, h.tpid]
    cases hid : sp.tpid[t]? with
    | none => simp only [and_true]; exact h
    | some idx =>
      have h1 : 1 ≤ idx := h.ids idx (List.mem_of_getElem? hid)
      have hlive := h.live idx h1
      have hcan : canUnregister s.reg idx t = true ↔ sp.live idx = some t := by
        rw [← hlive]
        unfold canUnregister slot cell
        cases hr : s.reg.arr with
        | none => simp
        | some a =>
          simp only [beq_iff_eq]
          cases hc : a[idx]? with
          | none => simp
          | some c => cases c <;> simp
      by_cases hc : sp.live idx = some t
      · have hc' := hcan.2 hc
        simp only [hc, hc', if_true, and_true]
        obtain ⟨a, ha, hl⟩ : ∃ a, s.reg.arr = some a ∧ idx < a.length := by
          unfold canUnregister at hc'
          cases hr : s.reg.arr with
          | none => rw [hr] at hc'; simp at hc'
          | some a =>
            rw [hr] at hc'
            simp only [beq_iff_eq] at hc'
            exact ⟨a, rfl, (List.getElem?_eq_some_iff.1 hc').1⟩
        have hu : unregisterReg s.reg idx = { s.reg with arr := some (a.set idx .free) } := by
          simp [unregisterReg, ha]
        rw [hu]
        refine ⟨h.alive, WF_setcell _ a idx _ h.wf ha (by simp), Clean_setfree _ a idx ha hl h.clean, h.pos, rfl, h.ids, ?_⟩
        intro i hi
        simp only []
        rw [slot_setcell s.reg a idx i _ hl, slot_arr s.reg a ha]
        by_cases e : idx = i
        · simp [e]
        · have e' : ¬ i = idx := fun x => e x.symm
          simp only [e, e', if_false]; exact h.live i hi
      · have hc' : canUnregister s.reg idx t = false := by
          cases hh : canUnregister s.reg idx t
          · rfl
          · exact absurd (hcan.1 hh) hc
        simp only [hc, hc', Bool.false_eq_true, if_false]
        exact ⟨h, trivial⟩
  | lookup id =>
    have h1 : 1 ≤ id := hok
    have hl := lookupReg_sim s sp h id h1
    have hnc : lookupReg s.reg id ≠ .crash := by
      rw [hl]; cases sp.live id <;> simp
    simp only [stepLive, specStep, hl, and_true]
    have hd : decide ((match sp.live id with | some t => Out.tp t | none => Out.null) = Out.crash) = false := by
      rw [← hl]; simpa using hnc
    rw [hd]
    exact ⟨rfl, h.wf, h.clean, h.pos, h.tpid, h.ids, h.live⟩
  | lookupOwn t =>
    simp only [stepLive, specStep, h.tpid]
    cases hid : sp.tpid[t]? with
    | none => exact ⟨h, rfl⟩
    | some id =>
      have h1 : 1 ≤ id := h.ids id (List.mem_of_getElem? hid)
      have hl := lookupReg_sim s sp h id h1
      have hnc : lookupReg s.reg id ≠ .crash := by
        rw [hl]; cases sp.live id <;> simp
      simp only [hl, and_true]
      have hd : decide ((match sp.live id with | some t => Out.tp t | none => Out.null) = Out.crash) = false := by
        rw [← hl]; simpa using hnc
      rw [hd]
      exact ⟨rfl, h.wf, h.clean, h.pos, rfl, h.ids, h.live⟩
  | sync others =>
    simp only [stepLive, specStep, and_true]
    have hm : s.reg.pos ≤ max s.reg.pos others := by omega
    refine ⟨h.alive, WF_sync _ _ h.wf hm, Clean_sync _ _ h.wf hm h.clean, ?_, h.tpid, h.ids, ?_⟩
    · simp [pos_syncReg, h.pos]
    · intro i hi
      simp only [slot_sync _ _ _ h.wf]
      exact h.live i hi
  | fini =>
    simp only [stepLive, specStep, and_true]
    exact ⟨h.alive, WF_init, Clean_init, rfl, h.tpid, h.ids, fun i _ => rfl⟩

theorem sim_run (ops : List Op) : ∀ (s : St) (sp : Spec), Sim s sp → Disciplined sp ops →
    Sim (runSt s ops) (specRun sp ops) ∧ runOuts s ops = specOuts sp ops := by
  induction ops with
  | nil => intro s sp h _; exact ⟨h, rfl⟩
  | cons op ops ih =>
    intro s sp h hd
    obtain ⟨h1, h2⟩ := sim_step s sp op h hd.1
    obtain ⟨h3, h4⟩ := ih _ _ h1 hd.2
    exact ⟨h3, by simp only [runOuts, specOuts, h2, h4]⟩

/-- **C37, clauses 1 and 2 (`_partial`: under the id discipline).**  In every history of
    reserve/register/unregister/lookup/sync/fini calls in which ids come from reserve_id, the real
    mechanism (array, growth, `id <= pos` test) never crashes and returns, call by call, exactly what
    a finite map returns: a lookup finds the taskpool registered under the id and not unregistered
    since, and nothing otherwise. -/
theorem refines_map_partial (ops : List Op) (h : Disciplined Spec.init ops) :
    runOuts St.init ops = specOuts Spec.init ops ∧ (runSt St.init ops).dead = false := by
  obtain ⟨h1, h2⟩ := sim_run ops St.init Spec.init sim_init h
  exact ⟨h2, h1.alive⟩

/-- the same, as a statement about the state reached: a lookup of any id ≥ 1 answers with the map -/
theorem lookup_spec_partial (ops : List Op) (h : Disciplined Spec.init ops) (id : Nat) (h1 : 1 ≤ id) :
    lookupReg (runSt St.init ops).reg id =
      (match (specRun Spec.init ops).live id with | some t => Out.tp t | none => Out.null) :=
  lookupReg_sim _ _ (sim_run ops St.init Spec.init sim_init h).1 id h1

/-- registered ⇒ found -/
theorem lookup_registered_partial (ops : List Op) (h : Disciplined Spec.init ops) (id t : Nat) (h1 : 1 ≤ id)
    (hl : (specRun Spec.init ops).live id = some t) : lookupReg (runSt St.init ops).reg id = .tp t := by
  rw [lookup_spec_partial ops h id h1, hl]

/-- not (or no longer) registered ⇒ nothing -/
theorem lookup_unregistered_partial (ops : List Op) (h : Disciplined Spec.init ops) (id : Nat) (h1 : 1 ≤ id)
    (hl : (specRun Spec.init ops).live id = none) : lookupReg (runSt St.init ops).reg id = .null := by
  rw [lookup_spec_partial ops h id h1, hl]

/-! non-vacuity: a disciplined history with growth, a hole, an unregistration, a sync and a reset -/
def demo : List Op :=
  [.reserve 0, .reserve 1, .register 1, .reserve 2, .register 0, .lookup 2, .unregister 1, .lookup 2,
   .sync 9, .reserve 3, .register 3, .lookup 10, .lookup 7, .fini, .lookup 1, .reserve 4]

example : Disciplined Spec.init demo := by
  simp only [demo, Disciplined, OpOK, specStep, Spec.init, NH, NOID]
  decide
example : runOuts St.init demo =
    [.rid 1, .rid 2, .reg 2, .rid 3, .reg 1, .tp 1, .ok, .null, .ok, .rid 10, .reg 10, .tp 3, .null, .ok, .null, .rid 1] := by
  decide

/-! ## the full statement (no id discipline) is false of the code -/

/-- clause 1 for arbitrary applications: whatever taskpool the map holds under an id is found -/
def LookupRegisteredFull : Prop :=
  ∀ (ops : List Op) (id t : Nat), (runSt St.init ops).dead = false →
    (specRun Spec.init ops).live id = some t → lookupReg (runSt St.init ops).reg id = .tp t

/-- the application-chosen id 3 is beyond `pos = 1`: the taskpool is stored but not found -/
theorem lookup_registered_full_false : ¬ LookupRegisteredFull := by
  intro h
  have := h [.reserve 0, .setid 1 3, .register 1] 3 1 (by decide) (by decide)
  revert this
  decide

/-- … the calls themselves succeed (`register` returns 3) and the later reservation hands the id
    out again: two taskpools then share id 3 -/
theorem caller_chosen_id_trace :
    runOuts St.init [.reserve 0, .setid 1 3, .register 1, .lookup 3, .reserve 2, .reserve 3, .lookup 3] =
      [.rid 1, .ok, .reg 3, .null, .rid 2, .rid 3, .tp 1] := by decide

/-- DESIGN 5.7: a lookup before the first reservation dereferences the NULL array -/
theorem lookup_before_first_reserve_crashes : runOuts St.init [.lookup 0] = [.crash] := by decide

/-- … and after it, cell 0 is read although nothing ever initialised it -/
theorem lookup_zero_uninitialised : runOuts St.init [.reserve 0, .lookup 0] = [.rid 1, .junk] := by decide

/-- registering a taskpool whose id was never reserved (`taskpool_id = -1`) writes far outside the array -/
theorem register_unreserved_crashes : runOuts St.init [.register 0] = [.crash] := by decide

/-- DESIGN 5.7: `register` doubles the array once; an id ≥ 2·size is written out of bounds -/
theorem register_beyond_double_crashes :
    runOuts St.init [.reserve 0, .setid 1 4, .register 1] = [.rid 1, .ok, .crash] := by decide

/-! ## all histories: the invariant, and distinct reserved ids -/

theorem pos_regGrown (r : Reg) (idx : Nat) : (regGrown r idx).pos = r.pos := by
  unfold regGrown growDouble; split <;> rfl

theorem pos_registerReg (r r' : Reg) (idx t : Nat) (h : registerReg r idx t = some r') : r'.pos = r.pos := by
  unfold registerReg at h
  split at h
  · simp at h
  · split at h
    · simp only [Option.some.injEq] at h
      rw [← h]; exact pos_regGrown r idx
    · simp at h

theorem pos_unregisterReg (r : Reg) (idx : Nat) : (unregisterReg r idx).pos = r.pos := by
  unfold unregisterReg; split <;> rfl

/-- what one call does to `pos`: only reserve (+1), sync (max) and fini (reset) touch it -/
theorem pos_step (s : St) (op : Op) :
    (step s op).1.reg.pos =
      if s.dead then s.reg.pos else
      match op with
      | .reserve t => if t < s.tpid.length then s.reg.pos + 1 else s.reg.pos
      | .sync o => max s.reg.pos o
      | .fini => 0
      | _ => s.reg.pos := by
  unfold step
  by_cases hd : s.dead
  · simp [hd]
  · simp only [hd, Bool.false_eq_true, if_false]
    cases op with
    | reserve t => simp only [stepLive]; split <;> simp [pos_reserveReg]
    | setid t v => simp only [stepLive]; split <;> rfl
    | register t =>
      simp only [stepLive]
      cases s.tpid[t]? with
      | none => rfl
      | some idx =>
        simp only []
        cases hr : registerReg s.reg idx t with
        | none => rfl
        | some r' => exact pos_registerReg _ _ _ _ hr
    | unregister t =>
      simp only [stepLive]
      cases s.tpid[t]? with
      | none => rfl
      | some idx => simp only []; split <;> simp [pos_unregisterReg]
    | lookup id => rfl
    | lookupOwn t => simp only [stepLive]; split <;> rfl
    | sync o => rfl
    | fini => rfl

theorem lookupReg_ne_rid (r : Reg) (id n : Nat) : lookupReg r id ≠ .rid n := by
  unfold lookupReg
  intro h
  split at h
  · split at h
    · cases h
    · split at h <;> cases h
  · cases h

/-- an id is handed out only by a live reserve call, and it is `pos + 1` -/
theorem rid_step (s : St) (op : Op) (n : Nat) (h : (step s op).2 = .rid n) :
    n = s.reg.pos + 1 ∧ (step s op).1.reg.pos = s.reg.pos + 1 := by
  have hp := pos_step s op
  unfold step at h
  by_cases hd : s.dead
  · simp [hd] at h
  · simp only [hd, Bool.false_eq_true, if_false] at h hp
    cases op with
    | reserve t =>
      simp only [stepLive] at h
      by_cases ht : t < s.tpid.length
      · simp only [ht, if_true, Out.rid.injEq] at h hp
        exact ⟨h.symm, hp⟩
      · simp [ht] at h
    | setid t v => simp only [stepLive] at h; split at h <;> cases h
    | register t =>
      simp only [stepLive] at h
      split at h
      · cases h
      · split at h <;> cases h
    | unregister t =>
      simp only [stepLive] at h
      split at h
      · cases h
      · split at h <;> cases h
    | lookup id => exact absurd h (lookupReg_ne_rid _ _ _)
    | lookupOwn t =>
      simp only [stepLive] at h
      split at h
      · cases h
      · exact absurd h (lookupReg_ne_rid _ _ _)
    | sync o => simp [stepLive] at h
    | fini => simp [stepLive] at h

theorem reservedIds_cons (o : Out) (outs : List Out) :
    reservedIds (o :: outs) = (match o with | .rid n => [n] | _ => []) ++ reservedIds outs := by
  unfold reservedIds
  cases o <;> simp [List.filterMap_cons]

/-- **C37, clause 3 at call granularity.**  From ANY state and for EVERY history without a reset
    (any mix of calls, disciplined or not, even after a crash): the ids handed out by reserve_id
    are strictly increasing — hence pairwise distinct — and larger than every id handed out before. -/
theorem reserved_ids_increasing (ops : List Op) : ∀ (s : St), Op.fini ∉ ops →
    (reservedIds (runOuts s ops)).Pairwise (· < ·) ∧ ∀ i ∈ reservedIds (runOuts s ops), s.reg.pos < i := by
  induction ops with
  | nil => intro s _; simp [runOuts, reservedIds]
  | cons op ops ih =>
    intro s hnf
    have hnf' : Op.fini ∉ ops := fun x => hnf (List.mem_cons_of_mem _ x)
    have hop : op ≠ .fini := fun x => hnf (x ▸ List.mem_cons_self)
    obtain ⟨ih1, ih2⟩ := ih (step s op).1 hnf'
    have hpos := pos_step s op
    have hmono : s.reg.pos ≤ (step s op).1.reg.pos := by
      rw [hpos]
      split
      · omega
      · cases op with
        | reserve t => simp only []; split <;> omega
        | sync o => simp only []; omega
        | fini => exact absurd rfl hop
        | _ => simp
    simp only [runOuts, reservedIds_cons]
    cases ho : (step s op).2 with
    | rid n =>
      obtain ⟨hn, hp⟩ := rid_step s op n ho
      simp only [List.singleton_append, List.pairwise_cons, List.mem_cons]
      refine ⟨⟨fun j hj => ?_, ih1⟩, fun j hj => ?_⟩
      · have := ih2 j hj; omega
      · rcases hj with hj | hj
        · omega
        · have := ih2 j hj; omega
    | _ =>
      simp only [List.nil_append]
      exact ⟨ih1, fun j hj => by have := ih2 j hj; omega⟩

theorem reserved_ids_nodup (ops : List Op) (s : St) (h : Op.fini ∉ ops) : (reservedIds (runOuts s ops)).Nodup :=
  (reserved_ids_increasing ops s h).1.imp (fun hab => Nat.ne_of_lt hab)

def isSync : Op → Bool
  | .sync _ => true
  | _ => false

/-- without synchronisations in between, the ids handed out are exactly the next ones, each once -/
theorem reserved_ids_consecutive (ops : List Op) : ∀ (s : St), Op.fini ∉ ops → (∀ op ∈ ops, isSync op = false) →
    reservedIds (runOuts s ops) = List.range' (s.reg.pos + 1) (reservedIds (runOuts s ops)).length ∧
    (runSt s ops).reg.pos = s.reg.pos + (reservedIds (runOuts s ops)).length := by
  induction ops with
  | nil => intro s _ _; simp [runOuts, runSt, reservedIds]
  | cons op ops ih =>
    intro s hnf hns
    have hnf' : Op.fini ∉ ops := fun x => hnf (List.mem_cons_of_mem _ x)
    have hop : op ≠ .fini := fun x => hnf (x ▸ List.mem_cons_self)
    have hsy : isSync op = false := hns op List.mem_cons_self
    obtain ⟨ih1, ih2⟩ := ih (step s op).1 hnf' (fun o ho => hns o (List.mem_cons_of_mem _ ho))
    have hpos := pos_step s op
    simp only [runOuts, runSt, reservedIds_cons]
    cases ho : (step s op).2 with
    | rid n =>
      obtain ⟨hn, hp⟩ := rid_step s op n ho
      rw [hp] at ih1 ih2
      simp only [List.singleton_append, List.length_cons]
      refine ⟨?_, by rw [ih2]; omega⟩
      rw [List.range'_succ, ← ih1, hn]
    | _ =>
      have hsame : (step s op).1.reg.pos = s.reg.pos := by
        rw [hpos]
        split
        · rfl
        · rename_i hdd
          have hd : s.dead = false := by simpa using hdd
          cases op with
          | reserve t =>
            simp only []
            split
            · rename_i ht
              have : (step s (.reserve t)).2 = .rid (s.reg.pos + 1) := by
                simp [step, hd, stepLive, ht]
              rw [this] at ho
              simp at ho
            · rfl
          | sync o => simp [isSync] at hsy
          | fini => exact absurd rfl hop
          | _ => rfl
      rw [hsame] at ih1 ih2
      simp only [List.nil_append]
      exact ⟨ih1, ih2⟩

example : reservedIds (runOuts St.init [.reserve 0, .setid 1 3, .register 1, .lookup 0, .reserve 2, .sync 20, .reserve 1]) = [1, 2, 21] := by
  decide

/-! ## the invariant holds in ALL histories; the only crash of a lookup -/

theorem WF_regGrown (r : Reg) (idx : Nat) (h : WF r) : WF (regGrown r idx) := by
  unfold regGrown
  split
  · rw [growDouble_eq]
    have := size_pos_of_WF r h
    exact WF_grow r _ h (by omega) (by omega)
  · exact h

theorem WF_registerReg (r r' : Reg) (idx t : Nat) (h : WF r) (hr : registerReg r idx t = some r') : WF r' := by
  unfold registerReg at hr
  split at hr
  · simp at hr
  · rename_i a ha
    split at hr
    · simp only [Option.some.injEq] at hr
      rw [← hr]
      exact WF_setcell _ a idx _ (WF_regGrown r idx h) ha (by simp)
    · simp at hr

theorem WF_unregisterReg (r : Reg) (idx : Nat) (h : WF r) : WF (unregisterReg r idx) := by
  unfold unregisterReg
  split
  · exact h
  · rename_i a ha
    exact WF_setcell r a idx _ h ha (by simp)

theorem WF_step (s : St) (op : Op) (h : WF s.reg) : WF (step s op).1.reg := by
  unfold step
  split
  · exact h
  · cases op with
    | reserve t => simp only [stepLive]; split; exact WF_reserve _ h; exact h
    | setid t v => simp only [stepLive]; split <;> exact h
    | register t =>
      simp only [stepLive]
      split
      · exact h
      · split
        · exact h
        · rename_i r' hr; exact WF_registerReg _ _ _ _ h hr
    | unregister t =>
      simp only [stepLive]
      split
      · exact h
      · split
        · exact WF_unregisterReg _ _ h
        · exact h
    | lookup id => exact h
    | lookupOwn t => simp only [stepLive]; split <;> exact h
    | sync o => exact WF_sync _ _ h (by omega)
    | fini => exact WF_init

/-- after ANY history (application-chosen ids included) the registry is well formed: `NULL`/size 1/
    pos 0, or an array of exactly `size` cells with `pos < size` and only cell 0 uninitialised -/
theorem wf_always (ops : List Op) : ∀ s : St, WF s.reg → WF (runSt s ops).reg := by
  induction ops with
  | nil => intro s h; exact h
  | cons op ops ih => intro s h; exact ih _ (WF_step s op h)

/-- hence, in any history, a lookup can only crash on id 0 before the first allocation (it never
    reads beyond the array), and can only return uninitialised storage for id 0 -/
theorem lookup_crash_iff (r : Reg) (id : Nat) (h : WF r) :
    (lookupReg r id = .crash ↔ r.arr = none ∧ id = 0) ∧ (lookupReg r id = .junk → id = 0) := by
  unfold WF at h
  unfold lookupReg
  cases hr : r.arr with
  | none =>
    rw [hr] at h
    have h' : r.size = 1 ∧ r.pos = 0 := h
    by_cases hp : id ≤ r.pos
    · simp only [hp, if_true]
      constructor
      · constructor
        · intro _; exact ⟨trivial, by omega⟩
        · intro _; trivial
      · intro x; cases x
    · simp only [hp, if_false]
      constructor
      · constructor
        · intro x; cases x
        · intro x; have := x.2; omega
      · intro x; cases x
  | some a =>
    rw [hr] at h
    have hno : ∀ o : Out, o ≠ .crash → o ≠ .junk →
        (o = .crash ↔ some a = none ∧ id = 0) ∧ (o = .junk → id = 0) := by
      intro o h1 h2
      constructor
      · constructor
        · intro x; exact absurd x h1
        · intro x; cases x.1
      · intro x; exact absurd x h2
    by_cases hp : id ≤ r.pos
    · simp only [hp, if_true]
      have hlt : id < a.length := by omega
      have hj := h.2.2 id
      rw [List.getElem?_eq_getElem hlt] at hj ⊢
      cases hc : a[id] with
      | free => exact hno _ (by simp) (by simp)
      | tp t => exact hno _ (by simp) (by simp)
      | junk =>
        simp only []
        constructor
        · constructor
          · intro x; cases x
          · intro x; cases x.1
        · intro _
          by_cases h0 : id = 0
          · exact h0
          · exact absurd (by rw [hc]) (hj (by omega))
    · simp only [hp, if_false]
      exact hno _ (by simp) (by simp)

/-! ## clause 4: identifier synchronisation across processes -/

theorem le_maxPos (rs : List Reg) (r : Reg) (h : r ∈ rs) : r.pos ≤ maxPos rs := by
  induction rs with
  | nil => cases h
  | cons x xs ih =>
    simp only [maxPos]
    rcases List.mem_cons.1 h with e | e
    · subst e; omega
    · have := ih e; omega

/-- **C37, clause 4.**  Any number of processes in arbitrary (well-formed) registry states run the
    collective: afterwards every process is well formed, has `pos` = the maximum over all processes,
    and its next reserve_id therefore returns the same id `max + 1` everywhere. -/
theorem sync_same_next_id (rs : List Reg) (hw : ∀ r ∈ rs, WF r) (r : Reg) (hr : r ∈ syncAll rs) :
    WF r ∧ r.pos = maxPos rs ∧ (reserveReg r).pos = maxPos rs + 1 ∧ WF (reserveReg r) := by
  obtain ⟨r0, h0, rfl⟩ := List.mem_map.1 hr
  have hwf := WF_sync r0 (maxPos rs) (hw r0 h0) (le_maxPos rs r0 h0)
  exact ⟨hwf, rfl, by rw [pos_reserveReg]; rfl, WF_reserve _ hwf⟩

/-- the same for processes that got where they are by ARBITRARY histories, and phrased with the
    value returned by the next reserve_id call of two of them -/
theorem sync_next_reserve_agrees (hs : List (List Op)) (s1 s2 : St) (t1 t2 : Nat)
    (h1 : s1.reg ∈ syncAll (hs.map (fun ops => (runSt St.init ops).reg)))
    (h2 : s2.reg ∈ syncAll (hs.map (fun ops => (runSt St.init ops).reg)))
    (hd1 : s1.dead = false) (hd2 : s2.dead = false) (ht1 : t1 < s1.tpid.length) (ht2 : t2 < s2.tpid.length) :
    (step s1 (.reserve t1)).2 = (step s2 (.reserve t2)).2 ∧
    (step s1 (.reserve t1)).2 = .rid (maxPos (hs.map (fun ops => (runSt St.init ops).reg)) + 1) ∧
    WF (step s1 (.reserve t1)).1.reg := by
  have hw : ∀ r ∈ hs.map (fun ops => (runSt St.init ops).reg), WF r := by
    intro r hr
    obtain ⟨ops, _, rfl⟩ := List.mem_map.1 hr
    exact wf_always ops St.init WF_init
  have a1 := sync_same_next_id _ hw _ h1
  have a2 := sync_same_next_id _ hw _ h2
  have e1 : (step s1 (.reserve t1)).2 = .rid (s1.reg.pos + 1) := by simp [step, hd1, stepLive, ht1]
  have e2 : (step s2 (.reserve t2)).2 = .rid (s2.reg.pos + 1) := by simp [step, hd2, stepLive, ht2]
  refine ⟨by rw [e1, e2, a1.2.1, a2.2.1], by rw [e1, a1.2.1], WF_step _ _ a1.1⟩

/-- nothing registered is lost and nothing appears: under the id discipline (`Clean`), every
    lookup of an id ≥ 1 answers after the synchronisation what it answered before -/
theorem sync_preserves_lookup (r : Reg) (m id : Nat) (hw : WF r) (hc : Clean r) (hm : r.pos ≤ m) (h1 : 1 ≤ id) :
    lookupReg (syncReg r m) id = lookupReg r id := by
  rw [lookupReg_spec _ id (WF_sync r m hw hm) h1, lookupReg_spec r id hw h1, slot_sync r m id hw, pos_syncReg]
  by_cases hp : id ≤ r.pos
  · have : id ≤ m := by omega
    simp [hp, this]
  · simp only [hp, if_false]
    rw [slot_none_above r id hc (by omega)]
    split <;> rfl

/-! non-vacuity: three processes with different histories (one never reserved anything) -/
example : (syncAll [(runSt St.init [.reserve 0, .reserve 1, .register 1, .reserve 2, .reserve 3, .reserve 4]).reg,
                    (runSt St.init [.reserve 0, .register 0]).reg, Reg.init]).map (fun r => (r.pos, r.size, lookupReg r 2, lookupReg r 1)) =
    [(5, 8, .tp 1, .null), (5, 8, .null, .tp 0), (5, 8, .null, .null)] := by decide

/-! ## clause 3 for threads: every interleaving is a sequential history -/

def progOf (progs : List (List Op)) (t : Nat) : List Op := progs[t]?.getD []

/-- number of calls of its program a thread has performed (entered the critical section of) -/
def progress (prog : List Op) : Pc → Nat
  | .start => 0
  | .atLock k => k
  | .inCS k => k + 1
  | .done => prog.length

def opsOf (s : CState) (t : Nat) : List Op := (s.lin.filter (fun e => e.tid == t)).map (·.op)

def isInCS : Pc → Bool
  | .inCS _ => true
  | _ => false

structure CInv (progs : List (List Op)) (s0 : St) (s : CState) : Prop where
  lin_state : runSt s0 (s.lin.map (·.op)) = s.st
  lin_outs : runOuts s0 (s.lin.map (·.op)) = s.lin.map (·.out)
  lin_ops : ∀ e ∈ s.lin, e.op ∈ progOf progs e.tid
  order : ∀ t pc, s.pcs[t]? = some pc → opsOf s t = (progOf progs t).take (progress (progOf progs t) pc)
  mutex : s.pcs.countP isInCS = if s.lock then 1 else 0

theorem runSt_append (s : St) (a b : List Op) : runSt s (a ++ b) = runSt (runSt s a) b := by
  induction a generalizing s with
  | nil => rfl
  | cons x a ih => simp only [List.cons_append, runSt]; exact ih _

theorem runOuts_append (s : St) (a b : List Op) : runOuts s (a ++ b) = runOuts s a ++ runOuts (runSt s a) b := by
  induction a generalizing s with
  | nil => rfl
  | cons x a ih => simp only [List.cons_append, runOuts, runSt, ih]

theorem cinv_init (progs : List (List Op)) (s0 : St) (n : Nat) : CInv progs s0 (cinit s0 n) := by
  refine ⟨rfl, rfl, ?_, ?_, ?_⟩
  · intro e he; cases he
  · intro t pc h
    simp only [cinit, List.getElem?_replicate] at h
    split at h
    · simp only [Option.some.injEq] at h
      subst h
      rfl
    · simp at h
  · simp [cinit, List.countP_replicate, isInCS]

theorem take_nextPc (prog : List Op) (k : Nat) : prog.take (progress prog (nextPc prog k)) = prog.take k := by
  unfold nextPc
  split
  · rfl
  · simp only [progress]
    rw [List.take_of_length_le (Nat.le_refl _), List.take_of_length_le (by omega)]

theorem isInCS_nextPc (prog : List Op) (k : Nat) : isInCS (nextPc prog k) = false := by
  unfold nextPc; split <;> rfl

theorem cinv_step (progs : List (List Op)) (s0 : St) (s : CState) (t : Nat) (h : CInv progs s0 s) :
    CInv progs s0 (cstep progs s t) := by
  unfold cstep
  cases hpc : s.pcs[t]? with
  | none => exact h
  | some pc =>
    obtain ⟨hi, hx⟩ := getElem_of_getElem? hpc
    have hord := h.order t pc hpc
    cases pc with
    | start =>
      simp only []
      refine ⟨h.lin_state, h.lin_outs, h.lin_ops, ?_, ?_⟩
      · intro u pc' hu
        simp only [List.getElem?_set] at hu
        by_cases e : t = u
        · subst e
          simp only [hi, if_true, Option.some.injEq] at hu
          subst hu
          show opsOf s t = _
          rw [hord]
          exact (take_nextPc (progOf progs t) 0).symm
        · simp only [e, if_false] at hu
          exact h.order u pc' hu
      · simp only []
        rw [List.countP_set hi, hx, isInCS_nextPc]
        have hs : isInCS Pc.start = false := rfl
        rw [hs]
        simpa using h.mutex
    | atLock k =>
      simp only []
      by_cases hl : s.lock
      · simp only [hl, if_true]; exact h
      · simp only [hl, Bool.false_eq_true, if_false]
        cases hop : (progs[t]?.getD [])[k]? with
        | none => exact h
        | some op =>
          simp only []
          refine ⟨?_, ?_, ?_, ?_, ?_⟩
          · simp only [List.map_append, List.map_cons, List.map_nil, runSt_append, h.lin_state, runSt]
          · simp only [List.map_append, List.map_cons, List.map_nil, runOuts_append, h.lin_state, h.lin_outs, runOuts]
          · intro e he
            rcases List.mem_append.1 he with he | he
            · exact h.lin_ops e he
            · simp only [List.mem_singleton] at he
              subst he
              exact List.mem_of_getElem? hop
          · intro u pc' hu
            simp only [List.getElem?_set] at hu
            by_cases e : t = u
            · subst e
              simp only [hi, if_true, Option.some.injEq] at hu
              subst hu
              simp only [opsOf, List.filter_append, List.map_append, progress] at hord ⊢
              rw [hord]
              simp only [List.filter_cons, beq_self_eq_true, if_true, List.filter_nil, List.map_cons, List.map_nil]
              rw [List.take_add_one]
              unfold progOf
              rw [hop]
              rfl
            · simp only [e, if_false] at hu
              have := h.order u pc' hu
              simp only [opsOf, List.filter_append, List.map_append] at this ⊢
              rw [this]
              have : (t == u) = false := by simpa using e
              simp [List.filter_cons, this]
          · simp only []
            rw [List.countP_set hi, hx]
            have := h.mutex
            simp only [hl, Bool.false_eq_true, if_false] at this
            simp [isInCS, this]
    | inCS k =>
      simp only []
      refine ⟨h.lin_state, h.lin_outs, h.lin_ops, ?_, ?_⟩
      · intro u pc' hu
        simp only [List.getElem?_set] at hu
        by_cases e : t = u
        · subst e
          simp only [hi, if_true, Option.some.injEq] at hu
          subst hu
          show opsOf s t = _
          rw [hord]
          exact (take_nextPc (progOf progs t) (k + 1)).symm
        · simp only [e, if_false] at hu
          exact h.order u pc' hu
      · simp only []
        rw [List.countP_set hi, hx]
        have hm := h.mutex
        have hpos : 0 < s.pcs.countP isInCS := by
          apply List.countP_pos_iff.2
          exact ⟨s.pcs[t], List.getElem_mem hi, by rw [hx]; rfl⟩
        rw [isInCS_nextPc]
        have hs : isInCS (Pc.inCS k) = true := rfl
        rw [hs]
        by_cases hl : s.lock
        · simp only [hl, if_true] at hm
          simp [hm]
        · simp only [hl, Bool.false_eq_true, if_false] at hm
          omega
    | done => exact h

theorem cinv_run (progs : List (List Op)) (s0 : St) (sched : List Nat) :
    ∀ s, CInv progs s0 s → CInv progs s0 (crun progs s sched) := by
  induction sched with
  | nil => intro s h; exact h
  | cons t ts ih => intro s h; exact ih _ (cinv_step progs s0 s t h)

/-- the state reached by `progs.length` threads from process state `s0` under schedule `sched` -/
def final (progs : List (List Op)) (s0 : St) (sched : List Nat) : CState :=
  crun progs (cinit s0 progs.length) sched

/-- **Every interleaving is a sequential history.**  For all thread programs, all initial states
    and ALL schedules (lists of thread ids, one entry per atomic step, failed lock attempts
    included): the shared registry and every result obtained are those of executing the calls one
    after the other in the order `lin` in which they acquired the lock; `lin` contains, for every
    thread, exactly the calls the thread has performed so far, in program order (so when all
    threads are done it is an interleaving of the complete programs). -/
theorem interleaving_linearizes (progs : List (List Op)) (s0 : St) (sched : List Nat) :
    runSt s0 ((final progs s0 sched).lin.map (·.op)) = (final progs s0 sched).st ∧
    runOuts s0 ((final progs s0 sched).lin.map (·.op)) = (final progs s0 sched).lin.map (·.out) ∧
    ∀ t pc, (final progs s0 sched).pcs[t]? = some pc →
      opsOf (final progs s0 sched) t = (progOf progs t).take (progress (progOf progs t) pc) := by
  have h : CInv progs s0 (final progs s0 sched) := cinv_run progs s0 sched _ (cinit_inv progs s0)
  exact ⟨h.lin_state, h.lin_outs, h.order⟩
where
  cinit_inv (progs : List (List Op)) (s0 : St) : CInv progs s0 (cinit s0 progs.length) := cinv_init progs s0 _

/-- the lock word is set exactly while one thread is between its successful CAS and its fence -/
theorem mutual_exclusion (progs : List (List Op)) (s0 : St) (sched : List Nat) :
    (final progs s0 sched).pcs.countP isInCS = if (final progs s0 sched).lock then 1 else 0 :=
  (cinv_run progs s0 sched _ (cinv_init progs s0 _)).mutex

/-- **C37, clause 3.**  Threads concurrently performing any calls except the reset: under EVERY
    interleaving, the ids handed out by reserve_id (listed in lock-acquisition order, over all
    threads) are strictly increasing, hence pairwise distinct, and all above the ids handed out
    before the threads started. -/
theorem concurrent_reserved_distinct (progs : List (List Op)) (s0 : St) (sched : List Nat)
    (hnf : ∀ p ∈ progs, Op.fini ∉ p) :
    (reservedIds ((final progs s0 sched).lin.map (·.out))).Pairwise (· < ·) ∧
    (reservedIds ((final progs s0 sched).lin.map (·.out))).Nodup ∧
    ∀ i ∈ reservedIds ((final progs s0 sched).lin.map (·.out)), s0.reg.pos < i := by
  have h : CInv progs s0 (final progs s0 sched) := cinv_run progs s0 sched _ (cinv_init progs s0 progs.length)
  have hfin : Op.fini ∉ (final progs s0 sched).lin.map (·.op) := by
    intro hm
    obtain ⟨e, he, heq⟩ := List.mem_map.1 hm
    have hin := h.lin_ops e he
    rw [heq] at hin
    unfold progOf at hin
    cases hp : progs[e.tid]? with
    | none => rw [hp] at hin; simp at hin
    | some p =>
      rw [hp] at hin
      exact hnf p (List.mem_of_getElem? hp) hin
  have := reserved_ids_increasing _ s0 hfin
  rw [h.lin_outs] at this
  exact ⟨this.1, this.1.imp (fun hab => Nat.ne_of_lt hab), this.2⟩

/-- … and when the threads perform no synchronisation either, the ids handed out so far are exactly
    the next ones after those handed out before the threads started, each once (e.g. n threads each
    reserving one id obtain, in lock order, `pos+1 … pos+n`). -/
theorem concurrent_reserved_consecutive (progs : List (List Op)) (s0 : St) (sched : List Nat)
    (hnf : ∀ p ∈ progs, ∀ op ∈ p, op ≠ .fini ∧ isSync op = false) :
    reservedIds ((final progs s0 sched).lin.map (·.out)) =
      List.range' (s0.reg.pos + 1) (reservedIds ((final progs s0 sched).lin.map (·.out))).length ∧
    (final progs s0 sched).st.reg.pos = s0.reg.pos + (reservedIds ((final progs s0 sched).lin.map (·.out))).length := by
  have h : CInv progs s0 (final progs s0 sched) := cinv_run progs s0 sched _ (cinv_init progs s0 progs.length)
  have hall : ∀ op ∈ (final progs s0 sched).lin.map (·.op), op ≠ .fini ∧ isSync op = false := by
    intro op hm
    obtain ⟨e, he, heq⟩ := List.mem_map.1 hm
    have hin := h.lin_ops e he
    rw [heq] at hin
    unfold progOf at hin
    cases hp : progs[e.tid]? with
    | none => rw [hp] at hin; simp at hin
    | some p =>
      rw [hp] at hin
      exact hnf p (List.mem_of_getElem? hp) op hin
  have := reserved_ids_consecutive _ s0 (fun hm => (hall _ hm).1 rfl) (fun op hm => (hall op hm).2)
  rw [h.lin_outs, h.lin_state] at this
  exact this

/-! non-vacuity: three threads; the CAS of thread 1 fails twice while thread 0 owns the lock, thread 2 spins too -/
def demoProgs : List (List Op) := [[.reserve 0, .register 0], [.reserve 1, .lookup 1], [.reserve 2]]
def demoSched : List Nat := [0, 1, 0, 1, 1, 2, 0, 1, 2, 1, 0, 2, 1, 0, 1, 0, 2, 1, 2, 2]

example : ((final demoProgs St.init demoSched).lin.map (fun e => (e.tid, e.out))) =
    [(0, .rid 1), (1, .rid 2), (0, .reg 1), (1, .tp 0), (2, .rid 3)] ∧
    (final demoProgs St.init demoSched).pcs = [.done, .done, .done] := by decide

end ParsecVerif.C37
