import ParsecVerif.Props.C03
/-!
# C17 — DTD data flush returns the last written value to the owner

A flush of datum `d` is what the runtime makes of it: an inserted task with one RW access on `d`,
placed on the owner of `d`, whose body writes back the value it received
(`parsec_dtd_insert_flush_task` / `parsec_dtd_data_flush_sndrcv`).  Corollary of C03: after every
complete run in which the flush is the last writing access of `d`, the task that ran on the owner
received, and the datum holds, the value written by the last writer of `d` in insertion order —
whichever rank that writer was placed on.
-/
namespace ParsecVerif.C17
open ParsecVerif.Dtd ParsecVerif.C03

/-- the value the last writer before position `f` leaves in `d` in the sequential execution -/
def lastWritten (p : Prog) (f d : Nat) : Nat :=
  match prevWriter p f d with
  | some w => seqStore p (w + 1) d
  | none => initVal d

theorem seqStore_eq_lastWritten (p : Prog) (f d : Nat) : seqStore p f d = lastWritten p f d := by
  simp only [lastWritten]
  cases h : prevWriter p f d with
  | none =>
    simp only []
    have := seqStore_const p d 0 f (Nat.zero_le _) (fun u _ hu => prevWriter_none p f d h u hu)
    rw [this]; rfl
  | some w =>
    simp only []
    obtain ⟨h1, _, h3⟩ := prevWriter_some p f d w h
    exact seqStore_const p d (w + 1) f (by omega) (fun u hu1 hu2 => h3 u (by omega) hu2)

theorem flush_writes (nranks d : Nat) : writesD (flushTask nranks d) d = true := by
  simp [writesD, flushTask, Mode.writes]

/-- a flush leaves the datum as it found it -/
theorem flush_identity (p : Prog) (f nranks d : Nat) (hf : p[f]? = some (flushTask nranks d)) :
    seqStore p (f + 1) d = seqStore p f d := by
  simp only [seqStore, hf]
  simp [exec, writeArgs, flushTask, Mode.writes, outVal, readsOf, readArgs, Mode.reads, upd]

/-- **C17.**  Let the flush of `d` be at position `f` of the insertion sequence and let no later task
    write `d`.  After every complete run (any workers, any interleaving): the flush task — which is
    placed on the owner of `d` — received exactly the value written by the last writer inserted before
    it, and `d` finally holds that value. -/
theorem C17_flush (p : Prog) (nw nranks f d : Nat) (ms : List Move) (hv : Valid p nw ms)
    (hc : Complete p (run p init ms)) (hf : p[f]? = some (flushTask nranks d))
    (hlast : ∀ u, f < u → writesAt p u d = false) :
    (flushTask nranks d).rank = owner nranks d ∧
    (run p init ms).obs[f]? = some [lastWritten p f d] ∧
    (run p init ms).mem d = lastWritten p f d := by
  have hflt : f < p.length := (List.getElem?_eq_some_iff.1 hf).1
  refine ⟨rfl, ?_, ?_⟩
  · rw [C03_observed p nw ms hv f (isDone_started _ f (hc.2 f hflt))]
    simp [seqObs, hf, readsOf, readArgs, flushTask, Mode.reads, seqStore_eq_lastWritten]
  · rw [(C03_sequential p nw ms hv hc).2 d, seqExec_final,
      seqStore_const p d (f + 1) p.length (by omega) (fun u hu _ => hlast u (by omega)),
      flush_identity p f nranks d hf, seqStore_eq_lastWritten]

/-- the value returned to the owner is the one computed by the last real writer: a user task `w`
    inserted before the flush, with no writer of `d` in between -/
theorem C17_last_writer (p : Prog) (f d w : Nat) (h : prevWriter p f d = some w) :
    lastWritten p f d = seqStore p (w + 1) d ∧ w < f ∧ writesAt p w d = true ∧
    ∀ u, w < u → u < f → writesAt p u d = false := by
  obtain ⟨h1, h2, h3⟩ := prevWriter_some p f d w h
  exact ⟨by simp [lastWritten, h], h1, h2, h3⟩

/-! ## non-vacuity: datum 1 written on rank 0 then on rank 2, read on rank 1, flushed to its owner
    (rank 1 of 3) -/
def ex : Prog :=
  [ { uid := 0, args := [(1, .rw)], rank := 0, kind := .user 3 },
    { uid := 1, args := [(1, .rw), (0, .r)], rank := 2, kind := .user 4 },
    { uid := 2, args := [(1, .r)], rank := 1, kind := .user 5 },
    flushTask 3 1 ]
def exRun : List Move :=
  [.ins, .ins, .start 0, .ins, .finish 0, .ins, .start 1, .finish 1, .start 2, .again 3, .finish 2, .start 3, .finish 3]

example : Valid ex 2 exRun := firstBad_none _ _ _ _ 0 (by decide)
example : isDone (run ex init exRun) 0 && isDone (run ex init exRun) 1 && isDone (run ex init exRun) 2 &&
    isDone (run ex init exRun) 3 = true := by decide
example : ex[3]? = some (flushTask 3 1) ∧ prevWriter ex 3 1 = some 1 ∧ (flushTask 3 1).rank = 1 := by decide

end ParsecVerif.C17
