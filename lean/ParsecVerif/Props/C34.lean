import ParsecVerif.Proofs.Object
/-!
# C34 — objects are destroyed exactly once when their last reference goes

* `arrays`: for EVERY class hierarchy (any depth, any subset of levels with a constructor /
  destructor) `parsec_class_initialize` builds arrays whose walk calls the present constructors
  base → derived and the present destructors derived → base, nothing else, and never reads
  outside the block it allocated.
* `shape` / `once`: for ANY number of threads, ANY programs of retains / releases / hand-offs and
  ANY interleaving of their atomic steps — provided every operation is made by a thread that
  holds a reference at that moment (the usage protocol, ghost flag `viol = false`) — at most one
  release observes 0, exactly one iff the count is 0, nothing is done to the object after it, and
  the destructors run once, in the array's order, by the thread that observed 0, followed by the
  `free` of a dynamic object.
* `locally_safe_all_schedules`: a thread-local check on the programs makes the protocol hold
  under every schedule, so the hypothesis of `once` is not vacuous for any thread count.
* `unprotected_retain_destroys_twice`, `unowned_release_destroys_early`: the hypothesis cannot be
  dropped (witnesses, replayed on the real code with a statically allocated object).
-/
namespace ParsecVerif.C34
open ParsecVerif.Object

/-! ## The arrays -/

/-- **C34, arrays.**  Initialising a not yet initialised class descriptor over any parent chain:
    the constructor walk is the base-to-derived list of present constructors, the destructor walk
    the derived-to-base list of present destructors; depth = chain length; a second call changes
    nothing. -/
theorem arrays (ch : List Level) (c : Cls) (h : c.initialized = false) :
    (classInitialize ch c).initialized = true ∧ (classInitialize ch c).depth = ch.length ∧
    runCtors (classInitialize ch c) = some (ctorOrder ch) ∧
    runDtors (classInitialize ch c) = some (dtorOrder ch) ∧
    classInitialize ch (classInitialize ch c) = classInitialize ch c := by
  have hinv := finv_fillLoop ch
  have hlen := hinv.len
  have hc := hinv.hc; have hrc := hinv.hrc; have hd := hinv.hd; have hrd := hinv.hrd
  simp only [Nat.add_zero] at hrc hrd
  have hcp : (fillLoop ch).cp = 0 := by omega
  refine ⟨by simp [classInitialize, h], by simp [classInitialize, h], ?_, ?_, by simp [classInitialize, h]⟩
  · simp only [runCtors, classInitialize, h, Bool.false_eq_true, if_false]
    apply readArr_spec
    · intro k hk
      rw [List.getElem?_set_ne (by omega)]
      have := hinv.cC k hk
      rw [hcp] at this
      exact this
    · rw [List.getElem?_set_ne (by omega), Nat.zero_add, hrc]
      exact hinv.cN
    · simp only [List.length_set]; omega
  · simp only [runDtors, classInitialize, h, Bool.false_eq_true, if_false]
    apply readArr_spec
    · intro k hk
      rw [List.getElem?_set_ne (by omega)]
      exact hinv.cD k hk
    · rw [show nCtor ch + 1 + (dtorOrder ch).length = (fillLoop ch).dp by omega,
        List.getElem?_set_self (by omega)]
    · simp only [List.length_set]; omega

/-- sequential reading: a new object of any class runs its constructors base → derived, and the
    release of its only reference runs its destructors derived → base (and frees it) -/
theorem create_release (k : Kind) (ch : List Level) (c : Cls) (h : c.initialized = false) :
    (objCreate k ch c).2 = some (ctorOrder ch) ∧ (objCreate k ch c).1.cnt = 1 ∧
    (objRelease (objCreate k ch c).1).2.1 = some (dtorOrder ch) ∧
    (objRelease (objCreate k ch c).1).2.2 = true ∧
    (objRelease (objRetain (objCreate k ch c).1)).2 = (some [], false) := by
  obtain ⟨_, _, h3, h4, _⟩ := arrays ch c h
  refine ⟨h3, rfl, ?_, ?_, ?_⟩
  · simp [objRelease, objCreate, h4]
  · simp [objRelease, objCreate]
  · simp [objRelease, objRetain, objCreate]

/-- The root descriptor `parsec_object_t_class` is statically marked initialised with NULL arrays:
    `parsec_class_initialize` leaves it alone and the constructor / destructor walks dereference
    NULL.  (Observation recorded in docs/notes/C34.md; the root class is outside C34's statement.) -/
theorem root_class_walk_undefined (ch : List Level) :
    classInitialize ch Cls.root = Cls.root ∧ runCtors Cls.root = none ∧ runDtors Cls.root = none := by
  refine ⟨rfl, rfl, rfl⟩

/-! ## The concurrent theorem -/

/-- a release that observed zero -/
def isZero : Ev → Bool
  | .release _ v => v == 0
  | _ => false
/-- an operation of the API on the object -/
def isOp : Ev → Bool
  | .retain _ _ => true
  | .release _ _ => true
  | _ => false
def dtorId : Ev → Option Nat
  | .dtor _ id => some id
  | _ => none
def isFree : Ev → Bool
  | .free _ => true
  | _ => false

def zeros (tr : List Ev) : Nat := tr.countP isZero
def dtorLog (tr : List Ev) : List Nat := tr.filterMap dtorId
def frees (tr : List Ev) : Nat := tr.countP isFree
/-- what happens after the first release that observed zero -/
def afterFirstZero : List Ev → List Ev
  | [] => []
  | e :: r => if isZero e then r else afterFirstZero r

def allDone (s : State) : Prop := ∀ (u : Nat) (th : Thread), s.thr[u]? = some th → th.pc = .done

/-- **C34, structure of every protocol-respecting execution** (any thread count, programs,
    schedule): it is `live`, `dying` or `dead` in the sense of `Object.Shape`. -/
theorem shape (cfg : Cfg) (c0 : Int) (spec : List (Nat × List Op)) (sched : List Nat)
    (h1 : 1 ≤ c0) (h2 : (((spec.map (·.1)).sum : Nat) : Int) ≤ c0)
    (hv : (run cfg (init c0 spec) sched).viol = false) :
    Shape cfg (run cfg (init c0 spec) sched) :=
  shape_run cfg sched (init c0 spec) (fun _ => shape_init cfg c0 spec h1 h2) hv

theorem live_facts (pre : List Ev) (h : ∀ e ∈ pre, liveEv e) :
    zeros pre = 0 ∧ dtorLog pre = [] ∧ frees pre = 0 ∧ ∀ z tail, isZero z = true → afterFirstZero (pre ++ z :: tail) = tail := by
  induction pre with
  | nil =>
    refine ⟨rfl, rfl, rfl, ?_⟩
    intro z tail hz
    simp [afterFirstZero, hz]
  | cons e r ih =>
    obtain ⟨i1, i2, i3, i4⟩ := ih (fun x hx => h x (List.mem_cons_of_mem _ hx))
    have he := h e List.mem_cons_self
    cases e with
    | retain t v =>
      refine ⟨by simpa [zeros, isZero] using i1, by simpa [dtorLog, dtorId] using i2, by simpa [frees, isFree] using i3, ?_⟩
      intro z tail hz
      simp [afterFirstZero, isZero, i4 z tail hz]
    | release t v =>
      simp only [liveEv] at he
      have hne : (v == 0) = false := by simp only [beq_eq_false_iff_ne, ne_eq]; omega
      refine ⟨by simpa [zeros, isZero, hne] using i1, by simpa [dtorLog, dtorId] using i2, by simpa [frees, isFree] using i3, ?_⟩
      intro z tail hz
      simp [afterFirstZero, isZero, hne, i4 z tail hz]
    | dtor t id => exact absurd he (by simp [liveEv])
    | free t => exact absurd he (by simp [liveEv])

theorem tail_facts (cfg : Cfg) (t : Nat) (done : List Nat) :
    zeros (done.map (Ev.dtor t)) = 0 ∧ dtorLog (done.map (Ev.dtor t)) = done ∧ frees (done.map (Ev.dtor t)) = 0 ∧
    (∀ x ∈ done.map (Ev.dtor t), isOp x = false) ∧
    zeros (freeEv cfg t) = 0 ∧ dtorLog (freeEv cfg t) = [] ∧ (∀ x ∈ freeEv cfg t, isOp x = false) ∧
    frees (freeEv cfg t) = (if cfg.kind = .dyn then 1 else 0) := by
  refine ⟨?_, ?_, ?_, ?_, ?_, ?_, ?_, ?_⟩
  · simp [zeros, isZero]
  · induction done with
    | nil => rfl
    | cons d r ih => simpa [dtorLog, dtorId] using ih
  · simp [frees, isFree]
  · intro x hx
    obtain ⟨d, _, rfl⟩ := List.mem_map.1 hx
    rfl
  · cases hk : cfg.kind <;> simp [freeEv, hk, zeros, isZero]
  · cases hk : cfg.kind <;> simp [freeEv, hk, dtorLog, dtorId]
  · cases hk : cfg.kind <;> simp [freeEv, hk, isOp]
  · cases hk : cfg.kind <;> simp [freeEv, hk, frees, isFree]

/-- **C34, exactly once.**  For every configuration, thread count, programs and schedule in which
    every retain / release / hand-off is made by a thread holding a reference:
    (a) at most one release observes zero; (b) exactly one iff the count is 0;
    (c) no retain or release follows it — it is the last operation on the object;
    (d) the destructor calls made so far are a prefix of the class's destructor array (derived →
        base, none twice);
    (e) while the count is not 0 no destructor has run and nothing was freed;
    (f) at most one `free`, only for a dynamic object and only after all destructors. -/
theorem once (cfg : Cfg) (c0 : Int) (spec : List (Nat × List Op)) (sched : List Nat)
    (h1 : 1 ≤ c0) (h2 : (((spec.map (·.1)).sum : Nat) : Int) ≤ c0)
    (hv : (run cfg (init c0 spec) sched).viol = false) :
    zeros (run cfg (init c0 spec) sched).trace ≤ 1 ∧
    (zeros (run cfg (init c0 spec) sched).trace = 1 ↔ (run cfg (init c0 spec) sched).cnt = 0) ∧
    (∀ x ∈ afterFirstZero (run cfg (init c0 spec) sched).trace, isOp x = false) ∧
    dtorLog (run cfg (init c0 spec) sched).trace <+: cfg.dtors ∧
    ((run cfg (init c0 spec) sched).cnt ≠ 0 →
      dtorLog (run cfg (init c0 spec) sched).trace = [] ∧ frees (run cfg (init c0 spec) sched).trace = 0) ∧
    frees (run cfg (init c0 spec) sched).trace ≤ 1 ∧
    (frees (run cfg (init c0 spec) sched).trace = 1 →
      cfg.kind = .dyn ∧ dtorLog (run cfg (init c0 spec) sched).trace = cfg.dtors) := by
  have hs := shape cfg c0 spec sched h1 h2 hv
  generalize run cfg (init c0 spec) sched = s at hs
  cases hs with
  | live hl hc _ _ =>
    obtain ⟨z, d, f, _⟩ := live_facts s.trace hl
    refine ⟨by omega, ⟨fun h => by omega, fun h => by omega⟩, ?_, by rw [d]; exact List.nil_prefix, fun _ => ⟨d, f⟩, by omega, fun h => by omega⟩
    intro x hx
    have : afterFirstZero s.trace = [] := by
      clear z d f
      generalize s.trace = tr at hl
      induction tr with
      | nil => rfl
      | cons e r ih =>
        have he := hl e List.mem_cons_self
        have hr := ih (fun x hx => hl x (List.mem_cons_of_mem _ hx))
        cases e with
        | retain t v => simpa [afterFirstZero, isZero] using hr
        | release t v =>
          simp only [liveEv] at he
          have hne : (v == 0) = false := by simp only [beq_eq_false_iff_ne, ne_eq]; omega
          simpa [afterFirstZero, isZero, hne] using hr
        | dtor t id => exact absurd he (by simp [liveEv])
        | free t => exact absurd he (by simp [liveEv])
    rw [this] at hx
    cases hx
  | dying t pre done rest ht hl hc _ hd hr _ =>
    obtain ⟨z, d, f, a⟩ := live_facts pre hl
    obtain ⟨tz, td, tf, top, _⟩ := tail_facts cfg t done
    have hzero : isZero (Ev.release t 0) = true := rfl
    have e1 : zeros s.trace = 1 := by
      rw [ht]; simp only [zeros, List.countP_append, List.countP_cons, hzero, if_true] at z tz ⊢; omega
    have e2 : dtorLog s.trace = done := by
      rw [ht]; simp only [dtorLog, List.filterMap_append, List.filterMap_cons, dtorId] at d td ⊢; rw [d, td]; rfl
    have e3 : frees s.trace = 0 := by
      rw [ht]; simp only [frees, List.countP_append, List.countP_cons, isFree] at f tf ⊢; simp [f, tf]
    refine ⟨by omega, ⟨fun _ => hc, fun _ => e1⟩, ?_, ?_, fun h => absurd hc h, by omega, fun h => by omega⟩
    · rw [ht, a _ _ hzero]; exact top
    · rw [e2, ← hd]; exact List.prefix_append _ _
  | dead t pre ht hl hc _ _ =>
    obtain ⟨z, d, f, a⟩ := live_facts pre hl
    obtain ⟨tz, td, tf, top, fz, fd, fop, ff⟩ := tail_facts cfg t cfg.dtors
    have hzero : isZero (Ev.release t 0) = true := rfl
    have e1 : zeros s.trace = 1 := by
      rw [ht]; simp only [zeros, List.countP_append, List.countP_cons, hzero, if_true] at z tz fz ⊢; omega
    have e2 : dtorLog s.trace = cfg.dtors := by
      rw [ht]; simp only [dtorLog, List.filterMap_append, List.filterMap_cons, dtorId] at d td fd ⊢; rw [d, td, fd]; simp
    have e3 : frees s.trace = (if cfg.kind = .dyn then 1 else 0) := by
      rw [ht]; simp only [frees, List.countP_append, List.countP_cons, isFree] at f tf ff ⊢; simp [f, tf, ff]
    refine ⟨by omega, ⟨fun _ => hc, fun _ => e1⟩, ?_, by rw [e2]; exact List.prefix_refl _, fun h => absurd hc h, ?_, ?_⟩
    · rw [ht, a _ _ hzero]
      intro x hx
      rcases List.mem_append.1 hx with hx | hx
      · exact top x hx
      · exact fop x hx
    · rw [e3]; split <;> omega
    · intro h
      rw [e3] at h
      refine ⟨?_, e2⟩
      cases hk : cfg.kind with
      | dyn => rfl
      | sta => simp [hk] at h

/-- **C34, completion.**  When every thread has finished and the count is 0, all destructors of
    the class have run, in order, exactly once, and a dynamic object was freed exactly once. -/
theorem quiescent (cfg : Cfg) (c0 : Int) (spec : List (Nat × List Op)) (sched : List Nat)
    (h1 : 1 ≤ c0) (h2 : (((spec.map (·.1)).sum : Nat) : Int) ≤ c0)
    (hv : (run cfg (init c0 spec) sched).viol = false)
    (hq : allDone (run cfg (init c0 spec) sched)) (h0 : (run cfg (init c0 spec) sched).cnt = 0) :
    dtorLog (run cfg (init c0 spec) sched).trace = cfg.dtors ∧
    frees (run cfg (init c0 spec) sched).trace = (if cfg.kind = .dyn then 1 else 0) := by
  have hs := shape cfg c0 spec sched h1 h2 hv
  generalize run cfg (init c0 spec) sched = s at hs hq h0
  cases hs with
  | live _ hc _ _ => omega
  | dying t pre done rest _ _ _ _ _ _ ho =>
    obtain ⟨⟨th, h1, h2⟩, _⟩ := ho
    have := hq t th h1
    rw [h2] at this
    cases this
  | dead t pre ht hl hc _ _ =>
    obtain ⟨z, d, f, a⟩ := live_facts pre hl
    obtain ⟨tz, td, tf, top, fz, fd, fop, ff⟩ := tail_facts cfg t cfg.dtors
    constructor
    · rw [ht]; simp only [dtorLog, List.filterMap_append, List.filterMap_cons, dtorId] at d td fd ⊢; rw [d, td, fd]; simp
    · rw [ht]; simp only [frees, List.countP_append, List.countP_cons, isFree] at f tf ff ⊢; simp [f, tf, ff]

/-- **The protocol hypothesis is satisfiable under every schedule**: if each thread's program,
    checked alone against the references it starts with, never operates empty-handed, then no
    schedule produces a protocol violation — hence `once` and `quiescent` apply to ALL schedules
    of such programs. -/
theorem locally_safe_all_schedules (cfg : Cfg) (c0 : Int) (spec : List (Nat × List Op)) (sched : List Nat)
    (hs : locallySafe (init c0 spec).thr = true) : (run cfg (init c0 spec) sched).viol = false :=
  safe_run cfg sched (init c0 spec) rfl (allSafe_of_locallySafe _ hs)

/-! ## The hypothesis cannot be dropped (witnesses; replayed on the real code, corpus 003/004) -/

/-- one thread owning the only reference of a static object releases it, then retains and
    releases again: two releases observe zero and destructor 7 runs twice -/
theorem unprotected_retain_destroys_twice :
    zeros (run ⟨.sta, [7]⟩ (init 1 [(1, [.release, .retain, .release])]) [0, 0, 0, 0, 0, 0]).trace = 2 ∧
    dtorLog (run ⟨.sta, [7]⟩ (init 1 [(1, [.release, .retain, .release])]) [0, 0, 0, 0, 0, 0]).trace = [7, 7] ∧
    (run ⟨.sta, [7]⟩ (init 1 [(1, [.release, .retain, .release])]) [0, 0, 0, 0, 0, 0]).viol = true := by
  decide

/-- a thread that holds nothing releases: the object is destroyed while thread 0 still holds its
    reference, and thread 0's own later release drives the count to −1 -/
theorem unowned_release_destroys_early :
    (run ⟨.sta, [7]⟩ (init 1 [(1, [.release]), (0, [.release])]) [0, 1, 1, 1, 0]).trace =
      [.release 1 0, .dtor 1 7, .release 0 (-1)] ∧
    (run ⟨.sta, [7]⟩ (init 1 [(1, [.release]), (0, [.release])]) [0, 1, 1, 1, 0]).viol = true := by
  decide

/-! ## Non-vacuity -/

/-- `arrays` on a depth-4 hierarchy with mixed levels (class k4231 of the harness family) -/
example : runCtors (classInitialize (chainOf [4, 2, 3, 1]) Cls.fresh) = some [4, 42] ∧
    runDtors (classInitialize (chainOf [4, 2, 3, 1]) Cls.fresh) = some [423, 4] ∧
    (classInitialize (chainOf [4, 2, 3, 1]) Cls.fresh).depth = 5 := by decide

/-- `once`: three threads, a hand-off, the zero-observing release is made by thread 1 and thread 2
    is scheduled between the two destructors -/
example : (run ⟨.dyn, [43, 4]⟩ (init 2 [(1, [.retain, .give 1, .release]), (1, [.release, .release]), (0, [])])
      [0, 1, 2, 0, 1, 0, 0, 1, 1, 2, 1]).trace =
      [.retain 0 3, .release 1 2, .release 0 1, .release 1 0, .dtor 1 43, .dtor 1 4, .free 1] ∧
    (run ⟨.dyn, [43, 4]⟩ (init 2 [(1, [.retain, .give 1, .release]), (1, [.release, .release]), (0, [])])
      [0, 1, 2, 0, 1, 0, 0, 1, 1, 2, 1]).viol = false := by decide

/-- `locally_safe_all_schedules`: its hypothesis holds for programs that do destroy the object -/
example : locallySafe (init 3 [(2, [.release, .retain, .release, .release]), (1, [.retain, .release, .release])]).thr = true := by
  decide

end ParsecVerif.C34
