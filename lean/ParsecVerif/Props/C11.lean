import ParsecVerif.Proofs.FourCounterA4
/-!
# C11 — four-counter distributed termination detection is safe and live

Model: `ParsecVerif.FourCounter` (mirrors `parsec/mca/termdet/fourcounter/termdet_fourcounter_module.c`
handler by handler, assertions compiled out).  `Reach n s`: `s` is reachable from the initial state of
an `n`-process run by ANY sequence of operations — module API calls made by the application on any
process (workload changes, outgoing_message_start, incoming_message_start / _end, taskpool_ready) and
deliveries of control and application messages in ANY order (a superset of FIFO channels).
Application discipline (guards of `step`): a process sends only while it has work; work appears on
a workless process only before `taskpool_ready` or while an incoming message is being processed.
Counters are natural numbers (the C code uses `uint32_t`; assumption: fewer than 2^32-1 messages).
-/
namespace ParsecVerif.C11
open ParsecVerif.FourCounter

/-- **Safety.**  In every reachable state, if some process has declared the taskpool terminated then
    every process is workless with an idle (or terminated) monitor, no application message is in
    flight or half-received, and the global counters agree. -/
theorem C11_safe {n : Nat} {s : State} (hr : Reach n s) {p : Nat} (hp : p < n)
    (ht : (s.procs p).st = .term) :
    (∀ q, q < n → (s.procs q).wl = 0 ∧ (s.procs q).opn = 0 ∧
        ((s.procs q).st = .idleWP ∨ (s.procs q).st = .term)) ∧
    appCount s.net = 0 ∧
    sumTo n (fun q => (s.procs q).ms) = sumTo n (fun q => (s.procs q).mr) := by
  obtain ⟨hI, hn⟩ := Inv.reach hr
  subst hn
  have hroot : (s.procs 0).st = .term := cls_eq_3.1 (hI.st.tr p hp (cls_eq_3.2 ht))
  have hq := hI.fi.q hroot
  refine ⟨hq.1, by rw [appCount_eq_cnt]; exact hq.2, ?_⟩
  have h6 := hI.hi.h6
  have : transit s = 0 := by
    unfold transit
    rw [appCount_eq_cnt, hq.2, sumTo_zero (fun q hq' => (hq.1 q hq').2.1)]
  omega

/-- The termination callback has run exactly once on the terminated processes, never on the others. -/
theorem C11_once {n : Nat} {s : State} (hr : Reach n s) {q : Nat} (hq : q < n) :
    (s.procs q).cbs = if (s.procs q).st = .term then 1 else 0 := by
  obtain ⟨hI, hn⟩ := Inv.reach hr
  subst hn; exact hI.fi.cb q hq

/-- runs made of deliveries of control messages only -/
inductive DRun : State → Nat → State → Prop where
  | nil (s : State) : DRun s 0 s
  | cons {s s1 s2 : State} {k m : Nat} : step s (.deliver k) = some s1 → DRun s1 m s2 → DRun s (m + 1) s2

/-- **Agreement.**  Once one process has terminated, every delivery terminates exactly one more
    process, so at most `n - numTerm s` deliveries are possible, and when none is possible any more
    every process has terminated: the DOWN(true) wave reaches all. -/
theorem C11_agree {n : Nat} {s s' : State} {m : Nat} (hr : Reach n s) {p : Nat} (hp : p < n)
    (ht : (s.procs p).st = .term) (hrun : DRun s m s') :
    numTerm s' = numTerm s + m ∧ m ≤ n - numTerm s ∧
    ((∀ k, step s' (.deliver k) = none) → AllTerm s') := by
  obtain ⟨hI, hn⟩ := Inv.reach hr
  have hroot : (s.procs 0).st = .term := cls_eq_3.1 (hI.st.tr p (hn ▸ hp) (cls_eq_3.2 ht))
  clear ht hp
  induction hrun with
  | nil s =>
    refine ⟨rfl, Nat.zero_le _, fun hstuck => ?_⟩
    rcases term_progress hI hroot with t | ⟨k, s1, hk⟩
    · exact t
    · rw [hstuck k] at hk; cases hk
  | @cons s0 s1 s2 k m hk _ ih =>
    have hr1 : Reach n s1 := Reach.step _ hr hk
    obtain ⟨hI1, hn1⟩ := Inv.reach hr1
    obtain ⟨e1, hroot1⟩ := term_deliver hI hroot hk
    obtain ⟨a, b, c⟩ := ih hr1 hI1 hn1 hroot1
    have := numTerm_le s2
    refine ⟨by omega, ?_, c⟩
    have : numTerm s1 ≤ n := by have := numTerm_le s1; omega
    omega

/-- progress half of agreement, as a statement on one state -/
theorem C11_agree_progress {n : Nat} {s : State} (hr : Reach n s) {p : Nat} (hp : p < n)
    (ht : (s.procs p).st = .term) : AllTerm s ∨ ∃ k s', step s (.deliver k) = some s' := by
  obtain ⟨hI, hn⟩ := Inv.reach hr
  subst hn
  exact term_progress hI (cls_eq_3.1 (hI.st.tr p hp (cls_eq_3.2 ht)))

/-- The full liveness statement (NOT proved for arbitrary n; validated by exhaustive exploration of
    the compiled model for n ≤ 5, see `explore` in lean/Driver/C11.lean): from a quiescent reachable
    state every run of control-message deliveries is finite and ends with all processes terminated. -/
def C11_live : Prop :=
  ∀ n s, Reach n s → Quiescent s →
    (∃ B, ∀ m s', DRun s m s' → m ≤ B) ∧
    ∀ m s', DRun s m s' → (∀ k, step s' (.deliver k) = none) → AllTerm s'

/-- **Liveness, proved part.**  From a reachable quiescent state (every monitor idle or terminated,
    no work, no application message anywhere): the control protocol is not stuck unless every
    process has terminated, and every delivery leads to a quiescent state again — so along every run
    of deliveries, whenever no delivery is possible every process has terminated (deadlock freedom).
    Missing w.r.t. `C11_live`: the bound on the length of such runs. -/
theorem C11_live_partial {n : Nat} {s : State} (hr : Reach n s) (hq : Quiescent s) :
    (AllTerm s ∨ ∃ k s', step s (.deliver k) = some s') ∧
    ∀ m s', DRun s m s' → Quiescent s' ∧ Reach n s' ∧
      ((∀ k, step s' (.deliver k) = none) → AllTerm s') := by
  have key : ∀ {s : State}, Reach n s → Quiescent s → AllTerm s ∨ ∃ k s', step s (.deliver k) = some s' := by
    intro s hr hq
    exact quiescent_no_deadlock (Inv.reach hr).1 (Live.reach hr) hq
  refine ⟨key hr hq, ?_⟩
  intro m s' hrun
  induction hrun with
  | nil s =>
    refine ⟨hq, hr, fun hstuck => ?_⟩
    rcases key hr hq with t | ⟨k, s1, hk⟩
    · exact t
    · rw [hstuck k] at hk; cases hk
  | cons hk _ ih =>
    exact ih (Reach.step _ hr hk) (quiescent_deliver (Inv.reach hr).1 hq hk)

/-- **The assertions of the message handlers cannot fire.**  Whenever a control message in flight is
    addressed to a monitor that is ready: an UP message finds the monitor waiting for children with
    `nb_child_left > 0`; a DOWN message finds it waiting for its parent with
    `nb_child_left = nb_children`, and idle if the message says "terminate". -/
theorem C11_asserts {n : Nat} {s : State} (hr : Reach n s) {pk : Packet} (hm : pk ∈ s.net)
    (hready : (s.procs pk.dst).st ≠ .notReady) :
    match pk.kind with
    | .up _ _ => ((s.procs pk.dst).st = .busyWC ∨ (s.procs pk.dst).st = .idleWC) ∧ 0 < (s.procs pk.dst).ncl
    | .down res => ((s.procs pk.dst).st = .busyWP ∨ (s.procs pk.dst).st = .idleWP) ∧
        (s.procs pk.dst).ncl = nbChildren n pk.dst ∧ (res = true → (s.procs pk.dst).st = .idleWP)
    | .app => True := by
  obtain ⟨hI, hn⟩ := Inv.reach hr
  subst hn
  obtain ⟨k, hk⟩ := List.getElem?_of_mem hm
  have hr' : cls (s.procs pk.dst).st ≠ 0 := fun e => hready (cls_eq_0.1 e)
  split
  · rename_i a b hkind
    obtain ⟨_, h1, hncl, _⟩ := hI.st.absorb hk hkind hr'
    exact ⟨cls_eq_1.1 h1, hncl⟩
  · rename_i res hkind
    cases res with
    | false =>
      obtain ⟨_, a2, _, _, hme⟩ := hI.st.downF
        (v := { s.procs pk.dst with accS := 0, accR := 0, st := .busyWC }) hk hkind hr' rfl rfl rfl rfl
      exact ⟨cls_eq_2.1 a2, hI.st.ncl2 _ hme a2, fun e => by cases e⟩
    | true =>
      obtain ⟨_, a2, r3, _, hme⟩ := hI.st.downT
        (v := { s.procs pk.dst with st := .term }) hk hkind rfl rfl rfl
      refine ⟨cls_eq_2.1 a2, hI.st.ncl2 _ hme a2, fun _ => ?_⟩
      rcases ((hI.fi.q (cls_eq_3.1 r3)).1 _ hme).2.2 with t | t
      · exact t
      · rw [t] at a2; simp [cls] at a2
  · trivial

/-- the composite `taskpool_ready` of the driver (mark ready, then replay the delayed messages in
    order) stays within the reachable states, so all theorems apply to the runs compared with the
    real code -/
theorem C11_ready_reach {n : Nat} {s s' : State} {p : Nat} (h : Reach n s)
    (hs : readyFull s p = some s') : Reach n s' := readyFull_reach h hs

/-! ### Non-vacuity: the hypotheses are satisfiable on non-trivial runs -/

def runActs : List Action → State → Option State
  | [], s => some s
  | a :: t, s => (step s a).bind (runActs t)

theorem runActs_reach {n : Nat} (l : List Action) {s s' : State} (h : Reach n s)
    (hs : runActs l s = some s') : Reach n s' := by
  induction l generalizing s with
  | nil => simp [runActs] at hs; subst hs; exact h
  | cons a t ih =>
    simp only [runActs] at hs
    cases h1 : step s a with
    | none => rw [h1] at hs; cases hs
    | some s1 => rw [h1] at hs; exact ih (Reach.step a h h1) hs

/-- two processes, one application message 0 → 1, two waves, then the DOWN(true) message -/
def demo : List Action :=
  [.addPA 0 1, .addPA 1 1, .ready 0, .ready 1, .send 0 1, .rstart 0, .addT 1 1, .rend 1,
   .addPA 0 (-1), .addPA 1 (-1), .addT 1 (-1), .deliver 0, .deliver 0, .deliver 0]

/-- after `demo` the root has terminated, process 1 is idle and a DOWN(true) message is in flight:
    the hypotheses of `C11_safe`, `C11_agree`, `C11_asserts` hold in a reachable state -/
example : (runActs demo (init 2)).map (fun s => ((s.procs 0).st, (s.procs 1).st, s.net.length, (s.procs 0).ms, (s.procs 1).mr))
    = some (.term, .idleWP, 1, 1, 1) := by decide

/-- one more delivery: both terminated, callbacks ran once each -/
example : (runActs (demo ++ [.deliver 0]) (init 2)).map
    (fun s => ((s.procs 0).st, (s.procs 1).st, (s.procs 0).cbs, (s.procs 1).cbs)) = some (.term, .term, 1, 1) := by decide

/-- a quiescent reachable state that is not terminated yet (hypotheses of `C11_live_partial`):
    both idle, first wave under way -/
example : (runActs (demo.take 11) (init 2)).map
    (fun s => ((s.procs 0).st, (s.procs 1).st, (s.procs 0).wl, (s.procs 1).wl, s.net.length))
    = some (.idleWC, .idleWP, 0, 0, 1) := by decide

end ParsecVerif.C11
