import ParsecVerif.Model.FourCounter
namespace ParsecVerif.C11
end ParsecVerif.C11
