/-
  C27 — arenas and memory pools never hand out a block twice.

  "Blocks obtained from an arena or a thread memory pool are aligned as requested, at least as large
  as asked, and never handed to a second owner before being released; an arena with an allocation
  limit refuses allocations beyond it and keeps at most its cache limit of released blocks."

  Model: `Model/Arena.lean` — parsec/arena.c (`parsec_arena_allocate_device_private`,
  `parsec_arena_get_chunk`, `parsec_arena_release_chunk`, `parsec_arena_construct_ex`, the
  `PARSEC_ALIGN` arithmetic) as a concurrent machine with one transition per shared-memory action,
  for ANY number of threads, ANY programs of allocations (any counts) and releases, ANY set of
  failing `data_malloc` calls and EVERY schedule; parsec/mempool.{c,h} as per-owner stacks.

  Explicit hypotheses of the model (see the header of the model file):
  * H-LIFO: a LIFO push / pop is one atomic stack operation.  This is property C30
    (`ParsecVerif.C30.C30_linearizable`: parsec_lifo_t is linearizable for every schedule);
  * H-MALLOC: `data_malloc` returns storage that is not in use (fresh chunk identifiers);
  * H-INT: `used`, `released` and the address arithmetic do not wrap (stated where it is used);
  * sequentially consistent interleaving of the atomic operations.

  The last clause of the property ("keeps at most its cache limit") is FALSE of the code under
  concurrency: `parsec_arena_release_chunk` tests `released < max_released` and increments afterwards.
  `C27_cache_full_false` is a kernel-checked witness (replayed on the real code by the check,
  corpus/C27/001); the parts that are true are `C27_cache_seq` (sequential use: bound exact) and
  `C27_cache_conc_partial` (all schedules: bound + threads − 1, which the witness shows to be reached).
-/
import ParsecVerif.Proofs.ArenaStep
import ParsecVerif.Proofs.ArenaLayout
import ParsecVerif.Proofs.ArenaPool

namespace ParsecVerif.C27
open ParsecVerif.Arena

/-! ## never handed to a second owner before being released -/

/-- in every prefix (in time) of the event trace, chunk `x` has been returned by an allocation at most
    once more than it has been released, and never released more often than returned: the events of
    `x` alternate `got`, `rel`, `got`, … -/
def TraceOK (tr : List Ev) : Prop :=
  ∀ x p, p <:+ tr → rels x p ≤ gots x p ∧ gots x p ≤ rels x p + 1

theorem traceOK_foldl (cfg : Cfg) (sched : List Nat) :
    ∀ s : State, Inv cfg s → TraceOK s.trace → TraceOK (sched.foldl (step cfg) s).trace := by
  induction sched with
  | nil => intro s _ h; exact h
  | cons t l ih =>
    intro s hi ht
    apply ih (step cfg s t) (hi.step t)
    rcases trace_step' cfg s t with h | ⟨e, h⟩
    · rw [h]; exact ht
    · intro x p hp
      rw [h] at hp
      rcases List.suffix_cons_iff.1 hp with hp | hp
      · subst hp
        rw [← h]
        have h1 := (hi.step t).tr x
        have h2 := (hi.step t).held_le_one x
        omega
      · exact ht x p hp

/-- **Exclusive ownership**, every configuration, every number of threads, every program, every
    schedule.  (1) In every reachable state a chunk is in at most one place among: the arena's cache,
    the chunks held by each thread, the chunk a thread is in the middle of allocating or releasing.
    (2) In the history, between two allocations that return the same chunk there is a release of it
    (and nobody releases what it has not been given). -/
theorem C27_unique_owner (cfg : Cfg) (progs : List (List Op)) (sched : List Nat) :
    (∀ x, total (ind x) (run cfg progs sched) ≤ 1) ∧ TraceOK (run cfg progs sched).trace := by
  refine ⟨fun x => (Inv.run cfg progs sched).places_le_one x, ?_⟩
  apply traceOK_foldl cfg sched _ (Inv.init cfg progs)
  intro x p hp
  have : p = [] := by simpa [Arena.init] using hp
  subst this
  simp [gots, rels]

/-- conservation: what `data_malloc` produced is, counted with any weight, exactly what is cached,
    held, in flight or given back to `data_free` — nothing is lost, nothing is duplicated -/
theorem C27_conservation (cfg : Cfg) (progs : List (List Op)) (sched : List Nat) (g : Chunk → Nat) :
    total g (run cfg progs sched) + csum g (run cfg progs sched).died = csum g (run cfg progs sched).born :=
  (Inv.run cfg progs sched).ghost g

/-! ## aligned as requested, at least as large as asked -/

/-- **Layout**: for a power-of-two alignment and any chunk address (no 64-bit wrap-around), the data
    pointer computed by `parsec_arena_allocate_device_private` is aligned, lies behind the chunk
    header, and `count` elements fit before the end of the `chunkSize` bytes requested from the
    allocator. -/
theorem C27_aligned_sized (L : Layout) (k : Nat) (ha : L.align = 2 ^ k) (chunk count : Nat)
    (h1 : chunk + L.hdr + (2 ^ k - 1) < 2 ^ 64)
    (h2 : L.elem * count + L.align + L.hdr + (2 ^ k - 1) < 2 ^ 64) :
    dataAddr L chunk % L.align = 0 ∧ chunk + L.hdr ≤ dataAddr L chunk ∧
    dataAddr L chunk + L.elem * count ≤ chunk + chunkSize L count := by
  have hk : k ≤ 64 := by
    rcases Nat.lt_or_ge 64 k with h | h
    · have := Nat.pow_le_pow_right (n := 2) (by decide) h
      omega
    · exact h
  unfold dataAddr chunkSize
  rw [ha] at h2 ⊢
  have s1 := alignUp_spec (chunk + L.hdr) k hk h1
  have s2 := alignUp_spec (L.elem * count + 2 ^ k + L.hdr) k hk h2
  have hpos : 0 < 2 ^ k := Nat.two_pow_pos k
  generalize L.elem * count = m at *
  generalize 2 ^ k = a at *
  refine ⟨s1.1, s1.2.1, ?_⟩
  omega

/-- every alignment accepted by `parsec_arena_construct_ex` is a power of two 2^k with k ≥ 1 (so the
    hypothesis of `C27_aligned_sized` holds for every constructed arena), the element size is not 0 and
    the two limits are the memory limits divided by the element size, capped at INT32_MAX = "no limit" -/
theorem C27_construct_pow2 (elem align maxMem maxCached mu mr : Nat)
    (h : construct elem align maxMem maxCached = some (mu, mr)) :
    (∃ k, 1 ≤ k ∧ align = 2 ^ k) ∧ 0 < elem ∧ mu = min (maxMem / elem) INF ∧ mr = min (maxCached / elem) INF := by
  unfold construct at h
  split at h
  · simp at h
  · rename_i h1
    split at h
    · simp at h
    · rename_i h2
      have h3 : ¬ align ≤ 1 := fun x => h1 (Or.inl x)
      have h4 : align &&& (align - 1) = 0 := by
        by_cases e : align &&& (align - 1) = 0
        · exact e
        · exact absurd (Or.inr e) h1
      obtain ⟨k, hk⟩ := pow2_of_and align align (Nat.le_refl _) (by omega) h4
      refine ⟨⟨k, ?_, hk⟩, by omega, ?_, ?_⟩
      · cases k with
        | zero => simp at hk; omega
        | succ k => omega
      · simp only [Option.some.injEq, Prod.mk.injEq] at h
        rw [← h.1]; split <;> omega
      · simp only [Option.some.injEq, Prod.mk.injEq] at h
        rw [← h.2]; split <;> omega

theorem mem_le_sum (l : List Nat) (a : Nat) (h : a ∈ l) : a ≤ l.sum := by
  induction l with
  | nil => simp at h
  | cons b l ih =>
    simp at h
    rcases h with h | h
    · subst h; simp
    · have := ih h; simp; omega

/-- the chunk an allocation of `req` elements returns was sized for `req` elements (a cached chunk is
    only reused for single-element requests and only single-element chunks are cached) -/
theorem C27_block_fits_request (cfg : Cfg) (progs : List (List Op)) (sched : List Nat) :
    (∀ th ∈ (run cfg progs sched).thr, ∀ req c fresh, Res.got req c fresh ∈ th.out → c.count = req) ∧
    (∀ c ∈ (run cfg progs sched).cache, c.count = 1) := by
  have h := Inv.run cfg progs sched
  refine ⟨fun th hth req c fresh hr => ?_, fun c hc => ?_⟩
  · have h1 := tsum_mem_le ob _ th hth
    have h2 := h.outs
    have h3 : badRes (Res.got req c fresh) ≤ ob th := mem_le_sum _ _ (List.mem_map_of_mem hr)
    exact badReq_zero (by simp only [badRes] at h3; omega)
  · have h1 := h.ones
    have h2 := csum_mem_le bad _ c hc
    exact badReq_zero (by simp only [bad] at h2; omega)

/-! ## the allocation limit -/

/-- **Limit**: with `max_used = L` (a limit is set), in every reachable state the elements of all
    chunks in existence — held by threads, in flight, or cached — number at most `L`; in particular
    at most `L` elements are outstanding.  (`used` itself may exceed `L` transiently: it also counts
    the increments of allocations that are being refused.  A chunk that is being freed leaves the
    count at the decrement of `used`, i.e. just before `data_free` is called on it: the model makes
    that plain call part of the same transition.) -/
theorem C27_limit (cfg : Cfg) (progs : List (List Op)) (sched : List Nat) (hl : cfg.maxUsed ≠ INF) :
    total cnt (run cfg progs sched) ≤ cfg.maxUsed ∧
    tsum (fun th => csum cnt th.held) (run cfg progs sched).thr ≤ cfg.maxUsed ∧
    (run cfg progs sched).used = ((total cnt (run cfg progs sched) + tsum tpend (run cfg progs sched).thr : Nat) : Int) := by
  have h := Inv.run cfg progs sched
  have h1 := h.u2 hl
  have h2 : tsum (fun th => csum cnt th.held) (run cfg progs sched).thr ≤ tsum (own cnt) (run cfg progs sched).thr :=
    tsum_le _ _ (fun th => by simp only [own]; omega) _
  have h3 := h.u1 hl
  refine ⟨h1, ?_, ?_⟩
  · simp only [total] at h1; omega
  · omega

/-! ## the cache limit -/

/-- **Sequential use** (operations run one after the other, by any threads): the cache never holds
    more than `max_released` chunks and `released` counts them exactly. -/
theorem C27_cache_seq (cfg : Cfg) (progs : List (List Op)) (ts : List Nat) (hl : cfg.maxRel ≠ INF) :
    (runOps cfg (init progs) ts).cache.length ≤ cfg.maxRel ∧
    (runOps cfg (init progs) ts).released = ((runOps cfg (init progs) ts).cache.length : Int) := by
  have h := (Quiet.runOps hl ts (Quiet.init cfg progs)).rel
  omega

/-- sequential use is a special case of the schedules of the concurrent machine -/
theorem C27_seq_is_schedule (cfg : Cfg) (progs : List (List Op)) (ts : List Nat) :
    ∃ sched, runOps cfg (init progs) ts = run cfg progs sched := by
  obtain ⟨l, hl⟩ := runOps_sched cfg ts (init progs)
  exact ⟨l, hl⟩

/-- the clause of the property statement, at full strength -/
def CacheBoundFull : Prop :=
  ∀ (cfg : Cfg) (progs : List (List Op)) (sched : List Nat), cfg.maxRel ≠ INF →
    (run cfg progs sched).cache.length ≤ cfg.maxRel

/-- **All schedules** (the part of the cache clause that is true under concurrency): the cache holds
    at most `max_released + (threads − 1)` chunks, and `released` is never below the cache length. -/
theorem C27_cache_conc_partial (cfg : Cfg) (progs : List (List Op)) (sched : List Nat) (hl : cfg.maxRel ≠ INF) :
    (run cfg progs sched).cache.length ≤ cfg.maxRel + (progs.length - 1) ∧
    ((run cfg progs sched).cache.length : Int) ≤ (run cfg progs sched).released := by
  have h := Inv.run cfg progs sched
  have h1 := h.i1 hl
  have h2 := h.i2 hl
  rw [length_run] at h2
  omega

def witnessCfg : Cfg := ⟨⟨8, 8, 48⟩, INF, 1, []⟩
def witnessProgs : List (List Op) := [[.alloc 1, .release 0], [.alloc 1, .release 0]]
/-- both threads allocate, both pass the test `released (0) < max_released (1)`, then both increment and push -/
def witnessSched : List Nat := [0, 1, 0, 1, 0, 0, 1, 1]

/-- **The full cache clause is false of the code**: two threads, `max_released = 1`, two chunks cached. -/
theorem C27_cache_full_false : ¬ CacheBoundFull := by
  intro h
  have := h witnessCfg witnessProgs witnessSched (by decide)
  revert this
  decide

/-- the concurrent bound is reached: 3 threads, `max_released = 1`, 3 = 1 + (3 − 1) chunks cached -/
theorem C27_cache_conc_tight :
    (run witnessCfg [[.alloc 1, .release 0], [.alloc 1, .release 0], [.alloc 1, .release 0]]
      [0, 1, 2, 0, 1, 2, 0, 0, 1, 1, 2, 2]).cache.length = 3 := by
  decide

/-! ## thread memory pools -/

/-- **Memory pools**, every number of pools and every sequence of allocations (by any thread from its
    own pool) and frees (by any thread): an element is in at most one place (some pool, or the hands of
    a caller); elements in pool `t` carry owner `t`; what an allocation by `t` returns is in nobody's
    hands, carries owner `t` and is then allocated; the element size is at least what was asked and at
    least a list item. -/
theorem C27_mempool (n : Nat) (ops : List Pool.POp) :
    (∀ x, Pool.places x (Pool.prun (Pool.pinit n) ops) ≤ 1) ∧
    (∀ (t : Nat) (p : List Pool.Elt), (Pool.prun (Pool.pinit n) ops).pools[t]? = some p → ∀ e ∈ p, e.owner = t) ∧
    (∀ t e fresh, (Pool.pstep (Pool.prun (Pool.pinit n) ops) (.alloc t)).2 = .got e fresh →
        Pool.lsum (Pool.eid e.id) (Pool.prun (Pool.pinit n) ops).out = 0 ∧ e.owner = t ∧
        e ∈ (Pool.pstep (Pool.prun (Pool.pinit n) ops) (.alloc t)).1.out) ∧
    (∀ asked item, asked ≤ Pool.eltSize asked item ∧ item ≤ Pool.eltSize asked item) := by
  have h := Pool.PInv.run n ops
  refine ⟨h.uniq, h.poolOwner, fun t e fresh hr => Pool.alloc_spec h t e fresh hr, fun asked item => ?_⟩
  unfold Pool.eltSize
  split <;> omega

/-! ## non-vacuity -/

/-- a limited arena (2 elements) with 3 threads: a reachable state with the limit reached, one
    refused allocation in flight (`used` = 3 > 2) and one chunk cached -/
example : let s := run ⟨⟨8, 8, 48⟩, 2, 1, []⟩ [[.alloc 1, .release 0], [.alloc 1], [.alloc 1]] [0, 0, 1, 1, 2, 2]
    total cnt s = 2 ∧ s.used = 3 ∧ s.trace.length = 2 := by decide

example : (run ⟨⟨8, 8, 48⟩, 4, 1, [1]⟩ [[.alloc 1, .release 0, .alloc 3, .alloc 1]] [0, 0, 0, 0, 0, 0, 0, 0, 0, 0]).trace = [.got 0 0, .rel 0 0, .got 0 0] := by decide

/-- the layout theorem's hypotheses hold for a 64-byte alignment, 48-byte header, 3 elements of 100 bytes at address 4104 -/
example : dataAddr ⟨100, 64, 48⟩ 4104 = 4160 ∧ chunkSize ⟨100, 64, 48⟩ 3 = 448 := by decide

example : (runOps witnessCfg (init witnessProgs) [0, 1, 0, 1]).cache.length = 1 := by decide

example : (Pool.prun (Pool.pinit 2) [.alloc 0, .alloc 1, .free 0, .alloc 0, .free 1, .free 0]).pools = [[⟨0, 0⟩], [⟨1, 1⟩]] := by decide

end ParsecVerif.C27
