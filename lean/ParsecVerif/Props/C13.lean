import ParsecVerif.Proofs.RemoteDepMachine
/-!
# C13 — collective activations reach each destination exactly once

Model: `ParsecVerif.RemoteDep` (mirrors `parsec_remote_dep_activate`, the three child predicates,
`remote_dep_rank_to_bit/bit_to_rank`, the payload selection of `remote_dep_mpi_pack_dep`, and the
re-activation of a receiver by `parsec_remote_dep_propagate`).

Quantification: every communicator size `n ≤ 2^31`, every root, every family of destination sets
(any number of outputs, any overlap, the root possibly among the consumers), every one of the three
topologies (DTD forcing star), every delivery order of the activation messages.

The statement of C13 ("… however the destination sets of the different outputs overlap") is
`FullStatement` below.  It is FALSE of the code for the chain and the binomial topology
(`general_false_chain`, `general_false_binomial`).  What is true, and proved here:
`never_twice` (safety, always), `general_iff` / `deliveries_iff` (exactly-once ⇔ `DeliveryOK`),
`star_exactly_once` and `same_sets_exactly_once` (the partial forms of the property).
-/
namespace ParsecVerif.C13
open ParsecVerif.RemoteDep

/-- The property as stated, for one topology: every well-formed family is delivered exactly once. -/
def FullStatement (t : Topo) : Prop :=
  ∀ (n root : Nat) (outs : List Out), (mkCfg t false n root outs).WF →
    ExactlyOnce (mkCfg t false n root outs) (mkCfg t false n root outs).deliveries

theorem tree_mkCfg (t : Topo) (dtd : Bool) (n root : Nat) (outs : List Out) :
    TreeChild (mkCfg t dtd n root outs).child (2 ^ 32) := by
  unfold mkCfg; exact topo_tree _

/-- **The sends of one `parsec_remote_dep_activate`** (any child predicate, any participant): rank
    `p` sends an activation to `x` iff `p` precedes `x` in the numbering of `x`'s layer and the
    child predicate permits, i.e. iff `(p, x)` is an edge. -/
theorem sends_iff_edges (c : Cfg) (h : c.WF) (p x : Nat) : x ∈ c.sends p ↔ (p, x) ∈ c.edges :=
  c.mem_sends_iff h p x

/-- **Safety, at every moment of every run, all three topologies:** no (receiver, output) pair has been
    delivered twice, and whatever has been delivered was wanted by its receiver. -/
theorem never_twice (t : Topo) (dtd : Bool) (n root : Nat) (outs : List Out)
    (h : (mkCfg t dtd n root outs).WF) (ms : List Msg) (r k : Nat) :
    (deliveriesOf ((mkCfg t dtd n root outs).run ms).log).count (r, k) ≤ 1 ∧
    (0 < (deliveriesOf ((mkCfg t dtd n root outs).run ms).log).count (r, k) →
      (mkCfg t dtd n root outs).wanted r k = true) := by
  have hi := inv_run h (tree_mkCfg t dtd n root outs) ms
  have hc := hi.count h r k
  refine ⟨hc.1, fun hpos => ?_⟩
  obtain ⟨m, hm, hd, o, ho, hk, hr, _⟩ := hc.2.1 (by omega)
  rw [mem_wanted]
  refine ⟨fun e => ?_, o, ho, hk, hr⟩
  exact Cfg.root_not_member h (e ▸ hd ▸ hi.log_members _ (mem_dsts.2 ⟨m, hm, rfl⟩))

/-- **What exactly is delivered** once nothing is in flight (any delivery order): `(r, k)` is delivered
    (once) iff `r` consumes `k` and the rank that sends to `r` is the root or consumes `k` itself. -/
theorem delivered_count (c : Cfg) (h : c.WF) (ht : TreeChild c.child (2 ^ 32)) (ms : List Msg)
    (hq : (c.run ms).inflight = []) (r k : Nat) :
    (deliveriesOf (c.run ms).log).count (r, k) ≤ 1 ∧
    ((deliveriesOf (c.run ms).log).count (r, k) = 1 ↔
      ∃ p, (p, r) ∈ c.edges ∧ ∃ o ∈ c.outs, o.1 = k ∧ r ∈ o.2 ∧ (p = c.root ∨ p ∈ o.2)) := by
  have hi := inv_run h ht ms
  have hc := hi.count h r k
  refine ⟨hc.1, hc.2.trans ⟨?_, ?_⟩⟩
  · rintro ⟨m, hm, hd, ho⟩
    exact ⟨m.src, hd ▸ (hi.edge m (List.mem_append_right _ hm)).1, ho⟩
  · rintro ⟨p, he, ho⟩
    obtain ⟨m, hm, hd⟩ := mem_dsts.1 (hi.all_delivered h ht hq r (Cfg.edge_dst he))
    have he' := (hi.edge m (List.mem_append_right _ hm)).1
    rw [hd] at he'
    have := Cfg.edge_unique h ht he he'
    exact ⟨m, hm, hd, this ▸ ho⟩

/-- exactly-once ⇔ DeliveryOK, for any state satisfying the invariant with nothing in flight -/
theorem iff_of_inv (c : Cfg) (h : c.WF) (ht : TreeChild c.child (2 ^ 32)) (s : St) (hi : Inv c s)
    (hq : s.inflight = []) : ExactlyOnce c (deliveriesOf s.log) ↔ c.deliveryOK = true := by
  rw [deliveryOK_iff]
  have hcount := fun r k => hi.count h r k
  constructor
  · intro hx p x he
    by_cases hp : p = c.root
    · exact Or.inl hp
    · refine Or.inr (fun o ho hxo => ?_)
      have hxm : x ∈ c.members := Cfg.edge_dst he
      have hw : c.wanted x o.1 = true :=
        (mem_wanted _ _).2 ⟨fun e => Cfg.root_not_member h (e ▸ hxm), o, ho, rfl, hxo⟩
      have h1 := hx x o.1
      rw [hw, if_pos rfl] at h1
      obtain ⟨m, hm, hd, o', ho', hk', _, hsrc⟩ := (hcount x o.1).2.1 h1
      have he' := (hi.edge m (List.mem_append_right _ hm)).1
      rw [hd] at he'
      have hpm : p = m.src := Cfg.edge_unique h ht he he'
      have hoo : o' = o := out_eq_of_key_eq (keys_nodup h) ho' ho hk'
      subst hoo
      rcases hsrc with e | e
      · exact absurd (hpm.trans e) hp
      · exact hpm ▸ e
  · intro hok r k
    by_cases hw : c.wanted r k = true
    · rw [hw, if_pos rfl]
      obtain ⟨hr, o, ho, hk, hro⟩ := (mem_wanted _ _).1 hw
      have hrm : r ∈ c.members := (Cfg.mem_members h r).2 ⟨hr, o, ho, hro⟩
      obtain ⟨m, hm, hd⟩ := mem_dsts.1 (hi.all_delivered h ht hq r hrm)
      have he := (hi.edge m (List.mem_append_right _ hm)).1
      rw [hd] at he
      refine (hcount r k).2.2 ⟨m, hm, hd, o, ho, hk, hro, ?_⟩
      rcases hok _ _ he with e | e
      · exact Or.inl e
      · exact Or.inr (e o ho hro)
    · have hw' : c.wanted r k = false := by simpa using hw
      rw [hw']
      have hle := (hcount r k).1
      by_cases h1 : (deliveriesOf s.log).count (r, k) = 1
      · obtain ⟨m, hm, hd, o, ho, hk, hro, _⟩ := (hcount r k).2.1 h1
        have hrm : r ∈ c.members := hd ▸ hi.log_members _ (mem_dsts.2 ⟨m, hm, rfl⟩)
        exact absurd ((mem_wanted _ _).2 ⟨fun e => Cfg.root_not_member h (e ▸ hrm), o, ho, hk, hro⟩) hw
      · simp only [Bool.false_eq_true, if_false]; omega

/-- **C13, general form.**  For star, chain and binomial, every well-formed family and every delivery
    order: once nothing is in flight, "each remote consumer of each output has received it exactly once
    and nothing else was delivered" holds **iff** the decidable predicate `DeliveryOK` holds. -/
theorem general_iff (t : Topo) (dtd : Bool) (n root : Nat) (outs : List Out)
    (h : (mkCfg t dtd n root outs).WF) (ms : List Msg)
    (hq : ((mkCfg t dtd n root outs).run ms).inflight = []) :
    ExactlyOnce (mkCfg t dtd n root outs) (deliveriesOf ((mkCfg t dtd n root outs).run ms).log) ↔
      (mkCfg t dtd n root outs).deliveryOK = true :=
  iff_of_inv _ h (tree_mkCfg t dtd n root outs) _ (inv_run h (tree_mkCfg t dtd n root outs) ms) hq

/-- The FIFO run used by the executable `deliveries` terminates with nothing in flight within `n`
    deliveries (at most `n - 1` messages exist). -/
theorem fifo_quiescent (t : Topo) (dtd : Bool) (n root : Nat) (outs : List Out)
    (h : (mkCfg t dtd n root outs).WF) :
    ((mkCfg t dtd n root outs).runFifo (mkCfg t dtd n root outs).n (mkCfg t dtd n root outs).init).inflight = [] := by
  have ht := tree_mkCfg t dtd n root outs
  have hi := inv_runFifo h ht (mkCfg t dtd n root outs).n _ (inv_init h ht)
  rcases runFifo_progress (mkCfg t dtd n root outs) (mkCfg t dtd n root outs).n (mkCfg t dtd n root outs).init with h1 | h1
  · exact h1
  · have := hi.log_length_lt h
    rw [h1] at this
    simp [Cfg.init] at this

/-- **C13 for the executable closure** `deliveries topo root sets`: exactly-once ⇔ DeliveryOK. -/
theorem deliveries_iff (t : Topo) (dtd : Bool) (n root : Nat) (outs : List Out)
    (h : (mkCfg t dtd n root outs).WF) :
    ExactlyOnce (mkCfg t dtd n root outs) (mkCfg t dtd n root outs).deliveries ↔
      (mkCfg t dtd n root outs).deliveryOK = true := by
  have ht := tree_mkCfg t dtd n root outs
  exact iff_of_inv _ h ht _ (inv_runFifo h ht _ _ (inv_init h ht)) (fifo_quiescent t dtd n root outs h)

/-- with the star predicate every sender is the root -/
theorem star_ok (c : Cfg) (hc : c.child = starChild) : c.deliveryOK = true := by
  rw [deliveryOK_iff]
  intro p x he
  obtain ⟨L, _, hh, m, _, h2, _, h4⟩ := (c.mem_edges p x).1 he
  rw [hc] at h4
  have hm : m = 0 := by simpa [starChild] using h4
  subst hm
  rcases h2 with e | h2
  · injection e with e1 _; exact Or.inl e1
  · have := List.le_snd_of_mem_zipIdx h2; simp at this

/-- **C13 holds for the star topology** (and for DTD taskpools whatever is configured): all n, all roots,
    all families of destination sets. -/
theorem star_exactly_once (t : Topo) (dtd : Bool) (n root : Nat) (outs : List Out)
    (hstar : t = Topo.star ∨ dtd = true) (h : (mkCfg t dtd n root outs).WF) :
    ExactlyOnce (mkCfg t dtd n root outs) (mkCfg t dtd n root outs).deliveries := by
  refine (deliveries_iff t dtd n root outs h).2 (star_ok _ ?_)
  rcases hstar with e | e <;> subst e
  · unfold mkCfg; cases dtd <;> rfl
  · rfl

/-- when all outputs go to the same ranks every relay holds everything it has to forward -/
theorem same_sets_ok (c : Cfg) (h : c.WF)
    (hsame : ∀ o ∈ c.outs, ∀ o' ∈ c.outs, ∀ r, r ∈ o.2 ↔ r ∈ o'.2) : c.deliveryOK = true := by
  rw [deliveryOK_iff]
  intro p x he
  rcases Cfg.edge_src he with e | hpm
  · exact Or.inl e
  · obtain ⟨_, o', ho', hp⟩ := (Cfg.mem_members h p).1 hpm
    exact Or.inr (fun o ho _ => (hsame o' ho' o ho p).1 hp)

/-- **C13 holds for chain and binomial (all topologies) when all outputs share one destination set**:
    all n, all roots, any number of outputs. -/
theorem same_sets_exactly_once (t : Topo) (dtd : Bool) (n root : Nat) (outs : List Out)
    (h : (mkCfg t dtd n root outs).WF)
    (hsame : ∀ o ∈ outs, ∀ o' ∈ outs, ∀ r, r ∈ o.2 ↔ r ∈ o'.2) :
    ExactlyOnce (mkCfg t dtd n root outs) (mkCfg t dtd n root outs).deliveries :=
  (deliveries_iff t dtd n root outs h).2 (same_sets_ok _ h hsame)

/-! ## The unrestricted statement is false: the witnesses of DESIGN.md 5.2 -/

/-- 3 ranks, producer on rank 0, output 0 → {1,2}, output 1 → {2} -/
def witnessChain : Cfg := mkCfg .chain false 3 0 [(0, [1, 2]), (1, [2])]

/-- 4 ranks, producer on rank 0, output 0 → {1,2,3}, output 1 → {3} -/
def witnessBinomial : Cfg := mkCfg .binomial false 4 0 [(0, [1, 2, 3]), (1, [3])]

/-- **Chain (the default) loses an output**: rank 2 consumes output 1 and never receives it
    (0 sends output 0 to 1, 1 relays output 0 to 2, nobody sends output 1). -/
theorem general_false_chain : ¬ FullStatement .chain := by
  intro hfull
  have h := hfull 3 0 [(0, [1, 2]), (1, [2])] (by decide) 2 1
  revert h
  decide

/-- **Binomial loses an output** as soon as a layer has three members. -/
theorem general_false_binomial : ¬ FullStatement .binomial := by
  intro hfull
  have h := hfull 4 0 [(0, [1, 2, 3]), (1, [3])] (by decide) 3 1
  revert h
  decide

/-! ## Non-vacuity: the hypotheses are satisfiable on non-trivial configurations -/

example : witnessChain.WF ∧ witnessChain.deliveryOK = false ∧ witnessChain.deliveries = [(2, 0), (1, 0)] := by decide
example : witnessBinomial.WF ∧ witnessBinomial.deliveryOK = false := by decide
-- a family with differing sets that chain delivers correctly (nested: the relay of 3 consumes both outputs)
example : (mkCfg .chain false 5 1 [(0, [2, 3]), (4, [2, 3, 4])]).WF ∧
    (mkCfg .chain false 5 1 [(0, [2, 3]), (4, [2, 3, 4])]).deliveryOK = true ∧
    (mkCfg .chain false 5 1 [(0, [2, 3]), (4, [2, 3, 4])]).messages =
      [⟨1, 2, [0, 4]⟩, ⟨1, 4, [4]⟩, ⟨2, 3, [0, 4]⟩] := by decide
-- same sets, binomial, 6 ranks, root 2, relays forward both outputs; a non-FIFO delivery order reaches quiescence
example : (mkCfg .binomial false 6 2 [(1, [0, 3, 4, 5]), (3, [0, 3, 4, 5])]).WF ∧
    ((mkCfg .binomial false 6 2 [(1, [0, 3, 4, 5]), (3, [0, 3, 4, 5])]).run
      [⟨2, 4, [1, 3]⟩, ⟨2, 3, [1, 3]⟩, ⟨3, 5, [1, 3]⟩, ⟨2, 0, [1, 3]⟩]).inflight = [] := by decide
example : (mkCfg .star false 4 3 [(0, [0, 1]), (2, [1, 2, 3])]).WF ∧
    (mkCfg .star false 4 3 [(0, [0, 1]), (2, [1, 2, 3])]).deliveries = [(2, 2), (1, 0), (1, 2), (0, 0)] := by decide

end ParsecVerif.C13
